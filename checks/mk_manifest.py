#!/usr/bin/env python3
"""Regenerates /verif/MANIFEST.json from the table below (kept in one place so the file is always valid)."""
import json
import os

VERIF = os.path.dirname(os.path.dirname(os.path.abspath(__file__)))

BASELINE = ("cd /repo && /venv/bin/python -m pytest -ra -q -p no:cacheprovider --timeout=900 "
            "--continue-on-collection-errors")

COMMON_NOTE = ("Trusted: Lean 4.33 kernel (axioms of every property theorem audited on each run to be within "
               "{propext, Classical.choice, Quot.sound}; no sorry/native_decide/own axioms); the hand-written model is tied to "
               "/repo's working tree by the correspondence check of each run (line protocol, generated inputs) and "
               "agreement is established on those inputs only; Python/NumPy primitive semantics as mirrored in the model.")

_ST = (" Source tie (DESIGN.md section 16): the CURRENT text of {f} in /repo is translated into Lean by checks/pygen.py on every run and "
       "the kernel re-checks {t}: the translated definition equals the model's for all inputs (trusted: the translator, Mathlib's Int.land "
       "as Python's `&`, totalised list indexing). These are auxiliary obligations: a broken one triggers the failing-input search; alone - with every "
       "property theorem and the behavioural correspondence intact and no failing input found - it is reported as SOURCE-TIE-UNPROVED, not as a violation.")
SRC_TIE = {
    "C03": _ST.format(f="typeutils._to_slot_size", t="XoGen.src_to_slot_size"),
    "C05": _ST.format(f="typeutils._to_slot_size, array.iter_index", t="XoGen.src_to_slot_size, src_slot_least, src_iter_index"),
    "C04": _ST.format(f="context._align, Chunk.overlaps, Chunk.merge, XBuffer.grow (whole method), copy_to_native", t="XoGen.src_align (alignments that are powers of two), src_align_least, src_chunk_overlaps, src_chunk_merge, src_grow (the translated grow IS Alloc.Buf.grow), src_copy_to_native"),
    "C12": _ST.format(f="context._align, Chunk.size, Chunk.overlaps, Chunk.merge", t="XoGen.src_align (alignments that are powers of two), src_align_least, src_chunk_size, src_chunk_overlaps, src_chunk_merge, src_grow"),
    "C01": _ST.format(f="array.get_c_strides / get_strides / get_offset / mk_order", t="XoGen.src_get_c_strides, src_get_strides, src_get_offset, src_item_offset, src_mk_order_*, src_iter_index"),
    "C02": _ST.format(f="array.get_c_strides / get_strides", t="XoGen.src_get_c_strides, src_get_strides"),
    "C06": _ST.format(f="array.get_c_strides / get_strides / get_offset / mk_order", t="XoGen.src_get_c_strides, src_get_strides, src_get_offset, src_item_offset, src_mk_order_*"),
    "C13": _ST.format(f="context_cpu.BufferNumpy / BufferByteArray .update_from_native, .to_native, .copy_to_native, .update_from_buffer, .to_bytearray",
                      t="XoGen.src_update_from_native, src_to_native, src_copy_to_native, src_update_from_buffer, src_update_from_xbuffer, src_grow (the translated methods of both kinds are the BufPrim functions inside capacity)"),
    "C09": _ST.format(f="context.XBuffer.update_from_xbuffer (the cross-buffer / cross-context byte transfer)", t="XoGen.src_update_from_xbuffer"),
    "C11": _ST.format(f="array.bound_check", t="XoGen.src_bound_check (IndexError exactly when the model's boundCheck refuses)"),
}

LAY = "Lean 4 proof over the layout proof model (patch-list writer `patchesD`, view reader `readD`) for the reference-free grammar incl. N-D arrays of static/dynamic items in any axis order: mutual structural induction over types/fields/items with the agreement-strengthened round trip and the frame lemma; the proof model's definitions are executed against the real library on every reference-free case of every run (whole-buffer image), the executable full-grammar model on all cases; "

# id -> (technique, level text, level note extra, design ref)
CHECKS = {
    "C04": ("Lean 4 proof: invariant by induction over all allocate/free/grow/write histories of the allocator model; "
            "model tied to XBuffer by differential line protocol; shadow-bitmap oracle for failing-input search",
            "Kernel-checked theorems (C04_alloc/free/grow/step/reachable/aligned) over the executable model of "
            "XBuffer.allocate/grow/free and the buffer bytes: for every initial capacity, power-of-two alignment, grow step and "
            "every finite history, live regions stay in bounds, pairwise disjoint, disjoint from free space, aligned when handed "
            "out, and keep the bytes last stored in them across growth. The tie compares offset, capacity, free total, chunk list "
            "and a checksum of the whole storage after every operation on both CPU buffer kinds.",
            "Storage relocation is modelled as prefix copy into zeroed storage; NumPy/bytearray slice semantics are covered by C13.",
            "7/C04"),
    "C12": ("Lean 4 proof: refinement of the free-list code to a 'least aligned fitting address' specification, termination "
            "measure for the retry loop, byte accounting by counting; differential tie; bitmap first-fit oracle",
            "Kernel-checked theorems: C12_first_fit (served without growth from the least aligned fitting address), "
            "C12_grow_only_if_needed, C12_capacity_mono, C12_total (the retry loop always returns when grow_step is unset or "
            "positive: the model's round budget size+alignment+1 is proved never exhausted), C12_free_full/free_exact (free has "
            "no failing branch, also on an empty free list, and frees exactly the region), C12_coalesce, C12_getFree_counts and "
            "C12_accounting (free + live + lost-to-padding = capacity over every history, lost < alignment per aligned request).",
            "Zero-size regions are invisible to byte-level statements (coalescing is stated for a positive combined size).",
            "7/C12"),
    "C14": ("Lean 4 proof: loop invariant of the worklist topological sort (counts of unprocessed parents, no duplicates, "
            "positional order), completeness by induction on an acyclicity rank; differential tie on random graphs and real class "
            "universes; independent DFS/position oracle and real add_kernels builds",
            "Kernel-checked theorems over the executable model of topological_sort for every closed dependency source "
            "(any multiplicity of edges, any insertion order): C14_fuel (the loop terminates within keys+1 rounds), C14_once "
            "(no duplicates, exactly the classes of the source), C14_order (every dependency strictly before its dependent), "
            "C14_cycle_iff / C14_cycle_reported (the cycle flag is raised exactly for non-acyclic graphs), C14_closure (the on-line "
            "closure loop of sort_classes collects exactly the classes reachable through the dependency lists, each once, and builds "
            "a closed source with distinct keys: the hypothesis of the theorems above), C14_sort_classes (the list returned = the "
            "reachable classes that have an API, each exactly once), C14_kernel_classes. The tie compares the "
            "exact order returned by the real topological_sort and by the real sort_classes on generated classes of every kind.",
            "The dependency lists of real classes (_get_inner_types() + _depends_on) are inputs of the model, read from the real "
            "classes by the tie; `the emitted source compiles` is witnessed by real cffi builds (4 quick / 150 thorough), not proved.",
            "7/C14"),
    "C02": ("Lean 4 proof: loop invariant of gen_method_offset by induction over the access path (executed statement IR + static "
            "accumulator = documented address expression), for all indices, objects and memories at once; generator text tied by exact "
            "string equality with _gen_c_api(), IR semantics tied by compiled-accessor calls through cffi; oracle: compiled vs Python accessor",
            "Kernel-checked theorems over the Lean port of capi.py, which prints the accessor source from a five-form statement IR: "
            "C02_addr (for EVERY list of path parts, every index tuple, every object address and every memory - all header words "
            "at once - the offset computed by the emitted statements equals the documented layout's address expression docAddr), "
            "C02_get_set_getp, C02_typeid_member, C02_len / C02_len_static (product of the documented dimensions), C02_text (the "
            "printed offset code is the print of exactly those statements); and the link to the layout model: "
            "C02_index_is_view_index (in EVERY memory the item address the generated code computes is the address a Python view "
            "computes from the strides it caches - same constants, same header words - and for dynamically sized items the table entry "
            "stored there) and C02_array_item (on memory the writer produced, for every shape, axis order and valid index tuple that "
            "address holds the item the constructor was given for the tuple's memory position), C02_field_address (the field step - a "
            "class-level offset, or for the 2nd.. dynamically sized field the word loaded from its offset slot - lands on the field "
            "where the writer placed it), C02_static_sizes_agree / C02_field_sizes_agree (the total translation toLay of the "
            "reference-free types: both models size every type alike, so these theorems apply at every nesting level; composition "
            "along a path by C01_part_is_written), C02_path_address (the composition: for every reference-free type and every selector "
            "path of fields and index tuples ending in a scalar element, the emitted statements - given the object's address and the "
            "index arguments - compute exactly the element's offset leafAt of the layout model) and C02_getter_reads_element (the bytes "
            "the getter loads are the element the Python accessors return). The tie compares the model's text with the real "
            "_gen_c_api() byte for byte on random types and the IR semantics with the real compiled accessors on real objects.",
            "The C semantics of the printed statement forms is the trusted reading Stmt.exec, validated on every compiled accessor "
            "call of each run; that docAddr is also the address the Python view uses is a theorem for array indexing "
            "(C02_index_is_view_index) and struct fields (C02_field_address); for a step through a reference it is C02_ref_step_is_deref (the emitted `offset += *(int64_t*)(obj+offset)` lands on `deref` of the slot, negative relative offsets included); whole paths through references are witnessed by the oracle (compiled vs Python "
            "accessor on the same object) and by leafAt executed against the library's slot addresses.",
            "7/C02"),
    "C07": ("Lean 4 proof: pointwise-update semantics of the generated setter and the complete load list of every accessor by "
            "induction over the path; tie as C02 plus whole-buffer diffs around real setter calls; ASan+UBSan stand-alone builds",
            "Kernel-checked theorems: C07_set_exact (a generated setter changes exactly the value's bytes at the documented address "
            "of the addressed element and no other byte of memory, for all paths/indices/objects/memories), C07_loads (the header "
            "words read are exactly those the documented layout consults along the path), C07_accesses_get_set, C07_leaf_in_extent / "
            "C07_store_in_extent (the element at the end of every nested path of a writer-produced reference-free object lies "
            "inside the object's extent; the store changes only its bytes), C07_setter_sets_element (end to end: the store at the "
            "address the generated setter computes makes a view of the whole enclosing object read the value with exactly the "
            "addressed element replaced; uses C02_path_address). Paths through references: executed and run under the sanitizers, "
            "not a theorem.",
            "Runtime not modelled: what the C compiler emits (witnessed by clang -fsanitize=address,undefined runs with the buffer "
            "image flush against the end of an exactly sized heap block).",
            "7/C07"),
    "C15": ("Lean 4 proof: structural induction over a segmented source (slash-free literals + the four placeholders) showing the "
            "four str.replace calls only re-render placeholders; line passes are the identity on annotation-free text; exact-text tie "
            "with specialize_source on all four targets; per-source evaluation of the theorem's hypotheses by the driver",
            "Kernel-checked theorems over the Lean model of specialize_source: C15_target_text (for every segmented annotation-free "
            "source and every target the specialised text is the same segment list with each placeholder rendered by the target's "
            "table - all literal text, i.e. the whole address computation, is identical on every target), C15_same_segments, "
            "C15_tables (opencl renders gpuglmem as __global, ...), C15_no_placeholder_left. For every generated accessor API the "
            "driver computes the theorem's hypotheses, so the theorem applies to that source.",
            "Partial: that the generator puts the gpuglmem placeholder before EVERY pointer into object memory is checked by the "
            "oracle on each generated API, not proved; real device compilers are absent (host compiler with the keywords defined "
            "away). The assembly done by the GPU contexts themselves (headers + accessor sources + kernel, specialised) is run "
            "against recording stand-ins of pyopencl / cupy and compared with the cpu context's text (oracle, not a theorem).",
            "7/C15"),
    "C16": ("Lean 4 proof: equational characterisation of the two line passes (pass-through, only_for_context, include_file, "
            "block shape) and of the launch semantics (CUDA grid*block threads filtered by the guard = range n); exact-text tie; "
            "geometry taken from the real kernel classes; real CPU kernels and host-simulated GPU launches as oracle",
            "Kernel-checked theorems: C16_passthrough(_lines), C16_only_for, C16_include, C16_block_shape, C16_nested_refused, "
            "C16_cpu_same_block, and C16_once: for every n (incl. 0) and block size >= 1, with the geometry the contexts use, each "
            "target executes the block body for exactly the indices 0..n-1, each once. The tie compares the exact output text / "
            "exception class of the real specialize_source and the launch geometry of the real KernelCupy/KernelPyopencl.__call__.",
            "Partial: what the for-statement, OpenMP runtime and device schedulers do is the trusted reading execIndices; witnessed "
            "by real serial/OpenMP CPU kernels and host-simulated OpenCL/CUDA launches. A zero-sized GPU launch (n = 0) may be "
            "rejected by a real driver: cannot be exhibited here.",
            "7/C16"),
    "C13": ("Lean 4 proof: list-splice algebra of slice assignment (prefix ++ source ++ suffix), frame and length lemmas, dispatch "
            "equivalence of update_from_xbuffer, view/element arithmetic; differential tie on EVERY (offset, length) of small "
            "capacities for both buffer kinds and every primitive; byte-diff and follow-up-write aliasing oracle",
            "Kernel-checked theorems over the model of the BufferNumpy/BufferByteArray primitives, for every capacity, offset, "
            "length and source: C13_splice / C13_frame / C13_total (exactly the requested bytes at exactly the requested offsets, "
            "everything else and the length unchanged, never refused inside capacity), C13_update_from_native, C13_copy_to_native, "
            "C13_xbuffer_same (both dispatch branches of update_from_xbuffer give the same bytes), C13_self_overlap (old source "
            "contents move even when ranges overlap), C13_copy_independent, C13_view_aliases / C13_view_sees_writes (element i of "
            "a typed view IS bytes [off+i*w, off+(i+1)*w)), C13_update_from_nplike (elements in logical order, converted, dw bytes "
            "each), C13_conv_same_width. The tie compares the whole buffer image after every primitive.",
            "Partial: float astype is NumPy's (compared with NumPy by the oracle, not modelled); whether a Python object returned "
            "by a primitive aliases the buffer is a runtime fact measured by follow-up writes in both directions.",
            "7/C13"),
    "C01": (LAY + "oracle: deep read through every accessor vs the generator's intended value",
            "Kernel-checked theorems: C01_roundtrip_partial (for every well-formed reference-free type, every conforming value, every "
            "buffer image and every placement with room: the view reads back exactly the written value, a capacity as the empty "
            "string), C01_read_local (the value depends only on the bytes of the object's own extent), "
            "C01_stable_under_other_writes, C01_capacity_reads_empty, C01_part_is_written (each field / item of a written object is a "
            "written object at its offset, so every statement descends to any depth), C01_read_leaf_at_path (the bytes at the address "
            "of the scalar element at the end of any nested path are that element's value: what a leaf accessor and a C getter load). "
            "No bound on nesting depth, dimensions or sizes. C01_new_node_reads (node model, component rg: a freshly constructed node "
            "holding Ref / UnionRef fields reads its scalars as given and every reference as null, wherever the allocator places it). "
            "C01_iter_index_is_memory_order (the k-th index tuple of `iter_index(shape, order)` - the writer's item order, the glue's "
            "item order - has memory position k, for every shape and every axis permutation).",
            "Partial: references held in dynamic structs / arrays and construction from existing xobjects of the general grammar are "
            "covered by the executable model's tie and the oracle only (for nodes: C08 / C09 theorems); input-form normalisation (nested lists / ndarray / dict -> canonical value) is "
            "executable glue tied on every case.",
            "7/C01"),
    "C03": (LAY + "oracle: whole-buffer diff outside the traced reservations",
            "Kernel-checked theorems: C03_frame (every slice assignment of the writer lies inside [off, off+size): the buffer keeps its "
            "length and every byte outside the extent is unchanged, whatever it held), C03_size_static / C03_size_word_* (the size an "
            "object reports is the extent the writer stays inside), C03_static_struct_parts / C03_dynamic_struct_parts / "
            "C03_array_items_dynamic (parts inside the parent, siblings pairwise disjoint). Objects holding references (reference-graph "
            "proof model, component rg): C03_ref_ops_frame (for every operation - construct, bind to existing / to a value (new node) / "
            "to null, write through the handle or through a reference, copy, update, allocation, growth - at most the node operated on "
            "changes among the previously live regions; every other live region keeps every byte, across growth too) and "
            "C03_ref_ops_disjoint (what is newly created is disjoint from everything live and inside the storage), "
            "C03_copy_between_buffers_frame (construction in ANOTHER buffer from an existing object, referents duplicated: the source "
            "buffer is not written, every previously live region of the destination keeps every byte, all regions afterwards are "
            "pairwise disjoint and inside the storage).",
            "Partial: for references held in dynamic structs (next to other dynamic fields) the extents newly allocated for reference "
            "targets come from the traced allocate() calls (tie + oracle); dynamic arrays of references are nodes of the proven model.",
            "7/C03"),
    "C05": (LAY + "oracle: a decoder written in Python only from Architecture.md/types.rst run on the real bytes",
            "Kernel-checked theorems: C05_decode (decoding the bytes by the documented rules - size word, header words, offset slots, "
            "offset table in memory order, data - recovers the value), C05_string (size-prefixed, NUL-padded to a slot), "
            "C05_dynamic_struct / C05_offset_slot (size, static fields, offsets of the 2nd.. dynamic fields, data), C05_array_header "
            "(size, dynamic dims, strides iff N-D and dynamic; exactly dataOff bytes), C05_array_table, and the slot-alignment facts "
            "C05_*_slots / C05_compound_size_mod. Reference encodings (node model, component rg): C05_ref_slot_encoding (a reference slot "
            "holds the little-endian int64 `target - slot`, a union reference the member index in the next word; null = -2^63, member "
            "index -1), C05_node_slots (fields on 8-byte slots, size a whole number of slots), C05_new_node_bytes; that these bytes "
            "DEcode to the referent is C08_alias / C08_union_member / C08_null. "
            "Where reference slots sit inside dynamic structs and arrays: `toLayR` maps EVERY type to a layout-model type (a reference "
            "slot = an opaque 8-byte word, a union reference = 16 bytes), so all layout theorems apply; C05_sizes_with_references "
            "(class-level sizes agree for every type), C05_toLayR_extends_toLay; on every reference-bearing case the proof model's "
            "writer (reference words borrowed from the bytes) must reproduce the object's bytes exactly and its reader every "
            "non-reference leaf.",
            "Partial: that the borrowed reference words DEcode to the referents is the slot-level theorem (C08) applied at the slot's "
            "address, tied by the heap and rg components, not a single end-to-end theorem over the general grammar.",
            "7/C05"),
    "C06": (LAY + "oracle: _from_buffer view vs constructor handle (value, size, shape, strides; writes through either)",
            "Kernel-checked theorems: C06_view_value (a view, which re-reads every cached quantity from the bytes, reads the value the "
            "constructor was given, at every nesting level), C06_view_shape, C06_view_size (the size word equals the planned size for "
            "every dynamically sized type), C06_view_strides (the strides a view caches - class constants, header words or the item "
            "unit - are get_strides(shape, order, unit) of the constructed object, for every axis order that is a permutation of the "
            "axes), C06_item_at_index (for every shape, axis order and valid index tuple the view's address arithmetic reaches the item "
            "at the tuple's memory position and reads the item written there, directly or through the offset table) with "
            "C06_index_distinct, C06_write_seen_through_view (a store of a scalar element's bytes at its address is seen by a view of "
            "the whole enclosing object as exactly that element replaced, for every nested path).",
            "Partial: handle-side caches are Python attributes compared with the model's on every case; views through references "
            "and the stale caches of EARLIER views after a whole-element replacement (known finding O-30) are tie + oracle.",
            "7/C06"),
    "C10": (LAY + "byte-level assignment model (setScalar / rewriteStr) executed on every generated assignment; oracle: deep re-read "
            "after every assignment vs the intended value with one element replaced",
            "Kernel-checked theorems: C10_set_leaf_at_path (for every reference-free type, conforming value and nested path to a scalar "
            "element: storing the element makes a view of the whole object read the value with exactly that element replaced; size "
            "unchanged, store inside the object) and C10_set_leaf_again (closure under sequences of assignments); "
            "C10_scalar_set_get / C10_scalar_frame, C10_other_parts_unchanged(_string)_partial (any object whose extent is disjoint "
            "from the assigned slot reads as before), C10_sizes_unchanged. leafAt / updAt are executed against the library on every "
            "generated scalar assignment. C10_set_part_at_path (set a WHOLE nested struct / array / string of equal size: if the place of "
            "the part at any path receives an image of a conforming value of the same size and nothing else changes, a view of the "
            "whole object reads the value with exactly that part replaced - `setAt` - and keeps its size) and C10_assign_part_by_copy "
            "(the same for the binary copy of an existing object that `_update` performs); partAt / setAt are executed against the "
            "library on every accepted equal-size whole-part assignment of the reference-free stream. C10_array_update_value (a "
            "whole-array assignment of ANY fitting size - model Lay.updateArr = Array._update, executed on every whole-array assignment - "
            "reads back as exactly the assigned items in the assigned shape; the instance keeps its size word). C10_node_update (reference-graph proof model, component rg): `_update` of a node from a node "
            "of the same class allocates nothing, makes the fields agree (references: the same referents), keeps the reference-graph "
            "invariant - no reference of any other node is disturbed.",
            "Partial: whole-STRUCT assignments of another size that still fit (strings into their capacity: C11 theorems; arrays: "
            "C10_array_update_value), the dict / "
            "item-wise form of a compound assignment (it writes the same image, but that is tie + oracle, not a theorem) and paths "
            "through references are byte-level theorems + tie + oracle; "
            "assignments interleaved with buffer growth rest on C04 (bytes preserved) + C01_read_local; known finding O-30 (earlier "
            "views keep stale cached offsets after a same-size replacement that divides the element differently).",
            "7/C10"),
    "C11": (LAY + "refusal conditions of String._rewrite proved; image-at-the-raise compared for every malformed operation",
            "Kernel-checked theorems: C11_string_too_large / C11_capacity_too_large (refused exactly when more than the stored size is "
            "needed), C11_string_fit_frame (an accepted assignment stays inside the slot's fixed extent and keeps the size word), "
            "C11_string_fit_value, C11_scalar_never_overruns. Index refusals: C11_index_refused_iff (`bound_check` - the definition the "
            "executable reader calls - refuses exactly the tuples with more coordinates than axes or a coordinate outside [0, dim)), "
            "C11_full_index_accepted_iff (a full tuple is accepted iff it is a valid index), C11_accepted_index_inside (the item "
            "address of an accepted index leaves room for the whole item inside the array's own extent, any shape and axis order). "
            "C11_nonmember_refused (binding a node whose class is not a member of the union reference - or not the class of the plain "
            "reference - leaves the reference-graph state as it was; executed against the library's raise by the `bindbad` operations of "
            "the rg stream, also after the same class was stored through ANOTHER union). "
            "Whole-array updates (model Lay.updateArr = Array._update, executed by the lay driver on every whole-array assignment of a "
            "reference-free type): C11_array_update_shape_refused (another length / shape), C11_array_update_too_large_refused (items "
            "that need more than the size stored in the instance), C11_array_update_frame (an accepted update needs at most the "
            "instance's size, writes only inside [addr, addr + size), keeps the buffer length). "
            "Placement (model Place.decide of typeutils.allocate_on_buffer, executed against the library for all 448 combinations of "
            "context / buffer / offset arguments x 4 entry points): C11_offset_without_buffer_refused (any explicit offset - 0 included - "
            "without a buffer), C11_foreign_context_refused, C11_placement_refused_iff (these are the only refusals), "
            "C11_placement_accepted (accepted requests go to the given buffer, else a new buffer of the given / default context; a "
            "numeric offset leaves the allocator untouched). "
            "Known finding O-13 (non-atomic dict update of a nested struct) is "
            "listed in known_findings.json.",
            "Partial: that an accepted whole-array update READS BACK as the assigned value is a theorem only for values of the "
            "instance's exact size (C10_set_part_at_path); for smaller fitting values it rests on the tie and the oracle; struct "
            "updates from dictionaries are applied field by field (known finding O-13); that a refused placement leaves every buffer unchanged is "
            "an oracle on the library (the model's decision function has no state to change).",
            "7/C11"),
    "C08": ("Lean 4 proof: two's-complement relative-offset codec (encode/decode round trip over Int), null encodings, growth as prefix "
            "preservation, fresh placement = allocator theorem; executable heap model (several buffers/contexts, existing objects as "
            "values) tied on the bytes of all buffers after every step; reference-validity oracle over generated histories",
            "Kernel-checked theorems: C08_null / C08_union_null (None is -2^63 and reads back None, member index -1), C08_alias / "
            "C08_union_member (binding an object at `target` of the same buffer makes the reference denote exactly `target`, for all "
            "slot/target addresses below 2^62 - so reads and writes through the reference are reads and writes of the original's "
            "bytes), C08_growth_deref / C08_growth_value (a reference and its referent's value are unchanged by growth), "
            "C08_copy_fresh (referents created for plain data or foreign objects are placed by the allocator: in bounds and disjoint "
            "from every live object), C08_alias_value (value level: what is read through a reference is the referent's value; a "
            "store of any scalar element of the referent - through the reference, the original handle or another reference - is "
            "read by all of them as exactly that element replaced, and the reference still denotes the same object). "
            "History level (proof model Xo/Model/RefGraph.lean, executed against the library as component rg): C08_ref_history - for "
            "every universe of node classes (static structs of 8-byte scalars, Ref and UnionRef fields and static arrays of them), every initial capacity, "
            "power-of-two alignment and grow step, and EVERY finite history of construct / bind-to-existing / bind-to-value (= "
            "foreign object) / bind-to-null / write-through-original / write-through-ref / copy / other allocations / growth whose "
            "capacity stays below 2^62, the invariant holds: allocator invariant with the nodes as live regions, and every reference "
            "slot of every live node is null (member index -1) or denotes the start of a live node of the declared / recorded member "
            "class; C08_refs_resolve (the same spelled out: inside the storage, disjoint from every other live region), "
            "C08_bind_existing_aliases (nothing allocated, no byte outside the slot changes, the reference denotes that very "
            "object), C08_bind_value_fresh (a new node of the member class, disjoint from everything live before), "
            "C08_through_ref_same_address (the address computed through the reference for field j IS the address of field j of the "
            "live original), C08_bind_null, C08_two_buffer_history (TWO buffers: histories interleaving any operations inside each "
            "with copy constructions of nodes from one into the other - `xcopy`, all referents duplicated - keep the invariant in "
            "BOTH: no reference ever denotes anything outside its own buffer).",
            "Partial: the history invariant is a theorem for node classes in one or two buffers - static structs of scalars, Ref and "
            "UnionRef fields, and dynamic arrays of references (a node with a size word, a length word and n slots: tied as such, as "
            "holders and as referents); for references held in dynamic structs next to other dynamic fields and a third buffer / "
            "other contexts it is established by the oracle on generated histories against the executable heap model, not by "
            "induction in Lean.",
            "7/C08"),
    "C09": ("Lean 4 proof: window-translation lemma for patch application + the agreement-strengthened round trip => the byte copy "
            "of a written object reads as the same value anywhere; frame lemma for independence; executable heap model tied on all "
            "buffers; oracle for equality, disjointness, write isolation and referent sharing/duplication",
            "Kernel-checked theorems (reference-free types, any nesting): C09_equal_partial (the byte copy of a constructed object into "
            "ANY destination memory at ANY offset with room - same buffer, other buffer, other context - reads as the source's value, "
            "and the source still does), C09_source_unaffected (writes inside the disjoint extent of the copy never change what the "
            "source reads), C09_writes_do_not_show_through (copy inside ONE buffer at a disjoint extent: both read the value; a store "
            "of any scalar element of either is read by it as exactly that element replaced and leaves the other's value untouched), "
            "C09_copy_shares_referents (node model of C08: a copy constructed inside the same buffer is a fresh node whose scalars "
            "have the source's values and whose references denote the SAME referents - re-encoded relative to the new slots - and "
            "the reference-graph invariant holds again), C09_copy_into_other_buffer (node model, TWO buffers: copy construction "
            "into another buffer - the node and, depth first and once per path, everything it refers to - leaves the destination "
            "with its invariant, everything it held byte for byte and new nodes only; the source is only read; and for EVERY depth n "
            "the copy is indistinguishable from the source by reads along paths of n references: equal scalars, nulls, classes - "
            "by induction over the recursion, whenever it ends; a cycle never ends, as in the library), "
            "C09_copy_into_other_buffer_stable (that stays so in every later state that keeps the bytes of the nodes created), "
            "C09_acyclic_source_is_copied (the copy of a source whose reference chains are shorter than n ends with fuel n, for any "
            "consistent destination: `none` hides nothing but cycles). "
            "The model `xcopy` is executed against the library by the rg stream (xcopy / xback operations between two buffers of "
            "different kinds, capacities, alignments).",
            "Partial: copies of arrays / dynamic structs holding references (into the same or another buffer): executable heap model "
            "+ oracle only; a cyclic source dies with RecursionError in the library (the model: out of fuel) - not exercised.",
            "7/C09"),
    "C17": ("Lean 4 proof of the decision logic (positional refused, arity assertion, lookup by name) and address arithmetic "
            "(current storage + offset, first element of slices, offset + data offset) of the kernel call path; echo kernels "
            "through the real ctx.add_kernels / cffi on serial and OpenMP contexts as tie and oracle",
            "Kernel-checked theorems: C17_positional_refused, C17_arity_refused, C17_missing_refused, C17_accept_exact (an accepted call "
            "has no positional and exactly the declared named arguments and delivers one value per declared argument in order), "
            "C17_xobj_ptr (a compound object is delivered as its offset in the buffer's CURRENT storage after any history of "
            "allocate/free/grow), C17_storage_changes_on_grow, C17_array_ptr, C17_scalar, C17_ret.",
            "Partial by nature: cffi marshalling and its pointer element-type check, the C ABI and NumPy scalar conversion are "
            "runtime; witnessed on every run by echo kernels (value / address / first element / write-back, before and after "
            "buffer growth, all 10 scalar types, both CPU contexts).",
            "7/C17"),
    "C18": ("Lean 4 proof: invariant by induction over histories + one-step theorems over an abstract-heap model of HybridClass (locations = buffer + allocation + inline "
            "path; dressed caches, _movable, Python attributes) for get/set/copy/move; executable model tied on generated "
            "histories; Mirror oracle after every operation",
            "Kernel-checked theorems: C18_mirror_history (in EVERY state reached from the empty one by any sequence of constructor "
            "calls, attribute reads/writes, copies, moves and Python-attribute writes, every cached dressed child is a valid instance "
            "and the one cached for a nested field sits at the field's in-line location of its container and cannot move on its own; "
            "proved through a specification of _reinit_from_xobject that repairs the instance it is called on), "
            "C18_nested_get_mirrors, C18_num_get, C18_rename / C18_no_rename (attributes, also renamed ones, read the buffer data), "
            "C18_ref_shares (a hybrid assigned to a Ref field of the same buffer is shared: the field records its location, the "
            "attribute returns it, it becomes non-movable), C18_ref_get_mirrors (in EVERY state the attribute of a Ref field is the "
            "cached object only if the buffer refers to exactly it, else what the buffer refers to, or None), "
            "C18_ref_across_buffers_refused (refused and nothing changes), "
            "C18_ref_none, C18_move_refused (nested / referenced / reference-holding objects), C18_copy_fresh (a copy is a new "
            "allocation in the requested buffer, distinct from every existing location).",
            "Partial: the Python object graph is abstracted by hand (locations, caches, _movable, Python attributes), tied on generated "
            "histories; the Mirror oracle after every operation checks the library itself; known finding O-30 (stale cached offsets of "
            "earlier views) lies below the abstraction of the model.",
            "7/C18"),
    "C19": ("Lean 4 proof: round trip of the dictionary form with default elision and renaming (mutual induction over nesting depth "
            "and field lists, key-lookup lemmas from distinct names), of the full dictionaries stored for references, and of the "
            "JSON form of structs / 1-D arrays; real to_dict/from_dict/_to_json tied and round-tripped",
            "Kernel-checked theorems: C19_dict (for every class universe with distinct names, every nesting depth and every value: "
            "from_dict(to_dict(x)) = x; elided fields are refilled by exactly their defaults), C19_elide / C19_stored (a numeric "
            "field is omitted iff it equals its declared default - under its python name, also when renamed; null references are "
            "omitted), C19_full (the dictionary stored for a non-null reference rebuilds the referent), C19_json (T(x._to_json()) "
            "= x for reference-free structs and one-dimensional arrays, nested arbitrarily). Numeric leaves are LISTS of numbers: a "
            "scalar, an array of static shape (default: zeros) or an array of dynamic shape, which has NO default and is always "
            "stored - also when empty (C19_no_default_stored; the case the library got wrong, O-33, repaired).",
            "Floating-point values are modelled as the integers the generator draws.",
            "7/C19"),
    "C20": ("Lean 4 proof over a model of pickling as a memoised graph copy parameterised by the classes' __getstate__/__setstate__: "
            "sharing iff shared (injectivity of the memo index), fresh buffers, identical bytes and allocator state; the real "
            "pickle round trip on importable generated classes as tie and oracle",
            "Kernel-checked theorems: C20_sharing (two unpickled handles share a buffer exactly when the originals did; offsets and "
            "classes are kept), C20_independent (every unpickled handle lives in a new buffer; existing buffers are untouched), "
            "C20_buffer_copied (the duplicate has the same bytes and allocator state), C20_allocator (the allocator invariant of "
            "C04/C12 carries over), C20_struct_usable (an unpickled struct handle is a view of the copied bytes and reads the "
            "original's value).",
            "Partial: pickle itself (memoised traversal, reconstruction order) is assumed - it is the model; witnessed on every run "
            "by real pickle round trips followed by reads, writes and allocations on the result.",
            "7/C20"),
}

NOT_YET = {
}


def main():
    props = [json.loads(l) for l in open(os.path.join(VERIF, "properties.jsonl"))]
    checks, na = [], []
    for p in props:
        pid = p["id"]
        if pid in CHECKS:
            tech, text, note, ref = CHECKS[pid]
            checks.append({
                "property_id": pid,
                "quick_cmd": f"/venv/bin/python checks/run.py {pid} --tier quick",
                "thorough_cmd": f"/venv/bin/python checks/run.py {pid} --tier thorough",
                "evidence_file": f"evidence/{pid}.json",
                "replay_cmd_template": f"/venv/bin/python checks/run.py {pid} --replay {{path}}",
                "engine": "lean4-model+correspondence",
                "level_claimed": {"category": "proof", "text": text, "design_ref": f"DESIGN.md section {ref}"},
                "level_note": COMMON_NOTE + " " + note + SRC_TIE.get(pid, ""),
                "technique": tech,
            })
        else:
            na.append({"property_id": pid, "reason": NOT_YET.get(pid, "check not built yet in this round (planned; see DESIGN.md section 7)")})
    man = {
        "version": 1,
        "setup_cmd": "cd lean && lake build && cd .. && /venv/bin/python checks/run.py --selftest",
        "hooks": {
            "guard": "XOBJECTS_VERIF",
            "enable": "no instrumentation of xobjects is needed; checks import /repo's working tree directly",
            "baseline_off_cmd": BASELINE,
            "source_commits": [],
            "add_only": True,
        },
        "engines": [{
            "name": "lean4-model+correspondence",
            "path": "lean/ (Lake project Xo), harness/, checks/run.py",
            "serves_properties": sorted(CHECKS),
            "kind_free_text": "machine-checked proof in Lean 4 about a hand-written executable model; correspondence check "
                              "(differential line protocol) against the real code on every run; model-independent oracles "
                              "for the failing-input search",
        }, {
            "name": "source-to-lean translator",
            "path": "checks/pygen.py, lean/XoGen/ (Lake library XoGen: generated Src/*.lean + hand-written Tie*.lean)",
            "serves_properties": sorted(SRC_TIE),
            "kind_free_text": "the arithmetic helpers of /repo (_to_slot_size, _align, get_c_strides, get_strides, get_offset, bound_check, mk_order, Chunk.size / overlaps / merge, the ten byte-moving buffer primitives, XBuffer.grow) are "
                              "regenerated as Lean definitions from the source text on every run; kernel-checked theorems state that "
                              "each equals the model's definition for all inputs",
        }],
        "checks": checks,
        "not_applicable": na,
        "notes": "See DESIGN.md. fix: commits in /repo are listed in known_findings.json under `fixed`.",
    }
    json.dump(man, open(os.path.join(VERIF, "MANIFEST.json"), "w"), indent=1)
    print("MANIFEST.json:", len(checks), "checks,", len(na), "not yet claimed")


if __name__ == "__main__":
    main()
