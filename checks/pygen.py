#!/usr/bin/env python3
"""Source-to-Lean translator for the integer / list arithmetic helpers of xobjects (the second tie of DESIGN.md section 16).

    pygen.py [--repo /repo] [--out lean/XoGen/Src]

For every function listed in FUNCS the CURRENT source text of /repo's working tree is parsed with `ast` and translated,
statement by statement, into a Lean 4 definition (`do` notation in `Id` or - when the function raises - in
`Except String`).  One Lean file per function, rewritten only when its text changes, so that `lake build` re-checks exactly
the equivalence theorems of `XoGen/Tie*.lean` that depend on it.  A function that is missing or uses a construct outside
the supported subset gets a file WITHOUT the definition (and the reason in a comment): the theorems that mention it then
fail to compile, which the runner reports as a broken proof obligation of the properties that rest on that helper.

Supported subset (everything the listed helpers use): int parameters and list-of-int parameters; `return`, assignment,
augmented assignment, `if/elif/else`, `for x in <list expr>` / `for a, b in zip(..)`, `raise`; `+ - * // % & | << >>`,
unary minus, comparisons (chained), `and/or/not`; `len`, `range`, `reversed`, `tuple`, `list`, `zip`, `sum` of a generator,
list comprehensions, `x.append(e)`, `x.index(e)`, `x[i]`.  Python `int` is Lean `Int`; `&` on ints is Mathlib's two's
complement `Int.land`; `x[i]` / `x.index(e)` are the total helpers of `XoGen/Py.lean` (an IndexError / ValueError of the
Python operation is NOT modelled: the helper returns 0 / the length; stated in the trusted base).
"""
import ast
import os
import sys
import textwrap

FUNCS = [
    # (lean module name, file under xobjects/, function name, param kinds: I = int, L = list of int)
    ("ToSlotSize", "typeutils.py", "_to_slot_size", "I"),
    ("Align", "context.py", "_align", "II"),
    ("CStrides", "array.py", "get_c_strides", "LI"),
    ("Strides", "array.py", "get_strides", "LLI"),
    ("Offset", "array.py", "get_offset", "LL"),
    ("BoundCheck", "array.py", "bound_check", "LL"),
    # methods of Chunk (the free-list entries of XBuffer): the object is a record of its attributes, a method that assigns to
    # `self.<attr>` and returns self becomes a function returning the new record (O = a Chunk)
    # T = a str-or-list argument (`order`: "C", "F" or an explicit list of axes)
    ("MkOrder", "array.py", "mk_order", "TL"),
    # a generator: the list of the values it yields (a yielded number as a one-element tuple)
    ("IterIndex", "array.py", "iter_index", "LL"),
    # the byte-moving primitives of the two CPU buffer kinds: B = the buffer object (a record with the attribute `buffer`, a list of
    # bytes), Y = a bytes-like argument (a list of bytes); a method that assigns to a slice of `self.buffer` (or of a bytes argument)
    # returns the new buffer object (the new bytes)
    ("NpUpdateFromNative", "context_cpu.py", "BufferNumpy.update_from_native", "BIYII"),
    ("NpToNative", "context_cpu.py", "BufferNumpy.to_native", "BII"),
    ("NpCopyToNative", "context_cpu.py", "BufferNumpy.copy_to_native", "BYIII"),
    ("NpUpdateFromBuffer", "context_cpu.py", "BufferNumpy.update_from_buffer", "BIY"),
    ("NpToBytearray", "context_cpu.py", "BufferNumpy.to_bytearray", "BII"),
    ("BaUpdateFromNative", "context_cpu.py", "BufferByteArray.update_from_native", "BIYII"),
    ("BaToNative", "context_cpu.py", "BufferByteArray.to_native", "BII"),
    ("BaCopyToNative", "context_cpu.py", "BufferByteArray.copy_to_native", "BYIII"),
    ("BaUpdateFromBuffer", "context_cpu.py", "BufferByteArray.update_from_buffer", "BIY"),
    ("BaToBytearray", "context_cpu.py", "BufferByteArray.to_bytearray", "BII"),
    # X = an XBuffer object: a record of the attributes `buffer` (bytes), `capacity`, `chunks` (a list of Chunk records)
    ("Grow", "context.py", "XBuffer.grow", "XI"),
    ("GetFree", "context.py", "XBuffer.get_free", "X"),
    # C = a buffer object seen by update_from_xbuffer: its bytes and the identity of its context
    ("UpdateFromXbuffer", "context.py", "XBuffer.update_from_xbuffer", "CICII"),
    ("ChunkSize", "context.py", "Chunk.size", "O"),
    ("ChunkOverlaps", "context.py", "Chunk.overlaps", "OO"),
    ("ChunkMerge", "context.py", "Chunk.merge", "OO"),
]

OBJ_FIELDS = ["start", "end"]      # attributes of a Chunk (set in Chunk.__init__; checked against the source below)


class Unsupported(Exception):
    pass


BIN = {ast.Add: "+", ast.Sub: "-", ast.Mult: "*", ast.FloorDiv: "/", ast.Mod: "%"}
CMP = {ast.Lt: "<", ast.LtE: "≤", ast.Gt: ">", ast.GtE: "≥", ast.Eq: "==", ast.NotEq: "!="}


class Tr:
    def __init__(self, fn, kinds):
        self.fn = fn
        self.kinds = kinds
        self.declared = set(a.arg for a in fn.args.args)
        self.raises = any(isinstance(n, ast.Raise) for n in ast.walk(fn))
        self.mutated = set()
        self.uses = set()
        self.chunk_vars = set()

    def is_last_chunk(self, sub):
        v, i = sub.value, sub.slice
        return (isinstance(v, ast.Attribute) and isinstance(v.value, ast.Name) and v.attr == "chunks" and self.kind_of(v.value.id) == "X"
                and isinstance(i, ast.UnaryOp) and isinstance(i.op, ast.USub) and isinstance(i.operand, ast.Constant) and i.operand.value == 1)

    def kind_of(self, name):
        for a, k in zip(self.fn.args.args, self.kinds):
            if a.arg == name:
                return k
        return None

    # ---- expressions -------------------------------------------------------------------------------------------
    def pat(self, t):
        if isinstance(t, ast.Name):
            return t.id
        if isinstance(t, ast.Tuple):
            return "(" + ", ".join(self.pat(e) for e in t.elts) + ")"
        raise Unsupported("loop target " + ast.dump(t))

    def comp(self, elt, gens):
        if len(gens) != 1 or gens[0].ifs or gens[0].is_async:
            raise Unsupported("comprehension with several generators / conditions")
        g = gens[0]
        chunk_var = None
        if isinstance(g.iter, ast.Attribute) and isinstance(g.iter.value, ast.Name) and g.iter.attr == "chunks" \
                and self.kind_of(g.iter.value.id) == "X" and isinstance(g.target, ast.Name):
            chunk_var = g.target.id
            self.chunk_vars.add(chunk_var)
        try:
            return f"(List.map (fun {self.pat(g.target)} => {self.e(elt)}) {self.e(g.iter)})"
        finally:
            if chunk_var:
                self.chunk_vars.discard(chunk_var)

    def e(self, x):
        if isinstance(x, ast.Constant):
            if isinstance(x.value, bool) or not isinstance(x.value, int):
                raise Unsupported("constant " + repr(x.value))
            return f"({x.value} : Int)"
        if isinstance(x, ast.Name):
            return x.id
        if isinstance(x, ast.Attribute):
            if isinstance(x.value, ast.Name) and x.attr in OBJ_FIELDS and self.kind_of(x.value.id) == "O":
                return f"{x.value.id}.{x.attr}_"
            if isinstance(x.value, ast.Name) and x.attr == "buffer" and self.kind_of(x.value.id) == "B":
                return f"{x.value.id}.buffer_"
            if isinstance(x.value, ast.Name) and x.attr in ("buffer", "context") and self.kind_of(x.value.id) == "C":
                return f"{x.value.id}.{x.attr}_"
            if isinstance(x.value, ast.Name) and x.attr in {"buffer", "capacity", "chunks"} and self.kind_of(x.value.id) == "X":
                return f"{x.value.id}.{x.attr}_"
            if isinstance(x.value, ast.Name) and x.value.id in self.chunk_vars:
                if x.attr in OBJ_FIELDS:
                    return f"{x.value.id}.{x.attr}_"
                if x.attr == "size":                  # the property Chunk.size
                    self.uses.add("ChunkSize")
                    return f"(XoGen.Chunk_size {x.value.id})"
            # self.chunks[-1].start / .end
            if x.attr in OBJ_FIELDS and isinstance(x.value, ast.Subscript) and self.is_last_chunk(x.value):
                return f"(Py.last {self.e(x.value.value)}).{x.attr}_"
            raise Unsupported("attribute " + x.attr)
        if isinstance(x, ast.UnaryOp):
            if isinstance(x.op, ast.USub):
                return f"(-{self.e(x.operand)})"
            if isinstance(x.op, ast.Not):
                return f"(!{self.e(x.operand)})"
            raise Unsupported("unary " + ast.dump(x.op))
        if isinstance(x, ast.BinOp):
            a, b = self.e(x.left), self.e(x.right)
            if type(x.op) in BIN:
                return f"({a} {BIN[type(x.op)]} {b})"
            if isinstance(x.op, ast.BitAnd):
                return f"(Int.land {a} {b})"
            if isinstance(x.op, ast.BitOr):
                return f"(Int.lor {a} {b})"
            if isinstance(x.op, ast.LShift):
                return f"(Py.shl {a} {b})"
            if isinstance(x.op, ast.RShift):
                return f"(Py.shr {a} {b})"
            raise Unsupported("operator " + ast.dump(x.op))
        if isinstance(x, ast.BoolOp):
            op = " && " if isinstance(x.op, ast.And) else " || "
            return "(" + op.join(self.e(v) for v in x.values) + ")"
        if isinstance(x, ast.Compare):
            if len(x.ops) == 1 and isinstance(x.ops[0], ast.Eq) and isinstance(x.left, ast.Name) and self.kind_of(x.left.id) == "T" \
                    and isinstance(x.comparators[0], ast.Constant) and isinstance(x.comparators[0].value, str):
                return f'(Py.eqStr {x.left.id} "{x.comparators[0].value}")'
            parts, left = [], x.left
            for op, right in zip(x.ops, x.comparators):
                if type(op) not in CMP:
                    raise Unsupported("comparison " + ast.dump(op))
                parts.append(f"decide ({self.e(left)} {CMP[type(op)]} {self.e(right)})"
                             if type(op) not in (ast.Eq, ast.NotEq) else f"({self.e(left)} {CMP[type(op)]} {self.e(right)})")
                left = right
            return "(" + " && ".join(parts) + ")"
        if isinstance(x, ast.Subscript):
            if isinstance(x.slice, ast.Slice):
                sl = x.slice
                if sl.step is not None or sl.lower is None or sl.upper is None:
                    raise Unsupported("slice without both bounds / with a step")
                return f"(Py.slice {self.e(x.value)} {self.e(sl.lower)} {self.e(sl.upper)})"
            return f"(Py.get {self.e(x.value)} {self.e(x.slice)})"
        if isinstance(x, ast.ListComp):
            return self.comp(x.elt, x.generators)
        if isinstance(x, ast.List) and not x.elts:
            return "([] : List Int)"
        if isinstance(x, (ast.List, ast.Tuple)):
            return "[" + ", ".join(self.e(v) for v in x.elts) + "]"
        if isinstance(x, ast.Call):
            f = x.func
            if x.keywords:
                raise Unsupported("keyword arguments")
            if isinstance(f, ast.Attribute):
                if f.attr == "ndindex" and isinstance(f.value, ast.Name) and f.value.id == "np" and len(x.args) == 1 \
                        and isinstance(x.args[0], ast.Starred):
                    return f"(Py.ndindex {self.e(x.args[0].value)})"
                if f.attr == "_new_buffer" and isinstance(f.value, ast.Name) and self.kind_of(f.value.id) == "X" and len(x.args) == 1:
                    return f"(Py.new_buffer {self.e(x.args[0])})"
                if f.attr == "to_bytearray" and isinstance(f.value, ast.Name) and self.kind_of(f.value.id) == "C" and len(x.args) == 2:
                    self.uses.add("NpToBytearray")
                    return f"(XoGen.BufferNumpy_to_bytearray (Py.Buf.mk {f.value.id}.buffer_) {self.e(x.args[0])} {self.e(x.args[1])})"
                if f.attr == "copy" and not x.args:
                    return self.e(f.value)          # a copy of an immutable list is the list
                if f.attr == "index" and len(x.args) == 1:
                    return f"(Py.index {self.e(f.value)} {self.e(x.args[0])})"
                raise Unsupported("method " + f.attr)
            if not isinstance(f, ast.Name):
                raise Unsupported("call " + ast.dump(f))
            n, args = f.id, x.args
            if n == "Chunk" and len(args) == 2:
                return f"(Py.Obj.mk {self.e(args[0])} {self.e(args[1])})"
            if n in ("min", "max") and len(args) == 2:
                return f"({n} {self.e(args[0])} {self.e(args[1])})"
            if n == "len" and len(args) == 1:
                return f"(Py.len {self.e(args[0])})"
            if n == "range" and len(args) == 1:
                return f"(Py.range {self.e(args[0])})"
            if n == "range" and len(args) == 3:
                return f"(Py.range3 {self.e(args[0])} {self.e(args[1])} {self.e(args[2])})"
            if n == "reversed" and len(args) == 1:
                return f"(List.reverse {self.e(args[0])})"
            if n in ("tuple", "list", "bytearray", "bytes") and len(args) == 1:
                if isinstance(args[0], ast.GeneratorExp):
                    return self.comp(args[0].elt, args[0].generators)
                return self.e(args[0])
            if n == "zip" and len(args) == 2:
                return f"(List.zip {self.e(args[0])} {self.e(args[1])})"
            if n == "sum" and len(args) == 1 and isinstance(args[0], ast.ListComp):
                return f"(Py.sum {self.comp(args[0].elt, args[0].generators)})"
            if n == "sum" and len(args) == 1 and isinstance(args[0], ast.GeneratorExp):
                return f"(Py.sum {self.comp(args[0].elt, args[0].generators)})"
            if n in SIBLINGS:
                return "(" + SIBLINGS[n] + " " + " ".join(self.e(a) for a in args) + ")"
            raise Unsupported("call of " + n)
        raise Unsupported("expression " + type(x).__name__)

    # ---- statements --------------------------------------------------------------------------------------------
    def assign(self, name, rhs):
        if name in self.declared:
            return f"{name} := {rhs}"
        self.declared.add(name)
        return f"let mut {name} := {rhs}"

    def block(self, stmts, ind):
        out = []
        for s in stmts:
            out += self.s(s, ind)
        if not out:
            out = [ind + "pure ()"]
        return out

    def s(self, s, ind):
        if isinstance(s, ast.Expr) and isinstance(s.value, ast.Yield):
            v = s.value.value
            item = f"[{self.e(v)}]" if isinstance(v, ast.Name) else self.e(v)
            return [ind + f"out_ := out_ ++ [{item}]"]
        if isinstance(s, ast.Expr):
            if isinstance(s.value, ast.Constant) and isinstance(s.value.value, str):
                return []          # docstring
            c = s.value
            if isinstance(c, ast.Call) and isinstance(c.func, ast.Attribute) and c.func.attr == "append" and len(c.args) == 1 \
                    and isinstance(c.func.value, ast.Attribute) and isinstance(c.func.value.value, ast.Name) \
                    and c.func.value.attr == "chunks" and self.kind_of(c.func.value.value.id) == "X":
                o = c.func.value.value.id
                self.mutated.add(o)
                return [ind + f"{o} := {{ {o} with chunks_ := {o}.chunks_ ++ [{self.e(c.args[0])}] }}"]
            if isinstance(c, ast.Call) and isinstance(c.func, ast.Attribute) and isinstance(c.func.value, ast.Name) \
                    and self.kind_of(c.func.value.id) == "C" and not c.keywords \
                    and (c.func.attr, len(c.args)) in (("update_from_native", 4), ("update_from_buffer", 2)):
                o = c.func.value.id
                self.mutated.add(o)
                mod_, fn_ = {"update_from_native": ("NpUpdateFromNative", "BufferNumpy_update_from_native"),
                             "update_from_buffer": ("NpUpdateFromBuffer", "BufferNumpy_update_from_buffer")}[c.func.attr]
                self.uses.add(mod_)
                args_ = " ".join(self.e(a) for a in c.args)
                return [ind + f"{o} := {{ {o} with buffer_ := (XoGen.{fn_} (Py.Buf.mk {o}.buffer_) {args_}).buffer_ }}"]
            if isinstance(c, ast.Call) and isinstance(c.func, ast.Attribute) and c.func.attr == "copy_to_native" \
                    and isinstance(c.func.value, ast.Name) and self.kind_of(c.func.value.id) == "X" and not c.args:
                kw = {k.arg: k.value for k in c.keywords}
                if sorted(kw) != ["dest", "dest_offset", "nbytes", "source_offset"] or not isinstance(kw["dest"], ast.Name):
                    raise Unsupported("copy_to_native call shape")
                d = kw["dest"].id
                o = c.func.value.id
                self.uses.add("NpCopyToNative")
                return [ind + f"{d} := XoGen.BufferNumpy_copy_to_native (Py.Buf.mk {o}.buffer_) {d} {self.e(kw['dest_offset'])} "
                              f"{self.e(kw['source_offset'])} {self.e(kw['nbytes'])}"]
            if isinstance(c, ast.Call) and isinstance(c.func, ast.Attribute) and c.func.attr == "append" \
                    and isinstance(c.func.value, ast.Name) and len(c.args) == 1:
                v = c.func.value.id
                return [ind + f"{v} := {v} ++ [{self.e(c.args[0])}]"]
            raise Unsupported("expression statement")
        if isinstance(s, ast.Return):
            if s.value is None:
                return [ind + "return ()"]
            if isinstance(s.value, ast.Name) and self.kind_of(s.value.id) == "T":
                return [ind + f"return (Py.asList {s.value.id})"]
            return [ind + f"return {self.e(s.value)}"]
        if isinstance(s, ast.Assign) and len(s.targets) == 1 and isinstance(s.targets[0], ast.Subscript) \
                and isinstance(s.targets[0].slice, ast.Slice):
            tg, sl = s.targets[0], s.targets[0].slice
            if sl.step is not None or sl.lower is None or sl.upper is None:
                raise Unsupported("slice assignment without both bounds / with a step")
            lo, hi, rhs = self.e(sl.lower), self.e(sl.upper), self.e(s.value)
            if isinstance(tg.value, ast.Attribute) and isinstance(tg.value.value, ast.Name) and tg.value.attr == "buffer" \
                    and self.kind_of(tg.value.value.id) == "B":
                o = tg.value.value.id
                self.mutated.add(o)
                return [ind + f"{o} := {{ {o} with buffer_ := Py.setslice {o}.buffer_ {lo} {hi} {rhs} }}"]
            if isinstance(tg.value, ast.Name) and self.kind_of(tg.value.id) == "Y":
                self.mutated.add(tg.value.id)
                return [ind + f"{tg.value.id} := Py.setslice {tg.value.id} {lo} {hi} {rhs}"]
            raise Unsupported("slice assignment target")
        if isinstance(s, ast.Assign) and len(s.targets) == 1 and isinstance(s.targets[0], ast.Attribute):
            tg = s.targets[0]
            if isinstance(tg.value, ast.Name) and tg.attr in {"buffer", "capacity", "chunks"} and self.kind_of(tg.value.id) == "X":
                self.mutated.add(tg.value.id)
                return [ind + f"{tg.value.id} := {{ {tg.value.id} with {tg.attr}_ := {self.e(s.value)} }}"]
            if tg.attr == "end" and isinstance(tg.value, ast.Subscript) and self.is_last_chunk(tg.value):
                o = tg.value.value.value.id
                self.mutated.add(o)
                return [ind + f"{o} := {{ {o} with chunks_ := Py.setLastEnd {o}.chunks_ {self.e(s.value)} }}"]
            if isinstance(tg.value, ast.Name) and tg.attr in OBJ_FIELDS and self.kind_of(tg.value.id) == "O":
                self.mutated.add(tg.value.id)
                return [ind + f"{tg.value.id} := {{ {tg.value.id} with {tg.attr}_ := {self.e(s.value)} }}"]
            raise Unsupported("assignment to attribute " + tg.attr)
        if isinstance(s, ast.Assign):
            if len(s.targets) != 1 or not isinstance(s.targets[0], ast.Name):
                raise Unsupported("assignment target")
            return [ind + self.assign(s.targets[0].id, self.e(s.value))]
        if isinstance(s, ast.AugAssign):
            if not isinstance(s.target, ast.Name) or type(s.op) not in BIN:
                raise Unsupported("augmented assignment")
            v = s.target.id
            return [ind + f"{v} := ({v} {BIN[type(s.op)]} {self.e(s.value)})"]
        if isinstance(s, ast.If):
            out = [ind + f"if {self.e(s.test)} then"] + self.block(s.body, ind + "  ")
            if s.orelse:
                out += [ind + "else"] + self.block(s.orelse, ind + "  ")
            return out
        if isinstance(s, ast.For):
            if s.orelse:
                raise Unsupported("for-else")
            return [ind + f"for {self.pat(s.target)} in {self.e(s.iter)} do"] + self.block(s.body, ind + "  ")
        if isinstance(s, ast.Raise):
            name = "Error"
            if isinstance(s.exc, ast.Call) and isinstance(s.exc.func, ast.Name):
                name = s.exc.func.id
            elif isinstance(s.exc, ast.Name):
                name = s.exc.id
            return [ind + f'throw "{name}"']
        raise Unsupported("statement " + type(s).__name__)

    def lean(self, lname):
        ty = {"I": "Int", "L": "List Int", "O": "Py.Obj", "T": "Py.StrOrList", "B": "Py.Buf", "Y": "List UInt8", "X": "Py.XBuf", "C": "Py.CBuf"}
        objs = [a.arg for a, k in zip(self.fn.args.args, self.kinds) if k in "OBYXC"]
        params = " ".join(f"({a.arg + ('0' if k in 'OBYXC' else '')} : {ty[k]})" for a, k in zip(self.fn.args.args, self.kinds))
        if len(self.fn.args.args) != len(self.kinds) or self.fn.args.vararg or self.fn.args.kwarg or self.fn.args.defaults:
            raise Unsupported("signature changed")
        is_gen = any(isinstance(n, (ast.Yield, ast.YieldFrom)) for n in ast.walk(self.fn))
        if is_gen and (self.raises or any(isinstance(n, ast.Return) for n in ast.walk(self.fn))):
            raise Unsupported("generator with return / raise")
        body = [f"  let mut {o} := {o}0" for o in objs] + (["  let mut out_ : List (List Int) := []"] if is_gen else []) + self.block(self.fn.body, "  ")
        if is_gen:
            body.append("  return out_")
        last = self.fn.body[-1]
        if not is_gen and not self.raises and not any(isinstance(n, ast.Return) for n in ast.walk(self.fn)):
            if len(self.mutated) != 1:
                raise Unsupported("a procedure that changes none or several of its arguments")
            body.append(f"  return {next(iter(self.mutated))}")
        if self.raises:
            if not isinstance(last, ast.Return):
                body.append("  pure ()")
            if any(isinstance(n, ast.Return) and n.value is not None for n in ast.walk(self.fn)):
                raise Unsupported("function both raises and returns a value")
            head = f"def {lname} {params} : Except String Unit := do"
        else:
            head = f"def {lname} {params} := Id.run do"
        return head + "\n" + "\n".join(body)


SIBLINGS = {}


def find_function(tree, name):
    body = tree.body
    if "." in name:
        cname, name = name.split(".")
        cls = [n for n in tree.body if isinstance(n, ast.ClassDef) and n.name == cname]
        if not cls:
            return None
        body = cls[0].body
        init = [n for n in body if isinstance(n, ast.FunctionDef) and n.name == "__init__"]
        attrs = sorted({t.attr for n in ast.walk(init[0]) if isinstance(n, ast.Assign) for t in n.targets if isinstance(t, ast.Attribute)}) if init else []
        if cname == "Chunk" and attrs != sorted(OBJ_FIELDS):
            raise Unsupported(f"attributes of {cname} are {attrs}, the record has {sorted(OBJ_FIELDS)}")
    for n in body:
        if isinstance(n, ast.FunctionDef) and n.name == name:
            return n
    return None


def generate(repo, out):
    os.makedirs(out, exist_ok=True)
    report = {}
    SIBLINGS.clear()
    for mod, fname, func, kinds in FUNCS:
        SIBLINGS[func] = f"XoGen.{func.lstrip('_')}"
    for mod, fname, func, kinds in FUNCS:
        path = os.path.join(repo, "xobjects", fname)
        lname = func.lstrip("_").replace(".", "_")
        imports = ["import XoGen.Py"]
        header = f"/-! GENERATED by checks/pygen.py from xobjects/{fname} :: {func} - do not edit; rewritten from /repo's working tree on every run -/"
        try:
            src = open(path).read()
            tree = ast.parse(src)
            fn = find_function(tree, func)
            if fn is None:
                raise Unsupported(f"function {func} not found in xobjects/{fname}")
            tr = Tr(fn, kinds)
            code = tr.lean(lname)
            for n in ast.walk(fn):
                if isinstance(n, ast.Call) and isinstance(n.func, ast.Name) and n.func.id in SIBLINGS and n.func.id != func:
                    dep = [m for m, _f, f2, _k in FUNCS if f2 == n.func.id][0]
                    imports.append(f"import XoGen.Src.{dep}")
            for u in sorted(tr.uses):
                imports.append(f"import XoGen.Src.{u}")
            pysrc = ast.get_source_segment(src, fn) or ""
            text = "\n".join(dict.fromkeys(imports)) + "\n" + header + "\n/- source:\n" + pysrc.replace("-/", "- /") + "\n-/\nnamespace XoGen\n" + code + "\nend XoGen\n"
            report[func] = "ok"
        except (Unsupported, SyntaxError, OSError) as ex:
            text = "import XoGen.Py\n" + header + f"\n-- NOT TRANSLATED: {type(ex).__name__}: {str(ex)[:200]}\n"
            report[func] = f"not translated: {ex}"
        target = os.path.join(out, mod + ".lean")
        old = open(target).read() if os.path.exists(target) else None
        if old != text:
            tmp = target + ".tmp%d" % os.getpid()
            open(tmp, "w").write(text)
            os.replace(tmp, target)
    return report


if __name__ == "__main__":
    here = os.path.dirname(os.path.dirname(os.path.abspath(__file__)))
    repo = os.environ.get("XOBJECTS_REPO", "/repo")
    out = os.path.join(here, "lean", "XoGen", "Src")
    a = sys.argv[1:]
    while a:
        if a[0] == "--repo":
            repo = a[1]
        elif a[0] == "--out":
            out = a[1]
        a = a[2:]
    for k, v in generate(repo, out).items():
        print(k, v)
