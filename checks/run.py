#!/venv/bin/python
"""The single entry point of the xobjects verification:

    checks/run.py Cxx --tier quick|thorough [--seed N]
    checks/run.py Cxx --replay replays/<file>.json
    checks/run.py --selftest

Exit 0: property held on everything explored (KNOWN-FINDING lines may be printed);
exit 1: `VIOLATION property=<id> replay=<path>[ no-failing-input-found]`; exit 2: infrastructure.
See DESIGN.md sections 2-4.
"""
import argparse
import importlib
import json
import os
import sys
import time
import traceback

HERE = os.path.dirname(os.path.abspath(__file__))
VERIF = os.path.dirname(HERE)
sys.path.insert(0, VERIF)
from harness import common  # noqa: E402

PROPS = {f"C{i:02d}": f"harness.props.c{i:02d}" for i in range(1, 21)}

TRUSTED_BASE = [
    "Lean 4.33 kernel; axioms per theorem as printed by `#print axioms`, required to be a subset of "
    "{propext, Classical.choice, Quot.sound}; no sorry/admit/native_decide/bv_decide/own axioms (grep-audited)",
    "hand-written Lean model tied to /repo only by the correspondence check of this run "
    "(line protocol, generated inputs; agreement is established on those inputs, not for all inputs)",
    "Python/NumPy semantics of slicing, int arithmetic, dict order as mirrored in the model; generators, "
    "canonicalisation and driver parser of /verif/harness and /verif/lean/Xo/Drv",
    "source tie (theorems XoGen.src_*): checks/pygen.py translates the CURRENT text of _to_slot_size, _align, get_c_strides, "
    "get_strides, get_offset, bound_check, Chunk.size / overlaps / merge in /repo into Lean on every run (statement by statement; Python int = Int, `&` = "
    "Mathlib's Int.land, list indexing / .index totalised in XoGen/Py.lean) and the kernel re-checks that each equals the "
    "model's definition for all inputs; trusted: that translator (about 250 lines) and the totalised list helpers",
]


def write_replay(prop, seed, payload):
    d = os.path.join(VERIF, "replays")
    os.makedirs(d, exist_ok=True)
    k = 0
    while True:
        p = os.path.join(d, f"{prop}-seed{seed}-{k}.json")
        if not os.path.exists(p):
            break
        k += 1
    json.dump(payload, open(p, "w"), indent=1, default=str)
    return os.path.relpath(p, VERIF)


def main():
    ap = argparse.ArgumentParser()
    ap.add_argument("prop", nargs="?")
    ap.add_argument("--tier", default="quick")
    ap.add_argument("--seed", type=int, default=None)
    ap.add_argument("--replay")
    ap.add_argument("--selftest", action="store_true")
    a = ap.parse_args()
    tier = os.environ.get("VERIF_TIER") or a.tier
    if tier not in ("quick", "thorough"):
        tier = "quick"
    seed = a.seed if a.seed is not None else int(os.environ.get("VERIF_SEED", "0") or 0)
    t0 = time.time()
    try:
        if a.selftest:
            audit = common.build_and_audit()
            common.import_xobjects()
            ok = audit["build_ok"] and not audit["forbidden"]
            print("selftest:", "ok" if ok else "FAILED", audit.get("build_log", "")[:500], audit.get("forbidden"))
            return 0 if ok else 2
        if a.prop not in PROPS:
            print("unknown property", a.prop)
            return 2
        mod = importlib.import_module(PROPS[a.prop])
        if a.replay:
            rep = json.load(open(os.path.join(VERIF, a.replay) if not os.path.isabs(a.replay) else a.replay))
            return mod.replay(rep)
        return run_check(a.prop, mod, tier, seed, t0)
    except common.Infra as e:
        print("INFRA:", e)
        return 2
    except Exception:
        traceback.print_exc()
        return 2


def run_check(prop, mod, tier, seed, t0):
    audit = common.build_and_audit()
    (expected, discharged, problems), (src_expected, src_discharged, src_problems) = common.obligations_split(prop, audit)
    if tier == "thorough" and audit.get("build_ok"):
        lc = common_leanchecker(prop)
        if lc:
            problems.append(lc)
    res = run_isolated(mod, tier, seed)
    known = common.load_known()
    failures = list(res.get("failures", []))
    mismatches = list(res.get("mismatches", []))
    broken = list(problems)
    if mismatches:
        broken.append(f"correspondence: {len(mismatches)} disagreement(s), first: {mismatches[0].what[:300]}")
    if (broken or src_problems) and not failures and hasattr(mod, "search") and not res.get("crashed"):
        # a broken proof / correspondence is not by itself a violation: search for a failing input
        print(f"[{prop}] proof or correspondence broken; searching for a failing input ...")
        failures = list(run_isolated(mod, tier, seed, what="search", args=(mismatches, seed)))
    violations, known_hits = [], {}
    for f in failures:
        k = common.match_known(prop, f, known)
        if k is not None:
            known_hits.setdefault(k["id"], (k, f))
        else:
            violations.append(f)
    for kid, (k, f) in sorted(known_hits.items()):
        print(f"KNOWN-FINDING: property={prop} {k['what']} [{kid}; e.g. {f.what[:160]}]")
    rc = 0
    if violations:
        seen = set()
        for f in violations:
            if f.key in seen:
                continue
            seen.add(f.key)
            if hasattr(mod, "minimize"):
                # shrink the failing history to a shorter one with the same failure (delta debugging against the real code)
                try:
                    f = run_isolated(mod, tier, seed, what="minimize", args=(f,))
                except Exception:
                    pass
            path = write_replay(prop, seed, {"property": prop, "tier": tier, "seed": seed, "failure": f.to_json(),
                                             "broken": broken})
            print(f"[{prop}] failing input: {f.what[:400]}")
            print(f"VIOLATION property={prop} replay={path}")
            if len(seen) >= 5:
                break
        rc = 1
    elif broken and not known_hits_cover(broken, known_hits):
        path = write_replay(prop, seed, {"property": prop, "tier": tier, "seed": seed,
                                         "no_longer_checks": broken,
                                         "mismatches": [m.to_json() for m in mismatches[:10]]})
        for b in broken + src_problems:
            print(f"[{prop}] no longer checks: {b[:600]}")
        print(f"VIOLATION property={prop} replay={path} no-failing-input-found")
        rc = 1
    elif src_problems:
        # ONLY the source tie of some helper is broken: every property theorem checks, the behavioural correspondence of the same model
        # definitions found no disagreement, no oracle failed and the failing-input search (further seeds) found nothing.  The property is
        # still shown to hold the way it was before the second tie existed (theorems about the model + correspondence on this run);
        # what is lost is the for-all-inputs equality of that helper with the code, and it is reported as such - not as a violation.
        for b in src_problems:
            print(f"[{prop}] SOURCE-TIE-UNPROVED (no violation: theorems and behavioural correspondence intact, failing-input search found nothing): {b[:500]}")
    wall = time.time() - t0
    cov = {
        "obligations": len(expected) + len(src_discharged),
        "discharged": len(discharged) + len(src_discharged),
        "theorems": expected + src_discharged,
        "source_tie_established": src_discharged,
        "source_tie_unproved": [t for t in src_expected if t not in src_discharged],
        "checker_cmd": "cd lean && lake build && lake env lean .lake/Audit.lean   # `#print axioms` of every property theorem"
                       + ("; lake env leanchecker Xo.Props." + prop if tier == "thorough" else ""),
        "trusted_base": TRUSTED_BASE + res.get("trusted", []),
        "axioms": {**{t: audit.get("axioms", {}).get(t) for t in expected},
                   **{t: (audit.get("gen") or {}).get("axioms", {}).get(t) for t in src_discharged}},
        "evaluations": int(res.get("evaluations", 0)),
        "distinct_nontrivial": int(res.get("distinct_nontrivial", 0)),
        "rule": res.get("rule", ""),
        "samples": res.get("samples", [])[:6] or ["(none)"],
        "traces_validated_against_impl": int(res.get("traces", 0)),
        "correspondence": res.get("correspondence", {}),
        "branch_tags": res.get("tags", {}),
        "partial": res.get("partial", []),
        "proof_problems": problems + src_problems,
        "known_findings_seen": sorted(known_hits),
        "exhaustive": False,
    }
    ev = {
        "property_id": prop, "tier": tier, "seed": seed, "level": "proof", "coverage": cov,
        "assumptions": res.get("assumptions", []), "wall_s": round(wall, 2),
        "violations": len(violations) + (1 if rc and not violations else 0),
    }
    # evidence/ holds what the checks found on /repo itself; a run against another tree (XOBJECTS_REPO: a scratch worktree with a seeded
    # change, a `vp run --with-repo` snapshot) must not overwrite it - its record goes to the ignored work/ directory
    edir = os.path.join(VERIF, "evidence") if os.path.realpath(common.REPO) == "/repo" else os.path.join(VERIF, "work", "evidence-other-tree")
    os.makedirs(edir, exist_ok=True)
    json.dump(ev, open(os.path.join(edir, f"{prop}.json"), "w"), indent=1, default=str)
    print(f"[{prop}] tier={tier} seed={seed} theorems {len(discharged) + len(src_discharged)}/{len(expected) + len(src_expected)} "
          f"evaluations={cov['evaluations']} distinct={cov['distinct_nontrivial']} "
          f"tie-mismatches={len(mismatches)} oracle-failures={len(failures)} wall={wall:.1f}s rc={rc}")
    return rc


def run_isolated(mod, tier, seed, what="run", args=None):
    """run the property's harness (`run`) or its failing-input search (`search`) in a forked child: the real code is driven
    in-process (compiled kernels, raw pointers, sizes read from the buffer), so a changed library can take the interpreter down,
    ask for all the memory of the machine or never return; the child's address space is limited (a huge request raises
    MemoryError inside the library call), the parent watches its resident size and wall-clock time; a dead or killed child is a
    broken correspondence, not an infrastructure failure"""
    import multiprocessing as mp
    import pickle

    ctx = mp.get_context("fork")
    rd, wr = ctx.Pipe(duplex=False)

    def child():
        try:
            common.limit_memory()
            out = mod.run(tier, seed) if what == "run" else (mod.minimize(*args) if what == "minimize" else list(mod.search(*args)))
            wr.send_bytes(pickle.dumps(("ok", out)))
        except common.Infra as e:
            wr.send_bytes(pickle.dumps(("infra", str(e))))
        except MemoryError:
            # the address-space limit was hit outside a guarded library call (e.g. a size, shape or offset read back from the
            # buffer is garbage and the harness iterates over it): same meaning as a killed child
            os._exit(99)
        except BaseException:
            # an exception raised INSIDE the library (innermost frame under /repo) in a place where the harness did not expect
            # one: the code no longer behaves like the model on some generated input - same meaning as a died child; an
            # exception raised by the harness's own code stays an infrastructure error (exit 2)
            tb = sys.exc_info()[2]
            while tb is not None and tb.tb_next is not None:
                tb = tb.tb_next
            inner = tb.tb_frame.f_code.co_filename if tb is not None else ""
            if os.path.realpath(inner).startswith(os.path.realpath(common.REPO) + os.sep):
                sys.stderr.write(traceback.format_exc()[-1500:])
                os._exit(98)
            wr.send_bytes(pickle.dumps(("exc", traceback.format_exc())))
        finally:
            wr.close()

    p = ctx.Process(target=child)
    p.start()
    wr.close()
    data = None
    killed = None
    t0 = time.time()
    limit_s = {"quick": 1800, "thorough": 4 * 3600}.get(tier, 1800)
    try:
        while True:
            if rd.poll(1.0):
                data = rd.recv_bytes()
                break
            if not p.is_alive():
                if rd.poll(0.1):
                    data = rd.recv_bytes()
                break
            try:
                rss = int(open(f"/proc/{p.pid}/statm").read().split()[1]) * os.sysconf("SC_PAGE_SIZE")
            except Exception:
                rss = 0
            if rss > common.MEM_LIMIT + (4 << 30):
                killed = f"resident memory {rss >> 30} GiB"
            elif time.time() - t0 > limit_s:
                killed = f"no result after {limit_s} s"
            if killed:
                p.kill()
                break
    except EOFError:
        pass
    p.join()
    if data is None:
        why = killed or f"exit code {p.exitcode}"
        crash = common.Failure("tie", "harness-crash", f"the interpreter running the real code died ({why}) while the "
                               f"harness was driving it: the code no longer behaves like the model on some generated input", {"exitcode": p.exitcode, "killed": killed})
        if what == "search":
            return []
        if what == "minimize":
            return args[0]
        return {"failures": [], "mismatches": [crash], "evaluations": 0, "distinct_nontrivial": 0,
                "rule": "harness process died", "samples": [], "tags": {}, "crashed": True}
    kind, out = pickle.loads(data)
    if kind == "infra":
        raise common.Infra(out)
    if kind == "exc":
        raise RuntimeError(out)
    return out


def known_hits_cover(broken, known_hits):
    """a correspondence break that is entirely explained by listed known findings is not re-reported"""
    return False


def common_leanchecker(prop):
    import subprocess
    try:
        p = subprocess.run(["lake", "env", "leanchecker", f"Xo.Props.{prop}"], cwd=common.LEAN,
                           capture_output=True, text=True, timeout=1800)
    except Exception as e:  # tool missing or too slow: infrastructure, not a violation
        raise common.Infra(f"leanchecker: {e}")
    if p.returncode != 0:
        return "leanchecker rejected Xo.Props." + prop + ": " + (p.stdout + p.stderr)[-400:]
    # ... and the source-tie modules this property has obligations in
    mods = sorted(m for m, spec in common.gen_obligations().items() if any(prop in ps for ps in spec["theorems"].values()))
    for m in mods:
        try:
            q = subprocess.run(["lake", "env", "leanchecker", m], cwd=common.LEAN, capture_output=True, text=True, timeout=1800)
        except Exception as e:
            raise common.Infra(f"leanchecker: {e}")
        if q.returncode != 0:
            return "leanchecker rejected " + m + ": " + (q.stdout + q.stderr)[-400:]
    return None


if __name__ == "__main__":
    sys.exit(main())
