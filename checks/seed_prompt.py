#!/usr/bin/env python3
"""prints the prompt given to a fresh sub-agent that seeds a property-breaking change (see DESIGN.md 7.21)"""
import json, sys, os
V = os.path.dirname(os.path.dirname(os.path.abspath(__file__)))
pid, wt = sys.argv[1], sys.argv[2]
n = int(sys.argv[3]) if len(sys.argv) > 3 else 2
p = [json.loads(l) for l in open(os.path.join(V, "properties.jsonl")) if json.loads(l)["id"] == pid][0]
print(f"""You are testing a verification effort by seeding realistic defects into the Python library xsuite/xobjects.

Your scratch git worktree of the library is {wt} (work ONLY there; never touch /repo or /verif, do not read anything under /verif). Python with the library's dependencies is /venv/bin/python; run the library from the worktree with `cd {wt} && PYTHONPATH={wt} /venv/bin/python ...`. The existing test suite is run with: `cd {wt} && PYTHONPATH={wt} /venv/bin/python -m pytest -q -p no:cacheprovider --timeout=900 -x tests` (about a minute; it must be run from the worktree so that it imports the worktree's xobjects - check with `python -c "import xobjects; print(xobjects.__file__)"`). There is no network.

The semantic property under study ({pid}: {p['title']}):

  {p['statement']}

  It is quantified over: {p['quantifier']['text']}

Code the property is anchored in: {', '.join(p['anchors']['files'])}.

Task: produce {n} DIFFERENT changes to the library source (each a small, realistic edit of the kind a maintainer could make by mistake or as a plausible 'optimisation'/'refactor') such that, for each change:
  1. the library still imports and the WHOLE existing test suite still passes with the change applied (run it and confirm: 163 passed);
  2. the property above is broken: there is a concrete input / operation sequence on which the changed library violates the property statement while the unchanged library does not;
  3. the breakage needs something specific to manifest - a multi-step sequence of operations, an unusual input (particular sizes, shapes, alignments, nesting, orders), a particular state, or two cooperating code sites that each look fine alone - NOT something ordinary use would expose at once;
  4. the changes differ from each other in mechanism (different functions/branches), not just in constants.

For each change k (k = 1..{n}) write into {wt}/seed/ (create it):
  - mut{{k}}.diff : the change as `git diff` output against the worktree's HEAD (only library source files under xobjects/, no tests);
  - mut{{k}}_demo.py : a small stand-alone program that exits 0 on the unchanged library and exits non-zero (assertion failure with a clear message) with the change applied; it must import xobjects from PYTHONPATH and not depend on pytest;
  - mut{{k}}.json : {{"property": "{pid}", "summary": one sentence on what was changed, "needs": what is needed for it to manifest, "files": [...]}}.
Verify each yourself: apply the diff (`git apply seed/mutk.diff`), run the full test suite (must be 163 passed), run the demo (must fail), revert (`git checkout -- xobjects`), run the demo (must pass). Never use `git stash` (the stash is shared by all worktrees of the repository: another agent would pop yours); revert with `git checkout -- xobjects`. Leave the worktree's tracked files reverted at the end (only the untracked seed/ directory remains). Do not commit anything.

Report back, per change: the one-sentence summary, and the exact outputs of your verification runs (tests passed count, demo exit codes with/without). If a candidate turns out to be caught by the existing tests, discard it and find another.""")
