#!/usr/bin/env python3
"""Confirms a seeded change and measures which checks catch it.

    checks/seed_eval.py <seed-id> <worktree> <outdir> <property> [more properties to run ...]

1. in the scratch worktree (change applied): the repository test suite passes, demo.py fails;
   with the change stashed: demo.py passes;
2. applies patch.diff to /repo, runs the quick checks of the given properties, reverts /repo;
3. stores patch.diff, demo.py, meta.json under /verif/seeded/<seed-id>/.
"""
import json
import os
import shutil
import subprocess
import sys
import time

VERIF = os.path.dirname(os.path.dirname(os.path.abspath(__file__)))
PY = "/venv/bin/python"


def sh(cmd, cwd=None, timeout=3600, pypath=None):
    env = dict(os.environ)
    if pypath:
        env["PYTHONPATH"] = pypath
    p = subprocess.run(cmd, shell=True, cwd=cwd, capture_output=True, text=True, timeout=timeout, env=env)
    return p.returncode, (p.stdout + p.stderr)


def main():
    sid, wt, out, prop = sys.argv[1:5]
    props = sys.argv[4:]
    meta = {"id": sid, "breaks_property": prop, "ran": []}
    patch = os.path.join(out, "patch.diff")
    demo = os.path.join(out, "demo.py")
    # 1. demo with / without, test suite with
    rc_with, o = sh(f"{PY} {demo}", cwd=wt, pypath=wt)
    meta["ran"].append({"cmd": "demo.py with the change", "rc": rc_with, "tail": o[-300:]})
    sh(f"git apply -R {patch}", cwd=wt)          # (no `git stash`: the stash is shared by all worktrees of a repository)
    rc_without, o = sh(f"{PY} {demo}", cwd=wt, pypath=wt)
    meta["ran"].append({"cmd": "demo.py without the change", "rc": rc_without, "tail": o[-300:]})
    sh(f"git apply {patch}", cwd=wt)
    rc_t, o = sh(f"{PY} -m pytest -q -p no:cacheprovider tests 2>&1 | tail -3", cwd=wt, pypath=wt)
    meta["ran"].append({"cmd": "pytest tests (with the change)", "rc": rc_t, "tail": o[-300:]})
    passed = " passed" in o and "failed" not in o and "error" not in o.lower()
    meta["confirmed"] = bool(rc_with != 0 and rc_without == 0 and passed)
    # 2. run the checks against /repo with the patch applied
    rc, o = sh(f"git -C /repo status --porcelain")
    if o.strip():
        print("refusing: /repo is not clean", o)
        return 2
    rc, o = sh(f"git -C /repo apply {patch}")
    if rc != 0:
        rc, o = sh(f"git -C /repo apply -3 {patch}")
        sh("git -C /repo reset -q")
    if rc != 0:
        print("patch does not apply to /repo:", o)
        meta["applies"] = False
        sh("git -C /repo checkout -- .")
    else:
        meta["applies"] = True
        try:
            res = {}
            for p in props:
                t0 = time.time()
                rc, o = sh(f"{PY} checks/run.py {p} --tier quick", cwd=VERIF)
                vio = [l for l in o.splitlines() if l.startswith("VIOLATION") or "failing input" in l]
                res[p] = {"rc": rc, "wall_s": round(time.time() - t0, 1), "lines": vio[:6]}
                print(p, "rc", rc, vio[:3])
            meta["checks"] = res
            meta["caught_by"] = [p for p, r in res.items() if r["rc"] == 1]
        finally:
            sh("git -C /repo checkout -- .")
    # restore evidence produced on the clean tree later by the caller
    d = os.path.join(VERIF, "seeded", sid)
    os.makedirs(d, exist_ok=True)
    shutil.copy(patch, os.path.join(d, "patch.diff"))
    shutil.copy(demo, os.path.join(d, "demo.py"))
    notes = os.path.join(out, "notes.md")
    if os.path.exists(notes):
        meta["needs_to_manifest"] = open(notes).read()[:3000]
    json.dump(meta, open(os.path.join(d, "meta.json"), "w"), indent=1)
    print(json.dumps({k: meta[k] for k in ("id", "confirmed", "applies", "caught_by") if k in meta}))
    return 0


if __name__ == "__main__":
    sys.exit(main())
