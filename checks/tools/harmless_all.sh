#!/bin/bash
export XOBJECTS_REPO=$VP_RUN_REPO
cd lean && lake build >/dev/null 2>&1; cd ..
for d in harmless/*.diff; do
  git -C $VP_RUN_REPO checkout -q -- .
  git -C $VP_RUN_REPO apply $PWD/$d 2>/dev/null || { echo "APPLY-FAILED $d"; git -C $VP_RUN_REPO checkout -q -- .; continue; }
  out=""
  for p in C01 C02 C03 C04 C05 C06 C07 C08 C09 C10 C11 C12 C13 C14 C15 C16 C17 C18 C19 C20; do
    r=$(/venv/bin/python checks/run.py $p --tier quick 2>&1 | grep -v "ompil\|KNOWN" | grep -E "VIOLATION|rc=[12]" | cut -c1-260)
    [ -n "$r" ] && out="$out\n$p: $r"
  done
  git -C $VP_RUN_REPO checkout -q -- .
  echo -e "== $d: ${out:-no alarm}"
done
