#!/bin/bash
# usage: eval_rN.sh Cxx "extra props"
P=$1; shift
for k in 1 2 3; do
  [ -f /tmp/wt-rN$P/seed/mut$k.diff ] || { echo "no mut$k for $P"; continue; }
  for L in a b c d e f g h i j k l m n o p q r s t u v w x y z; do [ -d /verif/seeded/$P$L ] || break; done
  id=$P$L
  /tmp/run_seeds.sh rN$P $k $id $P "$@" 2>&1 | grep -v conda | grep -E "^\{|rc [12]" | cut -c1-280
done
