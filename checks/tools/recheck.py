import json, os, subprocess, sys
lane = sys.argv[1]
for spec in sys.argv[2:]:
    sid, props = spec.split(":"); props = props.split()
    P = sid[:3]; wt = f"/tmp/wt-r8{P}"
    d = f"/verif/seeded/{sid}"
    subprocess.run("git checkout -q -- .", shell=True, cwd=wt)
    rc = subprocess.run(f"git apply {d}/patch.diff", shell=True, cwd=wt).returncode
    res = {}
    for p in props:
        q = subprocess.run(f"/venv/bin/python checks/run.py {p} --tier quick", shell=True, cwd=lane, capture_output=True, text=True, env=dict(os.environ, XOBJECTS_REPO=wt))
        o = q.stdout + q.stderr
        res[p] = {"rc": q.returncode, "lines": [l[:400] for l in o.splitlines() if l.startswith("VIOLATION") or "failing input" in l][:4]}
    subprocess.run("git checkout -q -- .; rm -f *.c *.so *.o", shell=True, cwd=wt)
    json.dump({"applies": rc == 0, "checks": res, "caught_by": [p for p, r in res.items() if r["rc"] == 1]}, open(f"/tmp/recheck_{sid}.json", "w"), indent=1)
    print("==", sid, {p: r["rc"] for p, r in res.items()}, flush=True)
