#!/bin/bash
# usage: run_seeds.sh PROP K SEEDID "props to run"
P=$1; K=$2; ID=$3; shift 3
WT=/tmp/wt-$P
OUT=/tmp/seedout/$ID
mkdir -p $OUT
cp $WT/seed/mut$K.diff $OUT/patch.diff
cp $WT/seed/mut${K}_demo.py $OUT/demo.py
python3 -c "import json;d=json.load(open('$WT/seed/mut$K.json'));open('$OUT/notes.md','w').write('summary: '+d.get('summary','')+'\n\nneeds: '+str(d.get('needs','')))"
cd $WT && git checkout -q -- . && git apply seed/mut$K.diff
cd /verif && python3 checks/seed_eval.py $ID $WT $OUT "$@"
cd $WT && git checkout -q -- .
