#!/bin/bash
# usage: tryseed.sh <seed-id> <prop>...
ID=$1; shift
cd /verif
git -C /repo apply /verif/seeded/$ID/patch.diff 2>/dev/null || { git -C /repo apply -3 /verif/seeded/$ID/patch.diff >/dev/null 2>&1; git -C /repo reset -q; }
for p in "$@"; do /venv/bin/python checks/run.py $p --tier quick 2>&1 | grep -v KNOWN | grep -m2 "failing input\|VIOLATION\|rc=" | cut -c1-420; done
git -C /repo reset -q; git -C /repo checkout -q -- .; git -C /repo status --short
rm -f /verif/replays/C[0-9][0-9]-seed0-[0-9]*.json.new 2>/dev/null
