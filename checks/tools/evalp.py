#!/usr/bin/env python3
"""parallel evaluation of round-8 seeds in their own worktrees: evalp.py <lane dir> <prop:checks>..."""
import json, os, shutil, subprocess, sys, time
PY = "/venv/bin/python"
def sh(cmd, cwd=None, env=None, timeout=3600):
    e = dict(os.environ); e.update(env or {})
    p = subprocess.run(cmd, shell=True, cwd=cwd, capture_output=True, text=True, timeout=timeout, env=e)
    return p.returncode, p.stdout + p.stderr
lane = sys.argv[1]
for spec in sys.argv[2:]:
    P, run = spec.split(":"); props = run.split()
    wt = f"/tmp/wt-r8{P}"
    for k in (1, 2):
        if not os.path.exists(f"{wt}/seed/mut{k}.diff"):
            print("no mut", k, P); continue
        for L in "abcdefghijklmnopqrstuvwxyz":
            if not os.path.isdir(f"{lane}/seeded/{P}{L}") and not os.path.isdir(f"/verif/seeded/{P}{L}"):
                break
        sid = P + L
        d = f"{lane}/seeded/{sid}"; os.makedirs(d)
        shutil.copy(f"{wt}/seed/mut{k}.diff", d + "/patch.diff"); shutil.copy(f"{wt}/seed/mut{k}_demo.py", d + "/demo.py")
        info = json.load(open(f"{wt}/seed/mut{k}.json"))
        meta = {"id": sid, "breaks_property": P, "ran": [], "round": 8,
                "needs_to_manifest": "summary: " + str(info.get("summary", "")) + "\n\nneeds: " + str(info.get("needs", ""))}
        sh("git checkout -q -- .", cwd=wt)
        rc0, o = sh(f"{PY} {d}/demo.py", cwd=wt, env={"PYTHONPATH": wt}); meta["ran"].append({"cmd": "demo.py without the change", "rc": rc0, "tail": o[-300:]})
        rca, o = sh(f"git apply {d}/patch.diff", cwd=wt)
        rc1, o = sh(f"{PY} {d}/demo.py", cwd=wt, env={"PYTHONPATH": wt}); meta["ran"].append({"cmd": "demo.py with the change", "rc": rc1, "tail": o[-300:]})
        rct, o = sh(f"{PY} -m pytest -q -p no:cacheprovider tests 2>&1 | tail -3", cwd=wt, env={"PYTHONPATH": wt}); meta["ran"].append({"cmd": "pytest tests (with the change)", "rc": rct, "tail": o[-300:]})
        passed = " passed" in o and "failed" not in o and "error" not in o.lower()
        meta["confirmed"] = bool(rca == 0 and rc1 != 0 and rc0 == 0 and passed)
        res = {}
        for p in props:
            t0 = time.time()
            rc, o = sh(f"{PY} checks/run.py {p} --tier quick", cwd=lane, env={"XOBJECTS_REPO": wt})
            vio = [l for l in o.splitlines() if l.startswith("VIOLATION") or "failing input" in l or "no longer checks" in l]
            res[p] = {"rc": rc, "wall_s": round(time.time() - t0, 1), "lines": [v[:400] for v in vio[:6]]}
        meta["checks"] = res
        meta["how"] = "change applied in its scratch worktree, checks run with XOBJECTS_REPO=<worktree> (same as applying it to /repo)"
        meta["caught_by"] = [p for p, r in res.items() if r["rc"] == 1]
        sh("git checkout -q -- .", cwd=wt)
        sh("rm -f *.c *.so *.o", cwd=wt)
        json.dump(meta, open(d + "/meta.json", "w"), indent=1)
        print("==", sid, "confirmed", meta["confirmed"], "caught_by", meta["caught_by"], {p: r["rc"] for p, r in res.items()}, flush=True)
