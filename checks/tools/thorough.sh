#!/bin/bash
export XOBJECTS_REPO=$VP_RUN_REPO
cd lean && lake build >/dev/null 2>&1; cd ..
for p in "$@"; do
  /venv/bin/python checks/run.py $p --tier thorough 2>&1 | grep -v "ompil\|KNOWN" | tail -4
done
