import Xo.Drv.Alloc
import Xo.Drv.Topo
import Xo.Drv.CApi
import Xo.Drv.Spec
import Xo.Drv.BufPrim
import Xo.Drv.Lay
import Xo.Drv.Heap
import Xo.Drv.KCall
import Xo.Drv.Hybrid
import Xo.Drv.DictForm
import Xo.Drv.Pickle
import Xo.Drv.RefGraph
import Xo.Drv.Place
/-! `lake env lean --run Driver.lean <component>` : stdin ops → stdout results -/
def main (args : List String) : IO UInt32 := do
  let i ← IO.getStdin
  let o ← IO.getStdout
  match args with
  | ["alloc"] => Drv.loop i o Drv.AllocD.step Drv.AllocD.init; return 0
  | ["capi"] => Drv.loop i o Drv.CApiD.step Drv.CApiD.init; return 0
  | ["spec"] => Drv.loop i o Drv.SpecD.step (); return 0
  | ["prim"] => Drv.loop i o Drv.PrimD.step (); return 0
  | ["lay"] => Drv.loop i o Drv.LayD.step Drv.LayD.init; return 0
  | ["heap"] => Drv.loop i o Drv.HeapD.step Drv.HeapD.init; return 0
  | ["kcall"] => Drv.loop i o Drv.KCallD.step (); return 0
  | ["hyb"] => Drv.loop i o Drv.HybD.step Drv.HybD.init; return 0
  | ["dict"] => Drv.loop i o Drv.DictD.step {}; return 0
  | ["pk"] => Drv.loop i o Drv.PkD.step (); return 0
  | ["rg"] => Drv.loop i o Drv.RGD.step Drv.RGD.init; return 0
  | ["place"] => Drv.loop i o Drv.PlaceD.step (); return 0
  | ["topo"] => Drv.loop i o Drv.TopoD.step (); return 0
  | _ => IO.eprintln "usage: Driver.lean <component>"; return 2
