import Xo.Spec
open Spec
def hexVal (c : Char) : Nat := if c.isDigit then c.toNat - 48 else c.toNat - 87
def unhex (s : String) : List Char :=
  let rec go (cs : List Char) (acc : List UInt8) : List UInt8 :=
    match cs with
    | a :: b :: r => go r (UInt8.ofNat (hexVal a * 16 + hexVal b) :: acc)
    | _ => acc.reverse
  (String.fromUTF8! ⟨(go s.toList []).toArray⟩).toList
def hex (s : List Char) : String :=
  let bs := (String.ofList s).toUTF8
  bs.foldl (fun acc b => acc ++ (if b < 16 then "0" else "") ++ (Nat.toDigits 16 b.toNat |> String.ofList)) ""
partial def loop (h : IO.FS.Stream) : IO Unit := do
  let line ← h.getLine
  if line.isEmpty then return ()
  match line.trimAscii.toString.splitOn " " with
  | [t, hx] =>
    let tgt := match t with | "cpu_serial" => some Target.cpu_serial | "cpu_openmp" => some .cpu_openmp | "opencl" => some .opencl | "cuda" => some .cuda | _ => none
    match tgt with
    | some tg => match specialize tg (unhex hx) with
      | some o => IO.println (hex o)
      | none => IO.println "err Value"
    | none => IO.println "bad-op"
  | _ => IO.println "bad-op"
  loop h
def main : IO Unit := do loop (← IO.getStdin)
