-- This module serves as the root of the `P` library.
-- Import modules here that should be built as part of the library.
import Xo.Basic
import Xo.CApi
import Xo.Idx
import Xo.Lemmas.Mem
import Xo.Lay
import Xo.Lay2
import Xo.Lay3
import Xo.CGen
import Xo.Spec
import Xo.LayM
import Xo.LayR
import Xo.LayH
import Xo.Lemmas.Alloc
import Xo.Lemmas.Alloc2
import Xo.Props.C04
import Xo.Props.C12
import Xo.Drv.Util
import Xo.Drv.Alloc
import Xo.Model.Topo
import Xo.Lemmas.Topo
import Xo.Props.C14
import Xo.Drv.Topo
