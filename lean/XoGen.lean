import XoGen.TieSlot
import XoGen.TieStrides
