import XoGen.TieSlot
import XoGen.TieStrides
import XoGen.TieChunk
import XoGen.TieIndex
import XoGen.TieOrder
import XoGen.TieBuf
import XoGen.TieGrow
import XoGen.TieIter
