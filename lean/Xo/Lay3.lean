import Xo.Lay2
namespace Lay
open MemS

/-! dynamic structs: size word, static fields, offset slots for the 2nd.. dynamic field, dynamic data -/

mutual
def patchesD : Ty → Val → List Patch
 | .scalar w, .bits b => [(0, le w b)]
 | .string, .str bs =>
    let size := slot (bs.length + 1 + 8)
    [(0, le 8 size), (8, bs ++ zeros (size - 8 - bs.length))]
 | .struct fs, .struct vs =>
    match ssizeFields fs with
    | some _ => sPatches fs vs 0
    | none => (0, le 8 (vsize (.struct fs) (.struct vs))) :: dPatches fs vs 8 0 (dynStart fs) (8 + staticBytes fs)
 | _, _ => []
def sPatches : List Ty → List Val → Nat → List Patch
 | t :: ts, v :: vs, o => shift o (patchesD t v) ++ sPatches ts vs (o + slot ((t.ssize).getD 0))
 | _, _, _ => []
/-- so: next static offset; k: index among dynamic fields; dof: next dynamic data offset; sb: base of offset slots -/
def dPatches : List Ty → List Val → Nat → Nat → Nat → Nat → List Patch
 | t :: ts, v :: vs, so, k, dof, sb =>
    match t.ssize with
    | some s => shift so (patchesD t v) ++ dPatches ts vs (so + slot s) k dof sb
    | none => (if k = 0 then [] else [(sb + 8 * (k - 1), le 8 dof)]) ++
              (shift dof (patchesD t v) ++ dPatches ts vs so (k + 1) (dof + slot (vsize t v)) sb)
 | _, _, _, _, _, _ => []
end

mutual
def readD : Ty → Mem → Nat → Val
 | .scalar w, m, off => .bits (fromLE (readAt m off w))
 | .string, m, off =>
    let size := fromLE (readAt m off 8)
    .str (stripNul (readAt m (off + 8) (size - 8)))
 | .struct fs, m, off =>
    match ssizeFields fs with
    | some _ => .struct (readS fs m off)
    | none => .struct (readDyn fs m off 8 0 (dynStart fs) (8 + staticBytes fs))
 | .array _ _, _, _ => .arr []
def readS : List Ty → Mem → Nat → List Val
 | [], _, _ => []
 | t :: ts, m, o => readD t m o :: readS ts m (o + slot ((t.ssize).getD 0))
/-- the view reads the offsets of the 2nd.. dynamic fields from their slots; the first is at the class-level offset -/
def readDyn : List Ty → Mem → Nat → Nat → Nat → Nat → Nat → List Val
 | [], _, _, _, _, _, _ => []
 | t :: ts, m, base, so, k, d0, sb =>
    match t.ssize with
    | some s => readD t m (base + so) :: readDyn ts m base (so + slot s) k d0 sb
    | none =>
      let off := if k = 0 then d0 else fromLE (readAt m (base + sb + 8 * (k - 1)) 8)
      readD t m (base + off) :: readDyn ts m base so (k + 1) d0 sb
end

#eval patchesD (.struct [.scalar 8, .string, .string]) (.struct [.bits 1, .str [65,66], .str [67]])
#eval readD (.struct [.scalar 8, .string, .string]) (apply (patchesD (.struct [.scalar 8, .string, .string]) (.struct [.bits 1, .str [65,66], .str [67]])) (List.replicate 64 0xA5)) 0
end Lay

namespace Lay
open MemS

/-- where the patches of the remaining fields of a dynamic struct may lie: static area, offset slots, dynamic data -/
def In3 (p : Patch) (so sEnd slo shi dlo dhi : Nat) : Prop :=
  (so ≤ p.1 ∧ p.1 + p.2.length ≤ sEnd) ∨ (slo ≤ p.1 ∧ p.1 + p.2.length ≤ shi) ∨ (dlo ≤ p.1 ∧ p.1 + p.2.length ≤ dhi)

theorem staticBytes_of_ssize : ∀ (fs : List Ty) (s : Nat), ssizeFields fs = some s → staticBytes fs = s ∧ ndyn fs = 0
 | [], s, h => by simp [ssizeFields] at h; simp [staticBytes, ndyn, h]
 | t :: ts, s, h => by
    simp only [ssizeFields] at h
    split at h
    · rename_i a b ha hb
      have := staticBytes_of_ssize ts b hb
      simp at h
      simp [staticBytes, ndyn, ha, this, h]
    · simp at h

mutual
theorem withinD : ∀ (t : Ty) (v : Val), Conf t v → Within (patchesD t v) 0 (vsize t v)
 | .scalar w, .bits b, _ => by
    intro p hp; simp [patchesD] at hp; subst hp; simp [vsize, le_length]
 | .string, .str bs, _ => by
    intro p hp
    have := slot_ge (bs.length + 1 + 8)
    simp only [patchesD, List.mem_cons, List.not_mem_nil, or_false] at hp
    rcases hp with rfl | rfl
    · simp [vsize, le_length]; omega
    · simp [vsize, zeros]; omega
 | .struct fs, .struct vs, hc => by
    simp only [patchesD]
    split
    · rename_i s hs
      have := withinS fs vs 0 s (by simpa [Conf] using hc) hs
      simpa [vsize, hs] using this
    · rename_i hs
      have hv : vsize (.struct fs) (.struct vs) = dynStart fs + dynSizes fs vs := by simp [vsize, hs]
      have h3 := regionsD fs vs 8 0 (dynStart fs) (8 + staticBytes fs) (by simpa [Conf] using hc)
      intro p hp
      rcases List.mem_cons.mp hp with rfl | hm
      · simp [le_length, hv, dynStart]; omega
      · have := h3 p hm
        unfold In3 at this
        rw [hv]; unfold dynStart at *
        omega
 | .array it n, v, hc => by cases v <;> simp [Conf] at hc
 | .scalar _, .str _, hc | .scalar _, .struct _, hc | .scalar _, .arr _, hc => by simp [Conf] at hc
 | .string, .bits _, hc | .string, .struct _, hc | .string, .arr _, hc => by simp [Conf] at hc
 | .struct _, .bits _, hc | .struct _, .str _, hc | .struct _, .arr _, hc => by simp [Conf] at hc
theorem withinS : ∀ (fs : List Ty) (vs : List Val) (o s : Nat), ConfFields fs vs → ssizeFields fs = some s →
    Within (sPatches fs vs o) o (o + s)
 | [], [], o, s, _, _ => by intro p hp; simp [sPatches] at hp
 | t :: ts, v :: vs, o, s, hc, hs => by
    simp only [ssizeFields] at hs
    split at hs
    · rename_i a b ha hb
      simp only [Option.some.injEq] at hs
      subst hs
      simp only [sPatches, ha, Option.getD_some]
      have h1 := withinD t v hc.1
      rw [conf_ssize t v a hc.1 ha] at h1
      have h2 := withinS ts vs (o + slot a) b hc.2 hb
      have hsl := slot_ge a
      apply within_append
      · exact within_mono (within_shift (d := o) h1) (by omega) (by omega)
      · exact within_mono h2 (by omega) (by omega)
    · simp at hs
 | [], _ :: _, _, _, hc, _ => by simp [ConfFields] at hc
 | _ :: _, [], _, _, hc, _ => by simp [ConfFields] at hc
theorem regionsD : ∀ (fs : List Ty) (vs : List Val) (so k dof sb : Nat), ConfFields fs vs →
    ∀ p ∈ dPatches fs vs so k dof sb,
      In3 p so (so + staticBytes fs) (sb + 8 * (k - 1)) (sb + 8 * (k + ndyn fs - 1)) dof (dof + dynSizes fs vs)
 | [], [], _, _, _, _, _ => by intro p hp; simp [dPatches] at hp
 | t :: ts, v :: vs, so, k, dof, sb, hc => by
    intro p hp
    simp only [dPatches] at hp
    split at hp
    · rename_i s hs
      have hv := conf_ssize t v s hc.1 hs
      have hsl := slot_ge s
      rcases List.mem_append.mp hp with h | h
      · have h1 := within_shift (d := so) (withinD t v hc.1) p h
        rw [hv] at h1
        left; simp [staticBytes, hs]; omega
      · have := regionsD ts vs (so + slot s) k dof sb hc.2 p h
        unfold In3 at *
        simp only [staticBytes, ndyn, dynSizes, hs]
        omega
    · rename_i hs
      have hsl := slot_ge (vsize t v)
      rcases List.mem_append.mp hp with h | h
      · split at h
        · simp at h
        · simp at h; subst h
          right; left
          simp [le_length, ndyn, hs]; omega
      · rcases List.mem_append.mp h with h | h
        · have h1 := within_shift (d := dof) (withinD t v hc.1) p h
          right; right
          simp [dynSizes, hs]; omega
        · have := regionsD ts vs so (k + 1) (dof + slot (vsize t v)) sb hc.2 p h
          unfold In3 at *
          simp only [staticBytes, ndyn, dynSizes, hs]
          omega
 | [], _ :: _, _, _, _, _, hc => by simp [ConfFields] at hc
 | _ :: _, [], _, _, _, _, hc => by simp [ConfFields] at hc
end
#print axioms withinD
end Lay

namespace Lay
open MemS

theorem mem_shift {d : Nat} {ps : List Patch} {q : Patch} (h : q ∈ shift d ps) :
    ∃ p ∈ ps, q = (p.1 + d, p.2) := by
  simp only [shift, List.mem_map] at h
  obtain ⟨p, hp, rfl⟩ := h
  exact ⟨p, hp, rfl⟩

theorem shift_cons (d : Nat) (p : Patch) (ps : List Patch) : shift d (p :: ps) = (p.1 + d, p.2) :: shift d ps := by
  simp [shift]

theorem shift_nil (d : Nat) : shift d [] = [] := rfl

theorem vsize_pos_dyn : ∀ (t : Ty) (v : Val), Conf t v → t.ssize = none → 8 ≤ vsize t v
 | .string, .str bs, _, _ => by have := slot_ge (bs.length + 1 + 8); simp [vsize]; omega
 | .struct fs, .struct vs, _, h => by
    simp only [Ty.ssize] at h
    simp [vsize, h, dynStart]; omega
 | .scalar w, v, _, h => by simp [Ty.ssize] at h
 | .array it n, v, hc, _ => by cases v <;> simp [Conf] at hc
 | .string, .bits _, hc, _ | .string, .struct _, hc, _ | .string, .arr _, hc, _ => by simp [Conf] at hc
 | .struct _, .bits _, hc, _ | .struct _, .str _, hc, _ | .struct _, .arr _, hc, _ => by simp [Conf] at hc

theorem outside_rest (fs : List Ty) (vs : List Val) (so k dof sb : Nat) (hc : ConfFields fs vs) (base lo hi : Nat)
    (h : ∀ p : Patch, In3 p so (so + staticBytes fs) (sb + 8 * (k - 1)) (sb + 8 * (k + ndyn fs - 1)) dof (dof + dynSizes fs vs) →
      p.1 + base + p.2.length ≤ lo ∨ hi ≤ p.1 + base) :
    Outside (shift base (dPatches fs vs so k dof sb)) lo hi := by
  intro q hq
  obtain ⟨p, hp, rfl⟩ := mem_shift hq
  exact h p (regionsD fs vs so k dof sb hc p hp)

theorem inBounds_rest (fs : List Ty) (vs : List Val) (so k dof sb : Nat) (hc : ConfFields fs vs) (base n : Nat)
    (h : ∀ p : Patch, In3 p so (so + staticBytes fs) (sb + 8 * (k - 1)) (sb + 8 * (k + ndyn fs - 1)) dof (dof + dynSizes fs vs) →
      p.1 + base + p.2.length ≤ n) :
    InBounds (shift base (dPatches fs vs so k dof sb)) n := by
  intro q hq
  obtain ⟨p, hp, rfl⟩ := mem_shift hq
  exact h p (regionsD fs vs so k dof sb hc p hp)

mutual
theorem rtD : ∀ (t : Ty) (v : Val), Conf t v → vsize t v < 2^64 → ∀ (m : Mem) (off : Nat), off + vsize t v ≤ m.length →
    ∀ m', Agree m' (apply (shift off (patchesD t v)) m) off (off + vsize t v) → readD t m' off = v
 | .scalar w, .bits b, hc, _, m, off, hb, m', hag => by
    simp only [patchesD, shift, List.map_cons, List.map_nil, apply, List.foldl_cons, List.foldl_nil, Nat.zero_add, vsize] at hag hb
    simp only [readD]
    have hl := le_length w b
    rw [readAt_agree hag (Nat.le_refl _) (Nat.le_refl _)]
    have := readAt_writeAt_same m off (le w b) (by omega)
    rw [hl] at this
    rw [this, fromLE_le, Nat.mod_eq_of_lt hc]
 | .string, .str bs, hc, _, m, off, hb, m', hag => by
    simp only [patchesD, shift, List.map_cons, List.map_nil, apply, List.foldl_cons, List.foldl_nil, Nat.zero_add, vsize] at hag hb
    simp only [readD]
    have hsl := slot_ge (bs.length + 1 + 8)
    have hsl2 : slot (bs.length + 1 + 8) < bs.length + 17 := by unfold slot; omega
    have hl := le_length 8 (slot (bs.length + 1 + 8))
    have hlen1 := length_writeAt m off (le 8 (slot (bs.length + 1 + 8))) (by omega)
    have hdl : (bs ++ zeros (slot (bs.length + 1 + 8) - 8 - bs.length)).length = slot (bs.length + 1 + 8) - 8 := by
      simp [zeros]; omega
    have hsz : readAt m' off 8 = le 8 (slot (bs.length + 1 + 8)) := by
      rw [readAt_agree hag (Nat.le_refl _) (by omega)]
      rw [readAt_writeAt_disj _ _ _ (by omega) _ _ (by omega)]
      have := readAt_writeAt_same m off (le 8 (slot (bs.length + 1 + 8))) (by omega)
      rwa [hl] at this
    rw [hsz, fromLE_le, Nat.mod_eq_of_lt (by have := hc.2; omega)]
    have hdat : readAt m' (off + 8) (slot (bs.length + 1 + 8) - 8) = bs ++ zeros (slot (bs.length + 1 + 8) - 8 - bs.length) := by
      rw [readAt_agree hag (by omega) (by omega)]
      have := readAt_writeAt_same (writeAt m off (le 8 (slot (bs.length + 1 + 8)))) (8 + off)
        (bs ++ zeros (slot (bs.length + 1 + 8) - 8 - bs.length)) (by omega)
      rw [hdl] at this
      rw [Nat.add_comm off 8]; exact this
    rw [hdat, stripNul_append_zeros _ _ hc.1]
 | .struct fs, .struct vs, hc, hsz, m, off, hb, m', hag => by
    simp only [readD]
    simp only [patchesD] at hag
    split
    · rename_i s hs
      simp only [hs, vsize] at hag hb hsz
      have := rtS fs vs 0 s (by simpa [Conf] using hc) hs (by omega) m off s (by omega) (by omega) m' (by simpa using hag)
      simpa using this
    · rename_i hs
      have hv : vsize (.struct fs) (.struct vs) = dynStart fs + dynSizes fs vs := by simp [vsize, hs]
      simp only [hs] at hag
      rw [shift_cons] at hag
      -- the size word is a `pre` patch; all field patches come after it
      have hcf : ConfFields fs vs := by simpa [Conf] using hc
      have hin : InBounds (shift off (dPatches fs vs 8 0 (dynStart fs) (8 + staticBytes fs))) m.length := by
        intro q hq
        obtain ⟨p, hp, rfl⟩ := mem_shift hq
        have := regionsD fs vs 8 0 (dynStart fs) (8 + staticBytes fs) hcf p hp
        unfold In3 at this; unfold dynStart at *; simp at *; omega
      have hl0 := length_writeAt m (0 + off) (le 8 (vsize (.struct fs) (.struct vs))) (by simp [le_length]; rw [hv] at hb; unfold dynStart at hb; omega)
      have := rtDyn fs vs 8 0 (dynStart fs) (8 + staticBytes fs) hcf (vsize (.struct fs) (.struct vs)) hsz
        (ndyn fs) (by omega) (by omega) (by unfold dynStart; omega) (by omega)
        (writeAt m (0 + off) (le 8 (vsize (.struct fs) (.struct vs)))) off (by omega) (dynStart fs) (fun _ => rfl) m'
        (by simpa [apply] using hag)
      exact congrArg Val.struct this
 | .array it n, v, hc, _, _, _, _, _, _ => by cases v <;> simp [Conf] at hc
 | .scalar _, .str _, hc, _, _, _, _, _, _ | .scalar _, .struct _, hc, _, _, _, _, _, _ | .scalar _, .arr _, hc, _, _, _, _, _, _ => by simp [Conf] at hc
 | .string, .bits _, hc, _, _, _, _, _, _ | .string, .struct _, hc, _, _, _, _, _, _ | .string, .arr _, hc, _, _, _, _, _, _ => by simp [Conf] at hc
 | .struct _, .bits _, hc, _, _, _, _, _, _ | .struct _, .str _, hc, _, _, _, _, _, _ | .struct _, .arr _, hc, _, _, _, _, _, _ => by simp [Conf] at hc
theorem rtS : ∀ (fs : List Ty) (vs : List Val) (o s : Nat), ConfFields fs vs → ssizeFields fs = some s → o + s < 2^64 →
    ∀ (m : Mem) (base size : Nat), o + s ≤ size → base + size ≤ m.length →
    ∀ m', Agree m' (apply (shift base (sPatches fs vs o)) m) (base + o) (base + o + s) →
    readS fs m' (base + o) = vs
 | [], [], _, _, _, _, _, _, _, _, _, _, _, _ => by simp [readS]
 | t :: ts, v :: vs, o, s, hc, hs, hlt, m, base, size, hos, hb, m', hag => by
    simp only [ssizeFields] at hs
    split at hs
    · rename_i a b ha hb'
      simp only [Option.some.injEq] at hs
      subst hs
      simp only [sPatches, ha, Option.getD_some, shift_append, apply_append, shift_shift] at hag
      simp only [readS, ha, Option.getD_some]
      have hva := conf_ssize t v a hc.1 ha
      have hsl := slot_ge a
      have hA := withinD t v hc.1
      rw [hva] at hA
      have hA' : Within (shift (base + o) (patchesD t v)) (base + o) (base + o + a) := by
        have := within_shift (d := base + o) hA; simpa [Nat.add_comm] using this
      have hB := withinS ts vs (o + slot a) b hc.2 hb'
      have hB' : Within (shift base (sPatches ts vs (o + slot a))) (base + o + slot a) (base + o + slot a + b) := by
        have := within_shift (d := base) hB
        refine within_mono this (by omega) (by omega)
      have hfA := apply_frame _ m _ _ hA' (by omega)
      have hfB := apply_frame _ (apply (shift (base + o) (patchesD t v)) m) _ _ hB' (by omega)
      congr 1
      · apply rtD t v hc.1 (by omega) m (base + o) (by omega) m'
        rw [hva]
        intro i h1 h2
        rw [hag i h1 (by omega)]
        exact hfB.2 i (by omega)
      · have := rtS ts vs (o + slot a) b hc.2 hb' (by omega) (apply (shift (base + o) (patchesD t v)) m) base size (by omega) (by omega) m'
          (by intro i h1 h2; exact hag i (by omega) (by omega))
        simpa [Nat.add_assoc] using this
    · simp at hs
 | [], _ :: _, _, _, hc, _, _, _, _, _, _, _, _, _ => by simp [ConfFields] at hc
 | _ :: _, [], _, _, hc, _, _, _, _, _, _, _, _, _ => by simp [ConfFields] at hc
theorem rtDyn : ∀ (fs : List Ty) (vs : List Val) (so k dof sb : Nat), ConfFields fs vs →
    ∀ (size : Nat), size < 2^64 → ∀ (K : Nat), k + ndyn fs = K → so + staticBytes fs ≤ sb → sb + 8 * (K - 1) ≤ dof →
    dof + dynSizes fs vs ≤ size →
    ∀ (m : Mem) (base : Nat), base + size ≤ m.length → ∀ (d0 : Nat), (k = 0 → dof = d0) →
    ∀ m', Agree m' (apply (shift base (dPatches fs vs so k dof sb)) m) base (base + size) →
    readDyn fs m' base so k d0 sb = vs
 | [], [], _, _, _, _, _, _, _, _, _, _, _, _, _, _, _, _, _, _, _ => by simp [readDyn]
 | t :: ts, v :: vs, so, k, dof, sb, hc, size, hsize, K, hK, h1, hd, hdof, m, base, hb, d0, hd0, m', hag => by
    simp only [dPatches] at hag
    simp only [readDyn]
    split at hag
    · -- static field
      rename_i s hs
      have hva := conf_ssize t v s hc.1 hs
      have hsl := slot_ge s
      have hst : staticBytes (t :: ts) = slot s + staticBytes ts := by simp [staticBytes, hs]
      have hnd : ndyn (t :: ts) = ndyn ts := by simp [ndyn, hs]
      have hds : dynSizes (t :: ts) (v :: vs) = dynSizes ts vs := by simp [dynSizes, hs]
      rw [hst] at h1; rw [hnd] at hK; rw [hds] at hdof
      have hA := withinD t v hc.1
      rw [hva] at hA
      have hA' : Within (shift (base + so) (patchesD t v)) (base + so) (base + so + s) := by
        have := within_shift (d := base + so) hA; simpa [Nat.add_comm] using this
      have hAin : InBounds (shift (base + so) (patchesD t v)) m.length := inBounds_of_within hA' (by omega)
      have hRin : InBounds (shift base (dPatches ts vs (so + slot s) k dof sb)) m.length :=
        inBounds_rest ts vs _ k dof sb hc.2 base _ (by intro p hp; unfold In3 at hp; omega)
      have hRout : Outside (shift base (dPatches ts vs (so + slot s) k dof sb)) (base + so) (base + so + s) :=
        outside_rest ts vs _ k dof sb hc.2 base _ _ (by intro p hp; unfold In3 at hp; omega)
      rw [shift_append, shift_shift] at hag
      have hpart := agree_part [] (shift (base + so) (patchesD t v)) _ m (base + so) (base + so + s)
        (by intro q hq; simp at hq) hAin hRin hRout
      simp only [List.nil_append] at hpart
      congr 1
      · apply rtD t v hc.1 (by omega) m (base + so) (by omega) m'
        rw [hva]
        intro i i1 i2
        rw [hag i (by omega) (by omega)]
        exact hpart i i1 i2
      · rw [apply_append] at hag
        have hlen := apply_length _ m hAin
        exact rtDyn ts vs (so + slot s) k dof sb hc.2 size hsize K hK (by omega) hd hdof
          (apply (shift (base + so) (patchesD t v)) m) base (by omega) d0 hd0 m' hag
    · -- dynamic field
      rename_i hs
      have hv8 := vsize_pos_dyn t v hc.1 hs
      have hsl := slot_ge (vsize t v)
      have hst : staticBytes (t :: ts) = staticBytes ts := by simp [staticBytes, hs]
      have hnd : ndyn (t :: ts) = 1 + ndyn ts := by simp [ndyn, hs]
      have hds : dynSizes (t :: ts) (v :: vs) = slot (vsize t v) + dynSizes ts vs := by simp [dynSizes, hs]
      rw [hst] at h1; rw [hnd] at hK; rw [hds] at hdof
      have hA := withinD t v hc.1
      have hA' : Within (shift (base + dof) (patchesD t v)) (base + dof) (base + dof + vsize t v) := by
        have := within_shift (d := base + dof) hA; simpa [Nat.add_comm] using this
      have hAin : ∀ n, m.length ≤ n → InBounds (shift (base + dof) (patchesD t v)) n :=
        fun n hn => inBounds_of_within hA' (by omega)
      have hRin : ∀ n, m.length ≤ n → InBounds (shift base (dPatches ts vs so (k + 1) (dof + slot (vsize t v)) sb)) n :=
        fun n hn => inBounds_rest ts vs so _ _ sb hc.2 base _ (by intro p hp; unfold In3 at hp; omega)
      have hRout : Outside (shift base (dPatches ts vs so (k + 1) (dof + slot (vsize t v)) sb)) (base + dof) (base + dof + vsize t v) :=
        outside_rest ts vs so _ _ sb hc.2 base _ _ (by intro p hp; unfold In3 at hp; omega)
      rw [shift_append, shift_append, shift_shift, apply_append] at hag
      -- memory after the (optional) slot patch
      generalize hS : (shift base (if k = 0 then [] else [(sb + 8 * (k - 1), le 8 dof)])) = S at hag
      have hSin : InBounds S m.length := by
        subst hS; intro q hq
        split at hq
        · simp [shift] at hq
        · simp [shift] at hq; subst hq; simp [le_length]; omega
      have hlS := apply_length S m hSin
      have hpart := agree_part [] (shift (base + dof) (patchesD t v)) _ (apply S m) (base + dof) (base + dof + vsize t v)
        (by intro q hq; simp at hq) (hAin _ (by omega)) (hRin _ (by omega)) hRout
      simp only [List.nil_append] at hpart
      -- the offset the view reads
      have hoff : (if k = 0 then d0 else fromLE (readAt m' (base + sb + 8 * (k - 1)) 8)) = dof := by
        split
        · rename_i hk; exact (hd0 hk).symm
        · rename_i hk
          have hSeq : S = [(sb + 8 * (k - 1) + base, le 8 dof)] := by subst hS; simp [hk, shift]
          have hout : Outside (shift (base + dof) (patchesD t v) ++ shift base (dPatches ts vs so (k + 1) (dof + slot (vsize t v)) sb))
              (base + sb + 8 * (k - 1)) (base + sb + 8 * (k - 1) + 8) := by
            apply outside_append
            · exact outside_of_within hA' (by omega)
            · exact outside_rest ts vs so _ _ sb hc.2 base _ _ (by intro p hp; unfold In3 at hp; omega)
          have hin2 : InBounds (shift (base + dof) (patchesD t v) ++ shift base (dPatches ts vs so (k + 1) (dof + slot (vsize t v)) sb)) (apply S m).length :=
            inBounds_append (hAin _ (by omega)) (hRin _ (by omega))
          have hago := apply_outside _ (apply S m) _ _ hout hin2
          rw [readAt_agree hag (by omega) (by omega)]
          rw [readAt_agree hago (Nat.le_refl _) (Nat.le_refl _)]
          rw [hSeq]
          simp only [apply, List.foldl_cons, List.foldl_nil]
          have := readAt_writeAt_same m (sb + 8 * (k - 1) + base) (le 8 dof) (by simp [le_length]; omega)
          rw [le_length] at this
          have e : base + sb + 8 * (k - 1) = sb + 8 * (k - 1) + base := by omega
          rw [e, this, fromLE_le, Nat.mod_eq_of_lt (by omega)]
      rw [hoff]
      congr 1
      · apply rtD t v hc.1 (by omega) (apply S m) (base + dof) (by omega) m'
        intro i i1 i2
        rw [hag i (by omega) (by omega)]
        exact hpart i i1 i2
      · rw [apply_append] at hag
        have hlen := apply_length _ (apply S m) (hAin _ (by omega))
        exact rtDyn ts vs so (k + 1) (dof + slot (vsize t v)) sb hc.2 size hsize K (by omega) h1 (by omega) (by omega)
          (apply (shift (base + dof) (patchesD t v)) (apply S m)) base (by omega) d0 (by intro h; omega) m' hag
 | [], _ :: _, _, _, _, _, hc, _, _, _, _, _, _, _, _, _, _, _, _, _, _ => by simp [ConfFields] at hc
 | _ :: _, [], _, _, _, _, hc, _, _, _, _, _, _, _, _, _, _, _, _, _, _ => by simp [ConfFields] at hc
end
end Lay
