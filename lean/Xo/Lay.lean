import Xo.Lemmas.Mem
namespace Lay
open MemS

inductive Ty where
 | scalar (w : Nat)                       -- width in bytes
 | string
 | struct (fs : List Ty)
 | array (item : Ty) (n : Option Nat)     -- 1-D; none = dynamic length
deriving Repr

inductive Val where
 | bits (b : Nat)
 | str (bs : List UInt8)
 | struct (vs : List Val)
 | arr (vs : List Val)
deriving Repr

def slot (n : Nat) : Nat := (n + 7) / 8 * 8

mutual
def Ty.ssize : Ty → Option Nat
 | .scalar w => some w
 | .string => none
 | .struct fs => ssizeFields fs
 | .array it n =>
    match it.ssize, n with
    | some s, some k => some (slot (s * k))
    | _, _ => none
def ssizeFields : List Ty → Option Nat
 | [] => some 0
 | t :: ts => match t.ssize, ssizeFields ts with
    | some a, some b => some (slot a + b)
    | _, _ => none
end

/-- a patch: bytes written at an offset relative to the object start -/
abbrev Patch := Nat × List UInt8
def shift (d : Nat) (ps : List Patch) : List Patch := ps.map fun p => (p.1 + d, p.2)
def apply (ps : List Patch) (m : Mem) : Mem := ps.foldl (fun m p => writeAt m p.1 p.2) m

def zeros (n : Nat) : List UInt8 := List.replicate n 0

mutual
/-- instance size (`info.size`) -/
def vsize : Ty → Val → Nat
 | .scalar w, _ => w
 | .string, .str bs => slot (bs.length + 1 + 8)
 | .string, _ => 0
 | .struct fs, .struct vs =>
    match ssizeFields fs with
    | some s => s
    | none => dynStart fs + dynSizes fs vs
 | .struct _, _ => 0
 | .array it n, .arr vs =>
    match it.ssize with
    | some s => match n with
        | some k => slot (s * k)
        | none => slot (16 + s * vs.length)
    | none => slot ((match n with | some _ => 8 | none => 16) + 8 * vs.length + itemSizes it vs)
 | .array _ _, _ => 0
/-- where dynamic data starts in a dynamic struct: 8 + static fields + (ndyn-1) offset slots -/
def dynStart (fs : List Ty) : Nat :=
  8 + staticBytes fs + 8 * (ndyn fs - 1)
def staticBytes : List Ty → Nat
 | [] => 0
 | t :: ts => (match t.ssize with | some s => slot s | none => 0) + staticBytes ts
def ndyn : List Ty → Nat
 | [] => 0
 | t :: ts => (match t.ssize with | some _ => 0 | none => 1) + ndyn ts
def dynSizes : List Ty → List Val → Nat
 | t :: ts, v :: vs => (match t.ssize with | some _ => 0 | none => slot (vsize t v)) + dynSizes ts vs
 | _, _ => 0
def itemSizes (it : Ty) : List Val → Nat
 | [] => 0
 | v :: vs => vsize it v + itemSizes it vs
end

#eval vsize (.struct [.scalar 8, .string, .array (.scalar 4) none]) (.struct [.bits 1, .str [65,66], .arr [.bits 1, .bits 2, .bits 3]])
end Lay

namespace Lay
open MemS

/-- Python: bytes.decode().rstrip("\x00") at byte level -/
def stripNul (bs : List UInt8) : List UInt8 := (bs.reverse.dropWhile (· == 0)).reverse

mutual
def patches : Ty → Val → List Patch
 | .scalar w, .bits b => [(0, le w b)]
 | .string, .str bs =>
    let size := slot (bs.length + 1 + 8)
    [(0, le 8 size), (8, bs ++ zeros (size - 8 - bs.length))]
 | .struct fs, .struct vs =>
    match ssizeFields fs with
    | some _ => staticFieldPatches fs vs 0
    | none => []       -- spike: dynamic structs omitted
 | _, _ => []
def staticFieldPatches : List Ty → List Val → Nat → List Patch
 | t :: ts, v :: vs, o =>
    shift o (patches t v) ++ staticFieldPatches ts vs (o + slot ((t.ssize).getD 0))
 | _, _, _ => []
end

mutual
def read : Ty → Mem → Nat → Val
 | .scalar w, m, off => .bits (fromLE (readAt m off w))
 | .string, m, off =>
    let size := fromLE (readAt m off 8)
    .str (stripNul (readAt m (off + 8) (size - 8)))
 | .struct fs, m, off =>
    match ssizeFields fs with
    | some _ => .struct (readStaticFields fs m off)
    | none => .struct []
 | .array _ _, _, _ => .arr []
def readStaticFields : List Ty → Mem → Nat → List Val
 | [], _, _ => []
 | t :: ts, m, o => read t m o :: readStaticFields ts m (o + slot ((t.ssize).getD 0))
end

-- conformance of a value to a type (what the constructor accepts)
mutual
def Conf : Ty → Val → Prop
 | .scalar w, .bits b => b < 256 ^ w
 | .string, .str bs => (bs.getLast? ≠ some 0) ∧ bs.length + 17 < 2^64
 | .struct fs, .struct vs => ConfFields fs vs
 | _, _ => False
def ConfFields : List Ty → List Val → Prop
 | [], [] => True
 | t :: ts, v :: vs => Conf t v ∧ ConfFields ts vs
 | _, _ => False
end

def Within (ps : List Patch) (lo hi : Nat) : Prop := ∀ p ∈ ps, lo ≤ p.1 ∧ p.1 + p.2.length ≤ hi

theorem within_shift {ps : List Patch} {lo hi d : Nat} (h : Within ps lo hi) : Within (shift d ps) (lo + d) (hi + d) := by
  intro p hp
  simp only [shift, List.mem_map] at hp
  obtain ⟨q, hq, rfl⟩ := hp
  have := h q hq
  simp; omega

theorem within_mono {ps : List Patch} {lo hi lo' hi' : Nat} (h : Within ps lo hi) (h1 : lo' ≤ lo) (h2 : hi ≤ hi') :
    Within ps lo' hi' := by
  intro p hp; have := h p hp; omega

theorem within_append {a b : List Patch} {lo hi : Nat} (ha : Within a lo hi) (hb : Within b lo hi) :
    Within (a ++ b) lo hi := by
  intro p hp
  rcases List.mem_append.mp hp with h | h
  · exact ha p h
  · exact hb p h

/-- applying patches inside [lo,hi) leaves every byte outside unchanged and keeps the length -/
theorem apply_frame (ps : List Patch) : ∀ (m : Mem) (lo hi : Nat), Within ps lo hi → hi ≤ m.length →
    (apply ps m).length = m.length ∧ ∀ i, (i < lo ∨ hi ≤ i) → (apply ps m)[i]? = m[i]? := by
  induction ps with
  | nil => intro m lo hi _ _; simp [apply]
  | cons p ps ih =>
    intro m lo hi hw hhi
    have hp := hw p (by simp)
    have hlen := length_writeAt m p.1 p.2 (by omega)
    have hrest : Within ps lo hi := fun q hq => hw q (by simp [hq])
    obtain ⟨h1, h2⟩ := ih (writeAt m p.1 p.2) lo hi hrest (by omega)
    simp only [apply, List.foldl_cons] at *
    refine ⟨by omega, ?_⟩
    intro i hi'
    rw [h2 i hi', getElem?_writeAt _ _ _ (by omega)]
    have : ¬ (p.1 ≤ i ∧ i < p.1 + p.2.length) := by omega
    simp [this]
end Lay

namespace Lay
open MemS

theorem slot_ge (n : Nat) : n ≤ slot n := by unfold slot; omega

/-- for static types the instance size is the class size -/
theorem vsize_static_fields : ∀ (fs : List Ty) (vs : List Val) (s : Nat), ssizeFields fs = some s →
    vsize (.struct fs) (.struct vs) = s := by
  intro fs vs s h; simp [vsize, h]

mutual
theorem conf_ssize : ∀ (t : Ty) (v : Val) (s : Nat), Conf t v → t.ssize = some s → vsize t v = s
 | .scalar w, .bits b, s, _, h => by simp [Ty.ssize] at h; simp [vsize, h]
 | .string, .str bs, s, _, h => by simp [Ty.ssize] at h
 | .struct fs, .struct vs, s, _, h => by simp only [Ty.ssize] at h; simp [vsize, h]
 | .array it n, v, s, hc, _ => by cases v <;> simp [Conf] at hc
 | .scalar _, .str _, _, hc, _ | .scalar _, .struct _, _, hc, _ | .scalar _, .arr _, _, hc, _ => by simp [Conf] at hc
 | .string, .bits _, _, hc, _ | .string, .struct _, _, hc, _ | .string, .arr _, _, hc, _ => by simp [Conf] at hc
 | .struct _, .bits _, _, hc, _ | .struct _, .str _, _, hc, _ | .struct _, .arr _, _, hc, _ => by simp [Conf] at hc
end

mutual
theorem patches_within : ∀ (t : Ty) (v : Val), Conf t v → Within (patches t v) 0 (vsize t v)
 | .scalar w, .bits b, _ => by
    intro p hp; simp [patches] at hp; subst hp; simp [vsize, le_length]
 | .string, .str bs, _ => by
    intro p hp
    have := slot_ge (bs.length + 1 + 8)
    simp only [patches, List.mem_cons, List.not_mem_nil, or_false] at hp
    rcases hp with rfl | rfl
    · simp [vsize, le_length]; omega
    · simp [vsize, zeros]; omega
 | .struct fs, .struct vs, hc => by
    simp only [patches]
    split
    · rename_i s hs
      have := static_within fs vs 0 s (by simpa [Conf] using hc) hs
      simpa [vsize, hs] using this
    · intro p hp; simp at hp
 | .array it n, v, hc => by cases v <;> simp [Conf] at hc
 | .scalar _, .str _, hc | .scalar _, .struct _, hc | .scalar _, .arr _, hc => by simp [Conf] at hc
 | .string, .bits _, hc | .string, .struct _, hc | .string, .arr _, hc => by simp [Conf] at hc
 | .struct _, .bits _, hc | .struct _, .str _, hc | .struct _, .arr _, hc => by simp [Conf] at hc
theorem static_within : ∀ (fs : List Ty) (vs : List Val) (o s : Nat), ConfFields fs vs → ssizeFields fs = some s →
    Within (staticFieldPatches fs vs o) o (o + s)
 | [], [], o, s, _, _ => by intro p hp; simp [staticFieldPatches] at hp
 | t :: ts, v :: vs, o, s, hc, hs => by
    simp only [ssizeFields] at hs
    split at hs
    · rename_i a b ha hb
      simp only [Option.some.injEq] at hs
      subst hs
      simp only [staticFieldPatches, ha, Option.getD_some]
      have h1 := patches_within t v hc.1
      rw [conf_ssize t v a hc.1 ha] at h1
      have h2 := static_within ts vs (o + slot a) b hc.2 hb
      have hsl := slot_ge a
      apply within_append
      · have := within_shift (d := o) h1
        exact within_mono this (by omega) (by omega)
      · exact within_mono h2 (by omega) (by omega)
    · simp at hs
 | [], _ :: _, _, _, hc, _ => by simp [ConfFields] at hc
 | _ :: _, [], _, _, hc, _ => by simp [ConfFields] at hc
end
#print axioms patches_within
end Lay

namespace Lay
open MemS

def Agree (m' m : Mem) (lo hi : Nat) : Prop := ∀ i, lo ≤ i → i < hi → m'[i]? = m[i]?

theorem readAt_agree {m' m : Mem} {lo hi off n : Nat} (h : Agree m' m lo hi) (h1 : lo ≤ off) (h2 : off + n ≤ hi) :
    readAt m' off n = readAt m off n := by
  apply List.ext_getElem?
  intro i
  rw [getElem?_readAt, getElem?_readAt]
  by_cases hi' : i < n
  · simp [hi', h (off + i) (by omega) (by omega)]
  · simp [hi']

theorem agree_mono {m' m : Mem} {lo hi lo' hi' : Nat} (h : Agree m' m lo hi) (h1 : lo ≤ lo') (h2 : hi' ≤ hi) :
    Agree m' m lo' hi' := fun i a b => h i (by omega) (by omega)

theorem agree_trans {a b c : Mem} {lo hi : Nat} (h1 : Agree a b lo hi) (h2 : Agree b c lo hi) : Agree a c lo hi :=
  fun i x y => (h1 i x y).trans (h2 i x y)

theorem shift_shift (a b : Nat) (ps : List Patch) : shift a (shift b ps) = shift (a + b) ps := by
  simp [shift, List.map_map, Function.comp_def]; intro p _; omega

theorem shift_append (d : Nat) (a b : List Patch) : shift d (a ++ b) = shift d a ++ shift d b := by
  simp [shift]

theorem apply_append (a b : List Patch) (m : Mem) : apply (a ++ b) m = apply b (apply a m) := by
  simp [apply, List.foldl_append]

theorem stripNul_append_zeros (bs : List UInt8) (k : Nat) (h : bs.getLast? ≠ some 0) :
    stripNul (bs ++ zeros k) = bs := by
  unfold stripNul zeros
  rw [List.reverse_append, List.reverse_replicate]
  have h1 : ∀ (k : Nat) (l : List UInt8), (List.replicate k (0:UInt8) ++ l).dropWhile (· == 0) = l.dropWhile (· == 0) := by
    intro k l; induction k with
    | zero => simp
    | succ n ih => simp [List.replicate_succ, ih]
  rw [h1]
  cases hb : bs.reverse with
  | nil => simp at hb; simp [hb]
  | cons x xs =>
    have hx : bs.getLast? = some x := by
      rw [List.getLast?_eq_head?_reverse, hb]; rfl
    have hne : (x == 0) = false := by
      cases hxe : (x == 0) with
      | false => rfl
      | true => exfalso; apply h; rw [hx]; simp at hxe; rw [hxe]
    rw [List.dropWhile_cons, hne]
    simp only [Bool.false_eq_true, if_false]
    rw [← hb, List.reverse_reverse]

end Lay
