namespace Spec
/-! Port of specialize_source (without include_file I/O: included files are passed in as a lookup). -/

abbrev Str := List Char

def isPrefix : Str → Str → Bool
 | [], _ => true
 | _ :: _, [] => false
 | a :: as, b :: bs => a == b && isPrefix as bs

/-- python `pat in s` -/
def contains (s pat : Str) : Bool :=
  match s with
  | [] => pat.isEmpty
  | _ :: r => isPrefix pat s || contains r pat

/-- python `s.split(pat)` for non-empty pat -/
partial def splitOn (s pat : Str) : List Str :=
  let rec go (s : Str) (cur : Str) (acc : List Str) : List Str :=
    match s with
    | [] => (cur.reverse :: acc).reverse
    | c :: r =>
      if isPrefix pat s then go (s.drop pat.length) [] (cur.reverse :: acc)
      else go r (c :: cur) acc
  go s [] []

/-- python `s.replace(pat, rep)` -/
partial def replaceAll (s pat rep : Str) : Str :=
  match s with
  | [] => []
  | c :: r => if isPrefix pat s then rep ++ replaceAll (s.drop pat.length) pat rep else c :: replaceAll r pat rep

def isWs (c : Char) : Bool := c == ' ' || c == '\t' || c == '\n' || c == '\r' || c == '\x0b' || c == '\x0c'
/-- python `s.split()` -/
def words (s : Str) : List Str :=
  let rec go (s : Str) (cur : Str) (acc : List Str) : List Str :=
    match s with
    | [] => (if cur.isEmpty then acc else cur.reverse :: acc).reverse
    | c :: r => if isWs c then go r [] (if cur.isEmpty then acc else cur.reverse :: acc) else go r (c :: cur) acc
  go s [] []

inductive Target | cpu_serial | cpu_openmp | opencl | cuda
deriving DecidableEq, Repr
def Target.name : Target → Str
 | .cpu_serial => "cpu_serial".toList | .cpu_openmp => "cpu_openmp".toList | .opencl => "opencl".toList | .cuda => "cuda".toList
def Target.isCpu : Target → Bool | .cpu_serial | .cpu_openmp => true | _ => false

def S (s : String) : Str := s.toList

/-- second pass over lines; returns none on python ValueError -/
def pass2 (t : Target) : List Str → Bool → List Str → Option (List Str)
 | [], _, out => some out.reverse
 | ll :: rest, inside, out =>
   if contains ll (S "//vectorize_over") then
     if inside then none else
     match words ((splitOn ll (S "//vectorize_over")).getLast!) with
     | [v, lim] =>
       let new : List Str :=
         if t.isCpu then [S "for (int " ++ v ++ S "=0; " ++ v ++ S "<" ++ lim ++ S "; " ++ v ++ S "++){ //autovectorized\n"]
         else if t == .opencl then [S "int " ++ v ++ S "; //autovectorized\n", v ++ S "=get_global_id(0); //autovectorized\n"]
         else [S "int " ++ v ++ S "; //autovectorized\n",
               v ++ S "=blockDim.x * blockIdx.x + threadIdx.x;//autovectorized\nif (" ++ v ++ S "<" ++ lim ++ S "){"]
       pass2 t rest true (new.reverse ++ out)
     | _ => none
   else if contains ll (S "//end_vectorize") then
     let new := if t == .opencl then S "//end autovectorized\n" else S "}//end autovectorized\n"
     pass2 t rest false (new :: out)
   else
     let ll' :=
       if contains ll (S "//only_for_context") then
         let ctxs := words ((splitOn ll (S "//only_for_context")).getLast!)
         if ctxs.contains t.name then ll else S "//" ++ ll
       else ll
     pass2 t rest inside (ll' :: out)

def joinLines (ls : List Str) : Str := (ls.intersperse (S "\n")).flatten

def specialize (t : Target) (src : Str) : Option Str := do
  -- python splitlines() for LF-only text: a trailing newline does not open a new (empty) line
  let lines0 := splitOn src (S "\n")
  let lines := if src.isEmpty then [] else if lines0.getLast? == some [] then lines0.dropLast else lines0
  let out ← pass2 t lines false []
  let s0 := joinLines out
  let s1 := replaceAll s0 (S "/*gpukern*/") (match t with | .opencl => S " __kernel " | .cuda => S "__global__" | _ => S " ")
  let s2 := replaceAll s1 (S "/*gpufun*/") (match t with | .opencl => S " " | .cuda => S " __device__ " | _ => S " static inline")
  let s3 := replaceAll s2 (S "/*gpuglmem*/") (match t with | .opencl => S " __global " | _ => S " ")
  let s4 := replaceAll s3 (S "/*restrict*/") (if t.isCpu then S " restrict " else S "")
  pure s4
end Spec
