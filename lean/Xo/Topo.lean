namespace Topo
/-! Model of context.topological_sort (after de-duplicating the initial list).
    source : child ↦ parents, insertion ordered; every parent is a key (sort_classes closes the set). -/

abbrev Name := Nat
abbrev Graph := List (Name × List Name)      -- child ↦ parents (keys distinct)

def parentsOf (g : Graph) (c : Name) : List Name := (g.lookup c).getD []
/-- children of p in the order python's `graph[p]` lists them: one entry per occurrence of p in a parents list -/
def childrenOf (g : Graph) (p : Name) : List Name :=
  g.flatMap fun (c, ps) => (ps.filter (· == p)).map fun _ => c

/-- state of the main loop: `result` (processed prefix has length `i`), remaining parent counts -/
structure St where
  result : List Name
  np : Name → Nat

def decr (np : Name → Nat) (c : Name) : Name → Nat := fun x => if x = c then np x - 1 else np x

/-- process one parent: for each child occurrence decrement; append when it reaches 0 -/
def processChildren : List Name → St → St
 | [], s => s
 | c :: cs, s =>
    let np' := decr s.np c
    processChildren cs { result := if np' c = 0 then s.result ++ [c] else s.result, np := np' }

/-- `for parent in result:` with result growing; `done` = parents already deleted from `graph` -/
def loop (g : Graph) : Nat → Nat → List Name → St → St × List Name
 | 0, _, done, s => (s, done)
 | fuel+1, i, done, s =>
    match s.result[i]? with
    | none => (s, done)
    | some p =>
      if p ∈ done then loop g fuel (i+1) done s
      else loop g fuel (i+1) (p :: done) (processChildren (childrenOf g p) s)

def topo (g : Graph) : List Name × Bool :=
  let np0 : Name → Nat := fun c => (parentsOf g c).length
  let roots := (g.filter fun (_, ps) => ps.isEmpty).map (·.1)
  let edges := (g.map fun (_, ps) => ps.length).sum
  let (s, done) := loop g (g.length + edges + 1) 0 [] { result := roots, np := np0 }
  -- graph keys left = parents never processed
  let left := (g.flatMap (·.2)).eraseDups.filter (fun p => p ∉ done)
  (s.result ++ left, !left.isEmpty)

#eval topo [(0, []), (1, [0]), (2, [0, 1]), (3, [2, 2])]
#eval topo [(0, [1]), (1, [0]), (2, [])]
#eval topo [(3, [2]), (2, [1]), (1, [0]), (0, [])]
end Topo
