namespace Spike

inductive Scalar | f64 | f32 | i64 | u64 | i32 | u32 | i16 | u16 | i8 | u8
deriving Repr, DecidableEq

def Scalar.size : Scalar → Nat
 | .f64 | .i64 | .u64 => 8
 | .f32 | .i32 | .u32 => 4
 | .i16 | .u16 => 2
 | .i8 | .u8 => 1

inductive Ty where
 | scalar (s : Scalar)
 | string
 | struct (name : String) (fields : List (String × Ty))
 | array (item : Ty) (shape : List (Option Nat)) (order : List Nat)
 | ref (target : Ty)
 | unionref (name : String) (members : List Ty)
deriving Repr

def slot (n : Nat) : Nat := (n + 7) / 8 * 8

mutual
/-- class-level `_size` : none if dynamic -/
def Ty.ssize : Ty → Option Nat
 | .scalar s => some s.size
 | .string => none
 | .struct _ fs => fieldsSize fs
 | .array it shape _ =>
    match it.ssize, shape.mapM id with
    | some n, some dims => some (slot (dims.foldl (· * ·) n))
    | _, _ => none
 | .ref _ => some 8
 | .unionref _ _ => some 16
def fieldsSize : List (String × Ty) → Option Nat
 | [] => some 0
 | (_, t) :: fs =>
    match t.ssize, fieldsSize fs with
    | some a, some b => some (slot a + b)
    | _, _ => none
end

theorem slot_mod (n : Nat) : slot n % 8 = 0 := by unfold slot; omega

mutual
theorem ssize_struct_mod : ∀ (fs : List (String × Ty)) n, fieldsSize fs = some n → n % 8 = 0
 | [], n, h => by simp [fieldsSize] at h; omega
 | (_, t) :: fs, n, h => by
    simp only [fieldsSize] at h
    split at h
    · rename_i a b ha hb
      have := ssize_struct_mod fs b hb
      have := slot_mod a
      simp at h; omega
    · simp at h
end

inductive Val where
 | bits (n : Nat)
 | str (bs : List UInt8)
 | struct (fs : List Val)
 | arr (shape : List Nat) (items : List Val)
 | null
 | obj (off : Nat)
deriving Repr

#eval (Ty.struct "A" [("x", .scalar .i8), ("y", .array (.scalar .f32) [some 3] [0])]).ssize
end Spike
