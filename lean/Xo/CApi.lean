namespace CSpike

/-- how an array's strides are known to the generated code -/
inductive Strides
 | static (ss : List Int)
 | dynamic (nd ndyn : Nat)      -- read from header words at 8 + 8*ndyn + 8*i
deriving Repr

inductive Part
 | cls                               -- a class / scalar entry of the path: contributes nothing
 | fieldStatic (k : Int)
 | fieldRef (k : Int)                -- slot at k holds offset relative to struct start
 | ref                               -- slot holds offset relative to the slot
 | index (st : Strides) (dataOff : Int) (dynItem : Bool) (nd : Nat)
deriving Repr

inductive Stmt
 | addConst (k : Int)
 | addLoad (k : Int)                                   -- offset += load(obj+offset+k)
 | index (st : Strides) (dataOff : Int) (dynItem : Bool) (icount nd : Nat)
deriving Repr

abbrev Load := Int → Int     -- the int64 stored at a byte address (all header contents at once)

def strideVal (ld : Load) (base : Int) : Strides → Nat → Int
 | .static ss, i => ss.getD i 0
 | .dynamic _ ndyn, i => ld (base + 8 + 8 * ndyn + 8 * i)

def dot (ld : Load) (base : Int) (st : Strides) (idx : List Int) (icount : Nat) : Nat → Nat → Int
 | _, 0 => 0
 | j, n+1 => idx.getD (icount + j) 0 * strideVal ld base st j + dot ld base st idx icount (j+1) n

def Stmt.exec (ld : Load) (obj : Int) (idx : List Int) (off : Int) : Stmt → Int
 | .addConst k => off + k
 | .addLoad k => off + ld (obj + off + k)
 | .index st d dyn ic nd =>
    let s := d + dot ld (obj + off) st idx ic 0 nd
    if dyn then off + ld (obj + off + s) else off + s     -- fixed form: `offset+=`

def execAll (ld : Load) (obj : Int) (idx : List Int) : Int → List Stmt → Int
 | off, [] => off
 | off, s :: ss => execAll ld obj idx (s.exec ld obj idx off) ss

/-- gen_method_offset: static accumulator `acc`, dumped before any dynamic statement -/
def gen : List Part → (acc : Int) → (icount : Nat) → List Stmt
 | [], acc, _ => if acc > 0 then [.addConst acc] else []
 | .cls :: ps, acc, ic => gen ps acc ic
 | .fieldStatic k :: ps, acc, ic => gen ps (acc + k) ic
 | .fieldRef k :: ps, acc, ic =>
     (if acc > 0 then [.addConst acc] else []) ++ .addLoad k :: gen ps 0 ic
 | .ref :: ps, acc, ic =>
     (if acc > 0 then [.addConst acc] else []) ++ .addLoad 0 :: gen ps 0 ic
 | .index st d dyn nd :: ps, acc, ic =>
     (if acc > 0 then [.addConst acc] else []) ++ .index st d dyn ic nd :: gen ps 0 (ic + nd)

/-- the documented layout's address of the path target, relative to obj -/
def docAddr (ld : Load) (obj : Int) (idx : List Int) : List Part → (cur : Int) → (icount : Nat) → Int
 | [], cur, _ => cur
 | .cls :: ps, cur, ic => docAddr ld obj idx ps cur ic
 | .fieldStatic k :: ps, cur, ic => docAddr ld obj idx ps (cur + k) ic
 | .fieldRef k :: ps, cur, ic => docAddr ld obj idx ps (cur + ld (obj + cur + k)) ic
 | .ref :: ps, cur, ic => docAddr ld obj idx ps (cur + ld (obj + cur)) ic
 | .index st d dyn nd :: ps, cur, ic =>
     let s := d + dot ld (obj + cur) st idx ic 0 nd
     docAddr ld obj idx ps (if dyn then cur + ld (obj + cur + s) else cur + s) ic.succ.pred.succ.pred |>
       fun _ => docAddr ld obj idx ps (if dyn then cur + ld (obj + cur + s) else cur + s) (ic + nd)

def NonNeg : List Part → Prop
 | [] => True
 | .fieldStatic k :: ps => 0 ≤ k ∧ NonNeg ps
 | _ :: ps => NonNeg ps

theorem gen_correct (ld : Load) (obj : Int) (idx : List Int) :
    ∀ (ps : List Part) (acc : Int) (ic : Nat) (off : Int), 0 ≤ acc → NonNeg ps →
    execAll ld obj idx off (gen ps acc ic) = docAddr ld obj idx ps (off + acc) ic := by
  intro ps
  induction ps with
  | nil =>
    intro acc ic off hacc _
    simp only [gen, docAddr]
    split
    · simp [execAll, Stmt.exec]
    · simp [execAll]; omega
  | cons p ps ih =>
    intro acc ic off hacc hnn
    cases p with
    | cls => simpa [gen, docAddr] using ih acc ic off hacc hnn
    | fieldStatic k =>
      simp only [gen, docAddr]
      have := ih (acc + k) ic off (by have := hnn.1; omega) hnn.2
      rw [this]; congr 1; omega
    | fieldRef k =>
      simp only [gen, docAddr]
      split
      · simp only [List.singleton_append, execAll, Stmt.exec]
        rw [ih 0 ic _ (by omega) hnn]; simp
      · have h0 : acc = 0 := by omega
        subst h0
        simp only [List.nil_append, execAll, Stmt.exec]
        rw [ih 0 ic _ (by omega) hnn]; simp
    | ref =>
      simp only [gen, docAddr]
      split
      · simp only [List.singleton_append, execAll, Stmt.exec]
        rw [ih 0 ic _ (by omega) hnn]; simp
      · have h0 : acc = 0 := by omega
        subst h0
        simp only [List.nil_append, execAll, Stmt.exec]
        rw [ih 0 ic _ (by omega) hnn]; simp
    | index st d dyn nd =>
      simp only [gen, docAddr]
      split
      · simp only [List.singleton_append, execAll, Stmt.exec]
        rw [ih 0 (ic+nd) _ (by omega) hnn]; simp
      · have h0 : acc = 0 := by omega
        subst h0
        simp only [List.nil_append, execAll, Stmt.exec]
        rw [ih 0 (ic+nd) _ (by omega) hnn]; simp

#print axioms gen_correct
end CSpike
