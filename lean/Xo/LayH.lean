import Xo.LayR
namespace LayM
open CGen
/-! Heap of several buffers; xobject values (views) as inputs: copy construction (C09), reference binding (C08).
    Mirrors the tree WITH the prototype fixes (O-10). -/

structure Heap where
  bufs : Array Buf
  ctxs : Array Nat          -- context id per buffer

/-- values that can also be existing objects -/
inductive HV where
 | plain (v : VIn)
 | view (b : Nat) (t : Ty) (off : Nat)
 | dict (fs : List (String × HV))
 | list (xs : List HV)
 | tagged (n : String) (v : HV)
deriving Inhabited

partial def hvOfVIn : VIn → HV
 | .dict fs => .dict (fs.map fun (n, v) => (n, hvOfVIn v))
 | .list xs => .list (xs.map hvOfVIn)
 | .tagged n v => .tagged n (hvOfVIn v)
 | v => .plain v

mutual
partial def hasRefs : Ty → Bool
 | .ref _ | .unionref .. => true
 | .struct _ fs => fs.any fun f => hasRefs f.2
 | .array it _ _ => hasRefs it
 | _ => false
end

instance : Inhabited Buf := ⟨{ alloc := { capacity := 0, chunks := [], align := 1, growStep := none }, mem := #[] }⟩
def getBuf (h : Heap) (i : Nat) : Buf := h.bufs.getD i default
def setBuf (h : Heap) (i : Nat) (b : Buf) : Heap := { h with bufs := h.bufs.setIfInBounds i b }

/-- instance size of an existing object -/
def objSize (m : Mem) (t : Ty) (off : Nat) : Nat :=
  match t.ssize with
  | some s => s
  | none => rdU64 m off

/-- python value of a slot of an existing object, as the constructors see it -/
partial def slotValue (h : Heap) (bi : Nat) (t : Ty) (off : Nat) : HV :=
  let m := (getBuf h bi).mem
  match t with
  | .scalar s => .plain (.bits (fromLE (rd m off s.size)))
  | .string => let size := rdU64 m off; .plain (.str (stripNul (rd m (off + 8) (size - 8))))
  | .ref _ | .unionref .. =>
    match resolve t m off with
    | none => .plain .none
    | some (tt, o) => .view bi tt o
  | _ => .view bi t off

partial def hvShape (h : Heap) (v : HV) (nd : Nat) : List Nat :=
  match v with
  | .view bi t off => (arrView t (getBuf h bi).mem off).shape
  | .plain p => shapeOf p nd
  | .list xs => if xs.length > 0 && nd > 1 then xs.length :: hvShape h (xs.getD 0 default) (nd - 1) else [xs.length]
  | _ => []

partial def hvElem (h : Heap) (v : HV) (shape idx : List Nat) : HV :=
  match v with
  | .view bi (.array it sh ord) off =>
    match itemAddr (.array it sh ord) (getBuf h bi).mem off (idx.map Int.ofNat) with
    | .ok a => slotValue h bi it a
    | .error _ => .plain .none
  | .plain p => hvOfVIn (elemAt p shape idx)
  | .list xs => match idx with
    | [] => v
    | [i] => xs.getD i default
    | i :: r => hvElem h (xs.getD i default) (shape.drop 1) r
  | _ => v

def hvField (h : Heap) (v : HV) (t : Ty) (n : String) : HV :=
  match v with
  | .dict d => (d.lookup n).getD (.plain .none)
  | .plain (.dict d) => hvOfVIn ((d.lookup n).getD .none)
  | .view bi tv off =>
    match fieldAddr tv (getBuf h bi).mem off n with
    | .ok (ft, a) => slotValue h bi ft a
    | .error _ => .plain .none
  | _ => .plain .none

mutual
partial def hsize (h : Heap) (t : Ty) (v : HV) : Nat :=
  match t, v with
  | _, .view bi tv off =>
    -- Struct: arg._get_size(); Array: recomputed from the items (equal for well formed objects)
    match t with
    | .array .. => (harrPlan h t v).size
    | _ => objSize (getBuf h bi).mem tv off
  | .scalar s, _ => s.size
  | .string, .plain (.str bs) => slot (bs.length + 1 + 8)
  | .string, .plain (.cap n) => n + 8
  | .string, _ => 0
  | .ref _, _ => 8
  | .unionref .., _ => 16
  | .struct _ fs, _ =>
    match fieldsSize fs with
    | some s => s
    | none =>
      let lay := fieldLayout fs
      let d0 := ((fs.zip lay).filter fun (f, l) => f.2.ssize.isNone && !l.2).head?.map (·.2.1) |>.getD 0
      fs.foldl (fun acc (n, ft) =>
        match ft.ssize with
        | some _ => acc
        | none => acc + slot (hsize h ft (hvField h v t n))) d0
  | .array .., _ => (harrPlan h t v).size
partial def harrPlan (h : Heap) (t : Ty) (v : HV) : ArrPlan :=
  match t with
  | .array it shp ord =>
    let ai := arrInfo it shp ord
    let nd := shp.length
    let shape : List Nat := if ai.staticShape then shp.map (·.getD 0) else hvShape h v nd
    let isz := match it.ssize with | some s => s | none => 8
    let strides := getStrides shape ord isz
    let items := prod shape
    if ai.staticShape && ai.staticType then
      { shape, order := ord, strides, size := slot (isz * items), header := [], dataOff := 0, itemOffsets := [] }
    else
      let dyn := ai.dynIdx.map fun i => shape.getD i 0
      let hdr0 := dyn ++ (if !ai.staticShape && nd > 1 then strides else [])
      let off0 := 8 + 8 * hdr0.length
      if ai.staticType then
        let size := slot (off0 + isz * items)
        { shape, order := ord, strides, size, header := size :: hdr0, dataOff := off0, itemOffsets := [] }
      else
        let idxs := iterIndex shape ord
        let (offs, fin) := idxs.foldl (fun (acc : List (Nat × Nat) × Nat) idx =>
            let sz := hsize h it (hvElem h v shape idx)
            (acc.1 ++ [(cpos shape idx, acc.2)], acc.2 + slot sz)) ([], off0 + 8 * items)
        let table := (List.range items).map fun p => (offs.lookup p).getD 0
        { shape, order := ord, strides, size := slot fin, header := slot fin :: hdr0, dataOff := off0, itemOffsets := table }
  | _ => default
end

def hwr (h : Heap) (bi off : Nat) (bs : List UInt8) : Heap := setBuf h bi (wr (getBuf h bi) off bs)

mutual
partial def hToBuffer (t : Ty) (v : HV) (bi off : Nat) (h : Heap) : Heap :=
  match t, v with
  -- an existing object of a reference-free type: binary copy (update_from_xbuffer)
  | .struct .., .view sb tv so =>
    if !hasRefs t then
      let n := objSize (getBuf h sb).mem tv so
      hwr h bi off (rd (getBuf h sb).mem so n)
    else hCompound t v bi off h
  | .array .., .view sb tv so =>
    -- binary copy only when the planned size (recomputed from the items) equals the source's size
    let n := objSize (getBuf h sb).mem tv so
    if !hasRefs t && n == hsize h t v then hwr h bi off (rd (getBuf h sb).mem so n)
    else hCompound t v bi off h
  | .scalar s, .plain (.bits x) => hwr h bi off (le s.size x)
  | .scalar _, _ => h
  | .string, .plain (.str bs) =>
    let size := slot (bs.length + 1 + 8)
    hwr (hwr h bi off (le 8 size)) bi (off + 8) (bs ++ List.replicate (size - 8 - bs.length) 0)
  | .string, .plain (.cap n) => hwr (hwr h bi off (le 8 (n + 8))) bi (off + 8) (List.replicate n 0)
  | .string, _ => h
  | .ref _, .plain .none => hwr h bi off (i64 (-(2^63 : Int)))
  | .ref tt, .view sb tv so =>
    if tv.name == tt.name && sb == bi then hwr h bi off (i64 ((so : Int) - off))
    else
      let (o, h) := hConstruct tt v bi h
      hwr h bi off (i64 ((o : Int) - off))
  | .ref tt, v =>
    let (o, h) := hConstruct tt v bi h
    hwr h bi off (i64 ((o : Int) - off))
  | .unionref _ _, .plain .none => hwr h bi off (i64 (-(2^63 : Int)) ++ i64 (-1))
  | .unionref _ ms, .view sb tv so =>
    match findIdx (ms.map (·.name)) tv.name with
    | some i =>
      if sb == bi then hwr h bi off (i64 ((so : Int) - off) ++ i64 i)
      else
        let (o, h) := hConstruct (ms.getD i default) v bi h
        hwr h bi off (i64 ((o : Int) - off) ++ i64 i)
    | none => h
  | .unionref _ ms, .tagged nm dv =>
    match findIdx (ms.map (·.name)) nm with
    | some i =>
      let (o, h) := hConstruct (ms.getD i default) dv bi h
      hwr h bi off (i64 ((o : Int) - off) ++ i64 i)
    | none => h
  | .unionref _ ms, .plain (.tagged nm dv) =>
    match findIdx (ms.map (·.name)) nm with
    | some i =>
      let (o, h) := hConstruct (ms.getD i default) (hvOfVIn dv) bi h
      hwr h bi off (i64 ((o : Int) - off) ++ i64 i)
    | none => h
  | .unionref .., _ => h
  | _, _ => hCompound t v bi off h
/-- field-wise / item-wise writer -/
partial def hCompound (t : Ty) (v : HV) (bi off : Nat) (h : Heap) : Heap :=
  match t with
  | .struct _ fs =>
    let lay := fieldLayout fs
    match fieldsSize fs with
    | some _ =>
      (fs.zip lay).foldl (fun h ((n, ft), (o, _)) => hToBuffer ft (hvField h v t n) bi (off + o) h) h
    | none =>
      let size := hsize h t v
      let h := hwr h bi off (le 8 size)
      let d0 := ((fs.zip lay).filter fun (f, l) => f.2.ssize.isNone && !l.2).head?.map (·.2.1) |>.getD 0
      -- info._offsets: from the source object when copying, else freshly planned
      let doffs : List (String × Nat) :=
        match v with
        | .view sb _ so =>
          (fs.zip lay).filterMap fun ((n, ft), (o, isRef)) =>
            match ft.ssize with
            | some _ => none
            | none => some (n, if isRef then rdU64 (getBuf h sb).mem (so + o) else o)
        | _ =>
          (fs.foldl (fun (acc : List (String × Nat) × Nat) (n, ft) =>
            match ft.ssize with
            | some _ => acc
            | none => (acc.1 ++ [(n, acc.2)], acc.2 + slot (hsize h ft (hvField h v t n)))) ([], d0)).1
      let h := (fs.zip lay).foldl (fun h ((n, ft), (o, _)) =>
          match ft.ssize with
          | some _ => h
          | none => hwr h bi (off + o) (le 8 ((doffs.lookup n).getD 0))) h
      (fs.zip lay).foldl (fun h ((n, ft), (o, isRef)) =>
          let fo := if isRef then (doffs.lookup n).getD 0 else o
          hToBuffer ft (hvField h v t n) bi (off + fo) h) h
  | .array it shp ord =>
    let ai := arrInfo it shp ord
    let p := harrPlan h t v
    let h := if p.header.isEmpty then h else hwr h bi off (p.header.flatMap (le 8))
    let coff := off + 8 * p.header.length
    let items := prod p.shape
    let idxs := iterIndex p.shape p.order
    if ai.staticType then
      let isz := it.ssize.getD 0
      (idxs.zip (List.range items)).foldl (fun h (idx, k) =>
        hToBuffer it (hvElem h v p.shape idx) bi (off + ai.dataOffset + k * isz) h) h
    else
      let h := hwr h bi coff (idxs.flatMap fun idx => le 8 (p.itemOffsets.getD (cpos p.shape idx) 0))
      idxs.foldl (fun h idx =>
        hToBuffer it (hvElem h v p.shape idx) bi (off + p.itemOffsets.getD (cpos p.shape idx) 0) h) h
  | _ => h
partial def hConstruct (t : Ty) (v : HV) (bi : Nat) (h : Heap) : Nat × Heap :=
  let size := hsize h t v
  let (o, b) := allocate (getBuf h bi) size
  (o, hToBuffer t v bi o (setBuf h bi b))
end
/-- write `size` into the size word of a dynamically sized object (Array._update keeps the stored size) -/
def hForceSize (h : Heap) (bi : Nat) (t : Ty) (off size : Nat) : Heap :=
  match t.ssize with
  | some _ => h
  | none => hwr h bi off (le 8 size)

/-- assignment of a value that may be an existing object to a slot of an existing object:
`Field.__set__` / `Array.__setitem__` → `_update` (effects kept on the error path) -/
partial def hAssign (t : Ty) (v : HV) (bi off : Nat) (h : Heap) : Heap × Option Err :=
  match t, v with
  | .ref _, _ | .unionref .., _ => (hToBuffer t v bi off h, none)      -- Field.__set__ on a reference: `ftype._to_buffer`
  | _, .plain p =>
    let (b, e) := assign t off p (getBuf h bi)
    (setBuf h bi b, e)
  | _, .view sb tv so =>
    let m := (getBuf h bi).mem
    match t with
    | .struct _ fs =>
      -- Struct._update: binary copy iff same class, same size, no references; else field by field
      let ssz := objSize (getBuf h sb).mem tv so
      if tv.name == t.name && ssz == objSize m t off && !hasRefs t then
        (hwr h bi off (rd (getBuf h sb).mem so ssz), none)
      else
        fs.foldl (fun (acc : Heap × Option Err) (n, _) =>
          match acc.2 with
          | some _ => acc
          | none =>
            match fieldAddr t (getBuf acc.1 bi).mem off n with
            | .ok (ft, a) => hAssign ft (hvField acc.1 v t n) bi a acc.1
            | .error e => (acc.1, some e)) (h, none)
    | .array it shp ord =>
      -- Array._update: shapes must match; plan; refuse if it needs more than the stored size; write with the stored size
      let av := arrView t m off
      let vshape := hvShape h v shp.length
      if vshape != av.shape then (h, some .value)
      else
        let p := harrPlan h t v
        if p.size > av.size then (h, some .value)
        else
          let ssz := objSize (getBuf h sb).mem tv so
          let h' := if !hasRefs t && ssz == av.size then hwr h bi off (rd (getBuf h sb).mem so ssz)
                    else hForceSize (hCompound t v bi off h) bi t off av.size
          (h', none)
    | _ => (h, some .value)
  | _, _ => (h, some .value)

end LayM
