import Xo.CGen
/-! Semantics of the statement language the C generator emits (`CGen.Stmt`), and the documented
layout's address expression for an access path (`docAddr`).  Memory is a function from byte
ADDRESS to the `int64_t` stored there, universally quantified in every theorem: all header
contents at once. -/
namespace CGen

abbrev Load := Int → Int

/-- stride `ii` of the array at address `base`: a class-level constant, or header word
`1 + ndyn + ii` when the shape is dynamic and N-D -/
def strideAt (ld : Load) (base : Int) (ai : ArrInfo) (ii : Nat) : Int :=
  match ai.staticStrides with
  | some ss => ((ss.getD ii 0 : Nat) : Int)
  | none => ld (base + ((8 + ai.dynIdx.length * 8 + ii * 8 : Nat) : Int))

def nStrides (ai : ArrInfo) : Nat :=
  match ai.staticStrides with
  | some ss => ss.length
  | none => ai.nd

/-- `Σ_{ii=j}^{j+n-1} idx[ic+ii] * stride ii` -/
def dotIdx (ld : Load) (base : Int) (ai : ArrInfo) (idx : List Int) (ic : Nat) : Nat → Nat → Int
 | _, 0 => 0
 | j, n + 1 => idx.getD (ic + j) 0 * strideAt ld base ai j + dotIdx ld base ai idx ic (j + 1) n

/-- documented obj-relative offset of item `idx[ic..]` of the array whose obj-relative offset is `cur`:
static item type: data start + Σ index·stride; dynamic item type: the entry of the item-offset table at
that position, which is relative to the array start -/
def itemOffset (ld : Load) (obj cur : Int) (arr : Ty) (idx : List Int) (ic : Nat) : Int :=
  match arr with
  | .array it shp ord =>
    let ai := arrInfo it shp ord
    let s : Int := (ai.dataOffset : Int) + dotIdx ld (obj + cur) ai idx ic 0 (nStrides ai)
    if ai.staticType then cur + s else cur + ld (obj + cur + s)
  | _ => cur

def Stmt.exec (ld : Load) (obj : Int) (idx : List Int) (off : Int) : Stmt → Int
 | .addConst k => off + (k : Int)
 | .addLoadAt k => off + ld (obj + off + (k : Int))
 | .deref => off + ld (obj + off)
 | .index arr ic => itemOffset ld obj off arr idx ic

def execAll (ld : Load) (obj : Int) (idx : List Int) : Int → List Stmt → Int
 | off, [] => off
 | off, s :: ss => execAll ld obj idx (s.exec ld obj idx off) ss

def partRank : Part → Nat
 | .index (.array _ sh _) => sh.length
 | _ => 0

/-- the documented layout's obj-relative address of the target of a path, starting from `cur`:
a struct field is at its class-level offset, except the 2nd.. dynamic fields whose offset (relative to the
struct) is stored in a slot of the struct; a reference slot holds the target's offset relative to the slot;
array items as `itemOffset`; index variables are consumed left to right -/
def docAddr (ld : Load) (obj : Int) (idx : List Int) : List Part → (cur : Int) → (ic : Nat) → Int
 | [], cur, _ => cur
 | .ty (.ref _) :: ps, cur, ic => docAddr ld obj idx ps (cur + ld (obj + cur)) ic
 | .ty (.scalar _) :: ps, cur, ic | .ty .string :: ps, cur, ic | .ty (.struct ..) :: ps, cur, ic
 | .ty (.array ..) :: ps, cur, ic | .ty (.unionref ..) :: ps, cur, ic => docAddr ld obj idx ps cur ic
 | .field _ o false :: ps, cur, ic => docAddr ld obj idx ps (cur + (o : Int)) ic
 | .field _ o true :: ps, cur, ic => docAddr ld obj idx ps (cur + ld (obj + cur + (o : Int))) ic
 | .index arr :: ps, cur, ic => docAddr ld obj idx ps (itemOffset ld obj cur arr idx ic) (ic + partRank (.index arr))

/-- what a generated accessor returns / touches -/
inductive Res where
 | addr (a : Int) (w : Nat)     -- obj-relative address of the element, width of the typed access (0: pointer only)
 | val (v : Int)                -- length / member index
 | none
deriving Repr, DecidableEq, Inhabited

def prodInt : List Int → Int
 | [] => 1
 | x :: xs => x * prodInt xs

/-- value of one factor of the length expression: a constant, or `arr[j]` = header word `j` of the array at `base` -/
def termVal (ld : Load) (base : Int) : Sum Nat Nat → Int
 | .inl dd => (dd : Int)
 | .inr j => ld (base + 8 * (j : Int))

def CFun.offset (f : CFun) (ld : Load) (obj : Int) (idx : List Int) : Int :=
  execAll ld obj idx 0 (genStmts f.path 0 0)

/-- semantics of the accessor bodies printed by `CFun.print` -/
def CFun.eval (f : CFun) (ld : Load) (obj : Int) (idx : List Int) : Res :=
  match lastTy f.path with
  | none => .none
  | some lt =>
    let off := f.offset ld obj idx
    match f.kind with
    | .get | .set => .addr off (lt.ssize.getD 0)
    | .getp => .addr off 0
    | .len =>
      match lt with
      | .array it shape order =>
        if (arrInfo it shape order).staticShape then
          .val (((shape.map (·.getD 0)).foldl (· * ·) 1 : Nat) : Int)
        else
          .val (prodInt ((lenTerms shape 1).map (termVal ld (obj + off))))
      | _ => .none
    | .typeid => .val (ld (obj + (off + 8)))
    | .member => .addr (off + ld (obj + off)) 0

/-- the documented dimensions of the array at address `base`: static ones from the class, the j-th dynamic
one from header word `1 + j` -/
def docDims (ld : Load) (base : Int) : List (Option Nat) → Nat → List Int
 | [], _ => []
 | some d :: r, k => (d : Int) :: docDims ld base r k
 | none :: r, k => ld (base + 8 * (k : Int)) :: docDims ld base r (k + 1)

end CGen

namespace CGen
/-! ### memory accesses of the generated code (C07) -/

/-- addresses (absolute) of the int64 stride loads of an index step at array address `base` -/
def strideLoads (base : Int) (ai : ArrInfo) : List Int :=
  match ai.staticStrides with
  | some _ => []
  | none => (List.range ai.nd).map fun ii => base + ((8 + ai.dynIdx.length * 8 + ii * 8 : Nat) : Int)

/-- int64 loads performed by the index step on the array at obj-relative offset `cur` -/
def itemLoads (ld : Load) (obj cur : Int) (arr : Ty) (idx : List Int) (ic : Nat) : List Int :=
  match arr with
  | .array it shp ord =>
    let ai := arrInfo it shp ord
    let s : Int := (ai.dataOffset : Int) + dotIdx ld (obj + cur) ai idx ic 0 (nStrides ai)
    strideLoads (obj + cur) ai ++ (if ai.staticType then [] else [obj + cur + s])
  | _ => []

/-- absolute addresses of the int64 loads a statement performs when run at offset `off` -/
def Stmt.loads (ld : Load) (obj : Int) (idx : List Int) (off : Int) : Stmt → List Int
 | .addConst _ => []
 | .addLoadAt k => [obj + off + (k : Int)]
 | .deref => [obj + off]
 | .index arr ic => itemLoads ld obj off arr idx ic

def loadsAll (ld : Load) (obj : Int) (idx : List Int) : Int → List Stmt → List Int
 | _, [] => []
 | off, s :: ss => s.loads ld obj idx off ++ loadsAll ld obj idx (s.exec ld obj idx off) ss

/-- the header words the documented layout says must be consulted to locate the target of a path -/
def docLoads (ld : Load) (obj : Int) (idx : List Int) : List Part → (cur : Int) → (ic : Nat) → List Int
 | [], _, _ => []
 | .ty (.ref _) :: ps, cur, ic => (obj + cur) :: docLoads ld obj idx ps (cur + ld (obj + cur)) ic
 | .ty (.scalar _) :: ps, cur, ic | .ty .string :: ps, cur, ic | .ty (.struct ..) :: ps, cur, ic
 | .ty (.array ..) :: ps, cur, ic | .ty (.unionref ..) :: ps, cur, ic => docLoads ld obj idx ps cur ic
 | .field _ o false :: ps, cur, ic => docLoads ld obj idx ps (cur + (o : Int)) ic
 | .field _ o true :: ps, cur, ic => (obj + cur + (o : Int)) :: docLoads ld obj idx ps (cur + ld (obj + cur + (o : Int))) ic
 | .index arr :: ps, cur, ic =>
    itemLoads ld obj cur arr idx ic ++ docLoads ld obj idx ps (itemOffset ld obj cur arr idx ic) (ic + partRank (.index arr))

/-- byte-addressed memory as a function (the store of a setter is a pointwise update) -/
abbrev BMem := Int → UInt8

def storeBytes (m : BMem) (a : Int) (bs : List UInt8) : BMem :=
  fun x => if a ≤ x ∧ x < a + bs.length then bs.getD (x - a).toNat 0 else m x

/-- `*(T*)((char*) obj+offset)=value;` of a generated setter: `value`'s `sizeof(T)` bytes stored at the computed address -/
def CFun.store (f : CFun) (ld : Load) (m : BMem) (obj : Int) (idx : List Int) (value : List UInt8) : BMem :=
  storeBytes m (obj + f.offset ld obj idx) value

/-- every memory access of an accessor call: the int64 header loads, then the typed access of `w` bytes at the end -/
def CFun.accesses (f : CFun) (ld : Load) (obj : Int) (idx : List Int) : List (Int × Nat) :=
  let hdr := (loadsAll ld obj idx 0 (genStmts f.path 0 0)).map fun a => (a, 8)
  let off := f.offset ld obj idx
  match lastTy f.path, f.kind with
  | some lt, .get | some lt, .set => hdr ++ [(obj + off, lt.ssize.getD 0)]
  | some _, .getp => hdr
  | some (.array it shape order), .len =>
    if (arrInfo it shape order).staticShape then [] else
      hdr ++ (lenTerms shape 1).filterMap fun | .inl _ => none | .inr k => some (obj + off + 8 * (k : Int), 8)
  | some _, .typeid => hdr ++ [(obj + (off + 8), 8)]
  | some _, .member => hdr ++ [(obj + off, 8)]
  | _, _ => hdr
end CGen
