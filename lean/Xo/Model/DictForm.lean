/-! Model of the dictionary form of hybrid objects (`HybridClass.to_dict` / `from_dict`) and of the JSON form of
reference-free structs and one-dimensional arrays (`_to_json` + constructor dispatch), at the level of VALUES:
numbers, nested objects (inline or referenced - the dictionary form does not distinguish them), null references. -/
namespace DictF

/-- a numeric field: a scalar (one number) or an array of numbers (static shape: the default is all zeros; dynamic shape: there is
NO default - `none` - and the field is always stored); nested hybrid; Ref (may be None) -/
inductive FK | num (default : Option (List Int)) | obj (cls : Nat) | optobj (cls : Nat)
deriving Repr, Inhabited

structure Cls where
  fields : List (String × String × FK)       -- xo name, python name, kind
deriving Repr, Inhabited

abbrev Universe := List Cls
def clsOf (u : Universe) (c : Nat) : Cls := u.getD c default

/-- value of a hybrid object: one entry per declared field, in declaration order -/
inductive V where
 | num (v : List Int)            -- a scalar is a list of one number
 | obj (fs : List V)
 | null
deriving Repr, Inhabited

/-- dictionary form: python-name keyed; absent keys are simply not in the list -/
inductive D where
 | num (v : List Int)
 | dict (fs : List (String × D))
 | none_
deriving Repr, Inhabited

mutual
/-- `Struct._to_dict` of a bare xobject (what `to_dict` stores for a non-null reference): every field under its XOBJECT name,
nothing omitted, `None` for a null reference -/
def toFull (u : Universe) : Nat → Nat → V → D
 | 0, _, _ => .dict []
 | fuel + 1, c, .obj vs => .dict (toFullF u fuel (clsOf u c).fields vs)
 | _, _, .num v => .num v
 | _, _, .null => .none_
def toFullF (u : Universe) : Nat → List (String × String × FK) → List V → List (String × D)
 | fuel, (xo, _, .num _) :: fs, .num v :: vs => (xo, .num v) :: toFullF u fuel fs vs
 | fuel, (xo, _, .obj c') :: fs, v :: vs => (xo, toFull u fuel c' v) :: toFullF u fuel fs vs
 | fuel, (xo, _, .optobj _) :: fs, .null :: vs => (xo, .none_) :: toFullF u fuel fs vs
 | fuel, (xo, _, .optobj c') :: fs, v :: vs => (xo, toFull u fuel c' v) :: toFullF u fuel fs vs
 | _, _, _ => []
end

mutual
/-- the XoStruct constructor given such a dictionary (xobject names) -/
def fromFull (u : Universe) : Nat → Nat → D → V
 | 0, _, _ => .null
 | fuel + 1, c, .dict kv => .obj (fromFullF u fuel (clsOf u c).fields kv)
 | _, _, .num v => .num v
 | _, _, .none_ => .null
def fromFullF (u : Universe) : Nat → List (String × String × FK) → List (String × D) → List V
 | _, [], _ => []
 | fuel, (xo, _, .num dflt) :: fs, kv =>
    (match kv.lookup xo with
     | some (.num v) => V.num v
     | _ => V.num (dflt.getD [])) :: fromFullF u fuel fs kv
 | fuel, (xo, _, .obj c') :: fs, kv =>
    (match kv.lookup xo with
     | some d => fromFull u fuel c' d
     | none => fromFull u fuel c' (.dict [])) :: fromFullF u fuel fs kv
 | fuel, (xo, _, .optobj c') :: fs, kv =>
    (match kv.lookup xo with
     | some .none_ => V.null
     | some d => fromFull u fuel c' d
     | none => V.null) :: fromFullF u fuel fs kv
end

mutual
/-- `to_dict`: a numeric field equal to its default is omitted (a field without default - an array of dynamic shape - never is), a
null reference is omitted, nested objects recurse -/
def toDict (u : Universe) : Nat → Nat → V → D
 | 0, _, _ => .dict []
 | fuel + 1, c, .obj vs => .dict (toFields u fuel (clsOf u c).fields vs)
 | _, _, .num v => .num v
 | _, _, .null => .none_
def toFields (u : Universe) : Nat → List (String × String × FK) → List V → List (String × D)
 | fuel, (_, py, .num dflt) :: fs, .num v :: vs =>
    if some v = dflt then toFields u fuel fs vs else (py, .num v) :: toFields u fuel fs vs
 | fuel, (_, py, .obj c') :: fs, v :: vs => (py, toDict u fuel c' v) :: toFields u fuel fs vs
 | fuel, (_, _, .optobj _) :: fs, .null :: vs => toFields u fuel fs vs
 | fuel, (_, py, .optobj c') :: fs, v :: vs => (py, toFull u fuel c' v) :: toFields u fuel fs vs
 | _, _, _ => []
end

mutual
/-- `from_dict` = constructor with keyword arguments: an absent numeric field gets its default, an absent reference is None -/
def fromDict (u : Universe) : Nat → Nat → D → V
 | 0, _, _ => .null
 | fuel + 1, c, .dict kv => .obj (fromFields u fuel (clsOf u c).fields kv)
 | _, _, .num v => .num v
 | _, _, .none_ => .null
def fromFields (u : Universe) : Nat → List (String × String × FK) → List (String × D) → List V
 | _, [], _ => []
 | fuel, (_, py, .num dflt) :: fs, kv =>
    (match kv.lookup py with
     | some (.num v) => V.num v
     | _ => V.num (dflt.getD [])) :: fromFields u fuel fs kv
 | fuel, (_, py, .obj c') :: fs, kv =>
    (match kv.lookup py with
     | some d => fromDict u fuel c' d
     | none => fromDict u fuel c' (.dict [])) :: fromFields u fuel fs kv
 | fuel, (_, py, .optobj c') :: fs, kv =>
    (match kv.lookup py with
     | some d => fromFull u fuel c' d
     | none => V.null) :: fromFields u fuel fs kv
end

mutual
/-- a value conforms to class `c`: one value per field, of the field's kind, nesting depth below the fuel -/
def Conf (u : Universe) : Nat → Nat → V → Prop
 | fuel + 1, c, .obj vs => ConfF u fuel (clsOf u c).fields vs
 | _, _, _ => False
def ConfF (u : Universe) : Nat → List (String × String × FK) → List V → Prop
 | _, [], [] => True
 | fuel, (_, _, .num _) :: fs, .num _ :: vs => ConfF u fuel fs vs
 | fuel, (_, _, .obj c') :: fs, v :: vs => Conf u fuel c' v ∧ ConfF u fuel fs vs
 | fuel, (_, _, .optobj _) :: fs, .null :: vs => ConfF u fuel fs vs
 | fuel, (_, _, .optobj c') :: fs, v :: vs => Conf u fuel c' v ∧ ConfF u fuel fs vs
 | _, _, _ => False
end

/-- python names of a class are pairwise distinct (guaranteed by the metaclass: renaming to an existing name is refused) -/
def DistinctPy : List (String × String × FK) → Prop
 | [] => True
 | (_, py, _) :: fs => (∀ f ∈ fs, f.2.1 ≠ py) ∧ DistinctPy fs

def DistinctXo : List (String × String × FK) → Prop
 | [] => True
 | (xo, _, _) :: fs => (∀ f ∈ fs, f.1 ≠ xo) ∧ DistinctXo fs

def WFU (u : Universe) : Prop := ∀ c : Nat, DistinctPy (clsOf u c).fields ∧ DistinctXo (clsOf u c).fields

/-! JSON form of reference-free structs / 1-D arrays: numbers, strings (as bytes), lists, dicts -/
inductive J where
 | num (v : Int) | str (bs : List UInt8) | list (xs : List J) | dict (fs : List (String × J))
deriving Repr, Inhabited

inductive JT where
 | num | str | arr (item : JT) | struct (fs : List (String × JT))
deriving Repr, Inhabited

inductive JV where
 | num (v : Int) | str (bs : List UInt8) | arr (items : List JV) | struct (fs : List JV)
deriving Repr, Inhabited

mutual
def toJson : JT → JV → J
 | .num, .num v => .num v
 | .str, .str bs => .str bs
 | .arr it, .arr items => .list (toJsonL it items)
 | .struct fs, .struct vs => .dict (toJsonF fs vs)
 | _, _ => .list []
def toJsonL : JT → List JV → List J
 | _, [] => []
 | it, v :: vs => toJson it v :: toJsonL it vs
def toJsonF : List (String × JT) → List JV → List (String × J)
 | (n, t) :: fs, v :: vs => (n, toJson t v) :: toJsonF fs vs
 | _, _ => []
end

mutual
/-- constructor dispatch on the JSON form: a dict is taken field by field (by name), a list item by item -/
def ofJson : JT → J → Option JV
 | .num, .num v => some (.num v)
 | .str, .str bs => some (.str bs)
 | .arr it, .list xs => (ofJsonL it xs).map .arr
 | .struct fs, .dict kv => (ofJsonF fs kv).map .struct
 | _, _ => none
def ofJsonL : JT → List J → Option (List JV)
 | _, [] => some []
 | it, x :: xs => match ofJson it x, ofJsonL it xs with
    | some v, some vs => some (v :: vs)
    | _, _ => none
def ofJsonF : List (String × JT) → List (String × J) → Option (List JV)
 | [], _ => some []
 | (n, t) :: fs, kv => match kv.lookup n with
    | some j => (match ofJson t j, ofJsonF fs kv with
      | some v, some vs => some (v :: vs)
      | _, _ => none)
    | none => none
end

mutual
def JConf : JT → JV → Prop
 | .num, .num _ => True
 | .str, .str _ => True
 | .arr it, .arr items => JConfL it items
 | .struct fs, .struct vs => JConfF fs vs
 | _, _ => False
def JConfL : JT → List JV → Prop
 | _, [] => True
 | it, v :: vs => JConf it v ∧ JConfL it vs
def JConfF : List (String × JT) → List JV → Prop
 | [], [] => True
 | (_, t) :: fs, v :: vs => JConf t v ∧ JConfF fs vs
 | _, _ => False
end

def DistinctN : List (String × JT) → Prop
 | [] => True
 | (n, _) :: fs => (∀ f ∈ fs, f.1 ≠ n) ∧ DistinctN fs

mutual
def JWF : JT → Prop
 | .arr it => JWF it
 | .struct fs => DistinctN fs ∧ JWFF fs
 | _ => True
def JWFF : List (String × JT) → Prop
 | [] => True
 | (_, t) :: fs => JWF t ∧ JWFF fs
end

end DictF
