import Xo.Model.Layout
/-! Proof model of reference slots (`ref.py`): a reference is the target's offset RELATIVE TO ITS OWN SLOT as a two's-complement
int64, `-2^63` is null; a union reference adds the member index in the next word (`-1` for null).  Plus the byte copy used by
copy-construction of reference-free objects (`update_from_xbuffer`). -/
namespace Lay
open MemS

def NULLV : Int := -(2 ^ 63 : Int)

/-- two's-complement little-endian int64 -/
def i64le (i : Int) : List UInt8 := le 8 ((i % (2 ^ 64 : Int)).toNat)
def i64of (bs : List UInt8) : Int := let u := fromLE bs; if u ≥ 2 ^ 63 then (u : Int) - 2 ^ 64 else (u : Int)

/-- `Ref._to_buffer(buffer, slot, value)` for `None` and for an object living at `target` in the same buffer -/
def refNullBytes : List UInt8 := i64le NULLV
def urefNullBytes : List UInt8 := i64le NULLV ++ i64le (-1)
def refBytes (slot target : Nat) : List UInt8 := i64le ((target : Int) - (slot : Int))
def urefBytes (slot target : Nat) (member : Nat) : List UInt8 := refBytes slot target ++ i64le (member : Int)

/-- `Ref._from_buffer`: the absolute offset of the referent, `none` for null -/
def deref (m : Mem) (slot : Nat) : Option Nat :=
  let r := i64of (readAt m slot 8)
  if r = NULLV then none else some ((slot : Int) + r).toNat

/-- member index of a union reference -/
def memberIdx (m : Mem) (slot : Nat) : Int := i64of (readAt m (slot + 8) 8)

/-- binary copy of `n` bytes from `(src, so)` to `(dst, d)` (update_from_xbuffer) -/
def copyBytes (src : Mem) (so n : Nat) (dst : Mem) (d : Nat) : Mem := writeAt dst d (readAt src so n)

/-- buffer growth: the old contents are copied into fresh, larger, zeroed storage -/
def growMem (m : Mem) (extra : Nat) : Mem := m ++ zeros extra

end Lay
