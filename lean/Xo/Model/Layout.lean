import Xo.Model.Patch
/-! Proof model of the binary layout for the reference-free grammar: scalars (by width), strings (text or capacity),
structs (static and dynamic fields), N-dimensional arrays (static/dynamic shape, static/dynamic items, any axis order).

`patchesD t v` is the ORDERED list of slice assignments `_to_buffer` performs for value `v` of type `t`, relative to the
object start; `readD t m off` is the value a VIEW (`_from_buffer`: every cached quantity is re-read from the bytes)
reads at `off`.  Array items are kept in MEMORY order (the order of `iter_index(shape, order)`); the index ↔ memory
position arithmetic is separate (`Xo/Model/Index.lean`).  All definitions are total, structural, and executed by the
driver (`lay` component) against the real library on every run. -/
namespace Lay
open MemS

inductive Ty where
 | scalar (w : Nat)                                        -- width in bytes
 | string
 | struct (fs : List Ty)
 | array (item : Ty) (shape : List (Option Nat)) (order : List Nat)   -- none = dynamic dimension
deriving Repr, Inhabited

inductive Val where
 | bits (b : Nat)
 | str (bs : List UInt8)
 | cap (n : Nat)                                           -- String(capacity)
 | struct (vs : List Val)
 | arr (shape : List Nat) (items : List Val)               -- items in memory order
deriving Repr, Inhabited

def prod : List Nat → Nat
 | [] => 1
 | d :: ds => d * prod ds

def allStatic : List (Option Nat) → Option (List Nat)
 | [] => some []
 | some d :: r => (allStatic r).map (d :: ·)
 | none :: _ => none

def countDyn : List (Option Nat) → Nat
 | [] => 0
 | some _ :: r => countDyn r
 | none :: r => 1 + countDyn r

mutual
/-- class-level `_size`; none if dynamic -/
def Ty.ssize : Ty → Option Nat
 | .scalar w => some w
 | .string => none
 | .struct fs => ssizeFields fs
 | .array it shape _ =>
    match it.ssize, allStatic shape with
    | some s, some dims => some (slot (s * prod dims))
    | _, _ => none
def ssizeFields : List Ty → Option Nat
 | [] => some 0
 | t :: ts => match t.ssize, ssizeFields ts with
    | some a, some b => some (slot a + b)
    | _, _ => none
end

/-- class-level facts of an array class (`MetaArray.__new__`) -/
structure AInfo where
  nd : Nat
  ndyn : Nat
  staticShape : Bool
  staticType : Bool
  unit : Nat                  -- item size, or 8 (an offset slot) for dynamically sized items
  dataOff : Nat               -- bytes of header: [size] [dynamic dims] [strides if N-D and dynamic shape]
deriving Repr

def ainfo (it : Ty) (shape : List (Option Nat)) : AInfo :=
  let nd := shape.length
  let ndyn := countDyn shape
  let staticShape := ndyn == 0
  let staticType := it.ssize.isSome
  let d1 := if ndyn > 0 then ndyn * 8 + (if nd > 1 then nd * 8 else 0) else 0
  let d2 := if staticShape && staticType then 0 else 8
  { nd, ndyn, staticShape, staticType, unit := it.ssize.getD 8, dataOff := d1 + d2 }

/-- C-order strides of a shape for an item of `unit` bytes -/
def cStrides : List Nat → Nat → List Nat
 | [], _ => []
 | _ :: ds, unit => (unit * prod ds) :: cStrides ds unit

/-- `get_strides(shape, order, itemsize)`: `order` lists the axes from slowest to fastest varying -/
def getStrides (shape order : List Nat) (unit : Nat) : List Nat :=
  let cshape := order.map fun ax => shape.getD ax 0
  let cs := cStrides cshape unit
  (List.range order.length).map fun ax => cs.getD (order.idxOf ax) 0

/-- the dynamic dimensions of a concrete shape, in axis order -/
def dynDims : List (Option Nat) → List Nat → List Nat
 | some _ :: r, _ :: ds => dynDims r ds
 | none :: r, d :: ds => d :: dynDims r ds
 | _, _ => []

/-! generic placement of array items -/

/-- items of fixed size placed consecutively from `pos` -/
def placeS (f : Val → List Patch) (isz : Nat) : List Val → Nat → List Patch
 | [], _ => []
 | v :: vs, pos => shift pos (f v) ++ placeS f isz vs (pos + isz)

/-- offsets (relative to the array) of dynamically sized items: each starts where the previous one ended, slot-rounded -/
def offsetsD (sz : Val → Nat) : List Val → Nat → List Nat
 | [], _ => []
 | v :: vs, pos => pos :: offsetsD sz vs (pos + slot (sz v))

def placeD (f : Val → List Patch) (sz : Val → Nat) : List Val → Nat → List Patch
 | [], _ => []
 | v :: vs, pos => shift pos (f v) ++ placeD f sz vs (pos + slot (sz v))

def sizesD (sz : Val → Nat) : List Val → Nat
 | [] => 0
 | v :: vs => slot (sz v) + sizesD sz vs

/-- `n` items of size `isz` read consecutively from address `a` -/
def readS (g : Mem → Nat → Val) (isz : Nat) (m : Mem) : Nat → Nat → List Val
 | 0, _ => []
 | n + 1, a => g m a :: readS g isz m n (a + isz)

/-- `n` items located by the offset table at address `ta` (entries relative to `base`) -/
def readT (g : Mem → Nat → Val) (m : Mem) (base : Nat) : Nat → Nat → List Val
 | 0, _ => []
 | n + 1, ta => g m (base + fromLE (readAt m ta 8)) :: readT g m base n (ta + 8)

def words (ws : List Nat) : List UInt8 := ws.flatMap (le 8)

mutual
/-- instance size (`info.size`) -/
def vsize : Ty → Val → Nat
 | .scalar w, _ => w
 | .string, .str bs => slot (bs.length + 1 + 8)
 | .string, .cap n => n + 8
 | .string, _ => 0
 | .struct fs, .struct vs =>
    match ssizeFields fs with
    | some s => s
    | none => dynStart fs + dynSizes fs vs
 | .struct _, _ => 0
 | .array it shape _, .arr _ items =>
    let ai := ainfo it shape
    if ai.staticType then slot (ai.dataOff + ai.unit * items.length)
    else slot (ai.dataOff + 8 * items.length + sizesD (vsize it) items)
 | .array _ _ _, _ => 0
/-- where dynamic data starts in a dynamic struct: 8 + static fields + (ndyn-1) offset slots -/
def dynStart (fs : List Ty) : Nat :=
  8 + staticBytes fs + 8 * (ndynF fs - 1)
def staticBytes : List Ty → Nat
 | [] => 0
 | t :: ts => (match t.ssize with | some s => slot s | none => 0) + staticBytes ts
def ndynF : List Ty → Nat
 | [] => 0
 | t :: ts => (match t.ssize with | some _ => 0 | none => 1) + ndynF ts
def dynSizes : List Ty → List Val → Nat
 | t :: ts, v :: vs => (match t.ssize with | some _ => 0 | none => slot (vsize t v)) + dynSizes ts vs
 | _, _ => 0
end

mutual
def patchesD : Ty → Val → List Patch
 | .scalar w, .bits b => [(0, le w b)]
 | .string, .str bs =>
    let size := slot (bs.length + 1 + 8)
    [(0, le 8 size), (8, bs ++ zeros (size - 8 - bs.length))]
 | .string, .cap n => [(0, le 8 (n + 8)), (8, zeros n)]
 | .struct fs, .struct vs =>
    match ssizeFields fs with
    | some _ => sPatches fs vs 0
    | none => (0, le 8 (vsize (.struct fs) (.struct vs))) :: dPatches fs vs 8 0 (dynStart fs) (8 + staticBytes fs)
 | .array it shape order, .arr sh items =>
    let ai := ainfo it shape
    if ai.staticShape && ai.staticType then placeS (patchesD it) ai.unit items 0
    else
      let size := vsize (.array it shape order) (.arr sh items)
      let hdr := size :: (dynDims shape sh ++ (if !ai.staticShape && ai.nd > 1 then getStrides sh order ai.unit else []))
      (0, words hdr) ::
        (if ai.staticType then placeS (patchesD it) ai.unit items ai.dataOff
         else
           let start := ai.dataOff + 8 * items.length
           (ai.dataOff, words (offsetsD (vsize it) items start)) :: placeD (patchesD it) (vsize it) items start)
 | _, _ => []
def sPatches : List Ty → List Val → Nat → List Patch
 | t :: ts, v :: vs, o => shift o (patchesD t v) ++ sPatches ts vs (o + slot ((t.ssize).getD 0))
 | _, _, _ => []
/-- so: next static offset; k: index among dynamic fields; dof: next dynamic data offset; sb: base of offset slots -/
def dPatches : List Ty → List Val → Nat → Nat → Nat → Nat → List Patch
 | t :: ts, v :: vs, so, k, dof, sb =>
    match t.ssize with
    | some s => shift so (patchesD t v) ++ dPatches ts vs (so + slot s) k dof sb
    | none => (if k = 0 then [] else [(sb + 8 * (k - 1), le 8 dof)]) ++
              (shift dof (patchesD t v) ++ dPatches ts vs so (k + 1) (dof + slot (vsize t v)) sb)
 | _, _, _, _, _, _ => []
end

/-- dimensions as a view finds them: static ones from the class, dynamic ones from the header words at `a`, `a+8`, … -/
def readDims (m : Mem) : List (Option Nat) → Nat → List Nat
 | [], _ => []
 | some d :: r, a => d :: readDims m r a
 | none :: r, a => fromLE (readAt m a 8) :: readDims m r (a + 8)

mutual
def readD : Ty → Mem → Nat → Val
 | .scalar w, m, off => .bits (fromLE (readAt m off w))
 | .string, m, off =>
    let size := fromLE (readAt m off 8)
    .str (stripNul (readAt m (off + 8) (size - 8)))
 | .struct fs, m, off =>
    match ssizeFields fs with
    | some _ => .struct (readFS fs m off)
    | none => .struct (readDyn fs m off 8 0 (dynStart fs) (8 + staticBytes fs))
 | .array it shape _, m, off =>
    let ai := ainfo it shape
    if ai.staticShape && ai.staticType then
      let dims := readDims m shape 0
      .arr dims (readS (readD it) ai.unit m (prod dims) off)
    else
      let dims := readDims m shape (off + 8)
      if ai.staticType then .arr dims (readS (readD it) ai.unit m (prod dims) (off + ai.dataOff))
      else .arr dims (readT (readD it) m off (prod dims) (off + ai.dataOff))
def readFS : List Ty → Mem → Nat → List Val
 | [], _, _ => []
 | t :: ts, m, o => readD t m o :: readFS ts m (o + slot ((t.ssize).getD 0))
/-- the view reads the offsets of the 2nd.. dynamic fields from their slots; the first is at the class-level offset -/
def readDyn : List Ty → Mem → Nat → Nat → Nat → Nat → Nat → List Val
 | [], _, _, _, _, _, _ => []
 | t :: ts, m, base, so, k, d0, sb =>
    match t.ssize with
    | some s => readD t m (base + so) :: readDyn ts m base (so + slot s) k d0 sb
    | none =>
      let off := if k = 0 then d0 else fromLE (readAt m (base + sb + 8 * (k - 1)) 8)
      readD t m (base + off) :: readDyn ts m base so (k + 1) d0 sb
end

/-- strides a view caches for an array at `off` (header words for N-D dynamic shapes, class constants otherwise) -/
def viewStrides (it : Ty) (shape : List (Option Nat)) (order : List Nat) (m : Mem) (off : Nat) : List Nat :=
  let ai := ainfo it shape
  if ai.staticShape then getStrides (readDims m shape 0) order ai.unit
  else if ai.nd > 1 then (List.range ai.nd).map fun i => fromLE (readAt m (off + 8 + 8 * ai.ndyn + 8 * i) 8)
  else [ai.unit]

/-- the value read back for a written value: a capacity reads back as the empty string -/
def Val.norm : Val → Val
 | .cap _ => .str []
 | .struct vs => .struct (normL vs)
 | .arr sh items => .arr sh (normL items)
 | v => v
where normL : List Val → List Val
 | [] => []
 | v :: vs => v.norm :: normL vs

def shapeMatches : List (Option Nat) → List Nat → Prop
 | [], [] => True
 | some d :: r, d' :: ds => d = d' ∧ shapeMatches r ds
 | none :: r, _ :: ds => shapeMatches r ds
 | _, _ => False

/-! conformance of a value to a type: what the constructor accepts (word-size bounds are separate hypotheses) -/
mutual
def Conf : Ty → Val → Prop
 | .scalar w, .bits b => b < 256 ^ w
 | .string, .str bs => (bs.getLast? ≠ some 0) ∧ bs.length + 17 < 2^64
 | .string, .cap n => n + 8 < 2^64
 | .struct fs, .struct vs => ConfFields fs vs
 | .array it shape _, .arr sh items => shapeMatches shape sh ∧ items.length = prod sh ∧ ConfItems it items ∧ (∀ d ∈ sh, d < 2^64)
 | _, _ => False
def ConfFields : List Ty → List Val → Prop
 | [], [] => True
 | t :: ts, v :: vs => Conf t v ∧ ConfFields ts vs
 | _, _ => False
def ConfItems : Ty → List Val → Prop
 | _, [] => True
 | t, v :: vs => Conf t v ∧ ConfItems t vs
end

end Lay
