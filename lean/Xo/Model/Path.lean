import Xo.Model.Layout
/-! Parts of a compound object and paths to scalar leaves, as the Python view locates them: the `k`-th field of a struct
(declaration order) / the `k`-th item of an array (memory order), recursively.  `leafAt` gives the offset (relative to the
object) and width of the scalar slot a path ends in; `updAt` the value with that leaf replaced. -/
namespace Lay

/-- `(offset, type, value)` of field `k` of a statically sized struct whose fields start at `o` -/
def sPart : List Ty → List Val → Nat → Nat → Option (Nat × Ty × Val)
 | t :: _, v :: _, 0, o => some (o, t, v)
 | t :: ts, _ :: vs, k + 1, o => sPart ts vs k (o + slot ((t.ssize).getD 0))
 | _, _, _, _ => none

/-- field `k` of a dynamically sized struct: static fields from `so`, dynamic data from `dof` (as `dPatches` places them) -/
def dPart : List Ty → List Val → Nat → Nat → Nat → Option (Nat × Ty × Val)
 | t :: ts, v :: vs, k, so, dof =>
    match t.ssize with
    | some s => if k = 0 then some (so, t, v) else dPart ts vs (k - 1) (so + slot s) dof
    | none => if k = 0 then some (dof, t, v) else dPart ts vs (k - 1) so (dof + slot (vsize t v))
 | _, _, _, _, _ => none

/-- item `k` (memory order) of fixed-size items placed from `pos` -/
def itemS (isz : Nat) : List Val → Nat → Nat → Option (Nat × Val)
 | v :: _, 0, pos => some (pos, v)
 | _ :: vs, k + 1, pos => itemS isz vs k (pos + isz)
 | [], _, _ => none

/-- item `k` of dynamically sized items placed from `pos` -/
def itemD (sz : Val → Nat) : List Val → Nat → Nat → Option (Nat × Val)
 | v :: _, 0, pos => some (pos, v)
 | v :: vs, k + 1, pos => itemD sz vs k (pos + slot (sz v))
 | [], _, _ => none

def part : Ty → Val → Nat → Option (Nat × Ty × Val)
 | .struct fs, .struct vs, k =>
    match ssizeFields fs with
    | some _ => sPart fs vs k 0
    | none => dPart fs vs k 8 (dynStart fs)
 | .array it shape _, .arr _ items, k =>
    let ai := ainfo it shape
    if ai.staticShape && ai.staticType then (itemS ai.unit items k 0).map fun (o, v) => (o, it, v)
    else if ai.staticType then (itemS ai.unit items k ai.dataOff).map fun (o, v) => (o, it, v)
    else (itemD (vsize it) items k (ai.dataOff + 8 * items.length)).map fun (o, v) => (o, it, v)
 | _, _, _ => none

/-- offset (relative to the object) and width of the scalar leaf at the end of a path of part indices -/
def leafAt : Ty → Val → List Nat → Option (Nat × Nat)
 | .scalar w, .bits _, [] => some (0, w)
 | _, _, [] => none
 | t, v, k :: p =>
    match part t v k with
    | some (o, t', v') => (leafAt t' v' p).map fun (lo, w) => (o + lo, w)
    | none => none

/-- the bits of the scalar leaf at the end of a path -/
def getAt : Ty → Val → List Nat → Option Nat
 | .scalar _, .bits b, [] => some b
 | _, _, [] => none
 | t, v, k :: p =>
    match part t v k with
    | some (_, t', v') => getAt t' v' p
    | none => none

def setNth : List Val → Nat → Val → List Val
 | [], _, _ => []
 | _ :: vs, 0, x => x :: vs
 | v :: vs, k + 1, x => v :: setNth vs k x

/-- the value with its `k`-th part replaced -/
def setPartV : Val → Nat → Val → Val
 | .struct vs, k, x => .struct (setNth vs k x)
 | .arr sh items, k, x => .arr sh (setNth items k x)
 | v, _, _ => v

/-- the value with the scalar leaf at the end of the path set to `b` -/
def updAt : Ty → Val → List Nat → Nat → Option Val
 | .scalar _, .bits _, [], b => some (.bits b)
 | _, _, [], _ => none
 | t, v, k :: p, b =>
    match part t v k with
    | some (_, t', v') => (updAt t' v' p b).map fun nv => setPartV v k nv
    | none => none

/-- offset (relative to the object), type and value of the PART at the end of a path of part indices (the empty path: the object) -/
def partAt : Ty → Val → List Nat → Option (Nat × Ty × Val)
 | t, v, [] => some (0, t, v)
 | t, v, k :: p =>
    match part t v k with
    | some (o, t', v') => (partAt t' v' p).map fun (lo, t'', v'') => (o + lo, t'', v'')
    | none => none

/-- the value with the part at the end of the path replaced by `x` -/
def setAt : Ty → Val → List Nat → Val → Option Val
 | _, _, [], x => some x
 | t, v, k :: p, x =>
    match part t v k with
    | some (_, t', v') => (setAt t' v' p x).map fun nv => setPartV v k nv
    | none => none

end Lay
