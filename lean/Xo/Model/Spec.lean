/-! Model of `xobjects/specialize_source.py` on `List Char` (all functions total, structural recursion):
the include pass, the annotation pass and the four placeholder replacements, plus the launch semantics of a
vectorised block per target (`execIndices`) with the launch geometry the contexts use. -/
namespace Spec

abbrev Str := List Char

def S (s : String) : Str := s.toList

def isPrefix : Str → Str → Bool
 | [], _ => true
 | _ :: _, [] => false
 | a :: as, b :: bs => a == b && isPrefix as bs

/-- python `pat in s` -/
def contains (s pat : Str) : Bool :=
  match s with
  | [] => pat.isEmpty
  | _ :: r => isPrefix pat s || contains r pat

/-- python `s.split(pat)` for non-empty `pat`; `skip` counts the characters of a matched separator still to drop -/
def splitAux (pat : Str) : Str → Nat → Str → List Str
 | [], _, cur => [cur.reverse]
 | _ :: r, skip + 1, cur => splitAux pat r skip cur
 | c :: r, 0, cur =>
    if isPrefix pat (c :: r) then cur.reverse :: splitAux pat r (pat.length - 1) []
    else splitAux pat r 0 (c :: cur)
def splitOn (s pat : Str) : List Str := splitAux pat s 0 []

/-- python `s.replace(pat, rep)` for non-empty `pat` -/
def replaceAux (pat rep : Str) : Str → Nat → Str
 | [], _ => []
 | _ :: r, skip + 1 => replaceAux pat rep r skip
 | c :: r, 0 =>
    if isPrefix pat (c :: r) then rep ++ replaceAux pat rep r (pat.length - 1)
    else c :: replaceAux pat rep r 0
def replaceAll (s pat rep : Str) : Str := replaceAux pat rep s 0

def isWs (c : Char) : Bool := c == ' ' || c == '\t' || c == '\n' || c == '\r' || c == '\x0b' || c == '\x0c'

/-- python `s.split()` -/
def wordsAux : Str → Str → List Str
 | [], cur => if cur.isEmpty then [] else [cur.reverse]
 | c :: r, cur =>
    if isWs c then (if cur.isEmpty then wordsAux r [] else cur.reverse :: wordsAux r [])
    else wordsAux r (c :: cur)
def words (s : Str) : List Str := wordsAux s []

def lstrip : Str → Str
 | [] => []
 | c :: r => if isWs c then lstrip r else c :: r
def rstrip (s : Str) : Str := (lstrip s.reverse).reverse
def strip (s : Str) : Str := rstrip (lstrip s)

inductive Target | cpu_serial | cpu_openmp | opencl | cuda
deriving DecidableEq, Repr, Inhabited
def Target.name : Target → Str
 | .cpu_serial => S "cpu_serial" | .cpu_openmp => S "cpu_openmp" | .opencl => S "opencl" | .cuda => S "cuda"
def Target.isCpu : Target → Bool | .cpu_serial | .cpu_openmp => true | _ => false

def lastD (l : List Str) : Str := l.getLast?.getD []

inductive Err | assertion | io | value
deriving DecidableEq, Repr

/-- first pass: `//include_file <name> for_context <targets>` lines are replaced by the file's lines (right-stripped,
between two marker entries) when the target is listed, and dropped otherwise; `files` is the file system -/
def pass1 (t : Target) (files : Str → Option (List Str)) : List Str → Except Err (List Str)
 | [] => .ok []
 | ll :: rest =>
   if contains ll (S "//include_file") then
     if !contains ll (S " for_context ") then .error .assertion else
     let fname := strip ((splitOn (lastD (splitOn ll (S "//include_file"))) (S "for_context")).headD [])
     let ctxs := words (lastD (splitOn ll (S "for_context")))
     if ctxs.contains t.name then
       match files fname with
       | none => .error .io
       | some flines =>
         match pass1 t files rest with
         | .ok more =>
           .ok ([S "\n//from file: " ++ fname ++ S "\n"] ++ flines.map rstrip ++ [S "\n//end file: " ++ fname ++ S "\n"] ++ more)
         | .error e => .error e
     else pass1 t files rest
   else
     match pass1 t files rest with
     | .ok more => .ok (ll :: more)
     | .error e => .error e

def prologue (t : Target) (v lim : Str) : List Str :=
  if t.isCpu then [S "for (int " ++ v ++ S "=0; " ++ v ++ S "<" ++ lim ++ S "; " ++ v ++ S "++){ //autovectorized\n"]
  else if t == .opencl then [S "int " ++ v ++ S "; //autovectorized\n", v ++ S "=get_global_id(0); //autovectorized\n"]
  else [S "int " ++ v ++ S "; //autovectorized\n",
        v ++ S "=blockDim.x * blockIdx.x + threadIdx.x;//autovectorized\nif (" ++ v ++ S "<" ++ lim ++ S "){"]

def epilogue (t : Target) : Str :=
  if t == .opencl then S "//end autovectorized\n" else S "}//end autovectorized\n"

/-- what the annotation pass does to a line that opens or closes no block -/
def plainLine (t : Target) (ll : Str) : Str :=
  if contains ll (S "//only_for_context") then
    let ctxs := words (lastD (splitOn ll (S "//only_for_context")))
    if ctxs.contains t.name then ll else S "//" ++ ll
  else ll

/-- second pass over lines, in order; `inside` = a block is open -/
def pass2 (t : Target) : List Str → Bool → Except Err (List Str)
 | [], _ => .ok []
 | ll :: rest, inside =>
   if contains ll (S "//vectorize_over") then
     if inside then .error .value else
     match words (lastD (splitOn ll (S "//vectorize_over"))) with
     | [v, lim] =>
       match pass2 t rest true with
       | .ok more => .ok (prologue t v lim ++ more)
       | .error e => .error e
     | _ => .error .value
   else if contains ll (S "//end_vectorize") then
     match pass2 t rest false with
     | .ok more => .ok (epilogue t :: more)
     | .error e => .error e
   else
     match pass2 t rest inside with
     | .ok more => .ok (plainLine t ll :: more)
     | .error e => .error e

def joinLines : List Str → Str
 | [] => []
 | [l] => l
 | l :: r => l ++ '\n' :: joinLines r

/-- python `splitlines()` for LF-only text: a trailing newline does not open a new (empty) line -/
def splitLines (src : Str) : List Str :=
  let ls := splitOn src (S "\n")
  if src.isEmpty then [] else if ls.getLast? == some [] then ls.dropLast else ls

def kernRep (t : Target) : Str := match t with | .opencl => S " __kernel " | .cuda => S "__global__" | _ => S " "
def funRep (t : Target) : Str := match t with | .opencl => S " " | .cuda => S " __device__ " | _ => S " static inline"
def memRep (t : Target) : Str := match t with | .opencl => S " __global " | _ => S " "
def restrictRep (t : Target) : Str := if t.isCpu then S " restrict " else S ""

/-- the four `str.replace` calls, in the code's order -/
def substitute (t : Target) (s : Str) : Str :=
  replaceAll (replaceAll (replaceAll (replaceAll s (S "/*gpukern*/") (kernRep t)) (S "/*gpufun*/") (funRep t))
    (S "/*gpuglmem*/") (memRep t)) (S "/*restrict*/") (restrictRep t)

def specialize (t : Target) (files : Str → Option (List Str)) (src : Str) : Except Err Str :=
  match pass1 t files (splitLines src) with
  | .error e => .error e
  | .ok lines =>
    match pass2 t lines false with
    | .error e => .error e
    | .ok out => .ok (substitute t (joinLines out))

/-! ### launch semantics of one vectorised block -/

/-- launch geometry used by the contexts: CUDA `grid = ceil(n / block)` blocks of `block` threads; OpenCL global size `n` -/
structure Geometry where
  grid : Nat
  block : Nat
  global : Nat

def geometry (n block : Nat) : Geometry := { grid := (n + block - 1) / block, block := block, global := n }

/-- the values the loop variable takes with the body executed, per kernel call, in execution order per target:
CPU: the `for (int v=0; v<n; v++)` loop; OpenCL: one work-item per global id; CUDA: `grid*block` threads, the body
guarded by `v<n` -/
def execIndices (t : Target) (g : Geometry) (n : Nat) : List Nat :=
  match t with
  | .cpu_serial | .cpu_openmp => List.range n
  | .opencl => List.range g.global
  | .cuda => (List.range (g.grid * g.block)).filter (· < n)

end Spec
