import Xo.Model.Mem
/-! Model of the CPU buffer primitives of `context_cpu.py` (BufferNumpy / BufferByteArray) and of
`XBuffer.update_from_xbuffer`: each primitive as a function on the byte lists of the buffers involved.
Python evaluates the right-hand side slice before assigning, so a source in the same buffer is read first. -/
namespace BufPrim
open MemS

inductive Kind | numpy | bytearray
deriving DecidableEq, Repr, Inhabited

inductive Err | value | type_
deriving DecidableEq, Repr

/-- `buf[off:off+len(src)] = src` inside capacity.  Outside it the two kinds differ (NumPy raises a broadcast
ValueError; a bytearray silently changes its length): the model refuses, the property does not range over it -/
def assign (m : Mem) (off : Nat) (src : List UInt8) : Except Err Mem :=
  if off + src.length ≤ m.length then .ok (writeAt m off src) else .error .value

/-- `source[so:so+n]`: Python slicing truncates silently; a truncated source then mismatches the `n`-byte destination -/
def slice (m : Mem) (so n : Nat) : List UInt8 := readAt m so n

def updateFromNative (m : Mem) (off : Nat) (source : Mem) (so n : Nat) : Except Err Mem :=
  if so + n ≤ source.length ∧ off + n ≤ m.length then assign m off (slice source so n) else .error .value

def toNative (m : Mem) (off n : Nat) : List UInt8 := slice m off n

/-- returns the new `dest` -/
def copyToNative (m : Mem) (dest : Mem) (doff soff n : Nat) : Except Err Mem :=
  if soff + n ≤ m.length ∧ doff + n ≤ dest.length then assign dest doff (slice m soff n) else .error .value

def updateFromBuffer (m : Mem) (off : Nat) (src : List UInt8) : Except Err Mem := assign m off src

def toBytearray (m : Mem) (off n : Nat) : List UInt8 := slice m off n

/-- `update_from_xbuffer`: same context: `update_from_native(offset, source.buffer, …)`; otherwise through a bytearray copy -/
def updateFromXbuffer (sameCtx : Bool) (m : Mem) (off : Nat) (source : Mem) (so n : Nat) : Except Err Mem :=
  if sameCtx then updateFromNative m off source so n
  else if so + n ≤ source.length then updateFromBuffer m off (toBytearray source so n) else .error .value

/-- source and destination are the same buffer: the right-hand side slice is taken from the old contents -/
def updateFromSelf (m : Mem) (off so n : Nat) : Except Err Mem := updateFromNative m off m so n

/-! typed views (`to_nplike`): element `i` of a view of `count` elements of width `w` at `off` IS the bytes
`[off + i*w, off + (i+1)*w)` of the buffer -/
structure View where
  off : Nat
  w : Nat
  count : Nat
deriving Repr

def toNplike (m : Mem) (off w count : Nat) : Except Err View :=
  if off + w * count ≤ m.length then .ok { off, w, count } else .error .value

def View.get (v : View) (m : Mem) (i : Nat) : List UInt8 := readAt m (v.off + i * v.w) v.w
def View.set (v : View) (m : Mem) (i : Nat) (bs : List UInt8) : Mem := writeAt m (v.off + i * v.w) bs

/-! `update_from_nplike`: the source array is given by its elements in LOGICAL (row-major index) order as unsigned bit
patterns of `sw` bytes; stored are the elements converted to the destination type, `dw` bytes each, in that order -/

/-- integer → integer `astype`: two's-complement truncation or sign/zero extension -/
def convInt (sw : Nat) (signed : Bool) (dw : Nat) (bits : Nat) : Nat :=
  let v : Int := if signed ∧ bits ≥ 2 ^ (8 * sw - 1) then (bits : Int) - 2 ^ (8 * sw) else bits
  (v % (2 ^ (8 * dw) : Int)).toNat

def encodeElems (dw : Nat) (elems : List Nat) : List UInt8 := elems.flatMap (le dw)

def updateFromNplike (m : Mem) (off : Nat) (dw : Nat) (conv : Nat → Nat) (elems : List Nat) : Except Err Mem :=
  assign m off (encodeElems dw (elems.map conv))

end BufPrim
