import Xo.Model.RefGraph
/-! Copy construction of a node into ANOTHER buffer (`Cls(h, _buffer=other)`; `struct.py` `_to_buffer` field by field,
`ref.py` `Ref._to_buffer` / `UnionRef._to_buffer`: `if xobj._buffer != buffer: xobj = typ(xobj, _buffer=buffer)`).

A reference cannot point into another buffer, so every referent of the source is copy-constructed in the destination too -
recursively, depth first in field order, WITHOUT a memo: a referent reached twice is duplicated twice (a DAG becomes a tree), and a
cycle never ends (the library dies with `RecursionError`; here: the fuel runs out and the result is `none`).

The source state `src` is only read.  The destination is threaded: the node itself is allocated first (so it gets the lowest
address), then the referents, then the node's bytes are written in one go (the library writes them field by field while it goes;
no copy of a referent touches the node's own extent, so the buffer after the whole operation is the same - that is what the tie
compares). -/
namespace RG
open MemS Lay

/-- the referent of ONE field, copied: the destination afterwards and the address of the copy (`none` for a scalar and for a null
reference) -/
def xchild (rec : St → Nat → Nat → Option (St × Nat)) (src : St) (fk : FK) (sa : Nat) (d : St) : Option (St × Option Nat) :=
  match fk with
  | .scal => some (d, none)
  | .ref c' =>
    match deref src.b.mem sa with
    | none => some (d, none)
    | some t =>
      match rec d t c' with
      | none => none
      | some (d1, t') => some (d1, some t')
  | .uref cs =>
    match deref src.b.mem sa, refClass src (.uref cs) sa with
    | some t, some c' =>
      match rec d t c' with
      | none => none
      | some (d1, t') => some (d1, some t')
    | _, _ => some (d, none)

/-- the referents of the fields of one node, copied in field order: the destination after all of them, and per field the address
of the copy -/
def xchildren (rec : St → Nat → Nat → Option (St × Nat)) (src : St) : Cls → Nat → St → Option (St × List (Option Nat))
 | [], _, d => some (d, [])
 | fk :: r, sa, d =>
    match xchild rec src fk sa d with
    | none => none
    | some (d1, x) =>
      match xchildren rec src r (sa + fk.size) d1 with
      | none => none
      | some (d', l) => some (d', x :: l)

/-- the bytes of one field of the copy: a scalar as in the source, a reference encoded relative to ITS slot and pointing to the
copy of the referent (member index: first member of that class, as `_typeid_from_type` finds it) -/
def xfield (src : St) (fk : FK) (sa da : Nat) (x : Option Nat) : List UInt8 :=
  match fk with
  | .scal => le 8 (fromLE (readAt src.b.mem sa 8))
  | .ref _ =>
    match x with
    | some t' => refBytes da t'
    | none => refNullBytes
  | .uref cs =>
    match x, refClass src (.uref cs) sa with
    | some t', some c' => urefBytes da t' (cs.idxOf c')
    | _, _ => urefNullBytes

def xbytes (src : St) : Cls → Nat → Nat → List (Option Nat) → List UInt8
 | [], _, _, _ => []
 | fk :: r, sa, da, ch => xfield src fk sa da ch.head?.join ++ xbytes src r (sa + fk.size) (da + fk.size) ch.tail

/-- `Cls(h, _buffer=other)` for the node of class `c` at `a` in `src`: the destination afterwards and the address of the copy -/
def xcopy (u : Univ) (src : St) : Nat → St → Nat → Nat → Option (St × Nat)
 | 0, _, _, _ => none
 | fuel + 1, d, a, c =>
    match u[c]? with
    | none => none
    | some cl =>
      match newObj u d c [] with
      | (_, none) => none
      | (d1, some o) =>
        match xchildren (xcopy u src fuel) src cl a d1 with
        | none => none
        | some (d2, ch) => some (wr d2 o (xbytes src cl a o ch), o)

/-- `type(h)(h, _buffer=other)` for whatever node the handle address `h` denotes in `src` -/
def xcopyAt (u : Univ) (fuel : Nat) (src dst : St) (h : Nat) : Option (St × Nat) :=
  match (findObj src h).bind (·.cls) with
  | none => none
  | some c => xcopy u src fuel dst h c

/-! ### two buffers: histories that interleave operations inside each buffer with copies between them -/

structure St2 where
  a : St
  b : St

inductive Op2 where
 | inA (op : Op)
 | inB (op : Op)
 | copyAB (h : Nat)      -- the node at `h` of buffer A is copy-constructed in buffer B
 | copyBA (h : Nat)

/-- a copy that does not end (cyclic source) or names no node leaves the destination as it was - in the model; the library dies
with RecursionError after having allocated: the harness does not issue such copies -/
def step2 (u : Univ) (fuel : Nat) (p : St2) : Op2 → St2
 | .inA op => { p with a := step u p.a op }
 | .inB op => { p with b := step u p.b op }
 | .copyAB h => { p with b := ((xcopyAt u fuel p.a p.b h).map (·.1)).getD p.b }
 | .copyBA h => { p with a := ((xcopyAt u fuel p.b p.a h).map (·.1)).getD p.a }

/-- every chain of references starting at the node `a` of class `c` has fewer than `n` links (so: no cycle is reachable) -/
def Acyc (u : Univ) (s : St) : Nat → Nat → Nat → Prop
 | 0, _, _ => False
 | n + 1, a, c => ∃ cl, u[c]? = some cl ∧ ∀ (k : Nat) (fk : FK), cl[k]? = some fk →
    match fk with
    | .scal => True
    | .ref c' => ∀ t, deref s.b.mem (a + foff cl k) = some t → Acyc u s n t c'
    | .uref cs => ∀ t c', deref s.b.mem (a + foff cl k) = some t → refClass s (.uref cs) (a + foff cl k) = some c' → Acyc u s n t c'

/-- indistinguishable by reads along every path of at most `n` references: same scalars, null where the other is null, referents
of the same class that are indistinguishable to depth `n - 1` -/
def Sim (u : Univ) (s s' : St) : Nat → Nat → Nat → Nat → Prop
 | 0, _, _, _ => True
 | n + 1, a, a', c => ∃ cl, u[c]? = some cl ∧ ∀ (k : Nat) (fk : FK), cl[k]? = some fk →
    match fk with
    | .scal => fromLE (readAt s'.b.mem (a' + foff cl k) 8) = fromLE (readAt s.b.mem (a + foff cl k) 8)
    | .ref c' =>
      (deref s.b.mem (a + foff cl k) = none ∧ deref s'.b.mem (a' + foff cl k) = none) ∨
      ∃ t t', deref s.b.mem (a + foff cl k) = some t ∧ deref s'.b.mem (a' + foff cl k) = some t' ∧ Sim u s s' n t t' c'
    | .uref cs =>
      (deref s.b.mem (a + foff cl k) = none ∧ deref s'.b.mem (a' + foff cl k) = none) ∨
      ∃ t t' c', deref s.b.mem (a + foff cl k) = some t ∧ deref s'.b.mem (a' + foff cl k) = some t' ∧
        refClass s (.uref cs) (a + foff cl k) = some c' ∧ refClass s' (.uref cs) (a' + foff cl k) = some c' ∧
        Sim u s s' n t t' c'

end RG
