import Xo.Model.Layout
/-! Index order ↔ memory order of N-dimensional arrays (`get_strides`, `get_offset`, `iter_index` of array.py).
`order` lists the axes from slowest to fastest varying.  The memory position of an index tuple is its C-order position in
the PERMUTED shape; the address arithmetic of views and of the generated C code is `Σ idx[ax] * stride[ax]`. -/
namespace Lay

/-- `sum(ii * ss for ii, ss in zip(index, strides))` -/
def dot : List Nat → List Nat → Nat
 | i :: is, s :: ss => i * s + dot is ss
 | _, _ => 0

/-- C-order position of `ii` in a block of shape `cshape` -/
def cposL : List Nat → List Nat → Nat
 | _ :: ds, i :: is => i * prod ds + cposL ds is
 | _, _ => 0

/-- memory position (in items) of index tuple `idx` of an array of shape `shape` stored with axis order `order` -/
def mposL (shape order idx : List Nat) : Nat :=
  cposL (order.map fun ax => shape.getD ax 0) (order.map fun ax => idx.getD ax 0)

/-- an index tuple accepted by `bound_check` -/
def ValidIdx (shape idx : List Nat) : Prop :=
  idx.length = shape.length ∧ ∀ ax, ax < shape.length → idx.getD ax 0 < shape.getD ax 0

/-- `bound_check(index, shape)` of array.py, as the views call it before every item access: more coordinates than axes are
refused, and so is any coordinate outside `[0, dim)` (the loop runs over `zip(index, shape)`: missing trailing coordinates are not
checked - they read as 0, the library's convention). `true` = accepted. This definition is the one the executable reader
(`LayR.itemAddr`) calls. -/
def boundCheck (shape : List Nat) (idx : List Int) : Bool :=
  !(decide (idx.length > shape.length)) && !((idx.zip shape).any fun p => decide (p.1 < 0) || decide (p.1 ≥ (p.2 : Int)))

end Lay
