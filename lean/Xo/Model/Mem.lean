/-! bytes of one buffer; slice read/write; little-endian codec (core Lean only) -/
namespace MemS
abbrev Mem := List UInt8

def writeAt (m : Mem) (off : Nat) (bs : List UInt8) : Mem :=
  m.take off ++ bs ++ m.drop (off + bs.length)
def readAt (m : Mem) (off n : Nat) : List UInt8 := (m.drop off).take n

/-- little endian, w bytes -/
def le : Nat → Nat → List UInt8
 | 0, _ => []
 | w+1, n => UInt8.ofNat (n % 256) :: le w (n / 256)
def fromLE : List UInt8 → Nat
 | [] => 0
 | b :: bs => b.toNat + 256 * fromLE bs

end MemS
