import Xo.Model.Mem
/-! the writer as an ordered list of slice assignments (`patches`) applied to a buffer image -/
namespace Lay
open MemS

/-- a patch: bytes written at an offset -/
abbrev Patch := Nat × List UInt8
def shift (d : Nat) (ps : List Patch) : List Patch := ps.map fun p => (p.1 + d, p.2)
def apply (ps : List Patch) (m : Mem) : Mem := ps.foldl (fun m p => writeAt m p.1 p.2) m
def zeros (n : Nat) : List UInt8 := List.replicate n 0
/-- Python: `bytes.decode().rstrip("\x00")` at byte level -/
def stripNul (bs : List UInt8) : List UInt8 := (bs.reverse.dropWhile (· == 0)).reverse
def slot (n : Nat) : Nat := (n + 7) / 8 * 8

def Within (ps : List Patch) (lo hi : Nat) : Prop := ∀ p ∈ ps, lo ≤ p.1 ∧ p.1 + p.2.length ≤ hi
def Outside (ps : List Patch) (lo hi : Nat) : Prop := ∀ p ∈ ps, p.1 + p.2.length ≤ lo ∨ hi ≤ p.1
def InBounds (ps : List Patch) (n : Nat) : Prop := ∀ p ∈ ps, p.1 + p.2.length ≤ n
def Agree (m' m : Mem) (lo hi : Nat) : Prop := ∀ i, lo ≤ i → i < hi → m'[i]? = m[i]?
end Lay
