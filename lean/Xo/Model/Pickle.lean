import Xo.Model.Alloc
/-! Model of pickling xobjects: Python's pickle copies the object graph reachable from the pickled objects, visiting every
object once (memo).  What each class contributes is its `__getstate__`: a struct / hybrid object is `(buffer, offset)`; an
array its attribute dictionary (buffer, offset, cached shape/strides/offsets); a buffer its whole state (storage bytes, capacity,
free list, alignment); a context drops its weak set of buffers and its kernels.  Hence: every distinct buffer referenced by
the pickled handles is duplicated exactly once, handles keep their offsets and point to the duplicate of their buffer. -/
namespace Pk

structure Buf where
  a : Alloc.AState
  mem : List UInt8

structure Handle where
  buf : Nat
  off : Nat
  ty : Nat                  -- class tag
deriving Repr, DecidableEq, Inhabited

structure Heap where
  bufs : List Buf

/-- distinct buffers referenced by the handles, in order of first occurrence (the memo) -/
def memo : List Handle → List Nat → List Nat
 | [], acc => acc
 | h :: hs, acc => if acc.contains h.buf then memo hs acc else memo hs (acc ++ [h.buf])

def indexOf (l : List Nat) (x : Nat) : Nat := l.idxOf x

/-- `pickle.loads(pickle.dumps(handles))`: the duplicated buffers are appended to the heap -/
def roundtrip (H : Heap) (hs : List Handle) : Heap × List Handle :=
  let m := memo hs []
  let n := H.bufs.length
  ({ bufs := H.bufs ++ m.map fun b => H.bufs.getD b ⟨Alloc.init 0 1 none, []⟩ },
   hs.map fun h => { h with buf := n + indexOf m h.buf })

end Pk
