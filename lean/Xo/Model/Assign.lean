import Xo.Model.Layout
/-! Proof model of assignment to a slot of an existing object (`Field.__set__`, `Array.__setitem__`):
scalars are rewritten in place; strings go through `String._rewrite` (refused when the value needs more than the
size stored at creation; the stored size is kept). -/
namespace Lay
open MemS

/-- `_to_buffer` of a scalar type at the slot address -/
def setScalar (m : Mem) (addr w b : Nat) : Mem := writeAt m addr (le w b)

inductive AErr | value
deriving DecidableEq, Repr

/-- `String._rewrite(buffer, addr, value)` -/
def rewriteStr (m : Mem) (addr : Nat) (v : Val) : Except AErr Mem :=
  let cur := fromLE (readAt m addr 8)
  match v with
  | .str bs =>
    if slot (bs.length + 1 + 8) > cur then .error .value
    else .ok (apply [(addr, le 8 cur), (addr + 8, bs ++ zeros (cur - 8 - bs.length))] m)
  | .cap n =>
    if n + 8 > cur then .error .value
    else .ok (apply [(addr, le 8 cur), (addr + 8, zeros (cur - 8))] m)
  | _ => .error .value

end Lay
