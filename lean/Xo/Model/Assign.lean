import Xo.Model.Layout
/-! Proof model of assignment to a slot of an existing object (`Field.__set__`, `Array.__setitem__`):
scalars are rewritten in place; strings go through `String._rewrite` (refused when the value needs more than the
size stored at creation; the stored size is kept). -/
namespace Lay
open MemS

/-- `_to_buffer` of a scalar type at the slot address -/
def setScalar (m : Mem) (addr w b : Nat) : Mem := writeAt m addr (le w b)

inductive AErr | value
deriving DecidableEq, Repr

/-- `String._rewrite(buffer, addr, value)` -/
def rewriteStr (m : Mem) (addr : Nat) (v : Val) : Except AErr Mem :=
  let cur := fromLE (readAt m addr 8)
  match v with
  | .str bs =>
    if slot (bs.length + 1 + 8) > cur then .error .value
    else .ok (apply [(addr, le 8 cur), (addr + 8, bs ++ zeros (cur - 8 - bs.length))] m)
  | .cap n =>
    if n + 8 > cur then .error .value
    else .ok (apply [(addr, le 8 cur), (addr + 8, zeros (cur - 8))] m)
  | _ => .error .value

/-- the header patch of an array with the size word forced to `cur` (`info.size = size`: "the size of an instance never changes") -/
def keepSize (cur : Nat) : List Patch → List Patch
 | (0, bs) :: ps => (0, le 8 cur ++ bs.drop 8) :: ps
 | ps => ps

/-- `Array._update(value)` on an existing array at `addr` (whole-array assignment `s.f = [...]`, `a[i] = [...]`): the value must have
the array's CURRENT shape (for a one-dimensional array: its length), and must not need more bytes than the instance has; then it is
written like a new object, except that the size word keeps the instance's size.  Arrays of static shape and static items have no
header and no size word: the class fixes shape and size. -/
def updateArr (it : Ty) (shape : List (Option Nat)) (order : List Nat) (m : Mem) (addr : Nat) (v : Val) : Except AErr Mem :=
  match v with
  | .arr sh items =>
    let ai := ainfo it shape
    if ai.staticShape && ai.staticType then
      if sh ≠ readDims m shape 0 then .error .value
      else .ok (apply (shift addr (patchesD (.array it shape order) v)) m)
    else
      let cur := fromLE (readAt m addr 8)
      if sh ≠ readDims m shape (addr + 8) then .error .value
      else if vsize (.array it shape order) (.arr sh items) > cur then .error .value
      else .ok (apply (shift addr (keepSize cur (patchesD (.array it shape order) v))) m)
  | _ => .error .value

end Lay
