import Xo.Model.ToLay
import Xo.Model.Path
import Xo.Model.Index
/-! Selector paths (field number / index tuple) and what the two models make of them: the part list and index arguments the C
generator builds (`cparts`, as `dataPaths` in capi.py) and the part-index path of the layout model (`lpath`). -/
namespace Lay

inductive Sel where
 | field (k : Nat)
 | item (idx : List Nat)
deriving Repr, Inhabited

/-- the access path of the C generator for a selector path, and the flattened index arguments of the accessor -/
def cparts : CGen.Ty → List Sel → Option (List CGen.Part × List Nat)
 | t, [] => some ([.ty t], [])
 | .struct n fs, .field k :: r =>
    match fs[k]?, (CGen.fieldLayout fs)[k]? with
    | some (fname, ft), some (o, isref) =>
      (cparts ft r).map fun (ps, ix) => (.ty (.struct n fs) :: .field fname o isref :: ps, ix)
    | _, _ => none
 | .array it sh ord, .item idx :: r =>
    (cparts it r).map fun (ps, ix) => (.ty (.array it sh ord) :: .index (.array it sh ord) :: ps, idx ++ ix)
 | _, _ => none

def validIdxB (shape idx : List Nat) : Bool :=
  idx.length == shape.length && (List.range shape.length).all fun ax => idx.getD ax 0 < shape.getD ax 0

/-- the layout model's path for a selector path on a value: field number, or the memory position of a valid index tuple -/
def lpath : Ty → Val → List Sel → Option (List Nat)
 | _, _, [] => some []
 | .struct fs, .struct vs, .field k :: r =>
    match part (.struct fs) (.struct vs) k with
    | some (_, t', v') => (lpath t' v' r).map (k :: ·)
    | none => none
 | .array it shape order, .arr sh items, .item idx :: r =>
    if validIdxB sh idx then
      match part (.array it shape order) (.arr sh items) (mposL sh order idx) with
      | some (_, t', v') => (lpath t' v' r).map (mposL sh order idx :: ·)
      | none => none
    else none
 | _, _, _ => none

end Lay
