/-!
# Allocator model — `xobjects/context.py` `XBuffer.allocate / grow / free / get_free`, `Chunk`, `_align`

Executable, import-free.  Every definition follows the Python statement by statement; the
places where the shape differs from the source are named:

* `allocate`'s retry loop (`while True:` in the source) is a recursion on an explicit fuel
  argument; `Alloc.allocate` supplies `size + alignment + 1` rounds, and theorem
  `C12_total` proves that amount is never exhausted when `grow_step` is unset or positive,
  so the fuel is not a restriction of the model.
* Python lists of mutable `Chunk` objects are immutable lists of pairs.
-/
namespace Alloc

structure Chunk where
  start : Nat
  stop : Nat
deriving Repr, DecidableEq

/-- `_align(offset, alignment) = (offset + alignment - 1) & (-alignment)` on unbounded
    naturals: clearing the low bits of `x` is `x - (x &&& (a-1))` when `a` is a power of two. -/
def alignUp (o a : Nat) : Nat := let x := o + a - 1; x - (x &&& (a - 1))

/-- the `for chunk in self.chunks:` loop of `allocate`:
    first chunk with `chunk.end >= _align(chunk.start) + size`; the chunk's start moves to the
    new end and the chunk is removed when it becomes empty. -/
def scan (size a : Nat) : List Chunk → Option (Nat × List Chunk)
 | [] => none
 | c :: cs =>
   let off := alignUp c.start a
   let newend := off + size
   if newend ≤ c.stop then
     some (off, if c.stop - newend = 0 then cs else { c with start := newend } :: cs)
   else match scan size a cs with
     | none => none
     | some (o, cs') => some (o, c :: cs')

/-- `for ic, ch in enumerate(self.chunks): if offset <= ch.start: insert(ic, nch); break` -/
def insertLoop (n : Chunk) : List Chunk → List Chunk
 | [] => []
 | c :: cs => if n.start ≤ c.start then n :: c :: cs else c :: insertLoop n cs

/-- sorted insertion as a total function (inserts at the end when nothing is larger) -/
def insertSorted (n : Chunk) : List Chunk → List Chunk
 | [] => [n]
 | c :: cs => if n.start ≤ c.start then n :: c :: cs else c :: insertSorted n cs

/-- the insertion part of `free`: `if not chunks or offset > chunks[-1].start: append` else the loop -/
def insertPy (n : Chunk) (cs : List Chunk) : List Chunk :=
  match cs.getLast? with
  | none => [n]
  | some l => if n.start > l.start then cs ++ [n] else insertLoop n cs

/-- the merge loop of `free`: `p` is `pch`; `overlaps` is `other.end >= self.start and other.start <= self.end` -/
def mergeFrom (p : Chunk) : List Chunk → List Chunk
 | [] => [p]
 | c :: cs =>
   if c.stop ≥ p.start ∧ c.start ≤ p.stop
   then mergeFrom ⟨min p.start c.start, max p.stop c.stop⟩ cs
   else p :: mergeFrom c cs

def freeChunks (cs : List Chunk) (off size : Nat) : List Chunk :=
  match insertPy ⟨off, off + size⟩ cs with
  | [] => []
  | p :: rest => mergeFrom p rest

/-- the free-list update of `grow`: append `Chunk(old, new)` unless the last chunk ends at the old
    capacity, in which case that chunk is extended -/
def growChunks (cap n : Nat) : List Chunk → List Chunk
 | [] => [⟨cap, cap + n⟩]
 | [l] => if l.stop != cap then [l, ⟨cap, cap + n⟩] else [⟨l.start, cap + n⟩]
 | c :: d :: cs => c :: growChunks cap n (d :: cs)

structure AState where
  capacity : Nat
  chunks : List Chunk
  align : Nat                 -- `default_alignment`
  growStep : Option Nat       -- `grow_step`
deriving Repr

def init (cap align : Nat) (gs : Option Nat) : AState :=
  { capacity := cap, chunks := [⟨0, cap⟩], align := align, growStep := gs }

def grow (s : AState) (n : Nat) : AState :=
  { s with capacity := s.capacity + n, chunks := growChunks s.capacity n s.chunks }

/-- the amount `allocate` grows by when the scan fails -/
def growAmount (s : AState) (size a : Nat) : Nat :=
  let sizepa := size + a - 1
  if sizepa > s.capacity then sizepa else match s.growStep with | some g => g | none => s.capacity

def allocF : Nat → AState → Nat → Nat → Option (Nat × AState)
 | 0, _, _, _ => none
 | fuel+1, s, size, a =>
    match scan size a s.chunks with
    | some (o, cs) => some (o, { s with chunks := cs })
    | none => allocF fuel (grow s (growAmount s size a)) size a

def alignOf (s : AState) (aligned : Bool) : Nat := if aligned then s.align else 1

def allocate (s : AState) (size : Nat) (aligned : Bool) : Option (Nat × AState) :=
  allocF (size + alignOf s aligned + 1) s size (alignOf s aligned)

def free (s : AState) (off size : Nat) : AState := { s with chunks := freeChunks s.chunks off size }

def getFree (s : AState) : Nat := (s.chunks.map fun c => c.stop - c.start).sum

/-! ### buffer = allocator state + bytes -/

structure Buf where
  a : AState
  mem : List UInt8
deriving Repr

/-- `grow`: `newbuff = zeros(new)`, `copy_to_native(newbuff, 0, 0, oldcapacity)` -/
def Buf.grow (b : Buf) (n : Nat) : Buf :=
  { a := Alloc.grow b.a n, mem := b.mem.take b.a.capacity ++ List.replicate (b.a.capacity + n - min b.a.capacity b.mem.length) 0 }

/-- the storage after `allocate`: bytes are touched only by the growth rounds -/
def Buf.allocF : Nat → Buf → Nat → Nat → Option (Nat × Buf)
 | 0, _, _, _ => none
 | fuel+1, b, size, a =>
    match scan size a b.a.chunks with
    | some (o, cs) => some (o, { b with a := { b.a with chunks := cs } })
    | none => Buf.allocF fuel (b.grow (growAmount b.a size a)) size a

def Buf.allocate (b : Buf) (size : Nat) (aligned : Bool) : Option (Nat × Buf) :=
  Buf.allocF (size + alignOf b.a aligned + 1) b size (alignOf b.a aligned)

def Buf.free (b : Buf) (off size : Nat) : Buf := { b with a := Alloc.free b.a off size }

end Alloc
