/-!
# Dependency sorter model — `xobjects/context.py` `topological_sort`, `sort_classes`

Python dicts are insertion-ordered association lists; class names are numbers (the harness numbers
the names in order of first appearance).  `for parent in result:` over the growing list is a
recursion on the index with explicit fuel: `topo` supplies `keys + 1` rounds and `C14_fuel`
proves they are never exhausted.
-/
namespace Topo

abbrev Name := Nat
/-- `source`: child ↦ parents, in insertion order -/
abbrev Source := List (Name × List Name)

def keys (src : Source) : List Name := src.map (·.1)
def parentsOf (src : Source) (c : Name) : List Name := (src.lookup c).getD []

/-- keys of the dict `graph` (parent ↦ children), in order of first appearance -/
def graphKeys (src : Source) : List Name := (src.flatMap (·.2)).eraseDups

/-- `graph[p]`: one entry per occurrence of `p` in a parents list, in source order -/
def childrenOf (src : Source) (p : Name) : List Name :=
  src.flatMap fun e => (e.2.filter (· == p)).map fun _ => e.1

/-- `num_parents` as first computed -/
def numParents (src : Source) (c : Name) : Int :=
  ((src.filter (·.1 == c)).map (·.2.length)).sum

structure St where
  result : List Name
  np : Name → Int

/-- `num_parents[child] -= 1; if num_parents[child] == 0: result.append(child)` -/
def visit (s : St) (c : Name) : St :=
  let n := s.np c - 1
  { result := if n = 0 then s.result ++ [c] else s.result,
    np := fun x => if x = c then n else s.np x }

/-- `for parent in result: if parent in graph: (for child in graph[parent]: …); del graph[parent]`;
    `done` = keys already deleted from `graph` -/
def loop (src : Source) : Nat → Nat → List Name → St → Option (St × List Name)
 | 0, _, _, _ => none
 | fuel+1, i, done, s =>
    match s.result[i]? with
    | none => some (s, done)
    | some p =>
      if p ∈ graphKeys src ∧ p ∉ done
      then loop src fuel (i+1) (p :: done) ((childrenOf src p).foldl visit s)
      else loop src fuel (i+1) done s

def initResult (src : Source) : List Name :=
  (src.filter (·.2.isEmpty)).map (·.1) ++
  (graphKeys src).filter fun item => numParents src item == 0 && !(keys src).contains item

/-- `topological_sort(source)`: (result, has_cycle); `none` only if the fuel were exhausted -/
def topoF (fuel : Nat) (src : Source) : Option (List Name × Bool) :=
  match loop src fuel 0 [] { result := initResult src, np := numParents src } with
  | none => none
  | some (s, done) =>
    let left := (graphKeys src).filter (fun p => !done.contains p)
    some (s.result ++ left, !left.isEmpty)

def topo (src : Source) : Option (List Name × Bool) := topoF ((keys src).length + 1) src

/-! ### `sort_classes` -/

/-- a class universe: for each class (by number) its direct dependencies in the order
    `_get_inner_types() + _depends_on` lists them, and whether it has `_gen_c_api` -/
structure Universe where
  depsOf : Name → List Name
  hasApi : Name → Bool

/-- the on-line closure loop of `sort_classes`: `classes` grows while it is traversed;
    returns (classes, deps) -/
def closeLoop (u : Universe) : Nat → Nat → List Name → Source → Option (List Name × Source)
 | 0, _, _, _ => none
 | fuel+1, i, classes, deps =>
    match classes[i]? with
    | none => some (classes, deps)
    | some cls =>
      let ds := u.depsOf cls
      let classes' := ds.foldl (fun cs d => if cs.contains d then cs else cs ++ [d]) classes
      -- deps[cls.__name__] = names  (dict assignment: replace in place or append)
      let deps' := if (deps.map (·.1)).contains cls
                   then deps.map fun e => if e.1 == cls then (cls, ds) else e
                   else deps ++ [(cls, ds)]
      closeLoop u fuel (i+1) classes' deps'

/-- `sort_classes(classes)`: `none` = fuel exhausted (never, see the harness bound),
    `some none` = "Class dependencies have cycles", `some (some l)` = sorted classes with an API -/
def sortClasses (u : Universe) (fuel : Nat) (roots : List Name) : Option (Option (List Name)) :=
  -- class_by_name = {name: cls}: with unique names the list of distinct roots
  match closeLoop u fuel 0 roots [] with
  | none => none
  | some (_, deps) =>
    match topoF (deps.length + 1) deps with
    | none => none
    | some (_, true) => some none
    | some (order, false) => some (some (order.filter u.hasApi))

/-- `classes_from_kernels` for one kernel description: the classes with a C API among the argument types and the
return type (`(class, hasApi)` pairs) -/
def kernelClasses (args : List (Name × Bool)) (ret : Option (Name × Bool)) : List Name :=
  (args.filter (·.2)).map (·.1) ++ (match ret with | some (c, true) => [c] | _ => [])

end Topo
