import Xo.Model.Alloc
/-! Model of `typeutils.allocate_on_buffer(size, context, buffer, offset)`: where a new object goes.

The decision (which buffer, how the offset is obtained, or which refusal) depends only on what was GIVEN: a context or none, a
buffer (with the context it belongs to) or none, an offset (`None`, `"aligned"`, `"packed"`, a number).  Contexts and buffers are
identities (numbers); the default context is a parameter. -/
namespace Place

inductive Off | none | aligned | packed | at (n : Nat)
deriving DecidableEq, Repr

structure Req where
  ctx : Option Nat              -- `_context`
  buf : Option (Nat × Nat)      -- `_buffer`: (identity of the buffer, identity of `buffer.context`)
  off : Off                     -- `_offset`
deriving Repr

inductive Err | offsetWithoutBuffer | mismatchedContext
deriving DecidableEq, Repr

/-- the buffer the object goes to: a NEW buffer of a context, or the given one -/
inductive BufSel | fresh (ctx : Nat) | given (buf : Nat)
deriving DecidableEq, Repr

/-- how the offset is obtained: `buffer.allocate(size, align=…)` or taken as given -/
inductive How | alloc (aligned : Bool) | at (n : Nat)
deriving DecidableEq, Repr

/-- `allocate_on_buffer`, statement by statement (`dflt`: `typeutils.context_default`) -/
def decide (dflt : Nat) (r : Req) : Except Err (BufSel × How) :=
  let sel : Except Err BufSel :=
    match r.buf with
    | none =>
      if r.off ≠ .none then .error .offsetWithoutBuffer
      else .ok (.fresh (r.ctx.getD dflt))
    | some (b, bc) =>
      match r.ctx with
      | some c => if bc ≠ c then .error .mismatchedContext else .ok (.given b)
      | none => .ok (.given b)
  match sel with
  | .error e => .error e
  | .ok s =>
    .ok (s, match r.off with
            | .none => .alloc true
            | .aligned => .alloc true
            | .packed => .alloc false
            | .at n => .at n)

/-- the allocator side of an accepted placement into an existing buffer state: the offset and the new allocator state -/
def apply (s : Alloc.AState) (size : Nat) : How → Option (Nat × Alloc.AState)
 | .alloc al => Alloc.allocate s size al
 | .at n => some (n, s)          -- "if offset is provided by the user we assume that we can write there"

end Place
