/-! Model of the kernel call path on CPU (`KernelDispatcher.__call__`, `KernelCpu.__call__`, `KernelCpu.to_function_arg`):
the decision logic (positional arguments refused, arity assertion, lookup by name) and the address arithmetic of what is
delivered (scalar by value through the declared NumPy type; compound xobject → current storage + offset; NumPy array → first
element of the slice; xobject array → storage + offset + data offset, typed by the ITEM C type). -/
namespace KCall

/-- declared argument: `Arg(atype, pointer=…, name=…)`; `scalar` = the atype is a numeric scalar type (has `_dtype`) -/
structure Decl where
  name : String
  pointer : Bool
  scalar : Bool
  ctype : String           -- `atype._c_type`
  lo : Int := 0            -- representable range of a scalar type
  hi : Int := 0
deriving Repr

inductive Val where
 | num (v : Int)                                     -- a Python number
 | nparr (ctype : String) (storage firstOff : Nat)   -- NumPy array: element C type, its memory, byte offset of element [0,…,0]
 | xarr (storage off dataOff : Nat) (itemC : String) -- xobject array living at `off` of the buffer whose CURRENT storage is `storage`
 | xobj (storage off : Nat)                          -- compound xobject
deriving Repr

inductive Out where
 | scalarV (v : Int)
 | ptr (storage off : Nat) (ctype : String)
deriving Repr, DecidableEq

inductive Err | value | assertion | key | overflow
deriving Repr, DecidableEq

def toArg (d : Decl) (v : Val) : Except Err Out :=
  if d.pointer then
    if d.scalar then
      match v with
      | .nparr c st fo => .ok (.ptr st fo (c ++ "*"))
      | .xarr st off doff c => .ok (.ptr st (off + doff) (c ++ "*"))
      | _ => .error .value          -- falls through both `hasattr` tests: returns None → refused by cffi (modelled as refusal)
    else .error .value
  else
    if d.scalar then
      match v with
      | .num x => if d.lo ≤ x ∧ x ≤ d.hi then .ok (.scalarV x) else .error .overflow
      | _ => .error .value
    else
      match v with
      | .xobj st off => .ok (.ptr st off d.ctype)
      | .xarr st off _ _ => .ok (.ptr st off d.ctype)
      | _ => .error .value

def lookup (kw : List (String × Val)) (n : String) : Option Val := (kw.find? (·.1 == n)).map (·.2)

def deliver : List Decl → List (String × Val) → Except Err (List Out)
 | [], _ => .ok []
 | d :: ds, kw =>
    match lookup kw d.name with
    | none => .error .key
    | some v =>
      match toArg d v, deliver ds kw with
      | .ok o, .ok os => .ok (o :: os)
      | .error e, _ => .error e
      | _, .error e => .error e

/-- `ctx.kernels.<name>(*args, **kwargs)` -/
def call (decls : List Decl) (nPositional : Nat) (kw : List (String × Val)) : Except Err (List Out) :=
  if nPositional > 0 then .error .value
  else if kw.length ≠ decls.length then .error .assertion
  else deliver decls kw

/-- buffer storage identity: replaced on every growth; offsets of live objects never change -/
structure BufS where
  storage : Nat
  capacity : Nat
deriving Repr

inductive BOp | alloc (n : Nat) | free (off n : Nat) | grow (n : Nat)

def BufS.step (b : BufS) : BOp → BufS
 | .grow n => { storage := b.storage + 1, capacity := b.capacity + n }
 | _ => b

/-- the value handed to `to_function_arg` for a compound object at `off`: the buffer's storage AT CALL TIME -/
def xobjNow (b : BufS) (off : Nat) : Val := .xobj b.storage off

end KCall
