/-! Model of `HybridClass` (hybrid_class.py) over an abstract object heap.

An xobject is identified by its location: buffer, allocation (`root`) and the path of inline fields from that allocation
(nested non-reference struct fields live inside their parent; two xobjects are "the same memory area" iff their locations
are equal).  A hybrid instance is its xobject location, a cache of dressed children (`_dressed_<field>`), the `_movable` flag
and its pure-Python attributes.  Values are numbers (arrays of numbers behave the same for this property), inline structs
and references. -/
namespace Hyb

inductive FKind | num | nested (cls : Nat) | ref (cls : Nat)
deriving DecidableEq, Repr, Inhabited

structure Cls where
  fields : List (String × FKind)              -- xobject field names, declaration order
  rename : List (String × String)             -- xo name ↦ python name
deriving Repr, Inhabited

structure Loc where
  buf : Nat
  root : Nat
  path : List String
deriving DecidableEq, Repr, Inhabited

inductive XV where
 | num (v : Int)
 | struct (cls : Nat) (fs : List (String × XV))
 | ref (cls : Nat) (t : Option Loc)
deriving Repr, Inhabited

structure Heap where
  roots : List ((Nat × Nat) × XV)             -- (buffer, root id) ↦ value of the allocated object
  next : Nat                                  -- next fresh root id
  ctxOf : Nat → Nat                           -- context of a buffer

abbrev Universe := List Cls
def clsOf (u : Universe) (c : Nat) : Cls := u.getD c default

def Loc.sub (l : Loc) (f : String) : Loc := { l with path := l.path ++ [f] }

/-! ### xobject layer -/

def navV : XV → List String → Option XV
 | v, [] => some v
 | .struct _ fs, f :: r => match fs.lookup f with
    | some v => navV v r
    | none => none
 | _, _ :: _ => none

def xread (h : Heap) (l : Loc) : Option XV :=
  match h.roots.lookup (l.buf, l.root) with
  | some v => navV v l.path
  | none => none

def updV : XV → List String → XV → XV
 | _, [], nv => nv
 | .struct c fs, f :: r, nv => .struct c (fs.map fun (n, v) => if n == f then (n, updV v r nv) else (n, v))
 | v, _ :: _, _ => v

def xwrite (h : Heap) (l : Loc) (nv : XV) : Heap :=
  { h with roots := h.roots.map fun (k, v) => if k == (l.buf, l.root) then (k, updV v l.path nv) else (k, v) }

def alloc (h : Heap) (buf : Nat) (v : XV) : Loc × Heap :=
  ({ buf, root := h.next, path := [] }, { h with roots := h.roots ++ [((buf, h.next), v)], next := h.next + 1 })

/-- deep copy of a value for placement in buffer `dst` (the source lives in `srcBuf`): references to objects of the same
buffer are kept, referents in another buffer are duplicated into `dst` (fuel bounds the reference depth) -/
def copyVal : Nat → Heap → Nat → Nat → XV → XV × Heap
 | 0, h, _, _, v => (v, h)
 | _ + 1, h, _, _, .num v => (.num v, h)
 | fuel + 1, h, srcBuf, dst, .struct c fs =>
    let (fs', h') := fs.foldl (fun (acc : List (String × XV) × Heap) (n, v) =>
        let (v', h'') := copyVal fuel acc.2 srcBuf dst v
        (acc.1 ++ [(n, v')], h'')) ([], h)
    (.struct c fs', h')
 | _ + 1, h, _, _, .ref c none => (.ref c none, h)
 | fuel + 1, h, _, dst, .ref c (some t) =>
    if t.buf == dst then (.ref c (some t), h)
    else
      match xread h t with
      | some tv =>
        let (tv', h1) := copyVal fuel h t.buf dst tv
        let (l, h2) := alloc h1 dst tv'
        (.ref c (some l), h2)
      | none => (.ref c none, h)

/-- `Cls(xobj, _buffer=dst)`: copy-construction of the xobject at `src` into buffer `dst` -/
def xcopy (h : Heap) (src : Loc) (dst : Nat) : Option (Loc × Heap) :=
  match xread h src with
  | some v => let (v', h1) := copyVal 64 h src.buf dst v; some (alloc h1 dst v')
  | none => none

def hasRefs (u : Universe) : Nat → Nat → Bool
 | 0, _ => false
 | fuel + 1, c => (clsOf u c).fields.any fun f => match f.2 with
    | .ref _ => true
    | .nested c' => hasRefs u fuel c'
    | .num => false

/-! ### hybrid layer -/

structure Inst where
  cls : Nat
  loc : Loc
  dressed : List (String × Nat)              -- `_dressed_<xo field>` ↦ instance id
  movable : Bool
  py : List (String × Int)                   -- pure Python attributes
deriving Repr, Inhabited

structure St where
  heap : Heap
  insts : List Inst

def St.inst (s : St) (i : Nat) : Inst := s.insts.getD i default
def St.setInst (s : St) (i : Nat) (x : Inst) : St := { s with insts := s.insts.set i x }
def St.addInst (s : St) (x : Inst) : Nat × St := (s.insts.length, { s with insts := s.insts ++ [x] })

def xoName (c : Cls) (py : String) : String :=
  match c.rename.find? (·.2 == py) with
  | some (xo, _) => xo
  | none => py

def fkind (c : Cls) (xo : String) : Option FKind := c.fields.lookup xo

inductive Got where
 | num (v : Int)
 | inst (j : Nat)             -- a cached dressed object
 | bare (l : Loc)             -- an undressed xobject (reference target without a cache)
 | none_                      -- a null reference
 | noattr
deriving Repr, DecidableEq

/-- `_FieldOfDressed.__get__`: a cached dressed object is returned as it is for a nested field; for a REFERENCE field the cache
is believed only while the buffer still refers to that very object (the reference may have been changed through another
object dressing the same memory) - otherwise the cache entry is dropped and the attribute is what the buffer says -/
def hget (u : Universe) (s : St) (i : Nat) (py : String) : St × Got :=
  let x := s.inst i
  let c := clsOf u x.cls
  let f := xoName c py
  match fkind c f with
  | none => (s, .noattr)
  | some k =>
    match x.dressed.lookup f with
    | some j =>
      match k, xread s.heap (x.loc.sub f) with
      | .ref _, some (.ref _ (some t)) =>
        if t == (s.inst j).loc then (s, .inst j)
        else (s.setInst i { x with dressed := x.dressed.filter (·.1 != f) }, .bare t)
      | .ref _, some (.ref _ none) => (s.setInst i { x with dressed := x.dressed.filter (·.1 != f) }, .none_)
      | _, _ => (s, .inst j)
    | none =>
      match k, xread s.heap (x.loc.sub f) with
      | .num, some (.num v) => (s, .num v)
      | .nested _, some _ => (s, .bare (x.loc.sub f))
      | .ref _, some (.ref _ (some t)) => (s, .bare t)
      | .ref _, some (.ref _ none) => (s, .none_)
      | _, _ => (s, .noattr)

inductive HErr | memory | name | value
deriving Repr, DecidableEq

inductive HVal where
 | num (v : Int)
 | dressed (j : Nat)
 | none_
deriving Repr

/-- one field of `_reinit_from_xobject` (`rec` re-initialises a freshly dressed part): a nested (non-reference) hybrid field gets
a fresh dressed instance at its inline location; pure-Python attributes and cached referents of the previously cached child are
taken over; a cached referent of a Ref field is kept only if the field still refers to it -/
def reinitStep (u : Universe) (rec : St → Nat → St) (i : Nat) (s : St) (fk : String × FKind) : St :=
  match fk.2 with
  | .nested c' =>
    let f := fk.1
    let x := s.inst i
    let old : Option Inst := (x.dressed.lookup f).map s.inst
    let oldpy := match old with
      | some o => o.py
      | none => []
    -- "preserve pure python attributes" copies every attribute the fresh object lacks: also the cached referents of
    -- the old object's REFERENCE fields (the fresh object has dressed its nested parts only)
    let oldRefs : List (String × Nat) := match old with
      | some o => o.dressed.filter fun e => match fkind (clsOf u c') e.1 with
          | some (.ref _) => true
          | _ => false
      | none => []
    let (j, s1) := s.addInst { cls := c', loc := x.loc.sub f, dressed := [], movable := true, py := oldpy }
    let s2 := rec s1 j
    -- `setattr(self, pyname, vv)`: goes through `__set__` with a dressed value at the same memory area: no copy, a new
    -- dressed object that takes over vv's attributes, is not movable, and is re-initialised from its xobject (which
    -- validates the reference caches it took over)
    let y := s2.inst j
    let (jn, s3) := s2.addInst { cls := c', loc := x.loc.sub f, dressed := y.dressed ++ oldRefs, movable := false, py := y.py }
    let s3 := rec s3 jn
    let x2 := s3.inst i
    s3.setInst i { x2 with dressed := (x2.dressed.filter (·.1 != f)) ++ [(f, jn)] }
  | .ref _ =>
    let f := fk.1
    -- a cached referent is kept only if the field still refers to it
    let x := s.inst i
    match x.dressed.lookup f with
    | some j =>
      let keep := match xread s.heap (x.loc.sub f) with
        | some (.ref _ (some t)) => t == (s.inst j).loc
        | _ => false
      if keep then s else s.setInst i { x with dressed := x.dressed.filter (·.1 != f) }
    | none => s
  | .num => s

/-- `_reinit_from_xobject`, recursively over the nested parts (fuel bounds the nesting depth) -/
def reinit (u : Universe) : Nat → St → Nat → St
 | 0, s, _ => s
 | fuel + 1, s, i => (clsOf u (s.inst i).cls).fields.foldl (reinitStep u (reinit u fuel) i) s

/-- `__set__` of a NESTED field with a dressed value: the data is copied into the in-line slot, a new dressed object takes over
the value's attributes, is not movable, and is re-initialised from its xobject -/
def hsetNested (u : Universe) (s : St) (i : Nat) (f : String) (c' : Nat) (j : Nat) : St :=
  let x := s.inst i
  let y := s.inst j
  -- copy the xobject data into the inline slot unless it is the same memory area
  let h1 := if y.loc == x.loc.sub f then s.heap else
    match xread s.heap y.loc with
    | some yv => let (yv', h') := copyVal 64 s.heap y.loc.buf x.loc.buf yv; xwrite h' (x.loc.sub f) yv'
    | none => s.heap
  -- a dressed version of the copy: same class, python data of the value, not movable
  let (jn, s1) := ({ s with heap := h1 } : St).addInst { cls := c', loc := x.loc.sub f, dressed := y.dressed, movable := false, py := y.py }
  -- the dressed parts taken over from the value still live in the value: dress the parts of the copy instead
  let s1 := reinit u 8 s1 jn
  let x1 := s1.inst i
  s1.setInst i { x1 with dressed := (x1.dressed.filter (·.1 != f)) ++ [(f, jn)] }

/-- `__set__` of a REFERENCE field with a dressed value: refused across buffers before anything is touched; otherwise the slot
refers to the value's object, which is cached and can no longer be moved -/
def hsetRef (u : Universe) (s : St) (i : Nat) (f : String) (c' : Nat) (j : Nat) : St × Option HErr :=
  let x := s.inst i
  let y := s.inst j
  let cur := xread s.heap (x.loc.sub f)
  let same := match cur with
    | some (.ref _ (some t)) => y.loc.buf == x.loc.buf && t == y.loc
    | _ => false
  if y.loc.buf != x.loc.buf then (s, some .memory)
  else
    let h1 : Heap := if same then s.heap else xwrite s.heap (x.loc.sub f) (.ref c' (some y.loc))
    let s1 : St := { s with heap := h1 }
    let x1 := s1.inst i
    let s2 := s1.setInst i { x1 with dressed := (x1.dressed.filter (·.1 != f)) ++ [(f, j)] }
    let y2 := s2.inst j
    (s2.setInst j { y2 with movable := false }, none)

/-- `_FieldOfDressed.__set__` -/
def hset (u : Universe) (s : St) (i : Nat) (py : String) (v : HVal) : St × Option HErr :=
  let x := s.inst i
  let c := clsOf u x.cls
  let f := xoName c py
  match fkind c f, v with
  | none, _ => (s, some .name)
  | some .num, .num n => ({ s with heap := xwrite s.heap (x.loc.sub f) (.num n) }, none)
  | some (.nested c'), .dressed j => (hsetNested u s i f c' j, none)
  | some (.ref c'), .dressed j => hsetRef u s i f c' j
  | some (.ref c'), .none_ =>
    let x1 := { x with dressed := x.dressed.filter (·.1 != f) }
    (({ s with heap := xwrite s.heap (x.loc.sub f) (.ref c' none) } : St).setInst i x1, none)
  | _, _ => (s, some .value)

/-- `HybridClass.copy(_buffer=dst)` -/
def hcopy (u : Universe) (s : St) (i : Nat) (dst : Nat) : Option (Nat × St) :=
  let x := s.inst i
  match xcopy s.heap x.loc dst with
  | some (l, h') =>
    let (j, s1) := ({ s with heap := h' } : St).addInst { cls := x.cls, loc := l, dressed := [], movable := true, py := [] }
    some (j, reinit u 8 s1 j)
  | none => none

/-- `HybridClass.move(_buffer=dst)` -/
def hmove (u : Universe) (s : St) (i : Nat) (dst : Nat) : St × Option HErr :=
  let x := s.inst i
  if !x.movable then (s, some .memory)
  else if hasRefs u 8 x.cls then (s, some .memory)
  else
    match xcopy s.heap x.loc dst with
    | some (l, h') =>
      let s1 := ({ s with heap := h' } : St).setInst i { x with loc := l }
      (reinit u 8 s1 i, none)
    | none => (s, some .value)

def defaultVal (u : Universe) : Nat → Nat → XV
 | 0, c => .struct c []
 | fuel + 1, c => .struct c ((clsOf u c).fields.map fun (f, k) =>
    match k with
    | .num => (f, .num 0)
    | .nested c' => (f, defaultVal u fuel c')
    | .ref c' => (f, .ref c' none))

/-- the xobject of a constructor call, `Struct(**xo_kwargs)` in the given buffer: plain numbers, copies of the data of dressed
values for nested fields, references to dressed values of the same buffer (copies of them otherwise), defaults elsewhere -/
def hnewHeap (u : Universe) (s : St) (cls buf : Nat) (kw : List (String × HVal)) : Loc × Heap :=
  let c := clsOf u cls
  let kwxo := kw.map fun (py, v) => (xoName c py, v)
  let (fields, h1) := c.fields.foldl (fun (acc : List (String × XV) × Heap) (f, k) =>
      match k, (kwxo.lookup f : Option HVal) with
      | .num, some (HVal.num n) => (acc.1 ++ [(f, .num n)], acc.2)
      | .num, _ => (acc.1 ++ [(f, .num 0)], acc.2)
      | .nested c', some (HVal.dressed j) =>
        (match xread acc.2 (s.inst j).loc with
         | some v => let (v', h') := copyVal 64 acc.2 (s.inst j).loc.buf buf v; (acc.1 ++ [(f, v')], h')
         | none => (acc.1 ++ [(f, defaultVal u 8 c')], acc.2))
      | .nested c', _ => (acc.1 ++ [(f, defaultVal u 8 c')], acc.2)
      | .ref c', some (HVal.dressed j) =>
        let y := s.inst j
        if y.loc.buf == buf then (acc.1 ++ [(f, .ref c' (some y.loc))], acc.2)
        else
          (match xcopy acc.2 y.loc buf with
           | some (l, h') => (acc.1 ++ [(f, .ref c' (some l))], h')
           | none => (acc.1 ++ [(f, .ref c' none)], acc.2))
      | .ref c', _ => (acc.1 ++ [(f, .ref c' none)], acc.2)) ([], s.heap)
  alloc h1 buf (.struct cls fields)

/-- `setattr(self, kk, vv)` for one dressed keyword argument (nothing after the first refusal) -/
def hnewSet (u : Universe) (i : Nat) (acc : St × Option HErr) (e : String × HVal) : St × Option HErr :=
  match acc.2, e.2 with
  | some _, _ => acc
  | none, .dressed _ => hset u acc.1 i e.1 e.2
  | none, _ => acc

/-- `HybridClass.__init__` / `xoinitialize` with keyword arguments -/
def hnew (u : Universe) (s : St) (cls buf : Nat) (kw : List (String × HVal)) : St × Except HErr Nat :=
  let lh := hnewHeap u s cls buf kw
  let is1 := ({ s with heap := lh.2 } : St).addInst { cls, loc := lh.1, dressed := [], movable := true, py := [] }
  -- setattr(self, kk, vv) for the dressed inputs
  let r := kw.foldl (hnewSet u is1.1) (is1.2, none)
  match r.2 with
  | some e => (r.1, .error e)
  | none => (reinit u 8 r.1 is1.1, .ok is1.1)

/-! ### histories -/

/-- an operation of a history on hybrid objects; instance arguments are indices of existing instances -/
inductive Op where
 | new (cls buf : Nat) (kw : List (String × HVal))
 | get (i : Nat) (py : String)
 | set (i : Nat) (py : String) (v : HVal)
 | copy (i dst : Nat)
 | move (i dst : Nat)
 | pyset (i : Nat) (k : String) (v : Int)

def HVal.ok (n : Nat) : HVal → Bool
 | .dressed j => j < n
 | _ => true

/-- one operation (operations naming an instance that does not exist do nothing) -/
def step (u : Universe) (s : St) : Op → St
 | .new cls buf kw => if kw.all (fun e => e.2.ok s.insts.length) then (hnew u s cls buf kw).1 else s
 | .get i py => if i < s.insts.length then (hget u s i py).1 else s
 | .set i py v => if i < s.insts.length && v.ok s.insts.length then (hset u s i py v).1 else s
 | .copy i dst => if i < s.insts.length then (match hcopy u s i dst with | some (_, s') => s' | none => s) else s
 | .move i dst => if i < s.insts.length then (hmove u s i dst).1 else s
 | .pyset i k v =>
    if i < s.insts.length then
      let x := s.inst i
      s.setInst i { x with py := (x.py.filter (·.1 != k)) ++ [(k, v)] }
    else s

def initSt : St := { heap := { roots := [], next := 0, ctxOf := fun _ => 0 }, insts := [] }

/-- the invariant of C18: every cached dressed child is the object the buffer data says is there -/
def Mirror (u : Universe) (s : St) : Prop :=
  ∀ i, i < s.insts.length → ∀ f j, (f, j) ∈ (s.inst i).dressed →
    match fkind (clsOf u (s.inst i).cls) f with
    | some (.nested _) => (s.inst j).loc = (s.inst i).loc.sub f
    | some (.ref _) => ∃ c, xread s.heap ((s.inst i).loc.sub f) = some (.ref c (some (s.inst j).loc))
    | _ => False

end Hyb
