import Xo.CGen
import Xo.Model.Layout
/-! the reference-free types of the C generator (names, scalar kinds) as types of the layout proof model (positional fields,
scalar widths); total and structural, executed by the `lay` driver and the subject of `ssize_toLay` -/
namespace Lay

mutual
/-- the layout-model type of a reference-free C-generator type (names dropped, scalar kinds by width) -/
def toLay : CGen.Ty → Option Ty
 | .scalar s => some (.scalar s.size)
 | .string => some .string
 | .struct _ fs => (toLayFields fs).map .struct
 | .array it sh ord => (toLay it).map fun i => .array i sh ord
 | .ref _ => none
 | .unionref _ _ => none
def toLayFields : List (String × CGen.Ty) → Option (List Ty)
 | [] => some []
 | (_, t) :: r =>
    match toLay t, toLayFields r with
    | some a, some b => some (a :: b)
    | _, _ => none
end

end Lay
