import Xo.CGen
import Xo.Model.Layout
/-! the reference-free types of the C generator (names, scalar kinds) as types of the layout proof model (positional fields,
scalar widths); total and structural, executed by the `lay` driver and the subject of `ssize_toLay` -/
namespace Lay

mutual
/-- the layout-model type of a reference-free C-generator type (names dropped, scalar kinds by width) -/
def toLay : CGen.Ty → Option Ty
 | .scalar s => some (.scalar s.size)
 | .string => some .string
 | .struct _ fs => (toLayFields fs).map .struct
 | .array it sh ord => (toLay it).map fun i => .array i sh ord
 | .ref _ => none
 | .unionref _ _ => none
def toLayFields : List (String × CGen.Ty) → Option (List Ty)
 | [] => some []
 | (_, t) :: r =>
    match toLay t, toLayFields r with
    | some a, some b => some (a :: b)
    | _, _ => none
end

mutual
/-- EVERY type of the C generator as a layout-model type: a reference slot is an opaque 8-byte word (the relative offset), a union
reference an opaque 16-byte word (relative offset + member index).  What the word MEANS depends on where the slot sits (C08); where it
sits, how large the enclosing object is and what surrounds it is pure layout - everything `Lay` proves applies. -/
def toLayR : CGen.Ty → Ty
 | .scalar s => .scalar s.size
 | .string => .string
 | .struct _ fs => .struct (toLayRFields fs)
 | .array it sh ord => .array (toLayR it) sh ord
 | .ref _ => .scalar 8
 | .unionref _ _ => .scalar 16
def toLayRFields : List (String × CGen.Ty) → List Ty
 | [] => []
 | (_, t) :: r => toLayR t :: toLayRFields r
end

mutual
/-- a value with every reference word blanked (used to compare what the proof model's reader decodes from the real bytes of an object
that holds references with the value it was constructed from: the words themselves are position dependent) -/
def maskRefs : CGen.Ty → Val → Val
 | .ref _, _ => .bits 0
 | .unionref _ _, _ => .bits 0
 | .struct _ fs, .struct vs => .struct (maskRefsFields fs vs)
 | .array it _ _, .arr sh items => .arr sh (maskRefsItems it items)
 | _, v => v
def maskRefsFields : List (String × CGen.Ty) → List Val → List Val
 | (_, t) :: r, v :: vs => maskRefs t v :: maskRefsFields r vs
 | _, vs => vs
def maskRefsItems : CGen.Ty → List Val → List Val
 | _, [] => []
 | t, v :: vs => maskRefs t v :: maskRefsItems t vs
end

mutual
/-- the first value with every reference word taken from the second (same structure) -/
def fillRefs : CGen.Ty → Val → Val → Val
 | .ref _, _, w => w
 | .unionref _ _, _, w => w
 | .struct _ fs, .struct vs, .struct ws => .struct (fillRefsFields fs vs ws)
 | .array it _ _, .arr sh items, .arr _ ws => .arr sh (fillRefsItems it items ws)
 | _, v, _ => v
def fillRefsFields : List (String × CGen.Ty) → List Val → List Val → List Val
 | (_, t) :: r, v :: vs, w :: ws => fillRefs t v w :: fillRefsFields r vs ws
 | _, vs, _ => vs
def fillRefsItems : CGen.Ty → List Val → List Val → List Val
 | t, v :: vs, w :: ws => fillRefs t v w :: fillRefsItems t vs ws
 | _, vs, _ => vs
end

end Lay
