import Xo.Model.Alloc
import Xo.Model.Refs
/-! Proof model of a HEAP OF NODES linked by references, inside ONE buffer (`ref.py`, `struct.py`, `context.py`).

A node class is a static struct whose fields are 8-byte scalars, `Ref[Class]` slots (8 bytes) and `UnionRef[Class, …]` slots
(16 bytes); a universe is a list of classes, a class is named by its index.  The state is the buffer (allocator state of
`Xo/Model/Alloc.lean` + bytes) and the list of what has been handed out: node objects (with their class) and raw regions.
The operations are exactly the histories property C08 quantifies over:

* `new`       construct a node (scalars given, every reference null)                        `N(f0=.., _buffer=b)`
* `bindObj`   bind a reference field to an object living in the same buffer (aliasing)       `h.fk = t`
* `bindVal`   bind it to plain data / an object of another buffer: a NEW node is constructed in the holder's buffer
* `bindNull`  bind it to nothing                                                             `h.fk = None`
* `setScal`   write a scalar field through the object's own handle
* `setVia`    write a scalar field of the referent THROUGH the reference (the address comes from the slot's bytes)
* `upd`       `h._update(t)`: every field of an existing node set from another node of the same class
* `copy`      copy-construct a node from a node of the same buffer: scalars copied, references re-bound to the SAME referents
* `alloc` / `grow`   other allocations and explicit growth (`allocate-until-growth`)

Objects are named by their address (what a Python handle holds).  Everything is total and executed by the driver (component
`rg`) against the real library. -/
namespace RG
open MemS Lay

inductive FK where
 | scal
 | ref (c : Nat)
 | uref (cs : List Nat)
deriving Repr, DecidableEq, Inhabited

abbrev Cls := List FK
abbrev Univ := List Cls

def FK.size : FK → Nat
 | .uref _ => 16
 | _ => 8

/-- `_size` of the struct class: fields are laid out one after the other (all sizes are multiples of 8) -/
def csize : Cls → Nat
 | [] => 0
 | f :: r => f.size + csize r

/-- class-level offset of field `k` -/
def foff : Cls → Nat → Nat
 | [], _ => 0
 | _ :: _, 0 => 0
 | f :: r, k + 1 => f.size + foff r k

structure Ent where
  addr : Nat
  size : Nat
  cls : Option Nat          -- `none`: a raw allocation
deriving Repr, DecidableEq, Inhabited

structure St where
  b : Alloc.Buf
  live : List Ent           -- newest first

/-- bytes of a freshly constructed node: scalars from `vs` (missing ones 0), references null -/
def initBytes : Cls → List Nat → List UInt8
 | [], _ => []
 | .scal :: r, vs => le 8 (vs.headD 0) ++ initBytes r vs.tail
 | .ref _ :: r, vs => refNullBytes ++ initBytes r vs
 | .uref _ :: r, vs => urefNullBytes ++ initBytes r vs

def wr (s : St) (a : Nat) (bs : List UInt8) : St := { s with b := { s.b with mem := writeAt s.b.mem a bs } }

/-- the node object a handle with address `a` denotes -/
def findObj (s : St) (a : Nat) : Option Ent := s.live.find? fun e => e.addr == a && e.cls.isSome

/-- kind and address of field `k` of a live entry -/
def fieldAt (u : Univ) (e : Ent) (k : Nat) : Option (FK × Nat) :=
  match e.cls with
  | none => none
  | some c =>
    match u[c]? with
    | none => none
    | some cl =>
      match cl[k]? with
      | none => none
      | some fk => some (fk, e.addr + foff cl k)

/-- `Struct.__init__`: allocate `_size` bytes (aligned), write every field -/
def newObj (u : Univ) (s : St) (c : Nat) (vs : List Nat) : St × Option Nat :=
  match u[c]? with
  | none => (s, none)
  | some cl =>
    match s.b.allocate (csize cl) true with
    | none => (s, none)
    | some (o, b') =>
      ({ b := { b' with mem := writeAt b'.mem o (initBytes cl vs) }, live := ⟨o, csize cl, some c⟩ :: s.live }, some o)

/-- `Ref._to_buffer` / `UnionRef._to_buffer` for an object of the holder's buffer: same class name (member, first match) → the
relative offset (and the member index) is stored; nothing is allocated.  Other classes are not generated (state unchanged). -/
def bindObj (u : Univ) (s : St) (ha k ta : Nat) : St :=
  match findObj s ha, findObj s ta with
  | some h, some t =>
    match fieldAt u h k, t.cls with
    | some (.ref c, a), some tc => if tc = c then wr s a (refBytes a t.addr) else s
    | some (.uref cs, a), some tc => if tc ∈ cs then wr s a (urefBytes a t.addr (cs.idxOf tc)) else s
    | _, _ => s
  | _, _ => s

def bindNull (u : Univ) (s : St) (ha k : Nat) : St :=
  match findObj s ha with
  | some h =>
    match fieldAt u h k with
    | some (.ref _, a) => wr s a refNullBytes
    | some (.uref _, a) => wr s a urefNullBytes
    | _ => s
  | none => s

/-- plain data (or an object of another buffer): `newobj = reftype(value, _buffer=buffer)` first, then the offset is stored -/
def bindVal (u : Univ) (s : St) (ha k c : Nat) (vs : List Nat) : St :=
  match findObj s ha with
  | some h =>
    match fieldAt u h k with
    | some (.ref c', a) =>
      if c = c' then
        match newObj u s c vs with
        | (s1, some o) => wr s1 a (refBytes a o)
        | (_, none) => s
      else s
    | some (.uref cs, a) =>
      if c ∈ cs then
        match newObj u s c vs with
        | (s1, some o) => wr s1 a (urefBytes a o (cs.idxOf c))
        | (_, none) => s
      else s
    | _ => s
  | none => s

def setScal (u : Univ) (s : St) (ha k v : Nat) : St :=
  match findObj s ha with
  | some h =>
    match fieldAt u h k with
    | some (.scal, a) => wr s a (le 8 v)
    | _ => s
  | none => s

/-- class of the referent as the READER determines it: the declared class of a `Ref`, the member named by the stored index of a
`UnionRef` -/
def refClass (s : St) (fk : FK) (a : Nat) : Option Nat :=
  match fk with
  | .scal => none
  | .ref c => some c
  | .uref cs => let i := memberIdx s.b.mem a; if 0 ≤ i then cs[i.toNat]? else none

/-- `h.fk.fj = v`: the referent's address is decoded from the slot, the field offset comes from the referent's class -/
def setVia (u : Univ) (s : St) (ha k j v : Nat) : St :=
  match findObj s ha with
  | some h =>
    match fieldAt u h k with
    | some (fk, a) =>
      match deref s.b.mem a, refClass s fk a with
      | some t, some c =>
        match u[c]? with
        | some cl => if cl[j]? = some .scal then wr s (t + foff cl j) (le 8 v) else s
        | none => s
      | _, _ => s
    | none => s
  | none => s

/-- what copy construction writes for one field: `value[field.name]` is read from the source (a number, `None`, or the referent as
an object of the same buffer) and written by the field type - a reference is RE-ENCODED relative to the new slot (same referent) -/
def copyField (s : St) (fk : FK) (sa da : Nat) : List UInt8 :=
  match fk with
  | .scal => le 8 (fromLE (readAt s.b.mem sa 8))
  | .ref _ => match deref s.b.mem sa with
    | none => refNullBytes
    | some t => refBytes da t
  | .uref cs => match deref s.b.mem sa, refClass s fk sa with
    | some t, some c => urefBytes da t (cs.idxOf c)
    | _, _ => urefNullBytes

def copyBytesF (s : St) : Cls → Nat → Nat → List UInt8
 | [], _, _ => []
 | fk :: r, sa, da => copyField s fk sa da ++ copyBytesF s r (sa + fk.size) (da + fk.size)

/-- `Cls(h, _buffer=b)` for a node `h` of the same buffer: allocate, then write every field from the source's -/
def copyObj (u : Univ) (s : St) (ha : Nat) : St × Option Nat :=
  match findObj s ha with
  | none => (s, none)
  | some h =>
    match h.cls with
    | none => (s, none)
    | some c =>
      match u[c]? with
      | none => (s, none)
      | some cl =>
        match s.b.allocate (csize cl) true with
        | none => (s, none)
        | some (o, b') =>
          ({ b := { b' with mem := writeAt b'.mem o (copyBytesF { b := b', live := s.live } cl h.addr o) },
             live := ⟨o, csize cl, some c⟩ :: s.live }, some o)

/-- `h._update(t)` (also what assigning a node to a nested node field does) for two nodes of the same class in the buffer: every
field of `h` is set from the corresponding field of `t`; nothing is allocated -/
def updObj (u : Univ) (s : St) (ha ta : Nat) : St :=
  match findObj s ha, findObj s ta with
  | some h, some t =>
    match h.cls, t.cls with
    | some c, some c' =>
      if c = c' then
        match u[c]? with
        | some cl => wr s h.addr (copyBytesF s cl t.addr h.addr)
        | none => s
      else s
    | _, _ => s
  | _, _ => s

def rawAlloc (s : St) (n : Nat) (al : Bool) : St :=
  match s.b.allocate n al with
  | some (o, b') => { b := b', live := ⟨o, n, none⟩ :: s.live }
  | none => s

inductive Op where
 | new (c : Nat) (vs : List Nat)
 | bindObj (h k t : Nat)
 | bindNull (h k : Nat)
 | bindVal (h k c : Nat) (vs : List Nat)
 | setScal (h k v : Nat)
 | setVia (h k j v : Nat)
 | copy (h : Nat)
 | upd (h t : Nat)
 | alloc (n : Nat) (al : Bool)
 | grow (n : Nat)
deriving Repr

def step (u : Univ) (s : St) : Op → St
 | .new c vs => (newObj u s c vs).1
 | .bindObj h k t => bindObj u s h k t
 | .bindNull h k => bindNull u s h k
 | .bindVal h k c vs => bindVal u s h k c vs
 | .setScal h k v => setScal u s h k v
 | .setVia h k j v => setVia u s h k j v
 | .copy h => (copyObj u s h).1
 | .upd h t => updObj u s h t
 | .alloc n al => rawAlloc s n al
 | .grow n => { s with b := s.b.grow n }

def initSt (cap align : Nat) (gs : Option Nat) : St :=
  { b := { a := Alloc.init cap align gs, mem := List.replicate cap 0 }, live := [] }

/-- what a reader sees in a reference slot: the referent's address (or null) and, for a union reference, the member index -/
def readRef (s : St) (fk : FK) (a : Nat) : Option Nat × Int :=
  (deref s.b.mem a, match fk with | .uref _ => memberIdx s.b.mem a | _ => 0)

end RG
