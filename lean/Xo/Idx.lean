namespace IdxSpike
def ndindex : List Nat → List (List Nat)
 | [] => [[]]
 | d :: ds => (List.range d).flatMap fun i => (ndindex ds).map (i :: ·)

def prod : List Nat → Nat
 | [] => 1
 | d :: ds => d * prod ds

def cstrides : List Nat → List Nat
 | [] => []
 | _ :: ds => prod ds :: cstrides ds

def dotp : List Nat → List Nat → Nat
 | i :: is, s :: ss => i * s + dotp is ss
 | _, _ => 0

theorem range_blocks (d m : Nat) :
    (List.range d).flatMap (fun i => (List.range m).map (i * m + ·)) = List.range (d * m) := by
  induction d with
  | zero => simp
  | succ n ih =>
    rw [List.range_succ, List.flatMap_append, ih]
    simp only [List.flatMap_singleton]
    rw [Nat.succ_mul, List.range_add]

/-- enumerating index tuples in memory order visits C offsets 0,1,2,… in order -/
theorem ndindex_rank (sh : List Nat) :
    (ndindex sh).map (dotp · (cstrides sh)) = List.range (prod sh) := by
  induction sh with
  | nil => simp [ndindex, dotp, cstrides, prod, List.range_succ]
  | cons d ds ih =>
    simp only [ndindex, cstrides, prod, List.map_flatMap, List.map_map]
    rw [← range_blocks]
    congr 1; funext i
    have : ((fun x => dotp x (prod ds :: cstrides ds)) ∘ fun x => i :: x)
         = (fun r => i * prod ds + r) ∘ (dotp · (cstrides ds)) := by
      funext x; simp [dotp]
    rw [this, ← List.map_map, ih]
#print axioms ndindex_rank
end IdxSpike
