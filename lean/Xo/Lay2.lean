import Xo.Lay
namespace Lay
open MemS

/-- every patch lies entirely outside [lo,hi) -/
def Outside (ps : List Patch) (lo hi : Nat) : Prop := ∀ p ∈ ps, p.1 + p.2.length ≤ lo ∨ hi ≤ p.1

theorem outside_of_within {ps : List Patch} {a b lo hi : Nat} (h : Within ps a b) (hd : b ≤ lo ∨ hi ≤ a) :
    Outside ps lo hi := by
  intro p hp; have := h p hp; omega

theorem outside_append {a b : List Patch} {lo hi : Nat} (ha : Outside a lo hi) (hb : Outside b lo hi) :
    Outside (a ++ b) lo hi := by
  intro p hp
  rcases List.mem_append.mp hp with h | h
  · exact ha p h
  · exact hb p h

def InBounds (ps : List Patch) (n : Nat) : Prop := ∀ p ∈ ps, p.1 + p.2.length ≤ n

theorem inBounds_of_within {ps : List Patch} {a b n : Nat} (h : Within ps a b) (hb : b ≤ n) : InBounds ps n := by
  intro p hp; have := h p hp; omega

theorem inBounds_append {a b : List Patch} {n : Nat} (ha : InBounds a n) (hb : InBounds b n) : InBounds (a ++ b) n := by
  intro p hp
  rcases List.mem_append.mp hp with h | h
  · exact ha p h
  · exact hb p h

theorem apply_length (ps : List Patch) : ∀ (m : Mem), InBounds ps m.length → (apply ps m).length = m.length := by
  induction ps with
  | nil => intro m _; rfl
  | cons p ps ih =>
    intro m h
    have hp := h p (by simp)
    have hl := length_writeAt m p.1 p.2 hp
    simp only [apply, List.foldl_cons]
    have := ih (writeAt m p.1 p.2) (by intro q hq; rw [hl]; exact h q (by simp [hq]))
    simp only [apply] at this
    rw [this, hl]

/-- patches that stay outside [lo,hi) do not change any byte of [lo,hi) -/
theorem apply_outside (ps : List Patch) : ∀ (m : Mem) (lo hi : Nat), Outside ps lo hi → InBounds ps m.length →
    Agree (apply ps m) m lo hi := by
  induction ps with
  | nil => intro m lo hi _ _ i _ _; rfl
  | cons p ps ih =>
    intro m lo hi ho hb i h1 h2
    have hp := hb p (by simp)
    have hl := length_writeAt m p.1 p.2 hp
    simp only [apply, List.foldl_cons]
    have := ih (writeAt m p.1 p.2) lo hi (fun q hq => ho q (by simp [hq]))
      (by intro q hq; rw [hl]; exact hb q (by simp [hq])) i h1 h2
    simp only [apply] at this
    rw [this, getElem?_writeAt _ _ _ hp]
    have := ho p (by simp)
    have : ¬ (p.1 ≤ i ∧ i < p.1 + p.2.length) := by omega
    simp [this]

/-- the part lemma: in `pre ++ P ++ post`, if `post` stays outside the part's region then on that region
    the final memory is what `P` wrote -/
theorem agree_part (pre P post : List Patch) (m : Mem) (lo hi : Nat)
    (hpre : InBounds pre m.length) (hP : InBounds P m.length) (hpost : InBounds post m.length)
    (ho : Outside post lo hi) :
    Agree (apply (pre ++ P ++ post) m) (apply P (apply pre m)) lo hi := by
  rw [apply_append, apply_append]
  have l1 := apply_length pre m hpre
  have l2 := apply_length P (apply pre m) (by rw [l1]; exact hP)
  exact apply_outside post _ lo hi ho (by rw [l2, l1]; exact hpost)
end Lay
