import Xo.Model.BufPrim
import Xo.Lemmas.Mem
/-! C13 — CPU buffer copy primitives move exactly the requested bytes (property theorems only).
All statements hold for every capacity, every offset/length inside it, every source. -/
namespace BufPrim
open MemS

/-- **splice**: a successful slice assignment yields `prefix ++ src ++ suffix`: exactly `src.length` bytes at `off`
are replaced by exactly `src`, the length is unchanged -/
theorem C13_splice (m : Mem) (off : Nat) (src : List UInt8) (m' : Mem) (h : assign m off src = .ok m') :
    m' = m.take off ++ src ++ m.drop (off + src.length) ∧ m'.length = m.length ∧
    readAt m' off src.length = src := by
  unfold assign at h
  split at h
  · rename_i hb
    injection h with h; subst h
    exact ⟨rfl, length_writeAt m off src hb, readAt_writeAt_same m off src hb⟩
  · cases h

/-- **frame**: every byte outside `[off, off+len)` is untouched -/
theorem C13_frame (m : Mem) (off : Nat) (src : List UInt8) (m' : Mem) (h : assign m off src = .ok m')
    (j : Nat) (hj : j < off ∨ off + src.length ≤ j) : m'[j]? = m[j]? := by
  unfold assign at h
  split at h
  · rename_i hb
    injection h with h; subst h
    rw [getElem?_writeAt m off src hb j]
    have : ¬ (off ≤ j ∧ j < off + src.length) := by omega
    simp [this]
  · cases h

/-- a request inside capacity never fails (and one outside is refused, not truncated) -/
theorem C13_total (m : Mem) (off : Nat) (src : List UInt8) :
    (off + src.length ≤ m.length → ∃ m', assign m off src = .ok m') ∧
    (m.length < off + src.length → assign m off src = .error .value) := by
  constructor
  · intro h; exact ⟨writeAt m off src, by simp [assign, h]⟩
  · intro h; simp [assign]; omega

theorem slice_length (m : Mem) (so n : Nat) (h : so + n ≤ m.length) : (slice m so n).length = n := by
  simp [slice, readAt]; omega

/-- **update_from_native / copy_to_native / update_from_buffer**: exactly `n` bytes, taken from `[so, so+n)` of the source,
land at `[off, off+n)`; all other destination bytes and the length are unchanged -/
theorem C13_update_from_native (m source : Mem) (off so n : Nat) (m' : Mem)
    (h : updateFromNative m off source so n = .ok m') :
    readAt m' off n = readAt source so n ∧ m'.length = m.length ∧
    (∀ j, j < off ∨ off + n ≤ j → m'[j]? = m[j]?) := by
  unfold updateFromNative at h
  split at h
  · rename_i hb
    have hl := slice_length source so n hb.1
    obtain ⟨_, h2, h3⟩ := C13_splice m off _ m' h
    refine ⟨?_, h2, ?_⟩
    · rw [hl] at h3; exact h3
    · intro j hj; exact C13_frame m off _ m' h j (by rw [hl]; exact hj)
  · cases h

theorem C13_copy_to_native (m dest : Mem) (doff soff n : Nat) (dest' : Mem)
    (h : copyToNative m dest doff soff n = .ok dest') :
    readAt dest' doff n = readAt m soff n ∧ dest'.length = dest.length ∧
    (∀ j, j < doff ∨ doff + n ≤ j → dest'[j]? = dest[j]?) := by
  have : updateFromNative dest doff m soff n = .ok dest' := by
    simpa [copyToNative, updateFromNative] using h
  exact C13_update_from_native dest m doff soff n dest' this

/-- **update_from_xbuffer**: the two dispatch branches (same context: native copy; other context: through a bytearray)
produce the same bytes -/
theorem C13_xbuffer_same (m source : Mem) (off so n : Nat) :
    updateFromXbuffer true m off source so n = updateFromXbuffer false m off source so n := by
  simp only [updateFromXbuffer, updateFromNative, updateFromBuffer, toBytearray, Bool.false_eq_true, ↓reduceIte]
  by_cases h1 : so + n ≤ source.length
  · by_cases h2 : off + n ≤ m.length
    · simp [h1, h2]
    · have hl := slice_length source so n h1
      simp [h1, h2, assign, hl]
  · simp [h1]

/-- **self overlap**: copying inside one buffer moves the OLD contents of the source range, also when the ranges overlap -/
theorem C13_self_overlap (m : Mem) (off so n : Nat) (m' : Mem) (h : updateFromSelf m off so n = .ok m') :
    readAt m' off n = readAt m so n ∧ m'.length = m.length :=
  let r := C13_update_from_native m m off so n m' h
  ⟨r.1, r.2.1⟩

/-- **extracted copies are independent**: what `to_native` / `to_bytearray` returned is a value; a later write to the
buffer changes the buffer, not the copy (and the copy holds exactly the requested bytes) -/
theorem C13_copy_independent (m : Mem) (off n : Nat) (h : off + n ≤ m.length) (off2 : Nat) (src : List UInt8) (m' : Mem)
    (_ : assign m off2 src = .ok m') :
    toNative m off n = readAt m off n ∧ toBytearray m off n = readAt m off n ∧ (toNative m off n).length = n :=
  ⟨rfl, rfl, slice_length m off n h⟩

/-- **typed views alias the buffer**: writing element `i` through the view is a write of the buffer bytes it covers, seen
by the view and by a fresh read of the buffer; the other elements and every byte outside the element are unchanged -/
theorem C13_view_aliases (m : Mem) (v : View) (hv : v.off + v.w * v.count ≤ m.length) (i : Nat) (hi : i < v.count)
    (bs : List UInt8) (hb : bs.length = v.w) :
    v.get (v.set m i bs) i = bs ∧
    (∀ k, k ≠ i → v.get (v.set m i bs) k = v.get m k) ∧
    (∀ j, j < v.off + i * v.w ∨ v.off + i * v.w + v.w ≤ j → (v.set m i bs)[j]? = m[j]?) ∧
    (v.set m i bs).length = m.length := by
  have hin : v.off + i * v.w + bs.length ≤ m.length := by
    have : i * v.w + v.w ≤ v.w * v.count := by
      have := Nat.mul_le_mul_left v.w (Nat.succ_le_of_lt hi)
      rw [Nat.mul_succ] at this
      rw [Nat.mul_comm i v.w]; exact this
    omega
  refine ⟨?_, ?_, ?_, ?_⟩
  · unfold View.get View.set
    have := readAt_writeAt_same m (v.off + i * v.w) bs hin
    rwa [hb] at this
  · intro k hk
    unfold View.get View.set
    apply readAt_writeAt_disj m _ bs hin
    rw [hb]
    rcases Nat.lt_or_gt_of_ne hk with h | h
    · left
      have : k * v.w + v.w ≤ i * v.w := by
        have := Nat.mul_le_mul_right v.w (Nat.succ_le_of_lt h)
        rwa [Nat.succ_mul] at this
      omega
    · right
      have : i * v.w + v.w ≤ k * v.w := by
        have := Nat.mul_le_mul_right v.w (Nat.succ_le_of_lt h)
        rwa [Nat.succ_mul] at this
      omega
  · intro j hj
    unfold View.set
    rw [getElem?_writeAt m _ bs hin j]
    have : ¬ (v.off + i * v.w ≤ j ∧ j < v.off + i * v.w + bs.length) := by omega
    simp [this]
  · exact length_writeAt m _ bs hin

/-- a buffer write is seen through an existing view (the view holds no bytes of its own) -/
theorem C13_view_sees_writes (m : Mem) (v : View) (i : Nat) (off : Nat) (src : List UInt8) (m' : Mem)
    (_ : assign m off src = .ok m') : v.get m' i = readAt m' (v.off + i * v.w) v.w := rfl

theorem encodeElems_length (dw : Nat) (elems : List Nat) : (encodeElems dw elems).length = dw * elems.length := by
  induction elems with
  | nil => simp [encodeElems]
  | cons e es ih =>
    simp only [encodeElems, List.flatMap_cons, List.length_append, le_length] at ih ⊢
    rw [ih, List.length_cons, Nat.mul_succ]; omega

/-- **update_from_nplike**: exactly `dw * count` bytes are written at `off` - the converted elements in logical order,
`dw` bytes each, little endian - and nothing else changes -/
theorem C13_update_from_nplike (m : Mem) (off dw : Nat) (conv : Nat → Nat) (elems : List Nat) (m' : Mem)
    (h : updateFromNplike m off dw conv elems = .ok m') :
    readAt m' off (dw * elems.length) = encodeElems dw (elems.map conv) ∧ m'.length = m.length ∧
    (∀ j, j < off ∨ off + dw * elems.length ≤ j → m'[j]? = m[j]?) := by
  have hl : (encodeElems dw (elems.map conv)).length = dw * elems.length := by
    rw [encodeElems_length, List.length_map]
  obtain ⟨_, h2, h3⟩ := C13_splice m off _ m' h
  refine ⟨?_, h2, ?_⟩
  · rw [hl] at h3; exact h3
  · intro j hj; exact C13_frame m off _ m' h j (by rw [hl]; exact hj)

/-- integer `astype` to the same width is the identity on bit patterns below `2^(8w)` -/
theorem C13_conv_same_width (w : Nat) (bits : Nat) (hb : bits < 2 ^ (8 * w)) :
    convInt w false w bits = bits := by
  unfold convInt
  simp only [Bool.false_eq_true, false_and, ↓reduceIte]
  have : ((bits : Int) % (2 ^ (8 * w) : Int)) = bits := by
    apply Int.emod_eq_of_lt (by omega)
    exact_mod_cast hb
  rw [this]; simp

/-! non-vacuity -/
example : updateFromSelf [1, 2, 3, 4, 5, 6] 1 0 4 = .ok [1, 1, 2, 3, 4, 6] := by rfl
example : updateFromXbuffer false [9, 9, 9, 9] 1 [1, 2, 3] 1 2 = .ok [9, 2, 3, 9] := by rfl
example : convInt 1 true 2 0xFF = 0xFFFF ∧ convInt 2 false 1 0x1234 = 0x34 := by decide

end BufPrim
