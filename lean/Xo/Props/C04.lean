import Xo.Lemmas.Alloc2
import Xo.Lemmas.Mem
/-!
# C04 — live allocations never overlap, stay in bounds, stay aligned, keep their data

Property theorems only.  Model: `Xo/Model/Alloc.lean` (`XBuffer.allocate/grow/free`) with the
storage of `Alloc.Buf`.  Quantifiers: every initial capacity, every power-of-two default
alignment, every `grow_step`, every finite history of allocate / free (of a live region) /
grow / write (into a live region) — no bound on sizes, counts or lengths.
-/
namespace Alloc
open MemS

abbrev Region := Nat × Nat      -- (offset, size)
def Region.Has (r : Region) (x : Nat) : Prop := r.1 ≤ x ∧ x < r.1 + r.2
def Disjoint (r q : Region) : Prop := ∀ x, ¬ (r.Has x ∧ q.Has x)

theorem Disjoint.symm {r q : Region} (h : Disjoint r q) : Disjoint q r := fun x hx => h x ⟨hx.2, hx.1⟩

/-- the invariant: well-formed separated free list inside the capacity; live regions inside the
    capacity, pairwise disjoint, and sharing no byte with the free list -/
structure Inv (s : AState) (live : List Region) : Prop where
  wf : WF s
  pow2 : ∃ k, s.align = 2^k
  inb : ∀ r ∈ live, r.1 + r.2 ≤ s.capacity
  notfree : ∀ r ∈ live, ∀ x, r.Has x → ¬ InFree s.chunks x
  disj : live.Pairwise Disjoint

theorem allocF_fields : ∀ (fuel : Nat) (s : AState) (size a o : Nat) (s' : AState),
    allocF fuel s size a = some (o, s') → s'.align = s.align ∧ s'.growStep = s.growStep
 | 0, _, _, _, _, _, h => by simp [allocF] at h
 | fuel+1, s, size, a, o, s', h => by
    simp only [allocF] at h
    split at h
    · simp only [Option.some.injEq, Prod.mk.injEq] at h
      obtain ⟨_, rfl⟩ := h; exact ⟨rfl, rfl⟩
    · have := allocF_fields fuel _ size a o s' h
      simpa [grow] using this

theorem alignOf_pow2 {s : AState} {live : List Region} (h : Inv s live) (aligned : Bool) :
    ∃ k, alignOf s aligned = 2^k := by
  unfold alignOf
  cases aligned
  · exact ⟨0, rfl⟩
  · exact h.pow2

theorem init_inv (cap k : Nat) (gs : Option Nat) : Inv (init cap (2^k) gs) [] where
  wf := by simp [WF, init, Sorted]
  pow2 := ⟨k, rfl⟩
  inb := by intro r hr; simp at hr
  notfree := by intro r hr; simp at hr
  disj := List.Pairwise.nil

/-- **allocate**: the region handed out is inside the (possibly enlarged) capacity, starts at a
    multiple of the requested alignment, is disjoint from every live region, and the invariant
    holds with the region added; capacity never shrinks. -/
theorem C04_alloc (s : AState) (live : List Region) (size : Nat) (aligned : Bool) (o : Nat) (s' : AState)
    (hinv : Inv s live) (h : allocate s size aligned = some (o, s')) :
    o + size ≤ s'.capacity ∧ o % alignOf s aligned = 0 ∧ s.capacity ≤ s'.capacity ∧
    (∀ r ∈ live, Disjoint (o, size) r) ∧ Inv s' ((o, size) :: live) := by
  obtain ⟨k, hk⟩ := alignOf_pow2 hinv aligned
  unfold allocate at h
  rw [hk] at h ⊢
  obtain ⟨q1, q2, q3, q4, q5, q6⟩ := allocF_spec size k _ s o s' hinv.wf h
  obtain ⟨f1, _⟩ := allocF_fields _ s size _ o s' h
  have hd : ∀ r ∈ live, Disjoint (o, size) r := by
    intro r hr x ⟨hx1, hx2⟩
    rcases q5 x hx1.1 hx1.2 with hf | hc
    · exact hinv.notfree r hr x hx2 hf
    · have := hinv.inb r hr; unfold Region.Has at hx2; omega
  refine ⟨q4, q3, q2, hd, ?_⟩
  exact {
    wf := q1
    pow2 := by rw [f1]; exact hinv.pow2
    inb := by
      intro r hr
      rcases List.mem_cons.mp hr with rfl | hm
      · exact q4
      · have := hinv.inb r hm; omega
    notfree := by
      intro r hr x hx hfree
      obtain ⟨e1, e2⟩ := q6 x hfree
      rcases List.mem_cons.mp hr with rfl | hm
      · exact e2 hx
      · rcases e1 with hf | hc
        · exact hinv.notfree r hm x hx hf
        · have := hinv.inb r hm; unfold Region.Has at hx; omega
    disj := List.pairwise_cons.mpr ⟨hd, hinv.disj⟩ }

theorem pairwise_erase_rel {α : Type} [BEq α] [LawfulBEq α] {R : α → α → Prop} (hs : ∀ a b, R a b → R b a) :
    ∀ (l : List α) (r : α), l.Pairwise R → r ∈ l → ∀ q ∈ l.erase r, R q r
 | [], _, _, hr, _, _ => by simp at hr
 | a :: t, r, hp, hr, q, hq => by
    obtain ⟨h1, h2⟩ := List.pairwise_cons.mp hp
    by_cases hae : a = r
    · subst hae
      rw [List.erase_cons_head] at hq
      exact hs _ _ (h1 q hq)
    · have hrt : r ∈ t := by
        rcases List.mem_cons.mp hr with h | h
        · exact absurd h.symm hae
        · exact h
      rw [List.erase_cons_tail (by simpa using hae)] at hq
      rcases List.mem_cons.mp hq with rfl | hm
      · exact h1 r hrt
      · exact pairwise_erase_rel hs t r h2 hrt q hm

/-- **free** of a live region keeps the invariant for the remaining live regions -/
theorem C04_free (s : AState) (live : List Region) (r : Region) (hinv : Inv s live) (hr : r ∈ live) :
    Inv (free s r.1 r.2) (live.erase r) := by
  have hfs := free_spec s.chunks 0 s.capacity r.1 r.2 hinv.wf (Nat.zero_le _) (hinv.inb r hr)
  exact {
    wf := hfs.1
    pow2 := hinv.pow2
    inb := fun q hq => hinv.inb q (List.mem_of_mem_erase hq)
    notfree := by
      intro q hq x hx hfree
      rcases (hfs.2 x).mp hfree with hf | hreg
      · exact hinv.notfree q (List.mem_of_mem_erase hq) x hx hf
      · exact pairwise_erase_rel (fun _ _ h => Disjoint.symm h) live r hinv.disj hr q hq x ⟨hx, hreg⟩
    disj := hinv.disj.sublist List.erase_sublist }

/-- **grow** keeps the invariant -/
theorem C04_grow (s : AState) (live : List Region) (n : Nat) (hinv : Inv s live) : Inv (grow s n) live := by
  have hg := grow_spec s.capacity n s.chunks 0 (Nat.zero_le _) hinv.wf
  exact {
    wf := hg.1
    pow2 := hinv.pow2
    inb := fun q hq => by have := hinv.inb q hq; simp only [grow]; omega
    notfree := by
      intro q hq x hx hfree
      rcases (hg.2 x).mp hfree with hf | hnew
      · exact hinv.notfree q hq x hx hf
      · have := hinv.inb q hq; unfold Region.Has at hx; omega
    disj := hinv.disj }

/-! ### histories, with the bytes -/

inductive Op where
 | alloc (size : Nat) (aligned : Bool)
 | free (i : Nat)                       -- free the i-th live region
 | grow (n : Nat)
 | write (i : Nat) (bs : List UInt8)    -- store bytes into the i-th live region (ignored unless they fill it)

/-- buffer + ghost state: the live regions, each with the bytes last stored in it -/
structure G where
  b : Buf
  live : List (Region × List UInt8)

def G.regions (g : G) : List Region := g.live.map (·.1)

def G.init (cap align : Nat) (gs : Option Nat) : G :=
  { b := { a := Alloc.init cap align gs, mem := List.replicate cap 0 }, live := [] }

def G.step (g : G) : Op → G
 | .alloc size al =>
    match g.b.allocate size al with
    | some (o, b') => { b := b', live := ((o, size), readAt b'.mem o size) :: g.live }
    | none => g
 | .free i =>
    match g.live[i]? with
    | some e => { b := g.b.free e.1.1 e.1.2, live := g.live.eraseIdx i }
    | none => g
 | .grow n => { g with b := g.b.grow n }
 | .write i bs =>
    match g.live[i]? with
    | some e => if bs.length = e.1.2 then
        { b := { g.b with mem := writeAt g.b.mem e.1.1 bs }, live := g.live.set i (e.1, bs) } else g
    | none => g

/-- what holds of every reachable state -/
structure GInv (g : G) : Prop where
  inv : Inv g.b.a g.regions
  mem : g.b.MemOK
  data : ∀ e ∈ g.live, readAt g.b.mem e.1.1 e.1.2 = e.2

theorem readAt_congr (m m' : Mem) (off n : Nat) (h : ∀ i, off ≤ i → i < off + n → m'[i]? = m[i]?) :
    readAt m' off n = readAt m off n := by
  apply List.ext_getElem?
  intro i
  rw [getElem?_readAt, getElem?_readAt]
  by_cases hi : i < n
  · simp only [hi, if_true]; exact h _ (by omega) (by omega)
  · simp [hi]

theorem eraseIdx_regions (l : List (Region × List UInt8)) (i : Nat) :
    (l.eraseIdx i).map (·.1) = (l.map (·.1)).eraseIdx i := by
  induction l generalizing i with
  | nil => simp
  | cons a t ih => cases i <;> simp [ih]

theorem pairwise_eraseIdx_rel {α : Type} {R : α → α → Prop} (hs : ∀ a b, R a b → R b a) :
    ∀ (l : List α) (i : Nat) (r : α), l.Pairwise R → l[i]? = some r → ∀ q ∈ l.eraseIdx i, R q r
 | [], _, _, _, hr, _, _ => by simp at hr
 | a :: t, 0, r, hp, hr, q, hq => by
    simp at hr; subst hr
    simp at hq
    exact hs _ _ ((List.pairwise_cons.mp hp).1 q hq)
 | a :: t, i+1, r, hp, hr, q, hq => by
    obtain ⟨h1, h2⟩ := List.pairwise_cons.mp hp
    simp at hr
    simp at hq
    rcases hq with rfl | hm
    · exact h1 r (List.mem_of_getElem? hr)
    · exact pairwise_eraseIdx_rel hs t i r h2 hr q hm

/-- free by position (the same region may be listed twice when its size is zero) -/
theorem inv_free_idx (s : AState) (live : List Region) (i : Nat) (r : Region) (hinv : Inv s live)
    (hr : live[i]? = some r) : Inv (free s r.1 r.2) (live.eraseIdx i) := by
  have hmem : r ∈ live := List.mem_of_getElem? hr
  have hfs := free_spec s.chunks 0 s.capacity r.1 r.2 hinv.wf (Nat.zero_le _) (hinv.inb r hmem)
  have hsub : (live.eraseIdx i).Sublist live := List.eraseIdx_sublist _ _
  exact {
    wf := hfs.1
    pow2 := hinv.pow2
    inb := fun q hq => hinv.inb q (hsub.subset hq)
    notfree := by
      intro q hq x hx hfree
      rcases (hfs.2 x).mp hfree with hf | hreg
      · exact hinv.notfree q (hsub.subset hq) x hx hf
      · exact pairwise_eraseIdx_rel (fun _ _ h => Disjoint.symm h) live i r hinv.disj hr q hq x ⟨hx, hreg⟩
    disj := hinv.disj.sublist hsub }

theorem C04_step (g : G) (op : Op) (h : GInv g) : GInv (g.step op) := by
  cases op with
  | alloc size al =>
    simp only [G.step]
    cases hal : g.b.allocate size al with
    | none => exact h
    | some p =>
      obtain ⟨o, b'⟩ := p
      simp only
      have ha : allocate g.b.a size al = some (o, b'.a) := by
        have := Buf.allocF_a (size + alignOf g.b.a al + 1) g.b size (alignOf g.b.a al)
        unfold Buf.allocate at hal
        rw [hal] at this
        exact this.symm
      obtain ⟨c1, c2, c3, c4, c5⟩ := C04_alloc g.b.a g.regions size al o b'.a h.inv ha
      obtain ⟨m1, m2⟩ := Buf.allocF_mem _ g.b size _ o b' h.mem hal
      exact {
        inv := c5
        mem := m1
        data := by
          intro e he
          rcases List.mem_cons.mp he with rfl | hm
          · rfl
          · rw [← h.data e hm]
            apply readAt_congr
            intro i _ hi2
            have : e.1 ∈ g.regions := List.mem_map.mpr ⟨e, hm, rfl⟩
            have := h.inv.inb e.1 this
            exact m2 i (by omega) }
  | free i =>
    simp only [G.step]
    cases hi : g.live[i]? with
    | none => exact h
    | some e =>
      simp only
      have hr : g.regions[i]? = some e.1 := by simp [G.regions, hi]
      exact {
        inv := by
          have := inv_free_idx g.b.a g.regions i e.1 h.inv hr
          simpa [G.regions, eraseIdx_regions, Buf.free] using this
        mem := h.mem
        data := fun q hq => h.data q ((List.eraseIdx_sublist _ _).subset hq) }
  | grow n =>
    simp only [G.step]
    obtain ⟨m1, m2⟩ := Buf.grow_mem g.b n h.mem
    exact {
      inv := C04_grow g.b.a g.regions n h.inv
      mem := m1
      data := by
        intro e he
        rw [← h.data e he]
        apply readAt_congr
        intro i _ hi2
        have : e.1 ∈ g.regions := List.mem_map.mpr ⟨e, he, rfl⟩
        have := h.inv.inb e.1 this
        exact m2 i (by omega) }
  | write i bs =>
    simp only [G.step]
    cases hi : g.live[i]? with
    | none => exact h
    | some e =>
      simp only
      split
      · rename_i hlen
        have hmem : e ∈ g.live := List.mem_of_getElem? hi
        have hreg : e.1 ∈ g.regions := List.mem_map.mpr ⟨e, hmem, rfl⟩
        have hin := h.inv.inb e.1 hreg
        have hfit : e.1.1 + bs.length ≤ g.b.mem.length := by rw [h.mem, hlen]; exact hin
        have hregs : (g.live.set i (e.1, bs)).map (·.1) = g.regions := by
          simp only [G.regions]
          rw [List.map_set]
          apply List.ext_getElem?
          intro j
          rw [List.getElem?_set]
          split
          · rename_i hij; subst hij
            split
            · simp [hi]
            · rename_i hlt; simp at hlt; simp [List.getElem?_eq_none hlt]
          · rfl
        exact {
          inv := by simpa [G.regions, hregs] using h.inv
          mem := by simp only [Buf.MemOK]; rw [length_writeAt _ _ _ hfit]; exact h.mem
          data := by
            intro q hq
            obtain ⟨j, hj, hjq⟩ := List.getElem_of_mem hq
            have hjq' : (g.live.set i (e.1, bs))[j]? = some q := by rw [List.getElem?_eq_getElem hj, hjq]
            rw [List.getElem?_set] at hjq'
            by_cases hij : i = j
            · subst hij
              have hlt : i < g.live.length := by
                have := (List.getElem?_eq_some_iff.mp hi).1; exact this
              simp [hlt] at hjq'
              subst hjq'
              simp only
              rw [← hlen]
              exact readAt_writeAt_same _ _ _ hfit
            · simp [hij] at hjq'
              rw [← h.data q (List.mem_of_getElem? hjq')]
              by_cases hq0 : q.1.2 = 0
              · simp [readAt, hq0]
              by_cases he0 : bs.length = 0
              · have : bs = [] := List.eq_nil_of_length_eq_zero he0
                subst this; simp [writeAt]
              apply readAt_writeAt_disj _ _ _ hfit
              suffices hdisj : Disjoint q.1 e.1 by
                rw [hlen]
                by_cases hc : q.1.1 + q.1.2 ≤ e.1.1
                · left; exact hc
                · right
                  by_cases hc2 : e.1.1 + e.1.2 ≤ q.1.1
                  · exact hc2
                  · exfalso
                    exact hdisj (max q.1.1 e.1.1) ⟨⟨by omega, by omega⟩, ⟨by omega, by omega⟩⟩
              -- q is the j-th, e the i-th live region, i ≠ j: disjoint
              have hpw := h.inv.disj
              have hqi : g.regions[j]? = some q.1 := by simp [G.regions, hjq']
              have hei : g.regions[i]? = some e.1 := by simp [G.regions, hi]
              have hdisj : Disjoint q.1 e.1 := by
                rcases Nat.lt_or_gt_of_ne hij with hlt | hgt
                · have := (List.pairwise_iff_getElem.mp hpw) i j
                    ((List.getElem?_eq_some_iff.mp hei).1) ((List.getElem?_eq_some_iff.mp hqi).1) hlt
                  rw [(List.getElem?_eq_some_iff.mp hei).2, (List.getElem?_eq_some_iff.mp hqi).2] at this
                  exact this.symm
                · have := (List.pairwise_iff_getElem.mp hpw) j i
                    ((List.getElem?_eq_some_iff.mp hqi).1) ((List.getElem?_eq_some_iff.mp hei).1) hgt
                  rw [(List.getElem?_eq_some_iff.mp hei).2, (List.getElem?_eq_some_iff.mp hqi).2] at this
                  exact this
              exact hdisj }
      · exact h

/-- **every reachable state**: for any initial capacity, power-of-two alignment, grow step and
    any finite history, live regions are in bounds, pairwise disjoint, disjoint from free space,
    and each still holds the bytes last stored in it (also across growth, which relocates storage). -/
theorem C04_reachable (cap k : Nat) (gs : Option Nat) (ops : List Op) :
    GInv (ops.foldl G.step (G.init cap (2^k) gs)) := by
  have h0 : GInv (G.init cap (2^k) gs) := {
    inv := init_inv cap k gs
    mem := by simp [Buf.MemOK, G.init, init]
    data := by intro e he; simp [G.init] at he }
  generalize G.init cap (2^k) gs = g at h0
  induction ops generalizing g with
  | nil => exact h0
  | cons op ops ih => exact ih (g.step op) (C04_step g op h0)

/-- alignment of every region at the time it is handed out (it never moves afterwards: offsets are
    relative to the storage, which `grow` copies as a prefix) -/
theorem C04_aligned (g : G) (h : GInv g) (size : Nat) (al : Bool) (o : Nat) (b' : Buf)
    (hal : g.b.allocate size al = some (o, b')) : o % alignOf g.b.a al = 0 := by
  have ha : allocate g.b.a size al = some (o, b'.a) := by
    have := Buf.allocF_a (size + alignOf g.b.a al + 1) g.b size (alignOf g.b.a al)
    unfold Buf.allocate at hal
    rw [hal] at this
    exact this.symm
  exact (C04_alloc g.b.a g.regions size al o b'.a h.inv ha).2.1

/-- non-vacuity: a concrete history (allocate, write, free, growth) from a concrete start -/
example : let g := [Op.alloc 3 true, .alloc 5 false, .write 0 [1,2,3,4,5], .free 1, .alloc 40 true, .grow 7].foldl
            G.step (G.init 16 8 none)
    g.b.a.capacity = 70 ∧ g.regions = [(8, 40), (3, 5)] ∧ readAt g.b.mem 3 5 = [1,2,3,4,5] := by decide

end Alloc
