import Xo.Model.KernelCall
/-! C17 — kernel calls deliver every argument and the return value faithfully (property theorems only).
Decision logic and address arithmetic; cffi's type check of pointer element types, the C ABI and NumPy's scalar
conversion are runtime (witnessed by echo kernels on every run): the claim is partial by nature. -/
namespace KCall

/-- positional arguments are always refused -/
theorem C17_positional_refused (decls : List Decl) (n : Nat) (kw : List (String × Val)) (h : 0 < n) :
    call decls n kw = .error .value := by
  simp [call, h]

/-- a wrong number of named arguments is refused (missing or extra), before anything is converted -/
theorem C17_arity_refused (decls : List Decl) (kw : List (String × Val)) (h : kw.length ≠ decls.length) :
    call decls 0 kw = .error .assertion := by
  simp [call, h]

theorem deliver_ok_names : ∀ (decls : List Decl) (kw : List (String × Val)) (outs : List Out),
    deliver decls kw = .ok outs → outs.length = decls.length ∧ ∀ d ∈ decls, (lookup kw d.name).isSome
 | [], _, outs, h => by simp [deliver] at h; subst h; simp
 | d :: ds, kw, outs, h => by
    simp only [deliver] at h
    cases hl : lookup kw d.name with
    | none => simp [hl] at h
    | some v =>
      simp only [hl] at h
      cases ha : toArg d v with
      | error e => simp [ha] at h
      | ok o =>
        cases hd : deliver ds kw with
        | error e => simp [ha, hd] at h
        | ok os =>
          simp only [ha, hd, Except.ok.injEq] at h
          subst h
          have ih := deliver_ok_names ds kw os hd
          refine ⟨by simp [ih.1], ?_⟩
          intro x hx
          rcases List.mem_cons.mp hx with rfl | hx
          · simp [hl]
          · exact ih.2 x hx

/-- **accepted ⇒ exact named arguments**: an accepted call has no positional argument, as many named arguments as declared,
every declared name among them, and delivers exactly one value per declared argument, in declaration order -/
theorem C17_accept_exact (decls : List Decl) (n : Nat) (kw : List (String × Val)) (outs : List Out)
    (h : call decls n kw = .ok outs) :
    n = 0 ∧ kw.length = decls.length ∧ (∀ d ∈ decls, (lookup kw d.name).isSome) ∧ outs.length = decls.length := by
  unfold call at h
  split at h
  · cases h
  · rename_i hn
    split at h
    · cases h
    · rename_i hl
      have := deliver_ok_names decls kw outs h
      exact ⟨by omega, by simpa using hl, this.2, this.1⟩

/-- a missing name is refused even when the count happens to match (an extra name took its place) -/
theorem C17_missing_refused (d : Decl) (ds : List Decl) (kw : List (String × Val)) (h : lookup kw d.name = none) :
    deliver (d :: ds) kw = .error .key := by
  simp [deliver, h]

/-- **compound xobject**: delivered as a pointer to its first byte in the buffer's CURRENT storage, whatever its offset and
however often the buffer has grown since the object was created -/
theorem C17_xobj_ptr (d : Decl) (hp : d.pointer = false) (hs : d.scalar = false) (b : BufS) (off : Nat) (ops : List BOp) :
    toArg d (xobjNow (ops.foldl BufS.step b) off) = .ok (.ptr (ops.foldl BufS.step b).storage off d.ctype) := by
  simp [toArg, hp, hs, xobjNow]

/-- growth replaces the storage; a pointer computed before it is stale - which is why it must be recomputed per call -/
theorem C17_storage_changes_on_grow (b : BufS) (n : Nat) : (b.step (.grow n)).storage ≠ b.storage := by
  simp [BufS.step]

/-- **numeric arrays**: a NumPy array is delivered as a pointer to the first element of the slice, an xobject array as a pointer
to its first element (`offset + data_offset`), both typed `<element C type>*` -/
theorem C17_array_ptr (d : Decl) (hp : d.pointer = true) (hs : d.scalar = true) :
    (∀ c st fo, toArg d (.nparr c st fo) = .ok (.ptr st fo (c ++ "*"))) ∧
    (∀ st off doff c, toArg d (.xarr st off doff c) = .ok (.ptr st (off + doff) (c ++ "*"))) := by
  constructor <;> intros <;> simp [toArg, hp, hs]

/-- **scalars**: a value representable in the declared C type is delivered unchanged; one outside its range is refused -/
theorem C17_scalar (d : Decl) (hp : d.pointer = false) (hs : d.scalar = true) (x : Int) :
    (d.lo ≤ x ∧ x ≤ d.hi → toArg d (.num x) = .ok (.scalarV x)) ∧
    (¬ (d.lo ≤ x ∧ x ≤ d.hi) → toArg d (.num x) = .error .overflow) := by
  constructor <;> intro h <;> simp [toArg, hp, hs, h]

/-- the declared return value comes back unchanged (`from_function_arg` is the identity) -/
def fromFunctionArg (v : Out) : Out := v
theorem C17_ret (v : Out) : fromFunctionArg v = v := rfl

/-! non-vacuity -/
example : call [{ name := "obj", pointer := false, scalar := false, ctype := "S" },
                { name := "n", pointer := false, scalar := true, ctype := "int32_t", lo := -2147483648, hi := 2147483647 }]
    0 [("n", .num 7), ("obj", .xobj 3 40)] = .ok [.ptr 3 40 "S", .scalarV 7] := by rfl

end KCall
