import Xo.Lemmas.SpecSeg
import Xo.Props.C16
/-! C15 — OpenCL and CUDA accessor source computes the same addresses as CPU (property theorems only).

The generated accessor API is a *segmented* text: literal C text without `/` (all the address arithmetic, casts and
names) interleaved with the four qualifier placeholders.  That a given generated source is of this form (`wfb`,
`plainB`, `render PH.text (segment src) = src`) is computed by the driver for every generated API on every run;
the theorems below hold for every source of this form. -/
namespace Spec

/-- **C15 (text per target)**: for every segmented, annotation-free source, specialising for target `t` yields exactly the
same segments with each placeholder rendered as `table t` says - for all four targets.  All literal text, hence the
whole address computation, is character for character the same on every target. -/
theorem C15_target_text (t : Target) (files : Str → Option (List Str)) (src : Str) (segs : List Seg)
    (hplain : ∀ l ∈ splitLines src, plainB l = true) (hwf : wfb segs = true)
    (hsrc : joinLines (splitLines src) = render PH.text segs) :
    specialize t files src = .ok (render (table t) segs) := by
  rw [C16_passthrough_lines t files src (fun l hl => plainB_sound l (hplain l hl)), hsrc,
    substitute_render t segs (wfb_sound segs hwf)]

/-- the qualifier table: what each placeholder becomes on each target (OpenCL: pointers into object memory get `__global`;
CUDA: accessor functions get `__device__`; CPU: `static inline` and `restrict`) -/
theorem C15_tables :
    table .opencl .mem = S " __global " ∧ table .cuda .mem = S " " ∧ table .cpu_serial .mem = S " " ∧
    table .cpu_openmp .mem = S " " ∧
    table .opencl .fn = S " " ∧ table .cuda .fn = S " __device__ " ∧ table .cpu_serial .fn = S " static inline" ∧
    table .opencl .kern = S " __kernel " ∧ table .cuda .kern = S "__global__" ∧ table .cpu_serial .kern = S " " ∧
    table .opencl .restr = [] ∧ table .cuda .restr = [] ∧ table .cpu_serial .restr = S " restrict " := by
  decide

/-- **C15 (same computation)**: two targets' specialised texts are renderings of one and the same segment list: they can
differ only inside the rendered placeholders -/
theorem C15_same_segments (t1 t2 : Target) (files : Str → Option (List Str)) (src : Str) (segs : List Seg)
    (hplain : ∀ l ∈ splitLines src, plainB l = true) (hwf : wfb segs = true)
    (hsrc : joinLines (splitLines src) = render PH.text segs) :
    ∃ segs', specialize t1 files src = .ok (render (table t1) segs') ∧
             specialize t2 files src = .ok (render (table t2) segs') :=
  ⟨segs, C15_target_text t1 files src segs hplain hwf hsrc, C15_target_text t2 files src segs hplain hwf hsrc⟩

/-- in the OpenCL form every `gpuglmem` placeholder of the source is rendered `__global` and no placeholder survives:
literals are slash-free and the rendered keywords are slash-free, so the result contains no `/` at all -/
theorem C15_no_placeholder_left (t : Target) (segs : List Seg) (h : WF segs) :
    ∀ c ∈ render (table t) segs, c ≠ '/' := by
  obtain ⟨n1, n2, n3, n4⟩ := noSlash_reps t
  induction segs with
  | nil => simp [render]
  | cons s r ih =>
    match s, h with
    | .lit a, h =>
      intro c hc
      simp only [render, List.mem_append] at hc
      rcases hc with hc | hc
      · exact h.1 c hc
      · exact ih h.2 c hc
    | .ph q, h =>
      intro c hc
      simp only [render, List.mem_append] at hc
      rcases hc with hc | hc
      · cases q
        · exact n1 c hc
        · exact n2 c hc
        · exact n3 c hc
        · exact n4 c hc
      · exact ih (WF_tail_ph q r h) c hc

/-! non-vacuity: a generated getter line -/
example :
    let src := S "/*gpufun*/ double S_get_a(const S/*restrict*/ obj){\n  return *(/*gpuglmem*/double*)((/*gpuglmem*/char*) obj+offset);\n}"
    wfb (segment src) = true ∧ render PH.text (segment src) = src ∧ (splitLines src).all plainB = true := by
  decide +kernel

end Spec
