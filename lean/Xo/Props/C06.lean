import Xo.Lemmas.LayoutRT
import Xo.Lemmas.ArrayView
import Xo.Lemmas.Path
/-! C06 — a view rebuilt from buffer and offset equals the constructed handle (property theorems only).
The constructor handle caches what it planned (`info.size`, `info.shape`, `info.strides`, `info.offsets`); a view re-reads
all of it from the bytes.  `readD` IS the view; the constructor-side quantities are `vsize`, the value's shape, `getStrides`
and `offsetsD`. -/
namespace Lay
open MemS

/-- **same value**: the view reads exactly the value the constructor was given, at every nesting level (every nested
field / item is itself materialised as a view - this is `readD` applied recursively) -/
theorem C06_view_value (t : Ty) (v : Val) (hw : t.WF) (hc : Conf t v) (hs : vsize t v < 2^64)
    (m : Mem) (off : Nat) (hb : off + vsize t v ≤ m.length) :
    readD t (apply (shift off (patchesD t v)) m) off = v.norm :=
  rtD t v hw hc hs m off hb _ (fun _ _ _ => rfl)

/-- **same shape**: the dimensions a view computes (static ones from the class, dynamic ones from the header) are the
shape the constructor cached -/
theorem C06_view_shape (it : Ty) (shape : List (Option Nat)) (order sh : List Nat) (items : List Val)
    (hw : (Ty.array it shape order).WF) (hc : Conf (.array it shape order) (.arr sh items))
    (hs : vsize (.array it shape order) (.arr sh items) < 2^64)
    (m : Mem) (off : Nat) (hb : off + vsize (.array it shape order) (.arr sh items) ≤ m.length) :
    readD (.array it shape order) (apply (shift off (patchesD (.array it shape order) (.arr sh items))) m) off
      = .arr sh (items.map Val.norm) := by
  have := rtD _ _ hw hc hs m off hb _ (fun _ _ _ => rfl)
  rw [this]; simp [Val.norm, normL_eq_map]

/-- **same size**: the size word a view of a dynamically sized struct/array/string reports is the size the constructor
computed (`info.size`) -/
theorem C06_view_size (t : Ty) (v : Val) (hw : t.WF) (hc : Conf t v) (hs : vsize t v < 2^64) (hd : t.ssize = none)
    (m : Mem) (off : Nat) (hb : off + vsize t v ≤ m.length) :
    fromLE (readAt (apply (shift off (patchesD t v)) m) off 8) = vsize t v := by
  have h8 := vsize_pos_dyn t v hc hd
  obtain ⟨rest, tail, hp, htail⟩ := dyn_patches_shape t v hw hc hd
  have hwin := within_shift (d := off) (withinD t v hw hc)
  have hwin' : Within (shift off (patchesD t v)) off (off + vsize t v) := by simpa [Nat.add_comm] using hwin
  rw [hp, shift_cons] at hwin'
  rw [hp, shift_cons]
  simp only [apply, List.foldl_cons, Nat.zero_add] at hwin' ⊢
  have hfirst := hwin' _ (List.mem_cons_self)
  simp only [List.length_append, le_length] at hfirst
  have hout : Outside (shift off tail) off (off + 8) := by
    intro q hq
    obtain ⟨p, hpm, rfl⟩ := mem_shift hq
    have := htail p hpm; right; simp; omega
  have hin : InBounds (shift off tail) m.length := fun q hq => by
    have := hwin' q (List.mem_cons_of_mem _ hq); omega
  have hl1 := length_writeAt m off (le 8 (vsize t v) ++ rest) (by simp [le_length]; omega)
  have hag := apply_outside (shift off tail) (writeAt m off (le 8 (vsize t v) ++ rest)) off (off + 8) hout (by rw [hl1]; exact hin)
  have hrw : readAt (List.foldl (fun m p => writeAt m p.1 p.2) (writeAt m off (le 8 (vsize t v) ++ rest)) (shift off tail)) off 8
      = readAt (writeAt m off (le 8 (vsize t v) ++ rest)) off 8 := readAt_agree hag (Nat.le_refl _) (Nat.le_refl _)
  rw [hrw]
  have hsame := readAt_writeAt_same m off (le 8 (vsize t v) ++ rest) (by simp [le_length]; omega)
  have hsub := readAt_readAt (writeAt m off (le 8 (vsize t v) ++ rest)) off (le 8 (vsize t v) ++ rest).length 0 8 (by simp [le_length])
  rw [Nat.add_zero] at hsub
  rw [← hsub, hsame]
  unfold readAt
  simp only [List.drop_zero, List.take_append_of_le_length (Nat.le_of_eq (le_length 8 _).symm)]
  rw [List.take_of_length_le (Nat.le_of_eq (le_length 8 _)), fromLE_le, Nat.mod_eq_of_lt (by simpa using hs)]

/-- **same strides**: the strides a view caches - class constants for a static shape, the header words for an N-dimensional
dynamic shape, the item unit for one dimension - are `get_strides(shape, order, unit)` of the constructed object, for every
axis order that is a permutation of the axes -/
theorem C06_view_strides (it : Ty) (shape : List (Option Nat)) (order sh : List Nat) (items : List Val)
    (hw : (Ty.array it shape order).WF) (hc : Conf (.array it shape order) (.arr sh items))
    (hperm : order.Perm (List.range shape.length))
    (hsw : ∀ s ∈ getStrides sh order (ainfo it shape).unit, s < 2 ^ 64)
    (m : Mem) (off : Nat) (hb : off + vsize (.array it shape order) (.arr sh items) ≤ m.length) (m' : Mem)
    (hag : Agree m' (apply (shift off (patchesD (.array it shape order) (.arr sh items))) m) off
      (off + vsize (.array it shape order) (.arr sh items))) :
    viewStrides it shape order m' off = getStrides sh order (ainfo it shape).unit :=
  view_strides it shape order sh items hw hc hperm hsw m off hb m' hag

/-- **same value at every index**: for every shape (static, dynamic, mixed), every axis order and every valid index tuple,
the address arithmetic of a view, `data offset + Σ idx[ax] * stride[ax]` with the strides the view itself read, reaches the
item at the tuple's memory position `mposL` (in range, and different for different tuples: `C06_index_distinct`), and the value
read there - directly for fixed-size items, through the offset table for dynamically sized ones - is the item the constructor
was given for that position -/
theorem C06_item_at_index (it : Ty) (shape : List (Option Nat)) (order sh : List Nat) (items : List Val)
    (hw : (Ty.array it shape order).WF) (hc : Conf (.array it shape order) (.arr sh items))
    (hs : vsize (.array it shape order) (.arr sh items) < 2 ^ 64)
    (hperm : order.Perm (List.range shape.length))
    (hsw : ∀ s ∈ getStrides sh order (ainfo it shape).unit, s < 2 ^ 64)
    (m : Mem) (off : Nat) (hb : off + vsize (.array it shape order) (.arr sh items) ≤ m.length) (m' : Mem)
    (hag : Agree m' (apply (shift off (patchesD (.array it shape order) (.arr sh items))) m) off
      (off + vsize (.array it shape order) (.arr sh items)))
    (idx : List Nat) (hv : ValidIdx sh idx) :
    let pos := mposL sh order idx
    let a := off + (ainfo it shape).dataOff + dot idx (viewStrides it shape order m' off)
    pos < items.length ∧ dot idx (viewStrides it shape order m' off) = (ainfo it shape).unit * pos ∧
    (if (ainfo it shape).staticType then readD it m' a else readD it m' (off + fromLE (readAt m' a 8)))
      = (items.getD pos default).norm :=
  view_item_at_index it shape order sh items hw hc hs hperm hsw m off hb m' hag idx hv

/-- different valid index tuples address different items -/
theorem C06_index_distinct (shape order idx idx' : List Nat) (hperm : order.Perm (List.range shape.length))
    (hv : ValidIdx shape idx) (hv' : ValidIdx shape idx') (h : mposL shape order idx = mposL shape order idx') : idx = idx' :=
  mposL_inj shape order idx idx' hperm hv hv' h

/-- **a write through either is seen through the other**: handle, nested views and C accessors locate a scalar element by the
same address (`leafAt`); whatever stores the element's bytes there, a view of the whole enclosing object - created before or
after the store - reads the value with exactly that element replaced -/
theorem C06_write_seen_through_view (t : Ty) (v : Val) (hw : t.WF) (hc : Conf t v) (hs : vsize t v < 2^64)
    (m0 : Mem) (off : Nat) (hbo : off + vsize t v ≤ m0.length) (m : Mem)
    (hm : Agree m (apply (shift off (patchesD t v)) m0) off (off + vsize t v)) (hlen : m.length = m0.length)
    (p : List Nat) (lo w b : Nat) (hl : leafAt t v p = some (lo, w)) (hb : b < 256 ^ w) :
    ∃ v', updAt t v p b = some v' ∧ readD t (setScalar m (off + lo) w b) off = v'.norm := by
  obtain ⟨v', h1, _, _, _, h5⟩ := set_leaf_rt t v hw hc hs m0 off hbo m hm hlen p lo w b hl hb
  exact ⟨v', h1, h5⟩

/-- non-vacuity: a 2 x 3 array stored with axis order (1, 0) (Fortran order): strides (8, 16) for 8-byte items, index (1, 2)
is memory position 5, index (0, 1) is memory position 2 -/
example : getStrides [2, 3] [1, 0] 8 = [8, 16] ∧ mposL [2, 3] [1, 0] [1, 2] = 5 ∧ mposL [2, 3] [1, 0] [0, 1] = 2 ∧
    dot [1, 2] (getStrides [2, 3] [1, 0] 8) = 8 * 5 := by decide

end Lay
