import Xo.Lemmas.Spec
/-! C16 — vectorised kernel blocks run once per index on every target (property theorems only) -/
namespace Spec

/-- **pass-through (lines)**: a source none of whose lines carries an annotation goes through both line passes unchanged,
for every target and file system; only the placeholder substitution is applied to it. -/
theorem C16_passthrough_lines (t : Target) (files : Str → Option (List Str)) (src : Str)
    (h : ∀ l ∈ splitLines src, Plain l) :
    specialize t files src = .ok (substitute t (joinLines (splitLines src))) := by
  have := pass2_body t (splitLines src) [] false (fun l hl => (h l hl).2.1)
  simp only [List.append_nil, pass2] at this
  simp only [specialize, pass1_noInclude t files _ (fun l hl => (h l hl).1), this, map_plainLine_plain t _ h]

/-- **pass-through (text)**: if moreover none of the four placeholders occurs, the text is emitted exactly as it is
(up to the final newline that `splitlines`/`join` drops). -/
theorem C16_passthrough (t : Target) (files : Str → Option (List Str)) (src : Str)
    (h : ∀ l ∈ splitLines src, Plain l)
    (h1 : contains (joinLines (splitLines src)) (S "/*gpukern*/") = false)
    (h2 : contains (joinLines (splitLines src)) (S "/*gpufun*/") = false)
    (h3 : contains (joinLines (splitLines src)) (S "/*gpuglmem*/") = false)
    (h4 : contains (joinLines (splitLines src)) (S "/*restrict*/") = false) :
    specialize t files src = .ok (joinLines (splitLines src)) := by
  rw [C16_passthrough_lines t files src h]
  unfold substitute
  rw [replaceAll_absent _ _ _ h1 (by decide), replaceAll_absent _ _ _ h2 (by decide),
    replaceAll_absent _ _ _ h3 (by decide), replaceAll_absent _ _ _ h4 (by decide)]

/-- **only_for_context**: a line restricted to named contexts (and opening/closing no block) is emitted verbatim exactly
when the target is among the names after the marker, and commented out otherwise; the following lines are unaffected. -/
theorem C16_only_for (t : Target) (ll : Str) (rest : List Str) (inside : Bool) (hb : NoBlock ll)
    (ho : contains ll (S "//only_for_context") = true) :
    pass2 t (ll :: rest) inside =
      (match pass2 t rest inside with
       | .ok more =>
         .ok ((if (words (lastD (splitOn ll (S "//only_for_context")))).contains t.name then ll else S "//" ++ ll) :: more)
       | .error e => .error e) := by
  have := pass2_body t [ll] rest inside (by intro l hl; simp at hl; subst hl; exact hb)
  simp only [List.cons_append, List.nil_append, List.map_cons, List.map_nil] at this
  rw [this]
  cases pass2 t rest inside <;> simp [plainLine, ho]

/-- **include_file**: the named file's lines (right-stripped, between the two marker entries) are spliced in exactly when
the target is listed after `for_context`; otherwise the line is dropped; a missing file is an IOError. -/
theorem C16_include (t : Target) (files : Str → Option (List Str)) (ll : Str) (rest : List Str)
    (hi : contains ll (S "//include_file") = true) (hf : contains ll (S " for_context ") = true) :
    let fname := strip ((splitOn (lastD (splitOn ll (S "//include_file"))) (S "for_context")).headD [])
    let listed := (words (lastD (splitOn ll (S "for_context")))).contains t.name
    pass1 t files (ll :: rest) =
      (if listed then
        (match files fname with
         | none => .error .io
         | some flines =>
           match pass1 t files rest with
           | .ok more => .ok ([S "\n//from file: " ++ fname ++ S "\n"] ++ flines.map rstrip ++ [S "\n//end file: " ++ fname ++ S "\n"] ++ more)
           | .error e => .error e)
       else pass1 t files rest) := by
  simp only [pass1, hi, hf, Bool.not_true, Bool.false_eq_true, ↓reduceIte]
  split
  · cases files _ with
    | none => rfl
    | some fl => simp only []; cases pass1 t files rest <;> rfl
  · rfl

/-- **block shape**: a well-nested `vectorize_over v lim … end_vectorize` block expands to exactly the target's prologue,
the body lines (each treated as an ordinary line) and the target's epilogue. -/
theorem C16_block_shape (t : Target) (hdr endl v lim : Str) (body rest : List Str)
    (hh : contains hdr (S "//vectorize_over") = true)
    (hw : words (lastD (splitOn hdr (S "//vectorize_over"))) = [v, lim])
    (hbody : ∀ l ∈ body, NoBlock l)
    (he1 : contains endl (S "//vectorize_over") = false) (he2 : contains endl (S "//end_vectorize") = true) :
    pass2 t (hdr :: (body ++ endl :: rest)) false =
      (match pass2 t rest false with
       | .ok more => .ok (prologue t v lim ++ (body.map (plainLine t) ++ epilogue t :: more))
       | .error e => .error e) := by
  rw [pass2]
  simp only [hh, hw, Bool.false_eq_true, ↓reduceIte]
  rw [pass2_body t body (endl :: rest) true hbody]
  rw [pass2]
  simp only [he1, he2, Bool.false_eq_true, ↓reduceIte]
  cases pass2 t rest false <;> simp

/-- a block opened inside an open block is refused (ValueError), as is a header without exactly two words -/
theorem C16_nested_refused (t : Target) (hdr : Str) (rest : List Str)
    (hh : contains hdr (S "//vectorize_over") = true) :
    pass2 t (hdr :: rest) true = .error .value := by
  simp [pass2, hh]

/-- both CPU targets get the same loop text (no OpenMP pragma is emitted by the specialiser) -/
theorem C16_cpu_same_block (v lim : Str) :
    prologue .cpu_serial v lim = prologue .cpu_openmp v lim ∧ epilogue .cpu_serial = epilogue .cpu_openmp := by
  constructor <;> rfl

/-- **once per index**: with the launch geometry the contexts use (CUDA: `ceil(n/block)` blocks of `block ≥ 1` threads and
the `v<n` guard; OpenCL: global size `n`), every target executes the body for exactly the indices `0 … n-1`, each once,
for every `n` including 0. -/
theorem C16_once (t : Target) (n block : Nat) (hb : 0 < block) :
    execIndices t (geometry n block) n = List.range n := by
  cases t
  · rfl
  · rfl
  · rfl
  · simp only [execIndices, geometry]
    obtain ⟨k, hk⟩ := Nat.le.dest (grid_covers n block hb)
    rw [← hk, range_filter_lt]

/-- without the guard the CUDA form would run `grid*block ≥ n` threads: the guard is what removes the excess -/
theorem C16_cuda_guard_needed : ∃ n block, 0 < block ∧ (geometry n block).grid * block ≠ n := ⟨1, 2, by decide, by decide⟩

/-! non-vacuity -/
example : (match specialize .cuda (fun _ => none) (S "a\nint i; //vectorize_over i n\n x[i]=1; //only_for_context cuda\n//end_vectorize\n") with
    | .ok s => decide (s = S "a\nint i; //autovectorized\n\ni=blockDim.x * blockIdx.x + threadIdx.x;//autovectorized\nif (i<n){\n x[i]=1; //only_for_context cuda\n}//end autovectorized\n")
    | .error _ => false) = true := by
  decide +kernel
example : execIndices .cuda (geometry 5 4) 5 = [0, 1, 2, 3, 4] := by decide

end Spec
