import Xo.Props.C08
import Xo.Props.C10
import Xo.Lemmas.Copy
import Xo.Lemmas.RefGraphX
/-! C09 — copy-construction yields an equal, storage-disjoint object (property theorems only).
Reference-free types are copied byte for byte (`update_from_xbuffer`, into the same buffer, another buffer or another context -
the model's `copyBytes` from any source memory into any destination memory).  Types holding references are rebuilt field- /
item-wise (executable heap model, tie + oracle): `_partial`. -/
namespace Lay
open MemS

/-- **equal**: the byte copy of a written reference-free object - into any destination memory at any offset with room -
reads as the same value as the source -/
theorem C09_equal_partial (t : Ty) (v : Val) (hw : t.WF) (hc : Conf t v) (hs : vsize t v < 2 ^ 64)
    (m0 : Mem) (src : Nat) (hb0 : src + vsize t v ≤ m0.length)
    (D : Mem) (dst : Nat) (hbD : dst + vsize t v ≤ D.length) :
    readD t (copyBytes (apply (shift src (patchesD t v)) m0) src (vsize t v) D dst) dst = v.norm ∧
    readD t (apply (shift src (patchesD t v)) m0) src = v.norm := by
  refine ⟨?_, rtD t v hw hc hs m0 src hb0 _ (fun _ _ _ => rfl)⟩
  have hwin := withinD t v hw hc
  have hlenM : (apply (shift src (patchesD t v)) m0).length = m0.length := by
    have h := within_shift (d := src) hwin
    have h' : Within (shift src (patchesD t v)) src (src + vsize t v) := by simpa [Nat.add_comm] using h
    exact (apply_frame _ m0 _ _ h' hb0).1
  -- base memory for the copy: the destination with the source's UNDERLYING bytes moved in
  let m1 := writeAt D dst (readAt m0 src (vsize t v))
  have hrl0 : (readAt m0 src (vsize t v)).length = vsize t v := by simp [readAt]; omega
  have hrlM : (readAt (apply (shift src (patchesD t v)) m0) src (vsize t v)).length = vsize t v := by
    simp [readAt]; omega
  have hl1 : m1.length = D.length := length_writeAt D dst _ (by rw [hrl0]; exact hbD)
  apply rtD t v hw hc hs m1 dst (by rw [hl1]; exact hbD)
  intro j hj1 hj2
  obtain ⟨i, rfl⟩ : ∃ i, j = dst + i := ⟨j - dst, by omega⟩
  have hi : i < vsize t v := by omega
  have htr := apply_translate (patchesD t v) (vsize t v) hwin m0 m1 src dst hb0 (by rw [hl1]; exact hbD)
    (by
      intro k hk
      show (writeAt D dst (readAt m0 src (vsize t v)))[dst + k]? = m0[src + k]?
      rw [getElem?_writeAt D dst _ (by rw [hrl0]; exact hbD)]
      have : dst ≤ dst + k ∧ dst + k < dst + (readAt m0 src (vsize t v)).length := by rw [hrl0]; omega
      simp only [this, and_self, ↓reduceIte]
      rw [getElem?_readAt]; simp [hk]) i hi
  rw [htr]
  unfold copyBytes
  rw [getElem?_writeAt D dst _ (by rw [hrlM]; exact hbD)]
  have : dst ≤ dst + i ∧ dst + i < dst + (readAt (apply (shift src (patchesD t v)) m0) src (vsize t v)).length := by
    rw [hrlM]; omega
  simp only [this, and_self, ↓reduceIte]
  rw [getElem?_readAt]; simp [hi]

/-- **storage-disjoint, writes do not show through**: when the copy's extent is disjoint from the source's (it is: the copy is
placed by the allocator, C04_alloc / C08_copy_fresh), the copy leaves the source as it was, and any later write inside the
copy's extent leaves the source's value unchanged (and symmetrically) -/
theorem C09_source_unaffected (t : Ty) (v : Val) (hw : t.WF) (hc : Conf t v) (hs : vsize t v < 2 ^ 64)
    (m0 : Mem) (src : Nat) (hb0 : src + vsize t v ≤ m0.length) (dst : Nat)
    (hd : dst + vsize t v ≤ src ∨ src + vsize t v ≤ dst) (bytes : List UInt8) (hlen : bytes.length = vsize t v)
    (hbd : dst + vsize t v ≤ m0.length) :
    readD t (writeAt (apply (shift src (patchesD t v)) m0) dst bytes) src = v.norm := by
  apply rtD t v hw hc hs m0 src hb0
  have hlenM : (apply (shift src (patchesD t v)) m0).length = m0.length := by
    have h := within_shift (d := src) (withinD t v hw hc)
    have h' : Within (shift src (patchesD t v)) src (src + vsize t v) := by simpa [Nat.add_comm] using h
    exact (apply_frame _ m0 _ _ h' hb0).1
  intro i h1 h2
  rw [getElem?_writeAt _ dst bytes (by rw [hlen, hlenM]; exact hbd)]
  have : ¬ (dst ≤ i ∧ i < dst + bytes.length) := by rw [hlen]; omega
  simp [this]

theorem leaf_within_size (t : Ty) (v : Val) (hw : t.WF) (hc : Conf t v) (p : List Nat) (lo w : Nat)
    (hl : leafAt t v p = some (lo, w)) : lo + w ≤ vsize t v := by
  obtain ⟨_, _, _, _, _, _, _, _, _, _, _, h⟩ := leaf_decomp p t v lo w 0 hw hc hl (Nat.pow_pos (by decide))
  exact h

/-- **a later write to either never shows through the other** (copy in the SAME buffer, at a disjoint extent as the allocator
guarantees): after the copy both read the value; a store of any scalar element of the copy is read by the copy as exactly that
element replaced and leaves the source's value untouched - and the other way round -/
theorem C09_writes_do_not_show_through (t : Ty) (v : Val) (hw : t.WF) (hc : Conf t v) (hs : vsize t v < 2 ^ 64)
    (m0 : Mem) (src : Nat) (hb0 : src + vsize t v ≤ m0.length) (M : Mem) (hlen : M.length = m0.length)
    (hM : Agree M (apply (shift src (patchesD t v)) m0) src (src + vsize t v))
    (dst : Nat) (hbd : dst + vsize t v ≤ M.length) (hd : dst + vsize t v ≤ src ∨ src + vsize t v ≤ dst)
    (p : List Nat) (lo w b : Nat) (hl : leafAt t v p = some (lo, w)) (hbv : b < 256 ^ w) :
    let C := copyBytes M src (vsize t v) M dst
    readD t C src = v.norm ∧ readD t C dst = v.norm ∧
    ∃ v', updAt t v p b = some v' ∧
      readD t (setScalar C (dst + lo) w b) dst = v'.norm ∧ readD t (setScalar C (dst + lo) w b) src = v.norm ∧
      readD t (setScalar C (src + lo) w b) src = v'.norm ∧ readD t (setScalar C (src + lo) w b) dst = v.norm := by
  intro C
  have hrlM : (readAt M src (vsize t v)).length = vsize t v := by simp [readAt]; omega
  have hlC : C.length = M.length := length_writeAt M dst _ (by rw [hrlM]; exact hbd)
  -- the source's extent is untouched by the copy
  have hCs : Agree C (apply (shift src (patchesD t v)) m0) src (src + vsize t v) := by
    intro i h1 h2
    rw [← hM i h1 h2]
    show (writeAt M dst (readAt M src (vsize t v)))[i]? = M[i]?
    rw [getElem?_writeAt M dst _ (by rw [hrlM]; exact hbd)]
    have : ¬ (dst ≤ i ∧ i < dst + (readAt M src (vsize t v)).length) := by rw [hrlM]; omega
    simp [this]
  obtain ⟨m1, hl1, hCd⟩ := copy_agree t v hw hc m0 src hb0 M (by omega) hM M dst hbd
  have hin := leaf_within_size t v hw hc p lo w hl
  refine ⟨rtD t v hw hc hs m0 src hb0 C hCs, rtD t v hw hc hs m1 dst (by rw [hl1]; exact hbd) C hCd, ?_⟩
  obtain ⟨v', u1, _, _, _, rd⟩ := set_leaf_rt t v hw hc hs m1 dst (by rw [hl1]; exact hbd) C hCd (by rw [hlC, hl1]) p lo w b hl hbv
  obtain ⟨v'', u2, _, _, _, rs⟩ := set_leaf_rt t v hw hc hs m0 src hb0 C hCs (by rw [hlC, hlen]) p lo w b hl hbv
  have e : v'' = v' := by rw [u1] at u2; exact (Option.some.inj u2).symm
  subst e
  refine ⟨v'', u1, rd, ?_, rs, ?_⟩
  · exact C10_other_parts_unchanged_partial m0 t v hw hc hs src hb0 C hCs (by rw [hlC, hlen]) (dst + lo) w b
      (by rw [hlC]; omega) (by omega)
  · exact C10_other_parts_unchanged_partial m1 t v hw hc hs dst (by rw [hl1]; exact hbd) C hCd (by rw [hlC, hl1]) (src + lo) w b
      (by rw [hlC, hlen]; omega) (by omega)

/-! ### copies of objects that hold references (node model `Xo/Model/RefGraph.lean`, component `rg`) -/

/-- **references inside the copy resolve to valid objects in the copy's own buffer: the same referent when source and copy share a
buffer.**  In every state satisfying the reference-graph invariant (every reachable state: `C08_ref_history`), copy-constructing a node
from a node of the same buffer gives a node of the same class in fresh storage (disjoint from everything live, the source included);
every scalar field has the source's value; every reference field denotes the SAME referent as the source's (same address, same class
as the reader determines it) or is null like the source's - although the stored bytes differ, offsets being relative to the slot; and
the invariant holds again, so all references of the copy are valid and stay valid under any later history -/
theorem C09_copy_shares_referents (u : RG.Univ) (hu : RG.UWF u) (s : RG.St) (hi : RG.Inv u s) (ha o : Nat) (s1 : RG.St)
    (h : RG.copyObj u s ha = (s1, some o)) (hcap : s1.b.a.capacity < 2 ^ 62) :
    RG.Inv u s1 ∧ ∃ src c cl, RG.findObj s ha = some src ∧ src.cls = some c ∧ u[c]? = some cl ∧
      s1.live = ⟨o, RG.csize cl, some c⟩ :: s.live ∧
      (∀ e ∈ s.live, Alloc.Disjoint (o, RG.csize cl) (e.addr, e.size)) ∧
      ∀ k fk, cl[k]? = some fk →
        (fk = .scal → fromLE (readAt s1.b.mem (o + RG.foff cl k) 8) = fromLE (readAt s.b.mem (src.addr + RG.foff cl k) 8)) ∧
        (fk ≠ .scal → deref s1.b.mem (o + RG.foff cl k) = deref s.b.mem (src.addr + RG.foff cl k) ∧
          ∀ t, deref s.b.mem (src.addr + RG.foff cl k) = some t →
            RG.refClass s1 fk (o + RG.foff cl k) = RG.refClass s fk (src.addr + RG.foff cl k)) :=
  RG.copyObj_spec hu hi h hcap

/-- non-vacuity: in the reachable state of the C08 example the node at 32 (a union reference to the node at 128, a null reference) is
copied: the copy's references denote the same referents -/
example : (RG.copyObj RGEx.exU RGEx.exS 32).2 = some 144 ∧
    RG.readRef (RG.copyObj RGEx.exU RGEx.exS 32).1 (.uref [0, 1]) 144 = (some 128, 0) ∧
    RG.readRef (RG.copyObj RGEx.exU RGEx.exS 32).1 (.ref 1) 168 = (none, 0) ∧
    (RG.copyObj RGEx.exU RGEx.exS 32).1.b.a.capacity < 2 ^ 62 := by decide +kernel

/-- non-vacuity of `C10_node_update`: in the same reachable state the node at 0 (class 0, scalars 5 and 6... overwritten to 44 by the
write through a reference) is updated from the node at 128 (class 0, scalars 1 and 2) -/
example : fromLE (readAt (RG.updObj RGEx.exU RGEx.exS 0 128).b.mem 0 8) = 1 ∧
    fromLE (readAt (RG.updObj RGEx.exU RGEx.exS 0 128).b.mem 8 8) = 2 ∧
    RG.findObj RGEx.exS 0 = some ⟨0, 16, some 0⟩ ∧ RG.findObj RGEx.exS 128 = some ⟨128, 16, some 0⟩ := by decide +kernel

/-- **references inside the copy resolve to valid objects in the copy's own buffer: duplicates when the copy goes to ANOTHER buffer.**
`src` and `d` are two buffers in states satisfying the reference-graph invariant (every reachable state: `C08_ref_history`), `a` a
node of class `c` in `src`.  `xcopy` is `Cls(h, _buffer=other)`: the node and - depth first, in field order, once per path -
everything it refers to are constructed in `d`.  Whenever it ends (it does not on a cycle of references: the library dies with
RecursionError, the model runs out of fuel), for ANY fuel:

* `d'` satisfies the invariant again (every reference of the copy denotes a live node of the right class INSIDE `d'`), the copy is a
  live node of class `c`;
* `d'` holds everything `d` held, byte for byte, plus new nodes only (pairwise disjoint and disjoint from the old ones by the
  invariant) - and `src` is not even an output of the function: the source buffer is only read;
* the copy is indistinguishable from the source by reads along paths of EVERY length `n`: equal scalars, null where the source is
  null, referents of the same class that are again indistinguishable (`Sim`) - i.e. the copy is equal to the source as a value,
  although not one of its bytes that encode references needs to be the same. -/
theorem C09_copy_into_other_buffer (u : RG.Univ) (hu : RG.UWF u) (src d : RG.St) (hs : RG.Inv u src) (hd : RG.Inv u d)
    (fuel a c : Nat) (hobj : RG.IsObj src a c) (d' : RG.St) (o : Nat) (h : RG.xcopy u src fuel d a c = some (d', o))
    (hcap : d'.b.a.capacity < 2 ^ 62) :
    RG.Inv u d' ∧ RG.IsObj d' o c ∧ (∃ news, d'.live = news ++ d.live) ∧ (∀ e ∈ d.live, RG.Unchanged d d' e) ∧
    ∀ n, RG.Sim u src d' n a o c := by
  obtain ⟨i1, i2, _, i4, news, i5, i6⟩ := RG.xcopy_spec hu hs fuel d a c d' o hd hobj h hcap
  exact ⟨i1, i2, ⟨news, i5⟩, i4, i6 d' (fun e _ => RG.unchanged_refl d' e)⟩

/-- later histories of the destination do not disturb the copy: in any state that keeps the bytes of the nodes the copy created, it
still reads like the source (what `C03_ref_ops_frame` guarantees for every operation that is not applied to one of those nodes) -/
theorem C09_copy_into_other_buffer_stable (u : RG.Univ) (hu : RG.UWF u) (src d : RG.St) (hs : RG.Inv u src) (hd : RG.Inv u d)
    (fuel a c : Nat) (hobj : RG.IsObj src a c) (d' : RG.St) (o : Nat) (h : RG.xcopy u src fuel d a c = some (d', o))
    (hcap : d'.b.a.capacity < 2 ^ 62) :
    ∃ news, d'.live = news ++ d.live ∧ ∀ s'' : RG.St, (∀ e ∈ news, RG.Unchanged d' s'' e) → ∀ n, RG.Sim u src s'' n a o c := by
  obtain ⟨_, _, _, _, news, i5, i6⟩ := RG.xcopy_spec hu hs fuel d a c d' o hd hobj h hcap
  exact ⟨news, i5, i6⟩

/-- **the copy of an acyclic source always ends** - the `none` of `xcopy` hides nothing but cycles: if every chain of references
from the node has fewer than `n` links (`Acyc`), fuel `n` suffices, for ANY destination whose allocator is in a consistent state
with a usable grow step (the allocator never gives up: `C12_total`).  So the hypothesis `xcopy … = some …` of
`C09_copy_into_other_buffer` is met by every finite tree or DAG of nodes. -/
theorem C09_acyclic_source_is_copied (u : RG.Univ) (src d : RG.St) (n a c : Nat)
    (hd : Alloc.Inv d.b.a (RG.regions d)) (hg : d.b.a.growStep ≠ some 0) (hac : RG.Acyc u src n a c) :
    ∃ d' o, RG.xcopy u src n d a c = some (d', o) := by
  obtain ⟨d', o, h, _⟩ := RG.xcopy_total u src n d a c ⟨hd, hg⟩ hac
  exact ⟨d', o, h⟩

/-! non-vacuity: a node whose two references denote ONE node is copied into an empty buffer of capacity 8 (which grows): the copy
at 0 refers to TWO new nodes (24 and 40), both reading 5, 6; the hypotheses hold (reachable states, `C08_ref_history`) -/
namespace RGX
open RG
def exU : Univ := [[.scal, .scal], [.scal, .ref 0, .ref 0]]
def exSrc : St := [Op.new 0 [5, 6], .new 1 [7], .bindObj 16 1 0, .bindObj 16 2 0].foldl (step exU) (initSt 64 (2 ^ 3) none)
def exDst : St := initSt 8 (2 ^ 3) none
example : IsObj exSrc 16 1 := ⟨⟨16, 24, some 1⟩, by decide +kernel, rfl, rfl⟩
def exRes : Option (St × Nat) := xcopy exU exSrc 5 exDst 16 1
def exD : St := (exRes.getD (exDst, 99)).1
example : exRes.map (·.2) = some 0 ∧ exD.b.a.capacity < 2 ^ 62 ∧
    deref exD.b.mem 8 = some 24 ∧ deref exD.b.mem 16 = some 40 ∧ deref exSrc.b.mem 24 = some 0 ∧ deref exSrc.b.mem 32 = some 0 ∧
    fromLE (readAt exD.b.mem 24 8) = 5 ∧ fromLE (readAt exD.b.mem 48 8) = 6 ∧ exD.live.length = 3 := by decide +kernel
/-- the source of the example is acyclic: two links never occur -/
example : Acyc exU exSrc 2 16 1 := by
  refine ⟨[.scal, .ref 0, .ref 0], rfl, fun k fk hk => ?_⟩
  have leaf : Acyc exU exSrc 1 0 0 := ⟨[.scal, .scal], rfl, fun k fk hk => by
    match k, hk with
    | 0, hk => cases hk; trivial
    | 1, hk => cases hk; trivial
    | k + 2, hk => simp at hk⟩
  match k, hk with
  | 0, hk => cases hk; trivial
  | 1, hk =>
    cases hk
    intro t ht
    have h : deref exSrc.b.mem (16 + foff [.scal, .ref 0, .ref 0] 1) = some 0 := by decide +kernel
    rw [h] at ht; cases ht; exact leaf
  | 2, hk =>
    cases hk
    intro t ht
    have h : deref exSrc.b.mem (16 + foff [.scal, .ref 0, .ref 0] 2) = some 0 := by decide +kernel
    rw [h] at ht; cases ht; exact leaf
  | k + 3, hk => simp at hk
/-- a cycle never ends: with fuel 50 the result is still `none` (the library: RecursionError) -/
example : (xcopy [[.ref 0]] ([Op.new 0 [], .bindObj 0 0 0].foldl (step [[.ref 0]]) (initSt 64 (2 ^ 3) none)) 50 exDst 0 0).isNone
    = true := by decide +kernel
end RGX

/-! non-vacuity: a dynamic struct copied from offset 3 of one memory to offset 40 of another -/
example :
    readD (.struct [.scalar 2, .string]) (copyBytes
      (apply (shift 3 (patchesD (.struct [.scalar 2, .string]) (.struct [.bits 513, .str [104, 105]]))) (List.replicate 64 0xA5))
      3 32 (List.replicate 100 0x11) 40) 40 = .struct [.bits 513, .str [104, 105]] := by
  rfl

/-! non-vacuity of `C09_writes_do_not_show_through`: the same struct copied inside ONE memory from offset 3 to offset 40; element
[0] (2 bytes at +8, after the size word) of the copy is then stored: the copy reads the new element, the source the old one -/
private def exT : Ty := .struct [.scalar 2, .string]
private def exV : Val := .struct [.bits 513, .str [104, 105]]
private def exM : Mem := apply (shift 3 (patchesD exT exV)) (List.replicate 100 0xA5)
private def exC : Mem := copyBytes exM 3 (vsize exT exV) exM 40
example :
    leafAt exT exV [0] = some (8, 2) ∧ 40 + vsize exT exV ≤ exM.length ∧ 3 + vsize exT exV ≤ 40 ∧
    readD exT (setScalar exC (40 + 8) 2 7) 40 = .struct [.bits 7, .str [104, 105]] ∧
    readD exT (setScalar exC (40 + 8) 2 7) 3 = exV := by
  refine ⟨by decide +kernel, by decide +kernel, by decide +kernel, rfl, rfl⟩

end Lay
