import Xo.Props.C08
/-! C09 — copy-construction yields an equal, storage-disjoint object (property theorems only).
Reference-free types are copied byte for byte (`update_from_xbuffer`, into the same buffer, another buffer or another context -
the model's `copyBytes` from any source memory into any destination memory).  Types holding references are rebuilt field- /
item-wise (executable heap model, tie + oracle): `_partial`. -/
namespace Lay
open MemS

/-- translating a window: applying the same relative patches to two memories whose windows hold the same bytes yields
windows that hold the same bytes -/
theorem apply_translate : ∀ (ps : List Patch) (size : Nat), Within ps 0 size →
    ∀ (m0 m1 : Mem) (src dst : Nat), src + size ≤ m0.length → dst + size ≤ m1.length →
    (∀ i, i < size → m1[dst + i]? = m0[src + i]?) →
    ∀ i, i < size → (apply (shift dst ps) m1)[dst + i]? = (apply (shift src ps) m0)[src + i]?
 | [], _, _, m0, m1, src, dst, _, _, h => by simpa [shift, apply] using h
 | p :: ps, size, hw, m0, m1, src, dst, hs, hd, h => by
    have hp := hw p (List.mem_cons_self)
    have hrest : Within ps 0 size := fun q hq => hw q (List.mem_cons_of_mem _ hq)
    simp only [shift_cons, apply, List.foldl_cons]
    have hl0 := length_writeAt m0 (p.1 + src) p.2 (by omega)
    have hl1 := length_writeAt m1 (p.1 + dst) p.2 (by omega)
    have := apply_translate ps size hrest (writeAt m0 (p.1 + src) p.2) (writeAt m1 (p.1 + dst) p.2) src dst
      (by omega) (by omega) (by
        intro i hi
        rw [getElem?_writeAt m1 _ _ (by omega), getElem?_writeAt m0 _ _ (by omega)]
        by_cases hin : p.1 ≤ i ∧ i < p.1 + p.2.length
        · have c1 : p.1 + dst ≤ dst + i ∧ dst + i < p.1 + dst + p.2.length := by omega
          have c0 : p.1 + src ≤ src + i ∧ src + i < p.1 + src + p.2.length := by omega
          simp only [c1, c0, and_self, ↓reduceIte]
          congr 1; omega
        · have c1 : ¬ (p.1 + dst ≤ dst + i ∧ dst + i < p.1 + dst + p.2.length) := by omega
          have c0 : ¬ (p.1 + src ≤ src + i ∧ src + i < p.1 + src + p.2.length) := by omega
          simp only [c1, c0, ↓reduceIte]
          exact h i hi)
    simpa [apply] using this

/-- **equal**: the byte copy of a written reference-free object - into any destination memory at any offset with room -
reads as the same value as the source -/
theorem C09_equal_partial (t : Ty) (v : Val) (hw : t.WF) (hc : Conf t v) (hs : vsize t v < 2 ^ 64)
    (m0 : Mem) (src : Nat) (hb0 : src + vsize t v ≤ m0.length)
    (D : Mem) (dst : Nat) (hbD : dst + vsize t v ≤ D.length) :
    readD t (copyBytes (apply (shift src (patchesD t v)) m0) src (vsize t v) D dst) dst = v.norm ∧
    readD t (apply (shift src (patchesD t v)) m0) src = v.norm := by
  refine ⟨?_, rtD t v hw hc hs m0 src hb0 _ (fun _ _ _ => rfl)⟩
  have hwin := withinD t v hw hc
  have hlenM : (apply (shift src (patchesD t v)) m0).length = m0.length := by
    have h := within_shift (d := src) hwin
    have h' : Within (shift src (patchesD t v)) src (src + vsize t v) := by simpa [Nat.add_comm] using h
    exact (apply_frame _ m0 _ _ h' hb0).1
  -- base memory for the copy: the destination with the source's UNDERLYING bytes moved in
  let m1 := writeAt D dst (readAt m0 src (vsize t v))
  have hrl0 : (readAt m0 src (vsize t v)).length = vsize t v := by simp [readAt]; omega
  have hrlM : (readAt (apply (shift src (patchesD t v)) m0) src (vsize t v)).length = vsize t v := by
    simp [readAt]; omega
  have hl1 : m1.length = D.length := length_writeAt D dst _ (by rw [hrl0]; exact hbD)
  apply rtD t v hw hc hs m1 dst (by rw [hl1]; exact hbD)
  intro j hj1 hj2
  obtain ⟨i, rfl⟩ : ∃ i, j = dst + i := ⟨j - dst, by omega⟩
  have hi : i < vsize t v := by omega
  have htr := apply_translate (patchesD t v) (vsize t v) hwin m0 m1 src dst hb0 (by rw [hl1]; exact hbD)
    (by
      intro k hk
      show (writeAt D dst (readAt m0 src (vsize t v)))[dst + k]? = m0[src + k]?
      rw [getElem?_writeAt D dst _ (by rw [hrl0]; exact hbD)]
      have : dst ≤ dst + k ∧ dst + k < dst + (readAt m0 src (vsize t v)).length := by rw [hrl0]; omega
      simp only [this, and_self, ↓reduceIte]
      rw [getElem?_readAt]; simp [hk]) i hi
  rw [htr]
  unfold copyBytes
  rw [getElem?_writeAt D dst _ (by rw [hrlM]; exact hbD)]
  have : dst ≤ dst + i ∧ dst + i < dst + (readAt (apply (shift src (patchesD t v)) m0) src (vsize t v)).length := by
    rw [hrlM]; omega
  simp only [this, and_self, ↓reduceIte]
  rw [getElem?_readAt]; simp [hi]

/-- **storage-disjoint, writes do not show through**: when the copy's extent is disjoint from the source's (it is: the copy is
placed by the allocator, C04_alloc / C08_copy_fresh), the copy leaves the source as it was, and any later write inside the
copy's extent leaves the source's value unchanged (and symmetrically) -/
theorem C09_source_unaffected (t : Ty) (v : Val) (hw : t.WF) (hc : Conf t v) (hs : vsize t v < 2 ^ 64)
    (m0 : Mem) (src : Nat) (hb0 : src + vsize t v ≤ m0.length) (dst : Nat)
    (hd : dst + vsize t v ≤ src ∨ src + vsize t v ≤ dst) (bytes : List UInt8) (hlen : bytes.length = vsize t v)
    (hbd : dst + vsize t v ≤ m0.length) :
    readD t (writeAt (apply (shift src (patchesD t v)) m0) dst bytes) src = v.norm := by
  apply rtD t v hw hc hs m0 src hb0
  have hlenM : (apply (shift src (patchesD t v)) m0).length = m0.length := by
    have h := within_shift (d := src) (withinD t v hw hc)
    have h' : Within (shift src (patchesD t v)) src (src + vsize t v) := by simpa [Nat.add_comm] using h
    exact (apply_frame _ m0 _ _ h' hb0).1
  intro i h1 h2
  rw [getElem?_writeAt _ dst bytes (by rw [hlen, hlenM]; exact hbd)]
  have : ¬ (dst ≤ i ∧ i < dst + bytes.length) := by rw [hlen]; omega
  simp [this]

/-! non-vacuity: a dynamic struct copied from offset 3 of one memory to offset 40 of another -/
example :
    readD (.struct [.scalar 2, .string]) (copyBytes
      (apply (shift 3 (patchesD (.struct [.scalar 2, .string]) (.struct [.bits 513, .str [104, 105]]))) (List.replicate 64 0xA5))
      3 32 (List.replicate 100 0x11) 40) 40 = .struct [.bits 513, .str [104, 105]] := by
  rfl

end Lay
