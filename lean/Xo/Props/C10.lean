import Xo.Props.C11
import Xo.Lemmas.Path
import Xo.Lemmas.RefGraphOps
import Xo.Lemmas.PathPart
import Xo.Lemmas.Copy
import Xo.Lemmas.ArrayKeep
/-! C10 — assigning one element changes that element and nothing else (property theorems only).
Byte level, for every memory and every slot address: the assignment of a scalar or of a fitting string rewrites exactly the
slot's bytes; combined with read locality (`C01_read_local`: a part's value depends only on the bytes of its own extent) every
other element, every size word, every dimension, stride and offset of the enclosing object - all of which live outside the
slot (C03: siblings are disjoint, headers precede the data) - reads as before.
Value level, for every reference-free type, every conforming value and EVERY NESTED PATH to a scalar leaf
(`C10_set_leaf_at_path`): writing the leaf makes a view of the whole enclosing object read the value with exactly that leaf
replaced - every other field and item at every level, every string, every shape - and the object keeps its size.  `leafAt`
and `updAt` are executed against the library on every generated scalar assignment (`lay` driver).  Whole-string and
whole-compound assignments are covered at byte level (C11 theorems) and by the tie; paths through references by the heap
model and the oracle only. -/
namespace Lay
open MemS

/-- **the assigned element**: after assigning scalar bits `b` (in range) to a slot, the slot reads back exactly `b` -/
theorem C10_scalar_set_get (m : Mem) (addr w b : Nat) (hb : addr + w ≤ m.length) (hr : b < 256 ^ w) :
    readD (.scalar w) (setScalar m addr w b) addr = .bits b := by
  unfold setScalar
  simp only [readD]
  have := readAt_writeAt_same m addr (le w b) (by rw [le_length]; exact hb)
  rw [le_length] at this
  rw [this, fromLE_le, Nat.mod_eq_of_lt hr]

/-- **nothing else**: every byte outside the slot is unchanged, the buffer keeps its length -/
theorem C10_scalar_frame (m : Mem) (addr w b : Nat) (hb : addr + w ≤ m.length) :
    (setScalar m addr w b).length = m.length ∧
    ∀ i, (i < addr ∨ addr + w ≤ i) → (setScalar m addr w b)[i]? = m[i]? :=
  C11_scalar_never_overruns m addr w b hb

/-- **every other part reads as before**: any object (of any type) whose extent is disjoint from the assigned slot - a sibling
field or item, or an unrelated object in the same buffer - reads the same value after the assignment -/
theorem C10_other_parts_unchanged_partial (m0 : Mem) (t : Ty) (v : Val) (hw : t.WF) (hc : Conf t v) (hs : vsize t v < 2^64)
    (off : Nat) (hbo : off + vsize t v ≤ m0.length) (m : Mem)
    (hm : Agree m (apply (shift off (patchesD t v)) m0) off (off + vsize t v)) (_hlen : m.length = m0.length)
    (addr w b : Nat) (hb : addr + w ≤ m.length) (hd : addr + w ≤ off ∨ off + vsize t v ≤ addr) :
    readD t (setScalar m addr w b) off = v.norm := by
  apply rtD t v hw hc hs m0 off hbo
  have hf := (C10_scalar_frame m addr w b hb).2
  intro i h1 h2
  rw [hf i (by omega)]
  exact hm i h1 h2

/-- the same for an accepted string assignment: parts outside the string's fixed extent are unchanged -/
theorem C10_other_parts_unchanged_string_partial (m0 : Mem) (t : Ty) (v : Val) (hw : t.WF) (hc : Conf t v) (hs : vsize t v < 2^64)
    (off : Nat) (hbo : off + vsize t v ≤ m0.length) (m : Mem)
    (hm : Agree m (apply (shift off (patchesD t v)) m0) off (off + vsize t v))
    (addr : Nat) (bs : List UInt8) (m' : Mem) (hcur : 8 ≤ fromLE (readAt m addr 8))
    (hb : addr + fromLE (readAt m addr 8) ≤ m.length) (h : rewriteStr m addr (.str bs) = .ok m')
    (hd : addr + fromLE (readAt m addr 8) ≤ off ∨ off + vsize t v ≤ addr) :
    readD t m' off = v.norm := by
  apply rtD t v hw hc hs m0 off hbo
  have hf := (C11_string_fit_frame m addr bs m' hcur hb h).2.2.1
  intro i h1 h2
  rw [hf i (by omega)]
  exact hm i h1 h2

/-- sizes never change: the stored size word of a string survives every accepted assignment (C11_string_fit_frame), and a
scalar assignment touches no header at all because headers lie outside every slot -/
theorem C10_sizes_unchanged (m : Mem) (addr : Nat) (bs : List UInt8) (m' : Mem)
    (hcur : 8 ≤ fromLE (readAt m addr 8)) (hb : addr + fromLE (readAt m addr 8) ≤ m.length)
    (h : rewriteStr m addr (.str bs) = .ok m') :
    fromLE (readAt m' addr 8) = fromLE (readAt m addr 8) :=
  (C11_string_fit_frame m addr bs m' hcur hb h).2.2.2

/-- **assigning one scalar element through any nested path** (fields and items at any depth, static or dynamic sizes, any
shape and axis order): in any memory `m` that holds the written object `v : t` on its extent - whatever surrounds it, and
whatever the buffer held before - storing the leaf's bytes at the leaf's address makes a view of the whole object read
`updAt t v p b`: the value with that leaf, and nothing else, replaced; the object's size is unchanged and the store lies
inside the object -/
theorem C10_set_leaf_at_path (t : Ty) (v : Val) (hw : t.WF) (hc : Conf t v) (hs : vsize t v < 2^64)
    (m0 : Mem) (off : Nat) (hbo : off + vsize t v ≤ m0.length) (m : Mem)
    (hm : Agree m (apply (shift off (patchesD t v)) m0) off (off + vsize t v)) (hlen : m.length = m0.length)
    (p : List Nat) (lo w b : Nat) (hl : leafAt t v p = some (lo, w)) (hb : b < 256 ^ w) :
    ∃ v', updAt t v p b = some v' ∧ Conf t v' ∧ vsize t v' = vsize t v ∧ lo + w ≤ vsize t v ∧
      readD t (setScalar m (off + lo) w b) off = v'.norm :=
  set_leaf_rt t v hw hc hs m0 off hbo m hm hlen p lo w b hl hb

/-- the assignments compose: the memory after one assignment again holds a written object (the updated value) on the extent,
so any further sequence of leaf assignments is covered by repeating `C10_set_leaf_at_path` -/
theorem C10_set_leaf_again (t : Ty) (v : Val) (hw : t.WF) (hc : Conf t v)
    (m0 : Mem) (off : Nat) (hbo : off + vsize t v ≤ m0.length) (m : Mem)
    (hm : Agree m (apply (shift off (patchesD t v)) m0) off (off + vsize t v)) (hlen : m.length = m0.length)
    (p : List Nat) (lo w b : Nat) (hl : leafAt t v p = some (lo, w)) (hb : b < 256 ^ w) :
    ∃ v', updAt t v p b = some v' ∧ (setScalar m (off + lo) w b).length = m0.length ∧
      Agree (setScalar m (off + lo) w b) (apply (shift off (patchesD t v')) m0) off (off + vsize t v') := by
  obtain ⟨v', A, B, x, i1, i2, i3, i4, i5, i6, i7, i8⟩ := leaf_decomp p t v lo w b hw hc hl hb
  refine ⟨v', i1, ?_, ?_⟩
  · unfold setScalar
    rw [length_writeAt _ _ _ (by rw [le_length, hlen]; omega), hlen]
  · rw [i3]
    have hy : (le w b).length = w := le_length w b
    have hP : InBounds (shift off (patchesD t v)) m0.length := inBounds_shift_of_within (withinD t v hw hc) hbo
    have hlP := apply_length _ m0 hP
    rw [i4, shift_append, shift_cons] at hP hm hlP
    have key := apply_leaf_replaced (shift off A) (shift off B) (lo + off) x (le w b) m0 (by rw [i6, hy]) hP
      (by rw [hy]; exact outside_mono (outside_shift (d := off) i7) (Nat.le_refl _) (by omega))
    rw [i5, shift_append, shift_cons]
    intro i h1 h2
    rw [key i]
    unfold setScalar
    have e : off + lo = lo + off := Nat.add_comm _ _
    rw [e, getElem?_writeAt m (lo + off) (le w b) (by rw [hy, hlen]; omega),
        getElem?_writeAt _ (lo + off) (le w b) (by rw [hy, hlP]; omega)]
    by_cases hin : lo + off ≤ i ∧ i < lo + off + (le w b).length
    · simp [hin]
    · simp only [hin, if_false]
      exact hm i h1 h2

/-- **set a whole nested array / struct (any part) of equal size, value level**: for every reference-free type, conforming value and
path to a part (a field, an item, nested to any depth; the empty path is the object itself): if the place of that part receives an
image of a conforming value `v2` of the same size - and no other byte of the object changes - a view of the WHOLE enclosing object
reads the value with exactly that part replaced (`setAt`: every other field and item at every level, every size, shape, stride and
offset as before), and the object keeps its size -/
theorem C10_set_part_at_path (t : Ty) (v : Val) (hw : t.WF) (hc : Conf t v) (hs : vsize t v < 2 ^ 64)
    (m0 : Mem) (off : Nat) (hb0 : off + vsize t v ≤ m0.length) (M : Mem)
    (hM : Agree M (apply (shift off (patchesD t v)) m0) off (off + vsize t v))
    (p : List Nat) (o : Nat) (t' : Ty) (v1 : Val) (hp : partAt t v p = some (o, t', v1))
    (v2 : Val) (hc2 : Conf t' v2) (hsz : vsize t' v2 = vsize t' v1)
    (N : Mem) (hlN : N.length = m0.length)
    (hout : ∀ i, off ≤ i → i < off + vsize t v → (i < off + o ∨ off + o + vsize t' v1 ≤ i) → N[i]? = M[i]?)
    (m1 : Mem) (hl1 : m1.length = m0.length)
    (hin : Agree N (apply (shift (off + o) (patchesD t' v2)) m1) (off + o) (off + o + vsize t' v1)) :
    ∃ v', setAt t v p v2 = some v' ∧ Conf t v' ∧ vsize t v' = vsize t v ∧ readD t N off = v'.norm :=
  set_part_rt t v hw hc hs m0 off hb0 M hM p o t' v1 hp v2 hc2 hsz N hlN hout m1 hl1 hin

/-- … in the form `Struct._update` / `Array._update` perform it for an existing object of the same class and size: the BINARY COPY
(`update_from_xbuffer`) of an object `v2` held by any memory `S` at `src` onto the part's place -/
theorem C10_assign_part_by_copy (t : Ty) (v : Val) (hw : t.WF) (hc : Conf t v) (hs : vsize t v < 2 ^ 64)
    (m0 : Mem) (off : Nat) (hb0 : off + vsize t v ≤ m0.length) (M : Mem) (hlM : M.length = m0.length)
    (hM : Agree M (apply (shift off (patchesD t v)) m0) off (off + vsize t v))
    (p : List Nat) (o : Nat) (t' : Ty) (v1 : Val) (hp : partAt t v p = some (o, t', v1))
    (v2 : Val) (hc2 : Conf t' v2) (hsz : vsize t' v2 = vsize t' v1)
    (s0 S : Mem) (src : Nat) (hbs : src + vsize t' v2 ≤ s0.length) (hlS : src + vsize t' v2 ≤ S.length)
    (hS : Agree S (apply (shift src (patchesD t' v2)) s0) src (src + vsize t' v2)) :
    ∃ v', setAt t v p v2 = some v' ∧ vsize t v' = vsize t v ∧
      readD t (copyBytes S src (vsize t' v2) M (off + o)) off = v'.norm := by
  obtain ⟨g1, _, g3, _⟩ := path_decomp p t v o t' v1 hw hc hp
  have hfit : off + o + vsize t' v2 ≤ M.length := by rw [hsz, hlM]; omega
  obtain ⟨m1, hl1, hag⟩ := copy_agree t' v2 g1 hc2 s0 src hbs S hlS hS M (off + o) hfit
  have hrl : (readAt S src (vsize t' v2)).length = vsize t' v2 := by simp [readAt]; omega
  have hlN : (copyBytes S src (vsize t' v2) M (off + o)).length = m0.length := by
    unfold copyBytes
    rw [length_writeAt _ _ _ (by rw [hrl]; exact hfit)]; exact hlM
  obtain ⟨v', j1, _, j3, j4⟩ := set_part_rt t v hw hc hs m0 off hb0 M hM p o t' v1 hp v2 hc2 hsz
    (copyBytes S src (vsize t' v2) M (off + o)) hlN
    (by
      intro i _ _ hio
      unfold copyBytes
      rw [getElem?_writeAt _ _ _ (by rw [hrl]; exact hfit), hrl]
      have : ¬ (off + o ≤ i ∧ i < off + o + vsize t' v2) := by rw [hsz]; omega
      simp [this])
    m1 (by rw [hl1, hlM]) (by rw [← hsz]; exact hag)
  exact ⟨v', j1, j3, j4⟩

/-- **whole-node assignment with references** (node model `Xo/Model/RefGraph.lean`, component `rg`): `h._update(t)` - what assigning
a node to a nested node field does - for two live nodes of the same class in a state satisfying the reference-graph invariant (every
reachable state, `C08_ref_history`) allocates nothing, changes no live region's place, makes every scalar of `h` read the value `t`'s
has and every reference of `h` denote the SAME referent as `t`'s (or null like it), and the invariant holds again: no reference of any
other node is disturbed -/
theorem C10_node_update (u : RG.Univ) (hu : RG.UWF u) (s : RG.St) (hi : RG.Inv u s) (ha ta : Nat) :
    RG.Inv u (RG.updObj u s ha ta) ∧ (RG.updObj u s ha ta).b.a = s.b.a ∧ (RG.updObj u s ha ta).live = s.live ∧
    ∀ h t c cl, RG.findObj s ha = some h → RG.findObj s ta = some t → h.cls = some c → t.cls = some c → u[c]? = some cl →
      ∀ k fk, cl[k]? = some fk →
        (fk = .scal → fromLE (readAt (RG.updObj u s ha ta).b.mem (h.addr + RG.foff cl k) 8)
            = fromLE (readAt s.b.mem (t.addr + RG.foff cl k) 8)) ∧
        (fk ≠ .scal → deref (RG.updObj u s ha ta).b.mem (h.addr + RG.foff cl k) = deref s.b.mem (t.addr + RG.foff cl k) ∧
          ∀ x, deref s.b.mem (t.addr + RG.foff cl k) = some x →
            RG.refClass (RG.updObj u s ha ta) fk (h.addr + RG.foff cl k) = RG.refClass s fk (t.addr + RG.foff cl k)) :=
  RG.updObj_spec hu hi ha ta

/-- the hypotheses are satisfiable and the path machinery computes: in `{f0: UInt64, f1: UInt32[2], f2: String}` holding
`{1, [5, 6], "ab"}` the item `f1[1]` is the 4 bytes at offset 20 (after the size word, f0 and f1[0]); deeper, in
`{f0: String, f1: {UInt16, String}[:], f2: UInt64}` the leaf `f1[1].f0` of a value with strings of different lengths is the 2
bytes at offset 120 -/
example : leafAt (.struct [.scalar 8, .array (.scalar 4) [some 2] [0], .string])
      (.struct [.bits 1, .arr [2] [.bits 5, .bits 6], .str [97, 98]]) [1, 1] = some (20, 4) := rfl
example : leafAt (.struct [.string, .array (.struct [.scalar 2, .string]) [none] [0], .scalar 8])
      (.struct [.str [97], .arr [2] [.struct [.bits 5, .str [1,2,3,4,5,6,7,8,9]], .struct [.bits 6, .str []]], .bits 7]) [1, 1, 0]
      = some (120, 2) := rfl

/-- non-vacuity of the whole-part theorems: in `{f0: UInt64, f1: UInt32[2], f2: String}` holding `{1, [5, 6], "ab"}` the part `f1` is
the 8 bytes at offset 16 and replacing it by `[7, 8]` gives `{1, [7, 8], "ab"}`; executed: the byte copy of a separately built `[7, 8]`
onto that place makes a view of the whole struct read exactly that -/
example : partAt (.struct [.scalar 8, .array (.scalar 4) [some 2] [0], .string])
      (.struct [.bits 1, .arr [2] [.bits 5, .bits 6], .str [97, 98]]) [1] = some (16, .array (.scalar 4) [some 2] [0], .arr [2] [.bits 5, .bits 6]) := rfl
example : setAt (.struct [.scalar 8, .array (.scalar 4) [some 2] [0], .string])
      (.struct [.bits 1, .arr [2] [.bits 5, .bits 6], .str [97, 98]]) [1] (.arr [2] [.bits 7, .bits 8])
      = some (.struct [.bits 1, .arr [2] [.bits 7, .bits 8], .str [97, 98]]) := rfl
example : readD (.struct [.scalar 8, .array (.scalar 4) [some 2] [0], .string])
      (copyBytes (apply (shift 3 (patchesD (.array (.scalar 4) [some 2] [0]) (.arr [2] [.bits 7, .bits 8]))) (List.replicate 16 0x11)) 3 8
        (apply (shift 5 (patchesD (.struct [.scalar 8, .array (.scalar 4) [some 2] [0], .string])
          (.struct [.bits 1, .arr [2] [.bits 5, .bits 6], .str [97, 98]]))) (List.replicate 64 0xA5)) (5 + 16)) 5
      = .struct [.bits 1, .arr [2] [.bits 7, .bits 8], .str [97, 98]] := rfl

/-- **a whole-array assignment of ANY fitting size reads back as the assigned value** (`Array._update`, model `Lay.updateArr` -
executed against the library on every whole-array assignment): the value may need fewer bytes than the instance has (dynamically
sized items that became shorter); the instance keeps its size word, and a view of the array reads exactly the assigned items in
the assigned shape.  With `C11_array_update_frame` (nothing outside the instance changes) and read locality (`C01_read_local`)
every other element of an enclosing object reads as before.  `rt_array_keep`: the view never reads the first header word. -/
theorem C10_array_update_value (it : Ty) (shape : List (Option Nat)) (order : List Nat) (m m' : Mem) (addr : Nat)
    (sh : List Nat) (items : List Val) (hwf : (Ty.array it shape order).WF) (hc : Conf (.array it shape order) (.arr sh items))
    (hsz : vsize (.array it shape order) (.arr sh items) < 2^64)
    (hb : addr + (if (ainfo it shape).staticShape && (ainfo it shape).staticType
                  then vsize (.array it shape order) (.arr sh items) else fromLE (readAt m addr 8)) ≤ m.length)
    (h : updateArr it shape order m addr (.arr sh items) = .ok m') :
    readD (.array it shape order) m' addr = (Val.arr sh items).norm := by
  unfold updateArr at h
  by_cases hd : ((ainfo it shape).staticShape && (ainfo it shape).staticType) = true
  · simp only [hd, ↓reduceIte] at h hb
    split at h
    · cases h
    · injection h with h; subst h
      exact rtD _ _ hwf hc hsz m addr hb _ (fun _ _ _ => rfl)
  · have hd' : ((ainfo it shape).staticShape && (ainfo it shape).staticType) = false := by simpa using hd
    simp only [hd', Bool.false_eq_true, ↓reduceIte] at h hb
    split at h
    · cases h
    · split at h
      · cases h
      · rename_i _ hfit
        injection h with h; subst h
        exact rt_array_keep it shape order sh items hwf hc hsz hd' _ m addr (by omega) _ (fun _ _ _ => rfl)

end Lay
