import Xo.Props.C11
/-! C10 — assigning one element changes that element and nothing else (property theorems only).
Byte level, for every memory and every slot address: the assignment of a scalar or of a fitting string rewrites exactly the
slot's bytes; combined with read locality (`C01_read_local`: a part's value depends only on the bytes of its own extent) every
other element, every size word, every dimension, stride and offset of the enclosing object - all of which live outside the
slot (C03: siblings are disjoint, headers precede the data) - reads as before.  The value-level statement for arbitrary nested
paths is checked by the tie and the oracle on every generated assignment; as a theorem it is `_partial` (leaf slots only). -/
namespace Lay
open MemS

/-- **the assigned element**: after assigning scalar bits `b` (in range) to a slot, the slot reads back exactly `b` -/
theorem C10_scalar_set_get (m : Mem) (addr w b : Nat) (hb : addr + w ≤ m.length) (hr : b < 256 ^ w) :
    readD (.scalar w) (setScalar m addr w b) addr = .bits b := by
  unfold setScalar
  simp only [readD]
  have := readAt_writeAt_same m addr (le w b) (by rw [le_length]; exact hb)
  rw [le_length] at this
  rw [this, fromLE_le, Nat.mod_eq_of_lt hr]

/-- **nothing else**: every byte outside the slot is unchanged, the buffer keeps its length -/
theorem C10_scalar_frame (m : Mem) (addr w b : Nat) (hb : addr + w ≤ m.length) :
    (setScalar m addr w b).length = m.length ∧
    ∀ i, (i < addr ∨ addr + w ≤ i) → (setScalar m addr w b)[i]? = m[i]? :=
  C11_scalar_never_overruns m addr w b hb

/-- **every other part reads as before**: any object (of any type) whose extent is disjoint from the assigned slot - a sibling
field or item, or an unrelated object in the same buffer - reads the same value after the assignment -/
theorem C10_other_parts_unchanged_partial (m0 : Mem) (t : Ty) (v : Val) (hw : t.WF) (hc : Conf t v) (hs : vsize t v < 2^64)
    (off : Nat) (hbo : off + vsize t v ≤ m0.length) (m : Mem)
    (hm : Agree m (apply (shift off (patchesD t v)) m0) off (off + vsize t v)) (hlen : m.length = m0.length)
    (addr w b : Nat) (hb : addr + w ≤ m.length) (hd : addr + w ≤ off ∨ off + vsize t v ≤ addr) :
    readD t (setScalar m addr w b) off = v.norm := by
  apply rtD t v hw hc hs m0 off hbo
  have hf := (C10_scalar_frame m addr w b hb).2
  intro i h1 h2
  rw [hf i (by omega)]
  exact hm i h1 h2

/-- the same for an accepted string assignment: parts outside the string's fixed extent are unchanged -/
theorem C10_other_parts_unchanged_string_partial (m0 : Mem) (t : Ty) (v : Val) (hw : t.WF) (hc : Conf t v) (hs : vsize t v < 2^64)
    (off : Nat) (hbo : off + vsize t v ≤ m0.length) (m : Mem)
    (hm : Agree m (apply (shift off (patchesD t v)) m0) off (off + vsize t v))
    (addr : Nat) (bs : List UInt8) (m' : Mem) (hcur : 8 ≤ fromLE (readAt m addr 8))
    (hb : addr + fromLE (readAt m addr 8) ≤ m.length) (h : rewriteStr m addr (.str bs) = .ok m')
    (hd : addr + fromLE (readAt m addr 8) ≤ off ∨ off + vsize t v ≤ addr) :
    readD t m' off = v.norm := by
  apply rtD t v hw hc hs m0 off hbo
  have hf := (C11_string_fit_frame m addr bs m' hcur hb h).2.2.1
  intro i h1 h2
  rw [hf i (by omega)]
  exact hm i h1 h2

/-- sizes never change: the stored size word of a string survives every accepted assignment (C11_string_fit_frame), and a
scalar assignment touches no header at all because headers lie outside every slot -/
theorem C10_sizes_unchanged (m : Mem) (addr : Nat) (bs : List UInt8) (m' : Mem)
    (hcur : 8 ≤ fromLE (readAt m addr 8)) (hb : addr + fromLE (readAt m addr 8) ≤ m.length)
    (h : rewriteStr m addr (.str bs) = .ok m') :
    fromLE (readAt m' addr 8) = fromLE (readAt m addr 8) :=
  (C11_string_fit_frame m addr bs m' hcur hb h).2.2.2

end Lay
