import Xo.Model.Pickle
import Xo.Props.C04
import Xo.Lemmas.LayoutRT
/-! C20 — pickled objects come back usable, equal, and sharing what they shared (property theorems only).
Python's memoised graph copy is ASSUMED (it is the model); the theorems are about what the classes' `__getstate__` /
`__setstate__` make of it.  That the real pickle behaves like the model is the tie: real `pickle.loads(pickle.dumps(objs))`
on importable generated classes, then reads, writes and allocations on the result (partial: pickle itself is runtime). -/
namespace Pk

theorem memo_mem_acc : ∀ (hs : List Handle) (acc : List Nat) (b : Nat), b ∈ acc → b ∈ memo hs acc
 | [], _, _, h => h
 | x :: xs, acc, b, h => by
    simp only [memo]
    split
    · exact memo_mem_acc xs acc b h
    · exact memo_mem_acc xs _ b (List.mem_append_left _ h)

theorem memo_contains : ∀ (hs : List Handle) (acc : List Nat) (h : Handle), h ∈ hs → h.buf ∈ memo hs acc
 | x :: xs, acc, h, hm => by
    simp only [memo]
    rcases List.mem_cons.mp hm with rfl | hm
    · split
      · rename_i hc; exact memo_mem_acc xs acc _ (by simpa using hc)
      · exact memo_mem_acc xs _ _ (List.mem_append_right _ (List.mem_singleton.mpr rfl))
    · split
      · exact memo_contains xs acc h hm
      · exact memo_contains xs _ h hm

theorem memo_nodup : ∀ (hs : List Handle) (acc : List Nat), acc.Nodup → (memo hs acc).Nodup
 | [], _, h => h
 | x :: xs, acc, h => by
    simp only [memo]
    split
    · exact memo_nodup xs acc h
    · rename_i hc
      apply memo_nodup xs
      rw [List.nodup_append]
      refine ⟨h, by simp, ?_⟩
      intro a ha b hb
      simp at hb; subst hb
      intro e; subst e
      exact hc (by simpa using ha)

/-- **sharing**: two pickled handles share a buffer afterwards exactly when they shared one before; offsets and classes are kept -/
theorem C20_sharing (H : Heap) (hs : List Handle) (i j : Nat) (hi : i < hs.length) (hj : j < hs.length) :
    let out := (roundtrip H hs).2
    (out.getD i default).off = (hs.getD i default).off ∧ (out.getD i default).ty = (hs.getD i default).ty ∧
    ((out.getD i default).buf = (out.getD j default).buf ↔ (hs.getD i default).buf = (hs.getD j default).buf) := by
  simp only [roundtrip, List.getD_eq_getElem?_getD, List.getElem?_map, List.getElem?_eq_getElem hi, List.getElem?_eq_getElem hj,
    Option.map_some, Option.getD_some]
  refine ⟨trivial, trivial, ?_⟩
  constructor
  · intro h
    have hnd := memo_nodup hs [] List.nodup_nil
    have h1 := memo_contains hs [] hs[i] (List.getElem_mem hi)
    have h2 := memo_contains hs [] hs[j] (List.getElem_mem hj)
    have : indexOf (memo hs []) hs[i].buf = indexOf (memo hs []) hs[j].buf := by omega
    unfold indexOf at this
    have e1 := List.getElem_idxOf (List.idxOf_lt_length_of_mem h1)
    have e2 := List.getElem_idxOf (List.idxOf_lt_length_of_mem h2)
    rw [← e1, ← e2]
    simp only [this]
  · intro h; rw [h]

/-- **independent**: every unpickled handle lives in a NEW buffer (an index beyond the existing ones), so no write through the
original can reach it and vice versa; the existing buffers are untouched -/
theorem C20_independent (H : Heap) (hs : List Handle) (i : Nat) (hi : i < hs.length) :
    H.bufs.length ≤ ((roundtrip H hs).2.getD i default).buf ∧
    ∀ k, k < H.bufs.length → (roundtrip H hs).1.bufs[k]? = H.bufs[k]? := by
  constructor
  · simp [roundtrip, List.getD_eq_getElem?_getD, List.getElem?_map, List.getElem?_eq_getElem hi]
  · intro k hk
    simp only [roundtrip]
    rw [List.getElem?_append_left hk]

/-- **equal and a working allocator**: the duplicate of a buffer has the same bytes and the same allocator state (capacity, free
list, alignment) - so every object reads the same value there (C01_read_local) and the allocator invariant of C04/C12 holds
for it with the same live regions -/
theorem C20_buffer_copied (H : Heap) (hs : List Handle) (i : Nat) (hi : i < hs.length)
    (hb : (hs.getD i default).buf < H.bufs.length) :
    (roundtrip H hs).1.bufs[((roundtrip H hs).2.getD i default).buf]? = H.bufs[(hs.getD i default).buf]? := by
  simp only [roundtrip, List.getD_eq_getElem?_getD, List.getElem?_map, List.getElem?_eq_getElem hi, Option.map_some,
    Option.getD_some]
  have h1 := memo_contains hs [] hs[i] (List.getElem_mem hi)
  have hlt := List.idxOf_lt_length_of_mem h1
  rw [List.getElem?_append_right (by omega)]
  simp only [Nat.add_sub_cancel_left, indexOf]
  rw [List.getElem?_map, List.getElem?_eq_getElem hlt, Option.map_some, List.getElem_idxOf hlt]
  simp only [List.getD_eq_getElem?_getD] at hb ⊢
  rw [List.getElem?_eq_getElem hi] at hb
  simp only [Option.getD_some] at hb
  rw [List.getElem?_eq_getElem hb]; simp

theorem C20_allocator (s : Alloc.AState) (live : List Alloc.Region) (h : Alloc.Inv s live) (s' : Alloc.AState) (e : s' = s) :
    Alloc.Inv s' live := e ▸ h

/-- an unpickled struct handle is `_from_buffer(buffer, offset)` on the copied bytes (`__setstate__` re-reads the cached
offsets and size): it reads the value the original holds -/
theorem C20_struct_usable (t : Lay.Ty) (v : Lay.Val) (hw : t.WF) (hc : Lay.Conf t v) (hs : Lay.vsize t v < 2 ^ 64)
    (m : MemS.Mem) (off : Nat) (hb : off + Lay.vsize t v ≤ m.length) (m' : MemS.Mem)
    (hcopy : m' = Lay.apply (Lay.shift off (Lay.patchesD t v)) m) :
    Lay.readD t m' off = v.norm := by
  subst hcopy
  exact Lay.rtD t v hw hc hs m off hb _ (fun _ _ _ => rfl)

/-! non-vacuity: three handles, two of them in one buffer -/
example : (roundtrip ⟨[⟨Alloc.init 8 1 none, [1]⟩, ⟨Alloc.init 16 8 none, [2]⟩]⟩ [⟨1, 0, 0⟩, ⟨0, 8, 1⟩, ⟨1, 4, 2⟩]).2
    = [⟨2, 0, 0⟩, ⟨3, 8, 1⟩, ⟨2, 4, 2⟩] := by decide

end Pk
