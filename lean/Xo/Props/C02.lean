import Xo.Model.CSem
/-! C02 — generated C accessors address the same bytes as the documented layout (property theorems only).

Everything here is quantified over ALL part lists (so in particular over every access path that
`dataPaths` enumerates for every type), ALL index tuples, ALL object addresses and ALL memories
(`ld` is an arbitrary function from address to the int64 stored there): all header contents at once. -/
namespace CGen

theorem execAll_append (ld : Load) (obj : Int) (idx : List Int) (a b : List Stmt) (off : Int) :
    execAll ld obj idx off (a ++ b) = execAll ld obj idx (execAll ld obj idx off a) b := by
  induction a generalizing off with
  | nil => rfl
  | cons s ss ih => simp [execAll, ih]

theorem execAll_dump (ld : Load) (obj : Int) (idx : List Int) (acc : Nat) (off : Int) :
    execAll ld obj idx off (dump acc) = off + (acc : Int) := by
  unfold dump
  split
  · simp [execAll, Stmt.exec]
  · have : acc = 0 := by omega
    subst this; simp [execAll]

/-- loop invariant of `gen_method_offset`: executed statements + static accumulator ≡ running documented address -/
theorem genStmts_correct (ld : Load) (obj : Int) (idx : List Int) :
    ∀ (ps : List Part) (acc ic : Nat) (off : Int),
      execAll ld obj idx off (genStmts ps acc ic) = docAddr ld obj idx ps (off + (acc : Int)) ic := by
  intro ps
  induction ps with
  | nil => intro acc ic off; simp [genStmts, docAddr, execAll_dump]
  | cons p ps ih =>
    intro acc ic off
    match p with
    | .index arr =>
      simp only [genStmts, docAddr, execAll_append, execAll_dump, execAll, Stmt.exec]
      rw [ih]; simp [partRank]
      cases arr <;> simp
    | .field _ o true =>
      simp only [genStmts, docAddr, execAll_append, execAll_dump, execAll, Stmt.exec]
      rw [ih]; simp
    | .field _ o false =>
      simp only [genStmts, docAddr]
      rw [ih]; congr 1; simp; omega
    | .ty (.ref _) =>
      simp only [genStmts, docAddr, execAll_append, execAll_dump, execAll, Stmt.exec]
      rw [ih]; simp
    | .ty (.scalar _) | .ty .string | .ty (.struct ..) | .ty (.array ..) | .ty (.unionref ..) =>
      simp only [genStmts, docAddr]; rw [ih]

/-- **C02 (address)**: for every access path, the offset computed by the emitted statements equals the documented
layout's address expression - for all indices, all objects, all header contents. -/
theorem C02_addr (ld : Load) (obj : Int) (idx : List Int) (path : List Part) :
    execAll ld obj idx 0 (genStmts path 0 0) = docAddr ld obj idx path 0 0 := by
  simpa using genStmts_correct ld obj idx path 0 0 0

/-- getters, setters and pointer accessors touch exactly the documented address of the path's target,
with the width of the target's scalar type -/
theorem C02_get_set_getp (f : CFun) (ld : Load) (obj : Int) (idx : List Int) (lt : Ty)
    (hl : lastTy f.path = some lt) :
    (f.kind = .get ∨ f.kind = .set → f.eval ld obj idx = .addr (docAddr ld obj idx f.path 0 0) (lt.ssize.getD 0)) ∧
    (f.kind = .getp → f.eval ld obj idx = .addr (docAddr ld obj idx f.path 0 0) 0) := by
  constructor
  · rintro (h | h) <;> simp [CFun.eval, hl, h, CFun.offset, C02_addr]
  · intro h; simp [CFun.eval, hl, h, CFun.offset, C02_addr]

/-- union accessors: the member index is the word after the reference slot; the member address is the slot's
address plus its content -/
theorem C02_typeid_member (f : CFun) (ld : Load) (obj : Int) (idx : List Int) (lt : Ty)
    (hl : lastTy f.path = some lt) :
    (f.kind = .typeid → f.eval ld obj idx = .val (ld (obj + (docAddr ld obj idx f.path 0 0 + 8)))) ∧
    (f.kind = .member → f.eval ld obj idx =
        .addr (docAddr ld obj idx f.path 0 0 + ld (obj + docAddr ld obj idx f.path 0 0)) 0) := by
  constructor <;> intro h <;> simp [CFun.eval, hl, h, CFun.offset, C02_addr]

theorem lenTerms_docDims (ld : Load) (base : Int) :
    ∀ (shape : List (Option Nat)) (k : Nat),
      (lenTerms shape k).map (termVal ld base) = docDims ld base shape k := by
  intro shape
  induction shape with
  | nil => intro k; simp [lenTerms, docDims]
  | cons d r ih =>
    intro k
    match d with
    | none => simp [lenTerms, docDims, termVal, ih (k + 1)]
    | some n => simp [lenTerms, docDims, termVal, ih k]

/-- **C02 (length)**: the length accessor of a dynamically shaped array returns the product of the documented
dimensions (static ones from the class, dynamic ones from the header words after the size). -/
theorem C02_len (f : CFun) (ld : Load) (obj : Int) (idx : List Int) (it : Ty) (shape : List (Option Nat))
    (order : List Nat) (hl : lastTy f.path = some (.array it shape order)) (hk : f.kind = .len)
    (hd : (arrInfo it shape order).staticShape = false) :
    f.eval ld obj idx = .val (prodInt (docDims ld (obj + docAddr ld obj idx f.path 0 0) shape 1)) := by
  simp only [CFun.eval, hl, hk, hd, CFun.offset, C02_addr]
  have := lenTerms_docDims ld (obj + docAddr ld obj idx f.path 0 0) shape 1
  simp [this]

/-- statically shaped arrays: the constant product of the class shape -/
theorem C02_len_static (f : CFun) (ld : Load) (obj : Int) (idx : List Int) (it : Ty) (shape : List (Option Nat))
    (order : List Nat) (hl : lastTy f.path = some (.array it shape order)) (hk : f.kind = .len)
    (hd : (arrInfo it shape order).staticShape = true) :
    f.eval ld obj idx = .val (((shape.map (·.getD 0)).foldl (· * ·) 1 : Nat) : Int) := by
  simp [CFun.eval, hl, hk, hd]

/-- the text of every accessor's offset computation is the printed form of exactly the statements the theorem is about -/
theorem C02_text (path : List Part) :
    methodOffset path = "\n".intercalate ("  int64_t offset=0;" :: (genStmts path 0 0).flatMap Stmt.print) := rfl

/-! non-vacuity: a concrete path with a reference field, a 2-D dynamic array of dynamic items and a scalar field -/
example :
    let arr : Ty := .array (.struct "S" [("a", .scalar .f64), ("s", .string)]) [none, some 3] [1, 0]
    let path : List Part := [.ty (.struct "T" []), .field "x" 24 true, .ty arr, .index arr, .ty (.struct "S" []), .field "a" 8 false]
    genStmts path 0 0 = [.addLoadAt 24, .index arr 0, .addConst 8] := by simp [genStmts, dump]

end CGen
