import Xo.Model.CSem
import Xo.Lemmas.Refs
import Xo.Lemmas.CApiLayout
import Xo.Lemmas.CApiFields
import Xo.Lemmas.CApiPath
/-! C02 — generated C accessors address the same bytes as the documented layout (property theorems only).

Everything here is quantified over ALL part lists (so in particular over every access path that
`dataPaths` enumerates for every type), ALL index tuples, ALL object addresses and ALL memories
(`ld` is an arbitrary function from address to the int64 stored there): all header contents at once. -/
namespace CGen

theorem execAll_append (ld : Load) (obj : Int) (idx : List Int) (a b : List Stmt) (off : Int) :
    execAll ld obj idx off (a ++ b) = execAll ld obj idx (execAll ld obj idx off a) b := by
  induction a generalizing off with
  | nil => rfl
  | cons s ss ih => simp [execAll, ih]

theorem execAll_dump (ld : Load) (obj : Int) (idx : List Int) (acc : Nat) (off : Int) :
    execAll ld obj idx off (dump acc) = off + (acc : Int) := by
  unfold dump
  split
  · simp [execAll, Stmt.exec]
  · have : acc = 0 := by omega
    subst this; simp [execAll]

/-- loop invariant of `gen_method_offset`: executed statements + static accumulator ≡ running documented address -/
theorem genStmts_correct (ld : Load) (obj : Int) (idx : List Int) :
    ∀ (ps : List Part) (acc ic : Nat) (off : Int),
      execAll ld obj idx off (genStmts ps acc ic) = docAddr ld obj idx ps (off + (acc : Int)) ic := by
  intro ps
  induction ps with
  | nil => intro acc ic off; simp [genStmts, docAddr, execAll_dump]
  | cons p ps ih =>
    intro acc ic off
    match p with
    | .index arr =>
      simp only [genStmts, docAddr, execAll_append, execAll_dump, execAll, Stmt.exec]
      rw [ih]; simp [partRank]
      cases arr <;> simp
    | .field _ o true =>
      simp only [genStmts, docAddr, execAll_append, execAll_dump, execAll, Stmt.exec]
      rw [ih]; simp
    | .field _ o false =>
      simp only [genStmts, docAddr]
      rw [ih]; congr 1; simp; omega
    | .ty (.ref _) =>
      simp only [genStmts, docAddr, execAll_append, execAll_dump, execAll, Stmt.exec]
      rw [ih]; simp
    | .ty (.scalar _) | .ty .string | .ty (.struct ..) | .ty (.array ..) | .ty (.unionref ..) =>
      simp only [genStmts, docAddr]; rw [ih]

/-- **C02 (address)**: for every access path, the offset computed by the emitted statements equals the documented
layout's address expression - for all indices, all objects, all header contents. -/
theorem C02_addr (ld : Load) (obj : Int) (idx : List Int) (path : List Part) :
    execAll ld obj idx 0 (genStmts path 0 0) = docAddr ld obj idx path 0 0 := by
  simpa using genStmts_correct ld obj idx path 0 0 0

/-- getters, setters and pointer accessors touch exactly the documented address of the path's target,
with the width of the target's scalar type -/
theorem C02_get_set_getp (f : CFun) (ld : Load) (obj : Int) (idx : List Int) (lt : Ty)
    (hl : lastTy f.path = some lt) :
    (f.kind = .get ∨ f.kind = .set → f.eval ld obj idx = .addr (docAddr ld obj idx f.path 0 0) (lt.ssize.getD 0)) ∧
    (f.kind = .getp → f.eval ld obj idx = .addr (docAddr ld obj idx f.path 0 0) 0) := by
  constructor
  · rintro (h | h) <;> simp [CFun.eval, hl, h, CFun.offset, C02_addr]
  · intro h; simp [CFun.eval, hl, h, CFun.offset, C02_addr]

/-- union accessors: the member index is the word after the reference slot; the member address is the slot's
address plus its content -/
theorem C02_typeid_member (f : CFun) (ld : Load) (obj : Int) (idx : List Int) (lt : Ty)
    (hl : lastTy f.path = some lt) :
    (f.kind = .typeid → f.eval ld obj idx = .val (ld (obj + (docAddr ld obj idx f.path 0 0 + 8)))) ∧
    (f.kind = .member → f.eval ld obj idx =
        .addr (docAddr ld obj idx f.path 0 0 + ld (obj + docAddr ld obj idx f.path 0 0)) 0) := by
  constructor <;> intro h <;> simp [CFun.eval, hl, h, CFun.offset, C02_addr]

theorem lenTerms_docDims (ld : Load) (base : Int) :
    ∀ (shape : List (Option Nat)) (k : Nat),
      (lenTerms shape k).map (termVal ld base) = docDims ld base shape k := by
  intro shape
  induction shape with
  | nil => intro k; simp [lenTerms, docDims]
  | cons d r ih =>
    intro k
    match d with
    | none => simp [lenTerms, docDims, termVal, ih (k + 1)]
    | some n => simp [lenTerms, docDims, termVal, ih k]

/-- **C02 (length)**: the length accessor of a dynamically shaped array returns the product of the documented
dimensions (static ones from the class, dynamic ones from the header words after the size). -/
theorem C02_len (f : CFun) (ld : Load) (obj : Int) (idx : List Int) (it : Ty) (shape : List (Option Nat))
    (order : List Nat) (hl : lastTy f.path = some (.array it shape order)) (hk : f.kind = .len)
    (hd : (arrInfo it shape order).staticShape = false) :
    f.eval ld obj idx = .val (prodInt (docDims ld (obj + docAddr ld obj idx f.path 0 0) shape 1)) := by
  simp only [CFun.eval, hl, hk, hd, CFun.offset, C02_addr]
  have := lenTerms_docDims ld (obj + docAddr ld obj idx f.path 0 0) shape 1
  simp [this]

/-- statically shaped arrays: the constant product of the class shape -/
theorem C02_len_static (f : CFun) (ld : Load) (obj : Int) (idx : List Int) (it : Ty) (shape : List (Option Nat))
    (order : List Nat) (hl : lastTy f.path = some (.array it shape order)) (hk : f.kind = .len)
    (hd : (arrInfo it shape order).staticShape = true) :
    f.eval ld obj idx = .val (((shape.map (·.getD 0)).foldl (· * ·) 1 : Nat) : Int) := by
  simp [CFun.eval, hl, hk, hd]

/-- the text of every accessor's offset computation is the printed form of exactly the statements the theorem is about -/
theorem C02_text (path : List Part) :
    methodOffset path = "\n".intercalate ("  int64_t offset=0;" :: (genStmts path 0 0).flatMap Stmt.print) := rfl

/-! non-vacuity: a concrete path with a reference field, a 2-D dynamic array of dynamic items and a scalar field -/
example :
    let arr : Ty := .array (.struct "S" [("a", .scalar .f64), ("s", .string)]) [none, some 3] [1, 0]
    let path : List Part := [.ty (.struct "T" []), .field "x" 24 true, .ty arr, .index arr, .ty (.struct "S" []), .field "a" 8 false]
    genStmts path 0 0 = [.addLoadAt 24, .index arr 0, .addConst 8] := by simp [genStmts, dump]

/-- **the C index arithmetic is the Python view's**: in EVERY memory the address the generated code computes for an array item
(`itemOffset`: the semantics of the emitted index statements, `C02_addr`) is the address a view computes from the strides it
caches - data offset plus `Σ idx·stride`, and for dynamically sized items the offset-table entry stored there - whenever the C
item type and the layout item type agree on their static size -/
theorem C02_index_is_view_index (itC : Ty) (it : Lay.Ty) (shape : List (Option Nat)) (order : List Nat)
    (hsz : Ty.ssize itC = it.ssize) (m : MemS.Mem) (off : Nat) (idx : List Nat)
    (hl : idx.length = (Lay.viewStrides it shape order m off).length) :
    let a := off + (Lay.ainfo it shape).dataOff + Lay.dot idx (Lay.viewStrides it shape order m off)
    itemOffset (Lay.ldM m) 0 (off : Int) (.array itC shape order) (idx.map Int.ofNat) 0 =
      if (Lay.ainfo it shape).staticType then (a : Int) else ((off + MemS.fromLE (MemS.readAt m a 8) : Nat) : Int) :=
  Lay.cgen_itemOffset itC it shape order hsz m off idx hl

/-- **the C accessor reaches the written item**: on any memory that holds an array the writer produced (any shape - static,
dynamic, mixed -, any axis order that is a permutation of the axes, fixed-size or dynamically sized items), for every valid
index tuple the generated code's item address is in the buffer image and what a view reads there is the item the constructor
was given for that index tuple's memory position -/
theorem C02_array_item (itC : Ty) (it : Lay.Ty) (shape : List (Option Nat)) (order sh : List Nat) (items : List Lay.Val)
    (hsz : Ty.ssize itC = it.ssize)
    (hw : (Lay.Ty.array it shape order).WF) (hc : Lay.Conf (.array it shape order) (.arr sh items))
    (hs : Lay.vsize (.array it shape order) (.arr sh items) < 2 ^ 64)
    (hperm : order.Perm (List.range shape.length))
    (hsw : ∀ s ∈ Lay.getStrides sh order (Lay.ainfo it shape).unit, s < 2 ^ 64)
    (m : MemS.Mem) (off : Nat) (hb : off + Lay.vsize (.array it shape order) (.arr sh items) ≤ m.length) (m' : MemS.Mem)
    (hag : Lay.Agree m' (Lay.apply (Lay.shift off (Lay.patchesD (.array it shape order) (.arr sh items))) m) off
      (off + Lay.vsize (.array it shape order) (.arr sh items)))
    (idx : List Nat) (hv : Lay.ValidIdx sh idx) :
    let r := itemOffset (Lay.ldM m') 0 (off : Int) (.array itC shape order) (idx.map Int.ofNat) 0
    0 ≤ r ∧ Lay.readD it m' r.toNat = (items.getD (Lay.mposL sh order idx) default).norm := by
  have hstr := Lay.view_strides it shape order sh items hw hc hperm hsw m off hb m' hag
  have hshl := Lay.shapeMatches_length shape sh hc.1
  have hl : idx.length = (Lay.viewStrides it shape order m' off).length := by
    rw [hstr, Lay.getStrides_length, hw.1, hv.1, hshl]
  have h1 := Lay.cgen_itemOffset itC it shape order hsz m' off idx hl
  obtain ⟨_, _, h4⟩ := Lay.view_item_at_index it shape order sh items hw hc hs hperm hsw m off hb m' hag idx hv
  simp only at h1 h4 ⊢
  rw [h1]
  by_cases hst : (Lay.ainfo it shape).staticType = true
  · simp only [hst, ↓reduceIte] at h4 ⊢
    exact ⟨Int.natCast_nonneg _, by rw [Int.toNat_natCast]; exact h4⟩
  · have hst' : (Lay.ainfo it shape).staticType = false := by simpa using hst
    simp only [hst', Bool.false_eq_true, ↓reduceIte] at h4 ⊢
    exact ⟨Int.natCast_nonneg _, by rw [Int.toNat_natCast]; exact h4⟩

/-- **the C field step lands on the field**: on memory holding a struct the writer produced, the step the generated code takes
for field `k` - add the class-level offset, or for the 2nd.. dynamically sized field load the word in its offset slot and add
that - moves from the struct's address to the address at which the writer placed that field (the `k`-th part); the table of
class-level offsets the generator works from is the layout model's (`cgen_fieldLayout`), whenever C-side and layout-side field
types agree on their static sizes -/
theorem C02_field_address (fsC : List (String × Ty)) (fs : List Lay.Ty) (vs : List Lay.Val) (hsz : Lay.SameSizes fsC fs)
    (hw : Lay.WFFields fs) (hc : Lay.ConfFields fs vs) (hs : Lay.vsize (.struct fs) (.struct vs) < 2 ^ 64)
    (k o : Nat) (t' : Lay.Ty) (v1 : Lay.Val) (hp : Lay.part (.struct fs) (.struct vs) k = some (o, t', v1))
    (m0 : MemS.Mem) (off : Nat) (hb : off + Lay.vsize (.struct fs) (.struct vs) ≤ m0.length) (m' : MemS.Mem)
    (hag : Lay.Agree m' (Lay.apply (Lay.shift off (Lay.patchesD (.struct fs) (.struct vs))) m0) off
      (off + Lay.vsize (.struct fs) (.struct vs)))
    (name : String) (ps : List Part) (idx : List Int) (ic : Nat) :
    ∃ oc r, (fieldLayout fsC)[k]? = some (oc, r) ∧
      docAddr (Lay.ldM m') 0 idx (.field name oc r :: ps) (off : Int) ic =
        docAddr (Lay.ldM m') 0 idx ps ((off + o : Nat) : Int) ic := by
  obtain ⟨l, h1, h2⟩ := Lay.field_loc_is_part fs vs hw hc hs k o t' v1 hp m0 off hb m' hag
  refine ⟨l.1, l.2, by rw [Lay.cgen_fieldLayout fsC fs hsz]; exact h1, ?_⟩
  obtain ⟨oc, r⟩ := l
  cases r with
  | false =>
    simp only [Lay.resolveLoc, Bool.false_eq_true, if_false] at h2
    subst h2
    simp only [docAddr]
    congr 1
  | true =>
    simp only [Lay.resolveLoc, if_true] at h2
    subst h2
    simp only [docAddr, Lay.ldM]
    congr 1
    push_cast
    congr 4
    rw [show (0 : Int) + (off : Int) + (oc : Int) = ((off + oc : Nat) : Int) by push_cast; omega, Int.toNat_natCast]

/-- **both models size types alike**: for every reference-free type of the grammar the class-level size the C generator works
with is the class-level size of the layout model (so the size hypotheses of `C02_array_item` and `C02_field_address` hold for
every translated type, at every nesting level) -/
theorem C02_static_sizes_agree (tc : Ty) (t : Lay.Ty) (h : Lay.toLay tc = some t) : Ty.ssize tc = t.ssize :=
  Lay.ssize_toLay tc t h

theorem C02_field_sizes_agree (fs : List (String × Ty)) (ts : List Lay.Ty) (h : Lay.toLayFields fs = some ts) :
    Lay.SameSizes fs ts := Lay.sameSizes_toLay fs ts h

/-- **the generated accessor addresses the element the Python view addresses**: for every reference-free type of the grammar
(translated by `toLay`), every selector path - struct fields and array index tuples at any depth, static and dynamic sizes,
every permutation of the axes - ending in a scalar element, and every memory that holds the written object at `off`: the
generated accessor, called with the object's address (`obj = off`) and its index arguments, returns for the access path `cparts`
(the path the generator emits accessors for) exactly the element's offset `leafAt` inside the object -/
theorem C02_path_address (sels : List Lay.Sel) (tc : Ty) (t : Lay.Ty) (v : Lay.Val) (ps : List Part) (ix p : List Nat) (lo w : Nat)
    (htl : Lay.toLay tc = some t) (hwp : t.WFP) (hc : Lay.Conf t v) (hs : Lay.vsize t v < 2 ^ 64)
    (hcp : Lay.cparts tc sels = some (ps, ix)) (hlp : Lay.lpath t v sels = some p) (hleaf : Lay.leafAt t v p = some (lo, w))
    (m0 : MemS.Mem) (off : Nat) (hb : off + Lay.vsize t v ≤ m0.length) (m' : MemS.Mem)
    (hag : Lay.Agree m' (Lay.apply (Lay.shift off (Lay.patchesD t v)) m0) off (off + Lay.vsize t v)) :
    execAll (Lay.ldM m') (off : Int) (ix.map Int.ofNat) 0 (genStmts ps 0 0) = (lo : Int) := by
  rw [C02_addr]
  exact Lay.c_path_offset sels tc t v ps ix p lo w htl hwp hc hs hcp hlp hleaf m0 off hb m' hag (ix.map Int.ofNat) 0
    (fun j hj => by
      simp only [Nat.zero_add, List.getD_eq_getElem?_getD, List.getElem?_map, List.getElem?_eq_getElem hj]
      rfl)

/-- **end to end, getter**: the `w` bytes the generated getter loads - at the object's address plus the offset its emitted
statements compute - are the little-endian image of exactly the element `getAt t v p` that the Python accessors return -/
theorem C02_getter_reads_element (sels : List Lay.Sel) (tc : Ty) (t : Lay.Ty) (v : Lay.Val) (ps : List Part) (ix p : List Nat)
    (lo w : Nat) (htl : Lay.toLay tc = some t) (hwp : t.WFP) (hc : Lay.Conf t v) (hs : Lay.vsize t v < 2 ^ 64)
    (hcp : Lay.cparts tc sels = some (ps, ix)) (hlp : Lay.lpath t v sels = some p) (hleaf : Lay.leafAt t v p = some (lo, w))
    (m0 : MemS.Mem) (off : Nat) (hb : off + Lay.vsize t v ≤ m0.length) (m' : MemS.Mem)
    (hag : Lay.Agree m' (Lay.apply (Lay.shift off (Lay.patchesD t v)) m0) off (off + Lay.vsize t v)) :
    ∃ b, Lay.getAt t v p = some b ∧ b < 256 ^ w ∧
      MemS.fromLE (MemS.readAt m'
        ((off : Int) + execAll (Lay.ldM m') (off : Int) (ix.map Int.ofNat) 0 (genStmts ps 0 0)).toNat w) = b := by
  rw [C02_path_address sels tc t v ps ix p lo w htl hwp hc hs hcp hlp hleaf m0 off hb m' hag]
  obtain ⟨b, h1, h2, _, h4⟩ := Lay.leaf_read p t v lo w (Lay.wfp_wf t hwp) hc hs hleaf m0 off hb m' hag
  refine ⟨b, h2, h1, ?_⟩
  rw [← Int.natCast_add, Int.toNat_natCast]
  exact h4

/-! non-vacuity: `Int32[:, 3]` with 2 rows stored in F order at offset 8 of an 80-byte buffer (dimensions and strides in the
header): the C arithmetic for index (1, 2) gives buffer offset 60, which is memory position 5, where the written item 15 is -/
example :
    let tL : Lay.Ty := .array (.scalar 4) [none, some 3] [1, 0]
    let vL : Lay.Val := .arr [2, 3] [.bits 10, .bits 11, .bits 12, .bits 13, .bits 14, .bits 15]
    let img : MemS.Mem := Lay.apply (Lay.shift 8 (Lay.patchesD tL vL)) (List.replicate 80 0)
    itemOffset (Lay.ldM img) 0 8 (.array (.scalar .i32) [none, some 3] [1, 0]) [1, 2] 0 = 60 ∧
    Lay.mposL [2, 3] [1, 0] [1, 2] = 5 ∧ MemS.fromLE (MemS.readAt img 60 4) = 15 := by decide +kernel


/-- the `int64_t` a C accessor loads at a byte address: the two's-complement reading of the 8 bytes (for header words, which are
below 2^63, it coincides with `ldM`) -/
def ldS (m : MemS.Mem) : CGen.Load := fun a => Lay.i64of (MemS.readAt m a.toNat 8)

/-- **a path through a reference**: the statement the generator emits for a `Ref` / `UnionRef` step,
`offset += *(int64_t*)((char*) obj + offset)`, moves the accessor from the slot to the referent the Python view resolves
(`Ref._from_buffer`: slot address + stored relative offset): `obj + offset'` is exactly `deref` of the slot, for every object
address, every slot and every memory - also when the referent lies BEFORE the slot (negative relative offset) -/
theorem C02_ref_step_is_deref (m : MemS.Mem) (obj off : Nat) (idx : List Int) (t : Nat)
    (hd : Lay.deref m (obj + off) = some t) (hpos : 0 ≤ ((obj + off : Nat) : Int) + Lay.i64of (MemS.readAt m (obj + off) 8)) :
    (obj : Int) + CGen.Stmt.exec (ldS m) (obj : Int) idx (off : Int) .deref = (t : Int) := by
  unfold Lay.deref at hd
  simp only at hd
  split at hd
  · cases hd
  · simp only [Option.some.injEq] at hd
    subst hd
    simp only [CGen.Stmt.exec, ldS]
    have e : ((obj : Int) + (off : Int)).toNat = obj + off := by
      have : (obj : Int) + (off : Int) = ((obj + off : Nat) : Int) := by push_cast; rfl
      rw [this, Int.toNat_natCast]
    rw [e, Int.toNat_of_nonneg hpos]
    push_cast
    omega

end CGen
