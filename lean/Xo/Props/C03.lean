import Xo.Lemmas.LayoutRT
import Xo.Lemmas.RefGraphOps
import Xo.Lemmas.RefGraphX
/-! C03 — an object never writes outside the bytes reserved for it (property theorems only).
Reference-free grammar (scalars, strings incl. capacity form, static and dynamic structs, N-D arrays of static or dynamic
items, any axis order), nested to any depth; any buffer image `m`, any placement `off` with room. -/
namespace Lay
open MemS

/-- **frame (construction)**: every slice assignment of the writer lies inside `[off, off + size)`; hence the buffer keeps its
length and every byte outside the object's extent is unchanged - whatever the buffer held before. -/
theorem C03_frame (t : Ty) (v : Val) (hw : t.WF) (hc : Conf t v) (m : Mem) (off : Nat) (hb : off + vsize t v ≤ m.length) :
    Within (shift off (patchesD t v)) off (off + vsize t v) ∧
    (apply (shift off (patchesD t v)) m).length = m.length ∧
    ∀ i, (i < off ∨ off + vsize t v ≤ i) → (apply (shift off (patchesD t v)) m)[i]? = m[i]? := by
  have h := within_shift (d := off) (withinD t v hw hc)
  have h' : Within (shift off (patchesD t v)) off (off + vsize t v) := by simpa [Nat.add_comm] using h
  exact ⟨h', apply_frame _ m _ _ h' hb⟩

/-- **size = extent**: for a dynamically sized object the stored size word (which is what the handle and every view report)
is exactly the extent the writer stays inside; for a statically sized one the class size is -/
theorem C03_size_static (t : Ty) (v : Val) (s : Nat) (hc : Conf t v) (hs : t.ssize = some s) : vsize t v = s :=
  conf_ssize t v s hc hs

theorem C03_size_word_struct (fs : List Ty) (vs : List Val) (hs : ssizeFields fs = none) :
    (patchesD (.struct fs) (.struct vs)).head? = some (0, le 8 (vsize (.struct fs) (.struct vs))) := by
  simp [patchesD, hs]

theorem C03_size_word_string (bs : List UInt8) :
    (patchesD .string (.str bs)).head? = some (0, le 8 (vsize .string (.str bs))) := by
  simp [patchesD, vsize]

theorem C03_size_word_array (it : Ty) (shape : List (Option Nat)) (order sh : List Nat) (items : List Val)
    (h : ((ainfo it shape).staticShape && (ainfo it shape).staticType) = false) :
    ∃ rest tail, patchesD (.array it shape order) (.arr sh items) =
      (0, le 8 (vsize (.array it shape order) (.arr sh items)) ++ rest) :: tail := by
  simp only [patchesD, h, Bool.false_eq_true, ↓reduceIte, words, List.flatMap_cons]
  exact ⟨_, _, rfl⟩

/-- extents `(offset, size)` of the fields of a statically sized struct, as the writer places them -/
def sExtents : List Ty → List Val → Nat → List (Nat × Nat)
 | t :: ts, v :: vs, o => (o, vsize t v) :: sExtents ts vs (o + slot ((t.ssize).getD 0))
 | _, _, _ => []

/-- extents of the fields of a dynamically sized struct (static fields in the static area, dynamic ones in the data area) -/
def dExtents : List Ty → List Val → Nat → Nat → List (Nat × Nat)
 | t :: ts, v :: vs, so, dof =>
    match t.ssize with
    | some s => (so, vsize t v) :: dExtents ts vs (so + slot s) dof
    | none => (dof, vsize t v) :: dExtents ts vs so (dof + slot (vsize t v))
 | _, _, _, _ => []

def Disjoint2 (a b : Nat × Nat) : Prop := a.1 + a.2 ≤ b.1 ∨ b.1 + b.2 ≤ a.1

theorem sExtents_bounds : ∀ (fs : List Ty) (vs : List Val) (o s : Nat), ConfFields fs vs → ssizeFields fs = some s →
    ∀ e ∈ sExtents fs vs o, o ≤ e.1 ∧ e.1 + e.2 ≤ o + s
 | [], [], _, _, _, _ => by intro e he; simp [sExtents] at he
 | t :: ts, v :: vs, o, s, hc, hs => by
    simp only [ssizeFields] at hs
    split at hs
    · rename_i a b ha hb
      injection hs with hs; subst hs
      have hva := conf_ssize t v a hc.1 ha
      have hsl := slot_ge a
      intro e he
      simp only [sExtents, ha, Option.getD_some, List.mem_cons] at he
      rcases he with rfl | he
      · simp [hva]; omega
      · have := sExtents_bounds ts vs (o + slot a) b hc.2 hb e he; omega
    · cases hs
 | [], _ :: _, _, _, hc, _ => by simp [ConfFields] at hc
 | _ :: _, [], _, _, hc, _ => by simp [ConfFields] at hc

/-- **nesting and siblings (static struct)**: every field lies inside its parent and the fields are pairwise disjoint -/
theorem C03_static_struct_parts : ∀ (fs : List Ty) (vs : List Val) (o s : Nat), ConfFields fs vs → ssizeFields fs = some s →
    (∀ e ∈ sExtents fs vs o, o ≤ e.1 ∧ e.1 + e.2 ≤ o + s) ∧ (sExtents fs vs o).Pairwise Disjoint2
 | [], [], _, _, _, _ => by simp [sExtents]
 | t :: ts, v :: vs, o, s, hc, hs => by
    refine ⟨sExtents_bounds (t :: ts) (v :: vs) o s hc hs, ?_⟩
    simp only [ssizeFields] at hs
    split at hs
    · rename_i a b ha hb
      injection hs with hs; subst hs
      have hva := conf_ssize t v a hc.1 ha
      have hsl := slot_ge a
      simp only [sExtents, ha, Option.getD_some, List.pairwise_cons]
      refine ⟨?_, (C03_static_struct_parts ts vs (o + slot a) b hc.2 hb).2⟩
      intro e he
      have := sExtents_bounds ts vs (o + slot a) b hc.2 hb e he
      left; simp [hva]; omega
    · cases hs
 | [], _ :: _, _, _, hc, _ => by simp [ConfFields] at hc
 | _ :: _, [], _, _, hc, _ => by simp [ConfFields] at hc

theorem dExtents_bounds : ∀ (fs : List Ty) (vs : List Val) (so dof : Nat), ConfFields fs vs →
    ∀ e ∈ dExtents fs vs so dof,
      (so ≤ e.1 ∧ e.1 + e.2 ≤ so + staticBytes fs) ∨ (dof ≤ e.1 ∧ e.1 + e.2 ≤ dof + dynSizes fs vs)
 | [], [], _, _, _ => by intro e he; simp [dExtents] at he
 | t :: ts, v :: vs, so, dof, hc => by
    intro e he
    simp only [dExtents] at he
    split at he
    · rename_i s hs
      have hva := conf_ssize t v s hc.1 hs
      have hsl := slot_ge s
      rcases List.mem_cons.mp he with rfl | he
      · left; simp [staticBytes, hs, hva]; omega
      · have := dExtents_bounds ts vs (so + slot s) dof hc.2 e he
        simp only [staticBytes, dynSizes, hs]; omega
    · rename_i hs
      have hsl := slot_ge (vsize t v)
      rcases List.mem_cons.mp he with rfl | he
      · right; simp [dynSizes, hs]; omega
      · have := dExtents_bounds ts vs so (dof + slot (vsize t v)) hc.2 e he
        simp only [staticBytes, dynSizes, hs]; omega
 | [], _ :: _, _, _, hc => by simp [ConfFields] at hc
 | _ :: _, [], _, _, hc => by simp [ConfFields] at hc

/-- **nesting and siblings (dynamic struct)**: with the static area ending before the data area, the fields are pairwise disjoint
and each lies in the static area or in the dynamic data area, both inside `[8, size)` -/
theorem C03_dynamic_struct_parts : ∀ (fs : List Ty) (vs : List Val) (so dof : Nat), ConfFields fs vs →
    so + staticBytes fs ≤ dof → (dExtents fs vs so dof).Pairwise Disjoint2
 | [], [], _, _, _, _ => by simp [dExtents]
 | t :: ts, v :: vs, so, dof, hc, hle => by
    simp only [dExtents]
    split
    · rename_i s hs
      have hva := conf_ssize t v s hc.1 hs
      have hsl := slot_ge s
      have hst : staticBytes (t :: ts) = slot s + staticBytes ts := by simp [staticBytes, hs]
      rw [hst] at hle
      simp only [List.pairwise_cons]
      refine ⟨?_, C03_dynamic_struct_parts ts vs (so + slot s) dof hc.2 (by omega)⟩
      intro e he
      have := dExtents_bounds ts vs (so + slot s) dof hc.2 e he
      left; simp [hva]; omega
    · rename_i hs
      have hsl := slot_ge (vsize t v)
      have hst : staticBytes (t :: ts) = staticBytes ts := by simp [staticBytes, hs]
      rw [hst] at hle
      simp only [List.pairwise_cons]
      refine ⟨?_, C03_dynamic_struct_parts ts vs so (dof + slot (vsize t v)) hc.2 (by omega)⟩
      intro e he
      have := dExtents_bounds ts vs so (dof + slot (vsize t v)) hc.2 e he
      unfold Disjoint2
      simp only
      omega
 | [], _ :: _, _, _, hc, _ => by simp [ConfFields] at hc
 | _ :: _, [], _, _, hc, _ => by simp [ConfFields] at hc

/-- array items: item `k` of an array of fixed-size items occupies `[d + k*isz, d + (k+1)*isz)`; dynamically sized items start
at the recorded offsets, each where the previous one ended (slot-rounded): consecutive, hence disjoint, and inside the array -/
theorem C03_array_items_dynamic (sz : Val → Nat) : ∀ (items : List Val) (pos j : Nat), j < items.length →
    pos ≤ (offsetsD sz items pos).getD j 0 ∧
    (offsetsD sz items pos).getD j 0 + sz (items.getD j default) ≤ pos + sizesD sz items ∧
    (∀ i, i < j → (offsetsD sz items pos).getD i 0 + sz (items.getD i default) ≤ (offsetsD sz items pos).getD j 0)
 | v :: vs, pos, 0, _ => by
    have := slot_ge (sz v)
    simp [offsetsD, sizesD]; omega
 | v :: vs, pos, j + 1, h => by
    have ih := C03_array_items_dynamic sz vs (pos + slot (sz v)) j (by simpa using h)
    have hsl := slot_ge (sz v)
    simp only [offsetsD, sizesD, List.getD_cons_succ]
    refine ⟨by omega, by omega, ?_⟩
    intro i hi
    cases i with
    | zero => simp only [List.getD_cons_zero, List.getD_cons_succ]; omega
    | succ i => simp only [List.getD_cons_succ]; exact ih.2.2 i (by omega)

/-! non-vacuity: a dynamic struct holding a 2-D array of strings with a non-C axis order -/
example :
    let t : Ty := .struct [.scalar 8, .array .string [none, some 2] [1, 0], .string]
    let v : Val := .struct [.bits 7, .arr [1, 2] [.str [104, 105], .cap 3], .str [65]]
    t.WF ∧ Conf t v ∧ vsize t v = 120 := by
  refine ⟨by simp [Ty.WF, WFFields], ?_, by decide⟩
  simp [Conf, ConfFields, ConfItems, shapeMatches, prod]

/-! ### objects that hold references (node model `Xo/Model/RefGraph.lean`, component `rg`) -/

/-- **modifies only bytes inside the extent reserved for that object and the extents of objects it newly creates for its
references**: in every state satisfying the reference-graph invariant (every reachable state: `C08_ref_history`) and for EVERY
operation - construct, bind a reference to an existing object / to plain data or a foreign object (a new node is created) / to
null, write a scalar through the handle or through a reference, copy-construct, update from another node, raw allocation,
growth - there is at most one previously live region the operation may change (the node it is applied to; for a write through a
reference: the referent), and EVERY other live region, node or raw allocation, keeps every byte - also when the buffer has to grow
to make room for the new node -/
theorem C03_ref_ops_frame (u : RG.Univ) (hu : RG.UWF u) (s : RG.St) (hi : RG.Inv u s) (op : RG.Op)
    (hcap : (RG.step u s op).b.a.capacity < 2 ^ 62) :
    ∃ w : Option RG.Ent, (∀ e0, w = some e0 → e0 ∈ s.live) ∧
      ∀ e ∈ s.live, w ≠ some e → ∀ i, e.addr ≤ i → i < e.addr + e.size → (RG.step u s op).b.mem[i]? = s.b.mem[i]? :=
  RG.step_frame hu hi op hcap

/-- … and what it newly creates is placed by the allocator: after the operation all live regions - old and new - are pairwise
disjoint and inside the storage (the allocator part of the invariant) -/
theorem C03_ref_ops_disjoint (u : RG.Univ) (hu : RG.UWF u) (s : RG.St) (hi : RG.Inv u s) (op : RG.Op)
    (hcap : (RG.step u s op).b.a.capacity < 2 ^ 62) :
    (RG.regions (RG.step u s op)).Pairwise Alloc.Disjoint ∧
    ∀ r ∈ RG.regions (RG.step u s op), r.1 + r.2 ≤ (RG.step u s op).b.mem.length := by
  have h := RG.step_inv hu hi op hcap
  refine ⟨h.a.disj, fun r hr => ?_⟩
  have := h.a.inb r hr
  have hm := h.mem
  unfold Alloc.Buf.MemOK at hm
  omega

/-- … and when the object is constructed in ANOTHER buffer from an existing one (`Cls(h, _buffer=other)`, all it refers to is
duplicated there): the source buffer is not written at all (its state is not even an output), and in the destination every region
that was live before - node or raw allocation - keeps every byte, however many nodes the copy creates and however often the
destination has to grow for them; afterwards all live regions of the destination, old and new, are pairwise disjoint and inside the
storage -/
theorem C03_copy_between_buffers_frame (u : RG.Univ) (hu : RG.UWF u) (fuel : Nat) (p : RG.St2) (ha : RG.Inv u p.a) (hb : RG.Inv u p.b)
    (h : Nat) (hcap : (RG.step2 u fuel p (.copyAB h)).b.b.a.capacity < 2 ^ 62) :
    (RG.step2 u fuel p (.copyAB h)).a = p.a ∧
    (∀ e ∈ p.b.live, ∀ i, e.addr ≤ i → i < e.addr + e.size → (RG.step2 u fuel p (.copyAB h)).b.b.mem[i]? = p.b.b.mem[i]?) ∧
    (RG.regions (RG.step2 u fuel p (.copyAB h)).b).Pairwise Alloc.Disjoint ∧
    ∀ r ∈ RG.regions (RG.step2 u fuel p (.copyAB h)).b, r.1 + r.2 ≤ (RG.step2 u fuel p (.copyAB h)).b.b.mem.length := by
  have hinv := (RG.step2_inv hu ha hb (.copyAB h) (by simpa [RG.step2] using ha.cap) hcap).2
  refine ⟨rfl, ?_, hinv.a.disj, fun r hr => ?_⟩
  · simp only [RG.step2] at hcap ⊢
    cases hx : RG.xcopyAt u fuel p.a p.b h with
    | none => intro e _ i _ _; rfl
    | some r =>
      obtain ⟨d', o⟩ := r
      rw [hx] at hcap
      simp only [Option.map_some, Option.getD_some] at hcap ⊢
      exact RG.xcopyAt_frame hu ha hb hx hcap
  · have := hinv.a.inb r hr
    have hm := hinv.mem
    unfold Alloc.Buf.MemOK at hm
    omega

end Lay
