import Xo.Model.Hybrid
import Xo.Lemmas.HybridOps
/-! C18 — hybrid objects mirror their buffer data; copy/move keep value and ownership (property theorems only).
One-step theorems about the model of `_FieldOfDressed.__get__/__set__`, `copy` and `move`, for every class universe, state and
instance, and the invariant over whole histories: in every state reached from the empty one by constructor calls, attribute
reads and writes, copies, moves and Python-attribute writes (`C18_mirror_history`) every cached dressed child is a valid
instance and the dressed object cached for a NESTED field sits at the field's in-line location inside its container and
cannot be moved on its own; for REFERENCE fields the attribute is validated against the buffer on every read
(`C18_ref_get_mirrors`, every state). -/
namespace Hyb

theorem inst_setInst_same (s : St) (i : Nat) (x : Inst) (h : i < s.insts.length) : (s.setInst i x).inst i = x := by
  simp [St.inst, St.setInst, List.getD_eq_getElem?_getD, h]

theorem inst_setInst_other (s : St) (i k : Nat) (x : Inst) (h : k ≠ i) : (s.setInst i x).inst k = s.inst k := by
  simp [St.inst, St.setInst, List.getD_eq_getElem?_getD, List.getElem?_set_ne (Ne.symm h)]

theorem inst_setInst_same' (hp : Heap) (l : List Inst) (i : Nat) (x : Inst) (h : i < l.length) :
    (St.setInst ⟨hp, l⟩ i x).inst i = x := inst_setInst_same ⟨hp, l⟩ i x h

theorem setInst_heap (s : St) (i : Nat) (x : Inst) : (s.setInst i x).heap = s.heap := rfl
theorem setInst_length (s : St) (i : Nat) (x : Inst) : (s.setInst i x).insts.length = s.insts.length := by
  simp [St.setInst]

theorem lookup_filter_ne (k : String) : ∀ l : List (String × Nat), (l.filter (fun x => x.1 != k)).lookup k = none
 | [] => rfl
 | e :: es => by
    simp only [List.filter_cons]
    split
    · rename_i hne
      have : (k == e.1) = false := by
        simp only [bne_iff_ne, ne_eq] at hne
        simp only [beq_eq_false_iff_ne, ne_eq]
        exact fun h => hne h.symm
      rw [List.lookup_cons, this]
      exact lookup_filter_ne k es
    · exact lookup_filter_ne k es

/-- **renaming**: the Python-side name of a renamed field reads the xobject field it stands for -/
theorem C18_rename (c : Cls) (xo py : String) (h : c.rename.find? (·.2 == py) = some (xo, py)) : xoName c py = xo := by
  simp [xoName, h]

/-- an un-renamed name is the xobject name itself -/
theorem C18_no_rename (c : Cls) (py : String) (h : c.rename.find? (·.2 == py) = none) : xoName c py = py := by
  simp [xoName, h]

/-- **numeric attribute = buffer data**: for a numeric field without a dressed cache entry the attribute is exactly the number
stored in the buffer, and setting it stores exactly the number given -/
theorem C18_num_get (u : Universe) (s : St) (i : Nat) (py : String) (v : Int)
    (hk : fkind (clsOf u (s.inst i).cls) (xoName (clsOf u (s.inst i).cls) py) = some .num)
    (hd : (s.inst i).dressed.lookup (xoName (clsOf u (s.inst i).cls) py) = none)
    (hv : xread s.heap ((s.inst i).loc.sub (xoName (clsOf u (s.inst i).cls) py)) = some (.num v)) :
    hget u s i py = (s, .num v) := by
  simp [hget, hk, hd, hv]

/-- **a reference attribute is what the buffer says, whatever is cached**: in EVERY state - also when the reference was changed
through another object dressing the same memory - the attribute of a reference field is the cached dressed object only if the
buffer refers to exactly that object; otherwise it is the object the buffer refers to, or None for the null reference -/
theorem C18_ref_get_mirrors (u : Universe) (s : St) (i : Nat) (py : String) (c' c'' : Nat) (t : Option Loc)
    (hk : fkind (clsOf u (s.inst i).cls) (xoName (clsOf u (s.inst i).cls) py) = some (.ref c'))
    (hv : xread s.heap ((s.inst i).loc.sub (xoName (clsOf u (s.inst i).cls) py)) = some (.ref c'' t)) :
    match (hget u s i py).2, t with
    | .inst j, some l => (s.inst j).loc = l
    | .bare l', some l => l' = l
    | .none_, none => True
    | _, _ => False := by
  simp only [hget, hk, hv]
  cases hd : (s.inst i).dressed.lookup (xoName (clsOf u (s.inst i).cls) py) with
  | none => cases t <;> simp
  | some j =>
    cases t with
    | none => simp
    | some l =>
      simp only
      by_cases he : l = (s.inst j).loc
      · simp [he]
      · simp [he]

/-- **reference across buffers is refused and changes nothing** -/
theorem C18_ref_across_buffers_refused (u : Universe) (s : St) (i j : Nat) (py : String) (c' : Nat)
    (hk : fkind (clsOf u (s.inst i).cls) (xoName (clsOf u (s.inst i).cls) py) = some (.ref c'))
    (hb : (s.inst j).loc.buf ≠ (s.inst i).loc.buf) :
    hset u s i py (.dressed j) = (s, some .memory) := by
  simp [hset, hsetRef, hk, hb]

/-- **reference in the same buffer shares**: the field now denotes the very object assigned (its location is stored in the
buffer), that object is what the attribute returns, and it can no longer be moved -/
theorem C18_ref_shares (u : Universe) (s : St) (i j : Nat) (py : String) (c' : Nat)
    (hi : i < s.insts.length) (hj : j < s.insts.length) (hij : i ≠ j)
    (hk : fkind (clsOf u (s.inst i).cls) (xoName (clsOf u (s.inst i).cls) py) = some (.ref c'))
    (hb : (s.inst j).loc.buf = (s.inst i).loc.buf) :
    let r := hset u s i py (.dressed j)
    r.2 = none ∧ (r.1.inst j).movable = false ∧ (r.1.inst j).loc = (s.inst j).loc ∧
    ((r.1.inst i).dressed.lookup (xoName (clsOf u (s.inst i).cls) py) = some j) := by
  simp only [hset, hsetRef, hk, hb, bne_self_eq_false, Bool.false_eq_true, ↓reduceIte]
  refine ⟨trivial, ?_, ?_, ?_⟩
  · rw [inst_setInst_same _ _ _ (by rw [setInst_length]; exact hj)]
  · rw [inst_setInst_same _ _ _ (by rw [setInst_length]; exact hj)]
    rw [inst_setInst_other _ _ _ _ (Ne.symm hij)]
    rfl
  · rw [inst_setInst_other _ _ _ _ hij, inst_setInst_same' _ _ _ _ hi]
    simp [List.lookup_append, lookup_filter_ne]

/-- **None assigned to a reference**: the field becomes null and the cached dressed object is dropped, so the attribute reads
what the buffer says (None) -/
theorem C18_ref_none (u : Universe) (s : St) (i : Nat) (py : String) (c' : Nat) (hi : i < s.insts.length)
    (hk : fkind (clsOf u (s.inst i).cls) (xoName (clsOf u (s.inst i).cls) py) = some (.ref c')) :
    let r := hset u s i py .none_
    r.2 = none ∧ (r.1.inst i).dressed.lookup (xoName (clsOf u (s.inst i).cls) py) = none := by
  simp only [hset, hk]
  refine ⟨trivial, ?_⟩
  rw [inst_setInst_same' _ _ _ _ hi]
  exact lookup_filter_ne _ _

/-- **move is refused** for an object that lives inside another (or is referenced) and for one that holds references, and then
nothing changes -/
theorem C18_move_refused (u : Universe) (s : St) (i dst : Nat)
    (h : (s.inst i).movable = false ∨ hasRefs u 8 (s.inst i).cls = true) :
    hmove u s i dst = (s, some .memory) := by
  unfold hmove
  rcases h with h | h
  · simp [h]
  · by_cases hm : (s.inst i).movable = true
    · simp [hm, h]
    · simp at hm; simp [hm]

/-- **copy** allocates a fresh object in the requested buffer: the copy's location is a new allocation there, distinct from
every location that existed, so later writes to either never show through the other -/
theorem C18_copy_fresh (h : Heap) (src : Loc) (dst : Nat) (l : Loc) (h' : Heap) (hc : xcopy h src dst = some (l, h')) :
    l.buf = dst ∧ l.path = [] ∧ h.next ≤ l.root := by
  unfold xcopy at hc
  split at hc
  · rename_i v _
    simp only [Option.some.injEq] at hc
    have hmono : ∀ (fuel : Nat) (h : Heap) (a b : Nat) (v : XV), h.next ≤ (copyVal fuel h a b v).2.next := by
      intro fuel
      induction fuel with
      | zero => intro h a b v; simp [copyVal]
      | succ n ih =>
        intro h a b v
        cases v with
        | num x => simp [copyVal]
        | struct c fs =>
          simp only [copyVal]
          suffices hs : ∀ (fs : List (String × XV)) (acc : List (String × XV) × Heap), h.next ≤ acc.2.next →
              h.next ≤ (fs.foldl (fun (acc : List (String × XV) × Heap) (p : String × XV) =>
                ((acc.1 ++ [(p.1, (copyVal n acc.2 a b p.2).1)]), (copyVal n acc.2 a b p.2).2)) acc).2.next by
            exact hs fs ([], h) (Nat.le_refl _)
          intro fs
          induction fs with
          | nil => intro acc hacc; simpa using hacc
          | cons p ps ihp =>
            intro acc hacc
            simp only [List.foldl_cons]
            exact ihp _ (Nat.le_trans hacc (ih acc.2 a b p.2))
        | ref c t =>
          cases t with
          | none => simp [copyVal]
          | some t =>
            simp only [copyVal]
            split
            · simp
            · split
              · rename_i tv _
                simp only [alloc]
                have := ih h t.buf b tv
                omega
              · simp
    have := hmono 64 h src.buf dst v
    simp only [alloc] at hc
    obtain ⟨rfl, _⟩ := Prod.mk.inj hc
    exact ⟨rfl, rfl, this⟩
  · cases hc

/-! non-vacuity: Outer {inner: Ref[Inner]} with two inner objects in different buffers -/
example :
    let u : Universe := [{ fields := [("a", .num)], rename := [] }, { fields := [("inner", .ref 0)], rename := [("inner", "inn")] }]
    let h : Heap := { roots := [((0, 0), .struct 0 [("a", .num 5)]), ((1, 1), .struct 0 [("a", .num 6)]),
                               ((0, 2), .struct 1 [("inner", .ref 0 none)])], next := 3, ctxOf := fun _ => 0 }
    let s : St := { heap := h, insts := [⟨0, ⟨0, 0, []⟩, [], true, []⟩, ⟨0, ⟨1, 1, []⟩, [], true, []⟩, ⟨1, ⟨0, 2, []⟩, [], true, []⟩] }
    (hset u s 2 "inn" (.dressed 1)).2 = some .memory ∧ (hset u s 2 "inn" (.dressed 0)).2 = none ∧
    (hget u (hset u s 2 "inn" (.dressed 0)).1 2 "inn").2 = .inst 0 := by
  decide

/-- **the invariant over histories**: in every state reachable from the empty one by any sequence of operations (constructor
calls with plain / dressed / None values, attribute reads and writes, copies, moves, Python attributes; operations naming
instances that do not exist are no-ops), every cached dressed child is a valid instance, and the one cached for a nested
(non-reference) field is at the field's in-line location in its container's buffer data and is not movable -/
theorem C18_mirror_history (u : Universe) (ops : List Op) : Inv u (ops.foldl (step u) initSt) :=
  history_inv u ops

/-- **nested attribute = buffer data, in every reachable state**: the attribute of a nested field is a dressed object whose
location IS the field's location inside the container (so its own attributes are read from, and written to, the container's
buffer data), and that object refuses to move -/
theorem C18_nested_get_mirrors (u : Universe) (ops : List Op) (i : Nat) (py : String) (c' : Nat) (j : Nat) :
    let s := ops.foldl (step u) initSt
    i < s.insts.length →
    fkind (clsOf u (s.inst i).cls) (xoName (clsOf u (s.inst i).cls) py) = some (.nested c') →
    (hget u s i py).2 = .inst j →
    (s.inst j).loc = (s.inst i).loc.sub (xoName (clsOf u (s.inst i).cls) py) ∧ (s.inst j).movable = false ∧
    (∀ dst, hmove u s j dst = (s, some .memory)) := by
  intro s hi hk hg
  have hinv : Inv u s := history_inv u ops
  simp only [hget, hk] at hg
  cases hd : (s.inst i).dressed.lookup (xoName (clsOf u (s.inst i).cls) py) with
  | none =>
    simp only [hd] at hg
    split at hg <;> simp at hg
  | some j' =>
    simp only [hd] at hg
    have hj : j' = j := by
      first
        | exact Got.inst.inj hg
        | (split at hg <;> simp_all)
    subst hj
    obtain ⟨_, q2⟩ := hinv i hi _ j' (lookup_mem _ _ _ hd)
    obtain ⟨r1, r2⟩ := q2 (by simp) ⟨c', hk⟩
    exact ⟨r1, r2, fun dst => C18_move_refused u s j' dst (Or.inl r2)⟩

/-! non-vacuity: after `top = Top(mid={...})` (nested Mid with a nested Leaf) and a move of `top`, the cached dressed `mid` is at
the in-line location of the new allocation -/
example :
    let u : Universe := [{ fields := [("a", .num)], rename := [] }, { fields := [("leaf", .nested 0), ("k", .num)], rename := [] },
                         { fields := [("mid", .nested 1)], rename := [] }]
    let s := [Op.new 2 0 [], Op.move 0 1].foldl (step u) initSt
    s.insts.length = 13 ∧ (hget u s 0 "mid").2 = .inst 10 ∧ (s.inst 10).loc = (s.inst 0).loc.sub "mid" ∧ (s.inst 0).loc.buf = 1 := by
  decide

end Hyb
