import Xo.Lemmas.LayoutRT
/-! C01 — values written at construction are read back exactly (property theorems only).
Reference-free grammar, nested to any depth; every conforming value; any buffer image and any placement with room.
References / union references and copy-construction from existing objects are covered by the executable heap model's tie
and the oracle (C08/C09), not by these theorems - that part of C01 is `_partial` here. -/
namespace Lay
open MemS

/-- **round trip**: construct `v` of type `t` anywhere in any buffer, then read through a view (which re-reads every cached
quantity - sizes, dimensions, field offsets, item offsets - from the bytes): the value comes back, a capacity as the empty string. -/
theorem C01_roundtrip_partial (t : Ty) (v : Val) (hw : t.WF) (hc : Conf t v) (hs : vsize t v < 2^64)
    (m : Mem) (off : Nat) (hb : off + vsize t v ≤ m.length) :
    readD t (apply (shift off (patchesD t v)) m) off = v.norm :=
  rtD t v hw hc hs m off hb _ (fun _ _ _ => rfl)

/-- **read locality**: the value read depends only on the bytes of the object's extent: any memory that agrees with the
written one there (other objects written later elsewhere, the buffer grown and relocated, …) reads the same value -/
theorem C01_read_local (t : Ty) (v : Val) (hw : t.WF) (hc : Conf t v) (hs : vsize t v < 2^64)
    (m : Mem) (off : Nat) (hb : off + vsize t v ≤ m.length) (m' : Mem)
    (hag : Agree m' (apply (shift off (patchesD t v)) m) off (off + vsize t v)) :
    readD t m' off = v.norm :=
  rtD t v hw hc hs m off hb m' hag

/-- a later construction of another object somewhere else does not change what this one reads -/
theorem C01_stable_under_other_writes (t : Ty) (v : Val) (hw : t.WF) (hc : Conf t v) (hs : vsize t v < 2^64)
    (m : Mem) (off : Nat) (hb : off + vsize t v ≤ m.length)
    (t2 : Ty) (v2 : Val) (hw2 : t2.WF) (hc2 : Conf t2 v2) (off2 : Nat) (hb2 : off2 + vsize t2 v2 ≤ m.length)
    (hd : off2 + vsize t2 v2 ≤ off ∨ off + vsize t v ≤ off2) :
    readD t (apply (shift off2 (patchesD t2 v2)) (apply (shift off (patchesD t v)) m)) off = v.norm := by
  have h1 := C03_like t v hw hc m off hb
  apply rtD t v hw hc hs m off hb
  have hw2' := within_shift (d := off2) (withinD t2 v2 hw2 hc2)
  have hw2'' : Within (shift off2 (patchesD t2 v2)) off2 (off2 + vsize t2 v2) := by simpa [Nat.add_comm] using hw2'
  have hf := apply_frame _ (apply (shift off (patchesD t v)) m) _ _ hw2'' (by rw [h1]; exact hb2)
  intro i hi1 hi2
  exact hf.2 i (by omega)
where
  C03_like (t : Ty) (v : Val) (hw : t.WF) (hc : Conf t v) (m : Mem) (off : Nat) (hb : off + vsize t v ≤ m.length) :
      (apply (shift off (patchesD t v)) m).length = m.length := by
    have h := within_shift (d := off) (withinD t v hw hc)
    have h' : Within (shift off (patchesD t v)) off (off + vsize t v) := by simpa [Nat.add_comm] using h
    exact (apply_frame _ m _ _ h' hb).1

/-- capacity form: `String(n)` reads back as the empty string -/
theorem C01_capacity_reads_empty (n : Nat) (hn : n + 8 < 2^64) (m : Mem) (off : Nat) (hb : off + (n + 8) ≤ m.length) :
    readD .string (apply (shift off (patchesD .string (.cap n))) m) off = .str [] := by
  have := C01_roundtrip_partial .string (.cap n) trivial (by simpa [Conf] using hn) (by simpa [vsize] using hn) m off
    (by simpa [vsize] using hb)
  simpa [Val.norm] using this

/-! non-vacuity: the hypotheses are met by a nested value with a 2-D array of strings in a non-C axis order, placed at an odd offset -/
example :
    readD (.struct [.scalar 2, .array .string [none, some 2] [1, 0]])
      (apply (shift 3 (patchesD (.struct [.scalar 2, .array .string [none, some 2] [1, 0]])
        (.struct [.bits 513, .arr [1, 2] [.str [104, 105], .cap 3]]))) (List.replicate 100 0xA5)) 3
      = Val.norm (.struct [.bits 513, .arr [1, 2] [.str [104, 105], .cap 3]]) := by
  rfl

end Lay
