import Xo.Lemmas.LayoutRT
import Xo.Lemmas.RefGraphOps
import Xo.Lemmas.IterIndex
import Xo.Lemmas.Path
/-! C01 — values written at construction are read back exactly (property theorems only).
Reference-free grammar, nested to any depth; every conforming value; any buffer image and any placement with room.
References / union references and copy-construction from existing objects are covered by the executable heap model's tie
and the oracle (C08/C09), not by these theorems - that part of C01 is `_partial` here. -/
namespace Lay
open MemS

/-- **round trip**: construct `v` of type `t` anywhere in any buffer, then read through a view (which re-reads every cached
quantity - sizes, dimensions, field offsets, item offsets - from the bytes): the value comes back, a capacity as the empty string. -/
theorem C01_roundtrip_partial (t : Ty) (v : Val) (hw : t.WF) (hc : Conf t v) (hs : vsize t v < 2^64)
    (m : Mem) (off : Nat) (hb : off + vsize t v ≤ m.length) :
    readD t (apply (shift off (patchesD t v)) m) off = v.norm :=
  rtD t v hw hc hs m off hb _ (fun _ _ _ => rfl)

/-- **read locality**: the value read depends only on the bytes of the object's extent: any memory that agrees with the
written one there (other objects written later elsewhere, the buffer grown and relocated, …) reads the same value -/
theorem C01_read_local (t : Ty) (v : Val) (hw : t.WF) (hc : Conf t v) (hs : vsize t v < 2^64)
    (m : Mem) (off : Nat) (hb : off + vsize t v ≤ m.length) (m' : Mem)
    (hag : Agree m' (apply (shift off (patchesD t v)) m) off (off + vsize t v)) :
    readD t m' off = v.norm :=
  rtD t v hw hc hs m off hb m' hag

/-- a later construction of another object somewhere else does not change what this one reads -/
theorem C01_stable_under_other_writes (t : Ty) (v : Val) (hw : t.WF) (hc : Conf t v) (hs : vsize t v < 2^64)
    (m : Mem) (off : Nat) (hb : off + vsize t v ≤ m.length)
    (t2 : Ty) (v2 : Val) (hw2 : t2.WF) (hc2 : Conf t2 v2) (off2 : Nat) (hb2 : off2 + vsize t2 v2 ≤ m.length)
    (hd : off2 + vsize t2 v2 ≤ off ∨ off + vsize t v ≤ off2) :
    readD t (apply (shift off2 (patchesD t2 v2)) (apply (shift off (patchesD t v)) m)) off = v.norm := by
  have h1 := C03_like t v hw hc m off hb
  apply rtD t v hw hc hs m off hb
  have hw2' := within_shift (d := off2) (withinD t2 v2 hw2 hc2)
  have hw2'' : Within (shift off2 (patchesD t2 v2)) off2 (off2 + vsize t2 v2) := by simpa [Nat.add_comm] using hw2'
  have hf := apply_frame _ (apply (shift off (patchesD t v)) m) _ _ hw2'' (by rw [h1]; exact hb2)
  intro i hi1 hi2
  exact hf.2 i (by omega)
where
  C03_like (t : Ty) (v : Val) (hw : t.WF) (hc : Conf t v) (m : Mem) (off : Nat) (hb : off + vsize t v ≤ m.length) :
      (apply (shift off (patchesD t v)) m).length = m.length := by
    have h := within_shift (d := off) (withinD t v hw hc)
    have h' : Within (shift off (patchesD t v)) off (off + vsize t v) := by simpa [Nat.add_comm] using h
    exact (apply_frame _ m _ _ h' hb).1

/-- capacity form: `String(n)` reads back as the empty string -/
theorem C01_capacity_reads_empty (n : Nat) (hn : n + 8 < 2^64) (m : Mem) (off : Nat) (hb : off + (n + 8) ≤ m.length) :
    readD .string (apply (shift off (patchesD .string (.cap n))) m) off = .str [] := by
  have := C01_roundtrip_partial .string (.cap n) trivial (by simpa [Conf] using hn) (by simpa [vsize] using hn) m off
    (by simpa [vsize] using hb)
  simpa [Val.norm] using this

/-! non-vacuity: the hypotheses are met by a nested value with a 2-D array of strings in a non-C axis order, placed at an odd offset -/
example :
    readD (.struct [.scalar 2, .array .string [none, some 2] [1, 0]])
      (apply (shift 3 (patchesD (.struct [.scalar 2, .array .string [none, some 2] [1, 0]])
        (.struct [.bits 513, .arr [1, 2] [.str [104, 105], .cap 3]]))) (List.replicate 100 0xA5)) 3
      = Val.norm (.struct [.bits 513, .arr [1, 2] [.str [104, 105], .cap 3]]) := by
  rfl

/-- **every nested accessor**: a part of a written object (field of a struct, item of an array; static or dynamic sizes) is
itself a written object at the part's offset - so the round trip, read locality, the header facts and this theorem again apply
to it: the statement descends to any depth -/
theorem C01_part_is_written (t : Ty) (v : Val) (hw : t.WF) (hc : Conf t v) (k o : Nat) (t' : Ty) (v1 : Val)
    (hp : part t v k = some (o, t', v1)) (m0 : Mem) (off : Nat) (hb : off + vsize t v ≤ m0.length) (m' : Mem)
    (hag : Agree m' (apply (shift off (patchesD t v)) m0) off (off + vsize t v)) :
    t'.WF ∧ Conf t' v1 ∧ o + vsize t' v1 ≤ vsize t v ∧
    ∃ m1 : Mem, m1.length = m0.length ∧
      Agree m' (apply (shift (off + o) (patchesD t' v1)) m1) (off + o) (off + o + vsize t' v1) :=
  part_agree t v hw hc k o t' v1 hp m0 off hb m' hag

/-- **every element accessor, at every nesting level**: the `w` bytes at the address of the scalar element a path ends in -
what a Python leaf accessor and a generated C getter load - are the little-endian image of exactly the element's value -/
theorem C01_read_leaf_at_path (t : Ty) (v : Val) (hw : t.WF) (hc : Conf t v) (hs : vsize t v < 2 ^ 64)
    (p : List Nat) (lo w : Nat) (hl : leafAt t v p = some (lo, w))
    (m0 : Mem) (off : Nat) (hb : off + vsize t v ≤ m0.length) (m' : Mem)
    (hag : Agree m' (apply (shift off (patchesD t v)) m0) off (off + vsize t v)) :
    ∃ b, b < 256 ^ w ∧ getAt t v p = some b ∧ fromLE (readAt m' (off + lo) w) = b := by
  obtain ⟨b, h1, h2, _, h4⟩ := leaf_read p t v lo w hw hc hs hl m0 off hb m' hag
  exact ⟨b, h1, h2, h4⟩

example : getAt (.struct [.string, .array (.struct [.scalar 2, .string]) [none] [0], .scalar 8])
      (.struct [.str [97], .arr [2] [.struct [.bits 5, .str [1,2,3,4,5,6,7,8,9]], .struct [.bits 6, .str []]], .bits 7]) [1, 1, 0]
      = some 6 := rfl


/-! ### objects that hold references (node model `Xo/Model/RefGraph.lean`, component `rg`) -/

/-- **construct, then read - references and union references included**: in every state satisfying the reference-graph invariant
(every reachable state), wherever the allocator places the new node (also after growth), every scalar field reads the value given
for it (0 when none was given), every reference field reads null - a union reference with member index -1.  What a reference reads
after it has been bound is `C08_bind_existing_aliases` / `C08_bind_value_fresh` / `C08_bind_null`. -/
theorem C01_new_node_reads (u : RG.Univ) (s s1 : RG.St) (hi : RG.Inv u s) (c : Nat) (vs : List Nat) (o : Nat)
    (h : RG.newObj u s c vs = (s1, some o)) :
    ∃ cl, u[c]? = some cl ∧ ∀ k fk, cl[k]? = some fk →
      (fk = .scal → fromLE (readAt s1.b.mem (o + RG.foff cl k) 8) = vs.getD (RG.scalIdx cl k) 0 % 256 ^ 8) ∧
      (fk ≠ .scal → deref s1.b.mem (o + RG.foff cl k) = none) ∧
      (∀ cs, fk = .uref cs → memberIdx s1.b.mem (o + RG.foff cl k) = -1) :=
  RG.newObj_reads hi h


/-- **the writer's item order is memory order**: `iter_index(shape, order)` - the order in which `Array._to_buffer` places the items
and in which the driver glue lists the items of a value - yields, for every shape and every axis order that is a permutation of the
axes, the index tuples by increasing memory position: the k-th tuple has position k.  Together with `C06_item_at_index` (the view
reads item number `mposL idx` for the tuple `idx`) this closes the loop "the value given for index tuple `idx` is the value read at
`idx`" for N-dimensional arrays of every axis order -/
theorem C01_iter_index_is_memory_order (shape order : List Nat) (hperm : order.Perm (List.range shape.length)) :
    (LayM.iterIndex shape order).map (mposL shape order) = List.range (prod (order.map fun ax => shape.getD ax 0)) :=
  iterIndex_mposL shape order hperm

example : LayM.iterIndex [2, 3] [1, 0] = [[0, 0], [1, 0], [0, 1], [1, 1], [0, 2], [1, 2]] ∧
    (LayM.iterIndex [2, 3] [1, 0]).map (mposL [2, 3] [1, 0]) = [0, 1, 2, 3, 4, 5] := by decide

end Lay
