import Xo.Model.Assign
import Xo.Lemmas.LayoutRT
import Xo.Lemmas.Index
import Xo.Model.RefGraph
import Xo.Model.Placement
import Xo.Lemmas.Assign
/-! C11 — operations that cannot be honoured fail without side effects (property theorems only).
The model's assignment returns either an error (and then there is no new memory: the buffer is what it was) or the new
memory; these theorems say when each happens and that a success never leaves the slot's extent.  The ORDER of checks and
writes in the real code (nothing written before the refusal) is what the tie compares: the buffer image at the raise. -/
namespace Lay
open MemS

theorem fromLE_lt : ∀ bs : List UInt8, fromLE bs < 256 ^ bs.length
 | [] => by simp [fromLE]
 | b :: bs => by
    have := fromLE_lt bs
    have hb : b.toNat < 256 := b.toNat_lt
    simp only [fromLE, List.length_cons, Nat.pow_succ]
    omega

/-- **refusal**: a string that needs more bytes than the size stored at creation is refused (ValueError), for text and
for capacity values alike; nothing is written -/
theorem C11_string_too_large (m : Mem) (addr : Nat) (bs : List UInt8)
    (h : fromLE (readAt m addr 8) < slot (bs.length + 1 + 8)) : rewriteStr m addr (.str bs) = .error .value := by
  simp [rewriteStr, h]

theorem C11_capacity_too_large (m : Mem) (addr n : Nat)
    (h : fromLE (readAt m addr 8) < n + 8) : rewriteStr m addr (.cap n) = .error .value := by
  simp [rewriteStr, h]

/-- **no silent overrun**: an accepted string assignment fits: it rewrites only bytes of `[addr, addr + stored size)`, keeps
the buffer length and keeps the stored size word, so the size of the instance does not change -/
theorem C11_string_fit_frame (m : Mem) (addr : Nat) (bs : List UInt8) (m' : Mem)
    (hcur : 8 ≤ fromLE (readAt m addr 8)) (hb : addr + fromLE (readAt m addr 8) ≤ m.length)
    (h : rewriteStr m addr (.str bs) = .ok m') :
    slot (bs.length + 1 + 8) ≤ fromLE (readAt m addr 8) ∧ m'.length = m.length ∧
    (∀ i, (i < addr ∨ addr + fromLE (readAt m addr 8) ≤ i) → m'[i]? = m[i]?) ∧
    fromLE (readAt m' addr 8) = fromLE (readAt m addr 8) := by
  generalize hc : fromLE (readAt m addr 8) = cur at *
  simp only [rewriteStr, hc] at h
  split at h
  · cases h
  · rename_i hfit
    injection h with h; subst h
    have hsl := slot_ge (bs.length + 1 + 8)
    have hw : Within [(addr, le 8 cur), (addr + 8, bs ++ zeros (cur - 8 - bs.length))] addr (addr + cur) := by
      intro p hp
      simp only [List.mem_cons, List.not_mem_nil, or_false] at hp
      rcases hp with rfl | rfl
      · simp [le_length]; omega
      · simp [zeros]; omega
    have hf := apply_frame _ m addr (addr + cur) hw hb
    refine ⟨by omega, hf.1, hf.2, ?_⟩
    simp only [apply, List.foldl_cons, List.foldl_nil]
    have hl1 := length_writeAt m addr (le 8 cur) (by simp [le_length]; omega)
    rw [readAt_writeAt_disj _ _ _ (by rw [hl1]; simp [zeros]; omega) _ _ (by left; omega)]
    have := readAt_writeAt_same m addr (le 8 cur) (by simp [le_length]; omega)
    rw [le_length] at this
    rw [this, fromLE_le, Nat.mod_eq_of_lt]
    have := fromLE_lt (readAt m addr 8)
    have hl8 : (readAt m addr 8).length ≤ 8 := by simp [readAt]; omega
    rw [← hc]
    calc fromLE (readAt m addr 8) < 256 ^ (readAt m addr 8).length := this
      _ ≤ 256 ^ 8 := Nat.pow_le_pow_right (by omega) hl8

/-- an accepted string assignment reads back as the assigned text, with the capacity fixed at creation unchanged -/
theorem C11_string_fit_value (m : Mem) (addr : Nat) (bs : List UInt8) (m' : Mem)
    (hnz : bs.getLast? ≠ some 0) (hb : addr + fromLE (readAt m addr 8) ≤ m.length)
    (h : rewriteStr m addr (.str bs) = .ok m') :
    readD .string m' addr = .str bs := by
  generalize hc : fromLE (readAt m addr 8) = cur at *
  have hlt : cur < 2 ^ 64 := by
    have := fromLE_lt (readAt m addr 8)
    have hl8 : (readAt m addr 8).length ≤ 8 := by simp [readAt]; omega
    rw [← hc]
    calc fromLE (readAt m addr 8) < 256 ^ (readAt m addr 8).length := this
      _ ≤ 256 ^ 8 := Nat.pow_le_pow_right (by omega) hl8
  simp only [rewriteStr, hc] at h
  split at h
  · cases h
  · rename_i hfit
    injection h with h; subst h
    have hsl := slot_ge (bs.length + 1 + 8)
    simp only [apply, List.foldl_cons, List.foldl_nil, readD]
    have hl1 := length_writeAt m addr (le 8 cur) (by simp [le_length]; omega)
    have hdl : (bs ++ zeros (cur - 8 - bs.length)).length = cur - 8 := by simp [zeros]; omega
    have hsz : readAt (writeAt (writeAt m addr (le 8 cur)) (addr + 8) (bs ++ zeros (cur - 8 - bs.length))) addr 8 = le 8 cur := by
      rw [readAt_writeAt_disj _ _ _ (by rw [hdl, hl1]; omega) _ _ (by left; omega)]
      have := readAt_writeAt_same m addr (le 8 cur) (by simp [le_length]; omega)
      rwa [le_length] at this
    rw [hsz, fromLE_le, Nat.mod_eq_of_lt (by simpa using hlt)]
    have := readAt_writeAt_same (writeAt m addr (le 8 cur)) (addr + 8) (bs ++ zeros (cur - 8 - bs.length)) (by rw [hdl, hl1]; omega)
    rw [hdl] at this
    rw [this, stripNul_append_zeros _ _ hnz]

/-- assigning a scalar changes exactly its `w` bytes (used by C10) and can never fail or overrun: the slot has the type's width -/
theorem C11_scalar_never_overruns (m : Mem) (addr w b : Nat) (hb : addr + w ≤ m.length) :
    (setScalar m addr w b).length = m.length ∧
    ∀ i, (i < addr ∨ addr + w ≤ i) → (setScalar m addr w b)[i]? = m[i]? := by
  unfold setScalar
  have hl := le_length w b
  refine ⟨length_writeAt m addr _ (by omega), ?_⟩
  intro i hi
  rw [getElem?_writeAt m addr _ (by omega) i]
  have : ¬ (addr ≤ i ∧ i < addr + (le w b).length) := by omega
  simp [this]

/-! non-vacuity: a 24-byte string slot accepts "hi" and refuses a 17-byte text -/
example : ∃ m', rewriteStr (le 8 24 ++ [120, 121, 122] ++ zeros 13 ++ [9, 9]) 0 (.str [104, 105]) = .ok m' ∧
    readD .string m' 0 = .str [104, 105] ∧ m'.drop 24 = [9, 9] := ⟨_, rfl, by rfl, by rfl⟩
example : rewriteStr (le 8 24 ++ zeros 16) 0 (.str (List.replicate 17 65)) = .error .value := by rfl

/-! ### index refusals (`bound_check`, the definition `LayR.itemAddr` - the executable reader tied to the library - calls) -/

/-- **an index outside the array's shape is refused - exactly then**: `bound_check` refuses iff the tuple has more coordinates
than the array has axes or some coordinate lies outside `[0, dim)` of its axis -/
theorem C11_index_refused_iff (shape : List Nat) (idx : List Int) :
    boundCheck shape idx = false ↔
      shape.length < idx.length ∨ ∃ (k : Nat) (i : Int) (s : Nat), idx[k]? = some i ∧ shape[k]? = some s ∧ (i < 0 ∨ (s : Int) ≤ i) := by
  unfold boundCheck
  simp only [Bool.and_eq_false_iff, Bool.not_eq_false', decide_eq_true_eq, List.any_eq_true, Bool.or_eq_true, ge_iff_le]
  constructor
  · rintro (h | ⟨p, hp, hc⟩)
    · exact Or.inl h
    · right
      obtain ⟨k, hk, hpk⟩ := List.mem_iff_getElem.mp hp
      have hk1 : k < idx.length := by simp only [List.length_zip] at hk; omega
      have hk2 : k < shape.length := by simp only [List.length_zip] at hk; omega
      refine ⟨k, idx[k], shape[k], List.getElem?_eq_getElem hk1, List.getElem?_eq_getElem hk2, ?_⟩
      rw [List.getElem_zip] at hpk
      subst hpk
      exact hc
  · rintro (h | ⟨k, i, s, h1, h2, hc⟩)
    · exact Or.inl h
    · right
      obtain ⟨hk1, e1⟩ := List.getElem?_eq_some_iff.mp h1
      obtain ⟨hk2, e2⟩ := List.getElem?_eq_some_iff.mp h2
      refine ⟨(i, s), ?_, hc⟩
      apply List.mem_iff_getElem.mpr
      refine ⟨k, by simp only [List.length_zip]; omega, ?_⟩
      rw [List.getElem_zip, e1, e2]

/-- a tuple with one coordinate per axis is accepted iff it is a valid index (every coordinate in `[0, dim)`) -/
theorem C11_full_index_accepted_iff (shape idx : List Nat) (hl : idx.length = shape.length) :
    boundCheck shape (idx.map Int.ofNat) = true ↔ ValidIdx shape idx := by
  rw [← Bool.not_eq_false, C11_index_refused_iff]
  constructor
  · intro h
    refine ⟨hl, fun ax hax => ?_⟩
    apply Classical.byContradiction
    intro hc
    apply h
    right
    have h1 : ax < idx.length := by omega
    refine ⟨ax, (idx[ax] : Int), shape[ax], by simp [List.getElem?_eq_getElem h1], List.getElem?_eq_getElem hax, Or.inr ?_⟩
    have : ¬ idx[ax] < shape[ax] := by
      simpa [List.getD_eq_getElem?_getD, List.getElem?_eq_getElem h1, List.getElem?_eq_getElem hax] using hc
    omega
  · rintro ⟨_, hv⟩ (h | ⟨k, i, s, h1, h2, hc⟩)
    · simp only [List.length_map] at h; omega
    · obtain ⟨hk2, e2⟩ := List.getElem?_eq_some_iff.mp h2
      have hk1 : k < idx.length := by omega
      have := hv k hk2
      simp only [List.getD_eq_getElem?_getD, List.getElem?_eq_getElem hk1, List.getElem?_eq_getElem hk2, Option.getD_some] at this
      simp only [List.getElem?_map, List.getElem?_eq_getElem hk1, Option.map_some, Option.some.injEq] at h1
      subst h1 e2
      rcases hc with hc | hc
      · exact absurd hc (by simp)
      · have : (shape[k] : Int) ≤ (idx[k] : Int) := hc
        omega

/-- **an accepted index never reaches beyond the array**: for an array of fixed-size items (any shape, any axis order) the item
address the view computes for an accepted full index - header + `Σ idx[ax] * stride[ax]` - leaves room for the whole item inside
the array's own extent, so neither the read nor the write of that item can touch a neighbour -/
theorem C11_accepted_index_inside (it : Ty) (shape : List (Option Nat)) (order sh : List Nat) (items : List Val)
    (hc : Conf (.array it shape order) (.arr sh items)) (hst : (ainfo it shape).staticType = true)
    (hperm : order.Perm (List.range sh.length)) (idx : List Nat) (hl : idx.length = sh.length)
    (hacc : boundCheck sh (idx.map Int.ofNat) = true) :
    (ainfo it shape).dataOff + dot idx (getStrides sh order (ainfo it shape).unit) + (ainfo it shape).unit
      ≤ vsize (.array it shape order) (.arr sh items) := by
  have hv := (C11_full_index_accepted_iff sh idx hl).mp hacc
  have hlt := mposL_lt sh order idx hperm hv
  rw [dot_getStrides sh order idx _ hperm hl]
  obtain ⟨_, hlen, _, _⟩ := hc
  simp only [vsize, hst, ↓reduceIte]
  have hs := slot_ge ((ainfo it shape).dataOff + (ainfo it shape).unit * items.length)
  have : (ainfo it shape).unit * mposL sh order idx + (ainfo it shape).unit ≤ (ainfo it shape).unit * items.length := by
    rw [hlen, ← Nat.mul_succ]
    exact Nat.mul_le_mul_left _ hlt
  omega

example : boundCheck [2, 3] [1, 2] = true ∧ boundCheck [2, 3] [1, 2, 5] = false ∧ boundCheck [2, 3] [-1, 0] = false ∧
    boundCheck [2, 3] [0, 3] = false ∧ boundCheck [2, 3] [1] = true := by decide

/-- "a value whose type is not a member of the union": binding a node whose class is not among the members of the union reference
(or is not the class of the plain reference) is refused by the reference-graph model - the state, every byte and every live object,
is the state before.  The tie executes exactly this `bindObj` against the library's raise (`bindbad` operations of the `rg` stream). -/
theorem C11_nonmember_refused (u : RG.Univ) (s : RG.St) (ha k ta : Nat) (h t : RG.Ent) (fk : RG.FK) (a tc : Nat)
    (hh : RG.findObj s ha = some h) (ht : RG.findObj s ta = some t) (hf : RG.fieldAt u h k = some (fk, a))
    (htc : t.cls = some tc)
    (hn : match fk with | .scal => True | .ref c => tc ≠ c | .uref cs => tc ∉ cs) :
    RG.bindObj u s ha k ta = s := by
  unfold RG.bindObj
  simp only [hh, ht, hf, htc]
  cases fk with
  | scal => rfl
  | ref c => simp only at hn; simp [hn]
  | uref cs => simp only at hn; simp [hn]

/-! ### whole-array updates (`Array._update`, model `Lay.updateArr`: executed by the `lay` driver on every whole-array assignment of a
reference-free type against the library - the buffer image after an accepted update, the unchanged image at a refusal) -/

/-- **an array update of different length or shape is refused**: the value's shape is compared with the dimensions the instance
holds (header words for dynamic dimensions) - nothing is written -/
theorem C11_array_update_shape_refused (it : Ty) (shape : List (Option Nat)) (order : List Nat) (m : Mem) (addr : Nat)
    (sh : List Nat) (items : List Val)
    (h : sh ≠ readDims m shape (if (ainfo it shape).staticShape && (ainfo it shape).staticType then 0 else addr + 8)) :
    updateArr it shape order m addr (.arr sh items) = .error .value := by
  unfold updateArr
  by_cases hs : ((ainfo it shape).staticShape && (ainfo it shape).staticType) = true
  · simp only [hs, ↓reduceIte] at h ⊢
    simp [h]
  · simp only [hs, Bool.false_eq_true, ↓reduceIte] at h ⊢
    simp [h]

/-- **items too large for the space fixed at creation are refused**: a value of the right shape that needs more bytes than the size
stored in the instance (dynamically sized items that grew) - nothing is written -/
theorem C11_array_update_too_large_refused (it : Ty) (shape : List (Option Nat)) (order : List Nat) (m : Mem) (addr : Nat)
    (sh : List Nat) (items : List Val)
    (hd : ((ainfo it shape).staticShape && (ainfo it shape).staticType) = false)
    (h : fromLE (readAt m addr 8) < vsize (.array it shape order) (.arr sh items)) :
    updateArr it shape order m addr (.arr sh items) = .error .value := by
  unfold updateArr
  simp only [hd, Bool.false_eq_true, ↓reduceIte]
  split
  · rfl
  · simp [h]

/-- **an accepted update never writes beyond its target**: it needs at most the instance's size, rewrites only bytes of
`[addr, addr + size)`, keeps the buffer's length, and the size word it leaves is the instance's own - the size of an instance does
not change -/
theorem C11_array_update_frame (it : Ty) (shape : List (Option Nat)) (order : List Nat) (m m' : Mem) (addr : Nat)
    (sh : List Nat) (items : List Val) (hwf : (Ty.array it shape order).WF) (hc : Conf (.array it shape order) (.arr sh items))
    (hd : ((ainfo it shape).staticShape && (ainfo it shape).staticType) = false)
    (hb : addr + fromLE (readAt m addr 8) ≤ m.length)
    (h : updateArr it shape order m addr (.arr sh items) = .ok m') :
    vsize (.array it shape order) (.arr sh items) ≤ fromLE (readAt m addr 8) ∧ m'.length = m.length ∧
    (∀ i, (i < addr ∨ addr + fromLE (readAt m addr 8) ≤ i) → m'[i]? = m[i]?) := by
  generalize hcur : fromLE (readAt m addr 8) = cur at *
  unfold updateArr at h
  simp only [hd, Bool.false_eq_true, ↓reduceIte, hcur] at h
  split at h
  · cases h
  · split at h
    · cases h
    · rename_i hsh hfit
      injection h with h; subst h
      have hw := withinD _ _ hwf hc
      have h8 : ∀ bs rest, patchesD (.array it shape order) (.arr sh items) = (0, bs) :: rest → 8 ≤ bs.length := by
        intro bs rest he
        simp only [patchesD, hd, Bool.false_eq_true, ↓reduceIte, List.cons.injEq, Prod.mk.injEq, true_and] at he
        rw [← he.1, words_length]
        simp only [List.length_cons]
        omega
      have hk := keepSize_within cur _ 0 _ hw h8
      have hs := within_shift (d := addr) hk
      have hle : vsize (.array it shape order) (.arr sh items) ≤ cur := by omega
      have hf := apply_frame _ m (0 + addr) (vsize (.array it shape order) (.arr sh items) + addr) hs (by omega)
      refine ⟨hle, hf.1, ?_⟩
      intro i hi
      exact hf.2 i (by omega)

/-! non-vacuity: `Int64[:]` of two items at offset 8 of a 40-byte memory (32-byte instance): a value of the same length is written inside the
instance and keeps the size word, three items are refused -/
example :
    let ty := Ty.array (.scalar 8) [none] [0]
    let m := zeros 8 ++ apply (patchesD ty (.arr [2] [.bits 1, .bits 2])) (zeros 32)
    (∃ m', updateArr (.scalar 8) [none] [0] m 8 (.arr [2] [.bits 7, .bits 9]) = .ok m' ∧ readD ty m' 8 = .arr [2] [.bits 7, .bits 9] ∧
        fromLE (readAt m' 8 8) = 32 ∧ m'.take 8 = zeros 8) ∧
      updateArr (.scalar 8) [none] [0] m 8 (.arr [3] [.bits 7, .bits 9, .bits 1]) = .error .value := by
  refine ⟨⟨_, rfl, by rfl, by decide, by decide⟩, by rfl⟩

/-! ### placement refusals (`typeutils.allocate_on_buffer`; component `place` runs `Place.decide` against the library for every
combination of context / buffer / offset arguments) -/

/-- **an explicit offset without a buffer is refused**, whatever the offset (a number - 0 included -, "aligned", "packed") and
whether or not a context is given; nothing is decided before the refusal: no buffer is created, nothing is allocated -/
theorem C11_offset_without_buffer_refused (dflt : Nat) (ctx : Option Nat) (off : Place.Off) (h : off ≠ .none) :
    Place.decide dflt ⟨ctx, none, off⟩ = .error .offsetWithoutBuffer := by
  simp [Place.decide, h]

/-- **a buffer that belongs to a different context is refused**, for every offset argument -/
theorem C11_foreign_context_refused (dflt b bc c : Nat) (off : Place.Off) (h : bc ≠ c) :
    Place.decide dflt ⟨some c, some (b, bc), off⟩ = .error .mismatchedContext := by
  simp [Place.decide, h]

/-- the two refusals are the ONLY ones: a placement request is refused iff it gives an offset without a buffer, or a buffer and a
context the buffer does not belong to -/
theorem C11_placement_refused_iff (dflt : Nat) (r : Place.Req) :
    (∃ e, Place.decide dflt r = .error e) ↔
      (r.buf = none ∧ r.off ≠ .none) ∨ (∃ b bc c, r.buf = some (b, bc) ∧ r.ctx = some c ∧ bc ≠ c) := by
  obtain ⟨ctx, buf, off⟩ := r
  cases buf with
  | none =>
    by_cases h : off = .none
    · subst h; simp [Place.decide]
    · simp [Place.decide, h]
  | some p =>
    obtain ⟨b, bc⟩ := p
    cases ctx with
    | none => cases off <;> simp [Place.decide]
    | some c =>
      by_cases h : bc = c
      · subst h; cases off <;> simp [Place.decide]
      · cases off <;> simp [Place.decide, h] <;> exact ⟨b, bc, ⟨rfl, rfl⟩, h⟩

/-- an accepted request goes to the GIVEN buffer when one is given, else to a new buffer of the given context (the default context
when none is given); a numeric offset is used as it is and leaves the allocator untouched, the other forms allocate with / without
alignment -/
theorem C11_placement_accepted (dflt : Nat) (r : Place.Req) (sel : Place.BufSel) (how : Place.How)
    (h : Place.decide dflt r = .ok (sel, how)) :
    (match r.buf with
     | some (b, _) => sel = .given b
     | none => sel = .fresh (r.ctx.getD dflt)) ∧
    (match r.off with
     | .none => how = .alloc true
     | .aligned => how = .alloc true
     | .packed => how = .alloc false
     | .at n => how = .at n ∧ ∀ s size, Place.apply s size how = some (n, s)) := by
  obtain ⟨ctx, buf, off⟩ := r
  cases buf with
  | none =>
    by_cases ho : off = .none
    · subst ho
      simp only [Place.decide, ne_eq, not_true_eq_false, ↓reduceIte, Except.ok.injEq, Prod.mk.injEq] at h
      obtain ⟨h1, h2⟩ := h
      exact ⟨h1.symm, h2.symm⟩
    · simp [Place.decide, ho] at h
  | some p =>
    obtain ⟨b, bc⟩ := p
    have key : ∀ s, (match ctx with
        | some c => if bc ≠ c then (Except.error Place.Err.mismatchedContext : Except Place.Err Place.BufSel) else .ok (.given b)
        | none => .ok (.given b)) = .ok s → s = .given b := by
      intro s hs
      cases ctx with
      | none => simp at hs; exact hs.symm
      | some c =>
        by_cases hc : bc = c
        · simp [hc] at hs; exact hs.symm
        · simp [hc] at hs
    simp only [Place.decide] at h
    split at h
    · cases h
    · rename_i s hs
      have hsb := key s hs
      simp only [Except.ok.injEq, Prod.mk.injEq] at h
      obtain ⟨h1, h2⟩ := h
      refine ⟨by rw [← h1, hsb], ?_⟩
      cases off <;> simp only at h2 ⊢ <;> first | exact h2.symm | (refine ⟨h2.symm, ?_⟩; intro s size; rw [← h2]; rfl)

example : Place.decide 0 ⟨none, none, .at 0⟩ = .error .offsetWithoutBuffer ∧
    Place.decide 0 ⟨some 1, some (7, 2), .none⟩ = .error .mismatchedContext ∧
    Place.decide 0 ⟨some 2, some (7, 2), .packed⟩ = .ok (.given 7, .alloc false) ∧
    Place.decide 0 ⟨none, none, .none⟩ = .ok (.fresh 0, .alloc true) := ⟨rfl, rfl, rfl, rfl⟩

end Lay
