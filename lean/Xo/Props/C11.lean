import Xo.Model.Assign
import Xo.Lemmas.LayoutRT
/-! C11 — operations that cannot be honoured fail without side effects (property theorems only).
The model's assignment returns either an error (and then there is no new memory: the buffer is what it was) or the new
memory; these theorems say when each happens and that a success never leaves the slot's extent.  The ORDER of checks and
writes in the real code (nothing written before the refusal) is what the tie compares: the buffer image at the raise. -/
namespace Lay
open MemS

theorem fromLE_lt : ∀ bs : List UInt8, fromLE bs < 256 ^ bs.length
 | [] => by simp [fromLE]
 | b :: bs => by
    have := fromLE_lt bs
    have hb : b.toNat < 256 := b.toNat_lt
    simp only [fromLE, List.length_cons, Nat.pow_succ]
    omega

/-- **refusal**: a string that needs more bytes than the size stored at creation is refused (ValueError), for text and
for capacity values alike; nothing is written -/
theorem C11_string_too_large (m : Mem) (addr : Nat) (bs : List UInt8)
    (h : fromLE (readAt m addr 8) < slot (bs.length + 1 + 8)) : rewriteStr m addr (.str bs) = .error .value := by
  simp [rewriteStr, h]

theorem C11_capacity_too_large (m : Mem) (addr n : Nat)
    (h : fromLE (readAt m addr 8) < n + 8) : rewriteStr m addr (.cap n) = .error .value := by
  simp [rewriteStr, h]

/-- **no silent overrun**: an accepted string assignment fits: it rewrites only bytes of `[addr, addr + stored size)`, keeps
the buffer length and keeps the stored size word, so the size of the instance does not change -/
theorem C11_string_fit_frame (m : Mem) (addr : Nat) (bs : List UInt8) (m' : Mem)
    (hcur : 8 ≤ fromLE (readAt m addr 8)) (hb : addr + fromLE (readAt m addr 8) ≤ m.length)
    (h : rewriteStr m addr (.str bs) = .ok m') :
    slot (bs.length + 1 + 8) ≤ fromLE (readAt m addr 8) ∧ m'.length = m.length ∧
    (∀ i, (i < addr ∨ addr + fromLE (readAt m addr 8) ≤ i) → m'[i]? = m[i]?) ∧
    fromLE (readAt m' addr 8) = fromLE (readAt m addr 8) := by
  generalize hc : fromLE (readAt m addr 8) = cur at *
  simp only [rewriteStr, hc] at h
  split at h
  · cases h
  · rename_i hfit
    injection h with h; subst h
    have hsl := slot_ge (bs.length + 1 + 8)
    have hw : Within [(addr, le 8 cur), (addr + 8, bs ++ zeros (cur - 8 - bs.length))] addr (addr + cur) := by
      intro p hp
      simp only [List.mem_cons, List.not_mem_nil, or_false] at hp
      rcases hp with rfl | rfl
      · simp [le_length]; omega
      · simp [zeros]; omega
    have hf := apply_frame _ m addr (addr + cur) hw hb
    refine ⟨by omega, hf.1, hf.2, ?_⟩
    simp only [apply, List.foldl_cons, List.foldl_nil]
    have hl1 := length_writeAt m addr (le 8 cur) (by simp [le_length]; omega)
    rw [readAt_writeAt_disj _ _ _ (by rw [hl1]; simp [zeros]; omega) _ _ (by left; omega)]
    have := readAt_writeAt_same m addr (le 8 cur) (by simp [le_length]; omega)
    rw [le_length] at this
    rw [this, fromLE_le, Nat.mod_eq_of_lt]
    have := fromLE_lt (readAt m addr 8)
    have hl8 : (readAt m addr 8).length ≤ 8 := by simp [readAt]; omega
    rw [← hc]
    calc fromLE (readAt m addr 8) < 256 ^ (readAt m addr 8).length := this
      _ ≤ 256 ^ 8 := Nat.pow_le_pow_right (by omega) hl8

/-- an accepted string assignment reads back as the assigned text, with the capacity fixed at creation unchanged -/
theorem C11_string_fit_value (m : Mem) (addr : Nat) (bs : List UInt8) (m' : Mem)
    (hnz : bs.getLast? ≠ some 0) (hb : addr + fromLE (readAt m addr 8) ≤ m.length)
    (h : rewriteStr m addr (.str bs) = .ok m') :
    readD .string m' addr = .str bs := by
  generalize hc : fromLE (readAt m addr 8) = cur at *
  have hlt : cur < 2 ^ 64 := by
    have := fromLE_lt (readAt m addr 8)
    have hl8 : (readAt m addr 8).length ≤ 8 := by simp [readAt]; omega
    rw [← hc]
    calc fromLE (readAt m addr 8) < 256 ^ (readAt m addr 8).length := this
      _ ≤ 256 ^ 8 := Nat.pow_le_pow_right (by omega) hl8
  simp only [rewriteStr, hc] at h
  split at h
  · cases h
  · rename_i hfit
    injection h with h; subst h
    have hsl := slot_ge (bs.length + 1 + 8)
    simp only [apply, List.foldl_cons, List.foldl_nil, readD]
    have hl1 := length_writeAt m addr (le 8 cur) (by simp [le_length]; omega)
    have hdl : (bs ++ zeros (cur - 8 - bs.length)).length = cur - 8 := by simp [zeros]; omega
    have hsz : readAt (writeAt (writeAt m addr (le 8 cur)) (addr + 8) (bs ++ zeros (cur - 8 - bs.length))) addr 8 = le 8 cur := by
      rw [readAt_writeAt_disj _ _ _ (by rw [hdl, hl1]; omega) _ _ (by left; omega)]
      have := readAt_writeAt_same m addr (le 8 cur) (by simp [le_length]; omega)
      rwa [le_length] at this
    rw [hsz, fromLE_le, Nat.mod_eq_of_lt (by simpa using hlt)]
    have := readAt_writeAt_same (writeAt m addr (le 8 cur)) (addr + 8) (bs ++ zeros (cur - 8 - bs.length)) (by rw [hdl, hl1]; omega)
    rw [hdl] at this
    rw [this, stripNul_append_zeros _ _ hnz]

/-- assigning a scalar changes exactly its `w` bytes (used by C10) and can never fail or overrun: the slot has the type's width -/
theorem C11_scalar_never_overruns (m : Mem) (addr w b : Nat) (hb : addr + w ≤ m.length) :
    (setScalar m addr w b).length = m.length ∧
    ∀ i, (i < addr ∨ addr + w ≤ i) → (setScalar m addr w b)[i]? = m[i]? := by
  unfold setScalar
  have hl := le_length w b
  refine ⟨length_writeAt m addr _ (by omega), ?_⟩
  intro i hi
  rw [getElem?_writeAt m addr _ (by omega) i]
  have : ¬ (addr ≤ i ∧ i < addr + (le w b).length) := by omega
  simp [this]

/-! non-vacuity: a 24-byte string slot accepts "hi" and refuses a 17-byte text -/
example : ∃ m', rewriteStr (le 8 24 ++ [120, 121, 122] ++ zeros 13 ++ [9, 9]) 0 (.str [104, 105]) = .ok m' ∧
    readD .string m' 0 = .str [104, 105] ∧ m'.drop 24 = [9, 9] := ⟨_, rfl, by rfl, by rfl⟩
example : rewriteStr (le 8 24 ++ zeros 16) 0 (.str (List.replicate 17 65)) = .error .value := by rfl

end Lay
