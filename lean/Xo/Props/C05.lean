import Xo.Props.C03
import Xo.Lemmas.RefGraphOps
import Xo.Lemmas.CApiFields
/-! C05 — object bytes follow the documented binary layout (property theorems only).

The documented format (Architecture.md, docs/architecture/types.rst): 8-byte slots; dynamically sized objects begin with their
total size; structs hold static fields in declaration order, then the offsets of the second and later dynamic fields, then the
dynamic data; arrays hold their dynamic dimensions, their strides when N-dimensional and dynamic, and for dynamically sized
items a table of item offsets in memory order; strings are size-prefixed NUL-terminated UTF-8.
`readD` decodes exactly this description (size word, header words, offset slots, offset table, data) and nothing else - it uses
no information from the writer - so the round trip IS "a decoder written from the description recovers the value"; the byte-level
shape of each constructor's output is stated separately below.  References are outside these theorems (tie + oracle). -/
namespace Lay
open MemS

/-- **decoder**: decoding the bytes by the documented rules recovers the written value, wherever the object lies -/
theorem C05_decode (t : Ty) (v : Val) (hw : t.WF) (hc : Conf t v) (hs : vsize t v < 2^64)
    (m : Mem) (off : Nat) (hb : off + vsize t v ≤ m.length) :
    readD t (apply (shift off (patchesD t v)) m) off = v.norm :=
  rtD t v hw hc hs m off hb _ (fun _ _ _ => rfl)

/-- **strings**: size word (a multiple of 8 that leaves room for at least one NUL), then the UTF-8 bytes, then NUL padding -/
theorem C05_string (bs : List UInt8) :
    patchesD .string (.str bs) =
      [(0, le 8 (slot (bs.length + 9))), (8, bs ++ zeros (slot (bs.length + 9) - 8 - bs.length))] ∧
    slot (bs.length + 9) % 8 = 0 ∧ 1 ≤ slot (bs.length + 9) - 8 - bs.length := by
  refine ⟨by simp [patchesD], slot_mod _, ?_⟩
  have := slot_ge (bs.length + 9); omega

/-- **static struct**: fields in declaration order, each on a slot boundary -/
theorem C05_static_struct_slots : ∀ (fs : List Ty) (vs : List Val) (o : Nat), o % 8 = 0 →
    ∀ e ∈ sExtents fs vs o, e.1 % 8 = 0
 | t :: ts, v :: vs, o, ho => by
    intro e he
    simp only [sExtents, List.mem_cons] at he
    rcases he with rfl | he
    · exact ho
    · exact C05_static_struct_slots ts vs _ (by have := slot_mod ((t.ssize).getD 0); omega) e he
 | [], _, _, _ => by intro e he; simp [sExtents] at he
 | _ :: _, [], _, _ => by intro e he; simp [sExtents] at he

theorem staticBytes_mod : ∀ fs : List Ty, staticBytes fs % 8 = 0
 | [] => rfl
 | t :: ts => by
    have := staticBytes_mod ts
    simp only [staticBytes]
    split
    · rename_i s _; have := slot_mod s; omega
    · omega

/-- **dynamic struct**: `[size] [static fields] [offsets of the 2nd.. dynamic fields] [dynamic data]`: the size word is the first
write, the data area starts right after the offset slots, and every field - static or dynamic - starts on a slot boundary -/
theorem C05_dynamic_struct (fs : List Ty) (vs : List Val) (hs : ssizeFields fs = none) :
    patchesD (.struct fs) (.struct vs) =
      (0, le 8 (vsize (.struct fs) (.struct vs))) :: dPatches fs vs 8 0 (8 + staticBytes fs + 8 * (ndynF fs - 1)) (8 + staticBytes fs) ∧
    (8 + staticBytes fs + 8 * (ndynF fs - 1)) % 8 = 0 := by
  refine ⟨by simp [patchesD, hs, dynStart], ?_⟩
  have := staticBytes_mod fs; omega

theorem C05_dynamic_struct_slots : ∀ (fs : List Ty) (vs : List Val) (so dof : Nat), so % 8 = 0 → dof % 8 = 0 →
    ∀ e ∈ dExtents fs vs so dof, e.1 % 8 = 0
 | t :: ts, v :: vs, so, dof, h1, h2 => by
    intro e he
    simp only [dExtents] at he
    split at he
    · rename_i s _
      rcases List.mem_cons.mp he with rfl | he
      · exact h1
      · exact C05_dynamic_struct_slots ts vs _ dof (by have := slot_mod s; omega) h2 e he
    · rcases List.mem_cons.mp he with rfl | he
      · exact h2
      · exact C05_dynamic_struct_slots ts vs so _ h1 (by have := slot_mod (vsize t v); omega) e he
 | [], _, _, _, _, _ => by intro e he; simp [dExtents] at he
 | _ :: _, [], _, _, _, _ => by intro e he; simp [dExtents] at he

/-- the offset slot of the k-th (k ≥ 1) dynamic field holds that field's offset relative to the struct start -/
theorem C05_offset_slot (t : Ty) (ts : List Ty) (v : Val) (vs : List Val) (so k dof sb : Nat) (hd : t.ssize = none) (hk : k ≠ 0) :
    (sb + 8 * (k - 1), le 8 dof) ∈ dPatches (t :: ts) (v :: vs) so k dof sb := by
  simp [dPatches, hd, hk]

/-- **array header**: `[size] [dynamic dimensions] [strides if N-dimensional and dynamically shaped]`, in one write at offset 0,
exactly `dataOff` bytes long -/
theorem C05_array_header (it : Ty) (shape : List (Option Nat)) (order sh : List Nat) (items : List Val)
    (hm : shapeMatches shape sh) (ho : order.length = shape.length)
    (h : ((ainfo it shape).staticShape && (ainfo it shape).staticType) = false) :
    ∃ tail, patchesD (.array it shape order) (.arr sh items) =
      (0, words (vsize (.array it shape order) (.arr sh items) :: (dynDims shape sh ++
        (if !(ainfo it shape).staticShape && (ainfo it shape).nd > 1 then getStrides sh order (ainfo it shape).unit else [])))) :: tail ∧
    (words (vsize (.array it shape order) (.arr sh items) :: (dynDims shape sh ++
        (if !(ainfo it shape).staticShape && (ainfo it shape).nd > 1 then getStrides sh order (ainfo it shape).unit else [])))).length
      = (ainfo it shape).dataOff ∧ (ainfo it shape).dataOff % 8 = 0 := by
  have hl := header_length it shape order sh (vsize (.array it shape order) (.arr sh items)) hm ho h
  have hmod : (ainfo it shape).dataOff % 8 = 0 := by rw [← hl, words_length]; omega
  simp only [patchesD, h, Bool.false_eq_true, ↓reduceIte]
  exact ⟨_, rfl, hl, hmod⟩

/-- **item-offset table**: for dynamically sized items the table follows the header; entry `k` is the offset, relative to the
array start, of the `k`-th item IN MEMORY ORDER; items are laid out in that order, each on a slot boundary -/
theorem C05_array_table (it : Ty) (shape : List (Option Nat)) (order sh : List Nat) (items : List Val)
    (h : ((ainfo it shape).staticShape && (ainfo it shape).staticType) = false) (hd : (ainfo it shape).staticType = false) :
    ((ainfo it shape).dataOff, words (offsetsD (vsize it) items ((ainfo it shape).dataOff + 8 * items.length)))
      ∈ patchesD (.array it shape order) (.arr sh items) := by
  simp [patchesD, h, hd]

theorem C05_array_item_slots (sz : Val → Nat) : ∀ (items : List Val) (pos : Nat), pos % 8 = 0 →
    ∀ o ∈ offsetsD sz items pos, o % 8 = 0
 | v :: vs, pos, h => by
    intro o ho
    simp only [offsetsD, List.mem_cons] at ho
    rcases ho with rfl | ho
    · exact h
    · exact C05_array_item_slots sz vs _ (by have := slot_mod (sz v); omega) o ho
 | [], _, _ => by intro o ho; simp [offsetsD] at ho

/-- fixed-size compound items (structs, nested arrays) have a size that is a multiple of 8, so item `k` at `dataOff + k*size`
is on a slot boundary -/
theorem C05_compound_size_mod : ∀ (t : Ty) (s : Nat), t.ssize = some s → (∀ w, t ≠ .scalar w) → s % 8 = 0
 | .struct fs, s, h, _ => by
    simp only [Ty.ssize] at h
    have := (staticBytes_of_ssize fs s h).1
    rw [← this]; exact staticBytes_mod fs
 | .array it shape order, s, h, _ => by
    simp only [Ty.ssize] at h
    split at h
    · injection h with h; rw [← h]; exact slot_mod _
    · cases h
 | .scalar w, _, _, hn => absurd rfl (hn w)
 | .string, _, h, _ => by simp [Ty.ssize] at h


/-! ### reference encodings (node model `Xo/Model/RefGraph.lean`, component `rg`) -/

/-- every field of a node class starts on an 8-byte slot and the class size is a whole number of slots -/
theorem C05_node_slots : ∀ (cl : RG.Cls) (k : Nat), RG.foff cl k % 8 = 0 ∧ RG.csize cl % 8 = 0
 | [], _ => by simp [RG.foff, RG.csize]
 | f :: r, 0 => by
    have h2 := (C05_node_slots r 0).2
    have hf : f.size % 8 = 0 := by cases f <;> simp [RG.FK.size]
    refine ⟨by simp [RG.foff], ?_⟩
    show (f.size + RG.csize r) % 8 = 0
    omega
 | f :: r, k + 1 => by
    obtain ⟨h1, h2⟩ := C05_node_slots r k
    have hf : f.size % 8 = 0 := by cases f <;> simp [RG.FK.size]
    refine ⟨?_, ?_⟩
    · show (f.size + RG.foff r k) % 8 = 0
      omega
    · show (f.size + RG.csize r) % 8 = 0
      omega

/-- **the documented reference encoding**: what binding writes into a reference slot is the little-endian two's-complement int64
`target - slot` (an offset RELATIVE TO THE SLOT), followed for a union reference by the member index as int64; null is `-2^63`,
with member index `-1` -/
theorem C05_ref_slot_encoding (slot target member : Nat) :
    refBytes slot target = i64le ((target : Int) - (slot : Int)) ∧
    urefBytes slot target member = i64le ((target : Int) - (slot : Int)) ++ i64le (member : Int) ∧
    refNullBytes = i64le (-(2 ^ 63 : Int)) ∧ urefNullBytes = i64le (-(2 ^ 63 : Int)) ++ i64le (-1) ∧
    (refBytes slot target).length = 8 ∧ (urefBytes slot target member).length = 16 := by
  refine ⟨rfl, rfl, rfl, rfl, by simp [refBytes, i64le_length], by simp [urefBytes, refBytes, i64le_length]⟩

/-- … and a freshly constructed node holds, field by field in declaration order, its scalars and the null encoding in every
reference slot -/
theorem C05_new_node_bytes (cl : RG.Cls) (vs : List Nat) :
    (RG.initBytes cl vs).length = RG.csize cl ∧
    (∀ k c, cl[k]? = some (.ref c) → readAt (RG.initBytes cl vs) (RG.foff cl k) 8 = refNullBytes) ∧
    (∀ k cs, cl[k]? = some (.uref cs) → readAt (RG.initBytes cl vs) (RG.foff cl k) 16 = urefNullBytes) :=
  ⟨RG.initBytes_length cl vs, fun k c h => RG.initBytes_ref cl vs k c h, fun k cs h => RG.initBytes_uref cl vs k cs h⟩


/-! ### every type of the grammar, references included, as a layout-model type (`toLayR`: a reference slot is an opaque 8-byte
word, a union reference an opaque 16-byte word).  All layout theorems above and in C01 / C03 / C06 / C10 are statements about
`Lay.Ty` and therefore hold for `toLayR tc` of ANY type `tc`: where a reference slot sits inside a dynamic struct or an array, how
large the enclosing object is and what surrounds the slot is pure layout.  `toLayR` is executed against the library on every
reference-bearing case of the `lay` stream (the proof model's writer must reproduce the object's bytes, its reader every
non-reference leaf). -/

/-- the class-level size of every type - references included - is the size the layout model gives its translation -/
theorem C05_sizes_with_references (tc : CGen.Ty) : CGen.Ty.ssize tc = (toLayR tc).ssize := ssize_toLayR tc

/-- on reference-free types `toLayR` is the translation `toLay` the C-API theorems (C02) are about -/
theorem C05_toLayR_extends_toLay (tc : CGen.Ty) (t : Ty) (h : toLay tc = some t) : toLayR tc = t := toLayR_of_toLay tc t h

/-- example: in `{k: Int64, r: Ref[…], s: String, u: UnionRef[…][2]}` the reference word sits at offset 16 (after the size word and
`k`), the union words inside the array that follows the string -/
example : leafAt (toLayR (.struct "S" [("k", .scalar .i64), ("r", .ref (.scalar .i64)), ("s", .string),
      ("u", .array (.unionref "U" []) [some 2] [0])]))
    (.struct [.bits 7, .bits 0, .str [97], .arr [2] [.bits 0, .bits 0]]) [1] = some (16, 8) := rfl

end Lay
