import Xo.Props.C04
/-!
# C12 — the allocator is first-fit, leak-free, coalescing, and free never fails

Property theorems only; same model and history space as C04.
-/
namespace Alloc
open MemS

theorem allocate_unfold (s : AState) (size : Nat) (aligned : Bool) :
    allocate s size aligned =
      match scan size (alignOf s aligned) s.chunks with
      | some (o, cs) => some (o, { s with chunks := cs })
      | none => allocF (size + alignOf s aligned) (grow s (growAmount s size (alignOf s aligned))) size (alignOf s aligned) := by
  unfold allocate; rfl

/-- **first fit**: if any address at the required alignment fits in the free space, the request is
    served without growth, from the least such address. -/
theorem C12_first_fit (s : AState) (live : List Region) (size : Nat) (aligned : Bool) (hinv : Inv s live)
    (x : Nat) (hx : x % alignOf s aligned = 0) (hfit : Fits s.chunks x size) :
    ∃ o s', allocate s size aligned = some (o, s') ∧ s'.capacity = s.capacity ∧
      Fits s.chunks o size ∧ o % alignOf s aligned = 0 ∧
      ∀ y, y % alignOf s aligned = 0 → Fits s.chunks y size → o ≤ y := by
  obtain ⟨k, hk⟩ := alignOf_pow2 hinv aligned
  rw [allocate_unfold]
  rw [hk] at hx ⊢
  cases hsc : scan size (2^k) s.chunks with
  | none => exact absurd hfit (scan_none size k s.chunks hsc x hx)
  | some p =>
    obtain ⟨o, cs'⟩ := p
    obtain ⟨_, r2, r3, r4, _⟩ := scan_spec size k s.chunks 0 s.capacity o cs' hinv.wf hsc
    exact ⟨o, _, rfl, rfl, r3, r2, r4⟩

/-- **growth only when needed**: if the capacity changed, no address at the required alignment fitted. -/
theorem C12_grow_only_if_needed (s : AState) (live : List Region) (size : Nat) (aligned : Bool) (o : Nat)
    (s' : AState) (hinv : Inv s live) (h : allocate s size aligned = some (o, s'))
    (hcap : s'.capacity ≠ s.capacity) :
    ∀ x, x % alignOf s aligned = 0 → ¬ Fits s.chunks x size := by
  obtain ⟨k, hk⟩ := alignOf_pow2 hinv aligned
  rw [allocate_unfold] at h
  rw [hk] at h ⊢
  cases hsc : scan size (2^k) s.chunks with
  | none => exact scan_none size k s.chunks hsc
  | some p =>
    rw [hsc] at h
    simp only [Option.some.injEq, Prod.mk.injEq] at h
    obtain ⟨_, rfl⟩ := h
    exact absurd rfl hcap

/-- capacity never shrinks -/
theorem C12_capacity_mono (g : G) (op : Op) (h : GInv g) : g.b.a.capacity ≤ (g.step op).b.a.capacity := by
  cases op with
  | alloc size al =>
    simp only [G.step]
    cases hal : g.b.allocate size al with
    | none => exact Nat.le_refl _
    | some p =>
      obtain ⟨o, b'⟩ := p
      have ha : allocate g.b.a size al = some (o, b'.a) := by
        have := Buf.allocF_a (size + alignOf g.b.a al + 1) g.b size (alignOf g.b.a al)
        unfold Buf.allocate at hal
        rw [hal] at this
        exact this.symm
      exact (C04_alloc g.b.a g.regions size al o b'.a h.inv ha).2.2.1
  | free i => simp only [G.step]; split <;> exact Nat.le_refl _
  | grow n => simp [G.step, Buf.grow, grow]
  | write i bs => simp only [G.step]; split <;> (try split) <;> exact Nat.le_refl _

/-- **a request always terminates with a result** (grow step unset or positive): the rounds the
    model allows are never exhausted, for every state satisfying the invariant. -/
theorem C12_total (s : AState) (live : List Region) (size : Nat) (aligned : Bool) (hinv : Inv s live)
    (hg : GrowOK s) : (allocate s size aligned).isSome := by
  obtain ⟨k, hk⟩ := alignOf_pow2 hinv aligned
  unfold allocate; rw [hk]
  exact allocF_total size k s hinv.wf hg

theorem C12_total_buf (b : Buf) (live : List Region) (size : Nat) (aligned : Bool) (hinv : Inv b.a live)
    (hg : GrowOK b.a) : (b.allocate size aligned).isSome := by
  have := Buf.allocF_a (size + alignOf b.a aligned + 1) b size (alignOf b.a aligned)
  have ht := C12_total b.a live size aligned hinv hg
  unfold allocate at ht
  unfold Buf.allocate
  rw [← this] at ht
  cases h : Buf.allocF (size + alignOf b.a aligned + 1) b size (alignOf b.a aligned) with
  | none => rw [h] at ht; simp at ht
  | some p => simp

/-- **free never fails**: `free` is a function with no error branch; in particular on a completely
    full buffer (empty free list) it yields exactly the freed region -/
theorem C12_free_full (s : AState) (off size : Nat) (h : s.chunks = []) :
    (free s off size).chunks = [⟨off, off + size⟩] := by
  simp [free, freeChunks, insertPy, h, mergeFrom]

/-- **free makes exactly those bytes reusable** -/
theorem C12_free_exact (s : AState) (live : List Region) (r : Region) (hinv : Inv s live) (hr : r ∈ live) :
    ∀ x, InFree (free s r.1 r.2).chunks x ↔ (InFree s.chunks x ∨ r.Has x) :=
  (free_spec s.chunks 0 s.capacity r.1 r.2 hinv.wf (Nat.zero_le _) (hinv.inb r hr)).2

theorem sorted_sep : ∀ {lo cap : Nat} {cs : List Chunk}, Sorted lo cs cap →
    ∀ c ∈ cs, ∀ d ∈ cs, c = d ∨ c.stop < d.start ∨ d.stop < c.start
 | _, _, [], _, c, hc, _, _ => by simp at hc
 | lo, cap, e :: cs, ⟨_, _, _, h4⟩, c, hc, d, hd => by
    have hlow := sorted_lower h4
    rcases List.mem_cons.mp hc with rfl | hc'
    · rcases List.mem_cons.mp hd with rfl | hd'
      · exact Or.inl rfl
      · have := hlow d hd'; exact Or.inr (Or.inl (by omega))
    · rcases List.mem_cons.mp hd with rfl | hd'
      · have := hlow c hc'; exact Or.inr (Or.inr (by omega))
      · exact sorted_sep h4 c hc' d hd'

/-- in a separated free list a run of free bytes lies inside one chunk -/
theorem fits_of_all_free {lo cap : Nat} {cs : List Chunk} (hs : Sorted lo cs cap) (a : Nat) :
    ∀ (n : Nat), 0 < n → (∀ x, a ≤ x → x < a + n → InFree cs x) → Fits cs a n
 | 0, h, _ => by omega
 | 1, _, hall => by
    obtain ⟨c, hc, c1, c2⟩ := hall a (Nat.le_refl _) (by omega)
    exact ⟨c, hc, c1, by omega⟩
 | n+2, _, hall => by
    obtain ⟨c, hc, c1, c2⟩ := fits_of_all_free hs a (n+1) (by omega) (fun x x1 x2 => hall x x1 (by omega))
    obtain ⟨d, hd, d1, d2⟩ := hall (a + n + 1) (by omega) (by omega)
    rcases sorted_sep hs c hc d hd with rfl | h | h
    · exact ⟨c, hc, c1, by omega⟩
    · omega
    · omega

/-- **coalescing**: after two adjacent live regions have been freed (in either order) one request of
    their combined size fits in the free list at the lower address -/
theorem C12_coalesce (s : AState) (live : List Region) (o n1 n2 : Nat) (hinv : Inv s live)
    (h1 : (o, n1) ∈ live) (h2 : (o + n1, n2) ∈ live) (hne : (o, n1) ≠ (o + n1, n2)) (hpos : 0 < n1 + n2) :
    Fits (free (free s o n1) (o + n1) n2).chunks o (n1 + n2) ∧
    Fits (free (free s (o + n1) n2) o n1).chunks o (n1 + n2) := by
  constructor
  · have i1 := C04_free s live (o, n1) hinv h1
    have hm : (o + n1, n2) ∈ live.erase (o, n1) := (List.mem_erase_of_ne (Ne.symm hne)).mpr h2
    have i2 := C04_free _ _ (o + n1, n2) i1 hm
    have e1 := C12_free_exact s live (o, n1) hinv h1
    have e2 := C12_free_exact _ _ (o + n1, n2) i1 hm
    apply fits_of_all_free i2.wf o (n1 + n2) hpos
    intro x x1 x2
    apply (e2 x).mpr
    by_cases hx : x < o + n1
    · exact Or.inl ((e1 x).mpr (Or.inr ⟨x1, hx⟩))
    · exact Or.inr ⟨by simp; omega, by simp; omega⟩
  · have i1 := C04_free s live (o + n1, n2) hinv h2
    have hm : (o, n1) ∈ live.erase (o + n1, n2) := (List.mem_erase_of_ne hne).mpr h1
    have i2 := C04_free _ _ (o, n1) i1 hm
    have e1 := C12_free_exact s live (o + n1, n2) hinv h2
    have e2 := C12_free_exact _ _ (o, n1) i1 hm
    apply fits_of_all_free i2.wf o (n1 + n2) hpos
    intro x x1 x2
    apply (e2 x).mpr
    by_cases hx : x < o + n1
    · exact Or.inr ⟨x1, hx⟩
    · exact Or.inl ((e1 x).mpr (Or.inr ⟨by simp; omega, by simp; omega⟩))

/-! ### accounting -/

theorem getFree_eq_total (s : AState) : getFree s = total s.chunks := rfl

/-- the reported free total is the number of free bytes below the capacity -/
theorem C12_getFree_counts (s : AState) (live : List Region) (hinv : Inv s live) :
    getFree s = cnt s.chunks s.capacity :=
  (cnt_sorted s.chunks 0 s.capacity s.capacity hinv.wf (Nat.le_refl _)).symm

theorem allocF_account (size k : Nat) : ∀ (fuel : Nat) (s : AState) (o : Nat) (s' : AState), WF s →
    allocF fuel s size (2^k) = some (o, s') →
    ∃ pad, pad < 2^k ∧ getFree s' + size + pad = getFree s + (s'.capacity - s.capacity) ∧ s.capacity ≤ s'.capacity
 | 0, _, _, _, _, h => by simp [allocF] at h
 | fuel+1, s, o, s', hwf, h => by
    simp only [allocF] at h
    split at h
    · rename_i o1 cs1 heq
      simp only [Option.some.injEq, Prod.mk.injEq] at h
      obtain ⟨rfl, rfl⟩ := h
      obtain ⟨pad, p1, p2⟩ := scan_total size k s.chunks o1 cs1 heq
      exact ⟨pad, p1, by simp only [getFree_eq_total]; omega, Nat.le_refl _⟩
    · have hg := grow_spec s.capacity (growAmount s size (2^k)) s.chunks 0 (Nat.zero_le _) hwf
      have hb : ∀ c ∈ s.chunks, c.start ≤ c.stop ∧ c.stop ≤ s.capacity :=
        fun c hc => ⟨sorted_wf hwf c hc, (sorted_lower hwf c hc).2⟩
      have ht := growChunks_total s.capacity (growAmount s size (2^k)) s.chunks hb
      obtain ⟨pad, p1, p2, p3⟩ := allocF_account size k fuel (grow s (growAmount s size (2^k))) o s' hg.1 h
      refine ⟨pad, p1, ?_, ?_⟩
      · simp only [getFree_eq_total, grow] at *
        omega
      · simp only [grow] at p3; omega

def liveBytes (live : List Region) : Nat := (live.map (·.2)).sum

/-- **allocate**: free bytes + the new region + fewer than `alignment` padding bytes = old free bytes + growth -/
theorem C12_account_alloc (s : AState) (live : List Region) (size : Nat) (aligned : Bool) (o : Nat) (s' : AState)
    (hinv : Inv s live) (h : allocate s size aligned = some (o, s')) :
    ∃ pad, pad < alignOf s aligned ∧
      getFree s' + size + pad = getFree s + (s'.capacity - s.capacity) := by
  obtain ⟨k, hk⟩ := alignOf_pow2 hinv aligned
  unfold allocate at h
  rw [hk] at h ⊢
  obtain ⟨pad, p1, p2, _⟩ := allocF_account size k _ s o s' hinv.wf h
  exact ⟨pad, p1, p2⟩

/-- **free** returns exactly the region's bytes to the free total -/
theorem C12_account_free (s : AState) (live : List Region) (r : Region) (hinv : Inv s live) (hr : r ∈ live) :
    getFree (free s r.1 r.2) = getFree s + r.2 := by
  have hfs := free_spec s.chunks 0 s.capacity r.1 r.2 hinv.wf (Nat.zero_le _) (hinv.inb r hr)
  have h1 := cnt_sorted _ 0 s.capacity s.capacity hfs.1 (Nat.le_refl _)
  have h2 := cnt_sorted _ 0 s.capacity s.capacity hinv.wf (Nat.le_refl _)
  have h3 := cnt_add s.chunks (freeChunks s.chunks r.1 r.2) r.1 r.2 hfs.2
    (fun x x1 x2 => hinv.notfree r hr x ⟨x1, x2⟩) s.capacity
  have := hinv.inb r hr
  simp only [getFree_eq_total, free]
  omega

theorem C12_account_grow (s : AState) (live : List Region) (n : Nat) (hinv : Inv s live) :
    getFree (grow s n) = getFree s + n := by
  have hb : ∀ c ∈ s.chunks, c.start ≤ c.stop ∧ c.stop ≤ s.capacity :=
    fun c hc => ⟨sorted_wf hinv.wf c hc, (sorted_lower hinv.wf c hc).2⟩
  exact growChunks_total s.capacity n s.chunks hb

/-- free + live + lost = capacity -/
def Acct (g : G) (lost : Nat) : Prop := getFree g.b.a + liveBytes g.regions + lost = g.b.a.capacity

theorem liveBytes_eraseIdx : ∀ (l : List Region) (i : Nat) (r : Region), l[i]? = some r →
    liveBytes (l.eraseIdx i) + r.2 = liveBytes l
 | [], _, _, h => by simp at h
 | a :: t, 0, r, h => by simp at h; subst h; simp [liveBytes]; omega
 | a :: t, i+1, r, h => by
    simp at h
    have := liveBytes_eraseIdx t i r h
    simp [liveBytes] at *; omega

/-- one step: the bytes lost grow only on allocation, by fewer bytes than the alignment requested -/
theorem C12_account_step (g : G) (op : Op) (lost : Nat) (h : GInv g) (ha : Acct g lost) :
    ∃ pad, Acct (g.step op) (lost + pad) ∧
      pad < (match op with | .alloc _ al => alignOf g.b.a al | _ => 1) := by
  cases op with
  | alloc size al =>
    simp only [G.step]
    cases hal : g.b.allocate size al with
    | none =>
      obtain ⟨k, hk⟩ := alignOf_pow2 h.inv al
      exact ⟨0, ha, by rw [hk]; exact Nat.two_pow_pos k⟩
    | some p =>
      obtain ⟨o, b'⟩ := p
      have hA : allocate g.b.a size al = some (o, b'.a) := by
        have := Buf.allocF_a (size + alignOf g.b.a al + 1) g.b size (alignOf g.b.a al)
        unfold Buf.allocate at hal
        rw [hal] at this
        exact this.symm
      obtain ⟨pad, p1, p2⟩ := C12_account_alloc g.b.a g.regions size al o b'.a h.inv hA
      have hc := (C04_alloc g.b.a g.regions size al o b'.a h.inv hA).2.2.1
      refine ⟨pad, ?_, p1⟩
      unfold Acct at *
      simp only [G.regions, List.map_cons, liveBytes, List.sum_cons] at *
      omega
  | free i =>
    simp only [G.step]
    cases hi : g.live[i]? with
    | none => exact ⟨0, ha, by omega⟩
    | some e =>
      have hr : g.regions[i]? = some e.1 := by simp [G.regions, hi]
      have hf := C12_account_free g.b.a g.regions e.1 h.inv (List.mem_of_getElem? hr)
      have hl := liveBytes_eraseIdx g.regions i e.1 hr
      refine ⟨0, ?_, by omega⟩
      unfold Acct at *
      simp only [G.regions, eraseIdx_regions, Buf.free, free] at *
      omega
  | grow n =>
    have hgr := C12_account_grow g.b.a g.regions n h.inv
    refine ⟨0, ?_, (by show (0:Nat) < 1; omega)⟩
    unfold Acct at *
    show getFree (grow g.b.a n) + liveBytes g.regions + (lost + 0) = (grow g.b.a n).capacity
    rw [hgr]; simp only [grow]; omega
  | write i bs =>
    simp only [G.step]
    cases hi : g.live[i]? with
    | none => exact ⟨0, ha, by omega⟩
    | some e =>
      simp only
      split
      · refine ⟨0, ?_, by omega⟩
        have hregs : (g.live.set i (e.1, bs)).map (·.1) = g.regions := by
          simp only [G.regions]
          rw [List.map_set]
          apply List.ext_getElem?
          intro j
          rw [List.getElem?_set]
          split
          · rename_i hij; subst hij
            split
            · simp [hi]
            · rename_i hlt; simp at hlt; simp [List.getElem?_eq_none hlt]
          · rfl
        unfold Acct at *
        simp only [G.regions] at *
        rw [hregs]; exact ha
      · exact ⟨0, ha, by omega⟩

def Op.isAligned : Op → Bool
 | .alloc _ true => true
 | _ => false

/-- **every reachable state**: the reported free total equals the capacity minus the live bytes minus
    the bytes lost to alignment padding, and those are fewer than `alignment` per aligned request -/
theorem C12_accounting (cap k : Nat) (gs : Option Nat) (ops : List Op) :
    ∃ lost, Acct (ops.foldl G.step (G.init cap (2^k) gs)) lost ∧
      lost ≤ (ops.filter Op.isAligned).length * (2^k - 1) := by
  have h0 : GInv (G.init cap (2^k) gs) := C04_reachable cap k gs []
  have a0 : Acct (G.init cap (2^k) gs) 0 := by simp [Acct, G.init, init, getFree, liveBytes, G.regions]
  have hal : (G.init cap (2^k) gs).b.a.align = 2^k := rfl
  suffices ∀ (ops : List Op) (g : G) (lost : Nat), GInv g → Acct g lost → g.b.a.align = 2^k →
      ∃ lost', Acct (ops.foldl G.step g) lost' ∧
        lost' ≤ lost + (ops.filter Op.isAligned).length * (2^k - 1) by
    obtain ⟨l, l1, l2⟩ := this ops _ 0 h0 a0 hal
    exact ⟨l, l1, by omega⟩
  intro ops
  induction ops with
  | nil => intro g lost _ ha _; exact ⟨lost, ha, by simp⟩
  | cons op ops ih =>
    intro g lost hg ha hk
    obtain ⟨pad, p1, p2⟩ := C12_account_step g op lost hg ha
    have hk' : (g.step op).b.a.align = 2^k := by
      cases op with
      | alloc size al =>
        simp only [G.step]
        cases hal : g.b.allocate size al with
        | none => exact hk
        | some p =>
          obtain ⟨o, b'⟩ := p
          have hA : allocate g.b.a size al = some (o, b'.a) := by
            have := Buf.allocF_a (size + alignOf g.b.a al + 1) g.b size (alignOf g.b.a al)
            unfold Buf.allocate at hal
            rw [hal] at this
            exact this.symm
          unfold allocate at hA
          rw [(allocF_fields _ _ _ _ _ _ hA).1]; exact hk
      | free i => simp only [G.step]; split <;> exact hk
      | grow n => exact hk
      | write i bs => simp only [G.step]; split <;> (try split) <;> exact hk
    obtain ⟨l, l1, l2⟩ := ih (g.step op) (lost + pad) (C04_step g op hg) p1 hk'
    refine ⟨l, l1, ?_⟩
    have hf : ((op :: ops).filter Op.isAligned).length =
        (if op.isAligned then 1 else 0) + (ops.filter Op.isAligned).length := by
      simp only [List.filter_cons]; split <;> simp <;> omega
    rw [hf, Nat.add_mul]
    have hpad : pad ≤ (if op.isAligned then 1 else 0) * (2^k - 1) := by
      cases op with
      | alloc size al =>
        cases al with
        | true => simp only [alignOf, if_true, hk] at p2; simp [Op.isAligned]; omega
        | false => simp [alignOf] at p2; simp [Op.isAligned]; omega
      | free i => simp at p2; simp [Op.isAligned]; omega
      | grow n => simp at p2; simp [Op.isAligned]; omega
      | write i bs => simp at p2; simp [Op.isAligned]; omega
    omega

/-- non-vacuity: adjacent regions freed in turn serve one larger request at the lower address; a free
    on a completely full buffer works -/
example : ∃ s1 s2, allocate (init 16 1 none) 8 false = some (0, s1) ∧ allocate s1 8 false = some (8, s2) ∧
    s2.chunks = [] ∧ (free s2 8 8).chunks = [⟨8, 16⟩] ∧ (free (free s2 8 8) 0 8).chunks = [⟨0, 16⟩] :=
  ⟨_, _, rfl, rfl, by decide, by decide, by decide⟩

end Alloc
