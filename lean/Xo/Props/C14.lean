import Xo.Lemmas.Topo
import Xo.Lemmas.Closure
/-!
# C14 — every class API is emitted once, after all of its dependencies; cycles are reported

Property theorems only.  Model: `Xo/Model/Topo.lean` (`topological_sort`, `sort_classes`).
Quantifier: every dependency source with distinct keys in which every dependency is itself a key —
exactly what `sort_classes` hands to `topological_sort` after its closure loop (`C14_closure`
states that closure for the model of that loop) — with any multiplicity of edges, any insertion order.
-/
namespace Topo

/-- a dependency graph without cycles: some ranking puts every dependency strictly below its dependent -/
def Acyclic (src : Source) : Prop :=
  ∃ rank : Name → Nat, ∀ c ∈ keys src, ∀ p ∈ parentsOf src c, rank p < rank c

/-- what the loop leaves behind, in terms of the returned pair -/
theorem topo_result {src : Source} (hw : WFS src) :
    ∃ s done, loop src ((keys src).length + 1) 0 [] { result := initResult src, np := numParents src } = some (s, done) ∧
      LInv src s.result.length done s ∧
      topo src = some (s.result ++ (graphKeys src).filter (fun p => !done.contains p),
                       !((graphKeys src).filter (fun p => !done.contains p)).isEmpty) := by
  obtain ⟨s, done, h1, h2⟩ := loop_spec hw ((keys src).length + 1) 0 [] _ (inv_init hw) (by omega)
  exact ⟨s, done, h1, h2, by simp [topo, topoF, h1]⟩

/-- the rounds the model allows are never exhausted -/
theorem C14_fuel (src : Source) (hw : WFS src) : (topo src).isSome := by
  obtain ⟨s, done, _, _, h⟩ := topo_result hw
  simp [h]

theorem all_processed {src : Source} {s : St} {done : List Name} (h : LInv src s.result.length done s)
    (x : Name) (hx : x ∈ s.result) (hg : x ∈ graphKeys src) : x ∈ done :=
  (h.d x).mpr ⟨by rw [List.take_length]; exact hx, hg⟩

/-- when no cycle is flagged nothing is left over and every parent has been processed -/
theorem no_cycle_left {src : Source} {done : List Name}
    (hl : ((graphKeys src).filter (fun p => !done.contains p)) = []) : ∀ p ∈ graphKeys src, p ∈ done := by
  intro p hp
  have := List.filter_eq_nil_iff.mp hl p hp
  simpa using this

/-- **emitted exactly once**: without a cycle the order has no duplicates and lists exactly the classes of the source -/
theorem C14_once (src : Source) (hw : WFS src) (order : List Name) (h : topo src = some (order, false)) :
    order.Nodup ∧ ∀ c, c ∈ order ↔ c ∈ keys src := by
  obtain ⟨s, done, _, hinv, ht⟩ := topo_result hw
  rw [ht] at h
  simp only [Option.some.injEq, Prod.mk.injEq] at h
  obtain ⟨ho, hc⟩ := h
  have hl : ((graphKeys src).filter (fun p => !done.contains p)) = [] := by simpa using hc
  rw [hl, List.append_nil] at ho
  subst ho
  refine ⟨hinv.b, fun c => ?_⟩
  rw [hinv.c c]
  constructor
  · exact fun h => h.1
  · intro hk
    refine ⟨hk, ?_⟩
    rw [hinv.a c]
    have : undone done (parentsOf src c) = 0 :=
      undone_all _ _ (fun p hp => no_cycle_left hl p (graphKeys_of_parent hw c p hp))
    exact_mod_cast this

/-- **after all of its dependencies**: every dependency of a class stands strictly before it -/
theorem C14_order (src : Source) (hw : WFS src) (order : List Name) (h : topo src = some (order, false)) :
    ∀ (k : Nat) (c : Name), order[k]? = some c → ∀ p ∈ parentsOf src c, ∃ j, j < k ∧ order[j]? = some p := by
  obtain ⟨s, done, _, hinv, ht⟩ := topo_result hw
  rw [ht] at h
  simp only [Option.some.injEq, Prod.mk.injEq] at h
  obtain ⟨ho, hc⟩ := h
  have hl : ((graphKeys src).filter (fun p => !done.contains p)) = [] := by simpa using hc
  rw [hl, List.append_nil] at ho
  subst ho
  exact hinv.f

theorem idxOf_le_of_getElem? : ∀ (l : List Name) (j : Nat) (p : Name), l[j]? = some p → l.idxOf p ≤ j
 | [], _, _, h => by simp at h
 | a :: t, 0, p, h => by simp at h; subst h; simp
 | a :: t, j+1, p, h => by
    simp at h
    have := idxOf_le_of_getElem? t j p h
    rw [List.idxOf_cons]
    cases (a == p) <;> simp <;> omega

theorem getElem?_idxOf_self : ∀ (l : List Name) (c : Name), c ∈ l → l[l.idxOf c]? = some c
 | [], _, h => by simp at h
 | a :: t, c, h => by
    rw [List.idxOf_cons]
    by_cases hac : a = c
    · subst hac; simp
    · have hb : (a == c) = false := by simpa using hac
      simp only [hb]
      have : c ∈ t := by
        rcases List.mem_cons.mp h with h1 | h1
        · exact absurd h1.symm hac
        · exact h1
      simpa using getElem?_idxOf_self t c this

/-- **cycles are reported, and only cycles**: the flag is raised exactly when the graph is not acyclic -/
theorem C14_cycle_iff (src : Source) (hw : WFS src) (order : List Name) (cyc : Bool)
    (h : topo src = some (order, cyc)) : cyc = false ↔ Acyclic src := by
  constructor
  · intro hc
    subst hc
    have ho := C14_order src hw order h
    have hon := C14_once src hw order h
    refine ⟨fun c => order.idxOf c, ?_⟩
    intro c hc p hp
    have hk := getElem?_idxOf_self order c ((hon.2 c).mpr hc)
    obtain ⟨j, hj, hjp⟩ := ho _ c hk p hp
    have := idxOf_le_of_getElem? order j p hjp
    show order.idxOf p < order.idxOf c
    omega
  · rintro ⟨rank, hr⟩
    obtain ⟨s, done, _, hinv, ht⟩ := topo_result hw
    rw [ht] at h
    simp only [Option.some.injEq, Prod.mk.injEq] at h
    obtain ⟨_, hc⟩ := h
    -- every parent is processed, by induction on its rank
    have key : ∀ n, ∀ p ∈ graphKeys src, rank p < n → p ∈ done := by
      intro n
      induction n with
      | zero => intro p _ h0; omega
      | succ n ih =>
        intro p hp hrk
        have hpk := graphKeys_keys hw p hp
        have hz : undone done (parentsOf src p) = 0 :=
          undone_all _ _ (fun q hq => ih q (graphKeys_of_parent hw p q hq) (by have := hr p hpk q hq; omega))
        have hres : p ∈ s.result := (hinv.c p).mpr ⟨hpk, by rw [hinv.a p]; exact_mod_cast hz⟩
        exact all_processed hinv p hres hp
    have hl : ((graphKeys src).filter (fun p => !done.contains p)) = [] := by
      apply List.filter_eq_nil_iff.mpr
      intro p hp
      have := key (rank p + 1) p hp (by omega)
      simpa using this
    rw [← hc, hl]; rfl

/-- with a cycle no order is produced: `sort_classes` raises instead of emitting source -/
theorem C14_cycle_reported (src : Source) (hw : WFS src) (hcyc : ¬ Acyclic src) :
    ∃ order, topo src = some (order, true) := by
  have := C14_fuel src hw
  cases ht : topo src with
  | none => simp [ht] at this
  | some r =>
    obtain ⟨order, cyc⟩ := r
    cases cyc with
    | true => exact ⟨order, rfl⟩
    | false => exact absurd ((C14_cycle_iff src hw order false ht).mp rfl) hcyc

/-- non-vacuity: a diamond with a doubled edge and an extra root, and a two-cycle -/
example : topo [(3, [1, 2, 2]), (1, [0]), (2, [0]), (0, []), (4, [])] = some ([0, 4, 1, 2, 3], false) := by decide
example : WFS [(3, [1, 2, 2]), (1, [0]), (2, [0]), (0, []), (4, [])] :=
  ⟨by decide, by decide⟩
example : topo [(0, [1]), (1, [0]), (2, [])] = some ([2, 1, 0], true) := by decide

/-- the roots of a kernel build: a class is collected from a kernel description exactly when it has a C API and is the
type of an argument or of the return value -/
theorem C14_kernel_classes (args : List (Name × Bool)) (ret : Option (Name × Bool)) (c : Name) :
    c ∈ kernelClasses args ret ↔ (c, true) ∈ args ∨ ret = some (c, true) := by
  unfold kernelClasses
  simp only [List.mem_append, List.mem_map, List.mem_filter]
  constructor
  · rintro (⟨⟨a, b⟩, ⟨hm, hb⟩, rfl⟩ | h)
    · left; simp at hb; subst hb; exact hm
    · right
      match ret, h with
      | some (c', true), h => simp at h; subst h; rfl
  · rintro (h | h)
    · left; exact ⟨(c, true), ⟨h, rfl⟩, rfl⟩
    · right; subst h; simp

/-- **the closure loop**: for distinct root classes, what `sort_classes` collects is exactly the set of classes reachable through
`_get_inner_types() + _depends_on`, each once; the dependency source it hands to `topological_sort` has these classes as its
keys, each with its own dependency list, and is well formed (distinct keys, every dependency a key) - the hypothesis of
`C14_once`, `C14_order`, `C14_cycle_iff` -/
theorem C14_closure (u : Universe) (roots : List Name) (fuel : Nat) (classes : List Name) (deps : Source) (hr : roots.Nodup)
    (h : closeLoop u fuel 0 roots [] = some (classes, deps)) :
    WFS deps ∧ keys deps = classes ∧ (∀ e ∈ deps, e.2 = u.depsOf e.1) ∧ (∀ c, c ∈ classes ↔ Reach u roots c) := by
  have inv0 : CInv u roots 0 roots [] :=
    ⟨hr, by simp [keys], by intro e he; simp at he, fun c hc => hc, fun c hc => Reach.root c hc, Nat.zero_le _⟩
  have inv := closeLoop_spec u roots fuel 0 roots [] (classes, deps) inv0 h
  have hk : keys deps = classes := by have := inv.keys; simpa using this
  refine ⟨⟨by rw [hk]; exact inv.nodup, fun e he p hp => by rw [hk]; exact (inv.own e he).2 p hp⟩, hk,
    fun e he => (inv.own e he).1, fun c => ⟨inv.reach c, ?_⟩⟩
  intro hc
  induction hc with
  | root c hc => exact inv.hroots c hc
  | dep c d _ hd ih =>
    have hck : c ∈ keys deps := by rw [hk]; exact ih
    simp only [keys, List.mem_map] at hck
    obtain ⟨e, he, rfl⟩ := hck
    obtain ⟨q1, q2⟩ := inv.own e he
    exact q2 d (by rw [q1]; exact hd)

/-- **`sort_classes` as a whole**: when it returns a list, that list contains exactly the reachable classes that have a C API,
each exactly once -/
theorem C14_sort_classes (u : Universe) (roots : List Name) (fuel : Nat) (l : List Name) (hr : roots.Nodup)
    (h : sortClasses u fuel roots = some (some l)) :
    l.Nodup ∧ ∀ c, c ∈ l ↔ (Reach u roots c ∧ u.hasApi c = true) := by
  simp only [sortClasses] at h
  cases hcl : closeLoop u fuel 0 roots [] with
  | none => simp [hcl] at h
  | some cd =>
    obtain ⟨classes, deps⟩ := cd
    simp only [hcl] at h
    obtain ⟨hw, hk, _, hreach⟩ := C14_closure u roots fuel classes deps hr hcl
    cases ht : topoF (deps.length + 1) deps with
    | none => simp [ht] at h
    | some oc =>
      obtain ⟨order, cyc⟩ := oc
      cases cyc with
      | true => simp [ht] at h
      | false =>
        simp only [ht, Option.some.injEq] at h
        subst h
        have ht' : topo deps = some (order, false) := by
          simpa [topo, keys] using ht
        obtain ⟨q1, q2⟩ := C14_once deps hw order ht'
        refine ⟨q1.filter _, fun c => ?_⟩
        rw [List.mem_filter, q2 c, hk, hreach c]

end Topo
