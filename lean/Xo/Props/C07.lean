import Xo.Props.C02
import Xo.Lemmas.Path
import Xo.Props.C11
/-! C07 — C setters change exactly one element; which bytes the accessors touch (property theorems only).

Here: the store of a setter and the complete list of loads of every accessor, for all paths, indices, objects and
memories; and the in-bounds clause for well-formed reference-free objects (`C07_leaf_in_extent`, `C07_store_in_extent`):
the element a path ends in lies inside the extent of the enclosing object as the writer laid it out, so the one store
of a setter - which is at the documented address (C07_set_exact, C02_addr; `leafAt` is that address, executed against the
library's own offsets on every generated assignment) - never leaves the object. -/
namespace CGen

theorem loadsAll_append (ld : Load) (obj : Int) (idx : List Int) (a b : List Stmt) (off : Int) :
    loadsAll ld obj idx off (a ++ b) =
      loadsAll ld obj idx off a ++ loadsAll ld obj idx (execAll ld obj idx off a) b := by
  induction a generalizing off with
  | nil => rfl
  | cons s ss ih => simp [loadsAll, execAll, ih]

theorem loadsAll_dump (ld : Load) (obj : Int) (idx : List Int) (acc : Nat) (off : Int) :
    loadsAll ld obj idx off (dump acc) = [] := by
  unfold dump; split <;> simp [loadsAll, Stmt.loads]

theorem genStmts_loads (ld : Load) (obj : Int) (idx : List Int) :
    ∀ (ps : List Part) (acc ic : Nat) (off : Int),
      loadsAll ld obj idx off (genStmts ps acc ic) = docLoads ld obj idx ps (off + (acc : Int)) ic := by
  intro ps
  induction ps with
  | nil => intro acc ic off; simp [genStmts, docLoads, loadsAll_dump]
  | cons p ps ih =>
    intro acc ic off
    match p with
    | .index arr =>
      simp only [genStmts, docLoads, loadsAll_append, loadsAll_dump, execAll_dump, loadsAll, Stmt.loads, Stmt.exec,
        List.nil_append]
      rw [ih]; simp [partRank]
      cases arr <;> simp
    | .field _ o true =>
      simp only [genStmts, docLoads, loadsAll_append, loadsAll_dump, execAll_dump, loadsAll, Stmt.loads, Stmt.exec,
        List.nil_append]
      rw [ih]; simp
    | .field _ o false =>
      simp only [genStmts, docLoads]
      rw [ih]; congr 1; simp; omega
    | .ty (.ref _) =>
      simp only [genStmts, docLoads, loadsAll_append, loadsAll_dump, execAll_dump, loadsAll, Stmt.loads, Stmt.exec,
        List.nil_append]
      rw [ih]; simp
    | .ty (.scalar _) | .ty .string | .ty (.struct ..) | .ty (.array ..) | .ty (.unionref ..) =>
      simp only [genStmts, docLoads]; rw [ih]

/-- **C07 (loads)**: the header words read by the emitted offset computation are exactly the words the documented
layout consults along the path (reference slots, offset slots of dynamic fields, strides, item-offset entries) -
nothing else is ever read, for every path, index tuple, object and memory. -/
theorem C07_loads (ld : Load) (obj : Int) (idx : List Int) (path : List Part) :
    loadsAll ld obj idx 0 (genStmts path 0 0) = docLoads ld obj idx path 0 0 := by
  simpa using genStmts_loads ld obj idx path 0 0 0

/-- **C07 (setter)**: a generated setter changes exactly the `value.length` bytes at the documented address of the
addressed element to exactly the bytes passed, and no other byte of memory. -/
theorem C07_set_exact (f : CFun) (ld : Load) (m : BMem) (obj : Int) (idx : List Int) (value : List UInt8) :
    let a := obj + docAddr ld obj idx f.path 0 0
    (∀ x, a ≤ x → x < a + value.length → f.store ld m obj idx value x = value.getD (x - a).toNat 0) ∧
    (∀ x, (x < a ∨ a + value.length ≤ x) → f.store ld m obj idx value x = m x) := by
  simp only [CFun.store, CFun.offset, C02_addr, storeBytes]
  constructor
  · intro x h1 h2; simp [h1, h2]
  · intro x h; split
    · omega
    · rfl

/-- a setter reads only header words (never the element) and its one store is at the documented address with the
element's width; a getter reads the same header words and then the element -/
theorem C07_accesses_get_set (f : CFun) (ld : Load) (obj : Int) (idx : List Int) (lt : Ty)
    (hl : lastTy f.path = some lt) (hk : f.kind = .get ∨ f.kind = .set) :
    f.accesses ld obj idx =
      (docLoads ld obj idx f.path 0 0).map (fun a => (a, 8)) ++
        [(obj + docAddr ld obj idx f.path 0 0, lt.ssize.getD 0)] := by
  rcases hk with h | h <;> simp [CFun.accesses, hl, h, C07_loads, CFun.offset, C02_addr]

/-! non-vacuity: a setter through a reference field into a 1-D array -/
example :
    let arr : Ty := .array (.scalar .i32) [none] [0]
    let f : CFun := ⟨.struct "T" [], [.ty (.struct "T" []), .field "x" 16 true, .ty arr, .index arr, .ty (.scalar .i32)], .set⟩
    f.accesses (fun a => if a = 116 then 40 else 0) 100 [3] = [(116, 8), (100 + (40 + (16 + 3 * 4)), 4)] := by
  decide

/-- **in bounds**: in a well-formed object the scalar element at the end of any nested path (fields, items; static and dynamic
sizes) lies inside the object's extent -/
theorem C07_leaf_in_extent (t : Lay.Ty) (v : Lay.Val) (hw : t.WF) (hc : Lay.Conf t v) (p : List Nat) (lo w : Nat)
    (hl : Lay.leafAt t v p = some (lo, w)) : lo + w ≤ Lay.vsize t v := by
  obtain ⟨_, _, _, _, _, _, _, _, _, _, _, h⟩ := Lay.leaf_decomp p t v lo w 0 hw hc hl (Nat.pow_pos (by decide))
  exact h

/-- the store of the element's bytes changes bytes of the object's extent only, and only those of the element -/
theorem C07_store_in_extent (t : Lay.Ty) (v : Lay.Val) (hw : t.WF) (hc : Lay.Conf t v) (p : List Nat) (lo w : Nat)
    (hl : Lay.leafAt t v p = some (lo, w)) (m : MemS.Mem) (off b : Nat) (hb : off + Lay.vsize t v ≤ m.length) :
    (Lay.setScalar m (off + lo) w b).length = m.length ∧
    ∀ i, (i < off + lo ∨ off + lo + w ≤ i) → (Lay.setScalar m (off + lo) w b)[i]? = m[i]? := by
  have h := C07_leaf_in_extent t v hw hc p lo w hl
  exact Lay.C11_scalar_never_overruns m (off + lo) w b (by omega)

/-- **end to end, setter**: storing the `w` bytes of a value at the address the generated setter computes (object address plus the
offset of its emitted statements, `C02_path_address`) makes a view of the WHOLE enclosing object read the value with exactly the
addressed element replaced (`updAt`) - every other field and item at every level, every string, shape and size unchanged -
for every reference-free type, every selector path to a scalar element and every memory holding the written object -/
theorem C07_setter_sets_element (sels : List Lay.Sel) (tc : Ty) (t : Lay.Ty) (v : Lay.Val) (ps : List Part) (ix p : List Nat)
    (lo w : Nat) (htl : Lay.toLay tc = some t) (hwp : t.WFP) (hc : Lay.Conf t v) (hs : Lay.vsize t v < 2 ^ 64)
    (hcp : Lay.cparts tc sels = some (ps, ix)) (hlp : Lay.lpath t v sels = some p) (hleaf : Lay.leafAt t v p = some (lo, w))
    (m0 : MemS.Mem) (off : Nat) (hb : off + Lay.vsize t v ≤ m0.length) (m' : MemS.Mem)
    (hag : Lay.Agree m' (Lay.apply (Lay.shift off (Lay.patchesD t v)) m0) off (off + Lay.vsize t v))
    (hlen : m'.length = m0.length) (b : Nat) (hbv : b < 256 ^ w) :
    ∃ v', Lay.updAt t v p b = some v' ∧ Lay.Conf t v' ∧ Lay.vsize t v' = Lay.vsize t v ∧
      Lay.readD t (Lay.setScalar m'
        ((off : Int) + execAll (Lay.ldM m') (off : Int) (ix.map Int.ofNat) 0 (genStmts ps 0 0)).toNat w b) off = v'.norm := by
  rw [C02_path_address sels tc t v ps ix p lo w htl hwp hc hs hcp hlp hleaf m0 off hb m' hag]
  obtain ⟨v', h1, h2, h3, _, h5⟩ := Lay.set_leaf_rt t v (Lay.wfp_wf t hwp) hc hs m0 off hb m' hag hlen p lo w b hleaf hbv
  refine ⟨v', h1, h2, h3, ?_⟩
  rw [← Int.natCast_add, Int.toNat_natCast]
  exact h5

/-! non-vacuity of the end-to-end theorems: `S {a: Int64, s: String, m: Int32[:, 3] in F order}` holding `{7, "hi", 2 x 3}` at offset 16
of a 160-byte buffer: the hypotheses hold, the selector path `m[1, 2]` is the layout path `[2, 5]`, the element is at object offset 92,
and that is what the emitted statements compute from the object's address and the index arguments 1, 2 -/
example :
    let tc : Ty := .struct "S" [("a", .scalar .i64), ("s", .string), ("m", .array (.scalar .i32) [none, some 3] [1, 0])]
    let t : Lay.Ty := .struct [.scalar 8, .string, .array (.scalar 4) [none, some 3] [1, 0]]
    let v : Lay.Val := .struct [.bits 7, .str [104, 105], .arr [2, 3] [.bits 10, .bits 11, .bits 12, .bits 13, .bits 14, .bits 15]]
    let img : MemS.Mem := Lay.apply (Lay.shift 16 (Lay.patchesD t v)) (List.replicate 160 0)
    Lay.lpath t v [.field 2, .item [1, 2]] = some [2, 5] ∧ Lay.leafAt t v [2, 5] = some (92, 4) ∧
    (Lay.cparts tc [.field 2, .item [1, 2]]).map (fun x => execAll (Lay.ldM img) 16 (x.2.map Int.ofNat) 0 (genStmts x.1 0 0)) = some 92 ∧
    MemS.fromLE (MemS.readAt img (16 + 92) 4) = 15 := by
  decide +kernel

example : Lay.toLay (.struct "S" [("a", .scalar .i64), ("s", .string), ("m", .array (.scalar .i32) [none, some 3] [1, 0])]) =
    some (.struct [.scalar 8, .string, .array (.scalar 4) [none, some 3] [1, 0]]) := rfl

end CGen
