import Xo.Model.Refs
import Xo.Lemmas.Refs
import Xo.Lemmas.LayoutRT
import Xo.Lemmas.Path
import Xo.Props.C11
import Xo.Props.C04
import Xo.Lemmas.RefGraphOps
import Xo.Lemmas.RefGraphX
/-! C08 — references alias, null and survive buffer growth as documented (property theorems only).
Slot-level theorems for every slot address, target address and memory; the fresh-and-disjoint placement of referents created
from plain data or foreign objects is the allocator theorem C04_alloc.  The history-level invariant "every non-null reference
of every live object resolves to a live object of the recorded member type" is checked by the oracle after every step of
every generated history (construction, binding of existing / foreign / plain / null values, writes, growth) - `_partial`. -/
namespace Lay
open MemS

/-- **null**: `None` is stored as `-2^63` and reads back as `None`; for a union reference the member index is `-1` -/
theorem C08_null (m : Mem) (slot : Nat) (hb : slot + 8 ≤ m.length) :
    deref (writeAt m slot refNullBytes) slot = none := deref_write_null m slot hb

theorem C08_union_null (m : Mem) (slot : Nat) (hb : slot + 16 ≤ m.length) :
    deref (writeAt m slot urefNullBytes) slot = none ∧ memberIdx (writeAt m slot urefNullBytes) slot = -1 :=
  uref_write_null m slot hb

/-- **alias**: binding an object that lives at `target` in the same buffer stores `target - slot`; the reference then denotes
that very address - so every read and write through the reference is a read or write of the original's bytes -/
theorem C08_alias (m : Mem) (slot target : Nat) (hb : slot + 8 ≤ m.length) (hs : slot < 2 ^ 62) (ht : target < 2 ^ 62) :
    deref (writeAt m slot (refBytes slot target)) slot = some target := deref_write_ref m slot target hb hs ht

theorem C08_union_member (m : Mem) (slot target member : Nat) (hb : slot + 16 ≤ m.length) (hs : slot < 2 ^ 62)
    (ht : target < 2 ^ 62) (hm : member < 2 ^ 62) :
    deref (writeAt m slot (urefBytes slot target member)) slot = some target ∧
    memberIdx (writeAt m slot (urefBytes slot target member)) slot = (member : Int) :=
  uref_write_member m slot target member hb hs ht hm

/-- **growth**: a reference is a function of its slot's bytes and address only; growth copies the old contents to the same
offsets of larger storage, so every reference denotes the same offset afterwards -/
theorem C08_growth_deref (m : Mem) (slot extra : Nat) (hb : slot + 8 ≤ m.length) :
    deref (growMem m extra) slot = deref m slot := by
  unfold deref growMem
  have : readAt (m ++ zeros extra) slot 8 = readAt m slot 8 := by
    apply List.ext_getElem?
    intro i
    rw [getElem?_readAt, getElem?_readAt]
    by_cases hi : i < 8
    · simp only [hi, ↓reduceIte]
      rw [List.getElem?_append_left (by omega)]
    · simp [hi]
  rw [this]

/-- … and the referent's value is unchanged by growth (its bytes are where they were) -/
theorem C08_growth_value (t : Ty) (v : Val) (hw : t.WF) (hc : Conf t v) (hs : vsize t v < 2 ^ 64)
    (m : Mem) (off : Nat) (hb : off + vsize t v ≤ m.length) (extra : Nat) :
    readD t (growMem (apply (shift off (patchesD t v)) m) extra) off = v.norm := by
  apply rtD t v hw hc hs m off hb
  intro i h1 h2
  unfold growMem
  have hlen : (apply (shift off (patchesD t v)) m).length = m.length := by
    have h := within_shift (d := off) (withinD t v hw hc)
    have h' : Within (shift off (patchesD t v)) off (off + vsize t v) := by simpa [Nat.add_comm] using h
    exact (apply_frame _ m _ _ h' hb).1
  rw [List.getElem?_append_left (by omega)]

/-- **copy**: plain data or a foreign object bound to a reference is constructed at an offset handed out by the holder buffer's
allocator: inside the (possibly grown) capacity and disjoint from every live object (this is C04_alloc) -/
theorem C08_copy_fresh (s : Alloc.AState) (live : List Alloc.Region) (size : Nat) (o : Nat) (s' : Alloc.AState)
    (hinv : Alloc.Inv s live) (h : Alloc.allocate s size true = some (o, s')) :
    o + size ≤ s'.capacity ∧ (∀ r ∈ live, Alloc.Disjoint (o, size) r) :=
  let r := Alloc.C04_alloc s live size true o s' hinv h
  ⟨r.1, r.2.2.2.1⟩

/-- **alias, at value level**: let a reference slot (anywhere outside the referent) denote an object `vB : tB` that the memory holds
at `offB`. Then the referent read through the reference is `vB`; and storing a scalar element of the referent - through the
reference, through the original handle or through any other reference to it: they all compute the same address - makes every one
of them read the referent with exactly that element replaced, while the reference still denotes the same object -/
theorem C08_alias_value (tB : Ty) (vB : Val) (hw : tB.WF) (hc : Conf tB vB) (hsz : vsize tB vB < 2 ^ 64)
    (m0 : Mem) (offB : Nat) (hb : offB + vsize tB vB ≤ m0.length) (m : Mem) (hlen : m.length = m0.length)
    (hag : Agree m (apply (shift offB (patchesD tB vB)) m0) offB (offB + vsize tB vB))
    (slot : Nat) (hs : slot < 2 ^ 62) (ht : offB < 2 ^ 62)
    (hdisj : slot + 8 ≤ offB ∨ offB + vsize tB vB ≤ slot)
    (href : readAt m slot 8 = refBytes slot offB)
    (p : List Nat) (lo w b : Nat) (hl : leafAt tB vB p = some (lo, w)) (hbv : b < 256 ^ w) :
    deref m slot = some offB ∧ readD tB m offB = vB.norm ∧
    ∃ v', updAt tB vB p b = some v' ∧
      deref (setScalar m (offB + lo) w b) slot = some offB ∧
      readD tB (setScalar m (offB + lo) w b) offB = v'.norm := by
  refine ⟨deref_of_bytes m slot offB hs ht href, rtD tB vB hw hc hsz m0 offB hb m hag, ?_⟩
  obtain ⟨v', h1, _, _, h4, h5⟩ := set_leaf_rt tB vB hw hc hsz m0 offB hb m hag hlen p lo w b hl hbv
  refine ⟨v', h1, ?_, h5⟩
  apply deref_of_bytes _ slot offB hs ht
  rw [← href]
  have hf := (C11_scalar_never_overruns m (offB + lo) w b (by rw [hlen]; omega)).2
  apply List.ext_getElem?
  intro i
  rw [getElem?_readAt, getElem?_readAt]
  by_cases hi : i < 8
  · simp only [hi, ↓reduceIte]
    exact hf (slot + i) (by omega)
  · simp [hi]

/-! ### histories of a heap of nodes linked by references (`Xo/Model/RefGraph.lean`, executed against the library as component `rg`)

Universe: any list of node classes, a class being a static struct of 8-byte scalars, `Ref[Class]` and `UnionRef[Class, …]` fields.
History: any finite sequence of construct / bind-to-existing / bind-to-value (= bind-to-foreign-object: a new node in the holder's
buffer) / bind-to-null / write-through-original / write-through-ref / other allocations / growth, from any initial capacity,
power-of-two alignment and grow step.  The only hypothesis is that addresses stay below 2^62 (they are stored as int64). -/

/-- **every non-null reference resolves to a live object of the recorded member type inside its own buffer, and keeps doing so
however much the buffer later grows** - the invariant `RG.Inv` (allocator invariant with the nodes as live regions; every reference
slot of every live node is null, with member index -1 for a union, or denotes the START of a live node whose class is the declared
class / the class the stored member index names) holds after every history -/
theorem C08_ref_history (u : RG.Univ) (hu : RG.UWF u) (cap k : Nat) (gs : Option Nat) (ops : List RG.Op)
    (hcap : (ops.foldl (RG.step u) (RG.initSt cap (2 ^ k) gs)).b.a.capacity < 2 ^ 62) :
    RG.Inv u (ops.foldl (RG.step u) (RG.initSt cap (2 ^ k) gs)) :=
  RG.history_inv hu ops _ (RG.init_inv u cap k gs (Nat.lt_of_le_of_lt (RG.fold_cap u ops (RG.initSt cap (2 ^ k) gs)) hcap)) hcap

/-- the same, spelled out for a reader: in every reachable state, whatever a reference field of a live node holds, what
`Ref._from_buffer` / `UnionRef._from_buffer` decode from its bytes is null or the address of a live node `t` of the class the
reader will assume, which lies inside the buffer's storage and shares no byte with any other live region -/
theorem C08_refs_resolve (u : RG.Univ) (hu : RG.UWF u) (cap k : Nat) (gs : Option Nat) (ops : List RG.Op)
    (hcap : (ops.foldl (RG.step u) (RG.initSt cap (2 ^ k) gs)).b.a.capacity < 2 ^ 62)
    (e : RG.Ent) (he : e ∈ (ops.foldl (RG.step u) (RG.initSt cap (2 ^ k) gs)).live)
    (kf : Nat) (fk : RG.FK) (a : Nat) (hf : RG.fieldAt u e kf = some (fk, a)) (hfk : fk ≠ .scal) (t : Nat)
    (hd : deref (ops.foldl (RG.step u) (RG.initSt cap (2 ^ k) gs)).b.mem a = some t) :
    ∃ c, RG.refClass (ops.foldl (RG.step u) (RG.initSt cap (2 ^ k) gs)) fk a = some c ∧
      ∃ et ∈ (ops.foldl (RG.step u) (RG.initSt cap (2 ^ k) gs)).live, et.addr = t ∧ et.cls = some c ∧
        t + et.size ≤ (ops.foldl (RG.step u) (RG.initSt cap (2 ^ k) gs)).b.mem.length ∧
        (∃ cl, u[c]? = some cl ∧ et.size = RG.csize cl) ∧
        ∀ e' ∈ (ops.foldl (RG.step u) (RG.initSt cap (2 ^ k) gs)).live, e' ≠ et →
          Alloc.Disjoint (et.addr, et.size) (e'.addr, e'.size) := by
  have hi := C08_ref_history u hu cap k gs ops hcap
  generalize ops.foldl (RG.step u) (RG.initSt cap (2 ^ k) gs) = s at *
  have hr := hi.refs e he kf fk a hf
  have fin : ∀ c, RG.IsObj s t c → ∃ et ∈ s.live, et.addr = t ∧ et.cls = some c ∧ t + et.size ≤ s.b.mem.length ∧
      (∃ cl, u[c]? = some cl ∧ et.size = RG.csize cl) ∧
      ∀ e' ∈ s.live, e' ≠ et → Alloc.Disjoint (et.addr, et.size) (e'.addr, e'.size) := by
    rintro c ⟨et, hm, h1, h2⟩
    refine ⟨et, hm, h1, h2, ?_, hi.wf et hm c h2, fun e' he' hne => RG.live_disj hi hm he' (Ne.symm hne)⟩
    have := hi.a.inb (et.addr, et.size) (List.mem_map.mpr ⟨et, hm, rfl⟩)
    have hmm := hi.mem
    unfold Alloc.Buf.MemOK at hmm
    simp only at this
    omega
  cases fk with
  | scal => exact absurd rfl hfk
  | ref c0 =>
    rcases hr with hr | ⟨t', h1, h2⟩
    · rw [hr] at hd; simp at hd
    · rw [h1] at hd; cases hd
      exact ⟨c0, rfl, fin c0 h2⟩
  | uref cs =>
    rcases hr with hr | ⟨t', i, c', h1, h2, h3, h4⟩
    · rw [hr.1] at hd; simp at hd
    · rw [h1] at hd; cases hd
      refine ⟨c', ?_, fin c' h4⟩
      simp only [RG.refClass, h2]
      have : (0 : Int) ≤ (i : Int) := Int.natCast_nonneg i
      simp only [this, ↓reduceIte, Int.toNat_natCast]
      exact h3

/-- **bind to an object of the same buffer = aliasing**: nothing is allocated (allocator state and the set of live regions are
unchanged), no byte outside the slot changes, and the reference now denotes that very object (its address, its class) -/
theorem C08_bind_existing_aliases (u : RG.Univ) (hu : RG.UWF u) (s : RG.St) (hi : RG.Inv u s) (ha k ta : Nat) (h t : RG.Ent)
    (hh : RG.findObj s ha = some h) (ht : RG.findObj s ta = some t) (fk : RG.FK) (a : Nat)
    (hf : RG.fieldAt u h k = some (fk, a)) (tc : Nat) (htc : t.cls = some tc)
    (hmember : fk = .ref tc ∨ ∃ cs, fk = .uref cs ∧ tc ∈ cs) :
    (RG.bindObj u s ha k ta).b.a = s.b.a ∧ (RG.bindObj u s ha k ta).live = s.live ∧
    deref (RG.bindObj u s ha k ta).b.mem a = some t.addr ∧ RG.refClass (RG.bindObj u s ha k ta) fk a = some tc ∧
    ∀ i, (i < a ∨ a + fk.size ≤ i) → (RG.bindObj u s ha k ta).b.mem[i]? = s.b.mem[i]? := by
  obtain ⟨hm, _, _⟩ := RG.findObj_spec hh
  obtain ⟨tm, _, _⟩ := RG.findObj_spec ht
  obtain ⟨_, _, hfit⟩ := RG.slot_in hi hm hf
  have l1 := RG.live_addr_lt hi hm
  have l2 := RG.live_addr_lt hi tm
  have p := RG.FK.size_pos fk
  rcases hmember with rfl | ⟨cs, rfl, hmem⟩
  · have e : RG.bindObj u s ha k ta = RG.wr s a (refBytes a t.addr) := by
      simp only [RG.bindObj, hh, ht, hf, htc, ↓reduceIte]
    rw [e]
    have hl : (refBytes a t.addr).length = 8 := by simp [refBytes, i64le_length]
    refine ⟨rfl, rfl, deref_write_ref _ _ _ (by simpa [RG.FK.size] using hfit) (by omega) (by omega), rfl, ?_⟩
    intro i hi'
    simp only [RG.wr]
    rw [getElem?_writeAt _ _ _ (by rw [hl]; simpa [RG.FK.size] using hfit), hl]
    have : ¬ (a ≤ i ∧ i < a + 8) := by simp only [RG.FK.size] at hi'; omega
    simp [this]
  · have e : RG.bindObj u s ha k ta = RG.wr s a (urefBytes a t.addr (cs.idxOf tc)) := by
      simp only [RG.bindObj, hh, ht, hf, htc, hmem, ↓reduceIte]
    rw [e]
    have hl : (urefBytes a t.addr (cs.idxOf tc)).length = 16 := by simp [urefBytes, refBytes, i64le_length]
    have hlen := RG.uwf_len hu hf
    have hidx : cs.idxOf tc < cs.length := List.idxOf_lt_length_of_mem hmem
    obtain ⟨d1, d2⟩ := uref_write_member s.b.mem a t.addr (cs.idxOf tc) (by simpa [RG.FK.size] using hfit) (by omega) (by omega)
      (by omega)
    refine ⟨rfl, rfl, d1, ?_, ?_⟩
    · simp only [RG.refClass, RG.wr, d2]
      have : (0 : Int) ≤ ((cs.idxOf tc : Nat) : Int) := Int.natCast_nonneg _
      simp only [this, ↓reduceIte, Int.toNat_natCast]
      rw [List.getElem?_eq_getElem hidx]; simp
    · intro i hi'
      simp only [RG.wr]
      rw [getElem?_writeAt _ _ _ (by rw [hl]; simpa [RG.FK.size] using hfit), hl]
      have : ¬ (a ≤ i ∧ i < a + 16) := by simp only [RG.FK.size] at hi'; omega
      simp [this]

/-- **bind to plain data or to a foreign object = a new independent object in the holder's buffer**: when `bindVal` does anything, a
node of the member class was constructed by the holder buffer's allocator (fresh: inside the capacity, sharing no byte with anything
live before - `C04_alloc` through `RG.newObj_spec`), every node that was live keeps its place, and the invariant holds again -/
theorem C08_bind_value_fresh (u : RG.Univ) (hu : RG.UWF u) (s : RG.St) (hi : RG.Inv u s) (ha k c : Nat) (vs : List Nat)
    (hcap : (RG.bindVal u s ha k c vs).b.a.capacity < 2 ^ 62) (hne : RG.bindVal u s ha k c vs ≠ s) :
    ∃ h fk a o cl, RG.findObj s ha = some h ∧ RG.fieldAt u h k = some (fk, a) ∧ u[c]? = some cl ∧
      (RG.bindVal u s ha k c vs).live = ⟨o, RG.csize cl, some c⟩ :: s.live ∧
      deref (RG.bindVal u s ha k c vs).b.mem a = some o ∧ RG.refClass (RG.bindVal u s ha k c vs) fk a = some c ∧
      o + RG.csize cl ≤ (RG.bindVal u s ha k c vs).b.mem.length ∧
      (∀ e ∈ s.live, Alloc.Disjoint (o, RG.csize cl) (e.addr, e.size)) ∧
      RG.Inv u (RG.bindVal u s ha k c vs) := by
  have hinv := RG.bindVal_inv hu hi ha k c vs hcap
  rcases RG.bindVal_cases u s ha k c vs with h | ⟨h, fk, a, s1, o, bs, hh, hf, hn, heq, hk⟩
  · exact absurd h hne
  · obtain ⟨hm, _, _⟩ := RG.findObj_spec hh
    have hlive : ∃ sz, s1.live = ⟨o, sz, some c⟩ :: s.live := by
      unfold RG.newObj at hn
      split at hn
      · simp at hn
      · split at hn
        · simp at hn
        · simp only [Prod.mk.injEq, Option.some.injEq] at hn
          obtain ⟨rfl, rfl⟩ := hn
          exact ⟨_, rfl⟩
    obtain ⟨sz, hl⟩ := hlive
    have hlv : (RG.bindVal u s ha k c vs).live = ⟨o, sz, some c⟩ :: s.live := by rw [heq]; exact hl
    obtain ⟨cl, hcl, hsz⟩ := hinv.wf ⟨o, sz, some c⟩ (by rw [hlv]; exact List.mem_cons_self) c rfl
    simp only at hsz
    subst hsz
    have hr := hinv.refs h (by rw [hlv]; exact List.mem_cons_of_mem _ hm) k fk a hf
    have hd : deref (RG.bindVal u s ha k c vs).b.mem a = some o ∧ RG.refClass (RG.bindVal u s ha k c vs) fk a = some c := by
      rw [heq] at hcap ⊢
      obtain ⟨hi1, _, hsub, ho⟩ := RG.newObj_spec hi hn (by simpa [RG.wr] using hcap)
      obtain ⟨_, _, hfit⟩ := RG.slot_in hi1 (hsub h hm) hf
      have l1 := RG.live_addr_lt hi1 (hsub h hm)
      have p := RG.FK.size_pos fk
      rcases hk with ⟨rfl, rfl⟩ | ⟨cs, rfl, hmem, rfl⟩
      · exact ⟨deref_write_ref _ _ _ (by simpa [RG.FK.size] using hfit) (by omega) ho, rfl⟩
      · have hlen := RG.uwf_len hu hf
        have hidx : cs.idxOf c < cs.length := List.idxOf_lt_length_of_mem hmem
        obtain ⟨d1, d2⟩ := uref_write_member s1.b.mem a o (cs.idxOf c) (by simpa [RG.FK.size] using hfit) (by omega) ho (by omega)
        refine ⟨d1, ?_⟩
        simp only [RG.refClass, RG.wr, d2]
        have : (0 : Int) ≤ ((cs.idxOf c : Nat) : Int) := Int.natCast_nonneg _
        simp only [this, ↓reduceIte, Int.toNat_natCast]
        rw [List.getElem?_eq_getElem hidx]; simp
    refine ⟨h, fk, a, o, cl, hh, hf, hcl, hlv, hd.1, hd.2, ?_, ?_, hinv⟩
    · have := hinv.a.inb (o, RG.csize cl) (by unfold RG.regions; rw [hlv]; exact List.mem_cons_self)
      have hmm := hinv.mem
      unfold Alloc.Buf.MemOK at hmm
      simp only at this
      omega
    intro e he
    have hp := hinv.a.disj
    unfold RG.regions at hp
    rw [hlv] at hp
    simp only [List.map_cons, List.pairwise_cons] at hp
    exact hp.1 (e.addr, e.size) (List.mem_map.mpr ⟨e, he, rfl⟩)

/-- **writes through either are visible through both**: the address a reader THROUGH the reference computes for field `j` of the
referent (decoded slot + class-level offset of the class the reader assumes) IS the address of field `j` of the live original -
the two handles read and write the same bytes -/
theorem C08_through_ref_same_address (u : RG.Univ) (s : RG.St) (hi : RG.Inv u s) (h : RG.Ent) (hm : h ∈ s.live)
    (k : Nat) (fk : RG.FK) (a : Nat) (hf : RG.fieldAt u h k = some (fk, a)) (t c : Nat)
    (hd : deref s.b.mem a = some t) (hc : RG.refClass s fk a = some c) :
    ∃ e ∈ s.live, e.addr = t ∧ e.cls = some c ∧
      ∀ cl j fkj, u[c]? = some cl → cl[j]? = some fkj → RG.fieldAt u e j = some (fkj, t + RG.foff cl j) := by
  obtain ⟨e, he, hea, hec⟩ := RG.deref_live hi hm hf hd hc
  refine ⟨e, he, hea, hec, fun cl j fkj hcl hj => ?_⟩
  rw [← hea]; exact RG.fieldAt_of hec hcl hj

/-- **null**: binding nothing makes the slot read back as null, with member index -1 for a union reference; the invariant holds -/
theorem C08_bind_null (u : RG.Univ) (s : RG.St) (hi : RG.Inv u s) (ha k : Nat) (h : RG.Ent) (hh : RG.findObj s ha = some h)
    (fk : RG.FK) (a : Nat) (hf : RG.fieldAt u h k = some (fk, a)) (hfk : fk ≠ .scal) :
    deref (RG.bindNull u s ha k).b.mem a = none ∧ (∀ cs, fk = .uref cs → memberIdx (RG.bindNull u s ha k).b.mem a = -1) ∧
    RG.Inv u (RG.bindNull u s ha k) := by
  obtain ⟨hm, _, _⟩ := RG.findObj_spec hh
  obtain ⟨_, _, hfit⟩ := RG.slot_in hi hm hf
  refine ⟨?_, ?_, RG.bindNull_inv hi ha k⟩
  · cases fk with
    | scal => exact absurd rfl hfk
    | ref c => simp only [RG.bindNull, hh, hf, RG.wr]; exact deref_write_null _ _ (by simpa [RG.FK.size] using hfit)
    | uref cs => simp only [RG.bindNull, hh, hf, RG.wr]; exact (uref_write_null _ _ (by simpa [RG.FK.size] using hfit)).1
  · rintro cs rfl
    simp only [RG.bindNull, hh, hf, RG.wr]; exact (uref_write_null _ _ (by simpa [RG.FK.size] using hfit)).2

/-! non-vacuity -/
example : deref (writeAt (List.replicate 64 0xA5) 8 (refBytes 8 40)) 8 = some 40 := by decide
example : deref (writeAt (List.replicate 64 0xA5) 40 (refBytes 40 8)) 40 = some 8 := by decide

/-- **two buffers.**  Histories that interleave any operations inside buffer A, any operations inside buffer B, and copy
constructions of a node of one buffer into the other (`Cls(h, _buffer=other)`: the node and everything it refers to is duplicated
there - a reference never leaves its buffer): in every reachable pair of states BOTH buffers satisfy the reference invariant - every
non-null reference of every live node resolves to a live node of the recorded class inside ITS OWN buffer.  (Copies whose recursion
does not end - cyclic sources - are no-ops of the model for every fuel; the library raises RecursionError.) -/
theorem C08_two_buffer_history (u : RG.Univ) (hu : RG.UWF u) (fuel capA kA capB kB : Nat) (gsA gsB : Option Nat) (ops : List RG.Op2)
    (hcA : (ops.foldl (RG.step2 u fuel) ⟨RG.initSt capA (2 ^ kA) gsA, RG.initSt capB (2 ^ kB) gsB⟩).a.b.a.capacity < 2 ^ 62)
    (hcB : (ops.foldl (RG.step2 u fuel) ⟨RG.initSt capA (2 ^ kA) gsA, RG.initSt capB (2 ^ kB) gsB⟩).b.b.a.capacity < 2 ^ 62) :
    RG.Inv u (ops.foldl (RG.step2 u fuel) ⟨RG.initSt capA (2 ^ kA) gsA, RG.initSt capB (2 ^ kB) gsB⟩).a ∧
    RG.Inv u (ops.foldl (RG.step2 u fuel) ⟨RG.initSt capA (2 ^ kA) gsA, RG.initSt capB (2 ^ kB) gsB⟩).b := by
  have hm := RG.fold2_cap u fuel ops ⟨RG.initSt capA (2 ^ kA) gsA, RG.initSt capB (2 ^ kB) gsB⟩
  exact RG.history2_inv hu fuel ops _ (RG.init_inv u capA kA gsA (Nat.lt_of_le_of_lt hm.1 hcA))
    (RG.init_inv u capB kB gsB (Nat.lt_of_le_of_lt hm.2 hcB)) hcA hcB

/-! non-vacuity of the history theorems: a concrete universe and history (aliasing, growth while references exist, a write through a
reference, a value bound to a union reference, a null) meets the hypotheses, and the reference slots read as claimed -/
namespace RGEx
open RG
def exU : Univ := [[.scal, .scal], [.scal, .ref 0], [.uref [0, 1], .scal, .ref 1]]
def exOps : List Op := [.new 0 [5, 6], .new 1 [7], .bindObj 16 1 0, .new 2 [9], .bindObj 32 0 16, .bindObj 32 2 16,
  .alloc 64 true, .setVia 32 2 0 44, .bindVal 32 0 0 [1, 2], .bindNull 32 2, .grow 8]
def exS : St := exOps.foldl (step exU) (initSt 64 (2 ^ 3) none)
example : UWF exU := by
  intro cl hcl fk hfk cs hcs
  subst hcs
  simp only [exU, List.mem_cons, List.not_mem_nil, or_false] at hcl
  rcases hcl with rfl | rfl | rfl
  all_goals simp at hfk
  subst hfk; decide
example : exS.b.a.capacity = 278 ∧ exS.b.a.capacity < 2 ^ 62 := by decide +kernel
example : readRef exS (.uref [0, 1]) 32 = (some 128, 0) ∧ readRef exS (.ref 1) 56 = (none, 0) ∧
    readRef exS (.ref 0) 24 = (some 0, 0) ∧ fromLE (readAt exS.b.mem 16 8) = 44 ∧ exS.live.length = 5 := by decide +kernel
/-- two buffers: the node at 32 of the state above (a union reference to the node at 128, a null reference) is copied into a second,
empty buffer; then a node is built there and copied back -/
def exOps2 : List Op2 := exOps.map .inA ++ [.copyAB 32, .inB (.new 0 [3, 4]), .copyBA 48, .copyAB 16]
def exS2 : St2 := exOps2.foldl (step2 exU 9) ⟨initSt 64 (2 ^ 3) none, initSt 0 (2 ^ 4) (some 24)⟩
example : exS2.a.b.a.capacity < 2 ^ 62 ∧ exS2.b.b.a.capacity < 2 ^ 62 ∧ exS2.b.live.length = 5 ∧ exS2.a.live.length = 6 ∧
    readRef exS2.b (.uref [0, 1]) 0 = (some 32, 0) ∧ readRef exS2.b (.ref 0) 72 = (some 80, 0) := by decide +kernel
end RGEx

end Lay
