import Xo.Model.Refs
import Xo.Lemmas.LayoutRT
import Xo.Lemmas.Path
import Xo.Props.C11
import Xo.Props.C04
/-! C08 — references alias, null and survive buffer growth as documented (property theorems only).
Slot-level theorems for every slot address, target address and memory; the fresh-and-disjoint placement of referents created
from plain data or foreign objects is the allocator theorem C04_alloc.  The history-level invariant "every non-null reference
of every live object resolves to a live object of the recorded member type" is checked by the oracle after every step of
every generated history (construction, binding of existing / foreign / plain / null values, writes, growth) - `_partial`. -/
namespace Lay
open MemS

theorem i64of_i64le (i : Int) (h1 : -(2 ^ 63 : Int) ≤ i) (h2 : i < 2 ^ 63) : i64of (i64le i) = i := by
  unfold i64of i64le
  rw [fromLE_le]
  have hpos : (0 : Int) ≤ i % (2 ^ 64 : Int) := Int.emod_nonneg _ (by decide)
  have hlt : i % (2 ^ 64 : Int) < 2 ^ 64 := Int.emod_lt_of_pos _ (by decide)
  have hn : ((i % (2 ^ 64 : Int)).toNat : Int) = i % (2 ^ 64 : Int) := Int.toNat_of_nonneg hpos
  have hnlt : (i % (2 ^ 64 : Int)).toNat < 256 ^ 8 := by
    have : ((i % (2 ^ 64 : Int)).toNat : Int) < 2 ^ 64 := by rw [hn]; exact hlt
    have h256 : (256 : Nat) ^ 8 = 2 ^ 64 := by decide
    omega
  rw [Nat.mod_eq_of_lt hnlt]
  simp only []
  by_cases hi : 0 ≤ i
  · have : i % (2 ^ 64 : Int) = i := Int.emod_eq_of_lt hi (by omega)
    have hsmall : ¬ (i % (2 ^ 64 : Int)).toNat ≥ 2 ^ 63 := by
      have : ((i % (2 ^ 64 : Int)).toNat : Int) = i := by rw [hn, this]
      omega
    simp only [hsmall, ↓reduceIte]
    rw [hn, this]
  · have hneg : i < 0 := by omega
    have : i % (2 ^ 64 : Int) = i + 2 ^ 64 := by
      have h := Int.emod_emod_of_dvd i (Int.dvd_refl (2 ^ 64 : Int))
      have : (i + 2 ^ 64) % (2 ^ 64 : Int) = i % (2 ^ 64 : Int) := by simp
      rw [← this]; exact Int.emod_eq_of_lt (by omega) (by omega)
    have hbig : (i % (2 ^ 64 : Int)).toNat ≥ 2 ^ 63 := by
      have : ((i % (2 ^ 64 : Int)).toNat : Int) = i + 2 ^ 64 := by rw [hn, this]
      omega
    simp only [hbig, ↓reduceIte]
    rw [hn, this]; omega

theorem i64le_length (i : Int) : (i64le i).length = 8 := by simp [i64le, le_length]

/-- **null**: `None` is stored as `-2^63` and reads back as `None`; for a union reference the member index is `-1` -/
theorem C08_null (m : Mem) (slot : Nat) (hb : slot + 8 ≤ m.length) :
    deref (writeAt m slot refNullBytes) slot = none := by
  unfold deref refNullBytes
  have := readAt_writeAt_same m slot (i64le NULLV) (by rw [i64le_length]; exact hb)
  rw [i64le_length] at this
  rw [this, i64of_i64le NULLV (by decide) (by decide)]
  simp

theorem C08_union_null (m : Mem) (slot : Nat) (hb : slot + 16 ≤ m.length) :
    deref (writeAt m slot urefNullBytes) slot = none ∧ memberIdx (writeAt m slot urefNullBytes) slot = -1 := by
  have hl : urefNullBytes.length = 16 := by simp [urefNullBytes, i64le_length]
  have hw := readAt_writeAt_same m slot urefNullBytes (by rw [hl]; exact hb)
  rw [hl] at hw
  have h1 : readAt (writeAt m slot urefNullBytes) slot 8 = i64le NULLV := by
    have := readAt_readAt (writeAt m slot urefNullBytes) slot 16 0 8 (by omega)
    rw [Nat.add_zero] at this
    rw [← this, hw]; simp [urefNullBytes, readAt, i64le_length]
  have h2 : readAt (writeAt m slot urefNullBytes) (slot + 8) 8 = i64le (-1) := by
    have := readAt_readAt (writeAt m slot urefNullBytes) slot 16 8 8 (by omega)
    rw [← this, hw]; simp [urefNullBytes, readAt, i64le_length]
    exact List.take_of_length_le (by rw [i64le_length]; exact Nat.le_refl 8)
  constructor
  · unfold deref; rw [h1, i64of_i64le NULLV (by decide) (by decide)]; simp
  · unfold memberIdx; rw [h2, i64of_i64le (-1) (by decide) (by decide)]

/-- **alias**: binding an object that lives at `target` in the same buffer stores `target - slot`; the reference then denotes
that very address - so every read and write through the reference is a read or write of the original's bytes -/
theorem C08_alias (m : Mem) (slot target : Nat) (hb : slot + 8 ≤ m.length) (hs : slot < 2 ^ 62) (ht : target < 2 ^ 62) :
    deref (writeAt m slot (refBytes slot target)) slot = some target := by
  unfold deref refBytes
  have := readAt_writeAt_same m slot (i64le ((target : Int) - (slot : Int))) (by rw [i64le_length]; exact hb)
  rw [i64le_length] at this
  rw [this, i64of_i64le _ (by omega) (by omega)]
  have hne : ((target : Int) - (slot : Int)) ≠ NULLV := by unfold NULLV; omega
  simp only [hne, ↓reduceIte]
  congr 1; omega

theorem C08_union_member (m : Mem) (slot target member : Nat) (hb : slot + 16 ≤ m.length) (hs : slot < 2 ^ 62)
    (ht : target < 2 ^ 62) (hm : member < 2 ^ 62) :
    deref (writeAt m slot (urefBytes slot target member)) slot = some target ∧
    memberIdx (writeAt m slot (urefBytes slot target member)) slot = (member : Int) := by
  have hl : (urefBytes slot target member).length = 16 := by simp [urefBytes, refBytes, i64le_length]
  have hw := readAt_writeAt_same m slot (urefBytes slot target member) (by rw [hl]; exact hb)
  rw [hl] at hw
  have h1 : readAt (writeAt m slot (urefBytes slot target member)) slot 8 = i64le ((target : Int) - (slot : Int)) := by
    have := readAt_readAt (writeAt m slot (urefBytes slot target member)) slot 16 0 8 (by omega)
    rw [Nat.add_zero] at this
    rw [← this, hw]; simp [urefBytes, refBytes, readAt, i64le_length]
  have h2 : readAt (writeAt m slot (urefBytes slot target member)) (slot + 8) 8 = i64le (member : Int) := by
    have := readAt_readAt (writeAt m slot (urefBytes slot target member)) slot 16 8 8 (by omega)
    rw [← this, hw]; simp [urefBytes, refBytes, readAt, i64le_length]
    exact List.take_of_length_le (by rw [i64le_length]; exact Nat.le_refl 8)
  constructor
  · unfold deref
    rw [h1, i64of_i64le _ (by omega) (by omega)]
    have hne : ((target : Int) - (slot : Int)) ≠ NULLV := by unfold NULLV; omega
    simp only [hne, ↓reduceIte]
    congr 1; omega
  · unfold memberIdx; rw [h2, i64of_i64le _ (by omega) (by omega)]

/-- **growth**: a reference is a function of its slot's bytes and address only; growth copies the old contents to the same
offsets of larger storage, so every reference denotes the same offset afterwards -/
theorem C08_growth_deref (m : Mem) (slot extra : Nat) (hb : slot + 8 ≤ m.length) :
    deref (growMem m extra) slot = deref m slot := by
  unfold deref growMem
  have : readAt (m ++ zeros extra) slot 8 = readAt m slot 8 := by
    apply List.ext_getElem?
    intro i
    rw [getElem?_readAt, getElem?_readAt]
    by_cases hi : i < 8
    · simp only [hi, ↓reduceIte]
      rw [List.getElem?_append_left (by omega)]
    · simp [hi]
  rw [this]

/-- … and the referent's value is unchanged by growth (its bytes are where they were) -/
theorem C08_growth_value (t : Ty) (v : Val) (hw : t.WF) (hc : Conf t v) (hs : vsize t v < 2 ^ 64)
    (m : Mem) (off : Nat) (hb : off + vsize t v ≤ m.length) (extra : Nat) :
    readD t (growMem (apply (shift off (patchesD t v)) m) extra) off = v.norm := by
  apply rtD t v hw hc hs m off hb
  intro i h1 h2
  unfold growMem
  have hlen : (apply (shift off (patchesD t v)) m).length = m.length := by
    have h := within_shift (d := off) (withinD t v hw hc)
    have h' : Within (shift off (patchesD t v)) off (off + vsize t v) := by simpa [Nat.add_comm] using h
    exact (apply_frame _ m _ _ h' hb).1
  rw [List.getElem?_append_left (by omega)]

/-- **copy**: plain data or a foreign object bound to a reference is constructed at an offset handed out by the holder buffer's
allocator: inside the (possibly grown) capacity and disjoint from every live object (this is C04_alloc) -/
theorem C08_copy_fresh (s : Alloc.AState) (live : List Alloc.Region) (size : Nat) (o : Nat) (s' : Alloc.AState)
    (hinv : Alloc.Inv s live) (h : Alloc.allocate s size true = some (o, s')) :
    o + size ≤ s'.capacity ∧ (∀ r ∈ live, Alloc.Disjoint (o, size) r) :=
  let r := Alloc.C04_alloc s live size true o s' hinv h
  ⟨r.1, r.2.2.2.1⟩

/-- a slot whose 8 bytes are the encoding of `target - slot` denotes `target`, in any memory -/
theorem deref_of_bytes (m : Mem) (slot target : Nat) (hs : slot < 2 ^ 62) (ht : target < 2 ^ 62)
    (h : readAt m slot 8 = refBytes slot target) : deref m slot = some target := by
  unfold deref
  rw [h]
  unfold refBytes
  rw [i64of_i64le _ (by omega) (by omega)]
  have hne : ((target : Int) - (slot : Int)) ≠ NULLV := by unfold NULLV; omega
  simp only [hne, ↓reduceIte]
  congr 1; omega

/-- **alias, at value level**: let a reference slot (anywhere outside the referent) denote an object `vB : tB` that the memory holds
at `offB`. Then the referent read through the reference is `vB`; and storing a scalar element of the referent - through the
reference, through the original handle or through any other reference to it: they all compute the same address - makes every one
of them read the referent with exactly that element replaced, while the reference still denotes the same object -/
theorem C08_alias_value (tB : Ty) (vB : Val) (hw : tB.WF) (hc : Conf tB vB) (hsz : vsize tB vB < 2 ^ 64)
    (m0 : Mem) (offB : Nat) (hb : offB + vsize tB vB ≤ m0.length) (m : Mem) (hlen : m.length = m0.length)
    (hag : Agree m (apply (shift offB (patchesD tB vB)) m0) offB (offB + vsize tB vB))
    (slot : Nat) (hs : slot < 2 ^ 62) (ht : offB < 2 ^ 62)
    (hdisj : slot + 8 ≤ offB ∨ offB + vsize tB vB ≤ slot)
    (href : readAt m slot 8 = refBytes slot offB)
    (p : List Nat) (lo w b : Nat) (hl : leafAt tB vB p = some (lo, w)) (hbv : b < 256 ^ w) :
    deref m slot = some offB ∧ readD tB m offB = vB.norm ∧
    ∃ v', updAt tB vB p b = some v' ∧
      deref (setScalar m (offB + lo) w b) slot = some offB ∧
      readD tB (setScalar m (offB + lo) w b) offB = v'.norm := by
  refine ⟨deref_of_bytes m slot offB hs ht href, rtD tB vB hw hc hsz m0 offB hb m hag, ?_⟩
  obtain ⟨v', h1, _, _, h4, h5⟩ := set_leaf_rt tB vB hw hc hsz m0 offB hb m hag hlen p lo w b hl hbv
  refine ⟨v', h1, ?_, h5⟩
  apply deref_of_bytes _ slot offB hs ht
  rw [← href]
  have hf := (C11_scalar_never_overruns m (offB + lo) w b (by rw [hlen]; omega)).2
  apply List.ext_getElem?
  intro i
  rw [getElem?_readAt, getElem?_readAt]
  by_cases hi : i < 8
  · simp only [hi, ↓reduceIte]
    exact hf (slot + i) (by omega)
  · simp [hi]

/-! non-vacuity -/
example : deref (writeAt (List.replicate 64 0xA5) 8 (refBytes 8 40)) 8 = some 40 := by decide
example : deref (writeAt (List.replicate 64 0xA5) 40 (refBytes 40 8)) 40 = some 8 := by decide

end Lay
