import Xo.Model.DictForm
/-! C19 — dictionary and JSON forms rebuild an equal object (property theorems only) -/
namespace DictF

theorem toFields_keys (u : Universe) (fuel : Nat) : ∀ (fs : List (String × String × FK)) (vs : List V) (k : String) (d : D),
    (k, d) ∈ toFields u fuel fs vs → ∃ f ∈ fs, f.2.1 = k
 | [], vs, k, d, h => by simp [toFields] at h
 | (xo, py, .num dflt) :: fs, .num v :: vs, k, d, h => by
    simp only [toFields] at h
    split at h
    · obtain ⟨f, hf, hk⟩ := toFields_keys u fuel fs vs k d h
      exact ⟨f, List.mem_cons_of_mem _ hf, hk⟩
    · rcases List.mem_cons.mp h with h | h
      · injection h with h1 _; exact ⟨_, List.mem_cons_self, h1.symm⟩
      · obtain ⟨f, hf, hk⟩ := toFields_keys u fuel fs vs k d h
        exact ⟨f, List.mem_cons_of_mem _ hf, hk⟩
 | (xo, py, .obj c') :: fs, v :: vs, k, d, h => by
    simp only [toFields] at h
    rcases List.mem_cons.mp h with h | h
    · injection h with h1 _; exact ⟨_, List.mem_cons_self, h1.symm⟩
    · obtain ⟨f, hf, hk⟩ := toFields_keys u fuel fs vs k d h
      exact ⟨f, List.mem_cons_of_mem _ hf, hk⟩
 | (xo, py, .optobj c') :: fs, .null :: vs, k, d, h => by
    simp only [toFields] at h
    obtain ⟨f, hf, hk⟩ := toFields_keys u fuel fs vs k d h
    exact ⟨f, List.mem_cons_of_mem _ hf, hk⟩
 | (xo, py, .optobj c') :: fs, .num x :: vs, k, d, h | (xo, py, .optobj c') :: fs, .obj x :: vs, k, d, h => by
    simp only [toFields] at h
    rcases List.mem_cons.mp h with h | h
    · injection h with h1 _; exact ⟨_, List.mem_cons_self, h1.symm⟩
    · obtain ⟨f, hf, hk⟩ := toFields_keys u fuel fs vs k d h
      exact ⟨f, List.mem_cons_of_mem _ hf, hk⟩
 | (_, _, .num _) :: _, [], _, _, h | (_, _, .num _) :: _, .obj _ :: _, _, _, h | (_, _, .num _) :: _, .null :: _, _, _, h => by
    simp [toFields] at h
 | (_, _, .obj _) :: _, [], _, _, h | (_, _, .optobj _) :: _, [], _, _, h => by simp [toFields] at h

theorem lookup_none_of_not_key {α : Type} (k : String) : ∀ (l : List (String × α)), (∀ p ∈ l, p.1 ≠ k) → l.lookup k = none
 | [], _ => rfl
 | (a, b) :: l, h => by
    have h1 : (k == a) = false := by
      have := h (a, b) List.mem_cons_self
      simp only [beq_eq_false_iff_ne, ne_eq]
      exact fun e => this e.symm
    rw [List.lookup_cons, h1]
    exact lookup_none_of_not_key k l (fun p hp => h p (List.mem_cons_of_mem _ hp))

theorem toFields_lookup_absent (u : Universe) (fuel : Nat) (fs : List (String × String × FK)) (vs : List V) (py : String)
    (h : ∀ f ∈ fs, f.2.1 ≠ py) : (toFields u fuel fs vs).lookup py = none := by
  apply lookup_none_of_not_key
  intro p hp
  obtain ⟨f, hf, hk⟩ := toFields_keys u fuel fs vs p.1 p.2 hp
  rw [← hk]; exact h f hf

theorem lookup_cons_ne {α : Type} (k a : String) (b : α) (l : List (String × α)) (h : a ≠ k) :
    ((a, b) :: l).lookup k = l.lookup k := by
  have : (k == a) = false := by simp only [beq_eq_false_iff_ne, ne_eq]; exact fun e => h e.symm
  rw [List.lookup_cons, this]

theorem toFullF_lookup_absent (u : Universe) (fuel : Nat) : ∀ (fs : List (String × String × FK)) (vs : List V) (xo : String),
    (∀ f ∈ fs, f.1 ≠ xo) → (toFullF u fuel fs vs).lookup xo = none
 | [], vs, xo, _ => by simp [toFullF]
 | (x, py, k) :: fs, [], xo, _ => by cases k <;> simp [toFullF]
 | (x, py, .num d) :: fs, .num v :: vs, xo, h => by
    simp only [toFullF]
    rw [lookup_cons_ne _ _ _ _ (h _ List.mem_cons_self)]
    exact toFullF_lookup_absent u fuel fs vs xo (fun f hf => h f (List.mem_cons_of_mem _ hf))
 | (x, py, .num d) :: fs, .obj _ :: vs, xo, h | (x, py, .num d) :: fs, .null :: vs, xo, h => by simp [toFullF]
 | (x, py, .obj c') :: fs, v :: vs, xo, h => by
    simp only [toFullF]
    rw [lookup_cons_ne _ _ _ _ (h _ List.mem_cons_self)]
    exact toFullF_lookup_absent u fuel fs vs xo (fun f hf => h f (List.mem_cons_of_mem _ hf))
 | (x, py, .optobj c') :: fs, .null :: vs, xo, h => by
    simp only [toFullF]
    rw [lookup_cons_ne _ _ _ _ (h _ List.mem_cons_self)]
    exact toFullF_lookup_absent u fuel fs vs xo (fun f hf => h f (List.mem_cons_of_mem _ hf))
 | (x, py, .optobj c') :: fs, .num _ :: vs, xo, h | (x, py, .optobj c') :: fs, .obj _ :: vs, xo, h => by
    simp only [toFullF]
    rw [lookup_cons_ne _ _ _ _ (h _ List.mem_cons_self)]
    exact toFullF_lookup_absent u fuel fs vs xo (fun f hf => h f (List.mem_cons_of_mem _ hf))

def Pfull (u : Universe) (fuel : Nat) : Prop :=
  ∀ (c : Nat) (v : V), Conf u fuel c v → fromFull u fuel c (toFull u fuel c v) = v

def PfullF (u : Universe) (fuel : Nat) : Prop :=
  ∀ (fs : List (String × String × FK)) (vs : List V) (kv : List (String × D)), ConfF u fuel fs vs → DistinctXo fs →
    (∀ f ∈ fs, kv.lookup f.1 = (toFullF u fuel fs vs).lookup f.1) → fromFullF u fuel fs kv = vs

theorem fullF_of_full (u : Universe) (fuel : Nat) (hfull : Pfull u fuel) : PfullF u fuel := by
  intro fs
  induction fs with
  | nil => intro vs kv h _ _; cases vs <;> simp [ConfF] at h; simp [fromFullF]
  | cons f fs ih =>
    intro vs kv hc hd hkv
    obtain ⟨xo, py, k⟩ := f
    cases vs with
    | nil => cases k <;> simp [ConfF] at hc
    | cons v vs =>
      have tail_of : ∀ (hc' : ConfF u fuel fs vs)
          (hsk : ∀ g ∈ fs, (toFullF u fuel ((xo, py, k) :: fs) (v :: vs)).lookup g.1 = (toFullF u fuel fs vs).lookup g.1),
          fromFullF u fuel fs kv = vs := by
        intro hc' hsk
        apply ih vs kv hc' hd.2
        intro g hg
        rw [hkv g (List.mem_cons_of_mem _ hg), hsk g hg]
      have hk := hkv (xo, py, k) List.mem_cons_self
      cases k with
      | num dflt =>
        cases v with
        | num x =>
          simp only [ConfF] at hc
          simp only [fromFullF]
          have htail := tail_of hc (by
            intro g hg; simp only [toFullF]
            exact lookup_cons_ne _ _ _ _ (fun e => hd.1 g hg e.symm))
          simp only [toFullF, List.lookup_cons, beq_self_eq_true] at hk
          rw [htail, hk]
        | obj _ => simp [ConfF] at hc
        | null => simp [ConfF] at hc
      | obj c' =>
        simp only [ConfF] at hc
        simp only [fromFullF]
        have htail := tail_of hc.2 (by
          intro g hg; simp only [toFullF]
          exact lookup_cons_ne _ _ _ _ (fun e => hd.1 g hg e.symm))
        simp only [toFullF, List.lookup_cons, beq_self_eq_true] at hk
        rw [htail, hk]
        congr 1
        exact hfull c' v hc.1
      | optobj c' =>
        cases v with
        | null =>
          simp only [ConfF] at hc
          simp only [fromFullF]
          have htail := tail_of hc (by
            intro g hg; simp only [toFullF]
            exact lookup_cons_ne _ _ _ _ (fun e => hd.1 g hg e.symm))
          simp only [toFullF, List.lookup_cons, beq_self_eq_true] at hk
          rw [htail, hk]
        | num x =>
          simp only [ConfF] at hc
          exact absurd hc.1 (by cases fuel <;> simp [Conf])
        | obj ws =>
          simp only [ConfF] at hc
          simp only [fromFullF]
          have htail := tail_of hc.2 (by
            intro g hg; simp only [toFullF]
            exact lookup_cons_ne _ _ _ _ (fun e => hd.1 g hg e.symm))
          simp only [toFullF, List.lookup_cons, beq_self_eq_true] at hk
          rw [htail, hk]
          have hne : ∀ d, toFull u fuel c' (.obj ws) = d → d ≠ .none_ := by
            intro d hd'; cases fuel <;> simp [toFull] at hd' <;> subst hd' <;> simp
          have := hfull c' (.obj ws) hc.1
          cases hd' : toFull u fuel c' (.obj ws) with
          | none_ => exact absurd rfl (hne _ hd')
          | num x => rw [hd'] at this; simp [this]
          | dict kv' => rw [hd'] at this; simp [this]

theorem full_of_fullF (u : Universe) (hu : WFU u) (n : Nat) (hf : PfullF u n) : Pfull u (n + 1) := by
  intro c v hcv
  cases v with
  | num _ => simp [Conf] at hcv
  | null => simp [Conf] at hcv
  | obj vs =>
    simp only [Conf] at hcv
    simp only [toFull, fromFull]
    congr 1
    exact hf _ vs _ hcv (hu c).2 (fun _ _ => rfl)

theorem full_rt (u : Universe) (hu : WFU u) : ∀ fuel : Nat, Pfull u fuel ∧ PfullF u fuel
 | 0 =>
    have h0 : Pfull u 0 := fun c v h => by cases v <;> simp [Conf] at h
    ⟨h0, fullF_of_full u 0 h0⟩
 | n + 1 =>
    have ho := full_of_fullF u hu n (full_rt u hu n).2
    ⟨ho, fullF_of_full u (n + 1) ho⟩

def Pobj (u : Universe) (fuel : Nat) : Prop :=
  ∀ (c : Nat) (v : V), Conf u fuel c v → fromDict u fuel c (toDict u fuel c v) = v

def Pfields (u : Universe) (fuel : Nat) : Prop :=
  ∀ (fs : List (String × String × FK)) (vs : List V) (kv : List (String × D)), ConfF u fuel fs vs → DistinctPy fs →
    (∀ f ∈ fs, kv.lookup f.2.1 = (toFields u fuel fs vs).lookup f.2.1) → fromFields u fuel fs kv = vs

/-- field lists: given the round trip of nested objects at the same fuel -/
theorem fields_of_obj (u : Universe) (fuel : Nat) (hobj : Pobj u fuel) (hfull : Pfull u fuel) : Pfields u fuel := by
  intro fs
  induction fs with
  | nil => intro vs kv h _ _; cases vs <;> simp [ConfF] at h; simp [fromFields]
  | cons f fs ih =>
    intro vs kv hc hd hkv
    obtain ⟨xo, py, k⟩ := f
    cases vs with
    | nil => cases k <;> simp [ConfF] at hc
    | cons v vs =>
      have tail_of : ∀ (hc' : ConfF u fuel fs vs)
          (hsk : ∀ g ∈ fs, (toFields u fuel ((xo, py, k) :: fs) (v :: vs)).lookup g.2.1 = (toFields u fuel fs vs).lookup g.2.1),
          fromFields u fuel fs kv = vs := by
        intro hc' hsk
        apply ih vs kv hc' hd.2
        intro g hg
        rw [hkv g (List.mem_cons_of_mem _ hg), hsk g hg]
      have hk := hkv (xo, py, k) List.mem_cons_self
      cases k with
      | num dflt =>
        cases v with
        | num x =>
          simp only [ConfF] at hc
          simp only [fromFields]
          have htail := tail_of hc (by
            intro g hg
            simp only [toFields]
            split
            · rfl
            · exact lookup_cons_ne _ _ _ _ (fun e => hd.1 g hg e.symm))
          rw [htail]
          congr 1
          simp only [toFields] at hk
          split at hk
          · rename_i he
            rw [hk, toFields_lookup_absent u fuel fs vs py hd.1, ← he]
            rfl
          · rw [hk]; simp
        | obj _ => simp [ConfF] at hc
        | null => simp [ConfF] at hc
      | obj c' =>
        simp only [ConfF] at hc
        simp only [fromFields]
        have htail := tail_of hc.2 (by
          intro g hg; simp only [toFields]
          exact lookup_cons_ne _ _ _ _ (fun e => hd.1 g hg e.symm))
        rw [htail]
        congr 1
        simp only [toFields] at hk
        rw [hk]; simp only [List.lookup_cons, beq_self_eq_true]
        exact hobj c' v hc.1
      | optobj c' =>
        cases v with
        | null =>
          simp only [ConfF] at hc
          simp only [fromFields]
          have htail := tail_of hc (by intro g hg; simp only [toFields])
          simp only [toFields] at hk
          rw [htail, hk, toFields_lookup_absent u fuel fs vs py hd.1]
        | num x =>
          simp only [ConfF] at hc
          exact absurd hc.1 (by cases fuel <;> simp [Conf])
        | obj ws =>
          simp only [ConfF] at hc
          simp only [fromFields]
          have htail := tail_of hc.2 (by
            intro g hg; simp only [toFields]
            exact lookup_cons_ne _ _ _ _ (fun e => hd.1 g hg e.symm))
          rw [htail]
          congr 1
          simp only [toFields] at hk
          rw [hk]; simp only [List.lookup_cons, beq_self_eq_true]
          exact hfull c' (.obj ws) hc.1

theorem obj_of_fields (u : Universe) (hu : WFU u) (n : Nat) (hf : Pfields u n) : Pobj u (n + 1) := by
  intro c v hcv
  cases v with
  | num _ => simp [Conf] at hcv
  | null => simp [Conf] at hcv
  | obj vs =>
    simp only [Conf] at hcv
    simp only [toDict, fromDict]
    congr 1
    exact hf _ vs _ hcv (hu c).1 (fun _ _ => rfl)

theorem dict_rt (u : Universe) (hu : WFU u) : ∀ fuel : Nat, Pobj u fuel ∧ Pfields u fuel
 | 0 =>
    have h0 : Pobj u 0 := fun c v h => by cases v <;> simp [Conf] at h
    ⟨h0, fields_of_obj u 0 h0 (full_rt u hu 0).1⟩
 | n + 1 =>
    have ho := obj_of_fields u hu n (dict_rt u hu n).2
    ⟨ho, fields_of_obj u (n + 1) ho (full_rt u hu (n + 1)).1⟩

/-- **C19 (dictionary form)**: rebuilding from the dictionary form reconstructs an equal object, for every field value, every
class universe whose python names are distinct, every nesting depth; elided fields are refilled by exactly their defaults -/
theorem C19_dict (u : Universe) (hu : WFU u) (fuel c : Nat) (v : V) (h : Conf u fuel c v) :
    fromDict u fuel c (toDict u fuel c v) = v :=
  (dict_rt u hu fuel).1 c v h

/-- **C19 (elision)**: a numeric field - scalar or array - equal to its default does not appear in the dictionary (under its python
name, also when renamed); a null reference does not appear either -/
theorem C19_elide (u : Universe) (fuel : Nat) (xo py : String) (dflt : List Int) (fs : List (String × String × FK)) (vs : List V)
    (hd : DistinctPy ((xo, py, .num (some dflt)) :: fs)) :
    (toFields u fuel ((xo, py, .num (some dflt)) :: fs) (.num dflt :: vs)).lookup py = none := by
  simp only [toFields, ↓reduceIte]
  exact toFields_lookup_absent u fuel fs vs py hd.1

/-- a value different from the default is stored under the python name -/
theorem C19_stored (u : Universe) (fuel : Nat) (xo py : String) (dflt x : List Int) (fs : List (String × String × FK)) (vs : List V)
    (hx : x ≠ dflt) :
    (toFields u fuel ((xo, py, .num (some dflt)) :: fs) (.num x :: vs)).lookup py = some (.num x) := by
  have : ¬ (some x = some dflt) := fun h => hx (Option.some.inj h)
  simp [toFields, this]

/-- a field WITHOUT default (an array of dynamic shape) is always stored - also when it is empty (O-33) -/
theorem C19_no_default_stored (u : Universe) (fuel : Nat) (xo py : String) (x : List Int) (fs : List (String × String × FK))
    (vs : List V) :
    (toFields u fuel ((xo, py, .num none) :: fs) (.num x :: vs)).lookup py = some (.num x) := by
  simp [toFields]

/-! ### JSON form -/

theorem toJsonF_lookup_absent : ∀ (fs : List (String × JT)) (vs : List JV) (n : String), (∀ f ∈ fs, f.1 ≠ n) →
    (toJsonF fs vs).lookup n = none
 | [], vs, n, _ => by simp [toJsonF]
 | (m, t) :: fs, [], n, _ => by simp [toJsonF]
 | (m, t) :: fs, v :: vs, n, h => by
    simp only [toJsonF]
    rw [lookup_cons_ne _ _ _ _ (h (m, t) List.mem_cons_self)]
    exact toJsonF_lookup_absent fs vs n (fun f hf => h f (List.mem_cons_of_mem _ hf))

mutual
theorem json_rt : ∀ (t : JT) (v : JV), JWF t → JConf t v → ofJson t (toJson t v) = some v
 | .num, .num v, _, _ => by simp [toJson, ofJson]
 | .str, .str bs, _, _ => by simp [toJson, ofJson]
 | .arr it, .arr items, hw, hc => by
    simp only [toJson, ofJson, json_rtL it items (by simpa [JWF] using hw) (by simpa [JConf] using hc), Option.map_some]
 | .struct fs, .struct vs, hw, hc => by
    simp only [JWF] at hw
    simp only [toJson, ofJson, json_rtF fs vs (toJsonF fs vs) hw.1 hw.2 (by simpa [JConf] using hc) (fun _ _ => rfl), Option.map_some]
 | .num, .str _, _, hc | .num, .arr _, _, hc | .num, .struct _, _, hc => by simp [JConf] at hc
 | .str, .num _, _, hc | .str, .arr _, _, hc | .str, .struct _, _, hc => by simp [JConf] at hc
 | .arr _, .num _, _, hc | .arr _, .str _, _, hc | .arr _, .struct _, _, hc => by simp [JConf] at hc
 | .struct _, .num _, _, hc | .struct _, .str _, _, hc | .struct _, .arr _, _, hc => by simp [JConf] at hc
theorem json_rtL : ∀ (it : JT) (items : List JV), JWF it → JConfL it items → ofJsonL it (toJsonL it items) = some items
 | _, [], _, _ => by simp [toJsonL, ofJsonL]
 | it, v :: vs, hw, hc => by
    simp only [toJsonL, ofJsonL, json_rt it v hw hc.1, json_rtL it vs hw hc.2]
theorem json_rtF : ∀ (fs : List (String × JT)) (vs : List JV) (kv : List (String × J)), DistinctN fs → JWFF fs → JConfF fs vs →
    (∀ f ∈ fs, kv.lookup f.1 = (toJsonF fs vs).lookup f.1) → ofJsonF fs kv = some vs
 | [], [], _, _, _, _, _ => by simp [ofJsonF]
 | (n, t) :: fs, v :: vs, kv, hd, hw, hc, hkv => by
    have hk := hkv (n, t) List.mem_cons_self
    simp only [toJsonF, List.lookup_cons, beq_self_eq_true] at hk
    simp only [ofJsonF, hk, json_rt t v hw.1 hc.1]
    have := json_rtF fs vs kv hd.2 hw.2 hc.2 (by
      intro g hg
      rw [hkv g (List.mem_cons_of_mem _ hg)]
      simp only [toJsonF]
      exact lookup_cons_ne _ _ _ _ (fun e => hd.1 g hg e.symm))
    rw [this]
 | [], _ :: _, _, _, _, hc, _ => by simp [JConfF] at hc
 | _ :: _, [], _, _, _, hc, _ => by simp [JConfF] at hc
end

/-- **C19 (JSON form)**: for reference-free structs and one-dimensional arrays, nested to any depth, constructing the type from
the object's JSON form reproduces the object -/
theorem C19_json (t : JT) (v : JV) (hw : JWF t) (hc : JConf t v) : ofJson t (toJson t v) = some v := json_rt t v hw hc

/-! non-vacuity: Outer {s (py: ess) default 3, inner: Inner, r: Ref[Inner]}, Inner {a default 0, arr: dynamic array, st: static array} -/
example :
    Conf [{ fields := [("a", "a", .num (some [0])), ("arr", "arr", .num none), ("st", "st", .num (some [0, 0]))] },
          { fields := [("s", "ess", .num (some [3])), ("inner", "inner", .obj 0), ("r", "r", .optobj 0)] }]
      2 1 (.obj [.num [3], .obj [.num [7], .num [], .num [0, 0]], .null]) := by
  simp [Conf, ConfF, clsOf]

end DictF

namespace DictF
/-- the dictionary stored for a non-null reference (every field, xobject names) rebuilds the referent -/
theorem C19_full (u : Universe) (hu : WFU u) (fuel c : Nat) (v : V) (h : Conf u fuel c v) :
    fromFull u fuel c (toFull u fuel c v) = v :=
  (full_rt u hu fuel).1 c v h
end DictF
