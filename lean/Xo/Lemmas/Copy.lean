import Xo.Model.Refs
import Xo.Lemmas.LayoutRT
/-! byte copies of written objects (`update_from_xbuffer`): the copy of a region that holds a written object holds the written
object at the destination (used by C09 and by the whole-part assignment theorem of C10) -/
namespace Lay
open MemS

/-- translating a window: applying the same relative patches to two memories whose windows hold the same bytes yields
windows that hold the same bytes -/
theorem apply_translate : ∀ (ps : List Patch) (size : Nat), Within ps 0 size →
    ∀ (m0 m1 : Mem) (src dst : Nat), src + size ≤ m0.length → dst + size ≤ m1.length →
    (∀ i, i < size → m1[dst + i]? = m0[src + i]?) →
    ∀ i, i < size → (apply (shift dst ps) m1)[dst + i]? = (apply (shift src ps) m0)[src + i]?
 | [], _, _, m0, m1, src, dst, _, _, h => by simpa [shift, apply] using h
 | p :: ps, size, hw, m0, m1, src, dst, hs, hd, h => by
    have hp := hw p (List.mem_cons_self)
    have hrest : Within ps 0 size := fun q hq => hw q (List.mem_cons_of_mem _ hq)
    simp only [shift_cons, apply, List.foldl_cons]
    have hl0 := length_writeAt m0 (p.1 + src) p.2 (by omega)
    have hl1 := length_writeAt m1 (p.1 + dst) p.2 (by omega)
    have := apply_translate ps size hrest (writeAt m0 (p.1 + src) p.2) (writeAt m1 (p.1 + dst) p.2) src dst
      (by omega) (by omega) (by
        intro i hi
        rw [getElem?_writeAt m1 _ _ (by omega), getElem?_writeAt m0 _ _ (by omega)]
        by_cases hin : p.1 ≤ i ∧ i < p.1 + p.2.length
        · have c1 : p.1 + dst ≤ dst + i ∧ dst + i < p.1 + dst + p.2.length := by omega
          have c0 : p.1 + src ≤ src + i ∧ src + i < p.1 + src + p.2.length := by omega
          simp only [c1, c0, and_self, ↓reduceIte]
          congr 1; omega
        · have c1 : ¬ (p.1 + dst ≤ dst + i ∧ dst + i < p.1 + dst + p.2.length) := by omega
          have c0 : ¬ (p.1 + src ≤ src + i ∧ src + i < p.1 + src + p.2.length) := by omega
          simp only [c1, c0, ↓reduceIte]
          exact h i hi)
    simpa [apply] using this

/-- the byte copy of a region that holds a written object holds the written object at the destination -/
theorem copy_agree (t : Ty) (v : Val) (hw : t.WF) (hc : Conf t v)
    (m0 : Mem) (src : Nat) (hb0 : src + vsize t v ≤ m0.length) (M : Mem) (hlM : src + vsize t v ≤ M.length)
    (hM : Agree M (apply (shift src (patchesD t v)) m0) src (src + vsize t v))
    (D : Mem) (dst : Nat) (hbD : dst + vsize t v ≤ D.length) :
    ∃ m1 : Mem, m1.length = D.length ∧
      Agree (copyBytes M src (vsize t v) D dst) (apply (shift dst (patchesD t v)) m1) dst (dst + vsize t v) := by
  have hwin := withinD t v hw hc
  have hrl0 : (readAt m0 src (vsize t v)).length = vsize t v := by simp [readAt]; omega
  have hrlM : (readAt M src (vsize t v)).length = vsize t v := by simp [readAt]; omega
  refine ⟨writeAt D dst (readAt m0 src (vsize t v)), length_writeAt D dst _ (by rw [hrl0]; exact hbD), ?_⟩
  have hl1 : (writeAt D dst (readAt m0 src (vsize t v))).length = D.length := length_writeAt D dst _ (by rw [hrl0]; exact hbD)
  intro j hj1 hj2
  obtain ⟨i, rfl⟩ : ∃ i, j = dst + i := ⟨j - dst, by omega⟩
  have hi : i < vsize t v := by omega
  have htr := apply_translate (patchesD t v) (vsize t v) hwin m0 (writeAt D dst (readAt m0 src (vsize t v))) src dst hb0
    (by rw [hl1]; exact hbD)
    (by
      intro k hk
      rw [getElem?_writeAt D dst _ (by rw [hrl0]; exact hbD)]
      have : dst ≤ dst + k ∧ dst + k < dst + (readAt m0 src (vsize t v)).length := by rw [hrl0]; omega
      simp only [this, and_self, ↓reduceIte]
      rw [getElem?_readAt]; simp [hk]) i hi
  rw [htr, ← hM (src + i) (by omega) (by omega)]
  unfold copyBytes
  rw [getElem?_writeAt D dst _ (by rw [hrlM]; exact hbD)]
  have : dst ≤ dst + i ∧ dst + i < dst + (readAt M src (vsize t v)).length := by rw [hrlM]; omega
  simp only [this, and_self, ↓reduceIte]
  rw [getElem?_readAt]; simp [hi]

end Lay
