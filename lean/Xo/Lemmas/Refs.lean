import Xo.Model.Refs
import Xo.Lemmas.Layout
/-! slot-level facts of reference encodings (proofs; the property statements are restated in `Xo/Props/C08.lean`) -/
namespace Lay
open MemS

theorem i64of_i64le (i : Int) (h1 : -(2 ^ 63 : Int) ≤ i) (h2 : i < 2 ^ 63) : i64of (i64le i) = i := by
  unfold i64of i64le
  rw [fromLE_le]
  have hpos : (0 : Int) ≤ i % (2 ^ 64 : Int) := Int.emod_nonneg _ (by decide)
  have hlt : i % (2 ^ 64 : Int) < 2 ^ 64 := Int.emod_lt_of_pos _ (by decide)
  have hn : ((i % (2 ^ 64 : Int)).toNat : Int) = i % (2 ^ 64 : Int) := Int.toNat_of_nonneg hpos
  have hnlt : (i % (2 ^ 64 : Int)).toNat < 256 ^ 8 := by
    have : ((i % (2 ^ 64 : Int)).toNat : Int) < 2 ^ 64 := by rw [hn]; exact hlt
    have h256 : (256 : Nat) ^ 8 = 2 ^ 64 := by decide
    omega
  rw [Nat.mod_eq_of_lt hnlt]
  simp only []
  by_cases hi : 0 ≤ i
  · have : i % (2 ^ 64 : Int) = i := Int.emod_eq_of_lt hi (by omega)
    have hsmall : ¬ (i % (2 ^ 64 : Int)).toNat ≥ 2 ^ 63 := by
      have : ((i % (2 ^ 64 : Int)).toNat : Int) = i := by rw [hn, this]
      omega
    simp only [hsmall, ↓reduceIte]
    rw [hn, this]
  · have hneg : i < 0 := by omega
    have : i % (2 ^ 64 : Int) = i + 2 ^ 64 := by
      have h := Int.emod_emod_of_dvd i (Int.dvd_refl (2 ^ 64 : Int))
      have : (i + 2 ^ 64) % (2 ^ 64 : Int) = i % (2 ^ 64 : Int) := by simp
      rw [← this]; exact Int.emod_eq_of_lt (by omega) (by omega)
    have hbig : (i % (2 ^ 64 : Int)).toNat ≥ 2 ^ 63 := by
      have : ((i % (2 ^ 64 : Int)).toNat : Int) = i + 2 ^ 64 := by rw [hn, this]
      omega
    simp only [hbig, ↓reduceIte]
    rw [hn, this]; omega

theorem i64le_length (i : Int) : (i64le i).length = 8 := by simp [i64le, le_length]

/-- **null**: `None` is stored as `-2^63` and reads back as `None`; for a union reference the member index is `-1` -/
theorem deref_write_null (m : Mem) (slot : Nat) (hb : slot + 8 ≤ m.length) :
    deref (writeAt m slot refNullBytes) slot = none := by
  unfold deref refNullBytes
  have := readAt_writeAt_same m slot (i64le NULLV) (by rw [i64le_length]; exact hb)
  rw [i64le_length] at this
  rw [this, i64of_i64le NULLV (by decide) (by decide)]
  simp

theorem uref_write_null (m : Mem) (slot : Nat) (hb : slot + 16 ≤ m.length) :
    deref (writeAt m slot urefNullBytes) slot = none ∧ memberIdx (writeAt m slot urefNullBytes) slot = -1 := by
  have hl : urefNullBytes.length = 16 := by simp [urefNullBytes, i64le_length]
  have hw := readAt_writeAt_same m slot urefNullBytes (by rw [hl]; exact hb)
  rw [hl] at hw
  have h1 : readAt (writeAt m slot urefNullBytes) slot 8 = i64le NULLV := by
    have := readAt_readAt (writeAt m slot urefNullBytes) slot 16 0 8 (by omega)
    rw [Nat.add_zero] at this
    rw [← this, hw]; simp [urefNullBytes, readAt, i64le_length]
  have h2 : readAt (writeAt m slot urefNullBytes) (slot + 8) 8 = i64le (-1) := by
    have := readAt_readAt (writeAt m slot urefNullBytes) slot 16 8 8 (by omega)
    rw [← this, hw]; simp [urefNullBytes, readAt, i64le_length]
    exact List.take_of_length_le (by rw [i64le_length]; exact Nat.le_refl 8)
  constructor
  · unfold deref; rw [h1, i64of_i64le NULLV (by decide) (by decide)]; simp
  · unfold memberIdx; rw [h2, i64of_i64le (-1) (by decide) (by decide)]

/-- **alias**: binding an object that lives at `target` in the same buffer stores `target - slot`; the reference then denotes
that very address - so every read and write through the reference is a read or write of the original's bytes -/
theorem deref_write_ref (m : Mem) (slot target : Nat) (hb : slot + 8 ≤ m.length) (hs : slot < 2 ^ 62) (ht : target < 2 ^ 62) :
    deref (writeAt m slot (refBytes slot target)) slot = some target := by
  unfold deref refBytes
  have := readAt_writeAt_same m slot (i64le ((target : Int) - (slot : Int))) (by rw [i64le_length]; exact hb)
  rw [i64le_length] at this
  rw [this, i64of_i64le _ (by omega) (by omega)]
  have hne : ((target : Int) - (slot : Int)) ≠ NULLV := by unfold NULLV; omega
  simp only [hne, ↓reduceIte]
  congr 1; omega

theorem uref_write_member (m : Mem) (slot target member : Nat) (hb : slot + 16 ≤ m.length) (hs : slot < 2 ^ 62)
    (ht : target < 2 ^ 62) (hm : member < 2 ^ 62) :
    deref (writeAt m slot (urefBytes slot target member)) slot = some target ∧
    memberIdx (writeAt m slot (urefBytes slot target member)) slot = (member : Int) := by
  have hl : (urefBytes slot target member).length = 16 := by simp [urefBytes, refBytes, i64le_length]
  have hw := readAt_writeAt_same m slot (urefBytes slot target member) (by rw [hl]; exact hb)
  rw [hl] at hw
  have h1 : readAt (writeAt m slot (urefBytes slot target member)) slot 8 = i64le ((target : Int) - (slot : Int)) := by
    have := readAt_readAt (writeAt m slot (urefBytes slot target member)) slot 16 0 8 (by omega)
    rw [Nat.add_zero] at this
    rw [← this, hw]; simp [urefBytes, refBytes, readAt, i64le_length]
  have h2 : readAt (writeAt m slot (urefBytes slot target member)) (slot + 8) 8 = i64le (member : Int) := by
    have := readAt_readAt (writeAt m slot (urefBytes slot target member)) slot 16 8 8 (by omega)
    rw [← this, hw]; simp [urefBytes, refBytes, readAt, i64le_length]
    exact List.take_of_length_le (by rw [i64le_length]; exact Nat.le_refl 8)
  constructor
  · unfold deref
    rw [h1, i64of_i64le _ (by omega) (by omega)]
    have hne : ((target : Int) - (slot : Int)) ≠ NULLV := by unfold NULLV; omega
    simp only [hne, ↓reduceIte]
    congr 1; omega
  · unfold memberIdx; rw [h2, i64of_i64le _ (by omega) (by omega)]

/-- a slot whose 8 bytes are the encoding of `target - slot` denotes `target`, in any memory -/
theorem deref_of_bytes (m : Mem) (slot target : Nat) (hs : slot < 2 ^ 62) (ht : target < 2 ^ 62)
    (h : readAt m slot 8 = refBytes slot target) : deref m slot = some target := by
  unfold deref
  rw [h]
  unfold refBytes
  rw [i64of_i64le _ (by omega) (by omega)]
  have hne : ((target : Int) - (slot : Int)) ≠ NULLV := by unfold NULLV; omega
  simp only [hne, ↓reduceIte]
  congr 1; omega

end Lay
