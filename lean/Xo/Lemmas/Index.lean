import Xo.Model.Index
import Xo.Lemmas.Layout
/-! index order ↔ memory order: for every shape, every axis order that is a permutation of the axes and every valid index
tuple, the stride arithmetic addresses item number `mposL` of the memory-ordered item sequence; `mposL` is in range and
distinct valid tuples have distinct positions. -/
namespace Lay

theorem prod_perm {l₁ l₂ : List Nat} (h : l₁.Perm l₂) : prod l₁ = prod l₂ := by
  induction h with
  | nil => rfl
  | cons x _ ih => simp [prod, ih]
  | swap x y l => simp only [prod]; rw [← Nat.mul_assoc, ← Nat.mul_assoc, Nat.mul_comm y x]
  | trans _ _ ih1 ih2 => exact ih1.trans ih2

/-- `dot` against C strides is `unit` times the C-order position -/
theorem dot_cStrides (unit : Nat) : ∀ (cshape ii : List Nat), ii.length = cshape.length →
    dot ii (cStrides cshape unit) = unit * cposL cshape ii
 | [], [], _ => by simp [dot, cposL]
 | d :: ds, i :: is, h => by
    simp only [dot, cStrides, cposL]
    rw [dot_cStrides unit ds is (by simpa using h), Nat.mul_add, Nat.mul_left_comm]
 | [], _ :: _, h => by simp at h
 | _ :: _, [], h => by simp at h

/-- position in range -/
theorem cposL_lt : ∀ (cshape ii : List Nat), ii.length = cshape.length → (∀ k, k < cshape.length → ii.getD k 0 < cshape.getD k 0) →
    cposL cshape ii < prod cshape
 | [], [], _, _ => by simp [cposL, prod]
 | d :: ds, i :: is, h, hv => by
    simp only [cposL, prod]
    have h0 : i < d := by simpa using hv 0 (by simp)
    have ih := cposL_lt ds is (by simpa using h) (fun k hk => by simpa using hv (k + 1) (by simpa using hk))
    calc i * prod ds + cposL ds is < i * prod ds + prod ds := by omega
      _ = (i + 1) * prod ds := by rw [Nat.succ_mul]
      _ ≤ d * prod ds := Nat.mul_le_mul_right _ h0
 | [], _ :: _, h, _ => by simp at h
 | _ :: _, [], h, _ => by simp at h

/-- mixed-radix positions are injective on valid digits -/
theorem cposL_inj : ∀ (cshape ii jj : List Nat), ii.length = cshape.length → jj.length = cshape.length →
    (∀ k, k < cshape.length → ii.getD k 0 < cshape.getD k 0) → (∀ k, k < cshape.length → jj.getD k 0 < cshape.getD k 0) →
    cposL cshape ii = cposL cshape jj → ii = jj
 | [], [], [], _, _, _, _, _ => rfl
 | d :: ds, i :: is, j :: js, h1, h2, v1, v2, he => by
    simp only [cposL] at he
    have r1 := cposL_lt ds is (by simpa using h1) (fun k hk => by simpa using v1 (k + 1) (by simpa using hk))
    have r2 := cposL_lt ds js (by simpa using h2) (fun k hk => by simpa using v2 (k + 1) (by simpa using hk))
    have hp : 0 < prod ds := by omega
    have hij : i = j := by
      have e1 : (i * prod ds + cposL ds is) / prod ds = i := by
        rw [Nat.mul_comm, Nat.mul_add_div hp, Nat.div_eq_of_lt r1]; simp
      have e2 : (j * prod ds + cposL ds js) / prod ds = j := by
        rw [Nat.mul_comm, Nat.mul_add_div hp, Nat.div_eq_of_lt r2]; simp
      rw [he] at e1; omega
    subst hij
    have : cposL ds is = cposL ds js := by omega
    rw [cposL_inj ds is js (by simpa using h1) (by simpa using h2)
      (fun k hk => by simpa using v1 (k + 1) (by simpa using hk)) (fun k hk => by simpa using v2 (k + 1) (by simpa using hk)) this]
 | [], _ :: _, _, h, _, _, _, _ => by simp at h
 | [], [], _ :: _, _, h, _, _, _ => by simp at h
 | _ :: _, [], _, h, _, _, _, _ => by simp at h
 | _ :: _, _ :: _, [], _, h, _, _, _ => by simp at h

theorem dot_nil_right (l : List Nat) : dot l [] = 0 := by cases l <;> rfl

theorem dot_eq_sum : ∀ (n : Nat) (l1 l2 : List Nat), l1.length = n → l2.length = n →
    dot l1 l2 = ((List.range n).map fun k => l1.getD k 0 * l2.getD k 0).sum
 | 0, [], [], _, _ => by simp [dot]
 | n + 1, a :: l1, b :: l2, h1, h2 => by
    rw [List.range_succ_eq_map]
    simp only [dot, List.map_cons, List.sum_cons, List.getD_cons_zero, List.map_map]
    rw [dot_eq_sum n l1 l2 (by simpa using h1) (by simpa using h2)]
    congr 1
 | 0, _ :: _, _, h, _ => by simp at h
 | 0, [], _ :: _, _, h => by simp at h
 | _ + 1, [], _, h, _ => by simp at h
 | _ + 1, _ :: _, [], _, h => by simp at h

/-- summing `f a * cs[position of a]` over a duplicate-free list is the dot product with `cs` -/
theorem sum_idxOf (f : Nat → Nat) : ∀ (l : List Nat) (cs : List Nat), l.Nodup →
    (l.map fun a => f a * cs.getD (l.idxOf a) 0).sum = dot (l.map f) cs
 | [], cs, _ => by simp [dot]
 | a :: t, [], _ => by
    have : ∀ t : List Nat, (List.map (fun _ => 0) t).sum = 0 := by intro t; induction t <;> simp_all
    simp [dot, this]
 | a :: t, c :: cs, hn => by
    have hnd := List.nodup_cons.mp hn
    simp only [List.map_cons, List.sum_cons, dot, List.idxOf_cons_self, List.getD_cons_zero]
    congr 1
    rw [← sum_idxOf f t cs hnd.2]
    congr 1
    apply List.map_congr_left
    intro b hb
    have hne : a ≠ b := fun h => hnd.1 (h ▸ hb)
    have : (a == b) = false := by simpa using hne
    rw [List.idxOf_cons, this]
    simp

theorem perm_range_nodup {order : List Nat} {n : Nat} (h : order.Perm (List.range n)) : order.Nodup :=
  h.nodup_iff.mpr List.nodup_range

theorem perm_range_mem {order : List Nat} {n : Nat} (h : order.Perm (List.range n)) (ax : Nat) : ax ∈ order ↔ ax < n := by
  rw [h.mem_iff]; simp

/-- **the stride arithmetic addresses the memory position**: for an axis order that is a permutation of the axes and an index
tuple with one index per axis, `Σ idx[ax] * stride[ax]` with the strides of `get_strides(shape, order, unit)` is `unit` times
the memory position of the tuple -/
theorem dot_getStrides (shape order idx : List Nat) (unit : Nat)
    (hperm : order.Perm (List.range shape.length)) (hlen : idx.length = shape.length) :
    dot idx (getStrides shape order unit) = unit * mposL shape order idx := by
  have hol : order.length = shape.length := by simpa using hperm.length_eq
  rw [dot_eq_sum shape.length idx (getStrides shape order unit) hlen (by rw [getStrides_length, hol])]
  unfold mposL
  rw [← dot_cStrides unit _ _ (by simp)]
  rw [← sum_idxOf (fun ax => idx.getD ax 0) order _ (perm_range_nodup hperm)]
  -- both sides are sums of the same function over a permutation of the axes
  have hg : ∀ k ∈ List.range shape.length,
      idx.getD k 0 * (getStrides shape order unit).getD k 0 =
      idx.getD k 0 * (cStrides (order.map fun ax => shape.getD ax 0) unit).getD (order.idxOf k) 0 := by
    intro k hk
    have hk' : k < order.length := by rw [hol]; simpa using hk
    simp [getStrides, List.getD_eq_getElem?_getD, hk']
  rw [List.map_congr_left hg]
  exact ((hperm.symm.map _).sum_nat)

/-- the memory position of a valid index tuple is in range -/
theorem mposL_lt (shape order idx : List Nat) (hperm : order.Perm (List.range shape.length)) (hv : ValidIdx shape idx) :
    mposL shape order idx < prod shape := by
  have hp : prod (order.map fun ax => shape.getD ax 0) = prod shape := by
    have h1 : (order.map fun ax => shape.getD ax 0).Perm ((List.range shape.length).map fun ax => shape.getD ax 0) := hperm.map _
    rw [prod_perm h1]
    congr 1
    apply List.ext_getElem
    · simp
    · intro i h1 h2
      simp only [List.length_map, List.length_range] at h1
      simp [List.getD_eq_getElem?_getD, h1]
  rw [← hp]
  apply cposL_lt _ _ (by simp)
  intro k hk
  simp only [List.length_map] at hk
  have hmem : order[k] ∈ order := List.getElem_mem hk
  have := hv.2 order[k] ((perm_range_mem hperm _).mp hmem)
  simpa [List.getD_eq_getElem?_getD, hk] using this

/-- distinct valid index tuples have distinct memory positions -/
theorem mposL_inj (shape order idx idx' : List Nat) (hperm : order.Perm (List.range shape.length))
    (hv : ValidIdx shape idx) (hv' : ValidIdx shape idx') (h : mposL shape order idx = mposL shape order idx') : idx = idx' := by
  have hdig : ∀ (i : List Nat), ValidIdx shape i → ∀ k, k < (order.map fun ax => shape.getD ax 0).length →
      (order.map fun ax => i.getD ax 0).getD k 0 < (order.map fun ax => shape.getD ax 0).getD k 0 := by
    intro i hi k hk
    simp only [List.length_map] at hk
    have hmem : order[k] ∈ order := List.getElem_mem hk
    have := hi.2 order[k] ((perm_range_mem hperm _).mp hmem)
    simpa [List.getD_eq_getElem?_getD, hk] using this
  have he := cposL_inj _ _ _ (by simp) (by simp) (hdig idx hv) (hdig idx' hv') h
  apply List.ext_getElem (by rw [hv.1, hv'.1])
  intro ax h1 h2
  have hax : ax ∈ order := (perm_range_mem hperm ax).mpr (by rw [← hv.1]; exact h1)
  have := List.map_inj_left.mp he ax hax
  simpa [List.getD_eq_getElem?_getD, h1, h2] using this

end Lay
