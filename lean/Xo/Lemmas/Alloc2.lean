import Xo.Lemmas.Alloc
/-! more allocator lemmas: scan completeness, termination of `allocate`, byte accounting, storage -/
namespace Alloc

theorem sorted_wf {lo cap : Nat} {cs : List Chunk} (h : Sorted lo cs cap) : ∀ c ∈ cs, c.start ≤ c.stop := by
  induction cs generalizing lo with
  | nil => intro c hc; simp at hc
  | cons d ds ih =>
    intro c hc
    obtain ⟨_, h2, _, h4⟩ := h
    rcases List.mem_cons.mp hc with rfl | hm
    · exact h2
    · exact ih h4 c hm

/-- when the scan fails no aligned address fits in any chunk -/
theorem scan_none (size k : Nat) : ∀ (cs : List Chunk), scan size (2^k) cs = none →
    ∀ x, x % 2^k = 0 → ¬ Fits cs x size
 | [], _, x, _, ⟨c, hc, _⟩ => by simp at hc
 | c :: cs, h, x, hx, ⟨d, hd, h1, h2⟩ => by
    simp only [scan] at h
    split at h
    · simp at h
    · rename_i hno
      split at h
      · rename_i hn
        rcases List.mem_cons.mp hd with rfl | hm
        · have := alignUp_least d.start k x hx h1; omega
        · exact scan_none size k cs hn x hx ⟨d, hm, h1, h2⟩
      · simp at h

theorem scan_some_of_fit (size a : Nat) : ∀ (cs : List Chunk),
    (∃ c ∈ cs, alignUp c.start a + size ≤ c.stop) → (scan size a cs).isSome
 | [], h => by obtain ⟨c, hc, _⟩ := h; simp at hc
 | c :: cs, h => by
    simp only [scan]
    split
    · simp
    · rename_i hno
      have : (scan size a cs).isSome := by
        apply scan_some_of_fit
        obtain ⟨d, hd, hfit⟩ := h
        rcases List.mem_cons.mp hd with rfl | hm
        · exact absurd hfit hno
        · exact ⟨d, hm, hfit⟩
      cases hsc : scan size a cs with
      | none => simp [hsc] at this
      | some p => simp

/-- the last free chunk ends at the capacity and starts at or below `b` -/
def LastTouch (cs : List Chunk) (cap b : Nat) : Prop :=
  ∃ l, cs.getLast? = some l ∧ l.stop = cap ∧ l.start ≤ b

theorem growChunks_last_first (cap n : Nat) : ∀ (cs : List Chunk),
    (∀ c ∈ cs, c.start ≤ c.stop ∧ c.stop ≤ cap) → LastTouch (growChunks cap n cs) (cap + n) cap
 | [], _ => ⟨⟨cap, cap + n⟩, by simp [growChunks], rfl, Nat.le_refl _⟩
 | [l], h => by
    have := h l (by simp)
    simp only [growChunks]
    split
    · exact ⟨⟨cap, cap + n⟩, by simp, rfl, Nat.le_refl _⟩
    · exact ⟨⟨l.start, cap + n⟩, by simp, rfl, by simp; omega⟩
 | c :: d :: cs, h => by
    obtain ⟨l, h1, h2, h3⟩ := growChunks_last_first cap n (d :: cs) (fun e he => h e (by simp [he]))
    refine ⟨l, ?_, h2, h3⟩
    simp only [growChunks]
    cases hg : growChunks cap n (d :: cs) with
    | nil => rw [hg] at h1; simp at h1
    | cons e es => rw [hg] at h1; simpa [List.getLast?_cons_cons] using h1

theorem growChunks_last_next (cap n b : Nat) : ∀ (cs : List Chunk),
    LastTouch cs cap b → LastTouch (growChunks cap n cs) (cap + n) b
 | [], h => by obtain ⟨l, h1, _⟩ := h; simp at h1
 | [l], h => by
    obtain ⟨l', h1, h2, h3⟩ := h
    simp at h1; subst h1
    simp only [growChunks]
    split
    · rename_i hne; simp [h2] at hne
    · exact ⟨⟨l.start, cap + n⟩, by simp, rfl, h3⟩
 | c :: d :: cs, h => by
    obtain ⟨l', h1, h2, h3⟩ := h
    have h1' : (d :: cs).getLast? = some l' := by simpa [List.getLast?_cons_cons] using h1
    obtain ⟨l, g1, g2, g3⟩ := growChunks_last_next cap n b (d :: cs) ⟨l', h1', h2, h3⟩
    refine ⟨l, ?_, g2, g3⟩
    simp only [growChunks]
    cases hg : growChunks cap n (d :: cs) with
    | nil => rw [hg] at g1; simp at g1
    | cons e es => rw [hg] at g1; simpa [List.getLast?_cons_cons] using g1

/-- `grow_step` is unset or positive -/
def GrowOK (s : AState) : Prop := s.growStep ≠ some 0

theorem allocF_total_aux (size k : Nat) : ∀ (fuel : Nat) (s : AState) (b : Nat),
    LastTouch s.chunks s.capacity b → b ≤ s.capacity → size + 2^k - 1 ≤ s.capacity → GrowOK s →
    b + (size + 2^k - 1) - s.capacity < fuel → (allocF fuel s size (2^k)).isSome
 | 0, _, _, _, _, _, _, h => by omega
 | fuel+1, s, b, hl, hb, hsz, hg, hf => by
    simp only [allocF]
    cases hsc : scan size (2^k) s.chunks with
    | some p => simp
    | none =>
      simp only
      obtain ⟨l, l1, l2, l3⟩ := hl
      have hmem : l ∈ s.chunks := List.mem_of_getLast? l1
      have hnofit : ¬ (alignUp l.start (2^k) + size ≤ l.stop) := by
        intro hfit
        have := scan_some_of_fit size (2^k) s.chunks ⟨l, hmem, hfit⟩
        simp [hsc] at this
      have hlt := alignUp_lt l.start k
      have hp : 0 < 2^k := Nat.two_pow_pos k
      have hneed : 1 ≤ b + (size + 2^k - 1) - s.capacity := by omega
      have hm : growAmount s size (2^k) = (match s.growStep with | some g => g | none => s.capacity) := by
        unfold growAmount; simp only; split
        · omega
        · rfl
      apply allocF_total_aux size k fuel (grow s (growAmount s size (2^k))) b
      · exact growChunks_last_next s.capacity _ b s.chunks ⟨l, l1, l2, l3⟩
      · simp [grow]; omega
      · simp [grow]; omega
      · exact hg
      · simp only [grow]
        rw [hm]
        cases hgs : s.growStep with
        | none => simp only; omega
        | some g =>
          simp only
          have : g ≠ 0 := by intro h0; apply hg; rw [hgs, h0]
          omega

/-- `allocate` always returns: `size + alignment + 1` rounds are never exhausted -/
theorem allocF_total (size k : Nat) (s : AState) (hwf : WF s) (hg : GrowOK s) :
    (allocF (size + 2^k + 1) s size (2^k)).isSome := by
  have hp : 0 < 2^k := Nat.two_pow_pos k
  simp only [allocF]
  cases hsc : scan size (2^k) s.chunks with
  | some p => simp
  | none =>
    simp only
    have hb : ∀ c ∈ s.chunks, c.start ≤ c.stop ∧ c.stop ≤ s.capacity := by
      intro c hc
      have h1 := sorted_lower hwf c hc
      have h2 := sorted_wf hwf c hc
      exact ⟨h2, h1.2⟩
    have hl := growChunks_last_first s.capacity (growAmount s size (2^k)) s.chunks hb
    apply allocF_total_aux size k (size + 2^k) (grow s (growAmount s size (2^k))) s.capacity hl
    · simp [grow]
    · simp only [grow, growAmount]; split <;> omega
    · exact hg
    · simp only [grow, growAmount]; split
      · omega
      · cases hgs : s.growStep with
        | none => simp only; omega
        | some g => simp only; omega

/-! ### accounting -/

def total (cs : List Chunk) : Nat := (cs.map fun c => c.stop - c.start).sum

theorem scan_total (size k : Nat) : ∀ (cs : List Chunk) (o : Nat) (cs' : List Chunk),
    scan size (2^k) cs = some (o, cs') →
    ∃ pad, pad < 2^k ∧ total cs = total cs' + size + pad
 | [], _, _, h => by simp [scan] at h
 | c :: cs, o, cs', h => by
    simp only [scan] at h
    have hge := alignUp_ge c.start k
    have hlt := alignUp_lt c.start k
    split at h
    · rename_i hfit
      simp only [Option.some.injEq, Prod.mk.injEq] at h
      obtain ⟨rfl, rfl⟩ := h
      refine ⟨alignUp c.start (2^k) - c.start, by omega, ?_⟩
      split
      · simp [total]; omega
      · simp [total]; omega
    · split at h
      · simp at h
      · rename_i o1 cs1 heq
        simp only [Option.some.injEq, Prod.mk.injEq] at h
        obtain ⟨rfl, rfl⟩ := h
        obtain ⟨pad, h1, h2⟩ := scan_total size k cs o1 cs1 heq
        refine ⟨pad, h1, ?_⟩
        simp only [total, List.map_cons, List.sum_cons] at *
        omega

theorem growChunks_total (cap n : Nat) : ∀ (cs : List Chunk),
    (∀ c ∈ cs, c.start ≤ c.stop ∧ c.stop ≤ cap) → total (growChunks cap n cs) = total cs + n
 | [], _ => by simp [growChunks, total]
 | [l], h => by
    have := h l (by simp)
    simp only [growChunks]
    split
    · simp [total]
    · rename_i he
      have : l.stop = cap := by simpa using he
      simp [total]; omega
 | c :: d :: cs, h => by
    have ih := growChunks_total cap n (d :: cs) (fun e he => h e (by simp [he]))
    simp only [growChunks, total, List.map_cons, List.sum_cons] at *
    omega

/-- number of `x < n` that are free -/
def cnt (cs : List Chunk) : Nat → Nat
 | 0 => 0
 | n+1 => cnt cs n + (if ∃ c ∈ cs, c.start ≤ n ∧ n < c.stop then 1 else 0)

theorem cnt_congr (cs cs' : List Chunk) : ∀ n, (∀ x, InFree cs x ↔ InFree cs' x) → cnt cs n = cnt cs' n
 | 0, _ => rfl
 | n+1, h => by
    have hn := h n
    unfold InFree at hn
    simp only [cnt, cnt_congr cs cs' n h]
    by_cases hx : ∃ c ∈ cs, c.start ≤ n ∧ n < c.stop
    · rw [if_pos hx, if_pos (hn.mp hx)]
    · rw [if_neg hx, if_neg (fun h' => hx (hn.mpr h'))]

/-- adding a region `[off, off+size)` that holds no free byte adds `size` to the count -/
theorem cnt_add (cs cs' : List Chunk) (off size : Nat)
    (hiff : ∀ x, InFree cs' x ↔ (InFree cs x ∨ (off ≤ x ∧ x < off + size)))
    (hdis : ∀ x, off ≤ x → x < off + size → ¬ InFree cs x) :
    ∀ n, cnt cs' n = cnt cs n + (min n (off + size) - min n off)
 | 0 => by simp [cnt]
 | n+1 => by
    have hn := hiff n
    have hd := hdis n
    unfold InFree at hn hd
    simp only [cnt, cnt_add cs cs' off size hiff hdis n]
    by_cases hx : ∃ c ∈ cs, c.start ≤ n ∧ n < c.stop
    · have hx' := hn.mpr (Or.inl hx)
      rw [if_pos hx, if_pos hx']
      have : ¬ (off ≤ n ∧ n < off + size) := fun h => hd h.1 h.2 hx
      omega
    · rw [if_neg hx]
      by_cases hr : off ≤ n ∧ n < off + size
      · rw [if_pos (hn.mpr (Or.inr hr))]; omega
      · rw [if_neg (fun h' => by rcases hn.mp h' with h1 | h1; exact hx h1; exact hr h1)]; omega

theorem cnt_nil : ∀ n, cnt [] n = 0
 | 0 => rfl
 | n+1 => by simp [cnt, cnt_nil n]

/-- on a well-formed free list the sum of chunk sizes is the number of free bytes -/
theorem cnt_sorted : ∀ (cs : List Chunk) (lo cap n : Nat), Sorted lo cs cap → cap ≤ n → cnt cs n = total cs
 | [], _, _, n, _, _ => by simp [cnt_nil, total]
 | c :: cs, lo, cap, n, ⟨h1, h2, h3, h4⟩, hn => by
    have ih := cnt_sorted cs (c.stop + 1) cap n h4 hn
    have hlow := sorted_lower h4
    have := cnt_add cs (c :: cs) c.start (c.stop - c.start)
      (by intro x; rw [inFree_cons]; constructor
          · rintro (h | h); exact Or.inr ⟨h.1, by omega⟩; exact Or.inl h
          · rintro (h | h); exact Or.inr h; exact Or.inl ⟨h.1, by omega⟩)
      (by intro x x1 x2 ⟨d, hd, d1, d2⟩; have := hlow d hd; omega) n
    rw [this, ih]
    simp only [total, List.map_cons, List.sum_cons]
    omega

/-! ### storage -/

theorem Buf.grow_a (b : Buf) (n : Nat) : (b.grow n).a = Alloc.grow b.a n := rfl

theorem Buf.allocF_a : ∀ (fuel : Nat) (b : Buf) (size a : Nat),
    (Buf.allocF fuel b size a).map (fun p => (p.1, p.2.a)) = Alloc.allocF fuel b.a size a
 | 0, _, _, _ => rfl
 | fuel+1, b, size, a => by
    simp only [Buf.allocF, Alloc.allocF]
    cases scan size a b.a.chunks with
    | some p => rfl
    | none => simp only; rw [Buf.allocF_a fuel (b.grow _) size a]; rfl

/-- storage invariant: one byte per unit of capacity -/
def Buf.MemOK (b : Buf) : Prop := b.mem.length = b.a.capacity

theorem Buf.grow_mem (b : Buf) (n : Nat) (h : b.MemOK) :
    (b.grow n).MemOK ∧ ∀ i, i < b.a.capacity → (b.grow n).mem[i]? = b.mem[i]? := by
  unfold Buf.MemOK at *
  constructor
  · simp [Buf.grow, Alloc.grow, h]
  · intro i hi
    simp only [Buf.grow]
    rw [List.getElem?_append_left (by simp [h]; omega)]
    rw [List.getElem?_take]; simp [hi]

theorem Buf.allocF_mem : ∀ (fuel : Nat) (b : Buf) (size a o : Nat) (b' : Buf), b.MemOK →
    Buf.allocF fuel b size a = some (o, b') →
    b'.MemOK ∧ ∀ i, i < b.a.capacity → b'.mem[i]? = b.mem[i]?
 | 0, _, _, _, _, _, _, h => by simp [Buf.allocF] at h
 | fuel+1, b, size, a, o, b', hm, h => by
    simp only [Buf.allocF] at h
    split at h
    · simp only [Option.some.injEq, Prod.mk.injEq] at h
      obtain ⟨_, rfl⟩ := h
      exact ⟨hm, fun _ _ => rfl⟩
    · obtain ⟨g1, g2⟩ := Buf.grow_mem b (growAmount b.a size a) hm
      obtain ⟨r1, r2⟩ := Buf.allocF_mem fuel _ size a o b' g1 h
      refine ⟨r1, fun i hi => ?_⟩
      rw [r2 i (by simp [Buf.grow, Alloc.grow]; omega), g2 i hi]

end Alloc
