import Xo.Model.Alloc
/-! helper lemmas about the allocator model (no property statements here) -/
namespace Alloc



theorem alignUp_pow2 (o k : Nat) : alignUp o (2^k) = (o + 2^k - 1) / 2^k * 2^k := by
  unfold alignUp
  simp only [Nat.and_two_pow_sub_one_eq_mod]
  have := Nat.div_add_mod (o + 2^k - 1) (2^k)
  have h2 : (o + 2 ^ k - 1) / 2 ^ k * 2 ^ k = 2 ^ k * ((o + 2 ^ k - 1) / 2 ^ k) := Nat.mul_comm _ _
  omega
theorem alignUp_ge (o k : Nat) : o ≤ alignUp o (2^k) := by
  rw [alignUp_pow2]
  have hp : 0 < 2^k := Nat.two_pow_pos k
  have := Nat.div_add_mod (o + 2^k - 1) (2^k)
  have := Nat.mod_lt (o + 2^k - 1) hp
  have h2 : (o + 2 ^ k - 1) / 2 ^ k * 2 ^ k = 2 ^ k * ((o + 2 ^ k - 1) / 2 ^ k) := Nat.mul_comm _ _
  omega
theorem alignUp_lt (o k : Nat) : alignUp o (2^k) < o + 2^k := by
  rw [alignUp_pow2]
  have hp : 0 < 2^k := Nat.two_pow_pos k
  have := Nat.div_add_mod (o + 2^k - 1) (2^k)
  have h2 : (o + 2 ^ k - 1) / 2 ^ k * 2 ^ k = 2 ^ k * ((o + 2 ^ k - 1) / 2 ^ k) := Nat.mul_comm _ _
  omega
theorem alignUp_dvd (o k : Nat) : alignUp o (2^k) % 2^k = 0 := by
  rw [alignUp_pow2]; exact Nat.mul_mod_left _ _
/-- alignUp is the least multiple of 2^k that is ≥ o -/
theorem alignUp_least (o k x : Nat) (hx : x % 2^k = 0) (hge : o ≤ x) : alignUp o (2^k) ≤ x := by
  have hp : 0 < 2^k := Nat.two_pow_pos k
  have hlt := alignUp_lt o k
  have hd := alignUp_dvd o k
  -- two multiples of 2^k, a = alignUp < o + 2^k ≤ x + 2^k
  have h1 := Nat.div_add_mod x (2^k)
  have h2 := Nat.div_add_mod (alignUp o (2^k)) (2^k)
  rw [hx] at h1; rw [hd] at h2
  by_cases h : alignUp o (2^k) ≤ x
  · exact h
  · exfalso
    have hlt2 : x < alignUp o (2^k) := by omega
    have : x / 2^k < alignUp o (2^k) / 2^k := by
      apply Nat.lt_of_mul_lt_mul_left (a := 2^k); omega
    have : 2^k * (x / 2^k + 1) ≤ 2^k * (alignUp o (2^k) / 2^k) := Nat.mul_le_mul_left _ this
    rw [Nat.mul_add, Nat.mul_one] at this
    omega


/-- chunks sorted, well-formed, separated (never touching), all inside [lo, cap] -/
def Sorted : Nat → List Chunk → Nat → Prop
 | lo, [], cap => lo ≤ cap + 1
 | lo, c :: cs, cap => lo ≤ c.start ∧ c.start ≤ c.stop ∧ c.stop ≤ cap ∧ Sorted (c.stop + 1) cs cap

def Fits (cs : List Chunk) (x n : Nat) : Prop := ∃ c ∈ cs, c.start ≤ x ∧ x + n ≤ c.stop
def InFree (cs : List Chunk) (x : Nat) : Prop := ∃ c ∈ cs, c.start ≤ x ∧ x < c.stop

theorem sorted_mono {lo lo' cap : Nat} {cs : List Chunk} (h : Sorted lo cs cap) (hl : lo' ≤ lo) : Sorted lo' cs cap := by
  cases cs with
  | nil => simp [Sorted] at *; omega
  | cons c cs => obtain ⟨a, b, c', d⟩ := h; exact ⟨by omega, b, c', d⟩

theorem sorted_lower {lo cap : Nat} {cs : List Chunk} (h : Sorted lo cs cap) : ∀ c ∈ cs, lo ≤ c.start ∧ c.stop ≤ cap := by
  induction cs generalizing lo with
  | nil => intro c hc; simp at hc
  | cons d ds ih =>
    intro c hc
    obtain ⟨h1, h2, h3, h4⟩ := h
    rcases List.mem_cons.mp hc with rfl | hm
    · omega
    · have := ih h4 c hm; omega

/-- scan: the result is aligned, it fits in the old free list, it is the least aligned address that fits,
    the new free list is sorted and is exactly the old one minus [o, o+size) minus the skipped padding -/
theorem scan_spec (size k : Nat) : ∀ (cs : List Chunk) (lo cap o : Nat) (cs' : List Chunk),
    Sorted lo cs cap → scan size (2^k) cs = some (o, cs') →
    Sorted lo cs' cap ∧ o % 2^k = 0 ∧ Fits cs o size ∧
    (∀ x, x % 2^k = 0 → Fits cs x size → o ≤ x) ∧
    (∀ x, InFree cs' x → InFree cs x ∧ ¬ (o ≤ x ∧ x < o + size))
 | [], _, _, _, _, _, h => by simp [scan] at h
 | c :: cs, lo, cap, o, cs', hs, h => by
    simp only [scan] at h
    obtain ⟨h1, h2, h3, h4⟩ := hs
    have hge := alignUp_ge c.start k
    split at h
    · rename_i hfit
      simp only [Option.some.injEq, Prod.mk.injEq] at h
      obtain ⟨ho, hcs⟩ := h
      subst ho
      refine ⟨?_, alignUp_dvd _ _, ⟨c, by simp, hge, hfit⟩, ?_, ?_⟩
      · subst hcs; split
        · exact sorted_mono h4 (by omega)
        · exact ⟨by simp; omega, by simp; omega, by simpa using h3, h4⟩
      · intro x hx ⟨d, hd, hd1, hd2⟩
        rcases List.mem_cons.mp hd with rfl | hm
        · exact alignUp_least _ _ _ hx hd1
        · have := sorted_lower h4 d hm; omega
      · intro x hx
        subst hcs
        split at hx
        · obtain ⟨d, hd, hd1, hd2⟩ := hx
          have := sorted_lower h4 d hd
          exact ⟨⟨d, by simp [hd], hd1, hd2⟩, by omega⟩
        · obtain ⟨d, hd, hd1, hd2⟩ := hx
          rcases List.mem_cons.mp hd with rfl | hm
          · simp at hd1 hd2
            exact ⟨⟨c, by simp, by omega, hd2⟩, by omega⟩
          · have := sorted_lower h4 d hm
            exact ⟨⟨d, by simp [hm], hd1, hd2⟩, by omega⟩
    · rename_i hnofit
      split at h
      · simp at h
      · rename_i o1 cs1 heq
        simp only [Option.some.injEq, Prod.mk.injEq] at h
        obtain ⟨ho, hcs⟩ := h
        subst ho; subst hcs
        obtain ⟨r1, r2, r3, r4, r5⟩ := scan_spec size k cs (c.stop + 1) cap o1 cs1 h4 heq
        refine ⟨⟨h1, h2, h3, r1⟩, r2, ?_, ?_, ?_⟩
        · obtain ⟨d, hd, x1, x2⟩ := r3; exact ⟨d, by simp [hd], x1, x2⟩
        · intro x hx ⟨d, hd, hd1, hd2⟩
          rcases List.mem_cons.mp hd with rfl | hm
          · exfalso
            have := alignUp_least _ _ _ hx hd1
            omega
          · exact r4 x hx ⟨d, hm, hd1, hd2⟩
        · intro x ⟨d, hd, hd1, hd2⟩
          rcases List.mem_cons.mp hd with rfl | hm
          · refine ⟨⟨d, by simp, hd1, hd2⟩, ?_⟩
            obtain ⟨e, he, e1, e2⟩ := r3
            have := sorted_lower h4 e he
            omega
          · obtain ⟨q1, q2⟩ := r5 x ⟨d, hm, hd1, hd2⟩
            obtain ⟨e, he, e1, e2⟩ := q1
            exact ⟨⟨e, by simp [he], e1, e2⟩, q2⟩





/-- sorted by start only (overlaps and touching allowed), every chunk well formed and below cap -/
def ByStart : Nat → List Chunk → Nat → Prop
 | _, [], _ => True
 | lo, c :: cs, cap => lo ≤ c.start ∧ c.start ≤ c.stop ∧ c.stop ≤ cap ∧ ByStart c.start cs cap

theorem byStart_mono {lo lo' cap : Nat} {cs : List Chunk} (h : ByStart lo cs cap) (hl : lo' ≤ lo) : ByStart lo' cs cap := by
  cases cs with
  | nil => trivial
  | cons c cs => obtain ⟨a, b, c', d⟩ := h; exact ⟨by omega, b, c', d⟩

theorem sorted_byStart {lo cap : Nat} {cs : List Chunk} (h : Sorted lo cs cap) : ByStart lo cs cap := by
  induction cs generalizing lo with
  | nil => trivial
  | cons c cs ih =>
    obtain ⟨a, b, c', d⟩ := h
    exact ⟨a, b, c', byStart_mono (ih d) (by omega)⟩

theorem insert_byStart (n : Chunk) (cap : Nat) (hn : n.start ≤ n.stop) (hc : n.stop ≤ cap) :
    ∀ (cs : List Chunk) (lo : Nat), lo ≤ n.start → ByStart lo cs cap → ByStart lo (insertSorted n cs) cap
 | [], lo, hl, _ => ⟨hl, hn, hc, trivial⟩
 | c :: cs, lo, hl, ⟨a, b, c', d⟩ => by
    simp only [insertSorted]
    split
    · rename_i hle
      exact ⟨hl, hn, hc, hle, b, c', d⟩
    · rename_i hgt
      exact ⟨a, b, c', insert_byStart n cap hn hc cs c.start (by omega) d⟩

theorem inFree_cons (c : Chunk) (cs : List Chunk) (x : Nat) :
    InFree (c :: cs) x ↔ (c.start ≤ x ∧ x < c.stop) ∨ InFree cs x := by
  simp [InFree]

/-- interval merging: from a by-start-sorted list the loop produces a separated sorted list with the same bytes -/
theorem mergeFrom_spec (cap : Nat) : ∀ (rest : List Chunk) (p : Chunk) (lo : Nat),
    lo ≤ p.start → p.start ≤ p.stop → p.stop ≤ cap → ByStart p.start rest cap →
    Sorted lo (mergeFrom p rest) cap ∧ (∀ x, InFree (mergeFrom p rest) x ↔ InFree (p :: rest) x) ∧
    (∀ c ∈ mergeFrom p rest, p.start ≤ c.start)
 | [], p, lo, h1, h2, h3, _ => by
    refine ⟨?_, ?_, ?_⟩
    · refine ⟨h1, h2, h3, ?_⟩
      show p.stop + 1 ≤ cap + 1
      omega
    · intro x; simp [mergeFrom]
    · intro c hc; simp [mergeFrom] at hc; subst hc; exact Nat.le_refl _
 | c :: cs, p, lo, h1, h2, h3, ⟨a, b, c', d⟩ => by
    simp only [mergeFrom]
    split
    · rename_i hov
      have hmin : min p.start c.start = p.start := Nat.min_eq_left a
      obtain ⟨r1, r2, r3⟩ := mergeFrom_spec cap cs ⟨min p.start c.start, max p.stop c.stop⟩ lo
        (by simp [hmin]; exact h1) (by simp [hmin]; omega) (by simp; omega)
        (by simp [hmin]; exact byStart_mono d a)
      refine ⟨r1, ?_, ?_⟩
      · intro x
        rw [r2 x, inFree_cons, inFree_cons, inFree_cons]
        simp only [hmin]
        constructor
        · rintro (⟨x1, x2⟩ | h)
          · by_cases hx : x < p.stop
            · exact Or.inl ⟨x1, hx⟩
            · exact Or.inr (Or.inl ⟨by omega, by omega⟩)
          · exact Or.inr (Or.inr h)
        · rintro (⟨x1, x2⟩ | ⟨x1, x2⟩ | h)
          · exact Or.inl ⟨x1, by omega⟩
          · exact Or.inl ⟨by omega, by omega⟩
          · exact Or.inr h
      · intro e he; have := r3 e he; simpa [hmin] using this
    · rename_i hno
      have hsep : p.stop < c.start := by omega
      obtain ⟨r1, r2, r3⟩ := mergeFrom_spec cap cs c (p.stop + 1) (by omega) b c' d
      refine ⟨⟨h1, h2, h3, r1⟩, ?_, ?_⟩
      · intro x
        rw [inFree_cons, r2 x, inFree_cons p (c :: cs)]
      · intro e he
        rcases List.mem_cons.mp he with rfl | hm
        · exact Nat.le_refl _
        · have := r3 e hm; omega

theorem insert_inFree (cs : List Chunk) (off size : Nat) :
    ∀ x, InFree (insertSorted ⟨off, off + size⟩ cs) x ↔ (InFree cs x ∨ (off ≤ x ∧ x < off + size)) := by
  intro x
  induction cs with
  | nil => simp [insertSorted, InFree]
  | cons c cs ih =>
    simp only [insertSorted]
    split
    · rw [inFree_cons]; simp only; constructor
      · rintro (h | h); exact Or.inr h; exact Or.inl h
      · rintro (h | h); exact Or.inr h; exact Or.inl h
    · rw [inFree_cons, ih, inFree_cons]
      constructor
      · rintro (h | h | h); exact Or.inl (Or.inl h); exact Or.inl (Or.inr h); exact Or.inr h
      · rintro ((h | h) | h); exact Or.inl h; exact Or.inr (Or.inl h); exact Or.inr (Or.inr h)

/-- on a by-start-sorted list the code's insertion (fast path, then the loop) is sorted insertion -/
theorem byStart_last {lo cap : Nat} : ∀ {cs : List Chunk} {l : Chunk}, ByStart lo cs cap → cs.getLast? = some l →
    ∀ c ∈ cs, c.start ≤ l.start
 | [], _, _, h => by simp at h
 | [d], l, _, h => by
    simp at h; subst h; intro c hc; simp at hc; subst hc; exact Nat.le_refl _
 | d :: e :: cs, l, ⟨_, _, _, h4⟩, h => by
    have hl : (e :: cs).getLast? = some l := by simpa [List.getLast?_cons_cons] using h
    have ih := byStart_last h4 hl
    intro c hc
    rcases List.mem_cons.mp hc with rfl | hm
    · have := ih e (by simp); have := h4.1; omega
    · exact ih c hm

theorem insertLoop_eq (n : Chunk) : ∀ (cs : List Chunk), (∃ c ∈ cs, n.start ≤ c.start) →
    insertLoop n cs = insertSorted n cs
 | [], h => by obtain ⟨c, hc, _⟩ := h; simp at hc
 | d :: cs, h => by
    simp only [insertLoop, insertSorted]
    split
    · rfl
    · rename_i hgt
      congr 1
      apply insertLoop_eq
      obtain ⟨c, hc, hle⟩ := h
      rcases List.mem_cons.mp hc with rfl | hm
      · omega
      · exact ⟨c, hm, hle⟩

theorem insertSorted_append (n : Chunk) : ∀ (cs : List Chunk), (∀ c ∈ cs, c.start < n.start) →
    insertSorted n cs = cs ++ [n]
 | [], _ => rfl
 | d :: cs, h => by
    simp only [insertSorted]
    have := h d (by simp)
    split
    · omega
    · simp; exact insertSorted_append n cs (fun c hc => h c (by simp [hc]))

theorem insertPy_eq {lo cap : Nat} (n : Chunk) (cs : List Chunk) (hb : ByStart lo cs cap) :
    insertPy n cs = insertSorted n cs := by
  unfold insertPy
  cases hl : cs.getLast? with
  | none => have : cs = [] := by simpa using hl
            subst this; rfl
  | some l =>
    simp only
    have hall := byStart_last hb hl
    have hmem : l ∈ cs := List.mem_of_getLast? hl
    split
    · rename_i hgt
      exact (insertSorted_append n cs (fun c hc => by have := hall c hc; omega)).symm
    · rename_i hle
      exact insertLoop_eq n cs ⟨l, hmem, by omega⟩

/-- `free` of a region inside [lo, cap]: still sorted/separated, and the free bytes are the old ones plus exactly the region -/
theorem free_spec (cs : List Chunk) (lo cap off size : Nat) (hs : Sorted lo cs cap) (hlo : lo ≤ off) (hcap : off + size ≤ cap) :
    Sorted lo (freeChunks cs off size) cap ∧
    ∀ x, InFree (freeChunks cs off size) x ↔ (InFree cs x ∨ (off ≤ x ∧ x < off + size)) := by
  have hb := insert_byStart ⟨off, off + size⟩ cap (by simp) (by simpa using hcap) cs lo hlo (sorted_byStart hs)
  have hmem := insert_inFree cs off size
  unfold freeChunks
  rw [insertPy_eq _ _ (sorted_byStart hs)]
  cases hins : insertSorted ⟨off, off + size⟩ cs with
  | nil => cases cs <;> simp [insertSorted] at hins <;> split at hins <;> simp at hins
  | cons p rest =>
    rw [hins] at hb hmem
    obtain ⟨a, b, c', d⟩ := hb
    obtain ⟨r1, r2, _⟩ := mergeFrom_spec cap rest p lo a b c' d
    exact ⟨r1, fun x => (r2 x).trans (hmem x)⟩

theorem sorted_cap_mono {lo cap cap' : Nat} {cs : List Chunk} (h : Sorted lo cs cap) (hc : cap ≤ cap') : Sorted lo cs cap' := by
  induction cs generalizing lo with
  | nil => simp [Sorted] at *; omega
  | cons c cs ih => obtain ⟨a, b, c', d⟩ := h; exact ⟨a, b, by omega, ih d⟩

theorem grow_spec (cap n : Nat) : ∀ (cs : List Chunk) (lo : Nat), lo ≤ cap → Sorted lo cs cap →
    Sorted lo (growChunks cap n cs) (cap + n) ∧
    ∀ x, InFree (growChunks cap n cs) x ↔ (InFree cs x ∨ (cap ≤ x ∧ x < cap + n))
 | [], lo, hl, _ => by
    refine ⟨⟨hl, by simp, by simp, by simp [Sorted]⟩, ?_⟩
    intro x; simp [growChunks, InFree]
 | [l], lo, hl, ⟨a, b, c, _⟩ => by
    simp only [growChunks]
    split
    · rename_i hne
      have hlt : l.stop < cap := by
        have : l.stop ≠ cap := by simpa using hne
        omega
      refine ⟨⟨a, b, by omega, by simp; omega, by simp, by simp, by simp [Sorted]⟩, ?_⟩
      intro x; simp [InFree]
    · rename_i he
      have heq : l.stop = cap := by simpa using he
      refine ⟨⟨a, by simp; omega, by simp, by simp [Sorted]⟩, ?_⟩
      intro x; simp [InFree]; omega
 | c :: d :: cs, lo, hl, ⟨a, b, c', h⟩ => by
    have hd := sorted_lower h d (by simp)
    have hd2 : d.start ≤ d.stop := h.2.1
    obtain ⟨r1, r2⟩ := grow_spec cap n (d :: cs) (c.stop + 1) (by omega) h
    simp only [growChunks]
    refine ⟨⟨a, b, by omega, r1⟩, ?_⟩
    intro x
    rw [inFree_cons, r2 x, inFree_cons c (d :: cs)]
    constructor
    · rintro (h | h | h); exact Or.inl (Or.inl h); exact Or.inl (Or.inr h); exact Or.inr h
    · rintro ((h | h) | h); exact Or.inl h; exact Or.inr (Or.inl h); exact Or.inr (Or.inr h)





def WF (s : AState) : Prop := Sorted 0 s.chunks s.capacity

/-- what one successful allocate guarantees, whatever number of growth rounds it took -/
theorem allocF_spec (size k : Nat) : ∀ (fuel : Nat) (s : AState) (o : Nat) (s' : AState), WF s →
    allocF fuel s size (2^k) = some (o, s') →
    WF s' ∧ s.capacity ≤ s'.capacity ∧ o % 2^k = 0 ∧ o + size ≤ s'.capacity ∧
    (∀ x, o ≤ x → x < o + size → (InFree s.chunks x ∨ s.capacity ≤ x)) ∧
    (∀ x, InFree s'.chunks x → (InFree s.chunks x ∨ s.capacity ≤ x) ∧ ¬ (o ≤ x ∧ x < o + size))
 | 0, _, _, _, _, h => by simp [allocF] at h
 | fuel+1, s, o, s', hwf, h => by
    simp only [allocF] at h
    split at h
    · rename_i o1 cs1 heq
      simp only [Option.some.injEq, Prod.mk.injEq] at h
      obtain ⟨rfl, rfl⟩ := h
      obtain ⟨r1, r2, r3, r4, r5⟩ := scan_spec size k s.chunks 0 s.capacity o1 cs1 hwf heq
      obtain ⟨c, hc, c1, c2⟩ := r3
      have hcb := sorted_lower hwf c hc
      refine ⟨r1, Nat.le_refl _, r2, by simp; omega, ?_, ?_⟩
      · intro x x1 x2; exact Or.inl ⟨c, hc, by omega, by omega⟩
      · intro x hx; have := r5 x hx; exact ⟨Or.inl this.1, this.2⟩
    · rename_i hnone
      have hg := grow_spec s.capacity (growAmount s size (2^k)) s.chunks 0 (Nat.zero_le _) hwf
      have := allocF_spec size k fuel (grow s (growAmount s size (2^k))) o s' hg.1 h
      obtain ⟨q1, q2, q3, q4, q5, q6⟩ := this
      simp only [grow] at q2 q5 q6
      refine ⟨q1, by omega, q3, q4, ?_, ?_⟩
      · intro x x1 x2
        rcases q5 x x1 x2 with h' | h'
        · rcases (hg.2 x).mp h' with h'' | h''
          · exact Or.inl h''
          · exact Or.inr h''.1
        · exact Or.inr (by omega)
      · intro x hx
        obtain ⟨e1, e2⟩ := q6 x hx
        refine ⟨?_, e2⟩
        rcases e1 with h' | h'
        · rcases (hg.2 x).mp h' with h'' | h''
          · exact Or.inl h''
          · exact Or.inr h''.1
        · exact Or.inr (by omega)

end Alloc
