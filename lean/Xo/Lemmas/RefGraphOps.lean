import Xo.Lemmas.RefGraph
/-! every operation of the reference graph keeps the invariant -/
namespace RG
open MemS Lay Alloc

theorem live_addr_lt {u : Univ} {s : St} (hi : Inv u s) {e : Ent} (he : e ∈ s.live) : e.addr + e.size < 2 ^ 62 := by
  have := hi.a.inb (e.addr, e.size) (List.mem_map.mpr ⟨e, he, rfl⟩)
  have := hi.cap
  simp only at *; omega

/-- the buffer changes (allocation, growth) but every live region keeps its bytes; `news` are handed out in addition -/
theorem inv_extend {u : Univ} {s : St} (hi : Inv u s) (b' : Buf) (news : List Ent)
    (ha : Alloc.Inv b'.a (regions ⟨b', news ++ s.live⟩))
    (hm : b'.MemOK) (hcap : b'.a.capacity < 2 ^ 62)
    (hold : ∀ e ∈ s.live, ∀ i, e.addr ≤ i → i < e.addr + e.size → b'.mem[i]? = s.b.mem[i]?)
    (hwf : ∀ e ∈ news, ∀ c, e.cls = some c → ∃ cl, u[c]? = some cl ∧ e.size = csize cl)
    (hnew : ∀ e ∈ news, ∀ k fk a, fieldAt u e k = some (fk, a) → RefOK ⟨b', news ++ s.live⟩ fk a) :
    Inv u ⟨b', news ++ s.live⟩ where
  a := ha
  mem := hm
  cap := hcap
  wf := by
    intro e he c hc
    rcases List.mem_append.mp he with h | h
    · exact hwf e h c hc
    · exact hi.wf e h c hc
  refs := by
    intro e he k fk a hf
    rcases List.mem_append.mp he with h | h
    · exact hnew e h k fk a hf
    · obtain ⟨i1, i2, _⟩ := slot_in hi h hf
      refine refOK_transfer (s := s) (s' := ⟨b', news ++ s.live⟩) ?_ ?_ (hi.refs e h k fk a hf)
      · rintro t c ⟨e', he', h1, h2⟩
        exact ⟨e', List.mem_append_right _ he', h1, h2⟩
      · apply readAt_congr
        intro i h1 h2
        exact hold e h i (by omega) (by omega)

theorem allocate_spec {u : Univ} {s : St} (hi : Inv u s) {size : Nat} {al : Bool} {o : Nat} {b' : Buf}
    (hal : s.b.allocate size al = some (o, b')) :
    o + size ≤ b'.a.capacity ∧ (∀ r ∈ regions s, Disjoint (o, size) r) ∧ Alloc.Inv b'.a ((o, size) :: regions s) ∧
    b'.MemOK ∧ ∀ i, i < s.b.a.capacity → b'.mem[i]? = s.b.mem[i]? := by
  have ha : allocate s.b.a size al = some (o, b'.a) := by
    have := Buf.allocF_a (size + alignOf s.b.a al + 1) s.b size (alignOf s.b.a al)
    unfold Buf.allocate at hal
    rw [hal] at this
    exact this.symm
  obtain ⟨c1, _, _, c4, c5⟩ := C04_alloc s.b.a (regions s) size al o b'.a hi.a ha
  obtain ⟨m1, m2⟩ := Buf.allocF_mem _ s.b size _ o b' hi.mem hal
  exact ⟨c1, c4, c5, m1, m2⟩

theorem writeAt_nil (m : Mem) (o : Nat) : writeAt m o [] = m := by
  unfold writeAt; simp

theorem newObj_none {u : Univ} {s s1 : St} {c : Nat} {vs : List Nat} (h : newObj u s c vs = (s1, none)) : s1 = s := by
  unfold newObj at h
  split at h
  · simp only [Prod.mk.injEq] at h; exact h.1.symm
  · split at h
    · simp only [Prod.mk.injEq] at h; exact h.1.symm
    · simp at h

/-- **construct**: the new node lies in fresh storage, every older region keeps its bytes, its references are null -/
theorem newObj_spec {u : Univ} {s s1 : St} (hi : Inv u s) {c : Nat} {vs : List Nat} {o : Nat}
    (h : newObj u s c vs = (s1, some o)) (hcap : s1.b.a.capacity < 2 ^ 62) :
    Inv u s1 ∧ IsObj s1 o c ∧ (∀ e ∈ s.live, e ∈ s1.live) ∧ o < 2 ^ 62 := by
  unfold newObj at h
  split at h
  · simp at h
  · rename_i cl hcl
    split at h
    · simp at h
    · rename_i o' b' hal
      simp only [Prod.mk.injEq, Option.some.injEq] at h
      obtain ⟨rfl, rfl⟩ := h
      obtain ⟨c1, c4, c5, m1, m2⟩ := allocate_spec hi hal
      have hlen := initBytes_length cl vs
      have hfit : o' + (initBytes cl vs).length ≤ b'.mem.length := by
        rw [hlen]; unfold Buf.MemOK at m1; omega
      simp only at hcap
      refine ⟨?_, ⟨⟨o', csize cl, some c⟩, List.mem_cons_self, rfl, rfl⟩, fun e he => List.mem_cons_of_mem _ he, by omega⟩
      apply inv_extend hi { b' with mem := writeAt b'.mem o' (initBytes cl vs) } [⟨o', csize cl, some c⟩]
      · exact c5
      · unfold Buf.MemOK at *
        simp only
        rw [length_writeAt _ _ _ hfit]; exact m1
      · exact hcap
      · intro e he i h1 h2
        simp only
        have hin := hi.a.inb (e.addr, e.size) (List.mem_map.mpr ⟨e, he, rfl⟩)
        simp only at hin
        rw [getElem?_writeAt _ _ _ hfit, hlen]
        have hd := c4 (e.addr, e.size) (List.mem_map.mpr ⟨e, he, rfl⟩) i
        unfold Region.Has at hd
        simp only at hd
        have : ¬ (o' ≤ i ∧ i < o' + csize cl) := by omega
        simp only [this, ↓reduceIte]
        exact m2 i (by omega)
      · intro e he c' hc'
        simp only [List.mem_singleton] at he
        subst he
        simp only [Option.some.injEq] at hc'
        subst hc'
        exact ⟨cl, hcl, rfl⟩
      · intro e he k fk a hf
        simp only [List.mem_singleton] at he
        subst he
        obtain ⟨c', cl', hc', hcl', hk, rfl⟩ := fieldAt_spec hf
        simp only [Option.some.injEq] at hc'
        subst hc'
        rw [hcl] at hcl'; cases hcl'
        have hle := foff_le cl k fk hk
        cases fk with
        | scal => trivial
        | ref c'' =>
          left
          apply deref_null_bytes
          simp only
          rw [readAt_writeAt_inside _ _ _ hfit _ _ (by omega) (by simp only [FK.size] at hle; omega)]
          rw [show o' + foff cl k - o' = foff cl k by omega]
          exact initBytes_ref cl vs k c'' hk
        | uref cs =>
          left
          apply uref_null_bytes
          simp only
          rw [readAt_writeAt_inside _ _ _ hfit _ _ (by omega) (by simp only [FK.size] at hle; omega)]
          rw [show o' + foff cl k - o' = foff cl k by omega]
          exact initBytes_uref cl vs k cs hk

theorem rawAlloc_inv {u : Univ} {s : St} (hi : Inv u s) (n : Nat) (al : Bool)
    (hcap : (rawAlloc s n al).b.a.capacity < 2 ^ 62) : Inv u (rawAlloc s n al) := by
  unfold rawAlloc at *
  split
  · rename_i o b' hal
    rw [hal] at hcap
    simp only at hcap
    obtain ⟨c1, c4, c5, m1, m2⟩ := allocate_spec hi hal
    apply inv_extend hi b' [⟨o, n, none⟩]
    · exact c5
    · exact m1
    · exact hcap
    · intro e he i h1 h2
      have hin := hi.a.inb (e.addr, e.size) (List.mem_map.mpr ⟨e, he, rfl⟩)
      simp only at hin
      exact m2 i (by omega)
    · intro e he c hc
      simp only [List.mem_singleton] at he
      subst he; simp at hc
    · intro e he k fk a hf
      simp only [List.mem_singleton] at he
      subst he; simp [fieldAt] at hf
  · exact hi

theorem grow_inv {u : Univ} {s : St} (hi : Inv u s) (n : Nat) (hcap : (s.b.grow n).a.capacity < 2 ^ 62) :
    Inv u { s with b := s.b.grow n } := by
  obtain ⟨m1, m2⟩ := Buf.grow_mem s.b n hi.mem
  have := inv_extend hi (s.b.grow n) [] (C04_grow s.b.a (regions s) n hi.a) m1 hcap
    (by
      intro e he i h1 h2
      have hin := hi.a.inb (e.addr, e.size) (List.mem_map.mpr ⟨e, he, rfl⟩)
      simp only at hin
      exact m2 i (by omega))
    (by intro e he; simp at he) (by intro e he; simp at he)
  simpa using this

theorem bindNull_inv {u : Univ} {s : St} (hi : Inv u s) (ha k : Nat) : Inv u (bindNull u s ha k) := by
  unfold bindNull
  split
  · rename_i h hh
    obtain ⟨hm, _, _⟩ := findObj_spec hh
    split
    · rename_i c a hf
      obtain ⟨_, _, hfit⟩ := slot_in hi hm hf
      apply inv_wr hi hm hf _ (by simp [refNullBytes, i64le_length, FK.size])
      left
      exact deref_write_null _ _ (by simpa [FK.size] using hfit)
    · rename_i cs a hf
      obtain ⟨_, _, hfit⟩ := slot_in hi hm hf
      apply inv_wr hi hm hf _ (by simp [urefNullBytes, i64le_length, FK.size])
      left
      exact uref_write_null _ _ (by simpa [FK.size] using hfit)
    · exact hi
  · exact hi

theorem uwf_len {u : Univ} (hu : UWF u) {e : Ent} {k : Nat} {cs : List Nat} {a : Nat}
    (hf : fieldAt u e k = some (.uref cs, a)) : cs.length < 2 ^ 62 := by
  obtain ⟨c, cl, _, hcl, hk, _⟩ := fieldAt_spec hf
  exact hu cl (List.mem_of_getElem? hcl) (.uref cs) (List.mem_of_getElem? hk) cs rfl

/-- what the slot of a reference field denotes after the encoding of `t` (member `tc`) is stored in it -/
theorem bound_refOK {u : Univ} {s : St} (hu : UWF u) (hi : Inv u s) {h t : Ent} (hm : h ∈ s.live) (tm : t ∈ s.live)
    {k : Nat} {fk : FK} {a : Nat} (hf : fieldAt u h k = some (fk, a)) {tc : Nat} (htc : t.cls = some tc) :
    (∀ c, fk = .ref c → tc = c → RefOK (wr s a (refBytes a t.addr)) fk a) ∧
    (∀ cs, fk = .uref cs → tc ∈ cs → RefOK (wr s a (urefBytes a t.addr (cs.idxOf tc))) fk a) := by
  obtain ⟨i1, i2, hfit⟩ := slot_in hi hm hf
  have hh := live_addr_lt hi hm
  have ht := live_addr_lt hi tm
  have p := FK.size_pos fk
  constructor
  · rintro c rfl rfl
    right
    exact ⟨t.addr, deref_write_ref _ _ _ (by simpa [FK.size] using hfit) (by omega) (by omega), t, tm, rfl, htc⟩
  · rintro cs rfl hmem
    right
    have hl := uwf_len hu hf
    have hidx : cs.idxOf tc < cs.length := List.idxOf_lt_length_of_mem hmem
    obtain ⟨d1, d2⟩ := uref_write_member s.b.mem a t.addr (cs.idxOf tc) (by simpa [FK.size] using hfit) (by omega) (by omega)
      (by omega)
    refine ⟨t.addr, cs.idxOf tc, tc, d1, d2, ?_, t, tm, rfl, htc⟩
    rw [List.getElem?_eq_getElem hidx]
    simp

theorem bindObj_inv {u : Univ} {s : St} (hu : UWF u) (hi : Inv u s) (ha k ta : Nat) : Inv u (bindObj u s ha k ta) := by
  unfold bindObj
  split
  · rename_i h t hh ht
    obtain ⟨hm, _, _⟩ := findObj_spec hh
    obtain ⟨tm, _, _⟩ := findObj_spec ht
    split
    · rename_i c a tc hf htc
      split
      · rename_i heq
        exact inv_wr hi hm hf _ (by simp [refBytes, i64le_length, FK.size]) ((bound_refOK hu hi hm tm hf htc).1 c rfl heq)
      · exact hi
    · rename_i cs a tc hf htc
      split
      · rename_i hmem
        exact inv_wr hi hm hf _ (by simp [urefBytes, refBytes, i64le_length, FK.size])
          ((bound_refOK hu hi hm tm hf htc).2 cs rfl hmem)
      · exact hi
    · exact hi
  · exact hi

theorem setScal_inv {u : Univ} {s : St} (hi : Inv u s) (ha k v : Nat) : Inv u (setScal u s ha k v) := by
  unfold setScal
  split
  · rename_i h hh
    obtain ⟨hm, _, _⟩ := findObj_spec hh
    split
    · rename_i a hf
      exact inv_wr hi hm hf _ (by simp [le_length, FK.size]) trivial
    · exact hi
  · exact hi

/-- the shape of `bindVal`: nothing happens, or a node is constructed and then the slot is written -/
theorem bindVal_cases (u : Univ) (s : St) (ha k c : Nat) (vs : List Nat) :
    bindVal u s ha k c vs = s ∨
    ∃ h fk a s1 o bs, findObj s ha = some h ∧ fieldAt u h k = some (fk, a) ∧ newObj u s c vs = (s1, some o) ∧
      bindVal u s ha k c vs = wr s1 a bs ∧
      ((fk = .ref c ∧ bs = refBytes a o) ∨ ∃ cs, fk = .uref cs ∧ c ∈ cs ∧ bs = urefBytes a o (cs.idxOf c)) := by
  unfold bindVal
  split
  · rename_i h hh
    split
    · rename_i c' a hf
      split
      · rename_i heq
        subst heq
        split
        · rename_i s1 o hn
          exact Or.inr ⟨h, _, a, s1, o, _, hh, hf, hn, rfl, Or.inl ⟨rfl, rfl⟩⟩
        · exact Or.inl rfl
      · exact Or.inl rfl
    · rename_i cs a hf
      split
      · rename_i hmem
        split
        · rename_i s1 o hn
          exact Or.inr ⟨h, _, a, s1, o, _, hh, hf, hn, rfl, Or.inr ⟨cs, rfl, hmem, rfl⟩⟩
        · exact Or.inl rfl
      · exact Or.inl rfl
    · exact Or.inl rfl
  · exact Or.inl rfl

theorem bindVal_inv {u : Univ} {s : St} (hu : UWF u) (hi : Inv u s) (ha k c : Nat) (vs : List Nat)
    (hcap : (bindVal u s ha k c vs).b.a.capacity < 2 ^ 62) : Inv u (bindVal u s ha k c vs) := by
  rcases bindVal_cases u s ha k c vs with h | ⟨h, fk, a, s1, o, bs, hh, hf, hn, heq, hk⟩
  · rw [h]; exact hi
  · rw [heq] at hcap ⊢
    obtain ⟨hm, _, _⟩ := findObj_spec hh
    obtain ⟨hi1, ⟨t, tm, hta, htc⟩, hsub, _⟩ := newObj_spec hi hn (by simpa [wr] using hcap)
    have hm1 := hsub h hm
    rcases hk with ⟨rfl, rfl⟩ | ⟨cs, rfl, hmem, rfl⟩
    · refine inv_wr hi1 hm1 hf _ (by simp [refBytes, i64le_length, FK.size]) ?_
      have := (bound_refOK hu hi1 hm1 tm hf htc).1 c rfl rfl
      rwa [hta] at this
    · refine inv_wr hi1 hm1 hf _ (by simp [urefBytes, refBytes, i64le_length, FK.size]) ?_
      have := (bound_refOK hu hi1 hm1 tm hf htc).2 cs rfl hmem
      rwa [hta] at this

/-- a non-null reference of a live node leads to a live node of the class the reader assumes -/
theorem deref_live {u : Univ} {s : St} (hi : Inv u s) {h : Ent} (hm : h ∈ s.live) {k : Nat} {fk : FK} {a : Nat}
    (hf : fieldAt u h k = some (fk, a)) {t c : Nat} (hd : deref s.b.mem a = some t) (hc : refClass s fk a = some c) :
    IsObj s t c := by
  have hr := hi.refs h hm k fk a hf
  cases fk with
  | scal => simp [refClass] at hc
  | ref c0 =>
    simp only [refClass, Option.some.injEq] at hc
    subst hc
    rcases hr with hr | ⟨t', h1, h2⟩
    · rw [hr] at hd; simp at hd
    · rw [h1] at hd; cases hd; exact h2
  | uref cs =>
    rcases hr with hr | ⟨t', i, c', h1, h2, h3, h4⟩
    · rw [hr.1] at hd; simp at hd
    · rw [h1] at hd; cases hd
      simp only [refClass, h2] at hc
      have : (0 : Int) ≤ (i : Int) := Int.natCast_nonneg i
      simp only [this, ↓reduceIte, Int.toNat_natCast] at hc
      rw [h3] at hc; cases hc
      exact h4

theorem setVia_inv {u : Univ} {s : St} (hi : Inv u s) (ha k j v : Nat) : Inv u (setVia u s ha k j v) := by
  unfold setVia
  split
  · rename_i h hh
    obtain ⟨hm, _, _⟩ := findObj_spec hh
    split
    · rename_i fk a hf
      split
      · rename_i t c hd hc
        obtain ⟨e, he, hea, hec⟩ := deref_live hi hm hf hd hc
        split
        · rename_i cl hcl
          split
          · rename_i hj
            have hft := fieldAt_of hec hcl hj
            rw [hea] at hft
            exact inv_wr hi he hft _ (by simp [le_length, FK.size]) trivial
          · exact hi
        · exact hi
      · exact hi
    · exact hi
  · exact hi

/-! ### capacity never shrinks (unconditionally) -/

theorem allocF_cap : ∀ (fuel : Nat) (s : AState) (size a o : Nat) (s' : AState),
    allocF fuel s size a = some (o, s') → s.capacity ≤ s'.capacity
 | 0, _, _, _, _, _, h => by simp [allocF] at h
 | fuel+1, s, size, a, o, s', h => by
    simp only [allocF] at h
    split at h
    · simp only [Option.some.injEq, Prod.mk.injEq] at h
      obtain ⟨_, rfl⟩ := h; exact Nat.le_refl _
    · have := allocF_cap fuel _ size a o s' h
      simp only [grow] at this; omega

theorem buf_allocate_cap {b b' : Buf} {size : Nat} {al : Bool} {o : Nat} (h : b.allocate size al = some (o, b')) :
    b.a.capacity ≤ b'.a.capacity := by
  have ha : allocate b.a size al = some (o, b'.a) := by
    have := Buf.allocF_a (size + alignOf b.a al + 1) b size (alignOf b.a al)
    unfold Buf.allocate at h
    rw [h] at this
    exact this.symm
  exact allocF_cap _ _ _ _ _ _ ha

theorem newObj_cap (u : Univ) (s : St) (c : Nat) (vs : List Nat) : s.b.a.capacity ≤ (newObj u s c vs).1.b.a.capacity := by
  unfold newObj
  split
  · exact Nat.le_refl _
  · split
    · exact Nat.le_refl _
    · rename_i o b' hal
      exact buf_allocate_cap (b' := b') hal

/-! ### copy construction inside the buffer -/

theorem copyObj_none {u : Univ} {s s1 : St} {ha : Nat} (h : copyObj u s ha = (s1, none)) : s1 = s := by
  unfold copyObj at h
  repeat' split at h
  all_goals first
    | (simp only [Prod.mk.injEq] at h; exact h.1.symm)
    | simp at h

theorem copyObj_cap (u : Univ) (s : St) (ha : Nat) : s.b.a.capacity ≤ (copyObj u s ha).1.b.a.capacity := by
  unfold copyObj
  repeat' split
  all_goals first
    | exact Nat.le_refl _
    | (rename_i o b' hal; exact buf_allocate_cap (b' := b') hal)

/-- what the source's slot says, read in the storage after the allocation (the source's bytes did not move) -/
theorem src_slot_same {u : Univ} {s : St} (hi : Inv u s) {b' : Buf} (m2 : ∀ i, i < s.b.a.capacity → b'.mem[i]? = s.b.mem[i]?)
    {h : Ent} (hm : h ∈ s.live) {k : Nat} {fk : FK} {a : Nat} (hf : fieldAt u h k = some (fk, a)) :
    readAt b'.mem a fk.size = readAt s.b.mem a fk.size := by
  obtain ⟨i1, i2, _⟩ := slot_in hi hm hf
  have hin := hi.a.inb (h.addr, h.size) (List.mem_map.mpr ⟨h, hm, rfl⟩)
  simp only at hin
  apply readAt_congr
  intro i h1 h2
  exact m2 i (by omega)

theorem fromLE_lt8 (bs : List UInt8) (h : bs.length ≤ 8) : fromLE bs < 256 ^ 8 := by
  have : ∀ bs : List UInt8, fromLE bs < 256 ^ bs.length := by
    intro bs
    induction bs with
    | nil => simp [fromLE]
    | cons b bs ih =>
      simp only [fromLE, List.length_cons, Nat.pow_succ]
      have := b.toNat_lt
      omega
  exact Nat.lt_of_lt_of_le (this bs) (Nat.pow_le_pow_right (by decide) h)

/-- the facts about one field of a copy, given what its slot holds (`hsl`) and what the source's slot says -/
theorem copy_field_facts {u : Univ} {s : St} (hu : UWF u) (hi : Inv u s) {src : Ent} (hm : src ∈ s.live) {c : Nat} {cl : Cls}
    (hc : src.cls = some c) (hcl : u[c]? = some cl) (S' S1 : St) (o' : Nat) (ho : o' + csize cl < 2 ^ 62)
    (hlift : ∀ t c0, IsObj s t c0 → IsObj S1 t c0)
    (k : Nat) (fk : FK) (hk : cl[k]? = some fk)
    (hsl : readAt S1.b.mem (o' + foff cl k) fk.size = copyField S' fk (src.addr + foff cl k) (o' + foff cl k))
    (h0 : readAt S'.b.mem (src.addr + foff cl k) fk.size = readAt s.b.mem (src.addr + foff cl k) fk.size) :
    (fk = .scal → fromLE (readAt S1.b.mem (o' + foff cl k) 8) = fromLE (readAt s.b.mem (src.addr + foff cl k) 8)) ∧
    (fk ≠ .scal → deref S1.b.mem (o' + foff cl k) = deref s.b.mem (src.addr + foff cl k) ∧
      ∀ t, deref s.b.mem (src.addr + foff cl k) = some t →
        refClass S1 fk (o' + foff cl k) = refClass s fk (src.addr + foff cl k)) ∧
    RefOK S1 fk (o' + foff cl k) := by
  have hle := foff_le cl k fk hk
  have hfs := fieldAt_of hc hcl hk
  have hro := hi.refs src hm k fk _ hfs
  cases fk with
  | scal =>
    refine ⟨fun _ => ?_, fun h => absurd rfl h, trivial⟩
    simp only [FK.size] at hsl h0
    rw [hsl]
    simp only [copyField]
    rw [h0, fromLE_le]
    exact Nat.mod_eq_of_lt (fromLE_lt8 _ (by simp [readAt]; omega))
  | ref c' =>
    have hd : deref S'.b.mem (src.addr + foff cl k) = deref s.b.mem (src.addr + foff cl k) :=
      deref_congr (by simpa [FK.size] using h0)
    simp only [FK.size] at hsl hle
    simp only [copyField, hd] at hsl
    cases hds : deref s.b.mem (src.addr + foff cl k) with
    | none =>
      rw [hds] at hsl
      have := deref_null_bytes hsl
      exact ⟨(fun hh => by cases hh), fun _ => ⟨this, fun t ht => by cases ht⟩, Or.inl this⟩
    | some t =>
      rw [hds] at hsl
      have hobj : IsObj s t c' := by
        rcases hro with hn | ⟨t', h1, h2⟩
        · rw [hn] at hds; cases hds
        · rw [h1] at hds; cases hds; exact h2
      obtain ⟨et, hem, hea, hec⟩ := hobj
      have := live_addr_lt hi hem
      have hdn := deref_of_bytes _ _ _ (by omega) (by omega) hsl
      exact ⟨(fun hh => by cases hh), fun _ => ⟨hdn, fun _ _ => rfl⟩, Or.inr ⟨t, hdn, hlift t c' ⟨et, hem, hea, hec⟩⟩⟩
  | uref cs =>
    have h8 := readAt_sub h0 0 8 (by simp [FK.size])
    have h16 := readAt_sub h0 8 8 (by simp [FK.size])
    have hd : deref S'.b.mem (src.addr + foff cl k) = deref s.b.mem (src.addr + foff cl k) := deref_congr (by simpa using h8)
    have hrc : refClass S' (.uref cs) (src.addr + foff cl k) = refClass s (.uref cs) (src.addr + foff cl k) := by
      simp only [refClass, memberIdx_congr h16]
    simp only [FK.size] at hsl hle
    simp only [copyField, hd, hrc] at hsl
    rcases hro with hn | ⟨t, i, c0, h1, h2, h3, h4⟩
    · rw [hn.1] at hsl
      have := uref_null_bytes hsl
      exact ⟨(fun hh => by cases hh), fun _ => ⟨by rw [this.1, hn.1], fun t ht => by rw [hn.1] at ht; cases ht⟩, Or.inl this⟩
    · have hcls : refClass s (.uref cs) (src.addr + foff cl k) = some c0 := by
        simp only [refClass, h2]
        have : (0 : Int) ≤ (i : Int) := Int.natCast_nonneg i
        simp only [this, ↓reduceIte, Int.toNat_natCast]
        exact h3
      rw [h1, hcls] at hsl
      obtain ⟨et, hem, hea, hec⟩ := h4
      have := live_addr_lt hi hem
      have hmemc : c0 ∈ cs := List.mem_of_getElem? h3
      have hidx : cs.idxOf c0 < cs.length := List.idxOf_lt_length_of_mem hmemc
      have hl := uwf_len hu hfs
      obtain ⟨d1, d2⟩ := uref_of_bytes (by omega) (by omega) (by omega) hsl
      have hget : cs[cs.idxOf c0]? = some c0 := by rw [List.getElem?_eq_getElem hidx]; simp
      have hrc1 : refClass S1 (.uref cs) (o' + foff cl k) = some c0 := by
        simp only [refClass, d2]
        have : (0 : Int) ≤ ((cs.idxOf c0 : Nat) : Int) := Int.natCast_nonneg _
        simp only [this, ↓reduceIte, Int.toNat_natCast]
        exact hget
      exact ⟨(fun hh => by cases hh), fun _ => ⟨by rw [d1, h1], fun _ _ => by rw [hrc1, hcls]⟩,
        Or.inr ⟨t, cs.idxOf c0, c0, d1, d2, hget, hlift t c0 ⟨et, hem, hea, hec⟩⟩⟩

/-- **copy**: a fresh node of the same class; every scalar has the source's value, every reference denotes the SAME referent
(same address, same class) or is null like the source's; the invariant holds -/
theorem copyObj_spec {u : Univ} {s s1 : St} (hu : UWF u) (hi : Inv u s) {ha o : Nat}
    (h : copyObj u s ha = (s1, some o)) (hcap : s1.b.a.capacity < 2 ^ 62) :
    Inv u s1 ∧ ∃ src c cl, findObj s ha = some src ∧ src.cls = some c ∧ u[c]? = some cl ∧
      s1.live = ⟨o, csize cl, some c⟩ :: s.live ∧
      (∀ e ∈ s.live, Disjoint (o, csize cl) (e.addr, e.size)) ∧
      ∀ k fk, cl[k]? = some fk →
        (fk = .scal → fromLE (readAt s1.b.mem (o + foff cl k) 8) = fromLE (readAt s.b.mem (src.addr + foff cl k) 8)) ∧
        (fk ≠ .scal → deref s1.b.mem (o + foff cl k) = deref s.b.mem (src.addr + foff cl k) ∧
          ∀ t, deref s.b.mem (src.addr + foff cl k) = some t →
            refClass s1 fk (o + foff cl k) = refClass s fk (src.addr + foff cl k)) := by
  unfold copyObj at h
  split at h
  · simp at h
  · rename_i src hsrc
    obtain ⟨hm, _, _⟩ := findObj_spec hsrc
    split at h
    · simp at h
    · rename_i c hc
      split at h
      · simp at h
      · rename_i cl hcl
        split at h
        · simp at h
        · rename_i o' b' hal
          simp only [Prod.mk.injEq, Option.some.injEq] at h
          obtain ⟨hs1, ho⟩ := h
          subst ho
          obtain ⟨c1, c4, c5, m1, m2⟩ := allocate_spec hi hal
          obtain ⟨S', hS'⟩ : ∃ S' : St, S' = { b := b', live := s.live } := ⟨_, rfl⟩
          rw [← hS'] at hs1
          obtain ⟨bs, hbs⟩ : ∃ bs, bs = copyBytesF S' cl src.addr o' := ⟨_, rfl⟩
          rw [← hbs] at hs1
          have hlen : bs.length = csize cl := by rw [hbs]; exact copyBytesF_length S' cl src.addr o'
          have hfit : o' + bs.length ≤ b'.mem.length := by rw [hlen]; unfold Buf.MemOK at m1; omega
          subst hs1
          simp only at hcap
          have hlift : ∀ t c0, IsObj s t c0 →
              IsObj ⟨{ b' with mem := writeAt b'.mem o' bs }, ⟨o', csize cl, some c⟩ :: s.live⟩ t c0 := by
            rintro t c0 ⟨e', he', q1, q2⟩
            exact ⟨e', List.mem_cons_of_mem _ he', q1, q2⟩
          have hfacts := fun k fk (hk : cl[k]? = some fk) =>
            copy_field_facts hu hi hm hc hcl S' ⟨{ b' with mem := writeAt b'.mem o' bs }, ⟨o', csize cl, some c⟩ :: s.live⟩ o'
              (by omega) hlift k fk hk
              (by
                have hle := foff_le cl k fk hk
                show readAt (writeAt b'.mem o' bs) (o' + foff cl k) fk.size = _
                rw [readAt_writeAt_inside _ _ _ hfit _ _ (by omega) (by rw [hlen]; omega)]
                rw [show o' + foff cl k - o' = foff cl k by omega, hbs]
                exact copyBytesF_field _ cl _ _ k fk hk)
              (by rw [hS']; exact src_slot_same hi m2 hm (fieldAt_of hc hcl hk))
          refine ⟨?_, src, c, cl, hsrc, hc, hcl, rfl, ?_, fun k fk hk => ⟨(hfacts k fk hk).1, (hfacts k fk hk).2.1⟩⟩
          · apply inv_extend hi { b' with mem := writeAt b'.mem o' bs } [⟨o', csize cl, some c⟩]
            · exact c5
            · unfold Buf.MemOK at *
              simp only
              rw [length_writeAt _ _ _ hfit]; exact m1
            · exact hcap
            · intro e he i h1 h2
              simp only
              have hin := hi.a.inb (e.addr, e.size) (List.mem_map.mpr ⟨e, he, rfl⟩)
              simp only at hin
              rw [getElem?_writeAt _ _ _ hfit, hlen]
              have hd := c4 (e.addr, e.size) (List.mem_map.mpr ⟨e, he, rfl⟩) i
              unfold Region.Has at hd
              simp only at hd
              have : ¬ (o' ≤ i ∧ i < o' + csize cl) := by omega
              simp only [this, ↓reduceIte]
              exact m2 i (by omega)
            · intro e he c' hc'
              simp only [List.mem_singleton] at he
              subst he
              simp only [Option.some.injEq] at hc'
              subst hc'
              exact ⟨cl, hcl, rfl⟩
            · intro e he k fk a hf
              simp only [List.mem_singleton] at he
              subst he
              obtain ⟨c', cl', hc', hcl', hk, rfl⟩ := fieldAt_spec hf
              simp only [Option.some.injEq] at hc'
              subst hc'
              rw [hcl] at hcl'; cases hcl'
              exact (hfacts k fk hk).2.2
          · intro e he
            exact c4 (e.addr, e.size) (List.mem_map.mpr ⟨e, he, rfl⟩)

/-- **update of a node from a node of the same class**: nothing is allocated; the invariant holds; the fields agree afterwards -/
theorem updObj_spec {u : Univ} {s : St} (hu : UWF u) (hi : Inv u s) (ha ta : Nat) :
    Inv u (updObj u s ha ta) ∧ (updObj u s ha ta).b.a = s.b.a ∧ (updObj u s ha ta).live = s.live ∧
    ∀ h t c cl, findObj s ha = some h → findObj s ta = some t → h.cls = some c → t.cls = some c → u[c]? = some cl →
      ∀ k fk, cl[k]? = some fk →
        (fk = .scal → fromLE (readAt (updObj u s ha ta).b.mem (h.addr + foff cl k) 8)
            = fromLE (readAt s.b.mem (t.addr + foff cl k) 8)) ∧
        (fk ≠ .scal → deref (updObj u s ha ta).b.mem (h.addr + foff cl k) = deref s.b.mem (t.addr + foff cl k) ∧
          ∀ x, deref s.b.mem (t.addr + foff cl k) = some x →
            refClass (updObj u s ha ta) fk (h.addr + foff cl k) = refClass s fk (t.addr + foff cl k)) := by
  have triv : updObj u s ha ta = s → Inv u (updObj u s ha ta) ∧ (updObj u s ha ta).b.a = s.b.a ∧
      (updObj u s ha ta).live = s.live := fun e => by rw [e]; exact ⟨hi, rfl, rfl⟩
  cases hh : findObj s ha with
  | none =>
    have e : updObj u s ha ta = s := by simp only [updObj, hh]
    exact ⟨(triv e).1, (triv e).2.1, (triv e).2.2, fun h t c cl q => by cases q⟩
  | some h =>
  cases ht : findObj s ta with
  | none =>
    have e : updObj u s ha ta = s := by simp only [updObj, hh, ht]
    exact ⟨(triv e).1, (triv e).2.1, (triv e).2.2, fun h t c cl _ q => by cases q⟩
  | some t =>
  obtain ⟨hm, _, c, hc⟩ := findObj_spec hh
  obtain ⟨tm, _, c', hc'⟩ := findObj_spec ht
  by_cases hcc : c = c'
  · subst hcc
    obtain ⟨cl, hcl, hsz⟩ := hi.wf h hm c hc
    have e : updObj u s ha ta = wr s h.addr (copyBytesF s cl t.addr h.addr) := by
      simp only [updObj, hh, ht, hc, hc', hcl, ↓reduceIte]
    rw [e]
    obtain ⟨bs, hbs⟩ : ∃ bs, bs = copyBytesF s cl t.addr h.addr := ⟨_, rfl⟩
    rw [← hbs]
    have hlen : bs.length = csize cl := by rw [hbs]; exact copyBytesF_length s cl t.addr h.addr
    have hin := hi.a.inb (h.addr, h.size) (List.mem_map.mpr ⟨h, hm, rfl⟩)
    have hmm := hi.mem
    unfold Buf.MemOK at hmm
    simp only at hin
    have hfit : h.addr + bs.length ≤ s.b.mem.length := by rw [hlen]; omega
    have hlt := live_addr_lt hi hm
    have hfacts := fun k fk (hk : cl[k]? = some fk) =>
      copy_field_facts hu hi tm hc' hcl s (wr s h.addr bs) h.addr (by omega) (fun _ _ q => q) k fk hk
        (by
          have hle := foff_le cl k fk hk
          show readAt (writeAt s.b.mem h.addr bs) (h.addr + foff cl k) fk.size = _
          rw [readAt_writeAt_inside _ _ _ hfit _ _ (by omega) (by rw [hlen]; omega)]
          rw [show h.addr + foff cl k - h.addr = foff cl k by omega, hbs]
          exact copyBytesF_field _ cl _ _ k fk hk)
        rfl
    refine ⟨?_, rfl, rfl, ?_⟩
    · exact {
        a := hi.a
        mem := by
          unfold Buf.MemOK
          simp only [wr]
          rw [length_writeAt _ _ _ hfit]; exact hmm
        cap := hi.cap
        wf := hi.wf
        refs := by
          intro e he k fk a hf
          by_cases hee : e = h
          · subst hee
            obtain ⟨c2, cl2, hc2, hcl2, hk, rfl⟩ := fieldAt_spec hf
            rw [hc] at hc2; cases hc2
            rw [hcl] at hcl2; cases hcl2
            exact (hfacts k fk hk).2.2
          · refine refOK_transfer (s := s) (s' := wr s h.addr bs) (fun _ _ q => q) ?_ (hi.refs e he k fk a hf)
            simp only [wr]
            by_cases hz : csize cl = 0
            · have : bs = [] := List.eq_nil_of_length_eq_zero (by omega)
              rw [this, writeAt_nil]
            · obtain ⟨i1, i2, _⟩ := slot_in hi he hf
              have hd := live_disj hi he hm hee
              have p := FK.size_pos fk
              apply readAt_writeAt_disj _ _ _ hfit
              rw [hlen]
              by_cases hle : a ≤ h.addr
              · have := hd h.addr
                unfold Region.Has at this
                simp only at this
                omega
              · have := hd a
                unfold Region.Has at this
                simp only at this
                omega }
    · intro h2 t2 c2 cl2 q1 q2 q3 q4 q5 k fk hk
      cases q1; cases q2
      rw [hc] at q3; cases q3
      rw [hcl] at q5; cases q5
      exact ⟨(hfacts k fk hk).1, (hfacts k fk hk).2.1⟩
  · have e : updObj u s ha ta = s := by simp only [updObj, hh, ht, hc, hc', hcc, ↓reduceIte]
    refine ⟨(triv e).1, (triv e).2.1, (triv e).2.2, ?_⟩
    intro h2 t2 c2 cl2 q1 q2 q3 q4
    cases q1; cases q2
    rw [hc] at q3; rw [hc'] at q4; cases q3; cases q4
    exact absurd rfl hcc

theorem step_cap (u : Univ) (s : St) (op : Op) : s.b.a.capacity ≤ (step u s op).b.a.capacity := by
  cases op with
  | new c vs => exact newObj_cap u s c vs
  | bindObj h k t =>
    simp only [step, bindObj]
    repeat' split
    all_goals exact Nat.le_refl _
  | bindNull h k =>
    simp only [step, bindNull]
    repeat' split
    all_goals exact Nat.le_refl _
  | bindVal h k c vs =>
    simp only [step]
    rcases bindVal_cases u s h k c vs with e | ⟨_, _, _, s1, o, _, _, _, hn, heq, _⟩
    · rw [e]; exact Nat.le_refl _
    · rw [heq]
      have := newObj_cap u s c vs
      rw [hn] at this
      exact this
  | setScal h k v =>
    simp only [step, setScal]
    repeat' split
    all_goals exact Nat.le_refl _
  | setVia h k j v =>
    simp only [step, setVia]
    repeat' split
    all_goals exact Nat.le_refl _
  | copy h => exact copyObj_cap u s h
  | upd h t => rw [show step u s (.upd h t) = updObj u s h t from rfl]; unfold updObj; repeat' split
               all_goals exact Nat.le_refl _
  | alloc n al =>
    simp only [step, rawAlloc]
    split
    · rename_i o b' hal; exact buf_allocate_cap hal
    · exact Nat.le_refl _
  | grow n => simp [step, Buf.grow, Alloc.grow]

theorem fold_cap (u : Univ) : ∀ (ops : List Op) (s : St), s.b.a.capacity ≤ (ops.foldl (step u) s).b.a.capacity
 | [], _ => Nat.le_refl _
 | op :: ops, s => Nat.le_trans (step_cap u s op) (fold_cap u ops (step u s op))

/-! ### what a freshly constructed node reads -/

/-- number of scalar fields before field `k`: the position of field `k`'s value among the scalars given to the constructor -/
def scalIdx : Cls → Nat → Nat
 | [], _ => 0
 | _ :: _, 0 => 0
 | .scal :: r, k + 1 => 1 + scalIdx r k
 | _ :: r, k + 1 => scalIdx r k

theorem getD_tail (vs : List Nat) (j : Nat) : vs.tail.getD j 0 = vs.getD (j + 1) 0 := by
  cases vs <;> simp [List.getD]

theorem initBytes_scal : ∀ (cl : Cls) (vs : List Nat) (k : Nat), cl[k]? = some .scal →
    readAt (initBytes cl vs) (foff cl k) 8 = le 8 (vs.getD (scalIdx cl k) 0)
 | [], _, k, h => by simp at h
 | f :: r, vs, 0, h => by
    simp only [List.getElem?_cons_zero, Option.some.injEq] at h
    subst h
    simp only [initBytes, foff, scalIdx]
    have := readAt_append_left (le 8 (vs.headD 0)) (initBytes r vs.tail)
    rw [le_length] at this
    rw [this]
    cases vs <;> simp [List.headD, List.getD]
 | .scal :: r, vs, k + 1, h => by
    simp only [List.getElem?_cons_succ] at h
    simp only [initBytes, foff, FK.size, scalIdx]
    have := readAt_append_right (le 8 (vs.headD 0)) (initBytes r vs.tail) (foff r k) 8
    rw [le_length] at this
    rw [this, initBytes_scal r vs.tail k h, getD_tail, Nat.add_comm]
 | .ref _ :: r, vs, k + 1, h => by
    simp only [List.getElem?_cons_succ] at h
    simp only [initBytes, foff, FK.size, scalIdx]
    have := readAt_append_right refNullBytes (initBytes r vs) (foff r k) 8
    rw [show refNullBytes.length = 8 from i64le_length _] at this
    rw [this]; exact initBytes_scal r vs k h
 | .uref _ :: r, vs, k + 1, h => by
    simp only [List.getElem?_cons_succ] at h
    simp only [initBytes, foff, FK.size, scalIdx]
    have := readAt_append_right urefNullBytes (initBytes r vs) (foff r k) 8
    rw [show urefNullBytes.length = 16 by simp [urefNullBytes, i64le_length]] at this
    rw [this]; exact initBytes_scal r vs k h

/-- **construct, then read**: every scalar field of the new node holds the value given for it (modulo 2^64; 0 when none was
given), every reference field reads null, a union reference with member index -1 -/
theorem newObj_reads {u : Univ} {s s1 : St} (hi : Inv u s) {c : Nat} {vs : List Nat} {o : Nat}
    (h : newObj u s c vs = (s1, some o)) :
    ∃ cl, u[c]? = some cl ∧ ∀ k fk, cl[k]? = some fk →
      (fk = .scal → fromLE (readAt s1.b.mem (o + foff cl k) 8) = vs.getD (scalIdx cl k) 0 % 256 ^ 8) ∧
      (fk ≠ .scal → deref s1.b.mem (o + foff cl k) = none) ∧
      (∀ cs, fk = .uref cs → memberIdx s1.b.mem (o + foff cl k) = -1) := by
  unfold newObj at h
  split at h
  · simp at h
  · rename_i cl hcl
    split at h
    · simp at h
    · rename_i o' b' hal
      simp only [Prod.mk.injEq, Option.some.injEq] at h
      obtain ⟨rfl, rfl⟩ := h
      obtain ⟨c1, _, _, m1, _⟩ := allocate_spec hi hal
      have hlen := initBytes_length cl vs
      have hfit : o' + (initBytes cl vs).length ≤ b'.mem.length := by
        rw [hlen]; unfold Buf.MemOK at m1; omega
      refine ⟨cl, hcl, fun k fk hk => ?_⟩
      have hle := foff_le cl k fk hk
      have hrd : ∀ n, n ≤ fk.size → readAt (writeAt b'.mem o' (initBytes cl vs)) (o' + foff cl k) n
          = readAt (initBytes cl vs) (foff cl k) n := by
        intro n hn
        rw [readAt_writeAt_inside _ _ _ hfit _ _ (by omega) (by omega)]
        rw [show o' + foff cl k - o' = foff cl k by omega]
      cases fk with
      | scal =>
        refine ⟨fun _ => ?_, fun hne => absurd rfl hne, (fun cs hcs => by cases hcs)⟩
        simp only
        rw [hrd 8 (by simp [FK.size]), initBytes_scal cl vs k hk, fromLE_le]
      | ref c' =>
        refine ⟨(fun hh => by cases hh), fun _ => ?_, (fun cs hcs => by cases hcs)⟩
        apply deref_null_bytes
        simp only
        rw [hrd 8 (by simp [FK.size])]
        exact initBytes_ref cl vs k c' hk
      | uref cs =>
        have := uref_null_bytes (m := writeAt b'.mem o' (initBytes cl vs)) (a := o' + foff cl k)
          (by rw [hrd 16 (by simp [FK.size])]; exact initBytes_uref cl vs k cs hk)
        exact ⟨(fun hh => by cases hh), fun _ => this.1, fun _ _ => this.2⟩

/-! ### frame: which live regions an operation may change -/

/-- every byte of the region of `e` is as before -/
def Unchanged (s s' : St) (e : Ent) : Prop := ∀ i, e.addr ≤ i → i < e.addr + e.size → s'.b.mem[i]? = s.b.mem[i]?

theorem unchanged_refl (s : St) (e : Ent) : Unchanged s s e := fun _ _ _ => rfl

/-- a write inside one live entry leaves every other live entry as it was -/
theorem wr_frame {u : Univ} {s : St} (hi : Inv u s) {e0 : Ent} (he0 : e0 ∈ s.live) (x : Nat) (bs : List UInt8)
    (h1 : e0.addr ≤ x) (h2 : x + bs.length ≤ e0.addr + e0.size) :
    ∀ e ∈ s.live, e ≠ e0 → Unchanged s (wr s x bs) e := by
  intro e he hne i hi1 hi2
  have hin := hi.a.inb (e0.addr, e0.size) (List.mem_map.mpr ⟨e0, he0, rfl⟩)
  have hmm := hi.mem
  unfold Buf.MemOK at hmm
  simp only at hin
  simp only [wr]
  rw [getElem?_writeAt _ _ _ (by omega)]
  have hd := live_disj hi he he0 hne i
  unfold Region.Has at hd
  simp only at hd
  have : ¬ (x ≤ i ∧ i < x + bs.length) := by omega
  simp [this]

/-- an allocation (growth included) leaves every live entry as it was -/
theorem allocate_frame {u : Univ} {s : St} (hi : Inv u s) {size : Nat} {al : Bool} {o : Nat} {b' : Buf}
    (hal : s.b.allocate size al = some (o, b')) (bs : List UInt8) (hlen : bs.length = size) (live' : List Ent) :
    ∀ e ∈ s.live, Unchanged s ⟨{ b' with mem := writeAt b'.mem o bs }, live'⟩ e := by
  obtain ⟨c1, c4, _, m1, m2⟩ := allocate_spec hi hal
  intro e he i hi1 hi2
  have hin := hi.a.inb (e.addr, e.size) (List.mem_map.mpr ⟨e, he, rfl⟩)
  simp only at hin
  unfold Buf.MemOK at m1
  simp only
  rw [getElem?_writeAt _ _ _ (by omega), hlen]
  have hd := c4 (e.addr, e.size) (List.mem_map.mpr ⟨e, he, rfl⟩) i
  unfold Region.Has at hd
  simp only at hd
  have : ¬ (o ≤ i ∧ i < o + size) := by omega
  simp only [this, ↓reduceIte]
  exact m2 i (by omega)

theorem newObj_frame {u : Univ} {s : St} (hi : Inv u s) (c : Nat) (vs : List Nat) :
    ∀ e ∈ s.live, Unchanged s (newObj u s c vs).1 e := by
  unfold newObj
  split
  · exact fun e _ => unchanged_refl s e
  · rename_i cl hcl
    split
    · exact fun e _ => unchanged_refl s e
    · rename_i o b' hal
      exact allocate_frame hi hal _ (initBytes_length cl vs) _

theorem copyObj_frame {u : Univ} {s : St} (hi : Inv u s) (ha : Nat) :
    ∀ e ∈ s.live, Unchanged s (copyObj u s ha).1 e := by
  unfold copyObj
  repeat' split
  all_goals first
    | exact fun e _ => unchanged_refl s e
    | (rename_i o b' hal; exact allocate_frame hi hal _ (copyBytesF_length _ _ _ _) _)

theorem rawAlloc_frame {u : Univ} {s : St} (hi : Inv u s) (n : Nat) (al : Bool) :
    ∀ e ∈ s.live, Unchanged s (rawAlloc s n al) e := by
  unfold rawAlloc
  split
  · rename_i o b' hal
    obtain ⟨_, _, _, _, m2⟩ := allocate_spec hi hal
    intro e he i _ hi2
    have hin := hi.a.inb (e.addr, e.size) (List.mem_map.mpr ⟨e, he, rfl⟩)
    simp only at hin
    exact m2 i (by omega)
  · exact fun e _ => unchanged_refl s e

/-- the slot-writing operations: nothing happens, or `bs` (as long as the field) is written at the slot of field `k` of a live node -/
theorem bindObj_shape (u : Univ) (s : St) (ha k ta : Nat) : bindObj u s ha k ta = s ∨
    ∃ h fk a bs, findObj s ha = some h ∧ fieldAt u h k = some (fk, a) ∧ bs.length = fk.size ∧ bindObj u s ha k ta = wr s a bs := by
  unfold bindObj
  split
  · rename_i h t hh ht
    split
    · rename_i c a tc hf htc
      split
      · exact Or.inr ⟨h, _, a, _, hh, hf, by simp [refBytes, i64le_length, FK.size], rfl⟩
      · exact Or.inl rfl
    · rename_i cs a tc hf htc
      split
      · exact Or.inr ⟨h, _, a, _, hh, hf, by simp [urefBytes, refBytes, i64le_length, FK.size], rfl⟩
      · exact Or.inl rfl
    · exact Or.inl rfl
  · exact Or.inl rfl

theorem bindNull_shape (u : Univ) (s : St) (ha k : Nat) : bindNull u s ha k = s ∨
    ∃ h fk a bs, findObj s ha = some h ∧ fieldAt u h k = some (fk, a) ∧ bs.length = fk.size ∧ bindNull u s ha k = wr s a bs := by
  unfold bindNull
  split
  · rename_i h hh
    split
    · rename_i c a hf
      exact Or.inr ⟨h, _, a, _, hh, hf, by simp [refNullBytes, i64le_length, FK.size], rfl⟩
    · rename_i cs a hf
      exact Or.inr ⟨h, _, a, _, hh, hf, by simp [urefNullBytes, i64le_length, FK.size], rfl⟩
    · exact Or.inl rfl
  · exact Or.inl rfl

theorem setScal_shape (u : Univ) (s : St) (ha k v : Nat) : setScal u s ha k v = s ∨
    ∃ h fk a bs, findObj s ha = some h ∧ fieldAt u h k = some (fk, a) ∧ bs.length = fk.size ∧ setScal u s ha k v = wr s a bs := by
  unfold setScal
  split
  · rename_i h hh
    split
    · rename_i a hf
      exact Or.inr ⟨h, _, a, _, hh, hf, by simp [le_length, FK.size], rfl⟩
    · exact Or.inl rfl
  · exact Or.inl rfl

/-- a write through a reference lands in a scalar field of a LIVE node: the referent -/
theorem setVia_shape {u : Univ} {s : St} (hi : Inv u s) (ha k j v : Nat) : setVia u s ha k j v = s ∨
    ∃ e x, e ∈ s.live ∧ fieldAt u e j = some (.scal, x) ∧ setVia u s ha k j v = wr s x (le 8 v) := by
  unfold setVia
  split
  · rename_i h hh
    obtain ⟨hm, _, _⟩ := findObj_spec hh
    split
    · rename_i fk a hf
      split
      · rename_i t c hd hc
        obtain ⟨e, he, hea, hec⟩ := deref_live hi hm hf hd hc
        split
        · rename_i cl hcl
          split
          · rename_i hj
            have hft := fieldAt_of hec hcl hj
            rw [hea] at hft
            exact Or.inr ⟨e, _, he, hft, rfl⟩
          · exact Or.inl rfl
        · exact Or.inl rfl
      · exact Or.inl rfl
    · exact Or.inl rfl
  · exact Or.inl rfl

theorem updObj_shape {u : Univ} {s : St} (hi : Inv u s) (ha ta : Nat) : updObj u s ha ta = s ∨
    ∃ h bs, findObj s ha = some h ∧ bs.length = h.size ∧ updObj u s ha ta = wr s h.addr bs := by
  unfold updObj
  split
  · rename_i h t hh ht
    obtain ⟨hm, _, _⟩ := findObj_spec hh
    split
    · rename_i c c' hc hc'
      split
      · split
        · rename_i cl hcl
          obtain ⟨cl', hcl', hsz⟩ := hi.wf h hm c hc
          rw [hcl] at hcl'; cases hcl'
          exact Or.inr ⟨h, _, hh, by rw [copyBytesF_length, hsz], rfl⟩
        · exact Or.inl rfl
      · exact Or.inl rfl
    · exact Or.inl rfl
  · exact Or.inl rfl

/-- **an operation changes only the node it is applied to** (for a write through a reference: the referent) **and the storage of
the nodes it newly creates**: every other live region - node or raw allocation - keeps every byte, across growth too -/
theorem step_frame {u : Univ} {s : St} (hu : UWF u) (hi : Inv u s) (op : Op) (hcap : (step u s op).b.a.capacity < 2 ^ 62) :
    ∃ w : Option Ent, (∀ e0, w = some e0 → e0 ∈ s.live) ∧ ∀ e ∈ s.live, w ≠ some e → Unchanged s (step u s op) e := by
  have none_case : (∀ e ∈ s.live, Unchanged s (step u s op) e) →
      ∃ w : Option Ent, (∀ e0, w = some e0 → e0 ∈ s.live) ∧ ∀ e ∈ s.live, w ≠ some e → Unchanged s (step u s op) e :=
    fun h => ⟨none, (fun _ q => by cases q), fun e he _ => h e he⟩
  have same : step u s op = s → ∃ w : Option Ent, (∀ e0, w = some e0 → e0 ∈ s.live) ∧
      ∀ e ∈ s.live, w ≠ some e → Unchanged s (step u s op) e :=
    fun h => none_case (fun e _ => by rw [h]; exact unchanged_refl s e)
  have wr_case : ∀ (e0 : Ent) (x : Nat) (bs : List UInt8), e0 ∈ s.live → e0.addr ≤ x → x + bs.length ≤ e0.addr + e0.size →
      step u s op = wr s x bs → ∃ w : Option Ent, (∀ e0, w = some e0 → e0 ∈ s.live) ∧
      ∀ e ∈ s.live, w ≠ some e → Unchanged s (step u s op) e := by
    intro e0 x bs he0 h1 h2 heq
    refine ⟨some e0, (fun _ q => by cases q; exact he0), fun e he hne => ?_⟩
    rw [heq]
    exact wr_frame hi he0 x bs h1 h2 e he (fun q => hne (by rw [q]))
  have slot_case : ∀ (ha k : Nat), (step u s op = s ∨ ∃ h fk a bs, findObj s ha = some h ∧ fieldAt u h k = some (fk, a) ∧
      bs.length = fk.size ∧ step u s op = wr s a bs) → ∃ w : Option Ent, (∀ e0, w = some e0 → e0 ∈ s.live) ∧
      ∀ e ∈ s.live, w ≠ some e → Unchanged s (step u s op) e := by
    rintro ha k (h | ⟨h, fk, a, bs, hh, hf, hl, heq⟩)
    · exact same h
    · obtain ⟨hm, _, _⟩ := findObj_spec hh
      obtain ⟨i1, i2, _⟩ := slot_in hi hm hf
      exact wr_case h a bs hm i1 (by rw [hl]; exact i2) heq
  cases op with
  | new c vs => exact none_case (newObj_frame hi c vs)
  | copy h => exact none_case (copyObj_frame hi h)
  | alloc n al => exact none_case (rawAlloc_frame hi n al)
  | grow n =>
    apply none_case
    intro e he i h1 h2
    obtain ⟨_, m2⟩ := Buf.grow_mem s.b n hi.mem
    have hin := hi.a.inb (e.addr, e.size) (List.mem_map.mpr ⟨e, he, rfl⟩)
    simp only at hin
    exact m2 i (by omega)
  | bindObj h k t => exact slot_case h k (bindObj_shape u s h k t)
  | bindNull h k => exact slot_case h k (bindNull_shape u s h k)
  | setScal h k v => exact slot_case h k (setScal_shape u s h k v)
  | setVia h k j v =>
    rcases setVia_shape hi h k j v with e | ⟨e, x, he, hf, heq⟩
    · exact same e
    · obtain ⟨i1, i2, _⟩ := slot_in hi he hf
      exact wr_case e x _ he i1 (by simpa [le_length, FK.size] using i2) heq
  | upd h t =>
    rcases updObj_shape hi h t with e | ⟨e, bs, hh, hl, heq⟩
    · exact same e
    · obtain ⟨hm, _, _⟩ := findObj_spec hh
      exact wr_case e e.addr bs hm (Nat.le_refl _) (by rw [hl]; exact Nat.le_refl _) heq
  | bindVal h k c vs =>
    rcases bindVal_cases u s h k c vs with e | ⟨e0, fk, a, s1, o, bs, hh, hf, hn, heq, hk⟩
    · exact same e
    · obtain ⟨hm, _, _⟩ := findObj_spec hh
      have hcap1 : s1.b.a.capacity < 2 ^ 62 := by
        have : step u s (.bindVal h k c vs) = wr s1 a bs := heq
        rw [this] at hcap; simpa [wr] using hcap
      obtain ⟨hi1, _, hsub, _⟩ := newObj_spec hi hn hcap1
      obtain ⟨i1, i2, _⟩ := slot_in hi1 (hsub e0 hm) hf
      have hlen : bs.length = fk.size := by
        rcases hk with ⟨rfl, rfl⟩ | ⟨cs, rfl, _, rfl⟩
        · simp [refBytes, i64le_length, FK.size]
        · simp [urefBytes, refBytes, i64le_length, FK.size]
      refine ⟨some e0, (fun _ q => by cases q; exact hm), fun e he hne => ?_⟩
      have f1 : Unchanged s s1 e := by
        have := newObj_frame hi c vs e he
        rwa [hn] at this
      have f2 : Unchanged s1 (wr s1 a bs) e :=
        wr_frame hi1 (hsub e0 hm) a bs i1 (by rw [hlen]; exact i2) e (hsub e he) (fun q => hne (by rw [q]))
      intro i hi1' hi2'
      have : step u s (.bindVal h k c vs) = wr s1 a bs := heq
      rw [this, f2 i hi1' hi2', f1 i hi1' hi2']

theorem step_inv {u : Univ} {s : St} (hu : UWF u) (hi : Inv u s) (op : Op)
    (hcap : (step u s op).b.a.capacity < 2 ^ 62) : Inv u (step u s op) := by
  cases op with
  | new c vs =>
    simp only [step] at *
    cases hn : newObj u s c vs with
    | mk s1 o =>
      rw [hn] at hcap
      cases o with
      | none => rw [newObj_none hn]; exact hi
      | some o => exact (newObj_spec hi hn hcap).1
  | bindObj h k t => exact bindObj_inv hu hi h k t
  | bindNull h k => exact bindNull_inv hi h k
  | bindVal h k c vs => exact bindVal_inv hu hi h k c vs hcap
  | setScal h k v => exact setScal_inv hi h k v
  | setVia h k j v => exact setVia_inv hi h k j v
  | copy h =>
    simp only [step] at *
    cases hn : copyObj u s h with
    | mk s1 o =>
      rw [hn] at hcap
      cases o with
      | none => rw [copyObj_none hn]; exact hi
      | some o => exact (copyObj_spec hu hi hn hcap).1
  | upd h t => exact (updObj_spec hu hi h t).1
  | alloc n al => exact rawAlloc_inv hi n al hcap
  | grow n => exact grow_inv hi n hcap

theorem init_inv (u : Univ) (cap k : Nat) (gs : Option Nat) (hc : cap < 2 ^ 62) : Inv u (initSt cap (2 ^ k) gs) where
  a := Alloc.init_inv cap k gs
  mem := by simp [Buf.MemOK, initSt, Alloc.init]
  cap := hc
  wf := by intro e he; simp [initSt] at he
  refs := by intro e he; simp [initSt] at he

/-- **every reachable state** (histories whose final capacity stays below 2^62) -/
theorem history_inv {u : Univ} (hu : UWF u) : ∀ (ops : List Op) (s : St), Inv u s →
    (ops.foldl (step u) s).b.a.capacity < 2 ^ 62 → Inv u (ops.foldl (step u) s)
 | [], _, hi, _ => hi
 | op :: ops, s, hi, hc => by
    have h1 := fold_cap u ops (step u s op)
    simp only [List.foldl_cons] at hc ⊢
    exact history_inv hu ops (step u s op) (step_inv hu hi op (by omega)) hc

end RG
