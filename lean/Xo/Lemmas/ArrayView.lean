import Xo.Lemmas.Index
import Xo.Lemmas.LayoutRT
/-! What a view of an array finds: the header words (size, dynamic dimensions, strides) it reads are the ones the writer
stored, so the strides a view caches are `get_strides(shape, order, unit)` of the constructed object; hence, with the index
lemmas, the address a view (and the generated C code: same arithmetic) computes for an index tuple is the address of the
item at the tuple's MEMORY position, and what is read there is the written item. -/
namespace Lay
open MemS

/-- the header of a written array (anything but static shape + static items) is read back word for word -/
theorem array_header_read (it : Ty) (shape : List (Option Nat)) (order sh : List Nat) (items : List Val)
    (hw : (Ty.array it shape order).WF) (hc : Conf (.array it shape order) (.arr sh items))
    (hss : ((ainfo it shape).staticShape && (ainfo it shape).staticType) = false)
    (m : Mem) (off : Nat) (hb : off + vsize (.array it shape order) (.arr sh items) ≤ m.length) (m' : Mem)
    (hag : Agree m' (apply (shift off (patchesD (.array it shape order) (.arr sh items))) m) off
      (off + vsize (.array it shape order) (.arr sh items)))
    (hdr : List Nat)
    (hH : hdr = vsize (.array it shape order) (.arr sh items) :: (dynDims shape sh ++
      (if !(ainfo it shape).staticShape && (ainfo it shape).nd > 1 then getStrides sh order (ainfo it shape).unit else []))) :
    8 * hdr.length = (ainfo it shape).dataOff ∧ (ainfo it shape).dataOff ≤ vsize (.array it shape order) (.arr sh items) ∧
    readAt m' off (8 * hdr.length) = words hdr := by
  obtain ⟨hm, hl, hci, hd⟩ := hc
  obtain ⟨ho, hwi⟩ := hw
  have hitems : ∀ v ∈ items, Within (patchesD it v) 0 (vsize it v) := fun v hv =>
    withinD it v hwi (confItems_mem it items hci v hv)
  have hhl := header_length it shape order sh (vsize (.array it shape order) (.arr sh items)) hm ho hss
  rw [← hH] at hhl
  have h8 : 8 * hdr.length = (ainfo it shape).dataOff := by rw [← hhl, words_length]
  -- the patches after the header lie in [dataOff, vsize)
  have htail : ∃ tail, patchesD (.array it shape order) (.arr sh items) = (0, words hdr) :: tail ∧
      Within tail (ainfo it shape).dataOff (vsize (.array it shape order) (.arr sh items)) := by
    simp only [patchesD, hss, Bool.false_eq_true, ↓reduceIte, ← hH]
    by_cases hst : (ainfo it shape).staticType = true
    · obtain ⟨s, hs⟩ : ∃ s, it.ssize = some s := by
        simp only [ainfo] at hst; exact Option.isSome_iff_exists.mp hst
      have hu : (ainfo it shape).unit = s := by simp [ainfo, hs]
      refine ⟨placeS (patchesD it) (ainfo it shape).unit items (ainfo it shape).dataOff, by simp only [hst, ↓reduceIte], ?_⟩
      have := placeS_within (patchesD it) (ainfo it shape).unit items (ainfo it shape).dataOff (fun v hv => by
        have := hitems v hv
        rwa [conf_ssize it v s (confItems_mem it items hci v hv) hs, ← hu] at this)
      have hv : vsize (.array it shape order) (.arr sh items) = slot ((ainfo it shape).dataOff + (ainfo it shape).unit * items.length) := by
        simp [vsize, hst]
      have hsl := slot_ge ((ainfo it shape).dataOff + (ainfo it shape).unit * items.length)
      exact within_mono this (Nat.le_refl _) (by rw [hv]; omega)
    · have hst' : (ainfo it shape).staticType = false := by simpa using hst
      refine ⟨((ainfo it shape).dataOff, words (offsetsD (vsize it) items ((ainfo it shape).dataOff + 8 * items.length))) ::
          placeD (patchesD it) (vsize it) items ((ainfo it shape).dataOff + 8 * items.length),
        by simp only [hst', Bool.false_eq_true, ↓reduceIte], ?_⟩
      have hv : vsize (.array it shape order) (.arr sh items) =
          slot ((ainfo it shape).dataOff + 8 * items.length + sizesD (vsize it) items) := by simp [vsize, hst']
      have hsl := slot_ge ((ainfo it shape).dataOff + 8 * items.length + sizesD (vsize it) items)
      intro p hp
      rcases List.mem_cons.mp hp with rfl | hp
      · simp [words_length, offsetsD_length]; omega
      · have := placeD_within (patchesD it) (vsize it) items _ hitems p hp
        omega
  obtain ⟨tail, hpt, hwt⟩ := htail
  have hle : (ainfo it shape).dataOff ≤ vsize (.array it shape order) (.arr sh items) := by
    by_cases hst : (ainfo it shape).staticType = true
    · have hsl := slot_ge ((ainfo it shape).dataOff + (ainfo it shape).unit * items.length)
      simp only [vsize, hst, ↓reduceIte]; omega
    · have hsl := slot_ge ((ainfo it shape).dataOff + 8 * items.length + sizesD (vsize it) items)
      simp only [vsize, hst, Bool.false_eq_true, ↓reduceIte]; omega
  refine ⟨h8, hle, ?_⟩
  rw [hpt, shift_cons] at hag
  simp only [apply, List.foldl_cons, Nat.zero_add] at hag
  have hP := within_shift (d := off) hwt
  have hreg := region_after m off (words hdr) (shift off tail) (by omega)
    (by rw [hhl]; exact outside_of_within hP (Or.inr (by omega))) (inBounds_of_within hP (by omega))
  rw [hhl] at hreg
  rw [h8, readAt_agree hag (Nat.le_refl _) (by omega)]
  exact hreg

/-- **the strides a view caches are those of the constructed object**: class constants for static shapes, the header words
for N-D dynamic shapes, the item unit for 1-D -/
theorem view_strides (it : Ty) (shape : List (Option Nat)) (order sh : List Nat) (items : List Val)
    (hw : (Ty.array it shape order).WF) (hc : Conf (.array it shape order) (.arr sh items))
    (hperm : order.Perm (List.range shape.length))
    (hsw : ∀ s ∈ getStrides sh order (ainfo it shape).unit, s < 2 ^ 64)
    (m : Mem) (off : Nat) (hb : off + vsize (.array it shape order) (.arr sh items) ≤ m.length) (m' : Mem)
    (hag : Agree m' (apply (shift off (patchesD (.array it shape order) (.arr sh items))) m) off
      (off + vsize (.array it shape order) (.arr sh items))) :
    viewStrides it shape order m' off = getStrides sh order (ainfo it shape).unit := by
  have hm := hc.1
  have ho := hw.1
  unfold viewStrides
  by_cases hsS : (ainfo it shape).staticShape = true
  · simp only [hsS, ↓reduceIte]
    have h0 : countDyn shape = 0 := by simpa [ainfo] using hsS
    obtain ⟨dims, hdims⟩ := countDyn_zero_allStatic shape h0
    rw [readDims_static m' shape dims 0 hdims, allStatic_matches shape dims sh hdims hm]
  · have hsS' : (ainfo it shape).staticShape = false := by simpa using hsS
    simp only [hsS', Bool.false_eq_true, ↓reduceIte]
    have hss : ((ainfo it shape).staticShape && (ainfo it shape).staticType) = false := by simp [hsS']
    by_cases hnd : (ainfo it shape).nd > 1
    · simp only [hnd, ↓reduceIte]
      obtain ⟨h8, hle, hread⟩ := array_header_read it shape order sh items hw hc hss m off hb m' hag _ rfl
      have hndv : (ainfo it shape).nd = shape.length := rfl
      have hdl := dynDims_length shape sh hm
      have hndyn : (ainfo it shape).ndyn = countDyn shape := rfl
      apply List.ext_getElem
      · simp [getStrides_length, ho, hndv]
      · intro i h1 h2
        simp only [List.length_map, List.length_range] at h1
        simp only [List.getElem_map, List.getElem_range]
        have hcond : (!(ainfo it shape).staticShape && decide ((ainfo it shape).nd > 1)) = true := by simp [hsS', hnd]
        simp only [hcond, ↓reduceIte] at hread h8
        have hj : 1 + countDyn shape + i < (vsize (.array it shape order) (.arr sh items) :: (dynDims shape sh ++
            getStrides sh order (ainfo it shape).unit)).length := by
          simp [hdl, getStrides_length, ho, ← hndv]; omega
        have hget : (vsize (.array it shape order) (.arr sh items) :: (dynDims shape sh ++
            getStrides sh order (ainfo it shape).unit)).getD (1 + countDyn shape + i) 0 =
            (getStrides sh order (ainfo it shape).unit)[i] := by
          have e : 1 + countDyn shape + i = (countDyn shape + i) + 1 := by omega
          rw [e, List.getD_cons_succ, List.getD_eq_getElem?_getD, List.getElem?_append_right (by rw [hdl]; omega)]
          simp [hdl, h2]
        have hlt : (vsize (.array it shape order) (.arr sh items) :: (dynDims shape sh ++
            getStrides sh order (ainfo it shape).unit)).getD (1 + countDyn shape + i) 0 < 2 ^ 64 := by
          rw [hget]; exact hsw _ (List.getElem_mem h2)
        have := word_of_region m' off _ hread (1 + countDyn shape + i) hj hlt
        rw [hget] at this
        rw [← this, hndyn]
        congr 2
        omega
    · simp only [hnd, ↓reduceIte]
      -- one dimension: the only axis order is [0]
      have hnd1 : shape.length = 1 := by
        have hpos : 0 < countDyn shape := by
          have : countDyn shape ≠ 0 := by simpa [ainfo] using hsS'
          omega
        have : countDyn shape ≤ shape.length := by
          clear hpos hnd hss hsS hsS' hperm hsw hb hag hm ho hc hw
          induction shape with
          | nil => simp [countDyn]
          | cons a r ih => cases a <;> simp [countDyn] <;> omega
        have hndv : (ainfo it shape).nd = shape.length := rfl
        omega
      have hord : order = [0] := by
        have hl : order.length = 1 := by rw [ho, hnd1]
        have hmem : 0 ∈ order := (perm_range_mem hperm 0).mpr (by omega)
        match order, hl, hmem with
        | [a], _, hmem => simpa [eq_comm] using hmem
      have hshl : sh.length = 1 := by rw [shapeMatches_length shape sh hm, hnd1]
      match sh, hshl with
      | [d], _ => simp [hord, getStrides, cStrides, prod]

theorem readS_getElem? (g : Mem → Nat → Val) (isz : Nat) (m : Mem) : ∀ (n a k : Nat), k < n →
    (readS g isz m n a)[k]? = some (g m (a + isz * k))
 | n + 1, a, 0, _ => by simp [readS]
 | n + 1, a, k + 1, h => by
    simp only [readS, List.getElem?_cons_succ]
    rw [readS_getElem? g isz m n (a + isz) k (by omega)]
    congr 2
    rw [Nat.mul_succ]; omega

theorem readT_getElem? (g : Mem → Nat → Val) (m : Mem) (base : Nat) : ∀ (n ta k : Nat), k < n →
    (readT g m base n ta)[k]? = some (g m (base + fromLE (readAt m (ta + 8 * k) 8)))
 | n + 1, ta, 0, _ => by simp [readT]
 | n + 1, ta, k + 1, h => by
    simp only [readT, List.getElem?_cons_succ]
    rw [readT_getElem? g m base n (ta + 8) k (by omega)]
    congr 5
    omega

/-- **the item a view returns at an index tuple**: the address arithmetic of a view (and of the generated C accessors, which
compute the same expression) applied to a valid index tuple reaches the item at the tuple's memory position, and what is read
there is the item that was written - for fixed-size items directly, for dynamically sized items through the offset table -/
theorem view_item_at_index (it : Ty) (shape : List (Option Nat)) (order sh : List Nat) (items : List Val)
    (hw : (Ty.array it shape order).WF) (hc : Conf (.array it shape order) (.arr sh items))
    (hs : vsize (.array it shape order) (.arr sh items) < 2 ^ 64)
    (hperm : order.Perm (List.range shape.length))
    (hsw : ∀ s ∈ getStrides sh order (ainfo it shape).unit, s < 2 ^ 64)
    (m : Mem) (off : Nat) (hb : off + vsize (.array it shape order) (.arr sh items) ≤ m.length) (m' : Mem)
    (hag : Agree m' (apply (shift off (patchesD (.array it shape order) (.arr sh items))) m) off
      (off + vsize (.array it shape order) (.arr sh items)))
    (idx : List Nat) (hv : ValidIdx sh idx) :
    let pos := mposL sh order idx
    let a := off + (ainfo it shape).dataOff + dot idx (viewStrides it shape order m' off)
    pos < items.length ∧ dot idx (viewStrides it shape order m' off) = (ainfo it shape).unit * pos ∧
    (if (ainfo it shape).staticType then readD it m' a else readD it m' (off + fromLE (readAt m' a 8)))
      = (items.getD pos default).norm := by
  have hm := hc.1
  have hl := hc.2.1
  have hshl := shapeMatches_length shape sh hm
  have hperm' : order.Perm (List.range sh.length) := by rw [hshl]; exact hperm
  have hstr := view_strides it shape order sh items hw hc hperm hsw m off hb m' hag
  have hdot := dot_getStrides sh order idx (ainfo it shape).unit hperm' hv.1
  have hpos : mposL sh order idx < items.length := by rw [hl]; exact mposL_lt sh order idx hperm' hv
  have hrt := rtD _ _ hw hc hs m off hb m' hag
  refine ⟨hpos, by rw [hstr, hdot], ?_⟩
  rw [hstr, hdot]
  have hnorm : ∀ l : List Val, Val.norm.normL l = l.map Val.norm := normL_eq_map
  have hitem : (items.map Val.norm)[mposL sh order idx]? = some ((items.getD (mposL sh order idx) default).norm) := by
    simp [List.getD_eq_getElem?_getD, hpos]
  simp only [readD, Val.norm, hnorm] at hrt
  by_cases hss : ((ainfo it shape).staticShape && (ainfo it shape).staticType) = true
  · simp only [hss, ↓reduceIte] at hrt
    simp only [Bool.and_eq_true] at hss
    have hdo : (ainfo it shape).dataOff = 0 := by
      have h1 := hss.1; have h2 := hss.2
      simp only [ainfo] at h1 h2 ⊢
      simp at h1
      simp [h1, h2]
    injection hrt with hd hr
    simp only [hss.2, ↓reduceIte, hdo, Nat.add_zero]
    have := readS_getElem? (readD it) (ainfo it shape).unit m' (prod (readDims m' shape 0)) off (mposL sh order idx)
      (by rw [hd, ← hl]; exact hpos)
    rw [hr, hitem] at this
    exact (Option.some.inj this).symm
  · have hss' : ((ainfo it shape).staticShape && (ainfo it shape).staticType) = false := by simpa using hss
    simp only [hss', Bool.false_eq_true, ↓reduceIte] at hrt
    by_cases hst : (ainfo it shape).staticType = true
    · simp only [hst, ↓reduceIte] at hrt ⊢
      injection hrt with hd hr
      have := readS_getElem? (readD it) (ainfo it shape).unit m' (prod (readDims m' shape (off + 8)))
        (off + (ainfo it shape).dataOff) (mposL sh order idx) (by rw [hd, ← hl]; exact hpos)
      rw [hr, hitem] at this
      exact (Option.some.inj this).symm
    · have hst' : (ainfo it shape).staticType = false := by simpa using hst
      simp only [hst', Bool.false_eq_true, ↓reduceIte] at hrt ⊢
      injection hrt with hd hr
      have hu : (ainfo it shape).unit = 8 := by
        simp only [ainfo] at hst' ⊢
        cases h : it.ssize <;> simp_all
      have := readT_getElem? (readD it) m' off (prod (readDims m' shape (off + 8)))
        (off + (ainfo it shape).dataOff) (mposL sh order idx) (by rw [hd, ← hl]; exact hpos)
      rw [hr, hitem] at this
      rw [hu]
      exact (Option.some.inj this).symm

/-- the item-offset table of a written array of dynamically sized items is read back word for word -/
theorem array_table_read (it : Ty) (shape : List (Option Nat)) (order sh : List Nat) (items : List Val)
    (hw : (Ty.array it shape order).WF) (hc : Conf (.array it shape order) (.arr sh items))
    (hst : (ainfo it shape).staticType = false)
    (m : Mem) (off : Nat) (hb : off + vsize (.array it shape order) (.arr sh items) ≤ m.length) (m' : Mem)
    (hag : Agree m' (apply (shift off (patchesD (.array it shape order) (.arr sh items))) m) off
      (off + vsize (.array it shape order) (.arr sh items))) :
    readAt m' (off + (ainfo it shape).dataOff) (8 * items.length) =
      words (offsetsD (vsize it) items ((ainfo it shape).dataOff + 8 * items.length)) := by
  obtain ⟨hm, hl, hci, hd⟩ := hc
  obtain ⟨ho, hwi⟩ := hw
  have hitems : ∀ v ∈ items, Within (patchesD it v) 0 (vsize it v) := fun v hv =>
    withinD it v hwi (confItems_mem it items hci v hv)
  have hss : ((ainfo it shape).staticShape && (ainfo it shape).staticType) = false := by simp [hst]
  have hv : vsize (.array it shape order) (.arr sh items) =
      slot ((ainfo it shape).dataOff + 8 * items.length + sizesD (vsize it) items) := by simp [vsize, hst]
  have hsl := slot_ge ((ainfo it shape).dataOff + 8 * items.length + sizesD (vsize it) items)
  obtain ⟨hdrP, hpd⟩ : ∃ hdrP : Patch, patchesD (.array it shape order) (.arr sh items) =
      [hdrP] ++ ((ainfo it shape).dataOff, words (offsetsD (vsize it) items ((ainfo it shape).dataOff + 8 * items.length))) ::
        placeD (patchesD it) (vsize it) items ((ainfo it shape).dataOff + 8 * items.length) := by
    refine ⟨(0, words (vsize (.array it shape order) (.arr sh items) :: (dynDims shape sh ++
      (if !(ainfo it shape).staticShape && (ainfo it shape).nd > 1 then getStrides sh order (ainfo it shape).unit else [])))), ?_⟩
    simp only [patchesD, hst, Bool.and_false, Bool.false_eq_true, ↓reduceIte]
    rfl
  have hall : InBounds (shift off (patchesD (.array it shape order) (.arr sh items))) m.length := by
    intro q hq
    obtain ⟨r, hr, rfl⟩ := mem_shift hq
    have := withinD (.array it shape order) (.arr sh items) ⟨ho, hwi⟩ ⟨hm, hl, hci, hd⟩ r hr
    simp only
    omega
  rw [hpd, shift_append, shift_cons] at hall hag
  have hA : InBounds (shift off [hdrP]) m.length := fun q hq => hall q (List.mem_append_left _ hq)
  have hB : InBounds (shift off (placeD (patchesD it) (vsize it) items ((ainfo it shape).dataOff + 8 * items.length))) m.length :=
    fun q hq => hall q (List.mem_append_right _ (List.mem_cons_of_mem _ hq))
  have lA := apply_length _ m hA
  have hcons : ∀ (q : Patch) (ps : List Patch) (mm : Mem), apply (q :: ps) mm = apply ps (writeAt mm q.1 q.2) := fun _ _ _ => rfl
  rw [apply_append, hcons] at hag
  have hTl : (words (offsetsD (vsize it) items ((ainfo it shape).dataOff + 8 * items.length))).length = 8 * items.length := by
    rw [words_length, offsetsD_length]
  have hP := within_shift (d := off) (placeD_within (patchesD it) (vsize it) items
    ((ainfo it shape).dataOff + 8 * items.length) hitems)
  have hreg := region_after (apply (shift off [hdrP]) m) ((ainfo it shape).dataOff + off)
    (words (offsetsD (vsize it) items ((ainfo it shape).dataOff + 8 * items.length)))
    (shift off (placeD (patchesD it) (vsize it) items ((ainfo it shape).dataOff + 8 * items.length)))
    (by rw [hTl, lA]; rw [hv] at hb; omega)
    (by rw [hTl]; exact outside_of_within hP (Or.inr (by omega)))
    (by rw [lA]; exact hB)
  rw [hTl] at hreg
  rw [Nat.add_comm off, readAt_agree hag (by omega) (by rw [hv]; omega)]
  exact hreg

end Lay
