import Xo.Model.Assign
import Xo.Lemmas.Layout
/-! helper lemmas for whole-array updates (`Lay.updateArr`) -/
namespace Lay
open MemS

/-- forcing the size word of a header patch keeps every patch where it was and as long as it was -/
theorem keepSize_within (cur : Nat) (ps : List Patch) (lo hi : Nat) (h : Within ps lo hi)
    (h8 : ∀ bs rest, ps = (0, bs) :: rest → 8 ≤ bs.length) : Within (keepSize cur ps) lo hi := by
  match ps, h, h8 with
  | [], h, _ => simpa [keepSize] using h
  | (0, bs) :: rest, h, h8 =>
    have hl := h8 bs rest rfl
    intro p hp
    simp only [keepSize, List.mem_cons] at hp
    rcases hp with rfl | hp
    · have := h (0, bs) (by simp)
      simp only [List.length_append, le_length, List.length_drop] at this ⊢
      omega
    · exact h p (by simp [hp])
  | (n + 1, bs) :: rest, h, _ => simpa [keepSize] using h

end Lay
