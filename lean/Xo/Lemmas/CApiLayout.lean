import Xo.Model.CSem
import Xo.Lemmas.ArrayView
/-! The link between the two models: the index arithmetic the generated C code performs (`CGen.itemOffset`, the semantics of the
emitted statements by `C02_addr`) is the index arithmetic of a Python view (`Lay.viewStrides`, `Lay.dot`) - for EVERY memory,
because both read the same header words - and therefore, on memory the writer produced, reaches the item at the index tuple's
memory position (`view_item_at_index`). -/
namespace Lay
open MemS

/-- the header word a C accessor loads at a byte address of the buffer image (stored words are below 2^63) -/
def ldM (m : Mem) : CGen.Load := fun a => ((fromLE (readAt m a.toNat 8) : Nat) : Int)

theorem cgen_cStrides_aux (u : Nat) : ∀ sh : List Nat,
    sh.foldr (fun d (acc : List Nat × Nat) => (acc.2 :: acc.1, acc.2 * d)) ([], u) = (cStrides sh u, u * prod sh)
 | [] => by simp [cStrides, prod]
 | d :: ds => by
    simp only [List.foldr_cons, cgen_cStrides_aux u ds, cStrides, prod]
    rw [Nat.mul_comm d, Nat.mul_assoc]

theorem cgen_cStrides (sh : List Nat) (u : Nat) : CGen.cStrides sh u = cStrides sh u := by
  simp [CGen.cStrides, cgen_cStrides_aux]

theorem cgen_getStrides (sh order : List Nat) (u : Nat) : CGen.getStrides sh order u = getStrides sh order u := by
  simp [CGen.getStrides, getStrides, cgen_cStrides]

/-- the dynamic axes the C generator enumerates are as many as `countDyn` counts -/
theorem cgen_dyn_length : ∀ (shape : List (Option Nat)),
    ((List.range shape.length).filter fun i => (shape.getD i none).isNone).length = countDyn shape
 | [] => by simp [countDyn]
 | a :: r => by
    rw [List.length_cons, List.range_succ_eq_map, List.filter_cons]
    have ih := cgen_dyn_length r
    have hmap : (List.filter (fun i => ((a :: r).getD i none).isNone) (List.map Nat.succ (List.range r.length))).length
        = ((List.range r.length).filter fun i => (r.getD i none).isNone).length := by
      rw [List.filter_map, List.length_map]
      congr 1
    cases a with
    | none => simp only [List.getD_cons_zero, Option.isNone_none, ↓reduceIte, List.length_cons, hmap, ih, countDyn]; omega
    | some d => simp only [List.getD_cons_zero, Option.isNone_some, Bool.false_eq_true, ↓reduceIte, hmap, ih, countDyn]

/-- the class-level array facts of the C generator are those of the layout model -/
theorem cgen_arrInfo (itC : CGen.Ty) (it : Ty) (shape : List (Option Nat)) (order : List Nat)
    (hsz : CGen.Ty.ssize itC = it.ssize) :
    (CGen.arrInfo itC shape order).nd = (ainfo it shape).nd ∧
    (CGen.arrInfo itC shape order).dynIdx.length = (ainfo it shape).ndyn ∧
    (CGen.arrInfo itC shape order).dataOffset = (ainfo it shape).dataOff ∧
    (CGen.arrInfo itC shape order).staticType = (ainfo it shape).staticType ∧
    (CGen.arrInfo itC shape order).staticShape = (ainfo it shape).staticShape ∧
    (CGen.arrInfo itC shape order).staticStrides =
      (if (ainfo it shape).staticShape then some (getStrides (shape.map (·.getD 0)) order (ainfo it shape).unit)
       else if (ainfo it shape).nd > 1 then none else some [(ainfo it shape).unit]) := by
  have hd := cgen_dyn_length shape
  have hemp : ((List.range shape.length).filter fun i => (shape.getD i none).isNone).isEmpty = (countDyn shape == 0) := by
    rw [← hd]
    cases h : ((List.range shape.length).filter fun i => (shape.getD i none).isNone) <;> simp
  refine ⟨rfl, hd, ?_, by simp [CGen.arrInfo, ainfo, hsz], by simp only [CGen.arrInfo, ainfo]; exact hemp, ?_⟩
  · simp only [CGen.arrInfo, ainfo, hd, hemp, hsz]
  · simp only [CGen.arrInfo, ainfo, hemp, cgen_getStrides, hsz]
    cases it.ssize <;> rfl

theorem readDims_allstatic (m : Mem) : ∀ (shape : List (Option Nat)) (a : Nat), countDyn shape = 0 →
    readDims m shape a = shape.map (·.getD 0)
 | [], _, _ => rfl
 | some d :: r, a, h => by simp [readDims, readDims_allstatic m r a (by simpa [countDyn] using h)]
 | none :: r, _, h => by simp [countDyn] at h

theorem countDyn_le_length : ∀ shape : List (Option Nat), countDyn shape ≤ shape.length
 | [] => by simp [countDyn]
 | some _ :: r => by have := countDyn_le_length r; simp [countDyn]; omega
 | none :: r => by have := countDyn_le_length r; simp [countDyn]; omega

/-- **the strides the C code uses are the strides the view caches**, in every memory: class-level constants are the same
constants, and for N-dimensional dynamic shapes both load the same header words -/
theorem cgen_strideAt (itC : CGen.Ty) (it : Ty) (shape : List (Option Nat)) (order : List Nat)
    (hsz : CGen.Ty.ssize itC = it.ssize) (m : Mem) (off : Nat) :
    CGen.nStrides (CGen.arrInfo itC shape order) = (viewStrides it shape order m off).length ∧
    ∀ ii, ii < (viewStrides it shape order m off).length →
      CGen.strideAt (ldM m) (off : Int) (CGen.arrInfo itC shape order) ii = (((viewStrides it shape order m off).getD ii 0 : Nat) : Int) := by
  obtain ⟨h1, h2, _, _, h5, h6⟩ := cgen_arrInfo itC it shape order hsz
  have hnd : (ainfo it shape).nd = shape.length := rfl
  unfold CGen.nStrides CGen.strideAt viewStrides
  rw [h6]
  by_cases hS : (ainfo it shape).staticShape = true
  · have h0 : countDyn shape = 0 := by simpa [ainfo] using hS
    simp only [hS, ↓reduceIte, readDims_allstatic m shape 0 h0]
    exact ⟨trivial, fun ii _ => trivial⟩
  · have hS' : (ainfo it shape).staticShape = false := by simpa using hS
    simp only [hS', Bool.false_eq_true, ↓reduceIte]
    by_cases hn : (ainfo it shape).nd > 1
    · simp only [hn, ↓reduceIte, List.length_map, List.length_range]
      refine ⟨h1, ?_⟩
      intro ii hii
      simp only [ldM, List.getD_eq_getElem?_getD, List.getElem?_map, List.getElem?_range hii, Option.map_some, Option.getD_some, h2]
      congr 3
      have hndyn : (ainfo it shape).ndyn = countDyn shape := rfl
      rw [← Int.natCast_add, Int.toNat_natCast]
      omega
    · simp only [hn, ↓reduceIte, List.length_cons, List.length_nil]
      refine ⟨trivial, fun ii hii => ?_⟩
      have : ii = 0 := by omega
      subst this
      trivial

theorem dot_drop (l1 l2 : List Nat) (j : Nat) (h1 : j < l1.length) (h2 : j < l2.length) :
    dot (l1.drop j) (l2.drop j) = l1.getD j 0 * l2.getD j 0 + dot (l1.drop (j + 1)) (l2.drop (j + 1)) := by
  rw [List.drop_eq_getElem_cons h1, List.drop_eq_getElem_cons h2]
  simp [dot, List.getD_eq_getElem?_getD, h1, h2]

/-- the C sum `Σ idx[ic+j] * stride j` over the strides the C code uses is the view's `dot` -/
theorem cgen_dotIdx (ld : CGen.Load) (base : Int) (ai : CGen.ArrInfo) (idx strides : List Nat)
    (hs : ∀ ii, ii < strides.length → CGen.strideAt ld base ai ii = ((strides.getD ii 0 : Nat) : Int))
    (hl : idx.length = strides.length) :
    ∀ (n j : Nat), j + n = strides.length →
      CGen.dotIdx ld base ai (idx.map Int.ofNat) 0 j n = ((dot (idx.drop j) (strides.drop j) : Nat) : Int)
 | 0, j, h => by
    have : idx.drop j = [] := List.drop_eq_nil_of_le (by omega)
    simp [CGen.dotIdx, this, dot]
 | n + 1, j, h => by
    have hj : j < strides.length := by omega
    simp only [CGen.dotIdx, Nat.zero_add]
    rw [cgen_dotIdx ld base ai idx strides hs hl n (j + 1) (by omega), hs j hj, dot_drop idx strides j (by omega) hj]
    have : (idx.map Int.ofNat).getD j 0 = ((idx.getD j 0 : Nat) : Int) := by
      simp only [List.getD_eq_getElem?_getD, List.getElem?_map]
      cases idx[j]? <;> simp
    rw [this]
    push_cast
    rfl

/-- **the C index arithmetic is the view's index arithmetic**: for every memory, every array type (the C item type and the
layout item type agreeing on the static size) and every index tuple, the address the emitted statements compute for an item
(`itemOffset`, by `C02_addr` the semantics of the generated code) is the address a Python view computes: data offset plus
`Σ idx·stride` with the strides the view caches, and for dynamically sized items the table entry found there -/
theorem cgen_itemOffset (itC : CGen.Ty) (it : Ty) (shape : List (Option Nat)) (order : List Nat)
    (hsz : CGen.Ty.ssize itC = it.ssize) (m : Mem) (off : Nat) (idx : List Nat)
    (hl : idx.length = (viewStrides it shape order m off).length) :
    let a := off + (ainfo it shape).dataOff + dot idx (viewStrides it shape order m off)
    CGen.itemOffset (ldM m) 0 (off : Int) (.array itC shape order) (idx.map Int.ofNat) 0 =
      if (ainfo it shape).staticType then (a : Int) else ((off + fromLE (readAt m a 8) : Nat) : Int) := by
  obtain ⟨_, _, h3, h4, _, _⟩ := cgen_arrInfo itC it shape order hsz
  obtain ⟨hn, hs⟩ := cgen_strideAt itC it shape order hsz m off
  have hd := cgen_dotIdx (ldM m) ((0 : Int) + (off : Int)) (CGen.arrInfo itC shape order) idx (viewStrides it shape order m off)
    (by simpa using hs) hl (viewStrides it shape order m off).length 0 (by omega)
  simp only [CGen.itemOffset, hn, hd, List.drop_zero, h3, h4]
  split
  · push_cast; omega
  · simp only [ldM]
    push_cast
    congr 3
    rw [show (0 : Int) + (off : Int) + (((ainfo it shape).dataOff : Int) + ((dot idx (viewStrides it shape order m off) : Nat) : Int))
        = ((off + (ainfo it shape).dataOff + dot idx (viewStrides it shape order m off) : Nat) : Int) by push_cast; omega]
    rw [Int.toNat_natCast]

/-! ### the same with the index variables taken from position `ic` of a longer argument list (nested arrays) -/

theorem cgen_dotIdx_at (ld : CGen.Load) (base : Int) (ai : CGen.ArrInfo) (idxAll : List Int) (ic : Nat) (idx strides : List Nat)
    (hs : ∀ ii, ii < strides.length → CGen.strideAt ld base ai ii = ((strides.getD ii 0 : Nat) : Int))
    (hl : idx.length = strides.length)
    (hidx : ∀ j, j < strides.length → idxAll.getD (ic + j) 0 = ((idx.getD j 0 : Nat) : Int)) :
    ∀ (n j : Nat), j + n = strides.length →
      CGen.dotIdx ld base ai idxAll ic j n = ((dot (idx.drop j) (strides.drop j) : Nat) : Int)
 | 0, j, h => by
    have : idx.drop j = [] := List.drop_eq_nil_of_le (by omega)
    simp [CGen.dotIdx, this, dot]
 | n + 1, j, h => by
    have hj : j < strides.length := by omega
    simp only [CGen.dotIdx]
    rw [cgen_dotIdx_at ld base ai idxAll ic idx strides hs hl hidx n (j + 1) (by omega), hs j hj, hidx j hj,
      dot_drop idx strides j (by omega) hj]
    push_cast
    rfl

theorem cgen_itemOffset_at (itC : CGen.Ty) (it : Ty) (shape : List (Option Nat)) (order : List Nat)
    (hsz : CGen.Ty.ssize itC = it.ssize) (m : Mem) (off : Nat) (idx : List Nat) (idxAll : List Int) (ic : Nat)
    (hl : idx.length = (viewStrides it shape order m off).length)
    (hidx : ∀ j, j < idx.length → idxAll.getD (ic + j) 0 = ((idx.getD j 0 : Nat) : Int)) :
    let a := off + (ainfo it shape).dataOff + dot idx (viewStrides it shape order m off)
    CGen.itemOffset (ldM m) 0 (off : Int) (.array itC shape order) idxAll ic =
      if (ainfo it shape).staticType then (a : Int) else ((off + fromLE (readAt m a 8) : Nat) : Int) := by
  obtain ⟨_, _, h3, h4, _, _⟩ := cgen_arrInfo itC it shape order hsz
  obtain ⟨hn, hs⟩ := cgen_strideAt itC it shape order hsz m off
  have hd := cgen_dotIdx_at (ldM m) ((0 : Int) + (off : Int)) (CGen.arrInfo itC shape order) idxAll ic idx
    (viewStrides it shape order m off) (by simpa using hs) hl (by rw [← hl]; exact hidx)
    (viewStrides it shape order m off).length 0 (by omega)
  simp only [CGen.itemOffset, hn, hd, List.drop_zero, h3, h4]
  split
  · push_cast; omega
  · simp only [ldM]
    push_cast
    congr 3
    rw [show (0 : Int) + (off : Int) + (((ainfo it shape).dataOff : Int) + ((dot idx (viewStrides it shape order m off) : Nat) : Int))
        = ((off + (ainfo it shape).dataOff + dot idx (viewStrides it shape order m off) : Nat) : Int) by push_cast; omega]
    rw [Int.toNat_natCast]

end Lay
