import Xo.Lemmas.Layout
/-! The agreement-strengthened round trip of the layout proof model:
for every memory `m'` that agrees with the written memory on the object's extent, the VIEW reads the written value.
This one statement gives the round trip, read locality and (with the frame lemma) the induction step for compounds. -/
namespace Lay
open MemS

theorem normL_eq_map : ∀ vs : List Val, Val.norm.normL vs = vs.map Val.norm
 | [] => rfl
 | v :: vs => by simp [Val.norm.normL, normL_eq_map vs]

theorem vsize_pos_dyn : ∀ (t : Ty) (v : Val), Conf t v → t.ssize = none → 8 ≤ vsize t v
 | .string, .str bs, _, _ => by have := slot_ge (bs.length + 1 + 8); simp [vsize]; omega
 | .string, .cap n, _, _ => by simp [vsize]
 | .struct fs, .struct vs, _, h => by
    simp only [Ty.ssize] at h
    simp [vsize, h, dynStart]; omega
 | .array it shape order, .arr sh items, hc, h => by
    have hdo : 8 ≤ (ainfo it shape).dataOff := by
      simp only [Ty.ssize] at h
      simp only [ainfo]
      cases hs : it.ssize with
      | none => simp
      | some s =>
        cases hd : allStatic shape with
        | some dims => simp [hs, hd] at h
        | none =>
          have : countDyn shape ≠ 0 := by
            intro h0
            obtain ⟨dims, hdims⟩ := countDyn_zero_allStatic shape h0
            simp [hd] at hdims
          simp [this]
    simp only [vsize]
    split
    · have := slot_ge ((ainfo it shape).dataOff + (ainfo it shape).unit * items.length); omega
    · have := slot_ge ((ainfo it shape).dataOff + 8 * items.length + sizesD (vsize it) items); omega
 | .scalar w, v, _, h => by simp [Ty.ssize] at h
 | .string, .bits _, hc, _ | .string, .struct _, hc, _ | .string, .arr _ _, hc, _ => by simp [Conf] at hc
 | .struct _, .bits _, hc, _ | .struct _, .str _, hc, _ | .struct _, .arr _ _, hc, _ | .struct _, .cap _, hc, _ => by simp [Conf] at hc
 | .array _ _ _, .bits _, hc, _ | .array _ _ _, .str _, hc, _ | .array _ _ _, .struct _, hc, _ | .array _ _ _, .cap _, hc, _ => by simp [Conf] at hc

theorem outside_rest (fs : List Ty) (vs : List Val) (so k dof sb : Nat) (hw : WFFields fs) (hc : ConfFields fs vs) (base lo hi : Nat)
    (h : ∀ p : Patch, In3 p so (so + staticBytes fs) (sb + 8 * (k - 1)) (sb + 8 * (k + ndynF fs - 1)) dof (dof + dynSizes fs vs) →
      p.1 + base + p.2.length ≤ lo ∨ hi ≤ p.1 + base) :
    Outside (shift base (dPatches fs vs so k dof sb)) lo hi := by
  intro q hq
  obtain ⟨p, hp, rfl⟩ := mem_shift hq
  exact h p (regionsD fs vs so k dof sb hw hc p hp)

theorem inBounds_rest (fs : List Ty) (vs : List Val) (so k dof sb : Nat) (hw : WFFields fs) (hc : ConfFields fs vs) (base n : Nat)
    (h : ∀ p : Patch, In3 p so (so + staticBytes fs) (sb + 8 * (k - 1)) (sb + 8 * (k + ndynF fs - 1)) dof (dof + dynSizes fs vs) →
      p.1 + base + p.2.length ≤ n) :
    InBounds (shift base (dPatches fs vs so k dof sb)) n := by
  intro q hq
  obtain ⟨p, hp, rfl⟩ := mem_shift hq
  exact h p (regionsD fs vs so k dof sb hw hc p hp)

/-- a region written first and not touched by the later patches still holds what was written -/
theorem region_after (m : Mem) (a : Nat) (bs : List UInt8) (rest : List Patch) (h : a + bs.length ≤ m.length)
    (hout : Outside rest a (a + bs.length)) (hin : InBounds rest m.length) :
    readAt (apply rest (writeAt m a bs)) a bs.length = bs := by
  have hl := length_writeAt m a bs h
  have hag := apply_outside rest (writeAt m a bs) a (a + bs.length) hout (by rw [hl]; exact hin)
  rw [readAt_agree hag (Nat.le_refl _) (Nat.le_refl _)]
  exact readAt_writeAt_same m a bs h

theorem sizesD_items_le (sz : Val → Nat) : ∀ (items : List Val) (v : Val), v ∈ items → sz v ≤ sizesD sz items
 | x :: xs, v, hv => by
    simp only [sizesD]
    have := slot_ge (sz x)
    rcases List.mem_cons.mp hv with rfl | hv
    · omega
    · have := sizesD_items_le sz xs v hv; omega

theorem offsetsD_bound (sz : Val → Nat) : ∀ (items : List Val) (pos j : Nat), j < items.length →
    (offsetsD sz items pos).getD j 0 ≤ pos + sizesD sz items
 | v :: vs, pos, 0, _ => by simp [offsetsD, sizesD]
 | v :: vs, pos, j + 1, h => by
    have := offsetsD_bound sz vs (pos + slot (sz v)) j (by simpa using h)
    simp only [offsetsD, sizesD, List.getD_cons_succ]
    omega

end Lay

namespace Lay
open MemS

theorem dynDims_subset : ∀ (shape : List (Option Nat)) (sh : List Nat) (d : Nat), d ∈ dynDims shape sh → d ∈ sh
 | some _ :: r, _ :: ds, d, h => List.mem_cons_of_mem _ (dynDims_subset r ds d (by simpa [dynDims] using h))
 | none :: r, x :: ds, d, h => by
    simp only [dynDims, List.mem_cons] at h
    rcases h with rfl | h
    · exact List.mem_cons_self
    · exact List.mem_cons_of_mem _ (dynDims_subset r ds d h)
 | [], _, _, h => by simp [dynDims] at h
 | some _ :: _, [], _, h => by simp [dynDims] at h
 | none :: _, [], _, h => by simp [dynDims] at h

mutual
theorem rtD : ∀ (t : Ty) (v : Val), t.WF → Conf t v → vsize t v < 2^64 → ∀ (m : Mem) (off : Nat), off + vsize t v ≤ m.length →
    ∀ m', Agree m' (apply (shift off (patchesD t v)) m) off (off + vsize t v) → readD t m' off = v.norm
 | .scalar w, .bits b, _, hc, _, m, off, hb, m', hag => by
    simp only [patchesD, shift, List.map_cons, List.map_nil, apply, List.foldl_cons, List.foldl_nil, Nat.zero_add, vsize] at hag hb
    simp only [readD, Val.norm]
    have hl := le_length w b
    rw [readAt_agree hag (Nat.le_refl _) (Nat.le_refl _)]
    have := readAt_writeAt_same m off (le w b) (by omega)
    rw [hl] at this
    rw [this, fromLE_le, Nat.mod_eq_of_lt hc]
 | .string, .str bs, _, hc, _, m, off, hb, m', hag => by
    simp only [patchesD, shift, List.map_cons, List.map_nil, apply, List.foldl_cons, List.foldl_nil, Nat.zero_add, vsize] at hag hb
    simp only [readD, Val.norm]
    have hsl := slot_ge (bs.length + 1 + 8)
    have hsl2 : slot (bs.length + 1 + 8) < bs.length + 17 := by unfold slot; omega
    have hl := le_length 8 (slot (bs.length + 1 + 8))
    have hlen1 := length_writeAt m off (le 8 (slot (bs.length + 1 + 8))) (by omega)
    have hdl : (bs ++ zeros (slot (bs.length + 1 + 8) - 8 - bs.length)).length = slot (bs.length + 1 + 8) - 8 := by
      simp [zeros]; omega
    have hsz : readAt m' off 8 = le 8 (slot (bs.length + 1 + 8)) := by
      rw [readAt_agree hag (Nat.le_refl _) (by omega)]
      rw [readAt_writeAt_disj _ _ _ (by omega) _ _ (by omega)]
      have := readAt_writeAt_same m off (le 8 (slot (bs.length + 1 + 8))) (by omega)
      rwa [hl] at this
    rw [hsz, fromLE_le, Nat.mod_eq_of_lt (by have := hc.2; omega)]
    have hdat : readAt m' (off + 8) (slot (bs.length + 1 + 8) - 8) = bs ++ zeros (slot (bs.length + 1 + 8) - 8 - bs.length) := by
      rw [readAt_agree hag (by omega) (by omega)]
      have := readAt_writeAt_same (writeAt m off (le 8 (slot (bs.length + 1 + 8)))) (8 + off)
        (bs ++ zeros (slot (bs.length + 1 + 8) - 8 - bs.length)) (by omega)
      rw [hdl] at this
      rw [Nat.add_comm off 8]; exact this
    rw [hdat, stripNul_append_zeros _ _ hc.1]
 | .string, .cap n, _, hc, _, m, off, hb, m', hag => by
    simp only [patchesD, shift, List.map_cons, List.map_nil, apply, List.foldl_cons, List.foldl_nil, Nat.zero_add, vsize] at hag hb
    simp only [readD, Val.norm]
    have hl := le_length 8 (n + 8)
    have hlen1 := length_writeAt m off (le 8 (n + 8)) (by omega)
    have hsz : readAt m' off 8 = le 8 (n + 8) := by
      rw [readAt_agree hag (Nat.le_refl _) (by omega)]
      rw [readAt_writeAt_disj _ _ _ (by simp [zeros]; omega) _ _ (by omega)]
      have := readAt_writeAt_same m off (le 8 (n + 8)) (by omega)
      rwa [hl] at this
    rw [hsz, fromLE_le, Nat.mod_eq_of_lt (by simpa [Conf] using hc)]
    have hdat : readAt m' (off + 8) (n + 8 - 8) = zeros n := by
      rw [readAt_agree hag (by omega) (by omega)]
      have := readAt_writeAt_same (writeAt m off (le 8 (n + 8))) (8 + off) (zeros n) (by simp [zeros]; omega)
      simp only [zeros, List.length_replicate] at this
      rw [Nat.add_comm off 8, Nat.add_sub_cancel]; exact this
    rw [hdat]
    have := stripNul_append_zeros [] n (by simp)
    simpa using this
 | .struct fs, .struct vs, hw, hc, hsz, m, off, hb, m', hag => by
    simp only [readD, Val.norm]
    simp only [patchesD] at hag
    have hwf : WFFields fs := by simpa [Ty.WF] using hw
    split
    · rename_i s hs
      simp only [hs, vsize] at hag hb hsz
      have := rtS fs vs 0 s hwf (by simpa [Conf] using hc) hs (by omega) m off s (by omega) (by omega) m' (by simpa using hag)
      simpa using this
    · rename_i hs
      have hv : vsize (.struct fs) (.struct vs) = dynStart fs + dynSizes fs vs := by simp [vsize, hs]
      simp only [hs] at hag
      rw [shift_cons] at hag
      have hcf : ConfFields fs vs := by simpa [Conf] using hc
      have hl0 := length_writeAt m (0 + off) (le 8 (vsize (.struct fs) (.struct vs))) (by simp [le_length]; rw [hv] at hb; unfold dynStart at hb; omega)
      have := rtDyn fs vs 8 0 (dynStart fs) (8 + staticBytes fs) hwf hcf (vsize (.struct fs) (.struct vs)) hsz
        (ndynF fs) (by omega) (by omega) (by unfold dynStart; omega) (by omega)
        (writeAt m (0 + off) (le 8 (vsize (.struct fs) (.struct vs)))) off (by omega) (dynStart fs) (fun _ => rfl) m'
        (by simpa [apply] using hag)
      exact congrArg Val.struct this
 | .array it shape order, .arr sh items, hw, hc, hsz, m, off, hb, m', hag => by
    obtain ⟨hm, hl, hci, hdims⟩ := hc
    obtain ⟨ho, hwi⟩ := hw
    have hcm := confItems_mem it items hci
    have hwithin : ∀ v ∈ items, Within (patchesD it v) 0 (vsize it v) := fun v hv => withinD it v hwi (hcm v hv)
    simp only [Val.norm, normL_eq_map]
    simp only [patchesD] at hag
    simp only [readD]
    split
    · -- static shape, static items, no header
      rename_i hss
      simp only [hss, ↓reduceIte] at hag
      simp only [Bool.and_eq_true] at hss
      have hst : (ainfo it shape).staticType = true := hss.2
      obtain ⟨s, hs⟩ : ∃ s, it.ssize = some s := by
        simp only [ainfo] at hst; exact Option.isSome_iff_exists.mp hst
      have hu : (ainfo it shape).unit = s := by simp [ainfo, hs]
      have hcd : countDyn shape = 0 := by
        have h1 : (ainfo it shape).staticShape = true := hss.1
        simpa [ainfo] using h1
      have hdo : (ainfo it shape).dataOff = 0 := by simp [ainfo, hcd, hs]
      obtain ⟨dims, hd⟩ := countDyn_zero_allStatic shape hcd
      have hsh := allStatic_matches shape dims sh hd hm
      have hv : vsize (.array it shape order) (.arr sh items) = slot (s * items.length) := by
        simp [vsize, hst, hdo, hu]
      rw [hv] at hb hag hsz
      have hsl := slot_ge (s * items.length)
      rw [readDims_static m' shape dims 0 hd, ← hsh, ← hl, hu]
      congr 1
      have := placeS_rt (patchesD it) (readD it) s Val.norm items 0 (fun v hv => by
          have hvs := conf_ssize it v s (hcm v hv) hs
          refine ⟨by have := hwithin v hv; rwa [hvs] at this, ?_⟩
          intro m0 o0 hb0 m0' hag0
          have hpos : 0 < items.length := List.length_pos_of_mem hv
          have hle : s ≤ s * items.length := Nat.le_mul_of_pos_right s hpos
          exact rtD it v hwi (hcm v hv) (by rw [hvs]; omega)
            m0 o0 (by rw [hvs]; exact hb0) m0' (by rw [hvs]; exact hag0))
        m off (by omega) m' (by
          rw [hu] at hag
          intro i h1 h2; exact hag i (by omega) (by omega))
      simpa using this
    · rename_i hss
      have hss' : ((ainfo it shape).staticShape && (ainfo it shape).staticType) = false := by simpa using hss
      simp only [hss', Bool.false_eq_true, ↓reduceIte] at hag
      have hhl := header_length it shape order sh (vsize (.array it shape order) (.arr sh items)) hm ho hss'
      generalize hH : (vsize (.array it shape order) (.arr sh items) :: (dynDims shape sh ++
          (if !(ainfo it shape).staticShape && (ainfo it shape).nd > 1 then getStrides sh order (ainfo it shape).unit else []))) = hdr at hag hhl
      rw [shift_cons] at hag
      simp only [apply, List.foldl_cons, Nat.zero_add] at hag
      -- the header words are read back by the view
      have hdimsread : ∀ rest : List Patch, Outside rest off (off + (ainfo it shape).dataOff) → InBounds rest m.length →
          Agree m' (apply rest (writeAt m off (words hdr))) off (off + vsize (.array it shape order) (.arr sh items)) →
          (ainfo it shape).dataOff ≤ vsize (.array it shape order) (.arr sh items) →
          readDims m' shape (off + 8) = sh := by
        intro rest hout hin hagr hle
        have hreg := region_after m off (words hdr) rest (by omega) (by rw [hhl]; exact hout) hin
        rw [hhl] at hreg
        have hreg' : readAt m' off (8 * hdr.length) = words hdr := by
          have : 8 * hdr.length = (ainfo it shape).dataOff := by rw [← hhl, words_length]
          rw [this, readAt_agree hagr (Nat.le_refl _) (by omega)]
          exact hreg
        apply readDims_dyn m' shape sh (off + 8) hm
        intro j hj
        have hjl : j + 1 < hdr.length := by rw [← hH]; simp; omega
        have hget : hdr.getD (j + 1) 0 = (dynDims shape sh).getD j 0 := by
          rw [← hH]
          simp only [List.getD_eq_getElem?_getD, List.getElem?_cons_succ]
          rw [List.getElem?_append_left hj]
        have hlt : hdr.getD (j + 1) 0 < 2 ^ 64 := by
          rw [hget]
          have hmem : (dynDims shape sh).getD j 0 ∈ dynDims shape sh := by
            rw [List.getD_eq_getElem?_getD, List.getElem?_eq_getElem hj]; simp
          exact hdims _ (dynDims_subset shape sh _ hmem)
        have := word_of_region m' off hdr hreg' (j + 1) hjl hlt
        rw [← hget, ← this]; congr 2; omega
      by_cases hst : (ainfo it shape).staticType = true
      · -- dynamic shape, static items
        simp only [hst, ↓reduceIte] at hag ⊢
        obtain ⟨s, hs⟩ : ∃ s, it.ssize = some s := by
          simp only [ainfo] at hst; exact Option.isSome_iff_exists.mp hst
        have hu : (ainfo it shape).unit = s := by simp [ainfo, hs]
        have hv : vsize (.array it shape order) (.arr sh items) = slot ((ainfo it shape).dataOff + s * items.length) := by
          simp [vsize, hst, hu]
        have hsl := slot_ge ((ainfo it shape).dataOff + s * items.length)
        have hitemsW : ∀ v ∈ items, Within (patchesD it v) 0 s := fun v hv => by
          have := hwithin v hv; rwa [conf_ssize it v s (hcm v hv) hs] at this
        have hP := within_shift (d := off) (placeS_within (patchesD it) s items (ainfo it shape).dataOff hitemsW)
        rw [hu] at hag
        have hdr_ok := hdimsread (shift off (placeS (patchesD it) s items (ainfo it shape).dataOff))
          (outside_of_within hP (by omega)) (inBounds_of_within hP (by rw [hv] at hb; omega)) hag (by rw [hv]; omega)
        rw [hdr_ok, ← hl, hu]
        congr 1
        have hlen1 := length_writeAt m off (words hdr) (by rw [hhl]; rw [hv] at hb; omega)
        have := placeS_rt (patchesD it) (readD it) s Val.norm items (ainfo it shape).dataOff (fun v hv' => by
            have hvs := conf_ssize it v s (hcm v hv') hs
            refine ⟨hitemsW v hv', ?_⟩
            intro m0 o0 hb0 m0' hag0
            have hpos : 0 < items.length := List.length_pos_of_mem hv'
            have hle : s ≤ s * items.length := Nat.le_mul_of_pos_right s hpos
            exact rtD it v hwi (hcm v hv') (by rw [hvs]; rw [hv] at hsz; omega)
              m0 o0 (by rw [hvs]; exact hb0) m0' (by rw [hvs]; exact hag0))
          (writeAt m off (words hdr)) off (by rw [hv] at hb; omega) m' (by
            intro i h1 h2; exact hag i (by omega) (by rw [hv]; omega))
        simpa [Nat.add_assoc] using this
      · -- dynamic items: offset table, then the items
        have hst' : (ainfo it shape).staticType = false := by simpa using hst
        simp only [hst', Bool.false_eq_true, ↓reduceIte] at hag ⊢
        have hv : vsize (.array it shape order) (.arr sh items) =
            slot ((ainfo it shape).dataOff + 8 * items.length + sizesD (vsize it) items) := by
          simp [vsize, hst']
        have hsl := slot_ge ((ainfo it shape).dataOff + 8 * items.length + sizesD (vsize it) items)
        rw [shift_cons] at hag
        simp only [apply, List.foldl_cons] at hag
        generalize hT : offsetsD (vsize it) items ((ainfo it shape).dataOff + 8 * items.length) = offs at hag
        have hTl : (words offs).length = 8 * items.length := by rw [words_length, ← hT, offsetsD_length]
        have hP := within_shift (d := off) (placeD_within (patchesD it) (vsize it) items
          ((ainfo it shape).dataOff + 8 * items.length) hwithin)
        have hlen1 := length_writeAt m off (words hdr) (by rw [hhl]; rw [hv] at hb; omega)
        have hlen2 := length_writeAt (writeAt m off (words hdr)) ((ainfo it shape).dataOff + off) (words offs)
          (by rw [hTl, hlen1]; rw [hv] at hb; omega)
        -- header
        have hdr_ok := hdimsread ((( ainfo it shape).dataOff + off, words offs) ::
            shift off (placeD (patchesD it) (vsize it) items ((ainfo it shape).dataOff + 8 * items.length)))
          (by
            intro q hq
            rcases List.mem_cons.mp hq with rfl | hq
            · right; simp; omega
            · have := hP q hq; right; omega)
          (by
            intro q hq
            rcases List.mem_cons.mp hq with rfl | hq
            · simp only [hTl]; rw [hv] at hb; omega
            · have := hP q hq; rw [hv] at hb; omega)
          (by simpa [apply] using hag) (by rw [hv]; omega)
        rw [hdr_ok, ← hl]
        congr 1
        -- table
        have htab : readAt m' (off + (ainfo it shape).dataOff) (8 * offs.length) = words offs := by
          have hol : offs.length = items.length := by rw [← hT, offsetsD_length]
          have hreg := region_after (writeAt m off (words hdr)) ((ainfo it shape).dataOff + off) (words offs)
            (shift off (placeD (patchesD it) (vsize it) items ((ainfo it shape).dataOff + 8 * items.length)))
            (by rw [hTl, hlen1]; rw [hv] at hb; omega)
            (by rw [hTl]; exact outside_of_within hP (by omega))
            (by rw [hlen1]; exact inBounds_of_within hP (by rw [hv] at hb; omega))
          rw [hTl] at hreg
          rw [hol, Nat.add_comm off, readAt_agree hag (by omega) (by rw [hv]; omega)]
          exact hreg
        have := placeD_rt (patchesD it) (readD it) (vsize it) Val.norm items ((ainfo it shape).dataOff + 8 * items.length)
          (off + (ainfo it shape).dataOff)
          (fun v hv' => ⟨hwithin v hv', fun m0 o0 hb0 m0' hag0 =>
            rtD it v hwi (hcm v hv') (by have := sizesD_items_le (vsize it) items v hv'; rw [hv] at hsz; omega) m0 o0 hb0 m0' hag0⟩)
          (writeAt (writeAt m off (words hdr)) ((ainfo it shape).dataOff + off) (words offs)) off
          (by rw [hlen2, hlen1]; rw [hv] at hb; omega) m'
          (by intro i h1 h2; exact hag i (by omega) (by rw [hv]; omega))
          (by
            intro j hj
            have hol : offs.length = items.length := by rw [← hT, offsetsD_length]
            have hb' := offsetsD_bound (vsize it) items ((ainfo it shape).dataOff + 8 * items.length) j hj
            rw [hT] at hb'
            rw [hT]
            exact word_of_region m' (off + (ainfo it shape).dataOff) offs htab j (by omega) (by rw [hv] at hsz; omega))
        exact this
 | .scalar _, .str _, _, hc, _, _, _, _, _, _ | .scalar _, .struct _, _, hc, _, _, _, _, _, _
 | .scalar _, .arr _ _, _, hc, _, _, _, _, _, _ | .scalar _, .cap _, _, hc, _, _, _, _, _, _ => by simp [Conf] at hc
 | .string, .bits _, _, hc, _, _, _, _, _, _ | .string, .struct _, _, hc, _, _, _, _, _, _
 | .string, .arr _ _, _, hc, _, _, _, _, _, _ => by simp [Conf] at hc
 | .struct _, .bits _, _, hc, _, _, _, _, _, _ | .struct _, .str _, _, hc, _, _, _, _, _, _
 | .struct _, .arr _ _, _, hc, _, _, _, _, _, _ | .struct _, .cap _, _, hc, _, _, _, _, _, _ => by simp [Conf] at hc
 | .array _ _ _, .bits _, _, hc, _, _, _, _, _, _ | .array _ _ _, .str _, _, hc, _, _, _, _, _, _
 | .array _ _ _, .struct _, _, hc, _, _, _, _, _, _ | .array _ _ _, .cap _, _, hc, _, _, _, _, _, _ => by simp [Conf] at hc
theorem rtS : ∀ (fs : List Ty) (vs : List Val) (o s : Nat), WFFields fs → ConfFields fs vs → ssizeFields fs = some s → o + s < 2^64 →
    ∀ (m : Mem) (base size : Nat), o + s ≤ size → base + size ≤ m.length →
    ∀ m', Agree m' (apply (shift base (sPatches fs vs o)) m) (base + o) (base + o + s) →
    readFS fs m' (base + o) = Val.norm.normL vs
 | [], [], _, _, _, _, _, _, _, _, _, _, _, _, _ => by simp [readFS, Val.norm.normL]
 | t :: ts, v :: vs, o, s, hw, hc, hs, hlt, m, base, size, hos, hb, m', hag => by
    simp only [ssizeFields] at hs
    split at hs
    · rename_i a b ha hb'
      simp only [Option.some.injEq] at hs
      subst hs
      simp only [sPatches, ha, Option.getD_some, shift_append, apply_append, shift_shift] at hag
      simp only [readFS, ha, Option.getD_some, Val.norm.normL]
      have hva := conf_ssize t v a hc.1 ha
      have hsl := slot_ge a
      have hA := withinD t v hw.1 hc.1
      rw [hva] at hA
      have hA' : Within (shift (base + o) (patchesD t v)) (base + o) (base + o + a) := by
        have := within_shift (d := base + o) hA; simpa [Nat.add_comm] using this
      have hB := withinS ts vs (o + slot a) b hw.2 hc.2 hb'
      have hB' : Within (shift base (sPatches ts vs (o + slot a))) (base + o + slot a) (base + o + slot a + b) := by
        have := within_shift (d := base) hB
        refine within_mono this (by omega) (by omega)
      have hfA := apply_frame _ m _ _ hA' (by omega)
      have hfB := apply_frame _ (apply (shift (base + o) (patchesD t v)) m) _ _ hB' (by omega)
      congr 1
      · apply rtD t v hw.1 hc.1 (by omega) m (base + o) (by omega) m'
        rw [hva]
        intro i h1 h2
        rw [hag i h1 (by omega)]
        exact hfB.2 i (by omega)
      · have := rtS ts vs (o + slot a) b hw.2 hc.2 hb' (by omega) (apply (shift (base + o) (patchesD t v)) m) base size (by omega) (by omega) m'
          (by intro i h1 h2; exact hag i (by omega) (by omega))
        simpa [Nat.add_assoc] using this
    · simp at hs
 | [], _ :: _, _, _, _, hc, _, _, _, _, _, _, _, _, _ => by simp [ConfFields] at hc
 | _ :: _, [], _, _, _, hc, _, _, _, _, _, _, _, _, _ => by simp [ConfFields] at hc
theorem rtDyn : ∀ (fs : List Ty) (vs : List Val) (so k dof sb : Nat), WFFields fs → ConfFields fs vs →
    ∀ (size : Nat), size < 2^64 → ∀ (K : Nat), k + ndynF fs = K → so + staticBytes fs ≤ sb → sb + 8 * (K - 1) ≤ dof →
    dof + dynSizes fs vs ≤ size →
    ∀ (m : Mem) (base : Nat), base + size ≤ m.length → ∀ (d0 : Nat), (k = 0 → dof = d0) →
    ∀ m', Agree m' (apply (shift base (dPatches fs vs so k dof sb)) m) base (base + size) →
    readDyn fs m' base so k d0 sb = Val.norm.normL vs
 | [], [], _, _, _, _, _, _, _, _, _, _, _, _, _, _, _, _, _, _, _, _ => by simp [readDyn, Val.norm.normL]
 | t :: ts, v :: vs, so, k, dof, sb, hw, hc, size, hsize, K, hK, h1, hd, hdof, m, base, hb, d0, hd0, m', hag => by
    simp only [dPatches] at hag
    simp only [readDyn, Val.norm.normL]
    split at hag
    · -- static field
      rename_i s hs
      have hva := conf_ssize t v s hc.1 hs
      have hsl := slot_ge s
      have hst : staticBytes (t :: ts) = slot s + staticBytes ts := by simp [staticBytes, hs]
      have hnd : ndynF (t :: ts) = ndynF ts := by simp [ndynF, hs]
      have hds : dynSizes (t :: ts) (v :: vs) = dynSizes ts vs := by simp [dynSizes, hs]
      rw [hst] at h1; rw [hnd] at hK; rw [hds] at hdof
      have hA := withinD t v hw.1 hc.1
      rw [hva] at hA
      have hA' : Within (shift (base + so) (patchesD t v)) (base + so) (base + so + s) := by
        have := within_shift (d := base + so) hA; simpa [Nat.add_comm] using this
      have hAin : InBounds (shift (base + so) (patchesD t v)) m.length := inBounds_of_within hA' (by omega)
      have hRin : InBounds (shift base (dPatches ts vs (so + slot s) k dof sb)) m.length :=
        inBounds_rest ts vs _ k dof sb hw.2 hc.2 base _ (by intro p hp; unfold In3 at hp; omega)
      have hRout : Outside (shift base (dPatches ts vs (so + slot s) k dof sb)) (base + so) (base + so + s) :=
        outside_rest ts vs _ k dof sb hw.2 hc.2 base _ _ (by intro p hp; unfold In3 at hp; omega)
      rw [shift_append, shift_shift] at hag
      have hpart := agree_part [] (shift (base + so) (patchesD t v)) _ m (base + so) (base + so + s)
        (by intro q hq; simp at hq) hAin hRin hRout
      simp only [List.nil_append] at hpart
      congr 1
      · apply rtD t v hw.1 hc.1 (by omega) m (base + so) (by omega) m'
        rw [hva]
        intro i i1 i2
        rw [hag i (by omega) (by omega)]
        exact hpart i i1 i2
      · rw [apply_append] at hag
        have hlen := apply_length _ m hAin
        exact rtDyn ts vs (so + slot s) k dof sb hw.2 hc.2 size hsize K hK (by omega) hd hdof
          (apply (shift (base + so) (patchesD t v)) m) base (by omega) d0 hd0 m' hag
    · -- dynamic field
      rename_i hs
      have hv8 := vsize_pos_dyn t v hc.1 hs
      have hsl := slot_ge (vsize t v)
      have hst : staticBytes (t :: ts) = staticBytes ts := by simp [staticBytes, hs]
      have hnd : ndynF (t :: ts) = 1 + ndynF ts := by simp [ndynF, hs]
      have hds : dynSizes (t :: ts) (v :: vs) = slot (vsize t v) + dynSizes ts vs := by simp [dynSizes, hs]
      rw [hst] at h1; rw [hnd] at hK; rw [hds] at hdof
      have hA := withinD t v hw.1 hc.1
      have hA' : Within (shift (base + dof) (patchesD t v)) (base + dof) (base + dof + vsize t v) := by
        have := within_shift (d := base + dof) hA; simpa [Nat.add_comm] using this
      have hAin : ∀ n, m.length ≤ n → InBounds (shift (base + dof) (patchesD t v)) n :=
        fun n hn => inBounds_of_within hA' (by omega)
      have hRin : ∀ n, m.length ≤ n → InBounds (shift base (dPatches ts vs so (k + 1) (dof + slot (vsize t v)) sb)) n :=
        fun n hn => inBounds_rest ts vs so _ _ sb hw.2 hc.2 base _ (by intro p hp; unfold In3 at hp; omega)
      have hRout : Outside (shift base (dPatches ts vs so (k + 1) (dof + slot (vsize t v)) sb)) (base + dof) (base + dof + vsize t v) :=
        outside_rest ts vs so _ _ sb hw.2 hc.2 base _ _ (by intro p hp; unfold In3 at hp; omega)
      rw [shift_append, shift_append, shift_shift, apply_append] at hag
      generalize hS : (shift base (if k = 0 then [] else [(sb + 8 * (k - 1), le 8 dof)])) = S at hag
      have hSin : InBounds S m.length := by
        subst hS; intro q hq
        split at hq
        · simp [shift] at hq
        · simp [shift] at hq; subst hq; simp [le_length]; omega
      have hlS := apply_length S m hSin
      have hpart := agree_part [] (shift (base + dof) (patchesD t v)) _ (apply S m) (base + dof) (base + dof + vsize t v)
        (by intro q hq; simp at hq) (hAin _ (by omega)) (hRin _ (by omega)) hRout
      simp only [List.nil_append] at hpart
      have hoff : (if k = 0 then d0 else fromLE (readAt m' (base + sb + 8 * (k - 1)) 8)) = dof := by
        split
        · rename_i hk; exact (hd0 hk).symm
        · rename_i hk
          have hSeq : S = [(sb + 8 * (k - 1) + base, le 8 dof)] := by subst hS; simp [hk, shift]
          have hout : Outside (shift (base + dof) (patchesD t v) ++ shift base (dPatches ts vs so (k + 1) (dof + slot (vsize t v)) sb))
              (base + sb + 8 * (k - 1)) (base + sb + 8 * (k - 1) + 8) := by
            apply outside_append
            · exact outside_of_within hA' (by omega)
            · exact outside_rest ts vs so _ _ sb hw.2 hc.2 base _ _ (by intro p hp; unfold In3 at hp; omega)
          have hin2 : InBounds (shift (base + dof) (patchesD t v) ++ shift base (dPatches ts vs so (k + 1) (dof + slot (vsize t v)) sb)) (apply S m).length :=
            inBounds_append (hAin _ (by omega)) (hRin _ (by omega))
          have hago := apply_outside _ (apply S m) _ _ hout hin2
          rw [readAt_agree hag (by omega) (by omega)]
          rw [readAt_agree hago (Nat.le_refl _) (Nat.le_refl _)]
          rw [hSeq]
          simp only [apply, List.foldl_cons, List.foldl_nil]
          have := readAt_writeAt_same m (sb + 8 * (k - 1) + base) (le 8 dof) (by simp [le_length]; omega)
          rw [le_length] at this
          have e : base + sb + 8 * (k - 1) = sb + 8 * (k - 1) + base := by omega
          rw [e, this, fromLE_le, Nat.mod_eq_of_lt (by omega)]
      rw [hoff]
      congr 1
      · apply rtD t v hw.1 hc.1 (by omega) (apply S m) (base + dof) (by omega) m'
        intro i i1 i2
        rw [hag i (by omega) (by omega)]
        exact hpart i i1 i2
      · rw [apply_append] at hag
        have hlen := apply_length _ (apply S m) (hAin _ (by omega))
        exact rtDyn ts vs so (k + 1) (dof + slot (vsize t v)) sb hw.2 hc.2 size hsize K (by omega) h1 (by omega) (by omega)
          (apply (shift (base + dof) (patchesD t v)) (apply S m)) base (by omega) d0 (by intro h; omega) m' hag
 | [], _ :: _, _, _, _, _, _, hc, _, _, _, _, _, _, _, _, _, _, _, _, _, _ => by simp [ConfFields] at hc
 | _ :: _, [], _, _, _, _, _, hc, _, _, _, _, _, _, _, _, _, _, _, _, _, _ => by simp [ConfFields] at hc
end

end Lay

namespace Lay
open MemS

/-- a dynamically sized object's first slice assignment starts with its size word at offset 0; all later ones start at or after byte 8 -/
theorem dyn_patches_shape : ∀ (t : Ty) (v : Val), t.WF → Conf t v → t.ssize = none →
    ∃ rest tail, patchesD t v = (0, le 8 (vsize t v) ++ rest) :: tail ∧ ∀ q ∈ tail, 8 ≤ q.1
 | .string, .str bs, _, _, _ =>
    ⟨[], [(8, bs ++ zeros (slot (bs.length + 1 + 8) - 8 - bs.length))], by simp [patchesD, vsize], by simp⟩
 | .string, .cap n, _, _, _ => ⟨[], [(8, zeros n)], by simp [patchesD, vsize], by simp⟩
 | .struct fs, .struct vs, hw, hc, hd => by
    have hs' : ssizeFields fs = none := by simpa [Ty.ssize] using hd
    refine ⟨[], dPatches fs vs 8 0 (dynStart fs) (8 + staticBytes fs), by simp [patchesD, hs'], ?_⟩
    intro p hp
    have := regionsD fs vs 8 0 (dynStart fs) (8 + staticBytes fs) (by simpa [Ty.WF] using hw) (by simpa [Conf] using hc) p hp
    unfold In3 at this; unfold dynStart at this
    omega
 | .array it shape order, .arr sh items, hw, hc, hd => by
    obtain ⟨hm, hl, hci, hdims⟩ := hc
    have hss : ((ainfo it shape).staticShape && (ainfo it shape).staticType) = false := by
      simp only [Ty.ssize] at hd
      simp only [ainfo]
      cases hs : it.ssize with
      | none => simp
      | some s =>
        cases ha : allStatic shape with
        | some dims => simp [hs, ha] at hd
        | none =>
          have : countDyn shape ≠ 0 := by
            intro h0
            obtain ⟨dims, hdims⟩ := countDyn_zero_allStatic shape h0
            simp [ha] at hdims
          simp [this]
    have hdo : 8 ≤ (ainfo it shape).dataOff := by
      have hhl := header_length it shape order sh (vsize (.array it shape order) (.arr sh items)) hm hw.1 hss
      rw [words_length] at hhl; simp at hhl; omega
    have hitems : ∀ x ∈ items, Within (patchesD it x) 0 (vsize it x) := fun x hx =>
      withinD it x hw.2 (confItems_mem it items hci x hx)
    simp only [patchesD, hss, Bool.false_eq_true, ↓reduceIte, words, List.flatMap_cons]
    refine ⟨_, _, rfl, ?_⟩
    intro q hq
    by_cases hst : (ainfo it shape).staticType = true
    · simp only [hst, ↓reduceIte] at hq
      obtain ⟨s, hs'⟩ : ∃ s, it.ssize = some s := by
        simp only [ainfo] at hst; exact Option.isSome_iff_exists.mp hst
      have hu : (ainfo it shape).unit = s := by simp [ainfo, hs']
      have hP := placeS_within (patchesD it) (ainfo it shape).unit items (ainfo it shape).dataOff
        (fun x hx => by have := hitems x hx; rwa [conf_ssize it x s (confItems_mem it items hci x hx) hs', ← hu] at this)
      have := hP q hq; omega
    · have hst' : (ainfo it shape).staticType = false := by simpa using hst
      simp only [hst', Bool.false_eq_true, ↓reduceIte] at hq
      rcases List.mem_cons.mp hq with rfl | hq
      · simp; omega
      · have hP := placeD_within (patchesD it) (vsize it) items ((ainfo it shape).dataOff + 8 * items.length) hitems
        have := hP q hq; omega
 | .scalar w, v, _, _, h => by simp [Ty.ssize] at h
 | .string, .bits _, _, hc, _ | .string, .struct _, _, hc, _ | .string, .arr _ _, _, hc, _ => by simp [Conf] at hc
 | .struct _, .bits _, _, hc, _ | .struct _, .str _, _, hc, _ | .struct _, .arr _ _, _, hc, _ | .struct _, .cap _, _, hc, _ => by simp [Conf] at hc
 | .array _ _ _, .bits _, _, hc, _ | .array _ _ _, .str _, _, hc, _ | .array _ _ _, .struct _, _, hc, _ | .array _ _ _, .cap _, _, hc, _ => by simp [Conf] at hc

end Lay
