import Xo.LayM
import Xo.Lemmas.Index
/-! `iter_index(shape, order)` - the order in which the writer lays out the items of an N-dimensional array, and in which the
harness / driver glue (`valP`) lists them - enumerates the index tuples in MEMORY order: the k-th tuple has memory position k. -/
namespace Lay
open LayM

theorem range_mul (d P : Nat) : List.range (d * P) = (List.range d).flatMap fun i => (List.range P).map fun k => i * P + k := by
  induction d with
  | zero => simp
  | succ d ih =>
    rw [Nat.succ_mul, List.range_add, ih, List.range_succ, List.flatMap_append]
    simp [Nat.add_comm]

/-- the k-th tuple of `np.ndindex(*cshape)` has C-order position k -/
theorem ndindex_cposL : ∀ (cshape : List Nat), (ndindex cshape).map (cposL cshape) = List.range (prod cshape)
 | [] => by simp [ndindex, cposL, prod]
 | d :: ds => by
    simp only [ndindex, prod, List.map_flatMap, List.map_map]
    rw [range_mul]
    congr 1
    funext i
    have ih := ndindex_cposL ds
    have : (List.map ((cposL (d :: ds)) ∘ fun x => i :: x) (ndindex ds)) = (ndindex ds).map fun x => i * prod ds + cposL ds x := by
      apply List.map_congr_left
      intro x _
      simp [cposL]
    rw [this, ← ih, List.map_map]
    rfl

theorem ndindex_length_mem : ∀ (cshape : List Nat) (ii : List Nat), ii ∈ ndindex cshape → ii.length = cshape.length
 | [], ii, h => by simp [ndindex] at h; subst h; rfl
 | d :: ds, ii, h => by
    simp only [ndindex, List.mem_flatMap, List.mem_range, List.mem_map] at h
    obtain ⟨i, _, x, hx, rfl⟩ := h
    simp [ndindex_length_mem ds x hx]

/-- **`iter_index` is memory order**: for an axis order that is a permutation of the axes, the k-th index tuple `iter_index`
yields has memory position k - so "items in the order of `iter_index`" (the writer, `valP`) and "item number `mposL idx`" (the
view, the C accessors) name the same item -/
theorem iterIndex_mposL (shape order : List Nat) (hperm : order.Perm (List.range shape.length)) :
    (iterIndex shape order).map (mposL shape order) = List.range (prod (order.map fun ax => shape.getD ax 0)) := by
  have hnd := perm_range_nodup hperm
  have hol : order.length = shape.length := by simpa using hperm.length_eq
  unfold iterIndex
  simp only [List.map_map]
  rw [← ndindex_cposL]
  apply List.map_congr_left
  intro ii hii
  have hl := ndindex_length_mem _ ii hii
  simp only [List.length_map] at hl
  simp only [Function.comp, mposL]
  congr 1
  apply List.ext_getElem
  · simp [hl]
  · intro j h1 h2
    simp only [List.length_map] at h1
    simp only [List.getElem_map]
    have hmem : order[j] < shape.length := (perm_range_mem hperm _).mp (List.getElem_mem h1)
    have hidx : order.idxOf order[j] = j := by
      have := List.Nodup.idxOf_getElem hnd j h1
      exact this
    rw [List.getD_eq_getElem?_getD, List.getElem?_map, List.getElem?_range (by omega)]
    show ii.getD (order.idxOf order[j]) 0 = ii[j]
    rw [hidx, List.getD_eq_getElem?_getD, List.getElem?_eq_getElem (by omega)]
    rfl

end Lay
