import Xo.Lemmas.Spec
/-! Segment view of a source: slash-free literal text and the four qualifier placeholders.  For every such source the
four `str.replace` calls amount to rendering each placeholder with the target's keyword and leaving every literal
character untouched. -/
namespace Spec

inductive PH | kern | fn | mem | restr
deriving DecidableEq, Repr

def PH.text : PH → Str
 | .kern => ['/', '*', 'g', 'p', 'u', 'k', 'e', 'r', 'n', '*', '/']
 | .fn => ['/', '*', 'g', 'p', 'u', 'f', 'u', 'n', '*', '/']
 | .mem => ['/', '*', 'g', 'p', 'u', 'g', 'l', 'm', 'e', 'm', '*', '/']
 | .restr => ['/', '*', 'r', 'e', 's', 't', 'r', 'i', 'c', 't', '*', '/']

theorem PH.text_eq : PH.text .kern = S "/*gpukern*/" ∧ PH.text .fn = S "/*gpufun*/" ∧
    PH.text .mem = S "/*gpuglmem*/" ∧ PH.text .restr = S "/*restrict*/" := by decide

inductive Seg | lit (a : Str) | ph (p : PH)
deriving Repr

def render (f : PH → Str) : List Seg → Str
 | [] => []
 | .lit a :: r => a ++ render f r
 | .ph p :: r => f p ++ render f r

def NoSlash (a : Str) : Prop := ∀ c ∈ a, c ≠ '/'

/-- literals are slash-free; a placeholder is followed by nothing or by a literal that is non-empty and does not begin with `*` -/
def WF : List Seg → Prop
 | [] => True
 | .lit a :: r => NoSlash a ∧ WF r
 | .ph _ :: [] => True
 | .ph _ :: .lit a :: r => (∃ c t, a = c :: t ∧ c ≠ '*') ∧ WF (.lit a :: r)
 | .ph _ :: .ph _ :: _ => False

theorem replaceAux_frame' (pat rep : Str) (p : Str) (hpat : pat = '/' :: p) (a b : Str) (h : NoSlash a) :
    replaceAux pat rep (a ++ b) 0 = a ++ replaceAux pat rep b 0 := by
  have := replaceAll_frame pat rep '/' p hpat a b h
  simpa [replaceAll] using this

/-- an unreplaced other placeholder is stepped over, provided what follows does not start with `*` -/
theorem pass_other (p0 q : PH) (hne : q ≠ p0) (rep b : Str) (hb : b = [] ∨ ∃ c t, b = c :: t ∧ c ≠ '*') :
    replaceAux p0.text rep (q.text ++ b) 0 = q.text ++ replaceAux p0.text rep b 0 := by
  have sf : ∀ pt : Str, isPrefix ('*' :: pt) b = false := by
    intro pt
    rcases hb with rfl | ⟨c, t, rfl, hc⟩
    · simp [isPrefix]
    · simp [isPrefix]; intro h; exact absurd h.symm hc
  cases p0 <;> cases q <;> first | exact absurd rfl hne | skip
  all_goals
    simp [PH.text, replaceAux, isPrefix, sf]

end Spec

namespace Spec

theorem PH.text_slash (p0 : PH) : ∃ p, p0.text = '/' :: p := by
  cases p0 <;> exact ⟨_, rfl⟩

theorem PH.text_ne_nil (p0 : PH) : p0.text ≠ [] := by cases p0 <;> simp [PH.text]

theorem WF_tail_ph (q : PH) (r : List Seg) (h : WF (.ph q :: r)) : WF r := by
  match r, h with
  | [], _ => trivial
  | .lit a :: r', h => exact h.2
  | .ph _ :: _, h => exact absurd h id

/-- one `str.replace` call on a segmented source re-renders exactly that placeholder -/
theorem replace_render (p0 : PH) (rep : Str) (f : PH → Str) (hp0 : f p0 = p0.text)
    (hf : ∀ q, q ≠ p0 → f q = q.text ∨ NoSlash (f q)) :
    ∀ segs : List Seg, WF segs →
      replaceAux p0.text rep (render f segs) 0 = render (fun q => if q = p0 then rep else f q) segs
 | [], _ => by simp [render, replaceAux]
 | .lit a :: r, h => by
    obtain ⟨p, hp⟩ := PH.text_slash p0
    simp only [render]
    rw [replaceAux_frame' p0.text rep p hp a _ h.1, replace_render p0 rep f hp0 hf r h.2]
 | .ph q :: r, h => by
    have hr := WF_tail_ph q r h
    have ih := replace_render p0 rep f hp0 hf r hr
    simp only [render]
    by_cases hq : q = p0
    · subst hq
      have := replaceAll_hit q.text rep (render f r) (PH.text_ne_nil q)
      simp only [replaceAll] at this
      rw [hp0, this, ih]; simp
    · simp only [hq, ↓reduceIte]
      rcases hf q hq with ht | hn
      · rw [ht]
        have hb : render f r = [] ∨ ∃ c t, render f r = c :: t ∧ c ≠ '*' := by
          match r, h with
          | [], _ => left; rfl
          | .lit a :: r', h =>
            obtain ⟨c, t, ha, hc⟩ := h.1
            right; exact ⟨c, t ++ render f r', by simp [render, ha], hc⟩
          | .ph _ :: _, h => exact absurd h id
        rw [pass_other p0 q hq rep _ hb, ih]
      · obtain ⟨p, hp⟩ := PH.text_slash p0
        rw [replaceAux_frame' p0.text rep p hp _ _ hn, ih]

/-- the keyword each placeholder is rendered with for a target -/
def table (t : Target) : PH → Str
 | .kern => kernRep t | .fn => funRep t | .mem => memRep t | .restr => restrictRep t

theorem noSlash_reps (t : Target) : NoSlash (kernRep t) ∧ NoSlash (funRep t) ∧ NoSlash (memRep t) ∧ NoSlash (restrictRep t) := by
  cases t <;> (unfold NoSlash; decide)

/-- the four replacements of `specialize_source`, applied to a segmented source, render every placeholder with the
target's keyword and leave every literal character as it is -/
theorem substitute_render (t : Target) (segs : List Seg) (h : WF segs) :
    substitute t (render PH.text segs) = render (table t) segs := by
  obtain ⟨n1, n2, n3, _⟩ := noSlash_reps t
  have e := PH.text_eq
  unfold substitute replaceAll
  rw [← e.1, ← e.2.1, ← e.2.2.1, ← e.2.2.2]
  rw [replace_render .kern (kernRep t) PH.text rfl (fun q _ => Or.inl rfl) segs h]
  rw [replace_render .fn (funRep t) _ (by simp) (by
        intro q hq; cases q <;> simp_all) segs h]
  rw [replace_render .mem (memRep t) _ (by simp) (by
        intro q hq; cases q <;> simp_all) segs h]
  rw [replace_render .restr (restrictRep t) _ (by simp) (by
        intro q hq; cases q <;> simp_all) segs h]
  congr 1
  funext q; cases q <;> simp [table]

end Spec

namespace Spec
/-! executable segmentation and the decidable form of `WF` (used by the driver on every generated source) -/

def phAt (s : Str) : Option PH := [PH.kern, .fn, .mem, .restr].find? fun p => isPrefix p.text s

def flush (cur : Str) (rest : List Seg) : List Seg := if cur.isEmpty then rest else .lit cur.reverse :: rest

def segAux : Str → Nat → Str → List Seg
 | [], _, cur => flush cur []
 | _ :: r, skip + 1, cur => segAux r skip cur
 | c :: r, 0, cur =>
    match phAt (c :: r) with
    | some p => flush cur (.ph p :: segAux r (p.text.length - 1) [])
    | none => segAux r 0 (c :: cur)
def segment (s : Str) : List Seg := segAux s 0 []

def noSlashB (a : Str) : Bool := a.all (· != '/')

def headOk : Str → Bool
 | c :: _ => c != '*'
 | [] => false

def wfb : List Seg → Bool
 | [] => true
 | .lit a :: r => noSlashB a && wfb r
 | .ph _ :: [] => true
 | .ph _ :: .lit a :: r => headOk a && wfb (.lit a :: r)
 | .ph _ :: .ph _ :: _ => false

theorem noSlashB_sound (a : Str) (h : noSlashB a = true) : NoSlash a := by
  intro c hc; simp [noSlashB] at h; exact h c hc

theorem wfb_sound : ∀ segs, wfb segs = true → WF segs
 | [], _ => trivial
 | .lit a :: r, h => by
    simp only [wfb, Bool.and_eq_true] at h
    exact ⟨noSlashB_sound a h.1, wfb_sound r h.2⟩
 | .ph _ :: [], _ => trivial
 | .ph _ :: .lit a :: r, h => by
    have h' : headOk a = true ∧ wfb (.lit a :: r) = true := by
      have := h; unfold wfb at this; simpa [Bool.and_eq_true] using this
    refine ⟨?_, wfb_sound _ h'.2⟩
    cases a with
    | nil => simp [headOk] at h'
    | cons c t => exact ⟨c, t, rfl, by simpa [headOk] using h'.1⟩
 | .ph _ :: .ph _ :: _, h => by simp [wfb] at h

def plainB (l : Str) : Bool :=
  !contains l (S "//include_file") && !contains l (S "//vectorize_over") && !contains l (S "//end_vectorize") &&
  !contains l (S "//only_for_context")

theorem plainB_sound (l : Str) (h : plainB l = true) : Plain l := by
  simp [plainB] at h
  exact ⟨h.1.1.1, ⟨h.1.1.2, h.1.2⟩, h.2⟩

end Spec
