import Xo.Model.Hybrid
/-! The `Mirror` invariant of the hybrid-class model for nested (non-reference) parts, by induction over histories:
in every reachable state every cached dressed child is a valid instance, and the dressed object cached for a NESTED field sits
at the field's in-line location inside its container and cannot be moved on its own. -/
namespace Hyb

/-! ### instances: add / set / get -/

theorem inst_lt (s : St) (i : Nat) (h : i < s.insts.length) : s.inst i = s.insts[i] := by
  simp [St.inst, List.getD_eq_getElem?_getD, h]

theorem addInst_fst (s : St) (x : Inst) : (s.addInst x).1 = s.insts.length := rfl
theorem addInst_length (s : St) (x : Inst) : (s.addInst x).2.insts.length = s.insts.length + 1 := by simp [St.addInst]
theorem addInst_heap (s : St) (x : Inst) : (s.addInst x).2.heap = s.heap := rfl
theorem addInst_old (s : St) (x : Inst) (a : Nat) (h : a < s.insts.length) : (s.addInst x).2.inst a = s.inst a := by
  simp [St.inst, St.addInst, List.getD_eq_getElem?_getD, List.getElem?_append_left h]
theorem addInst_new (s : St) (x : Inst) : (s.addInst x).2.inst s.insts.length = x := by
  simp [St.inst, St.addInst, List.getD_eq_getElem?_getD]

theorem setInst_same (s : St) (i : Nat) (x : Inst) (h : i < s.insts.length) : (s.setInst i x).inst i = x := by
  simp [St.inst, St.setInst, List.getD_eq_getElem?_getD, h]
theorem setInst_other (s : St) (i k : Nat) (x : Inst) (h : k ≠ i) : (s.setInst i x).inst k = s.inst k := by
  simp [St.inst, St.setInst, List.getD_eq_getElem?_getD, List.getElem?_set_ne (Ne.symm h)]
theorem setInst_length' (s : St) (i : Nat) (x : Inst) : (s.setInst i x).insts.length = s.insts.length := by simp [St.setInst]
theorem setInst_heap' (s : St) (i : Nat) (x : Inst) : (s.setInst i x).heap = s.heap := rfl

/-! ### the invariant -/

def NestedKind (u : Universe) (c : Nat) (f : String) : Prop := ∃ c', fkind (clsOf u c) f = some (.nested c')

/-- every cached child is a valid instance; for a nested field (unless the container is the excepted instance `ex`) it is at the
field's in-line location and not movable -/
def Inv' (u : Universe) (s : St) (ex : Nat → Prop) : Prop :=
  ∀ i, i < s.insts.length → ∀ f j, (f, j) ∈ (s.inst i).dressed →
    j < s.insts.length ∧
    (¬ ex i → NestedKind u (s.inst i).cls f → (s.inst j).loc = (s.inst i).loc.sub f ∧ (s.inst j).movable = false)

abbrev Inv (u : Universe) (s : St) : Prop := Inv' u s (fun _ => False)

theorem inv_weaken (u : Universe) (s : St) (ex ex' : Nat → Prop) (hsub : ∀ i, ex i → ex' i) (h : Inv' u s ex) : Inv' u s ex' := by
  intro i hi f j hm
  obtain ⟨h1, h2⟩ := h i hi f j hm
  exact ⟨h1, fun he hk => h2 (fun hx => he (hsub i hx)) hk⟩

/-- what re-initialising instance `k` may change: nothing of the heap, nothing of other existing instances, and of `k` only the
cache -/
def Frame (s s' : St) (k : Nat) : Prop :=
  s'.heap = s.heap ∧ s.insts.length ≤ s'.insts.length ∧
  (∀ a, a < s.insts.length → a ≠ k → s'.inst a = s.inst a) ∧
  (s'.inst k).loc = (s.inst k).loc ∧ (s'.inst k).cls = (s.inst k).cls ∧ (s'.inst k).movable = (s.inst k).movable

theorem frame_refl (s : St) (k : Nat) : Frame s s k := ⟨rfl, Nat.le_refl _, fun _ _ _ => rfl, rfl, rfl, rfl⟩

/-- adding an instance whose cache entries are valid and (for nested fields, unless it is excepted) correct keeps the invariant -/
theorem inv_addInst (u : Universe) (s : St) (ex : Nat → Prop) (x : Inst) (h : Inv' u s ex)
    (hx : ∀ f j, (f, j) ∈ x.dressed → j < s.insts.length + 1 ∧
      (¬ ex s.insts.length → NestedKind u x.cls f →
        ((s.addInst x).2.inst j).loc = x.loc.sub f ∧ ((s.addInst x).2.inst j).movable = false)) :
    Inv' u (s.addInst x).2 ex := by
  intro i hi f j hm
  rw [addInst_length] at hi ⊢
  by_cases hin : i < s.insts.length
  · rw [addInst_old s x i hin] at hm ⊢
    obtain ⟨h1, h2⟩ := h i hin f j hm
    refine ⟨by omega, fun he hk => ?_⟩
    rw [addInst_old s x j h1]
    exact h2 he hk
  · have : i = s.insts.length := by omega
    subst this
    rw [addInst_new] at hm ⊢
    obtain ⟨h1, h2⟩ := hx f j hm
    exact ⟨h1, fun he hk => h2 he hk⟩

/-- replacing an instance by one at the same location (not made movable again) whose cache is valid and correct -/
theorem inv_setInst (u : Universe) (s : St) (ex : Nat → Prop) (i : Nat) (x : Inst) (hi : i < s.insts.length) (h : Inv' u s ex)
    (hloc : x.loc = (s.inst i).loc) (hmov : (s.inst i).movable = false → x.movable = false)
    (hx : ∀ f j, (f, j) ∈ x.dressed → j < s.insts.length ∧
      (¬ ex i → NestedKind u x.cls f →
        ((s.setInst i x).inst j).loc = x.loc.sub f ∧ ((s.setInst i x).inst j).movable = false)) :
    Inv' u (s.setInst i x) ex := by
  intro a ha f j hm
  rw [setInst_length'] at ha ⊢
  by_cases hai : a = i
  · subst hai
    rw [setInst_same s a x hi] at hm ⊢
    exact hx f j hm
  · rw [setInst_other s i a x hai] at hm ⊢
    obtain ⟨h1, h2⟩ := h a ha f j hm
    refine ⟨h1, fun he hk => ?_⟩
    obtain ⟨q1, q2⟩ := h2 he hk
    by_cases hji : j = i
    · subst hji
      rw [setInst_same s j x hi]
      exact ⟨by rw [hloc]; exact q1, hmov q2⟩
    · rw [setInst_other s i j x hji]
      exact ⟨q1, q2⟩

/-- the first `n` instances and the heap are untouched -/
def Pres (s s' : St) (n : Nat) : Prop :=
  s'.heap = s.heap ∧ s.insts.length ≤ s'.insts.length ∧ ∀ a, a < n → s'.inst a = s.inst a

theorem pres_refl (s : St) (n : Nat) : Pres s s n := ⟨rfl, Nat.le_refl _, fun _ _ => rfl⟩
theorem pres_trans {s s' s'' : St} {n : Nat} (h1 : Pres s s' n) (h2 : Pres s' s'' n) : Pres s s'' n :=
  ⟨h2.1.trans h1.1, Nat.le_trans h1.2.1 h2.2.1, fun a ha => (h2.2.2 a ha).trans (h1.2.2 a ha)⟩
theorem pres_addInst (s : St) (x : Inst) (n : Nat) (hn : n ≤ s.insts.length) : Pres s (s.addInst x).2 n :=
  ⟨rfl, by rw [addInst_length]; omega, fun a ha => addInst_old s x a (by omega)⟩
theorem pres_of_frame {s s' : St} {k n : Nat} (h : Frame s s' k) (hk : n ≤ k) (hn : n ≤ s.insts.length) : Pres s s' n :=
  ⟨h.1, h.2.1, fun a ha => h.2.2.1 a (by omega) (by omega)⟩

/-- the cached children of field `g` of instance `i` are where they belong -/
def Good (s : St) (i : Nat) (g : String) : Prop :=
  ∀ j, (g, j) ∈ (s.inst i).dressed → (s.inst j).loc = (s.inst i).loc.sub g ∧ (s.inst j).movable = false

/-- what the recursive call of `reinit` is assumed to do -/
def RecOK (u : Universe) (rec : St → Nat → St) : Prop :=
  ∀ s k (ex : Nat → Prop), k < s.insts.length → ¬ ex k → (∀ a, ex a → a < s.insts.length) → Inv' u s ex →
    Frame s (rec s k) k ∧ Inv' u (rec s k) ex

/-- the cached referents taken over from the previously dressed child -/
def oldRefsOf (u : Universe) (s : St) (i : Nat) (f : String) (c' : Nat) : List (String × Nat) :=
  match (((s.inst i).dressed.lookup f).map s.inst : Option Inst) with
  | some o => o.dressed.filter fun e => match fkind (clsOf u c') e.1 with
      | some (.ref _) => true
      | _ => false
  | none => []

def oldPyOf (s : St) (i : Nat) (f : String) : List (String × Int) :=
  match (((s.inst i).dressed.lookup f).map s.inst : Option Inst) with
  | some o => o.py
  | none => []

/-- the nested branch of `reinitStep`, with its intermediate states named -/
theorem reinitStep_nested_eq (u : Universe) (rec : St → Nat → St) (i : Nat) (s : St) (f : String) (c' : Nat) :
    reinitStep u rec i s (f, .nested c') =
      let X0 : Inst := { cls := c', loc := (s.inst i).loc.sub f, dressed := [], movable := true, py := oldPyOf s i f }
      let s2 := rec (s.addInst X0).2 s.insts.length
      let y := s2.inst s.insts.length
      let X1 : Inst := { cls := c', loc := (s.inst i).loc.sub f, dressed := y.dressed ++ oldRefsOf u s i f c', movable := false, py := y.py }
      let s3 := rec (s2.addInst X1).2 s2.insts.length
      s3.setInst i { s3.inst i with dressed := ((s3.inst i).dressed.filter (·.1 != f)) ++ [(f, s2.insts.length)] } := by
  rfl

theorem lookup_mem {β : Type} (k : String) : ∀ (l : List (String × β)) (v : β), l.lookup k = some v → (k, v) ∈ l
 | [], _, h => by simp at h
 | (a, b) :: r, v, h => by
    rw [List.lookup_cons] at h
    by_cases hk : k == a
    · simp only [hk] at h
      have : k = a := by simpa using hk
      subst this
      simp at h; subst h; exact List.mem_cons_self
    · simp only [hk] at h
      exact List.mem_cons_of_mem _ (lookup_mem k r v h)

theorem nestedKind_not_ref (u : Universe) (c : Nat) (g : String) (c2 : Nat) (h : fkind (clsOf u c) g = some (.ref c2)) :
    ¬ NestedKind u c g := by
  rintro ⟨c', hc'⟩
  rw [h] at hc'
  cases hc'

/-- the nested step on named intermediate states -/
theorem nested_core (u : Universe) (s s2 s3 : St) (i : Nat) (ex : Nat → Prop) (f : String) (c' : Nat) (X0 X1 X2 : Inst)
    (hi : i < s.insts.length) (hexi : ex i) (hexb : ∀ a, ex a → a < s.insts.length) (h : Inv' u s ex)
    (hX0c : X0.cls = c') (hX0l : X0.loc = (s.inst i).loc.sub f) (hX0d : X0.dressed = [])
    (r1 : Inv' u (s.addInst X0).2 ex → Frame (s.addInst X0).2 s2 s.insts.length ∧ Inv' u s2 ex)
    (hX1c : X1.cls = c') (hX1l : X1.loc = (s.inst i).loc.sub f) (hX1m : X1.movable = false)
    (hX1d : X1.dressed = (s2.inst s.insts.length).dressed ++ oldRefsOf u s i f c')
    (r3 : s.insts.length + 1 ≤ s2.insts.length → Inv' u (s2.addInst X1).2 ex →
      Frame (s2.addInst X1).2 s3 s2.insts.length ∧ Inv' u s3 ex)
    (hX2l : X2.loc = (s3.inst i).loc) (hX2c : X2.cls = (s3.inst i).cls) (hX2m : X2.movable = (s3.inst i).movable)
    (hX2d : X2.dressed = ((s3.inst i).dressed.filter (·.1 != f)) ++ [(f, s2.insts.length)]) :
    Frame s (s3.setInst i X2) i ∧ Inv' u (s3.setInst i X2) ex ∧
    (∀ g, Good s i g → Good (s3.setInst i X2) i g) ∧ Good (s3.setInst i X2) i f := by
  have l1 : (s.addInst X0).2.insts.length = s.insts.length + 1 := addInst_length s X0
  have h1 : Inv' u (s.addInst X0).2 ex := inv_addInst u s ex X0 h (by rw [hX0d]; intro g c hm; simp at hm)
  have hexn : ¬ ex s.insts.length := fun he => Nat.lt_irrefl _ (hexb _ he)
  obtain ⟨F1, h2⟩ := r1 h1
  have P02 : Pres s s2 s.insts.length :=
    pres_trans (pres_addInst s X0 _ (Nat.le_refl _)) (pres_of_frame F1 (Nat.le_refl _) (by rw [l1]; omega))
  have l2 : s.insts.length + 1 ≤ s2.insts.length := by have := F1.2.1; rw [l1] at this; exact this
  have hycls : (s2.inst s.insts.length).cls = c' := by rw [F1.2.2.2.2.1, addInst_new, hX0c]
  have hyloc : (s2.inst s.insts.length).loc = (s.inst i).loc.sub f := by rw [F1.2.2.2.1, addInst_new, hX0l]
  have l3 : (s2.addInst X1).2.insts.length = s2.insts.length + 1 := addInst_length s2 X1
  have h3 : Inv' u (s2.addInst X1).2 ex := by
    apply inv_addInst u s2 ex X1 h2
    intro g c hm
    rw [hX1d] at hm
    rw [hX1c, hX1l]
    simp only [List.mem_append] at hm
    rcases hm with hm | hm
    · obtain ⟨q1, q2⟩ := h2 s.insts.length (by omega) g c hm
      refine ⟨by omega, fun _ hk => ?_⟩
      rw [addInst_old s2 _ c q1]
      have := q2 hexn (by rw [hycls]; exact hk)
      rw [hyloc] at this
      exact this
    · -- a cached referent of the previously dressed child: valid, and never of nested kind
      unfold oldRefsOf at hm
      cases hlk : (s.inst i).dressed.lookup f with
      | none => simp [hlk] at hm
      | some jold =>
        simp only [hlk, Option.map_some, List.mem_filter] at hm
        obtain ⟨hmem, hkind⟩ := hm
        have hj := (h i hi f jold (lookup_mem f _ jold hlk)).1
        have hc := (h jold hj g c hmem).1
        refine ⟨by omega, fun _ hk => ?_⟩
        exfalso
        cases hfk : fkind (clsOf u c') g with
        | none => simp [hfk] at hkind
        | some k =>
          cases k with
          | ref c2 => exact nestedKind_not_ref u c' g c2 hfk hk
          | num => simp [hfk] at hkind
          | nested c3 => simp [hfk] at hkind
  obtain ⟨F3, h4⟩ := r3 l2 h3
  have P23 : Pres s2 s3 s.insts.length :=
    pres_trans (pres_addInst s2 X1 _ (by omega)) (pres_of_frame F3 (by omega) (by rw [l3]; omega))
  have P03 : Pres s s3 s.insts.length := pres_trans P02 P23
  have l4 : s2.insts.length + 1 ≤ s3.insts.length := by have := F3.2.1; rw [l3] at this; exact this
  have hxi : s3.inst i = s.inst i := P03.2.2 i hi
  have hn2loc : (s3.inst s2.insts.length).loc = (s.inst i).loc.sub f := by rw [F3.2.2.2.1, addInst_new, hX1l]
  have hn2mov : (s3.inst s2.insts.length).movable = false := by rw [F3.2.2.2.2.2, addInst_new, hX1m]
  have hi3 : i < s3.insts.length := by omega
  have hne : s2.insts.length ≠ i := by omega
  rw [hxi] at hX2l hX2c hX2m hX2d
  refine ⟨?_, ?_, ?_, ?_⟩
  · -- frame
    refine ⟨by rw [setInst_heap', P03.1], by rw [setInst_length']; omega, ?_, ?_, ?_, ?_⟩
    · intro a ha hai
      rw [setInst_other s3 i a X2 hai, P03.2.2 a ha]
    · rw [setInst_same s3 i X2 hi3, hX2l]
    · rw [setInst_same s3 i X2 hi3, hX2c]
    · rw [setInst_same s3 i X2 hi3, hX2m]
  · -- invariant
    apply inv_setInst u s3 ex i X2 hi3 h4 (by rw [hX2l, hxi]) (by rw [hX2m, hxi]; exact id)
    intro g c hm
    rw [hX2d] at hm
    simp only [List.mem_append, List.mem_filter, List.mem_singleton] at hm
    refine ⟨?_, fun he => absurd hexi he⟩
    rcases hm with hm | hm
    · have := (h i hi g c hm.1).1; omega
    · have : c = s2.insts.length := (Prod.mk.inj hm).2
      omega
  · -- what was right stays right
    intro g hg c hm
    rw [setInst_same s3 i X2 hi3, hX2d] at hm
    rw [setInst_same s3 i X2 hi3, hX2l]
    simp only [List.mem_append, List.mem_filter, List.mem_singleton] at hm
    rcases hm with hm | hm
    · obtain ⟨q1, q2⟩ := hg c hm.1
      have hc := (h i hi g c hm.1).1
      by_cases hci : c = i
      · subst hci
        rw [setInst_same s3 c X2 hi3, hX2l, hX2m]
        exact ⟨q1, q2⟩
      · rw [setInst_other s3 i c X2 hci, P03.2.2 c hc]
        exact ⟨q1, q2⟩
    · obtain ⟨rfl, rfl⟩ := Prod.mk.inj hm
      rw [setInst_other s3 i _ X2 hne]
      exact ⟨hn2loc, hn2mov⟩
  · -- the field itself
    intro c hm
    rw [setInst_same s3 i X2 hi3, hX2d] at hm
    rw [setInst_same s3 i X2 hi3, hX2l]
    simp only [List.mem_append, List.mem_filter, List.mem_singleton] at hm
    rcases hm with hm | hm
    · simp at hm
    · have : c = s2.insts.length := (Prod.mk.inj hm).2
      subst this
      rw [setInst_other s3 i _ X2 hne]
      exact ⟨hn2loc, hn2mov⟩

theorem reinitStep_nested_shape (u : Universe) (rec : St → Nat → St) (i : Nat) (s : St) (f : String) (c' : Nat) :
    ∃ (X0 X1 X2 : Inst) (s2 s3 : St),
      reinitStep u rec i s (f, .nested c') = s3.setInst i X2 ∧
      s2 = rec (s.addInst X0).2 s.insts.length ∧ s3 = rec (s2.addInst X1).2 s2.insts.length ∧
      X0.cls = c' ∧ X0.loc = (s.inst i).loc.sub f ∧ X0.dressed = [] ∧
      X1.cls = c' ∧ X1.loc = (s.inst i).loc.sub f ∧ X1.movable = false ∧
      X1.dressed = (s2.inst s.insts.length).dressed ++ oldRefsOf u s i f c' ∧
      X2.loc = (s3.inst i).loc ∧ X2.cls = (s3.inst i).cls ∧ X2.movable = (s3.inst i).movable ∧
      X2.dressed = ((s3.inst i).dressed.filter (·.1 != f)) ++ [(f, s2.insts.length)] := by
  let X0 : Inst := { cls := c', loc := (s.inst i).loc.sub f, dressed := [], movable := true, py := oldPyOf s i f }
  let s2 := rec (s.addInst X0).2 s.insts.length
  let X1 : Inst := { cls := c', loc := (s.inst i).loc.sub f, dressed := (s2.inst s.insts.length).dressed ++ oldRefsOf u s i f c',
                     movable := false, py := (s2.inst s.insts.length).py }
  let s3 := rec (s2.addInst X1).2 s2.insts.length
  let X2 : Inst := { s3.inst i with dressed := ((s3.inst i).dressed.filter (·.1 != f)) ++ [(f, s2.insts.length)] }
  exact ⟨X0, X1, X2, s2, s3, rfl, rfl, rfl, rfl, rfl, rfl, rfl, rfl, rfl, rfl, rfl, rfl, rfl, rfl⟩

/-- **one nested field of `_reinit_from_xobject`**: nothing but the container's cache changes among the existing instances, the
invariant is kept, what was right stays right, and the field's cached child is now right -/
theorem reinitStep_nested_spec (u : Universe) (rec : St → Nat → St) (hrec : RecOK u rec) (s : St) (i : Nat)
    (hi : i < s.insts.length) (ex : Nat → Prop) (hexi : ex i) (hexb : ∀ a, ex a → a < s.insts.length)
    (h : Inv' u s ex) (f : String) (c' : Nat) :
    Frame s (reinitStep u rec i s (f, .nested c')) i ∧ Inv' u (reinitStep u rec i s (f, .nested c')) ex ∧
    (∀ g, Good s i g → Good (reinitStep u rec i s (f, .nested c')) i g) ∧
    Good (reinitStep u rec i s (f, .nested c')) i f := by
  obtain ⟨X0, X1, X2, s2, s3, e0, e2, e3, a1, a2, a3, b1, b2, b3, b4, c1, c2, c3, c4⟩ := reinitStep_nested_shape u rec i s f c'
  rw [e0]
  have hexn : ¬ ex s.insts.length := fun he => Nat.lt_irrefl _ (hexb _ he)
  exact nested_core u s s2 s3 i ex f c' X0 X1 X2 hi hexi hexb h a1 a2 a3
    (fun h1 => by
      rw [e2]
      exact hrec _ _ ex (by rw [addInst_length]; omega) hexn (fun a ha => by rw [addInst_length]; have := hexb a ha; omega) h1)
    b1 b2 b3 b4
    (fun l2 h3 => by
      rw [e3]
      exact hrec _ _ ex (by rw [addInst_length]; omega) (fun he => by have := hexb _ he; omega)
        (fun a ha => by rw [addInst_length]; have := hexb a ha; omega) h3) c1 c2 c3 c4

/-- dropping cache entries of instance `i` -/
theorem filter_spec (u : Universe) (s : St) (i : Nat) (hi : i < s.insts.length) (ex : Nat → Prop) (h : Inv' u s ex)
    (p : String × Nat → Bool) (X : Inst) (hXl : X.loc = (s.inst i).loc) (hXc : X.cls = (s.inst i).cls)
    (hXm : X.movable = (s.inst i).movable) (hXd : X.dressed = (s.inst i).dressed.filter p) :
    Frame s (s.setInst i X) i ∧ Inv' u (s.setInst i X) ex ∧ (∀ g, Good s i g → Good (s.setInst i X) i g) := by
  refine ⟨?_, ?_, ?_⟩
  · refine ⟨rfl, by rw [setInst_length']; exact Nat.le_refl _, fun a _ hai => setInst_other s i a _ hai, ?_, ?_, ?_⟩
    · rw [setInst_same s i _ hi, hXl]
    · rw [setInst_same s i _ hi, hXc]
    · rw [setInst_same s i _ hi, hXm]
  · apply inv_setInst u s ex i X hi h hXl (by rw [hXm]; exact id)
    intro g c hm
    rw [hXd] at hm
    have hm' : (g, c) ∈ (s.inst i).dressed := (List.mem_filter.mp hm).1
    obtain ⟨q1, q2⟩ := h i hi g c hm'
    refine ⟨q1, fun he hk => ?_⟩
    rw [hXc] at hk
    obtain ⟨r1, r2⟩ := q2 he hk
    rw [hXl]
    by_cases hci : c = i
    · subst hci; rw [setInst_same s c _ hi, hXl, hXm]; exact ⟨r1, r2⟩
    · rw [setInst_other s i c _ hci]; exact ⟨r1, r2⟩
  · intro g hg c hm
    rw [setInst_same s i _ hi] at hm ⊢
    rw [hXd] at hm
    have hm' : (g, c) ∈ (s.inst i).dressed := (List.mem_filter.mp hm).1
    obtain ⟨r1, r2⟩ := hg c hm'
    rw [hXl]
    by_cases hci : c = i
    · subst hci; rw [setInst_same s c _ hi, hXl, hXm]; exact ⟨r1, r2⟩
    · rw [setInst_other s i c _ hci]; exact ⟨r1, r2⟩

theorem reinitStep_ref_shape (u : Universe) (rec : St → Nat → St) (i : Nat) (s : St) (f : String) (c : Nat) :
    reinitStep u rec i s (f, .ref c) = s ∨
    ∃ X : Inst, reinitStep u rec i s (f, .ref c) = s.setInst i X ∧ X.loc = (s.inst i).loc ∧ X.cls = (s.inst i).cls ∧
      X.movable = (s.inst i).movable ∧ X.dressed = (s.inst i).dressed.filter (fun e => e.1 != f) := by
  simp only [reinitStep]
  cases (s.inst i).dressed.lookup f with
  | none => exact Or.inl rfl
  | some j =>
    simp only
    repeat' split
    all_goals first | exact Or.inl rfl | exact Or.inr ⟨_, rfl, rfl, rfl, rfl, rfl⟩

theorem frame_trans {s s1 s2 : St} {k : Nat} (h1 : Frame s s1 k) (h2 : Frame s1 s2 k) : Frame s s2 k :=
  ⟨h2.1.trans h1.1, Nat.le_trans h1.2.1 h2.2.1,
   fun a ha hak => (h2.2.2.1 a (Nat.lt_of_lt_of_le ha h1.2.1) hak).trans (h1.2.2.1 a ha hak),
   h2.2.2.2.1.trans h1.2.2.2.1, h2.2.2.2.2.1.trans h1.2.2.2.2.1, h2.2.2.2.2.2.trans h1.2.2.2.2.2⟩

/-- every field step -/
theorem reinitStep_spec (u : Universe) (rec : St → Nat → St) (hrec : RecOK u rec) (s : St) (i : Nat)
    (hi : i < s.insts.length) (ex : Nat → Prop) (hexi : ex i) (hexb : ∀ a, ex a → a < s.insts.length)
    (h : Inv' u s ex) (fk : String × FKind) :
    Frame s (reinitStep u rec i s fk) i ∧ Inv' u (reinitStep u rec i s fk) ex ∧
    (∀ g, Good s i g → Good (reinitStep u rec i s fk) i g) ∧
    (∀ c', fk.2 = .nested c' → Good (reinitStep u rec i s fk) i fk.1) := by
  obtain ⟨f, k⟩ := fk
  cases k with
  | num => exact ⟨frame_refl s i, h, fun _ hg => hg, fun c' hc => by cases hc⟩
  | nested c' =>
    obtain ⟨h1, h2, h3, h4⟩ := reinitStep_nested_spec u rec hrec s i hi ex hexi hexb h f c'
    exact ⟨h1, h2, h3, fun c2 hc => by cases hc; exact h4⟩
  | ref c =>
    rcases reinitStep_ref_shape u rec i s f c with e | ⟨X, e, x1, x2, x3, x4⟩
    · rw [e]; exact ⟨frame_refl s i, h, fun _ hg => hg, fun c' hc => by cases hc⟩
    · rw [e]
      obtain ⟨q1, q2, q3⟩ := filter_spec u s i hi ex h _ X x1 x2 x3 x4
      exact ⟨q1, q2, q3, fun c' hc => by cases hc⟩

/-- all fields -/
theorem reinit_fold (u : Universe) (rec : St → Nat → St) (hrec : RecOK u rec) (i : Nat) (ex : Nat → Prop) (hexi : ex i) :
    ∀ (fields : List (String × FKind)) (s : St), i < s.insts.length → (∀ a, ex a → a < s.insts.length) → Inv' u s ex →
    Frame s (fields.foldl (reinitStep u rec i) s) i ∧ Inv' u (fields.foldl (reinitStep u rec i) s) ex ∧
    (∀ g, Good s i g → Good (fields.foldl (reinitStep u rec i) s) i g) ∧
    (∀ f c', (f, FKind.nested c') ∈ fields → Good (fields.foldl (reinitStep u rec i) s) i f)
 | [], s, _, _, h => ⟨frame_refl s i, h, fun _ hg => hg, fun _ _ hm => by simp at hm⟩
 | fk :: rest, s, hi, hexb, h => by
    obtain ⟨F1, h1, g1, n1⟩ := reinitStep_spec u rec hrec s i hi ex hexi hexb h fk
    have hi1 : i < (reinitStep u rec i s fk).insts.length := Nat.lt_of_lt_of_le hi F1.2.1
    have hexb1 : ∀ a, ex a → a < (reinitStep u rec i s fk).insts.length := fun a ha => Nat.lt_of_lt_of_le (hexb a ha) F1.2.1
    obtain ⟨F2, h2, g2, n2⟩ := reinit_fold u rec hrec i ex hexi rest (reinitStep u rec i s fk) hi1 hexb1 h1
    simp only [List.foldl_cons]
    refine ⟨frame_trans F1 F2, h2, fun g hg => g2 g (g1 g hg), ?_⟩
    intro f c' hm
    rcases List.mem_cons.mp hm with rfl | hm
    · exact g2 _ (n1 c' rfl)
    · exact n2 f c' hm

/-- **`_reinit_from_xobject` repairs the cache of the instance it is called on**: if the invariant holds except possibly for the
nested entries of instance `k` itself, it holds without that exception afterwards (for positive fuel) -/
theorem reinit_fix (u : Universe) (fuel : Nat) (hrec : RecOK u (reinit u fuel)) (s : St) (k : Nat) (ex : Nat → Prop)
    (hk : k < s.insts.length) (hexk : ¬ ex k) (hexb : ∀ a, ex a → a < s.insts.length)
    (h : Inv' u s (fun a => ex a ∨ a = k)) :
    Frame s (reinit u (fuel + 1) s k) k ∧ Inv' u (reinit u (fuel + 1) s k) ex := by
  simp only [reinit]
  obtain ⟨F, h1, _, n1⟩ := reinit_fold u (reinit u fuel) hrec k (fun a => ex a ∨ a = k) (Or.inr rfl)
    (clsOf u (s.inst k).cls).fields s hk (fun a ha => by rcases ha with ha | rfl; exact hexb a ha; exact hk) h
  refine ⟨F, ?_⟩
  intro a ha f j hm
  obtain ⟨q1, q2⟩ := h1 a ha f j hm
  refine ⟨q1, fun he hkind => ?_⟩
  by_cases hak : a = k
  · subst hak
    rw [F.2.2.2.2.1] at hkind
    obtain ⟨c', hc'⟩ := hkind
    have hmem : (f, FKind.nested c') ∈ (clsOf u (s.inst a).cls).fields := lookup_mem f _ _ hc'
    exact n1 f c' hmem j hm
  · exact q2 (fun hx => by rcases hx with hx | hx; exact he hx; exact hak hx) hkind

/-- `_reinit_from_xobject` with any fuel keeps the invariant and touches nothing but the cache of its instance -/
theorem reinit_ok (u : Universe) : ∀ fuel, RecOK u (reinit u fuel)
 | 0 => fun s k ex _ _ _ h => ⟨frame_refl s k, h⟩
 | fuel + 1 => fun s k ex hk hexk hexb h =>
    reinit_fix u fuel (reinit_ok u fuel) s k ex hk hexk hexb
      (inv_weaken u s ex _ (fun _ hx => Or.inl hx) h)

end Hyb
