import Xo.Lemmas.Path
/-! replacing a whole PART (nested struct / array / string / scalar at the end of any path) by a value of the same size -/
namespace Lay
open MemS

theorem shift_zero (ps : List Patch) : shift 0 ps = ps := by
  unfold shift
  induction ps with
  | nil => rfl
  | cons p ps ih => simp [ih]

/-- **one part, one block of patches**: the patch lists of an object and of the object with the part at path `p` replaced by any
conforming value of the same size differ exactly in the block of that part's patches; no other patch touches the part's extent -/
theorem path_decomp : ∀ (p : List Nat) (t : Ty) (v : Val) (o : Nat) (t' : Ty) (v1 : Val), t.WF → Conf t v →
    partAt t v p = some (o, t', v1) →
    t'.WF ∧ Conf t' v1 ∧ o + vsize t' v1 ≤ vsize t v ∧
    ∃ A B, patchesD t v = A ++ shift o (patchesD t' v1) ++ B ∧
      Outside A o (o + vsize t' v1) ∧ Outside B o (o + vsize t' v1) ∧
      ∀ v2, Conf t' v2 → vsize t' v2 = vsize t' v1 →
        ∃ v', setAt t v p v2 = some v' ∧ Conf t v' ∧ vsize t v' = vsize t v ∧
          patchesD t v' = A ++ shift o (patchesD t' v2) ++ B
 | [], t, v, o, t', v1, hw, hc, h => by
    simp only [partAt, Option.some.injEq, Prod.mk.injEq] at h
    obtain ⟨rfl, rfl, rfl⟩ := h
    refine ⟨hw, hc, by omega, [], [], by simp [shift_zero], by intro p hp; simp at hp, by intro p hp; simp at hp, ?_⟩
    intro v2 hc2 hsz
    exact ⟨v2, rfl, hc2, hsz, by simp [shift_zero]⟩
 | k :: p, t, v, o, t', v1, hw, hc, h => by
    simp only [partAt] at h
    rcases hpart : part t v k with _ | ⟨o1, t1, w1⟩
    · simp [hpart] at h
    simp only [hpart] at h
    rcases hrest : partAt t1 w1 p with _ | ⟨lo, t2, w2⟩
    · simp [hrest] at h
    simp only [hrest, Option.map_some, Option.some.injEq, Prod.mk.injEq] at h
    obtain ⟨rfl, rfl, rfl⟩ := h
    obtain ⟨g1, g2, g3, Pre, Post, g4, g5, g6, g7⟩ := part_decomp t v k o1 t1 w1 hw hc hpart
    obtain ⟨i1, i2, i3, A, B, i4, i5, i6, i7⟩ := path_decomp p t1 w1 lo t2 w2 g1 g2 hrest
    refine ⟨i1, i2, by omega, Pre ++ shift o1 A, shift o1 B ++ Post, ?_, ?_, ?_, ?_⟩
    · rw [g4, i4, shift_append, shift_append, shift_shift]
      simp [List.append_assoc, Nat.add_comm]
    · apply outside_append
      · exact outside_mono g7 (by omega) (by omega)
      · have := outside_shift (d := o1) i5
        exact outside_mono this (by omega) (by omega)
    · apply outside_append
      · have := outside_shift (d := o1) i6
        exact outside_mono this (by omega) (by omega)
      · exact outside_mono g5 (by omega) (by omega)
    · intro v2 hc2 hsz
      obtain ⟨w1', j1, j2, j3, j4⟩ := i7 v2 hc2 hsz
      obtain ⟨q1, q2, q3⟩ := g6 w1' j2 j3
      refine ⟨setPartV v k w1', by simp [setAt, hpart, j1], q1, q2, ?_⟩
      rw [q3, j4, shift_append, shift_append, shift_shift]
      simp [List.append_assoc, Nat.add_comm]

/-! ### bytes: what a list of slice assignments does to one position depends on that position only -/

theorem apply_pointwise (ps : List Patch) : ∀ (m1 m2 : Mem) (i : Nat), m1.length = m2.length → InBounds ps m1.length →
    m1[i]? = m2[i]? → (apply ps m1)[i]? = (apply ps m2)[i]? := by
  induction ps with
  | nil => intro m1 m2 i _ _ h; exact h
  | cons p ps ih =>
    intro m1 m2 i hl hb h
    have hp : p.1 + p.2.length ≤ m1.length := hb p List.mem_cons_self
    have hb' : InBounds ps m1.length := fun q hq => hb q (List.mem_cons_of_mem _ hq)
    show (apply ps (writeAt m1 p.1 p.2))[i]? = (apply ps (writeAt m2 p.1 p.2))[i]?
    apply ih
    · rw [length_writeAt _ _ _ hp, length_writeAt _ _ _ (by omega)]; exact hl
    · rw [length_writeAt _ _ _ hp]; exact hb'
    · rw [getElem?_writeAt _ _ _ hp, getElem?_writeAt _ _ _ (by omega)]
      split
      · rfl
      · exact h

/-- writing again what a memory already holds changes nothing -/
theorem apply_idem (ps : List Patch) : ∀ (m : Mem) (i : Nat), InBounds ps m.length →
    (apply ps (apply ps m))[i]? = (apply ps m)[i]? := by
  induction ps with
  | nil => intro m i _; rfl
  | cons p ps ih =>
    intro m i hb
    have hp : p.1 + p.2.length ≤ m.length := hb p List.mem_cons_self
    have hb' : InBounds ps m.length := fun q hq => hb q (List.mem_cons_of_mem _ hq)
    have hlw : (writeAt m p.1 p.2).length = m.length := length_writeAt _ _ _ hp
    have hbw : InBounds ps (writeAt m p.1 p.2).length := by rw [hlw]; exact hb'
    have hlW : (apply ps (writeAt m p.1 p.2)).length = m.length := by rw [apply_length ps _ hbw, hlw]
    show (apply ps (writeAt (apply ps (writeAt m p.1 p.2)) p.1 p.2))[i]? = (apply ps (writeAt m p.1 p.2))[i]?
    by_cases hin : p.1 ≤ i ∧ i < p.1 + p.2.length
    · -- covered by p: both inputs of `apply ps` hold p's byte there
      apply apply_pointwise ps _ _ i
      · rw [length_writeAt _ _ _ (by rw [hlW]; exact hp), hlW, hlw]
      · rw [length_writeAt _ _ _ (by rw [hlW]; exact hp), hlW]; exact hb'
      · rw [getElem?_writeAt _ _ _ (by rw [hlW]; exact hp), getElem?_writeAt _ _ _ hp]
        simp [hin]
    · -- not covered: the second pass sees the result of the first
      have h1 : (apply ps (writeAt (apply ps (writeAt m p.1 p.2)) p.1 p.2))[i]? = (apply ps (apply ps (writeAt m p.1 p.2)))[i]? := by
        apply apply_pointwise ps _ _ i
        · rw [length_writeAt _ _ _ (by rw [hlW]; exact hp)]
        · rw [length_writeAt _ _ _ (by rw [hlW]; exact hp), hlW]; exact hb'
        · rw [getElem?_writeAt _ _ _ (by rw [hlW]; exact hp)]
          simp [hin]
      rw [h1]
      exact ih _ i hbw

theorem inBounds_of_outside_within {ps : List Patch} {lo hi n : Nat} (h : Within ps lo hi) (hn : hi ≤ n) : InBounds ps n :=
  fun p hp => by have := h p hp; omega

/-- after the place of a part received an image of another value of the same size - everything else of the object untouched - the
memory is a FIXPOINT of writing the new object: it holds the new object -/
theorem part_replaced_fix (A X Y B : List Patch) (lo hi e0 e1 : Nat) (m0 M N m1 : Mem)
    (h0 : e0 ≤ lo) (h1 : hi ≤ e1) (h2 : e1 ≤ m0.length)
    (hA : Outside A lo hi) (hB : Outside B lo hi) (hX : Within X lo hi) (hY : Within Y lo hi)
    (hbA : InBounds A m0.length) (hbB : InBounds B m0.length)
    (hlN : N.length = m0.length) (hl1 : m1.length = m0.length)
    (hM : Agree M (apply (A ++ X ++ B) m0) e0 e1)
    (hout : ∀ i, e0 ≤ i → i < e1 → (i < lo ∨ hi ≤ i) → N[i]? = M[i]?)
    (hin : Agree N (apply Y m1) lo hi) :
    Agree N (apply (A ++ Y ++ B) N) e0 e1 := by
  have hbX : InBounds X m0.length := inBounds_of_outside_within hX (by omega)
  have hbY : InBounds Y m0.length := inBounds_of_outside_within hY (by omega)
  intro i hi0 hi1
  rw [apply_append, apply_append]
  have lAN : (apply A N).length = m0.length := by rw [apply_length A N (by rw [hlN]; exact hbA), hlN]
  have lYAN : (apply Y (apply A N)).length = m0.length := by rw [apply_length Y _ (by rw [lAN]; exact hbY), lAN]
  by_cases hin' : lo ≤ i ∧ i < hi
  · -- inside the part
    rw [apply_outside B _ lo hi hB (by rw [lYAN]; exact hbB) i hin'.1 hin'.2]
    have e1' : (apply A N)[i]? = N[i]? := apply_outside A N lo hi hA (by rw [hlN]; exact hbA) i hin'.1 hin'.2
    have e2 : (apply Y (apply A N))[i]? = (apply Y (apply Y m1))[i]? := by
      apply apply_pointwise Y _ _ i
      · rw [lAN, apply_length Y m1 (by rw [hl1]; exact hbY), hl1]
      · rw [lAN]; exact hbY
      · rw [e1', hin i hin'.1 hin'.2]
    rw [e2, apply_idem Y m1 i (by rw [hl1]; exact hbY), ← hin i hin'.1 hin'.2]
  · -- outside the part, inside the object
    have hio : i < lo ∨ hi ≤ i := by omega
    have hN : N[i]? = (apply (A ++ B) m0)[i]? := by
      rw [hout i hi0 hi1 hio, hM i hi0 hi1, apply_append, apply_append, apply_append]
      have lA0 : (apply A m0).length = m0.length := apply_length A m0 hbA
      apply apply_pointwise B _ _ i
      · rw [apply_length X _ (by rw [lA0]; exact hbX)]
      · rw [apply_length X _ (by rw [lA0]; exact hbX), lA0]; exact hbB
      · exact (apply_frame X (apply A m0) lo hi hX (by rw [lA0]; omega)).2 i hio
    have hT : (apply B (apply Y (apply A N)))[i]? = (apply (A ++ B) N)[i]? := by
      rw [apply_append]
      apply apply_pointwise B _ _ i
      · rw [lYAN, lAN]
      · rw [lYAN]; exact hbB
      · exact (apply_frame Y (apply A N) lo hi hY (by rw [lAN]; omega)).2 i hio
    have hbAB : InBounds (A ++ B) m0.length := inBounds_append hbA hbB
    rw [hT]
    have e3 : (apply (A ++ B) N)[i]? = (apply (A ++ B) (apply (A ++ B) m0))[i]? := by
      apply apply_pointwise (A ++ B) _ _ i
      · rw [hlN, apply_length _ m0 hbAB]
      · rw [hlN]; exact hbAB
      · exact hN
    rw [e3, apply_idem (A ++ B) m0 i hbAB, ← hN]

/-- **whole-part assignment, value level**: a memory holds object `v : t` at `off`; the place of the part at path `p` then receives an
image of a conforming value `v2` of the same size (a binary copy of an existing object, or a construction in place) and no other byte of
the object changes. A view of the WHOLE object then reads `v` with exactly that part replaced, and the object keeps its size. -/
theorem set_part_rt (t : Ty) (v : Val) (hw : t.WF) (hc : Conf t v) (hs : vsize t v < 2 ^ 64)
    (m0 : Mem) (off : Nat) (hb0 : off + vsize t v ≤ m0.length) (M : Mem)
    (hM : Agree M (apply (shift off (patchesD t v)) m0) off (off + vsize t v))
    (p : List Nat) (o : Nat) (t' : Ty) (v1 : Val) (hp : partAt t v p = some (o, t', v1))
    (v2 : Val) (hc2 : Conf t' v2) (hsz : vsize t' v2 = vsize t' v1)
    (N : Mem) (hlN : N.length = m0.length)
    (hout : ∀ i, off ≤ i → i < off + vsize t v → (i < off + o ∨ off + o + vsize t' v1 ≤ i) → N[i]? = M[i]?)
    (m1 : Mem) (hl1 : m1.length = m0.length)
    (hin : Agree N (apply (shift (off + o) (patchesD t' v2)) m1) (off + o) (off + o + vsize t' v1)) :
    ∃ v', setAt t v p v2 = some v' ∧ Conf t v' ∧ vsize t v' = vsize t v ∧ readD t N off = v'.norm := by
  obtain ⟨g1, g2, g3, A, B, g4, g5, g6, g7⟩ := path_decomp p t v o t' v1 hw hc hp
  obtain ⟨v', j1, j2, j3, j4⟩ := g7 v2 hc2 hsz
  refine ⟨v', j1, j2, j3, ?_⟩
  have hwin := withinD t v hw hc
  have hwin' := withinD t v' hw j2
  rw [j3] at hwin'
  -- the absolute patch lists
  have eold : shift off (patchesD t v) = shift off A ++ shift (off + o) (patchesD t' v1) ++ shift off B := by
    rw [g4, shift_append, shift_append, shift_shift]
  have enew : shift off (patchesD t v') = shift off A ++ shift (off + o) (patchesD t' v2) ++ shift off B := by
    rw [j4, shift_append, shift_append, shift_shift]
  have wA : Within (shift off A) off (off + vsize t v) := by
    have : Within A 0 (vsize t v) := fun q hq => hwin q (by rw [g4]; simp [hq])
    have := within_shift (d := off) this
    simpa [Nat.add_comm] using this
  have wB : Within (shift off B) off (off + vsize t v) := by
    have : Within B 0 (vsize t v) := fun q hq => hwin q (by rw [g4]; simp [hq])
    have := within_shift (d := off) this
    simpa [Nat.add_comm] using this
  have oA : Outside (shift off A) (off + o) (off + o + vsize t' v1) := by
    have := outside_shift (d := off) g5
    exact outside_mono this (by omega) (by omega)
  have oB : Outside (shift off B) (off + o) (off + o + vsize t' v1) := by
    have := outside_shift (d := off) g6
    exact outside_mono this (by omega) (by omega)
  have wX : Within (shift (off + o) (patchesD t' v1)) (off + o) (off + o + vsize t' v1) := by
    have := within_shift (d := off + o) (withinD t' v1 g1 g2)
    simpa [Nat.add_comm] using this
  have wY : Within (shift (off + o) (patchesD t' v2)) (off + o) (off + o + vsize t' v1) := by
    have := within_shift (d := off + o) (withinD t' v2 g1 hc2)
    rw [hsz] at this
    simpa [Nat.add_comm] using this
  have hfix := part_replaced_fix (shift off A) (shift (off + o) (patchesD t' v1)) (shift (off + o) (patchesD t' v2)) (shift off B)
    (off + o) (off + o + vsize t' v1) off (off + vsize t v) m0 M N m1 (by omega) (by omega) hb0 oA oB wX wY
    (inBounds_of_outside_within wA hb0) (inBounds_of_outside_within wB hb0) hlN hl1 (by rw [← eold]; exact hM) hout hin
  rw [← enew] at hfix
  exact rtD t v' hw j2 (by rw [j3]; exact hs) N off (by rw [j3, hlN]; exact hb0) N (by rw [j3]; exact hfix)

end Lay
