import Xo.Lemmas.CApiLayout
import Xo.Lemmas.Path
import Xo.Model.ToLay
/-! Struct fields: where the generated C code (class-level offsets, and one header load for the 2nd.. dynamically sized fields)
finds a field is where the writer put it. -/
namespace Lay
open MemS

/-- number of dynamically sized fields among the first `k` -/
def dynBefore : List Ty → Nat → Nat
 | _, 0 => 0
 | [], _ => 0
 | t :: ts, k + 1 => (match t.ssize with | some _ => 0 | none => 1) + dynBefore ts k

/-- the offset slot of a dynamically sized field that is not the first one: the writer stores the field's offset there, and no
later slice assignment touches the slot -/
theorem dPart_slot : ∀ (fs : List Ty) (vs : List Val) (k so kd dof sb o' : Nat) (t' : Ty) (v1 : Val),
    WFFields fs → ConfFields fs vs → so + staticBytes fs ≤ sb → sb + 8 * (kd + ndynF fs - 1) ≤ dof →
    dPart fs vs k so dof = some (o', t', v1) → t'.ssize = none → kd + dynBefore fs k ≠ 0 →
    ∃ A B, dPatches fs vs so kd dof sb = A ++ (sb + 8 * (kd + dynBefore fs k - 1), le 8 o') :: B ∧
      Outside B (sb + 8 * (kd + dynBefore fs k - 1)) (sb + 8 * (kd + dynBefore fs k - 1) + 8)
 | [], _, _, _, _, _, _, _, _, _, _, _, _, _, h, _, _ => by simp [dPart] at h
 | _ :: _, [], _, _, _, _, _, _, _, _, _, hc, _, _, _, _, _ => by simp [ConfFields] at hc
 | t :: ts, v :: vs, k, so, kd, dof, sb, o', t', v1, hw, hc, h1, h2, h, hd, hne => by
    simp only [dPart] at h
    cases hs : t.ssize with
    | some a =>
      simp only [hs] at h
      have hsb : staticBytes (t :: ts) = slot a + staticBytes ts := by simp [staticBytes, hs]
      have hnd : ndynF (t :: ts) = ndynF ts := by simp [ndynF, hs]
      by_cases hk : k = 0
      · subst hk
        simp only [if_true, Option.some.injEq, Prod.mk.injEq] at h
        obtain ⟨_, rfl, _⟩ := h
        rw [hs] at hd; cases hd
      · simp only [hk, if_false] at h
        obtain ⟨k', rfl⟩ : ∃ k', k = k' + 1 := ⟨k - 1, by omega⟩
        simp only [Nat.add_sub_cancel] at h
        have hdb : dynBefore (t :: ts) (k' + 1) = dynBefore ts k' := by simp [dynBefore, hs]
        rw [hdb] at hne ⊢
        obtain ⟨A, B, g1, g2⟩ := dPart_slot ts vs k' (so + slot a) kd dof sb o' t' v1 hw.2 hc.2 (by omega) (by omega) h hd hne
        exact ⟨shift so (patchesD t v) ++ A, B, by simp [dPatches, hs, g1, List.append_assoc], g2⟩
    | none =>
      simp only [hs] at h
      have hsl := slot_ge (vsize t v)
      have hsb : staticBytes (t :: ts) = staticBytes ts := by simp [staticBytes, hs]
      have hnd : ndynF (t :: ts) = 1 + ndynF ts := by simp [ndynF, hs]
      by_cases hk : k = 0
      · subst hk
        simp only [if_true, Option.some.injEq, Prod.mk.injEq] at h
        obtain ⟨rfl, rfl, rfl⟩ := h
        have hdb : dynBefore (t :: ts) 0 = 0 := by simp [dynBefore]
        rw [hdb, Nat.add_zero] at hne ⊢
        refine ⟨[], shift dof (patchesD t v) ++ dPatches ts vs so (kd + 1) (dof + slot (vsize t v)) sb, ?_, ?_⟩
        · simp [dPatches, hs, hne]
        · apply outside_append
          · have := within_shift (d := dof) (withinD t v hw.1 hc.1)
            exact outside_of_within this (Or.inr (by omega))
          · intro p hp
            have := regionsD ts vs so (kd + 1) (dof + slot (vsize t v)) sb hw.2 hc.2 p hp
            unfold In3 at this
            omega
      · simp only [hk, if_false] at h
        obtain ⟨k', rfl⟩ : ∃ k', k = k' + 1 := ⟨k - 1, by omega⟩
        simp only [Nat.add_sub_cancel] at h
        have hdb : dynBefore (t :: ts) (k' + 1) = 1 + dynBefore ts k' := by simp [dynBefore, hs]
        rw [hdb] at hne ⊢
        obtain ⟨A, B, g1, g2⟩ := dPart_slot ts vs k' so (kd + 1) (dof + slot (vsize t v)) sb o' t' v1 hw.2 hc.2 (by omega) (by omega) h hd (by omega)
        have e : kd + 1 + dynBefore ts k' = kd + (1 + dynBefore ts k') := by omega
        rw [e] at g1 g2
        exact ⟨(if kd = 0 then [] else [(sb + 8 * (kd - 1), le 8 dof)]) ++ (shift dof (patchesD t v) ++ A), B,
          by simp [dPatches, hs, g1, List.append_assoc], g2⟩

/-- on memory holding a written dynamically sized struct, the offset slot of its `j`-th (j ≥ 1) dynamically sized field reads as
the offset at which the writer placed that field -/
theorem dyn_slot_read (fs : List Ty) (vs : List Val) (hw : WFFields fs) (hc : ConfFields fs vs) (hnone : ssizeFields fs = none)
    (k o : Nat) (t' : Ty) (v1 : Val) (hp : part (.struct fs) (.struct vs) k = some (o, t', v1))
    (hd : t'.ssize = none) (hj : dynBefore fs k ≠ 0) (hs : vsize (.struct fs) (.struct vs) < 2 ^ 64)
    (m0 : Mem) (off : Nat) (hb : off + vsize (.struct fs) (.struct vs) ≤ m0.length) (m' : Mem)
    (hag : Agree m' (apply (shift off (patchesD (.struct fs) (.struct vs))) m0) off (off + vsize (.struct fs) (.struct vs))) :
    fromLE (readAt m' (off + (8 + staticBytes fs + 8 * (dynBefore fs k - 1))) 8) = o := by
  have hwt : (Ty.struct fs).WF := hw
  have hct : Conf (.struct fs) (.struct vs) := hc
  obtain ⟨_, _, g3, _⟩ := part_decomp _ _ k o t' v1 hwt hct hp
  simp only [part, hnone] at hp
  obtain ⟨A, B, e1, e2⟩ := dPart_slot fs vs k 8 0 (dynStart fs) (8 + staticBytes fs) o t' v1 hw hc (Nat.le_refl _)
    (by simp [dynStart]) hp hd (by simpa using hj)
  simp only [Nat.zero_add] at e1 e2
  obtain ⟨P1, hpd⟩ : ∃ P1, patchesD (.struct fs) (.struct vs) =
      P1 ++ (8 + staticBytes fs + 8 * (dynBefore fs k - 1), le 8 o) :: B :=
    ⟨(0, le 8 (vsize (.struct fs) (.struct vs))) :: A, by simp [patchesD, hnone, e1]⟩
  have hall : InBounds (shift off (patchesD (.struct fs) (.struct vs))) m0.length :=
    inBounds_shift_of_within (withinD _ _ hwt hct) hb
  have hwin := withinD _ _ hwt hct
  rw [hpd] at hall hag hwin
  rw [shift_append, shift_cons] at hall hag
  have hA : InBounds (shift off P1) m0.length := fun q hq => hall q (List.mem_append_left _ hq)
  have hB : InBounds (shift off B) m0.length := fun q hq => hall q (List.mem_append_right _ (List.mem_cons_of_mem _ hq))
  have hslot := hwin (8 + staticBytes fs + 8 * (dynBefore fs k - 1), le 8 o) (by simp)
  simp only [le_length] at hslot
  have lA := apply_length _ m0 hA
  have hcons : ∀ (q : Patch) (ps : List Patch) (m : Mem), apply (q :: ps) m = apply ps (writeAt m q.1 q.2) := fun _ _ _ => rfl
  rw [apply_append, hcons] at hag
  have hreg := region_after (apply (shift off P1) m0)
    (8 + staticBytes fs + 8 * (dynBefore fs k - 1) + off) (le 8 o) (shift off B)
    (by rw [le_length, lA]; omega)
    (by rw [le_length]; exact outside_mono (outside_shift (d := off) e2) (Nat.le_refl _) (by omega))
    (by rw [lA]; exact hB)
  rw [le_length] at hreg
  have e : off + (8 + staticBytes fs + 8 * (dynBefore fs k - 1)) = 8 + staticBytes fs + 8 * (dynBefore fs k - 1) + off := by omega
  rw [e, readAt_agree hag (by omega) (by omega), hreg, fromLE_le, Nat.mod_eq_of_lt (by omega)]

/-! ### class-level field locations -/

/-- statically sized struct: every field at a class-level offset -/
def fieldLocS : List Ty → Nat → List (Nat × Bool)
 | [], _ => []
 | t :: r, o => (o, false) :: fieldLocS r (o + slot (t.ssize.getD 0))

/-- dynamically sized struct: static fields and the first dynamic field at class-level offsets; every further dynamic field
through an offset slot (the flag) -/
def fieldLocD (d0 sb : Nat) : List Ty → Nat → Nat → List (Nat × Bool)
 | [], _, _ => []
 | t :: r, so, k =>
    match t.ssize with
    | some s => (so, false) :: fieldLocD d0 sb r (so + slot s) k
    | none => (if k = 0 then (d0, false) else (sb + 8 * (k - 1), true)) :: fieldLocD d0 sb r so (k + 1)

/-- `(Field.offset, is_reference)` of every field, as the struct class computes them once -/
def fieldLoc (fs : List Ty) : List (Nat × Bool) :=
  match ssizeFields fs with
  | some _ => fieldLocS fs 0
  | none => fieldLocD (dynStart fs) (8 + staticBytes fs) fs 8 0

/-- the offset of a field as an accessor resolves it for the struct at `off` in memory `m`: the class-level constant, or the
word stored in the field's offset slot -/
def resolveLoc (m : Mem) (off : Nat) (l : Nat × Bool) : Nat :=
  if l.2 then fromLE (readAt m (off + l.1) 8) else l.1

theorem fieldLocS_part : ∀ (fs : List Ty) (vs : List Val) (k o o' : Nat) (t' : Ty) (v1 : Val),
    sPart fs vs k o = some (o', t', v1) → (fieldLocS fs o)[k]? = some (o', false)
 | [], _, _, _, _, _, _, h => by simp [sPart] at h
 | _ :: _, [], _, _, _, _, _, h => by simp [sPart] at h
 | t :: ts, v :: vs, 0, o, o', t', v1, h => by
    simp only [sPart, Option.some.injEq, Prod.mk.injEq] at h
    simp [fieldLocS, h.1]
 | t :: ts, v :: vs, k + 1, o, o', t', v1, h => by
    simp only [sPart] at h
    simpa [fieldLocS] using fieldLocS_part ts vs k _ o' t' v1 h

theorem fieldLocD_part (d0 sb : Nat) : ∀ (fs : List Ty) (vs : List Val) (k so kd dof o' : Nat) (t' : Ty) (v1 : Val),
    dPart fs vs k so dof = some (o', t', v1) →
    (fieldLocD d0 sb fs so kd)[k]? = some
      (match t'.ssize with
       | some _ => (o', false)
       | none => if kd + dynBefore fs k = 0 then (d0, false) else (sb + 8 * (kd + dynBefore fs k - 1), true)) ∧
    (t'.ssize = none → kd + dynBefore fs k = 0 → o' = dof)
 | [], _, _, _, _, _, _, _, _, h => by simp [dPart] at h
 | _ :: _, [], _, _, _, _, _, _, _, h => by simp [dPart] at h
 | t :: ts, v :: vs, k, so, kd, dof, o', t', v1, h => by
    simp only [dPart] at h
    cases hs : t.ssize with
    | some a =>
      simp only [hs] at h
      by_cases hk : k = 0
      · subst hk
        simp only [if_true, Option.some.injEq, Prod.mk.injEq] at h
        obtain ⟨rfl, rfl, rfl⟩ := h
        simp [fieldLocD, hs]
      · simp only [hk, if_false] at h
        obtain ⟨k', rfl⟩ : ∃ k', k = k' + 1 := ⟨k - 1, by omega⟩
        simp only [Nat.add_sub_cancel] at h
        have hdb : dynBefore (t :: ts) (k' + 1) = dynBefore ts k' := by simp [dynBefore, hs]
        obtain ⟨g1, g2⟩ := fieldLocD_part d0 sb ts vs k' (so + slot a) kd dof o' t' v1 h
        rw [hdb]
        exact ⟨by simpa [fieldLocD, hs] using g1, g2⟩
    | none =>
      simp only [hs] at h
      by_cases hk : k = 0
      · subst hk
        simp only [if_true, Option.some.injEq, Prod.mk.injEq] at h
        obtain ⟨rfl, rfl, rfl⟩ := h
        have hdb : dynBefore (t :: ts) 0 = 0 := by simp [dynBefore]
        rw [hdb]
        refine ⟨?_, fun _ _ => rfl⟩
        simp only [fieldLocD, hs, List.getElem?_cons_zero, Nat.add_zero]
      · simp only [hk, if_false] at h
        obtain ⟨k', rfl⟩ : ∃ k', k = k' + 1 := ⟨k - 1, by omega⟩
        simp only [Nat.add_sub_cancel] at h
        have hdb : dynBefore (t :: ts) (k' + 1) = 1 + dynBefore ts k' := by simp [dynBefore, hs]
        obtain ⟨g1, g2⟩ := fieldLocD_part d0 sb ts vs k' so (kd + 1) (dof + slot (vsize t v)) o' t' v1 h
        rw [hdb]
        have e : kd + 1 + dynBefore ts k' = kd + (1 + dynBefore ts k') := by omega
        rw [e] at g1 g2
        refine ⟨by simpa [fieldLocD, hs] using g1, fun h1 h2 => ?_⟩
        omega

/-- **a field is where its class-level location says**: on memory holding a written struct, resolving the class-level location
of field `k` - a constant, or for the 2nd.. dynamically sized field the word in its offset slot - gives the offset at which the
writer placed the field -/
theorem field_loc_is_part (fs : List Ty) (vs : List Val) (hw : WFFields fs) (hc : ConfFields fs vs)
    (hs : vsize (.struct fs) (.struct vs) < 2 ^ 64)
    (k o : Nat) (t' : Ty) (v1 : Val) (hp : part (.struct fs) (.struct vs) k = some (o, t', v1))
    (m0 : Mem) (off : Nat) (hb : off + vsize (.struct fs) (.struct vs) ≤ m0.length) (m' : Mem)
    (hag : Agree m' (apply (shift off (patchesD (.struct fs) (.struct vs))) m0) off (off + vsize (.struct fs) (.struct vs))) :
    ∃ l, (fieldLoc fs)[k]? = some l ∧ resolveLoc m' off l = o := by
  have hp0 := hp
  simp only [part] at hp
  unfold fieldLoc
  cases hss : ssizeFields fs with
  | some s =>
    simp only [hss] at hp ⊢
    exact ⟨(o, false), fieldLocS_part fs vs k 0 o t' v1 hp, by simp [resolveLoc]⟩
  | none =>
    simp only [hss] at hp ⊢
    obtain ⟨g1, g2⟩ := fieldLocD_part (dynStart fs) (8 + staticBytes fs) fs vs k 8 0 (dynStart fs) o t' v1 hp
    refine ⟨_, g1, ?_⟩
    cases hts : t'.ssize with
    | some a => simp [resolveLoc]
    | none =>
      simp only [Nat.zero_add] at g2 ⊢
      by_cases hj : dynBefore fs k = 0
      · simp [hj, resolveLoc, g2 hts hj]
      · simp only [hj, if_false, resolveLoc, if_true]
        exact dyn_slot_read fs vs hw hc hss k o t' v1 hp0 hts hj hs m0 off hb m' hag

/-! ### the C generator's field table is the class-level table of the layout model -/

/-- field by field, the C-side types and the layout-side types have the same static size -/
def SameSizes : List (String × CGen.Ty) → List Ty → Prop
 | [], [] => True
 | f :: r, t :: ts => CGen.Ty.ssize f.2 = t.ssize ∧ SameSizes r ts
 | _, _ => False

theorem cgen_slot (n : Nat) : CGen.slot n = slot n := rfl

theorem cgen_fieldsSize : ∀ (fsC : List (String × CGen.Ty)) (fs : List Ty), SameSizes fsC fs → CGen.fieldsSize fsC = ssizeFields fs
 | [], [], _ => rfl
 | (n, tc) :: r, t :: ts, h => by
    have h1 : tc.ssize = t.ssize := h.1
    simp only [CGen.fieldsSize, ssizeFields, h1, cgen_fieldsSize r ts h.2, cgen_slot]
    cases t.ssize <;> cases ssizeFields ts <;> rfl
 | [], _ :: _, h => by simp [SameSizes] at h
 | _ :: _, [], h => by simp [SameSizes] at h

theorem cgen_go : ∀ (fsC : List (String × CGen.Ty)) (fs : List Ty) (o : Nat), SameSizes fsC fs →
    CGen.fieldLayout.go fsC o = fieldLocS fs o
 | [], [], _, _ => by simp [CGen.fieldLayout.go, fieldLocS]
 | (n, tc) :: r, t :: ts, o, h => by
    have h1 : tc.ssize = t.ssize := h.1
    simp only [CGen.fieldLayout.go, fieldLocS, h1, cgen_slot, cgen_go r ts _ h.2]
 | [], _ :: _, _, h => by simp [SameSizes] at h
 | _ :: _, [], _, h => by simp [SameSizes] at h

theorem cgen_goD (sb d0 : Nat) : ∀ (fsC : List (String × CGen.Ty)) (fs : List Ty) (so k : Nat), SameSizes fsC fs →
    CGen.fieldLayout.goD sb d0 fsC so k = fieldLocD d0 sb fs so k
 | [], [], _, _, _ => by simp [CGen.fieldLayout.goD, fieldLocD]
 | (n, tc) :: r, t :: ts, so, k, h => by
    have h1 : tc.ssize = t.ssize := h.1
    simp only [CGen.fieldLayout.goD, fieldLocD, h1]
    cases t.ssize with
    | some s => simp only [cgen_slot, cgen_goD sb d0 r ts _ _ h.2]
    | none => simp only [cgen_goD sb d0 r ts _ _ h.2]
 | [], _ :: _, _, _, h => by simp [SameSizes] at h
 | _ :: _, [], _, _, h => by simp [SameSizes] at h

theorem cgen_sbytes : ∀ (fsC : List (String × CGen.Ty)) (fs : List Ty), SameSizes fsC fs →
    ((fsC.filter fun f => f.2.ssize.isSome).map fun f => CGen.slot (f.2.ssize.getD 0)).sum = staticBytes fs ∧
    (fsC.filter fun f => f.2.ssize.isNone).length = ndynF fs
 | [], [], _ => by simp [staticBytes, ndynF]
 | (n, tc) :: r, t :: ts, h => by
    have h1 : tc.ssize = t.ssize := h.1
    obtain ⟨g1, g2⟩ := cgen_sbytes r ts h.2
    simp only [cgen_slot] at g1
    cases hts : t.ssize with
    | some s =>
      rw [hts] at h1
      simp [h1, staticBytes, ndynF, hts, g1, g2, cgen_slot]
    | none =>
      rw [hts] at h1
      simp [h1, staticBytes, ndynF, hts, g1, g2, cgen_slot]; omega
 | [], _ :: _, h => by simp [SameSizes] at h
 | _ :: _, [], h => by simp [SameSizes] at h

/-- the `(offset, is_reference)` table the C generator works from is the class-level table of the layout model -/
theorem cgen_fieldLayout (fsC : List (String × CGen.Ty)) (fs : List Ty) (h : SameSizes fsC fs) :
    CGen.fieldLayout fsC = fieldLoc fs := by
  unfold CGen.fieldLayout fieldLoc
  rw [cgen_fieldsSize fsC fs h]
  obtain ⟨g1, g2⟩ := cgen_sbytes fsC fs h
  cases ssizeFields fs with
  | some s => simp only [cgen_go fsC fs 0 h]
  | none =>
    simp only [g1, g2, cgen_goD _ _ fsC fs 8 0 h]
    rfl

/-! ### the reference-free types of the C generator as layout-model types -/

theorem mapM_id_allStatic : ∀ shape : List (Option Nat), shape.mapM id = allStatic shape
 | [] => rfl
 | some d :: r => by
    rw [List.mapM_cons, mapM_id_allStatic r]
    simp only [allStatic, id]
    cases allStatic r <;> rfl
 | none :: r => by
    rw [List.mapM_cons]
    simp [allStatic]

theorem foldl_mul_prod : ∀ (dims : List Nat) (n : Nat), dims.foldl (· * ·) n = n * prod dims
 | [], n => by simp [prod]
 | d :: ds, n => by rw [List.foldl_cons, foldl_mul_prod ds (n * d)]; simp [prod, Nat.mul_assoc]

mutual
theorem ssize_toLay : ∀ (tc : CGen.Ty) (t : Ty), toLay tc = some t → CGen.Ty.ssize tc = t.ssize
 | .scalar s, t, h => by simp only [toLay, Option.some.injEq] at h; subst h; simp [CGen.Ty.ssize, Ty.ssize]
 | .string, t, h => by simp only [toLay, Option.some.injEq] at h; subst h; simp [CGen.Ty.ssize, Ty.ssize]
 | .struct _ fs, t, h => by
    simp only [toLay, Option.map_eq_some_iff] at h
    obtain ⟨ts, hts, rfl⟩ := h
    simp only [CGen.Ty.ssize, Ty.ssize]
    exact ssize_toLayFields fs ts hts
 | .array it sh ord, t, h => by
    simp only [toLay, Option.map_eq_some_iff] at h
    obtain ⟨i, hi, rfl⟩ := h
    simp only [CGen.Ty.ssize, Ty.ssize, ssize_toLay it i hi, mapM_id_allStatic]
    cases i.ssize <;> cases allStatic sh <;> simp [foldl_mul_prod, cgen_slot]
 | .ref _, _, h => by simp [toLay] at h
 | .unionref _ _, _, h => by simp [toLay] at h
theorem ssize_toLayFields : ∀ (fs : List (String × CGen.Ty)) (ts : List Ty), toLayFields fs = some ts →
    CGen.fieldsSize fs = ssizeFields ts
 | [], ts, h => by simp only [toLayFields, Option.some.injEq] at h; subst h; rfl
 | (n, tc) :: r, ts, h => by
    simp only [toLayFields] at h
    cases h1 : toLay tc with
    | none => simp [h1] at h
    | some a =>
      cases h2 : toLayFields r with
      | none => simp [h1, h2] at h
      | some b =>
        simp only [h1, h2, Option.some.injEq] at h
        subst h
        simp only [CGen.fieldsSize, ssizeFields, ssize_toLay tc a h1, ssize_toLayFields r b h2, cgen_slot]
        cases a.ssize <;> cases ssizeFields b <;> rfl
end

/-- translated field lists agree on static sizes field by field -/
theorem sameSizes_toLay : ∀ (fs : List (String × CGen.Ty)) (ts : List Ty), toLayFields fs = some ts → SameSizes fs ts
 | [], ts, h => by simp only [toLayFields, Option.some.injEq] at h; subst h; trivial
 | (n, tc) :: r, ts, h => by
    simp only [toLayFields] at h
    cases h1 : toLay tc with
    | none => simp [h1] at h
    | some a =>
      cases h2 : toLayFields r with
      | none => simp [h1, h2] at h
      | some b =>
        simp only [h1, h2, Option.some.injEq] at h
        subst h
        exact ⟨ssize_toLay tc a h1, sameSizes_toLay r b h2⟩


mutual
/-- both models size EVERY type alike - references included (a reference slot is 8 bytes, a union reference 16) -/
theorem ssize_toLayR : ∀ (tc : CGen.Ty), CGen.Ty.ssize tc = (toLayR tc).ssize
 | .scalar s => by simp [toLayR, CGen.Ty.ssize, Ty.ssize]
 | .string => by simp [toLayR, CGen.Ty.ssize, Ty.ssize]
 | .struct _ fs => by
    simp only [toLayR, CGen.Ty.ssize, Ty.ssize]
    exact ssize_toLayRFields fs
 | .array it sh ord => by
    simp only [toLayR, CGen.Ty.ssize, Ty.ssize, ← ssize_toLayR it, mapM_id_allStatic]
    cases CGen.Ty.ssize it <;> cases allStatic sh <;> simp [foldl_mul_prod, cgen_slot]
 | .ref _ => by simp [toLayR, CGen.Ty.ssize, Ty.ssize]
 | .unionref _ _ => by simp [toLayR, CGen.Ty.ssize, Ty.ssize]
theorem ssize_toLayRFields : ∀ (fs : List (String × CGen.Ty)), CGen.fieldsSize fs = ssizeFields (toLayRFields fs)
 | [] => rfl
 | (n, tc) :: r => by
    simp only [CGen.fieldsSize, toLayRFields, ssizeFields, ← ssize_toLayR tc, ← ssize_toLayRFields r, cgen_slot]
    cases CGen.Ty.ssize tc <;> cases CGen.fieldsSize r <;> rfl
end

mutual
/-- on reference-free types the two translations agree -/
theorem toLayR_of_toLay : ∀ (tc : CGen.Ty) (t : Ty), toLay tc = some t → toLayR tc = t
 | .scalar s, t, h => by simp only [toLay, Option.some.injEq] at h; subst h; rfl
 | .string, t, h => by simp only [toLay, Option.some.injEq] at h; subst h; rfl
 | .struct _ fs, t, h => by
    simp only [toLay, Option.map_eq_some_iff] at h
    obtain ⟨ts, hts, rfl⟩ := h
    simp only [toLayR, toLayRFields_of_toLayFields fs ts hts]
 | .array it sh ord, t, h => by
    simp only [toLay, Option.map_eq_some_iff] at h
    obtain ⟨i, hi, rfl⟩ := h
    simp only [toLayR, toLayR_of_toLay it i hi]
 | .ref _, _, h => by simp [toLay] at h
 | .unionref _ _, _, h => by simp [toLay] at h
theorem toLayRFields_of_toLayFields : ∀ (fs : List (String × CGen.Ty)) (ts : List Ty), toLayFields fs = some ts →
    toLayRFields fs = ts
 | [], ts, h => by simp only [toLayFields, Option.some.injEq] at h; subst h; rfl
 | (n, tc) :: r, ts, h => by
    simp only [toLayFields] at h
    cases h1 : toLay tc with
    | none => simp [h1] at h
    | some a =>
      cases h2 : toLayFields r with
      | none => simp [h1, h2] at h
      | some b =>
        simp only [h1, h2, Option.some.injEq] at h
        subst h
        simp only [toLayRFields, toLayR_of_toLay tc a h1, toLayRFields_of_toLayFields r b h2]
end

end Lay
