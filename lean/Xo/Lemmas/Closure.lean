import Xo.Lemmas.Topo
/-! the on-line closure loop of `sort_classes`: it collects exactly the classes reachable from the given ones through
`_get_inner_types() + _depends_on`, each once, and hands `topological_sort` a source with distinct keys in which every
dependency is a key (`WFS`) and whose entry for each class is the class's own dependency list. -/
namespace Topo

/-- `for d in ds: if d not in classes: classes.append(d)` -/
def addAll (cs ds : List Name) : List Name := ds.foldl (fun cs d => if cs.contains d then cs else cs ++ [d]) cs

theorem addAll_spec : ∀ (ds cs : List Name), cs.Nodup →
    ∃ ext, addAll cs ds = cs ++ ext ∧ (cs ++ ext).Nodup ∧ (∀ x ∈ ext, x ∈ ds) ∧ ∀ d ∈ ds, d ∈ cs ++ ext
 | [], cs, h => ⟨[], by simp [addAll], by simpa using h, by simp, by simp⟩
 | d :: ds, cs, h => by
    by_cases hd : cs.contains d = true
    · obtain ⟨ext, e1, e2, e3, e4⟩ := addAll_spec ds cs h
      refine ⟨ext, by simp only [addAll, List.foldl_cons, hd, if_true]; exact e1, e2, fun x hx => List.mem_cons_of_mem _ (e3 x hx), ?_⟩
      intro x hx
      rcases List.mem_cons.mp hx with rfl | hx
      · exact List.mem_append_left _ (by simpa using hd)
      · exact e4 x hx
    · have hd' : d ∉ cs := by simpa using hd
      have hn : (cs ++ [d]).Nodup := by
        rw [List.nodup_append]
        refine ⟨h, by simp, ?_⟩
        intro a ha b hb
        simp only [List.mem_singleton] at hb
        subst hb
        exact fun hab => hd' (hab ▸ ha)
      obtain ⟨ext, e1, e2, e3, e4⟩ := addAll_spec ds (cs ++ [d]) hn
      refine ⟨d :: ext, ?_, by simpa [List.append_assoc] using e2, ?_, ?_⟩
      · simp only [addAll, List.foldl_cons, hd, Bool.false_eq_true, if_false]
        simpa [addAll, List.append_assoc] using e1
      · intro x hx
        rcases List.mem_cons.mp hx with rfl | hx
        · exact List.mem_cons_self
        · exact List.mem_cons_of_mem _ (e3 x hx)
      · intro x hx
        rcases List.mem_cons.mp hx with rfl | hx
        · simp
        · have := e4 x hx
          simpa [List.append_assoc] using this

/-- reachable from the roots through the dependency lists -/
inductive Reach (u : Universe) (roots : List Name) : Name → Prop
 | root (c : Name) : c ∈ roots → Reach u roots c
 | dep (c d : Name) : Reach u roots c → d ∈ u.depsOf c → Reach u roots d

/-- the loop invariant: the first `i` classes have been processed -/
structure CInv (u : Universe) (roots : List Name) (i : Nat) (classes : List Name) (deps : Source) : Prop where
  nodup : classes.Nodup
  keys : Topo.keys deps = classes.take i
  own : ∀ e ∈ deps, e.2 = u.depsOf e.1 ∧ ∀ p ∈ e.2, p ∈ classes
  hroots : ∀ c ∈ roots, c ∈ classes
  reach : ∀ c ∈ classes, Reach u roots c
  le : i ≤ classes.length

theorem closeLoop_spec (u : Universe) (roots : List Name) : ∀ (fuel i : Nat) (classes : List Name) (deps : Source)
    (out : List Name × Source), CInv u roots i classes deps → closeLoop u fuel i classes deps = some out →
    CInv u roots out.1.length out.1 out.2
 | 0, _, _, _, _, _, h => by simp [closeLoop] at h
 | fuel + 1, i, classes, deps, out, inv, h => by
    simp only [closeLoop] at h
    cases hc : classes[i]? with
    | none =>
      simp only [hc, Option.some.injEq] at h
      subst h
      have hi : classes.length ≤ i := by
        rcases Nat.lt_or_ge i classes.length with hlt | hge
        · rw [List.getElem?_eq_getElem hlt] at hc; cases hc
        · exact hge
      have : i = classes.length := Nat.le_antisymm inv.le hi
      subst this
      exact inv
    | some cls =>
      simp only [hc] at h
      have hi : i < classes.length := by
        rcases Nat.lt_or_ge i classes.length with hlt | hge
        · exact hlt
        · rw [List.getElem?_eq_none hge] at hc; cases hc
      have hcls : cls = classes[i] := by rw [List.getElem?_eq_getElem hi] at hc; exact (Option.some.inj hc).symm
      obtain ⟨ext, e1, e2, e3, e4⟩ := addAll_spec (u.depsOf cls) classes inv.nodup
      have hnotkey : (deps.map (·.1)).contains cls = false := by
        have hk : deps.map (·.1) = classes.take i := inv.keys
        rw [hk]
        simp only [List.contains_eq_mem, decide_eq_false_iff_not]
        intro hm
        obtain ⟨j, hj, hje⟩ := List.mem_take_iff_getElem.mp hm
        have hji : j < i := by omega
        have := (List.getElem_inj (xs := classes) (h₀ := by omega) (h₁ := hi) inv.nodup).mp (hje.trans hcls)
        omega
      simp only [hnotkey, Bool.false_eq_true, if_false] at h
      have hfold : (u.depsOf cls).foldl (fun cs d => if cs.contains d then cs else cs ++ [d]) classes = classes ++ ext := e1
      rw [hfold] at h
      apply closeLoop_spec u roots fuel (i + 1) (classes ++ ext) (deps ++ [(cls, u.depsOf cls)]) out ?_ h
      refine ⟨e2, ?_, ?_, fun c hc' => List.mem_append_left _ (inv.hroots c hc'), ?_, by simp; omega⟩
      · simp only [Topo.keys, List.map_append, List.map_cons, List.map_nil]
        have hk : deps.map (·.1) = classes.take i := inv.keys
        rw [hk, List.take_append_of_le_length (by omega), List.take_succ_eq_append_getElem hi, hcls]
      · intro e he
        rcases List.mem_append.mp he with he | he
        · obtain ⟨q1, q2⟩ := inv.own e he
          exact ⟨q1, fun p hp => List.mem_append_left _ (q2 p hp)⟩
        · simp only [List.mem_singleton] at he
          subst he
          exact ⟨rfl, fun p hp => e4 p hp⟩
      · intro c hc'
        rcases List.mem_append.mp hc' with hc' | hc'
        · exact inv.reach c hc'
        · exact Reach.dep cls c (inv.reach cls (hcls ▸ List.getElem_mem hi)) (e3 c hc')

end Topo
