import Xo.Lemmas.LayoutRT
import Xo.Lemmas.Assign
/-! The round trip of an array whose size word is NOT the size the value needs (`Array._update`: the instance keeps its size):
the view never reads the first header word, so the argument of `rtD`'s array case goes through for any first word `w`.
The item-level round trip is `rtD` itself. -/
namespace Lay
open MemS

theorem words_cons (a : Nat) (r : List Nat) : words (a :: r) = le 8 a ++ words r := by simp [words]

/-- the header patch with its first word forced is the header patch of the list with another first word -/
theorem keepSize_header (w a : Nat) (r : List Nat) (rest : List Patch) :
    keepSize w ((0, words (a :: r)) :: rest) = (0, words (w :: r)) :: rest := by
  simp only [keepSize, words_cons]
  simp [le_length]

theorem rt_array_keep (it : Ty) (shape : List (Option Nat)) (order : List Nat) (sh : List Nat) (items : List Val)
    (hw : (Ty.array it shape order).WF) (hc : Conf (.array it shape order) (.arr sh items))
    (hsz : vsize (.array it shape order) (.arr sh items) < 2^64)
    (hss' : ((ainfo it shape).staticShape && (ainfo it shape).staticType) = false) (w : Nat)
    (m : Mem) (off : Nat) (hb : off + vsize (.array it shape order) (.arr sh items) ≤ m.length) (m' : Mem)
    (hag0 : Agree m' (apply (shift off (keepSize w (patchesD (.array it shape order) (.arr sh items)))) m) off
      (off + vsize (.array it shape order) (.arr sh items))) :
    readD (.array it shape order) m' off = (Val.arr sh items).norm := by
  obtain ⟨hm, hl, hci, hdims⟩ := hc
  obtain ⟨ho, hwi⟩ := hw
  have hcm := confItems_mem it items hci
  have hwithin : ∀ v ∈ items, Within (patchesD it v) 0 (vsize it v) := fun v hv => withinD it v hwi (hcm v hv)
  simp only [Val.norm, normL_eq_map]
  have hag := hag0
  simp only [patchesD, hss', Bool.false_eq_true, ↓reduceIte, keepSize_header] at hag
  simp only [readD, hss', Bool.false_eq_true, ↓reduceIte]
  have hhl := header_length it shape order sh w hm ho hss'
  generalize hH : (w :: (dynDims shape sh ++
      (if !(ainfo it shape).staticShape && (ainfo it shape).nd > 1 then getStrides sh order (ainfo it shape).unit else []))) = hdr at hag hhl
  rw [shift_cons] at hag
  simp only [apply, List.foldl_cons, Nat.zero_add] at hag
  -- the header words are read back by the view
  have hdimsread : ∀ rest : List Patch, Outside rest off (off + (ainfo it shape).dataOff) → InBounds rest m.length →
      Agree m' (apply rest (writeAt m off (words hdr))) off (off + vsize (.array it shape order) (.arr sh items)) →
      (ainfo it shape).dataOff ≤ vsize (.array it shape order) (.arr sh items) →
      readDims m' shape (off + 8) = sh := by
    intro rest hout hin hagr hle
    have hreg := region_after m off (words hdr) rest (by omega) (by rw [hhl]; exact hout) hin
    rw [hhl] at hreg
    have hreg' : readAt m' off (8 * hdr.length) = words hdr := by
      have : 8 * hdr.length = (ainfo it shape).dataOff := by rw [← hhl, words_length]
      rw [this, readAt_agree hagr (Nat.le_refl _) (by omega)]
      exact hreg
    apply readDims_dyn m' shape sh (off + 8) hm
    intro j hj
    have hjl : j + 1 < hdr.length := by rw [← hH]; simp; omega
    have hget : hdr.getD (j + 1) 0 = (dynDims shape sh).getD j 0 := by
      rw [← hH]
      simp only [List.getD_eq_getElem?_getD, List.getElem?_cons_succ]
      rw [List.getElem?_append_left hj]
    have hlt : hdr.getD (j + 1) 0 < 2 ^ 64 := by
      rw [hget]
      have hmem : (dynDims shape sh).getD j 0 ∈ dynDims shape sh := by
        rw [List.getD_eq_getElem?_getD, List.getElem?_eq_getElem hj]; simp
      exact hdims _ (dynDims_subset shape sh _ hmem)
    have := word_of_region m' off hdr hreg' (j + 1) hjl hlt
    rw [← hget, ← this]; congr 2; omega
  by_cases hst : (ainfo it shape).staticType = true
  · -- dynamic shape, static items
    simp only [hst, ↓reduceIte] at hag ⊢
    obtain ⟨s, hs⟩ : ∃ s, it.ssize = some s := by
      simp only [ainfo] at hst; exact Option.isSome_iff_exists.mp hst
    have hu : (ainfo it shape).unit = s := by simp [ainfo, hs]
    have hv : vsize (.array it shape order) (.arr sh items) = slot ((ainfo it shape).dataOff + s * items.length) := by
      simp [vsize, hst, hu]
    have hsl := slot_ge ((ainfo it shape).dataOff + s * items.length)
    have hitemsW : ∀ v ∈ items, Within (patchesD it v) 0 s := fun v hv => by
      have := hwithin v hv; rwa [conf_ssize it v s (hcm v hv) hs] at this
    have hP := within_shift (d := off) (placeS_within (patchesD it) s items (ainfo it shape).dataOff hitemsW)
    rw [hu] at hag
    have hdr_ok := hdimsread (shift off (placeS (patchesD it) s items (ainfo it shape).dataOff))
      (outside_of_within hP (by omega)) (inBounds_of_within hP (by rw [hv] at hb; omega)) hag (by rw [hv]; omega)
    rw [hdr_ok, ← hl, hu]
    congr 1
    have hlen1 := length_writeAt m off (words hdr) (by rw [hhl]; rw [hv] at hb; omega)
    have := placeS_rt (patchesD it) (readD it) s Val.norm items (ainfo it shape).dataOff (fun v hv' => by
        have hvs := conf_ssize it v s (hcm v hv') hs
        refine ⟨hitemsW v hv', ?_⟩
        intro m0 o0 hb0 m0' hag0
        have hpos : 0 < items.length := List.length_pos_of_mem hv'
        have hle : s ≤ s * items.length := Nat.le_mul_of_pos_right s hpos
        exact rtD it v hwi (hcm v hv') (by rw [hvs]; rw [hv] at hsz; omega)
          m0 o0 (by rw [hvs]; exact hb0) m0' (by rw [hvs]; exact hag0))
      (writeAt m off (words hdr)) off (by rw [hv] at hb; omega) m' (by
        intro i h1 h2; exact hag i (by omega) (by rw [hv]; omega))
    simpa [Nat.add_assoc] using this
  · -- dynamic items: offset table, then the items
    have hst' : (ainfo it shape).staticType = false := by simpa using hst
    simp only [hst', Bool.false_eq_true, ↓reduceIte] at hag ⊢
    have hv : vsize (.array it shape order) (.arr sh items) =
        slot ((ainfo it shape).dataOff + 8 * items.length + sizesD (vsize it) items) := by
      simp [vsize, hst']
    have hsl := slot_ge ((ainfo it shape).dataOff + 8 * items.length + sizesD (vsize it) items)
    rw [shift_cons] at hag
    simp only [apply, List.foldl_cons] at hag
    generalize hT : offsetsD (vsize it) items ((ainfo it shape).dataOff + 8 * items.length) = offs at hag
    have hTl : (words offs).length = 8 * items.length := by rw [words_length, ← hT, offsetsD_length]
    have hP := within_shift (d := off) (placeD_within (patchesD it) (vsize it) items
      ((ainfo it shape).dataOff + 8 * items.length) hwithin)
    have hlen1 := length_writeAt m off (words hdr) (by rw [hhl]; rw [hv] at hb; omega)
    have hlen2 := length_writeAt (writeAt m off (words hdr)) ((ainfo it shape).dataOff + off) (words offs)
      (by rw [hTl, hlen1]; rw [hv] at hb; omega)
    -- header
    have hdr_ok := hdimsread ((( ainfo it shape).dataOff + off, words offs) ::
        shift off (placeD (patchesD it) (vsize it) items ((ainfo it shape).dataOff + 8 * items.length)))
      (by
        intro q hq
        rcases List.mem_cons.mp hq with rfl | hq
        · right; simp; omega
        · have := hP q hq; right; omega)
      (by
        intro q hq
        rcases List.mem_cons.mp hq with rfl | hq
        · simp only [hTl]; rw [hv] at hb; omega
        · have := hP q hq; rw [hv] at hb; omega)
      (by simpa [apply] using hag) (by rw [hv]; omega)
    rw [hdr_ok, ← hl]
    congr 1
    -- table
    have htab : readAt m' (off + (ainfo it shape).dataOff) (8 * offs.length) = words offs := by
      have hol : offs.length = items.length := by rw [← hT, offsetsD_length]
      have hreg := region_after (writeAt m off (words hdr)) ((ainfo it shape).dataOff + off) (words offs)
        (shift off (placeD (patchesD it) (vsize it) items ((ainfo it shape).dataOff + 8 * items.length)))
        (by rw [hTl, hlen1]; rw [hv] at hb; omega)
        (by rw [hTl]; exact outside_of_within hP (by omega))
        (by rw [hlen1]; exact inBounds_of_within hP (by rw [hv] at hb; omega))
      rw [hTl] at hreg
      rw [hol, Nat.add_comm off, readAt_agree hag (by omega) (by rw [hv]; omega)]
      exact hreg
    have := placeD_rt (patchesD it) (readD it) (vsize it) Val.norm items ((ainfo it shape).dataOff + 8 * items.length)
      (off + (ainfo it shape).dataOff)
      (fun v hv' => ⟨hwithin v hv', fun m0 o0 hb0 m0' hag0 =>
        rtD it v hwi (hcm v hv') (by have := sizesD_items_le (vsize it) items v hv'; rw [hv] at hsz; omega) m0 o0 hb0 m0' hag0⟩)
      (writeAt (writeAt m off (words hdr)) ((ainfo it shape).dataOff + off) (words offs)) off
      (by rw [hlen2, hlen1]; rw [hv] at hb; omega) m'
      (by intro i h1 h2; exact hag i (by omega) (by rw [hv]; omega))
      (by
        intro j hj
        have hol : offs.length = items.length := by rw [← hT, offsetsD_length]
        have hb' := offsetsD_bound (vsize it) items ((ainfo it shape).dataOff + 8 * items.length) j hj
        rw [hT] at hb'
        rw [hT]
        exact word_of_region m' (off + (ainfo it shape).dataOff) offs htab j (by omega) (by rw [hv] at hsz; omega))
    exact this

end Lay
