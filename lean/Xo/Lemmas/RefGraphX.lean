import Xo.Model.RefGraphX
import Xo.Lemmas.RefGraphOps
import Xo.Props.C12
/-! Copy construction into another buffer (`Xo/Model/RefGraphX.lean`): the destination keeps its invariant and all it held, the
copy is a tree of NEW nodes, and it is indistinguishable from the source by reads along paths of any length (`Sim`). -/
namespace RG
open MemS Lay Alloc

/-! ### the bytes of the copy -/

theorem xfield_length (src : St) (fk : FK) (sa da : Nat) (x : Option Nat) : (xfield src fk sa da x).length = fk.size := by
  cases fk with
  | scal => simp [xfield, le_length, FK.size]
  | ref c =>
    simp only [xfield, FK.size]
    split <;> simp [refNullBytes, refBytes, i64le_length]
  | uref cs =>
    simp only [xfield, FK.size]
    split <;> simp [urefNullBytes, urefBytes, refBytes, i64le_length]

theorem xbytes_length (src : St) : ∀ (cl : Cls) (sa da : Nat) (ch : List (Option Nat)), (xbytes src cl sa da ch).length = csize cl
 | [], _, _, _ => rfl
 | fk :: r, sa, da, ch => by
    simp only [xbytes, List.length_append, xfield_length, xbytes_length src r, csize]

theorem xbytes_field (src : St) : ∀ (cl : Cls) (sa da : Nat) (ch : List (Option Nat)) (k : Nat) (fk : FK), cl[k]? = some fk →
    readAt (xbytes src cl sa da ch) (foff cl k) fk.size = xfield src fk (sa + foff cl k) (da + foff cl k) ch[k]?.join
 | [], _, _, _, k, _, h => by simp at h
 | f :: r, sa, da, ch, 0, fk, h => by
    simp only [List.getElem?_cons_zero, Option.some.injEq] at h
    subst h
    simp only [xbytes, foff, Nat.add_zero]
    have := readAt_append_left (xfield src f sa da ch.head?.join) (xbytes src r (sa + f.size) (da + f.size) ch.tail)
    rw [xfield_length] at this
    rw [this]
    cases ch <;> rfl
 | f :: r, sa, da, ch, k + 1, fk, h => by
    simp only [List.getElem?_cons_succ] at h
    simp only [xbytes, foff]
    have := readAt_append_right (xfield src f sa da ch.head?.join) (xbytes src r (sa + f.size) (da + f.size) ch.tail) (foff r k) fk.size
    rw [xfield_length] at this
    rw [this, xbytes_field src r _ _ _ k fk h]
    have : ch.tail[k]? = ch[k + 1]? := by cases ch <;> simp
    rw [this]
    congr 1 <;> omega

/-! ### frames -/

theorem unchanged_trans {s s' s'' : St} {e : Ent} (h1 : Unchanged s s' e) (h2 : Unchanged s' s'' e) : Unchanged s s'' e :=
  fun i a b => (h2 i a b).trans (h1 i a b)

/-- a write that shares no byte with an entry leaves it as it was -/
theorem wr_unchanged (s : St) (x : Nat) (bs : List UInt8) (hfit : x + bs.length ≤ s.b.mem.length) (e : Ent)
    (hd : ∀ i, e.addr ≤ i → i < e.addr + e.size → ¬ (x ≤ i ∧ i < x + bs.length)) : Unchanged s (wr s x bs) e := by
  intro i h1 h2
  simp only [wr]
  rw [getElem?_writeAt _ _ _ hfit]
  simp [hd i h1 h2]

theorem readAt_unchanged {s s' : St} {e : Ent} (h : Unchanged s s' e) (a n : Nat) (h1 : e.addr ≤ a) (h2 : a + n ≤ e.addr + e.size) :
    readAt s'.b.mem a n = readAt s.b.mem a n :=
  readAt_congr _ _ _ _ fun i p q => h i (by omega) (by omega)

/-! ### what a recursive call has to deliver -/

/-- the copy at `t'` reads like the source at `t` in EVERY state that keeps the bytes of the nodes created for it -/
def Stable (u : Univ) (src : St) (news : List Ent) (d' : St) (t t' c : Nat) : Prop :=
  ∀ s'' : St, (∀ e ∈ news, Unchanged d' s'' e) → ∀ n, Sim u src s'' n t t' c

def RecSpec (u : Univ) (src : St) (rec : St → Nat → Nat → Option (St × Nat)) : Prop :=
  ∀ d t c d1 t', Inv u d → IsObj src t c → rec d t c = some (d1, t') → d1.b.a.capacity < 2 ^ 62 →
    Inv u d1 ∧ IsObj d1 t' c ∧ d.b.a.capacity ≤ d1.b.a.capacity ∧ (∀ e ∈ d.live, Unchanged d d1 e) ∧
    ∃ news, d1.live = news ++ d.live ∧ Stable u src news d1 t t' c

/-- what is known about the copy of one field's referent -/
def ChildFact (u : Univ) (src : St) (fk : FK) (sa : Nat) (news : List Ent) (d1 : St) (x : Option Nat) : Prop :=
  match fk with
  | .scal => x = none
  | .ref c' => (deref src.b.mem sa = none ∧ x = none) ∨
      ∃ t t', deref src.b.mem sa = some t ∧ x = some t' ∧ IsObj d1 t' c' ∧ Stable u src news d1 t t' c'
  | .uref cs => (deref src.b.mem sa = none ∧ x = none) ∨
      ∃ t t' c', deref src.b.mem sa = some t ∧ refClass src (.uref cs) sa = some c' ∧ x = some t' ∧ IsObj d1 t' c' ∧
        Stable u src news d1 t t' c'

theorem stable_lift {u : Univ} {src : St} {news news' : List Ent} {d1 d' : St} {t t' c : Nat}
    (hsub : ∀ e ∈ news, e ∈ news') (hun : ∀ e ∈ news, Unchanged d1 d' e) (h : Stable u src news d1 t t' c) :
    Stable u src news' d' t t' c :=
  fun s'' hs n => h s'' (fun e he => unchanged_trans (hun e he) (hs e (hsub e he))) n

theorem childFact_lift {u : Univ} {src : St} {fk : FK} {sa : Nat} {news news' : List Ent} {d1 d' : St} {x : Option Nat}
    (hsub : ∀ e ∈ news, e ∈ news') (hun : ∀ e ∈ news, Unchanged d1 d' e) (hobj : ∀ t c, IsObj d1 t c → IsObj d' t c)
    (h : ChildFact u src fk sa news d1 x) : ChildFact u src fk sa news' d' x := by
  cases fk with
  | scal => exact h
  | ref c' =>
    rcases h with h | ⟨t, t', h1, h2, h3, h4⟩
    · exact Or.inl h
    · exact Or.inr ⟨t, t', h1, h2, hobj _ _ h3, stable_lift hsub hun h4⟩
  | uref cs =>
    rcases h with h | ⟨t, t', c', h1, h2, h3, h4, h5⟩
    · exact Or.inl h
    · exact Or.inr ⟨t, t', c', h1, h2, h3, hobj _ _ h4, stable_lift hsub hun h5⟩

/-- the class a non-null union slot of a well-formed source names -/
theorem refOK_uref_class {s : St} {cs : List Nat} {a : Nat} (h : RefOK s (.uref cs) a) :
    (deref s.b.mem a = none) ∨ ∃ t c, deref s.b.mem a = some t ∧ refClass s (.uref cs) a = some c ∧ c ∈ cs ∧ IsObj s t c := by
  rcases h with h | ⟨t, i, c, h1, h2, h3, h4⟩
  · exact Or.inl h.1
  · refine Or.inr ⟨t, c, h1, ?_, List.mem_of_getElem? h3, h4⟩
    simp only [refClass, h2]
    have : (0 : Int) ≤ (i : Int) := Int.natCast_nonneg i
    simp only [this, ↓reduceIte, Int.toNat_natCast]
    exact h3

theorem xchild_spec {u : Univ} {src : St} {rec : St → Nat → Nat → Option (St × Nat)} (hrec : RecSpec u src rec)
    {fk : FK} {sa : Nat} {d d1 : St} {x : Option Nat} (hd : Inv u d) (hro : RefOK src fk sa)
    (h : xchild rec src fk sa d = some (d1, x)) (hcap : d1.b.a.capacity < 2 ^ 62) :
    Inv u d1 ∧ d.b.a.capacity ≤ d1.b.a.capacity ∧ (∀ e ∈ d.live, Unchanged d d1 e) ∧
    ∃ news, d1.live = news ++ d.live ∧ ChildFact u src fk sa news d1 x := by
  have triv : ∀ (hx : ChildFact u src fk sa [] d none), d1 = d → x = none →
      Inv u d1 ∧ d.b.a.capacity ≤ d1.b.a.capacity ∧ (∀ e ∈ d.live, Unchanged d d1 e) ∧
      ∃ news, d1.live = news ++ d.live ∧ ChildFact u src fk sa news d1 x := by
    rintro hx rfl rfl
    exact ⟨hd, Nat.le_refl _, fun e _ => unchanged_refl _ e, [], rfl, hx⟩
  cases fk with
  | scal =>
    simp only [xchild, Option.some.injEq, Prod.mk.injEq] at h
    exact triv rfl h.1.symm h.2.symm
  | ref c' =>
    simp only [xchild] at h
    split at h
    · rename_i hn
      simp only [Option.some.injEq, Prod.mk.injEq] at h
      exact triv (Or.inl ⟨hn, rfl⟩) h.1.symm h.2.symm
    · rename_i t ht
      split at h
      · simp at h
      · rename_i d1' t' hr
        simp only [Option.some.injEq, Prod.mk.injEq] at h
        obtain ⟨rfl, rfl⟩ := h
        have hobj : IsObj src t c' := by
          rcases hro with hn | ⟨t0, h1, h2⟩
          · rw [hn] at ht; cases ht
          · rw [h1] at ht; cases ht; exact h2
        obtain ⟨i1, i2, i3, i4, news, i5, i6⟩ := hrec d t c' d1' t' hd hobj hr hcap
        exact ⟨i1, i3, i4, news, i5, Or.inr ⟨t, t', ht, rfl, i2, i6⟩⟩
  | uref cs =>
    simp only [xchild] at h
    rcases refOK_uref_class hro with hn | ⟨t, c, h1, h2, _, h4⟩
    · rw [hn] at h
      simp only [Option.some.injEq, Prod.mk.injEq] at h
      exact triv (Or.inl ⟨hn, rfl⟩) h.1.symm h.2.symm
    · rw [h1, h2] at h
      simp only at h
      split at h
      · simp at h
      · rename_i d1' t' hr
        simp only [Option.some.injEq, Prod.mk.injEq] at h
        obtain ⟨rfl, rfl⟩ := h
        obtain ⟨i1, i2, i3, i4, news, i5, i6⟩ := hrec d t c d1' t' hd h4 hr hcap
        exact ⟨i1, i3, i4, news, i5, Or.inr ⟨t, t', c, h1, h2, rfl, i2, i6⟩⟩

/-! ### capacities only grow -/

def RecCap (rec : St → Nat → Nat → Option (St × Nat)) : Prop :=
  ∀ d t c d1 t', rec d t c = some (d1, t') → d.b.a.capacity ≤ d1.b.a.capacity

theorem xchild_cap {src : St} {rec : St → Nat → Nat → Option (St × Nat)} (hc : RecCap rec) {fk : FK} {sa : Nat} {d d1 : St}
    {x : Option Nat} (h : xchild rec src fk sa d = some (d1, x)) : d.b.a.capacity ≤ d1.b.a.capacity := by
  cases fk with
  | scal =>
    simp only [xchild, Option.some.injEq, Prod.mk.injEq] at h
    rw [← h.1]; exact Nat.le_refl _
  | ref c' =>
    simp only [xchild] at h
    split at h
    · simp only [Option.some.injEq, Prod.mk.injEq] at h
      rw [← h.1]; exact Nat.le_refl _
    · split at h
      · simp at h
      · rename_i d1' t' hr
        simp only [Option.some.injEq, Prod.mk.injEq] at h
        rw [← h.1]; exact hc _ _ _ _ _ hr
  | uref cs =>
    simp only [xchild] at h
    split at h
    · split at h
      · simp at h
      · rename_i d1' t' hr
        simp only [Option.some.injEq, Prod.mk.injEq] at h
        rw [← h.1]; exact hc _ _ _ _ _ hr
    · simp only [Option.some.injEq, Prod.mk.injEq] at h
      rw [← h.1]; exact Nat.le_refl _

theorem xchildren_cap {src : St} {rec : St → Nat → Nat → Option (St × Nat)} (hc : RecCap rec) :
    ∀ (r : Cls) (sa : Nat) (d d' : St) (l : List (Option Nat)), xchildren rec src r sa d = some (d', l) →
    d.b.a.capacity ≤ d'.b.a.capacity
 | [], _, d, d', l, h => by
    simp only [xchildren, Option.some.injEq, Prod.mk.injEq] at h
    obtain ⟨rfl, _⟩ := h
    exact Nat.le_refl _
 | f :: r, sa, d, d', l, h => by
    simp only [xchildren] at h
    split at h
    · simp at h
    · rename_i d1 x hx
      split at h
      · simp at h
      · rename_i d2 l2 hrest
        simp only [Option.some.injEq, Prod.mk.injEq] at h
        obtain ⟨rfl, _⟩ := h
        exact Nat.le_trans (xchild_cap hc hx) (xchildren_cap hc r _ d1 d2 l2 hrest)

theorem xcopy_cap (u : Univ) (src : St) : ∀ fuel, RecCap (xcopy u src fuel)
 | 0 => fun d t c d1 t' h => by simp [xcopy] at h
 | fuel + 1 => fun d t c d1 t' h => by
    simp only [xcopy] at h
    split at h
    · simp at h
    · rename_i cl hcl
      split at h
      · simp at h
      · rename_i dn o hn
        split at h
        · simp at h
        · rename_i d2 ch hch
          simp only [Option.some.injEq, Prod.mk.injEq] at h
          obtain ⟨rfl, _⟩ := h
          have h1 := newObj_cap u d c []
          rw [hn] at h1
          have h2 := xchildren_cap (xcopy_cap u src fuel) cl t dn d2 ch hch
          simp only [wr]
          exact Nat.le_trans h1 h2

theorem foff_cons_succ (f : FK) (r : Cls) (j : Nat) : foff (f :: r) (j + 1) = f.size + foff r j := rfl

/-- the referents of all fields of one node -/
theorem xchildren_spec {u : Univ} {src : St} {rec : St → Nat → Nat → Option (St × Nat)} (hrec : RecSpec u src rec)
    (hc : RecCap rec) :
    ∀ (r : Cls) (sa : Nat) (d d' : St) (l : List (Option Nat)), Inv u d →
    (∀ j fk, r[j]? = some fk → RefOK src fk (sa + foff r j)) →
    xchildren rec src r sa d = some (d', l) → d'.b.a.capacity < 2 ^ 62 →
    Inv u d' ∧ d.b.a.capacity ≤ d'.b.a.capacity ∧ (∀ e ∈ d.live, Unchanged d d' e) ∧ l.length = r.length ∧
    ∃ news, d'.live = news ++ d.live ∧
      ∀ j fk, r[j]? = some fk → ChildFact u src fk (sa + foff r j) news d' l[j]?.join
 | [], sa, d, d', l, hd, _, h, _ => by
    simp only [xchildren, Option.some.injEq, Prod.mk.injEq] at h
    obtain ⟨rfl, rfl⟩ := h
    exact ⟨hd, Nat.le_refl _, fun e _ => unchanged_refl _ e, rfl, [], rfl, fun j fk hj => by simp at hj⟩
 | f :: r, sa, d, d', l, hd, hro, h, hcap => by
    simp only [xchildren] at h
    split at h
    · simp at h
    · rename_i d1 x hx
      split at h
      · simp at h
      · rename_i d2 l2 hrest
        simp only [Option.some.injEq, Prod.mk.injEq] at h
        obtain ⟨rfl, rfl⟩ := h
        -- capacity of the intermediate state: below the final one
        have hro' : ∀ j fk, r[j]? = some fk → RefOK src fk (sa + f.size + foff r j) := by
          intro j fk hj
          have := hro (j + 1) fk (by simpa using hj)
          rw [foff_cons_succ] at this
          rwa [Nat.add_assoc]
        have hmono : d1.b.a.capacity ≤ d2.b.a.capacity := xchildren_cap hc r _ d1 d2 l2 hrest
        obtain ⟨a1, a2, a3, n1, a4, a5⟩ := xchild_spec hrec hd (by simpa [foff] using hro 0 f rfl) hx (by omega)
        obtain ⟨b1, b2, b3, b4, n2, b5, b6⟩ := xchildren_spec hrec hc r (sa + f.size) d1 d2 l2 a1 hro' hrest hcap
        refine ⟨b1, by omega, fun e he => ?_, by simp [b4], n2 ++ n1, by rw [b5, a4, List.append_assoc], ?_⟩
        · exact unchanged_trans (a3 e he) (b3 e (by rw [a4]; exact List.mem_append_right _ he))
        · intro j fk hj
          cases j with
          | zero =>
            simp only [List.getElem?_cons_zero, Option.some.injEq] at hj
            subst hj
            simp only [foff, Nat.add_zero, List.getElem?_cons_zero, Option.join_some]
            refine childFact_lift (fun e he => List.mem_append_right _ he) (fun e he => b3 e ?_) (fun t c ⟨e, he, h1, h2⟩ => ⟨e, ?_, h1, h2⟩) a5
            · rw [a4]; exact List.mem_append_left _ he
            · rw [b5]; exact List.mem_append_right _ he
          | succ j =>
            simp only [List.getElem?_cons_succ] at hj ⊢
            rw [foff_cons_succ, ← Nat.add_assoc]
            exact childFact_lift (fun e he => List.mem_append_left _ he) (fun e _ => unchanged_refl _ e) (fun _ _ h => h) (b6 j fk hj)

/-! ### a whole node is overwritten -/

theorem node_fit {u : Univ} {s : St} (hi : Inv u s) {eo : Ent} (heo : eo ∈ s.live) : eo.addr + eo.size ≤ s.b.mem.length := by
  have hin := hi.a.inb (eo.addr, eo.size) (List.mem_map.mpr ⟨eo, heo, rfl⟩)
  have := hi.mem
  unfold Buf.MemOK at this
  simp only at hin
  omega

/-- regions of two live entries that share no point, as intervals: a slot of one lies before or after the other (non-empty) one -/
theorem slot_off_node {u : Univ} {s : St} (hi : Inv u s) {e eo : Ent} (he : e ∈ s.live) (hz : eo.size ≠ 0)
    (hd : Disjoint (e.addr, e.size) (eo.addr, eo.size)) {k : Nat} {fk : FK} {a : Nat} (hf : fieldAt u e k = some (fk, a)) :
    a + fk.size ≤ eo.addr ∨ eo.addr + eo.size ≤ a := by
  obtain ⟨i1, i2, _⟩ := slot_in hi he hf
  have p := FK.size_pos fk
  by_cases hle : a ≤ eo.addr
  · have := hd eo.addr
    unfold Region.Has at this
    simp only at this
    left; omega
  · have := hd a
    unfold Region.Has at this
    simp only at this
    right; omega

theorem wr_nil (s : St) (x : Nat) : wr s x [] = s := by
  simp only [wr, writeAt_nil]

/-- a whole live node is overwritten: the invariant needs only that its own slots are fine afterwards -/
theorem inv_wr_node {u : Univ} {s : St} (hi : Inv u s) {eo : Ent} (heo : eo ∈ s.live) {c : Nat} {cl : Cls}
    (hc : eo.cls = some c) (hcl : u[c]? = some cl) (bs : List UInt8) (hlen : bs.length = csize cl)
    (hnew : ∀ k fk, cl[k]? = some fk → RefOK (wr s eo.addr bs) fk (eo.addr + foff cl k)) : Inv u (wr s eo.addr bs) := by
  obtain ⟨cl', hcl', hsz⟩ := hi.wf eo heo c hc
  rw [hcl] at hcl'; cases hcl'
  by_cases hz : csize cl = 0
  · have : bs = [] := List.eq_nil_of_length_eq_zero (by omega)
    subst this
    rw [wr_nil]; exact hi
  have hfit := node_fit hi heo
  have hfit' : eo.addr + bs.length ≤ s.b.mem.length := by omega
  exact {
    a := hi.a
    mem := by
      have := hi.mem
      unfold Buf.MemOK at *
      simp only [wr]
      rw [length_writeAt _ _ _ hfit']; exact this
    cap := hi.cap
    wf := hi.wf
    refs := by
      intro e he k fk a hf
      by_cases hee : e = eo
      · subst hee
        obtain ⟨c', cl', hc', hcl', hk, rfl⟩ := fieldAt_spec hf
        rw [hc] at hc'; cases hc'
        rw [hcl] at hcl'; cases hcl'
        exact hnew k fk hk
      · have hd := live_disj hi he heo hee
        have := slot_off_node hi he (by omega) hd hf
        refine refOK_transfer (s := s) (s' := wr s eo.addr bs) (fun t c h => h) ?_ (hi.refs e he k fk a hf)
        simp only [wr]
        exact readAt_writeAt_disj _ _ _ hfit' _ _ (by omega) }

/-! ### the copy -/

theorem newObj_some {u : Univ} {s s1 : St} {c : Nat} {vs : List Nat} {o : Nat} (h : newObj u s c vs = (s1, some o)) :
    ∃ cl, u[c]? = some cl ∧ s1.live = ⟨o, csize cl, some c⟩ :: s.live := by
  unfold newObj at h
  split at h
  · simp at h
  · rename_i cl hcl
    split at h
    · simp at h
    · simp only [Prod.mk.injEq, Option.some.injEq] at h
      obtain ⟨rfl, rfl⟩ := h
      exact ⟨cl, hcl, rfl⟩

theorem refClass_mem {s : St} {cs : List Nat} {a c : Nat} (h : refClass s (.uref cs) a = some c) : c ∈ cs := by
  simp only [refClass] at h
  split at h
  · exact List.mem_of_getElem? h
  · cases h

theorem refClass_of_idx {s : St} {cs : List Nat} {a c : Nat} (hm : c ∈ cs) (h : memberIdx s.b.mem a = ((cs.idxOf c : Nat) : Int)) :
    refClass s (.uref cs) a = some c := by
  simp only [refClass, h]
  have : (0 : Int) ≤ ((cs.idxOf c : Nat) : Int) := Int.natCast_nonneg _
  simp only [this, ↓reduceIte, Int.toNat_natCast]
  rw [List.getElem?_eq_getElem (List.idxOf_lt_length_of_mem hm)]
  simp

theorem isObj_lt {u : Univ} {s : St} (hi : Inv u s) {t c : Nat} (h : IsObj s t c) : t < 2 ^ 62 := by
  obtain ⟨e, he, rfl, _⟩ := h
  have := live_addr_lt hi he
  omega

theorem pairwise_regions {u : Univ} {s : St} (hi : Inv u s) :
    s.live.Pairwise fun a b => Disjoint (a.addr, a.size) (b.addr, b.size) := by
  have := hi.a.disj
  unfold regions at this
  exact List.pairwise_map.mp this

/-- **copy construction into another buffer**: every call of `xcopy` that succeeds satisfies `RecSpec` -/
theorem xcopy_spec {u : Univ} (hu : UWF u) {src : St} (hs : Inv u src) : ∀ fuel, RecSpec u src (xcopy u src fuel)
 | 0 => fun d t c d1 t' _ _ h _ => by simp [xcopy] at h
 | fuel + 1 => fun d a c dF oF hd hobj h hcap => by
    simp only [xcopy] at h
    split at h
    · simp at h
    · rename_i cl hcl
      split at h
      · simp at h
      · rename_i d1 o hn
        split at h
        · simp at h
        · rename_i d2 ch hch
          simp only [Option.some.injEq, Prod.mk.injEq] at h
          obtain ⟨rfl, rfl⟩ := h
          have hcap2 : d2.b.a.capacity < 2 ^ 62 := by simpa [wr] using hcap
          have c12 := xchildren_cap (xcopy_cap u src fuel) cl a d1 d2 ch hch
          have c01 : d.b.a.capacity ≤ d1.b.a.capacity := by
            have := newObj_cap u d c []
            rwa [hn] at this
          obtain ⟨n1, n2, n3, n4⟩ := newObj_spec hd hn (by omega)
          obtain ⟨cl', hcl', hlive1⟩ := newObj_some hn
          rw [hcl] at hcl'; cases hcl'
          obtain ⟨ea, hea, hea1, hea2⟩ := hobj
          have hro : ∀ j fk, cl[j]? = some fk → RefOK src fk (a + foff cl j) := by
            intro j fk hj
            have := hs.refs ea hea j fk _ (fieldAt_of hea2 hcl hj)
            rwa [hea1] at this
          obtain ⟨b1, b2, b3, b4, news, b5, b6⟩ :=
            xchildren_spec (xcopy_spec hu hs fuel) (xcopy_cap u src fuel) cl a d1 d2 ch n1 hro hch hcap2
          have heo1 : (⟨o, csize cl, some c⟩ : Ent) ∈ d1.live := by rw [hlive1]; exact List.mem_cons_self
          have heo2 : (⟨o, csize cl, some c⟩ : Ent) ∈ d2.live := by rw [b5]; exact List.mem_append_right _ heo1
          have hlenx := xbytes_length src cl a o ch
          have hfit := node_fit b1 heo2
          simp only at hfit
          have holt := live_addr_lt b1 heo2
          simp only at holt
          have hfitx : o + (xbytes src cl a o ch).length ≤ d2.b.mem.length := by rw [hlenx]; exact hfit
          -- what the slots of the copy hold
          have hslot : ∀ k fk, cl[k]? = some fk →
              readAt (wr d2 o (xbytes src cl a o ch)).b.mem (o + foff cl k) fk.size =
                xfield src fk (a + foff cl k) (o + foff cl k) ch[k]?.join := by
            intro k fk hk
            have hle := foff_le cl k fk hk
            simp only [wr]
            rw [readAt_writeAt_inside _ _ _ hfitx _ _ (by omega) (by rw [hlenx]; omega)]
            rw [show o + foff cl k - o = foff cl k by omega]
            exact xbytes_field src cl a o ch k fk hk
          -- facts per reference field, in any state that agrees with the final one on the slot
          have hfield : ∀ (S : St) k fk, cl[k]? = some fk →
              readAt S.b.mem (o + foff cl k) fk.size = xfield src fk (a + foff cl k) (o + foff cl k) ch[k]?.join →
              match fk with
              | .scal => fromLE (readAt S.b.mem (o + foff cl k) 8) = fromLE (readAt src.b.mem (a + foff cl k) 8)
              | .ref c' => (deref src.b.mem (a + foff cl k) = none ∧ deref S.b.mem (o + foff cl k) = none) ∨
                  ∃ t t', deref src.b.mem (a + foff cl k) = some t ∧ deref S.b.mem (o + foff cl k) = some t' ∧
                    IsObj d2 t' c' ∧ Stable u src news d2 t t' c'
              | .uref cs => (deref src.b.mem (a + foff cl k) = none ∧ deref S.b.mem (o + foff cl k) = none ∧
                    memberIdx S.b.mem (o + foff cl k) = -1) ∨
                  ∃ t t' c', deref src.b.mem (a + foff cl k) = some t ∧ deref S.b.mem (o + foff cl k) = some t' ∧
                    refClass src (.uref cs) (a + foff cl k) = some c' ∧ c' ∈ cs ∧
                    memberIdx S.b.mem (o + foff cl k) = ((cs.idxOf c' : Nat) : Int) ∧
                    IsObj d2 t' c' ∧ Stable u src news d2 t t' c' := by
            intro S k fk hk hrd
            have hle := foff_le cl k fk hk
            have hcf := b6 k fk hk
            cases fk with
            | scal =>
              simp only [FK.size, xfield] at hrd
              simp only
              rw [hrd, fromLE_le]
              exact Nat.mod_eq_of_lt (fromLE_lt8 _ (by simp [readAt]; omega))
            | ref c' =>
              simp only [FK.size] at hrd hle
              rcases hcf with ⟨hn0, hx⟩ | ⟨t, t', h1, hx, h3, h4⟩
              · rw [hx] at hrd
                simp only [xfield] at hrd
                exact Or.inl ⟨hn0, deref_null_bytes hrd⟩
              · rw [hx] at hrd
                simp only [xfield] at hrd
                exact Or.inr ⟨t, t', h1, deref_of_bytes _ _ _ (by omega) (isObj_lt b1 h3) hrd, h3, h4⟩
            | uref cs =>
              simp only [FK.size] at hrd hle
              rcases hcf with ⟨hn0, hx⟩ | ⟨t, t', c', h1, h2, hx, h3, h4⟩
              · rw [hx] at hrd
                simp only [xfield] at hrd
                have := uref_null_bytes hrd
                exact Or.inl ⟨hn0, this.1, this.2⟩
              · rw [hx] at hrd
                simp only [xfield, h2] at hrd
                have hm := refClass_mem h2
                have hl : cs.length < 2 ^ 62 := hu cl (List.mem_of_getElem? hcl) (.uref cs) (List.mem_of_getElem? hk) cs rfl
                have hidx : cs.idxOf c' < cs.length := List.idxOf_lt_length_of_mem hm
                obtain ⟨e1, e2⟩ := uref_of_bytes (by omega) (isObj_lt b1 h3) (by omega) hrd
                exact Or.inr ⟨t, t', c', h1, e1, h2, hm, e2, h3, h4⟩
          -- the invariant after the node's bytes are written
          have hnew : ∀ k fk, cl[k]? = some fk → RefOK (wr d2 o (xbytes src cl a o ch)) fk (o + foff cl k) := by
            intro k fk hk
            have := hfield _ k fk hk (hslot k fk hk)
            cases fk with
            | scal => trivial
            | ref c' =>
              rcases this with ⟨_, h2⟩ | ⟨t, t', _, h2, h3, _⟩
              · exact Or.inl h2
              · exact Or.inr ⟨t', h2, h3⟩
            | uref cs =>
              rcases this with ⟨_, h2, h3⟩ | ⟨t, t', c', _, h2, _, hm, h5, h6, _⟩
              · exact Or.inl ⟨h2, h3⟩
              · refine Or.inr ⟨t', cs.idxOf c', c', h2, h5, ?_, h6⟩
                rw [List.getElem?_eq_getElem (List.idxOf_lt_length_of_mem hm)]
                simp
          have hF : Inv u (wr d2 o (xbytes src cl a o ch)) :=
            inv_wr_node b1 heo2 (c := c) rfl hcl _ hlenx hnew
          -- entries other than the node itself keep their bytes when the node is written
          have hoff : ∀ e : Ent, Disjoint (e.addr, e.size) (o, csize cl) → Unchanged d2 (wr d2 o (xbytes src cl a o ch)) e := by
            intro e hde
            apply wr_unchanged _ _ _ hfitx
            intro i h1 h2
            have := hde i
            unfold Region.Has at this
            simp only at this
            rw [hlenx]
            omega
          have hp2 := pairwise_regions b1
          rw [b5] at hp2
          have hp1 := pairwise_regions n1
          rw [hlive1] at hp1
          refine ⟨hF, ⟨⟨o, csize cl, some c⟩, heo2, rfl, rfl⟩, by simp only [wr]; omega, ?_, news ++ [⟨o, csize cl, some c⟩], ?_, ?_⟩
          · intro e he
            have u1 : Unchanged d d1 e := by
              have := newObj_frame hd c [] e he
              rwa [hn] at this
            have u2 := b3 e (n3 e he)
            have u3 := hoff e (Disjoint.symm ((List.pairwise_cons.mp hp1).1 e he))
            exact unchanged_trans (unchanged_trans u1 u2) u3
          · show d2.live = _
            rw [b5, hlive1]
            simp
          · intro s'' hs'' n
            cases n with
            | zero => trivial
            | succ n =>
              refine ⟨cl, hcl, fun k fk hk => ?_⟩
              have hle := foff_le cl k fk hk
              have hrd : readAt s''.b.mem (o + foff cl k) fk.size =
                  xfield src fk (a + foff cl k) (o + foff cl k) ch[k]?.join := by
                rw [readAt_unchanged (hs'' _ (List.mem_append_right _ List.mem_cons_self)) _ _ (by simp) (by simp only; omega)]
                exact hslot k fk hk
              have hch : ∀ e ∈ news, Unchanged d2 s'' e := fun e he =>
                unchanged_trans (hoff e ((List.pairwise_append.mp hp2).2.2 e he _ heo1)) (hs'' e (List.mem_append_left _ he))
              have := hfield s'' k fk hk hrd
              cases fk with
              | scal => exact this
              | ref c' =>
                rcases this with h | ⟨t, t', h1, h2, _, h4⟩
                · exact Or.inl h
                · exact Or.inr ⟨t, t', h1, h2, h4 s'' hch n⟩
              | uref cs =>
                rcases this with ⟨h1, h2, _⟩ | ⟨t, t', c', h1, h2, h3, hm, h5, _, h7⟩
                · exact Or.inl ⟨h1, h2⟩
                · exact Or.inr ⟨t, t', c', h1, h2, h3, refClass_of_idx hm h5, h7 s'' hch n⟩

/-! ### two buffers -/

theorem xcopyAt_spec {u : Univ} (hu : UWF u) {src dst : St} (hs : Inv u src) (hd : Inv u dst) {fuel h : Nat} {d' : St} {o : Nat}
    (hx : xcopyAt u fuel src dst h = some (d', o)) (hcap : d'.b.a.capacity < 2 ^ 62) :
    Inv u d' ∧ dst.b.a.capacity ≤ d'.b.a.capacity := by
  unfold xcopyAt at hx
  split at hx
  · cases hx
  · rename_i c hc
    cases hf : findObj src h with
    | none => rw [hf] at hc; cases hc
    | some e =>
      rw [hf] at hc
      simp only [Option.bind_some] at hc
      obtain ⟨he, ha, _⟩ := findObj_spec hf
      obtain ⟨i1, _, i3, _⟩ := xcopy_spec hu hs fuel dst h c d' o hd ⟨e, he, ha, hc⟩ hx hcap
      exact ⟨i1, i3⟩

theorem xcopyAt_frame {u : Univ} (hu : UWF u) {src dst : St} (hs : Inv u src) (hd : Inv u dst) {fuel h : Nat} {d' : St} {o : Nat}
    (hx : xcopyAt u fuel src dst h = some (d', o)) (hcap : d'.b.a.capacity < 2 ^ 62) :
    ∀ e ∈ dst.live, Unchanged dst d' e := by
  unfold xcopyAt at hx
  split at hx
  · cases hx
  · rename_i c hc
    cases hf : findObj src h with
    | none => rw [hf] at hc; cases hc
    | some e =>
      rw [hf] at hc
      simp only [Option.bind_some] at hc
      obtain ⟨he, ha, _⟩ := findObj_spec hf
      obtain ⟨_, _, _, i4, _⟩ := xcopy_spec hu hs fuel dst h c d' o hd ⟨e, he, ha, hc⟩ hx hcap
      exact i4

theorem xcopyAt_cap (u : Univ) (fuel : Nat) (src dst : St) (h : Nat) :
    dst.b.a.capacity ≤ (((xcopyAt u fuel src dst h).map (·.1)).getD dst).b.a.capacity := by
  cases hx : xcopyAt u fuel src dst h with
  | none => exact Nat.le_refl _
  | some r =>
    obtain ⟨d', o⟩ := r
    simp only [Option.map_some, Option.getD_some]
    unfold xcopyAt at hx
    split at hx
    · cases hx
    · exact xcopy_cap u src fuel _ _ _ _ _ hx

theorem step2_cap (u : Univ) (fuel : Nat) (p : St2) (op : Op2) :
    p.a.b.a.capacity ≤ (step2 u fuel p op).a.b.a.capacity ∧ p.b.b.a.capacity ≤ (step2 u fuel p op).b.b.a.capacity := by
  cases op with
  | inA op => exact ⟨step_cap u p.a op, Nat.le_refl _⟩
  | inB op => exact ⟨Nat.le_refl _, step_cap u p.b op⟩
  | copyAB h => exact ⟨Nat.le_refl _, xcopyAt_cap u fuel p.a p.b h⟩
  | copyBA h => exact ⟨xcopyAt_cap u fuel p.b p.a h, Nat.le_refl _⟩

theorem fold2_cap (u : Univ) (fuel : Nat) : ∀ (ops : List Op2) (p : St2),
    p.a.b.a.capacity ≤ (ops.foldl (step2 u fuel) p).a.b.a.capacity ∧ p.b.b.a.capacity ≤ (ops.foldl (step2 u fuel) p).b.b.a.capacity
 | [], _ => ⟨Nat.le_refl _, Nat.le_refl _⟩
 | op :: ops, p => by
    have h1 := step2_cap u fuel p op
    have h2 := fold2_cap u fuel ops (step2 u fuel p op)
    simp only [List.foldl_cons]
    exact ⟨Nat.le_trans h1.1 h2.1, Nat.le_trans h1.2 h2.2⟩

theorem step2_inv {u : Univ} (hu : UWF u) {fuel : Nat} {p : St2} (ha : Inv u p.a) (hb : Inv u p.b) (op : Op2)
    (hca : (step2 u fuel p op).a.b.a.capacity < 2 ^ 62) (hcb : (step2 u fuel p op).b.b.a.capacity < 2 ^ 62) :
    Inv u (step2 u fuel p op).a ∧ Inv u (step2 u fuel p op).b := by
  cases op with
  | inA op => exact ⟨step_inv hu ha op hca, hb⟩
  | inB op => exact ⟨ha, step_inv hu hb op hcb⟩
  | copyAB h =>
    refine ⟨ha, ?_⟩
    simp only [step2] at hcb ⊢
    cases hx : xcopyAt u fuel p.a p.b h with
    | none => simpa [hx] using hb
    | some r =>
      obtain ⟨d', o⟩ := r
      rw [hx] at hcb
      simp only [Option.map_some, Option.getD_some] at hcb ⊢
      exact (xcopyAt_spec hu ha hb hx hcb).1
  | copyBA h =>
    refine ⟨?_, hb⟩
    simp only [step2] at hca ⊢
    cases hx : xcopyAt u fuel p.b p.a h with
    | none => simpa [hx] using ha
    | some r =>
      obtain ⟨d', o⟩ := r
      rw [hx] at hca
      simp only [Option.map_some, Option.getD_some] at hca ⊢
      exact (xcopyAt_spec hu hb ha hx hca).1

/-- **every reachable state of two buffers** -/
theorem history2_inv {u : Univ} (hu : UWF u) (fuel : Nat) : ∀ (ops : List Op2) (p : St2), Inv u p.a → Inv u p.b →
    (ops.foldl (step2 u fuel) p).a.b.a.capacity < 2 ^ 62 → (ops.foldl (step2 u fuel) p).b.b.a.capacity < 2 ^ 62 →
    Inv u (ops.foldl (step2 u fuel) p).a ∧ Inv u (ops.foldl (step2 u fuel) p).b
 | [], _, ha, hb, _, _ => ⟨ha, hb⟩
 | op :: ops, p, ha, hb, hca, hcb => by
    have h1 := fold2_cap u fuel ops (step2 u fuel p op)
    simp only [List.foldl_cons] at hca hcb ⊢
    obtain ⟨i1, i2⟩ := step2_inv hu ha hb op (Nat.lt_of_le_of_lt h1.1 hca) (Nat.lt_of_le_of_lt h1.2 hcb)
    exact history2_inv hu fuel ops (step2 u fuel p op) i1 i2 hca hcb

/-! ### the copy of an acyclic source ends: `none` only comes from cycles (or too little fuel) -/

/-- what totality needs of the destination: the allocator invariant and a usable grow step -/
def AInv (d : St) : Prop := Alloc.Inv d.b.a (regions d) ∧ GrowOK d.b.a

theorem newObj_total {u : Univ} {d : St} (hd : AInv d) {c : Nat} {cl : Cls} (hcl : u[c]? = some cl) (vs : List Nat) :
    ∃ d1 o, newObj u d c vs = (d1, some o) ∧ AInv d1 := by
  have ht := C12_total_buf d.b (regions d) (csize cl) true hd.1 hd.2
  cases hal : d.b.allocate (csize cl) true with
  | none => rw [hal] at ht; simp at ht
  | some r =>
    obtain ⟨o, b'⟩ := r
    have ha : allocate d.b.a (csize cl) true = some (o, b'.a) := by
      have := Buf.allocF_a (csize cl + alignOf d.b.a true + 1) d.b (csize cl) (alignOf d.b.a true)
      unfold Buf.allocate at hal
      rw [hal] at this
      exact this.symm
    obtain ⟨_, _, _, _, c5⟩ := C04_alloc d.b.a (regions d) (csize cl) true o b'.a hd.1 ha
    have hg : b'.a.growStep = d.b.a.growStep := by
      unfold allocate at ha
      exact (allocF_fields _ _ _ _ _ _ ha).2
    refine ⟨_, o, by unfold newObj; rw [hcl]; simp only; rw [hal], ?_, ?_⟩
    · simpa [regions] using c5
    · unfold GrowOK at *
      simp only
      rw [hg]; exact hd.2

theorem wr_ainv {d : St} (hd : AInv d) (x : Nat) (bs : List UInt8) : AInv (wr d x bs) := hd

def RecTotal (u : Univ) (src : St) (n : Nat) (rec : St → Nat → Nat → Option (St × Nat)) : Prop :=
  ∀ d t c, AInv d → Acyc u src n t c → ∃ d1 t', rec d t c = some (d1, t') ∧ AInv d1

theorem xchildren_total {u : Univ} {src : St} {n : Nat} {rec : St → Nat → Nat → Option (St × Nat)} (hrec : RecTotal u src n rec) :
    ∀ (r : Cls) (sa : Nat) (d : St), AInv d →
    (∀ (j : Nat) (fk : FK), r[j]? = some fk →
      match fk with
      | .scal => True
      | .ref c' => ∀ t, deref src.b.mem (sa + foff r j) = some t → Acyc u src n t c'
      | .uref cs => ∀ t c', deref src.b.mem (sa + foff r j) = some t → refClass src (.uref cs) (sa + foff r j) = some c' →
          Acyc u src n t c') →
    ∃ d' l, xchildren rec src r sa d = some (d', l) ∧ AInv d'
 | [], _, d, hd, _ => ⟨d, [], rfl, hd⟩
 | f :: r, sa, d, hd, hf => by
    have h0 := hf 0 f rfl
    simp only [foff, Nat.add_zero] at h0
    have hstep : ∃ d1 x, xchild rec src f sa d = some (d1, x) ∧ AInv d1 := by
      cases f with
      | scal => exact ⟨d, none, rfl, hd⟩
      | ref c' =>
        simp only [xchild]
        cases hdr : deref src.b.mem sa with
        | none => exact ⟨d, none, rfl, hd⟩
        | some t =>
          obtain ⟨d1, t', h1, h2⟩ := hrec d t c' hd (h0 t hdr)
          exact ⟨d1, some t', by simp only [h1], h2⟩
      | uref cs =>
        simp only [xchild]
        cases hdr : deref src.b.mem sa with
        | none => exact ⟨d, none, rfl, hd⟩
        | some t =>
          cases hrc : refClass src (.uref cs) sa with
          | none => exact ⟨d, none, rfl, hd⟩
          | some c' =>
            obtain ⟨d1, t', h1, h2⟩ := hrec d t c' hd (h0 t c' hdr hrc)
            exact ⟨d1, some t', by simp only [h1], h2⟩
    obtain ⟨d1, x, hx, hd1⟩ := hstep
    have hf' : ∀ (j : Nat) (fk : FK), r[j]? = some fk →
        match fk with
        | .scal => True
        | .ref c' => ∀ t, deref src.b.mem (sa + f.size + foff r j) = some t → Acyc u src n t c'
        | .uref cs => ∀ t c', deref src.b.mem (sa + f.size + foff r j) = some t →
            refClass src (.uref cs) (sa + f.size + foff r j) = some c' → Acyc u src n t c' := by
      intro j fk hj
      have := hf (j + 1) fk (by simpa using hj)
      rw [foff_cons_succ, ← Nat.add_assoc] at this
      exact this
    obtain ⟨d', l, hl, hd'⟩ := xchildren_total hrec r (sa + f.size) d1 hd1 hf'
    exact ⟨d', x :: l, by simp only [xchildren, hx, hl], hd'⟩

/-- **an acyclic source is always copied**: if every chain of references from the node has fewer than `n` links, fuel `n` is enough,
whatever the destination's allocator state (grow step not 0) - the `none` of `xcopy` never hides anything else -/
theorem xcopy_total (u : Univ) (src : St) : ∀ n, RecTotal u src n (xcopy u src n)
 | 0 => fun _ _ _ _ h => by simp [Acyc] at h
 | n + 1 => fun d a c hd hac => by
    obtain ⟨cl, hcl, hfs⟩ := hac
    obtain ⟨d1, o, hn, hd1⟩ := newObj_total hd hcl []
    obtain ⟨d2, ch, hch, hd2⟩ := xchildren_total (xcopy_total u src n) cl a d1 hd1 hfs
    exact ⟨wr d2 o (xbytes src cl a o ch), o, by simp only [xcopy, hcl, hn, hch], wr_ainv hd2 _ _⟩

end RG
