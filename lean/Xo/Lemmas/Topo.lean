import Xo.Model.Topo
/-! helper lemmas for the dependency sorter (loop invariant of `topological_sort`) -/
namespace Topo

/-- well-formed source as `sort_classes` builds it: distinct keys, every parent is a key -/
structure WFS (src : Source) : Prop where
  nodup : (keys src).Nodup
  closed : ∀ e ∈ src, ∀ p ∈ e.2, p ∈ keys src

/-! ### the inner loop -/

theorem foldl_visit (cs : List Name) : ∀ (s : St), (∀ x, (cs.count x : Int) ≤ s.np x) →
    (∀ x, (cs.foldl visit s).np x = s.np x - cs.count x) ∧
    ∃ extra, (cs.foldl visit s).result = s.result ++ extra ∧ extra.Nodup ∧
      (∀ x, x ∈ extra ↔ (x ∈ cs ∧ s.np x - cs.count x = 0)) := by
  induction cs with
  | nil => intro s _; exact ⟨by simp, [], by simp, List.nodup_nil, by simp⟩
  | cons c cs ih =>
    intro s h
    have hc := h c
    simp only [List.count_cons_self] at hc
    have h1 : ∀ x, (cs.count x : Int) ≤ (visit s c).np x := by
      intro x
      have hx := h x
      simp only [visit]
      by_cases hxc : x = c
      · subst hxc; simp only [if_true]; push_cast at hc; omega
      · simp only [hxc, if_false]
        rw [List.count_cons_of_ne (Ne.symm hxc)] at hx; exact hx
    obtain ⟨ih1, extra, ih2, ih3, ih4⟩ := ih (visit s c) h1
    simp only [List.foldl_cons]
    refine ⟨?_, ?_⟩
    · intro x
      rw [ih1 x]
      simp only [visit]
      by_cases hxc : x = c
      · subst hxc; simp only [if_true, List.count_cons_self]; push_cast; omega
      · simp only [hxc, if_false]; rw [List.count_cons_of_ne (Ne.symm hxc)]
    · by_cases hz : s.np c - 1 = 0
      · -- c is appended now; it cannot occur again
        have hcnt : cs.count c = 0 := by push_cast at hc; omega
        have hnotin : c ∉ cs := List.count_eq_zero.mp hcnt
        refine ⟨c :: extra, ?_, ?_, ?_⟩
        · rw [ih2]; simp [visit, hz]
        · refine List.nodup_cons.mpr ⟨?_, ih3⟩
          intro hmem; exact hnotin ((ih4 c).mp hmem).1
        · intro x
          by_cases hxc : x = c
          · subst hxc
            simp only [List.mem_cons, true_or, List.count_cons_self, true_and, true_iff]
            push_cast; omega
          · simp only [List.mem_cons, hxc, false_or]
            rw [ih4 x, List.count_cons_of_ne (Ne.symm hxc)]
            simp only [visit, hxc, if_false]
      · refine ⟨extra, ?_, ih3, ?_⟩
        · rw [ih2]; simp [visit, hz]
        · intro x
          rw [ih4 x]
          by_cases hxc : x = c
          · subst hxc
            simp only [List.mem_cons, true_or, List.count_cons_self, true_and, visit, if_true]
            constructor
            · rintro ⟨_, h2⟩; push_cast; omega
            · intro h2
              push_cast at h2
              refine ⟨?_, by omega⟩
              apply List.count_pos_iff.mp
              omega
          · simp only [List.mem_cons, hxc, false_or, visit, if_false]
            rw [List.count_cons_of_ne (Ne.symm hxc)]

/-! ### facts about the source -/

theorem parentsOf_cons (e : Name × List Name) (rest : Source) (c : Name) :
    parentsOf (e :: rest) c = if c = e.1 then e.2 else parentsOf rest c := by
  unfold parentsOf
  by_cases h : c = e.1
  · subst h; simp [List.lookup]
  · have : (c == e.1) = false := by simpa using h
    simp [List.lookup, this, h]

theorem parentsOf_not_key : ∀ (src : Source) (c : Name), c ∉ keys src → parentsOf src c = []
 | [], _, _ => rfl
 | e :: rest, c, h => by
    rw [parentsOf_cons]
    have h1 : c ≠ e.1 := fun hc => h (by simp [keys, hc])
    have h2 : c ∉ keys rest := fun hc => h (by simp only [keys, List.map_cons, List.mem_cons]; exact Or.inr hc)
    simp [h1, parentsOf_not_key rest c h2]

theorem numParents_eq : ∀ (src : Source), (keys src).Nodup → ∀ c, numParents src c = (parentsOf src c).length
 | [], _, c => by simp [numParents, parentsOf]
 | e :: rest, hn, c => by
    have hn' : e.1 ∉ keys rest ∧ (keys rest).Nodup := by simpa [keys] using hn
    have ih := numParents_eq rest hn'.2 c
    rw [parentsOf_cons]
    unfold numParents at *
    by_cases h : c = e.1
    · subst h
      have hz : parentsOf rest e.1 = [] := parentsOf_not_key rest e.1 hn'.1
      rw [hz] at ih
      simp only [List.filter_cons, beq_self_eq_true, if_true, List.map_cons, List.sum_cons]
      rw [ih]; simp
    · have : (e.1 == c) = false := by simpa using (Ne.symm h)
      simp only [List.filter_cons, this, h, if_false]
      exact ih

theorem mem_src_iff : ∀ (src : Source), (keys src).Nodup → ∀ c ps, (c, ps) ∈ src ↔ (c ∈ keys src ∧ parentsOf src c = ps)
 | [], _, c, ps => by simp [keys]
 | e :: rest, hn, c, ps => by
    have hn' : e.1 ∉ keys rest ∧ (keys rest).Nodup := by simpa [keys] using hn
    have ih := mem_src_iff rest hn'.2 c ps
    rw [parentsOf_cons]
    simp only [List.mem_cons, keys, List.map_cons]
    by_cases h : c = e.1
    · subst h
      simp only [true_or, if_true, true_and]
      constructor
      · rintro (h1 | h1)
        · rw [← h1]
        · exact absurd (ih.mp h1).1 hn'.1
      · intro h1; left; rw [← h1]
    · simp only [h, false_or, if_false]
      constructor
      · rintro (h1 | h1)
        · exact absurd (by rw [← h1]) h
        · exact ih.mp h1
      · intro h1; right; exact ih.mpr h1

theorem parents_closed {src : Source} (h : WFS src) (c p : Name) (hp : p ∈ parentsOf src c) : p ∈ keys src := by
  by_cases hc : c ∈ keys src
  · have := (mem_src_iff src h.nodup c (parentsOf src c)).mpr ⟨hc, rfl⟩
    exact h.closed _ this p hp
  · rw [parentsOf_not_key src c hc] at hp; simp at hp

theorem count_childrenOf : ∀ (src : Source), (keys src).Nodup → ∀ p c,
    (childrenOf src p).count c = (parentsOf src c).count p
 | [], _, p, c => by simp [childrenOf, parentsOf]
 | e :: rest, hn, p, c => by
    have hn' : e.1 ∉ keys rest ∧ (keys rest).Nodup := by simpa [keys] using hn
    have ih := count_childrenOf rest hn'.2 p c
    rw [parentsOf_cons]
    have hco : childrenOf (e :: rest) p = ((e.2.filter (· == p)).map fun _ => e.1) ++ childrenOf rest p := by
      simp [childrenOf]
    rw [hco, List.count_append, ih]
    by_cases h : c = e.1
    · subst h
      rw [parentsOf_not_key rest e.1 hn'.1]
      simp only [if_true, List.count_nil, Nat.add_zero]
      rw [List.count_eq_length_filter (a := e.1)]
      have : ∀ l : List Name, (List.filter (fun x => x == e.1) (l.map fun _ => e.1)) = l.map fun _ => e.1 := by
        intro l; induction l with
        | nil => rfl
        | cons a t iht => simp
      rw [this, List.length_map, List.count_eq_length_filter]
    · simp only [h, if_false]
      have : (List.map (fun _ => e.1) (List.filter (fun x => x == p) e.2)).count c = 0 := by
        apply List.count_eq_zero.mpr
        intro hm
        obtain ⟨_, _, he⟩ := List.mem_map.mp hm
        exact h he.symm
      omega

theorem childrenOf_keys (src : Source) (p c : Name) (h : c ∈ childrenOf src p) : c ∈ keys src := by
  simp only [childrenOf, List.mem_flatMap, List.mem_map] at h
  obtain ⟨e, he, _, _, rfl⟩ := h
  exact List.mem_map.mpr ⟨e, he, rfl⟩

theorem mem_graphKeys (src : Source) (p : Name) : p ∈ graphKeys src ↔ ∃ e ∈ src, p ∈ e.2 := by
  simp [graphKeys, List.mem_eraseDups, List.mem_flatMap]

theorem graphKeys_of_parent {src : Source} (h : WFS src) (c p : Name) (hp : p ∈ parentsOf src c) :
    p ∈ graphKeys src := by
  by_cases hc : c ∈ keys src
  · exact (mem_graphKeys src p).mpr ⟨_, (mem_src_iff src h.nodup c _).mpr ⟨hc, rfl⟩, hp⟩
  · rw [parentsOf_not_key src c hc] at hp; simp at hp

theorem graphKeys_keys {src : Source} (h : WFS src) (p : Name) (hp : p ∈ graphKeys src) : p ∈ keys src := by
  obtain ⟨e, he, hpe⟩ := (mem_graphKeys src p).mp hp
  exact h.closed e he p hpe

/-- number of parents not yet processed -/
def undone (done : List Name) (ps : List Name) : Nat := ps.countP fun p => !done.contains p

theorem undone_cons (done : List Name) (p : Name) (hp : p ∉ done) : ∀ (ps : List Name),
    (undone (p :: done) ps : Int) = undone done ps - ps.count p ∧ ps.count p ≤ undone done ps
 | [] => by simp [undone]
 | q :: ps => by
    obtain ⟨ih1, ih2⟩ := undone_cons done p hp ps
    unfold undone at *
    by_cases hq : q = p
    · subst hq
      have h1 : (List.contains (q :: done) q) = true := by simp
      have h2 : (List.contains done q) = false := by simpa using hp
      simp only [List.countP_cons, h1, h2, List.count_cons_self]
      simp only [Bool.not_true, Bool.not_false, Bool.false_eq_true, if_false, if_true]
      constructor
      · push_cast at *; omega
      · omega
    · have h1 : (List.contains (p :: done) q) = List.contains done q := by
        simp [List.contains_cons, hq]
      simp only [List.countP_cons, h1, List.count_cons_of_ne hq]
      constructor
      · push_cast at *; omega
      · omega

theorem undone_zero (done ps : List Name) (h : undone done ps = 0) : ∀ p ∈ ps, p ∈ done := by
  intro p hp
  unfold undone at h
  have := List.countP_eq_zero.mp h p hp
  simpa using this

theorem undone_all (done ps : List Name) (h : ∀ p ∈ ps, p ∈ done) : undone done ps = 0 := by
  unfold undone
  apply List.countP_eq_zero.mpr
  intro p hp; simpa using h p hp

/-! ### the loop invariant -/

structure LInv (src : Source) (i : Nat) (done : List Name) (s : St) : Prop where
  a : ∀ c, s.np c = undone done (parentsOf src c)
  b : s.result.Nodup
  c : ∀ x, x ∈ s.result ↔ (x ∈ keys src ∧ s.np x = 0)
  d : ∀ p, p ∈ done ↔ (p ∈ s.result.take i ∧ p ∈ graphKeys src)
  e : i ≤ s.result.length
  f : ∀ (k : Nat) (x : Name), s.result[k]? = some x → ∀ p ∈ parentsOf src x, ∃ j, j < k ∧ s.result[j]? = some p

theorem take_succ_of_getElem? {α : Type} (l : List α) (i : Nat) (p : α) (h : l[i]? = some p) :
    l.take (i+1) = l.take i ++ [p] := by
  obtain ⟨hi, he⟩ := List.getElem?_eq_some_iff.mp h
  rw [List.take_succ_eq_append_getElem hi, he]

theorem inv_step_skip {src : Source} {i : Nat} {done : List Name} {s : St} {p : Name}
    (h : LInv src i done s) (hp : s.result[i]? = some p) (hc : ¬ (p ∈ graphKeys src ∧ p ∉ done)) :
    LInv src (i+1) done s where
  a := h.a
  b := h.b
  c := h.c
  d := by
    intro q
    rw [take_succ_of_getElem? _ _ _ hp, h.d q]
    constructor
    · rintro ⟨h1, h2⟩; exact ⟨List.mem_append.mpr (Or.inl h1), h2⟩
    · rintro ⟨h1, h2⟩
      rcases List.mem_append.mp h1 with h3 | h3
      · exact ⟨h3, h2⟩
      · simp at h3; subst h3
        have : q ∈ done := by
          by_cases hd : q ∈ done
          · exact hd
          · exact absurd ⟨h2, hd⟩ hc
        exact (h.d q).mp this
  e := by obtain ⟨hi, _⟩ := List.getElem?_eq_some_iff.mp hp; exact hi
  f := h.f

theorem inv_step_visit {src : Source} (hw : WFS src) {i : Nat} {done : List Name} {s : St} {p : Name}
    (h : LInv src i done s) (hp : s.result[i]? = some p) (hg : p ∈ graphKeys src) (hd : p ∉ done) :
    LInv src (i+1) (p :: done) ((childrenOf src p).foldl visit s) := by
  obtain ⟨hi, _⟩ := List.getElem?_eq_some_iff.mp hp
  have hpre : ∀ x, (((childrenOf src p).count x : Nat) : Int) ≤ s.np x := by
    intro x
    rw [count_childrenOf src hw.nodup, h.a x]
    have := (undone_cons done p hd (parentsOf src x)).2
    exact_mod_cast this
  obtain ⟨hnp, extra, hres, hnd, hex⟩ := foldl_visit (childrenOf src p) s hpre
  have hnp' : ∀ x, ((childrenOf src p).foldl visit s).np x = undone (p :: done) (parentsOf src x) := by
    intro x
    rw [hnp x, count_childrenOf src hw.nodup, h.a x, (undone_cons done p hd (parentsOf src x)).1]
  have hdisj : ∀ x, x ∈ s.result → x ∉ extra := by
    intro x hx hxe
    have h0 := ((h.c x).mp hx).2
    obtain ⟨hin, _⟩ := (hex x).mp hxe
    have hpos : 0 < (childrenOf src p).count x := List.count_pos_iff.mpr hin
    have := hpre x
    omega
  exact {
    a := hnp'
    b := by
      rw [hres]
      exact List.nodup_append.mpr ⟨h.b, hnd, fun a ha b hb hab => hdisj a ha (hab ▸ hb)⟩
    c := by
      intro x
      rw [hres, List.mem_append, h.c x, hex x, hnp x]
      constructor
      · rintro (⟨h1, h2⟩ | ⟨h1, h2⟩)
        · refine ⟨h1, ?_⟩
          have := hpre x; omega
        · exact ⟨childrenOf_keys src p x h1, h2⟩
      · rintro ⟨h1, h2⟩
        by_cases hcx : (childrenOf src p).count x = 0
        · left; refine ⟨h1, ?_⟩; rw [hcx] at h2; simpa using h2
        · right; exact ⟨List.count_pos_iff.mp (by omega), h2⟩
    d := by
      intro q
      rw [hres, List.take_append_of_le_length (by omega), take_succ_of_getElem? _ _ _ hp]
      simp only [List.mem_cons, List.mem_append, List.not_mem_nil, or_false]
      rw [h.d q]
      constructor
      · rintro (rfl | ⟨h1, h2⟩)
        · exact ⟨Or.inr rfl, hg⟩
        · exact ⟨Or.inl h1, h2⟩
      · rintro ⟨h1 | h1, h2⟩
        · exact Or.inr ⟨h1, h2⟩
        · exact Or.inl h1
    e := by rw [hres]; simp; omega
    f := by
      intro k x hk q hq
      rw [hres] at hk ⊢
      by_cases hkl : k < s.result.length
      · rw [List.getElem?_append_left hkl] at hk
        obtain ⟨j, hj, hjq⟩ := h.f k x hk q hq
        exact ⟨j, hj, by rw [List.getElem?_append_left (by omega)]; exact hjq⟩
      · -- x was appended now: all its parents are processed
        have hxe : x ∈ extra := by
          rw [List.getElem?_append_right (by omega)] at hk
          exact List.mem_of_getElem? hk
        have hx0 : ((childrenOf src p).foldl visit s).np x = 0 := by
          rw [hnp x]; exact ((hex x).mp hxe).2
        rw [hnp' x] at hx0
        have hqd : q ∈ p :: done := undone_zero _ _ (by exact_mod_cast hx0) q hq
        have hqt : q ∈ s.result.take (i+1) := by
          rcases List.mem_cons.mp hqd with rfl | hqd'
          · rw [take_succ_of_getElem? _ _ _ hp]; simp
          · exact (List.take_subset_take_left s.result (Nat.le_succ i)) ((h.d q).mp hqd').1
        obtain ⟨j, hj, hjq⟩ := List.getElem_of_mem hqt
        have hjlen : j < i + 1 := by
          have := hj; simp [List.length_take] at this; omega
        refine ⟨j, by omega, ?_⟩
        rw [List.getElem?_append_left (by omega)]
        have : (s.result.take (i+1))[j]? = some q := by rw [List.getElem?_eq_getElem hj, hjq]
        rw [List.getElem?_take] at this
        simpa [hjlen] using this }

theorem result_le_keys {src : Source} {i : Nat} {done : List Name} {s : St} (h : LInv src i done s) :
    s.result.length ≤ (keys src).length :=
  h.b.length_le_of_subset (fun x hx => ((h.c x).mp hx).1)

theorem loop_spec {src : Source} (hw : WFS src) : ∀ (fuel i : Nat) (done : List Name) (s : St),
    LInv src i done s → (keys src).length < fuel + i →
    ∃ s' done', loop src fuel i done s = some (s', done') ∧ LInv src s'.result.length done' s'
 | 0, i, done, s, h, hf => by
    have := result_le_keys h; have := h.e; omega
 | fuel+1, i, done, s, h, hf => by
    simp only [loop]
    cases hp : s.result[i]? with
    | none =>
      have hlen : s.result.length ≤ i := by simpa using hp
      have : i = s.result.length := Nat.le_antisymm h.e hlen
      exact ⟨s, done, rfl, this ▸ h⟩
    | some p =>
      simp only
      split
      · rename_i hc
        exact loop_spec hw fuel (i+1) (p :: done) _ (inv_step_visit hw h hp hc.1 hc.2) (by omega)
      · rename_i hc
        exact loop_spec hw fuel (i+1) done s (inv_step_skip h hp hc) (by omega)

theorem initResult_closed {src : Source} (hw : WFS src) :
    initResult src = (src.filter (·.2.isEmpty)).map (·.1) := by
  unfold initResult
  have : (graphKeys src).filter (fun item => numParents src item == 0 && !(keys src).contains item) = [] := by
    apply List.filter_eq_nil_iff.mpr
    intro x hx
    have := graphKeys_keys hw x hx
    simp [this]
  rw [this, List.append_nil]

theorem inv_init {src : Source} (hw : WFS src) :
    LInv src 0 [] { result := initResult src, np := numParents src } where
  a := by intro c; simp [numParents_eq src hw.nodup, undone]
  b := by
    rw [initResult_closed hw]
    have : ((src.filter (·.2.isEmpty)).map (·.1)).Sublist (keys src) :=
      (List.filter_sublist).map _
    exact hw.nodup.sublist this
  c := by
    intro x
    rw [initResult_closed hw]
    simp only [List.mem_map, List.mem_filter, numParents_eq src hw.nodup]
    constructor
    · rintro ⟨e, ⟨he, hemp⟩, rfl⟩
      have := (mem_src_iff src hw.nodup e.1 e.2).mp he
      refine ⟨this.1, ?_⟩
      rw [this.2]; simp at hemp; simp [hemp]
    · rintro ⟨h1, h2⟩
      have hnil : parentsOf src x = [] := by
        have : (parentsOf src x).length = 0 := by exact_mod_cast h2
        exact List.eq_nil_of_length_eq_zero this
      exact ⟨(x, []), ⟨(mem_src_iff src hw.nodup x []).mpr ⟨h1, hnil⟩, by simp⟩, rfl⟩
  d := by intro p; simp
  e := Nat.zero_le _
  f := by
    intro k x hk q hq
    have hx : x ∈ initResult src := List.mem_of_getElem? hk
    rw [initResult_closed hw] at hx
    simp only [List.mem_map, List.mem_filter] at hx
    obtain ⟨e, ⟨he, hemp⟩, rfl⟩ := hx
    have := (mem_src_iff src hw.nodup e.1 e.2).mp he
    rw [this.2] at hq
    simp at hemp; rw [hemp] at hq; simp at hq

end Topo
