import Xo.Model.Mem
namespace MemS
theorem length_writeAt (m : Mem) (off : Nat) (bs : List UInt8) (h : off + bs.length ≤ m.length) :
    (writeAt m off bs).length = m.length := by
  simp [writeAt]; omega

theorem getElem?_writeAt (m : Mem) (off : Nat) (bs : List UInt8) (h : off + bs.length ≤ m.length) (i : Nat) :
    (writeAt m off bs)[i]? = if off ≤ i ∧ i < off + bs.length then bs[i - off]? else m[i]? := by
  unfold writeAt
  by_cases h1 : i < off
  · have : ¬ (off ≤ i ∧ i < off + bs.length) := by omega
    simp only [this, if_false]
    rw [List.append_assoc, List.getElem?_append_left (by simp; omega)]
    simp [List.getElem?_take, h1]
  · by_cases h2 : i < off + bs.length
    · have : (off ≤ i ∧ i < off + bs.length) := by omega
      simp only [this, and_self, if_true]
      rw [List.append_assoc, List.getElem?_append_right (by simp; omega)]
      rw [List.getElem?_append_left (by simp; omega)]
      simp; congr 1; omega
    · have : ¬ (off ≤ i ∧ i < off + bs.length) := by omega
      simp only [this, if_false]
      rw [List.getElem?_append_right (by simp; omega)]
      simp
      congr 1; omega

theorem getElem?_readAt (m : Mem) (off n i : Nat) :
    (readAt m off n)[i]? = if i < n then m[off + i]? else none := by
  unfold readAt
  simp [List.getElem?_take]

theorem readAt_writeAt_same (m : Mem) (off : Nat) (bs : List UInt8) (h : off + bs.length ≤ m.length) :
    readAt (writeAt m off bs) off bs.length = bs := by
  apply List.ext_getElem?
  intro i
  rw [getElem?_readAt, getElem?_writeAt _ _ _ h]
  by_cases hi : i < bs.length
  · simp [hi]
  · simp [hi]

theorem readAt_writeAt_disj (m : Mem) (off : Nat) (bs : List UInt8) (h : off + bs.length ≤ m.length)
    (o2 n : Nat) (hd : o2 + n ≤ off ∨ off + bs.length ≤ o2) :
    readAt (writeAt m off bs) o2 n = readAt m o2 n := by
  apply List.ext_getElem?
  intro i
  rw [getElem?_readAt, getElem?_readAt, getElem?_writeAt _ _ _ h]
  by_cases hi : i < n
  · have : ¬ (off ≤ o2 + i ∧ o2 + i < off + bs.length) := by omega
    simp [hi, this]
  · simp [hi]

theorem le_length (w n : Nat) : (le w n).length = w := by
  induction w generalizing n with
  | zero => rfl
  | succ w ih => simp [le, ih]

theorem fromLE_le (w n : Nat) : fromLE (le w n) = n % 256 ^ w := by
  induction w generalizing n with
  | zero => simp [le, fromLE, Nat.mod_one]
  | succ w ih =>
    simp only [le, fromLE, ih]
    have : (UInt8.ofNat (n % 256)).toNat = n % 256 := by
      simp [UInt8.toNat_ofNat']
    rw [this, Nat.pow_succ, Nat.mul_comm (256^w) 256, Nat.mod_mul]
end MemS
