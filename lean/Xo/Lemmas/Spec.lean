import Xo.Model.Spec
/-! helper lemmas about the specialiser model -/
namespace Spec

theorem replaceAux_skip (pat rep : Str) : ∀ (x b : Str), replaceAux pat rep (x ++ b) x.length = replaceAux pat rep b 0
 | [], b => by simp
 | c :: x, b => by simp [replaceAux, replaceAux_skip pat rep x b]

theorem isPrefix_self_append : ∀ (p b : Str), isPrefix p (p ++ b) = true
 | [], _ => by simp [isPrefix]
 | c :: p, b => by simp [isPrefix, isPrefix_self_append p b]

/-- a matched pattern is replaced and scanning resumes right after it -/
theorem replaceAll_hit (pat rep b : Str) (hp : pat ≠ []) :
    replaceAll (pat ++ b) pat rep = rep ++ replaceAll b pat rep := by
  cases pat with
  | nil => exact absurd rfl hp
  | cons c p =>
    unfold replaceAll
    have h := isPrefix_self_append (c :: p) b
    simp only [List.cons_append] at h ⊢
    rw [replaceAux, if_pos h]
    simp only [List.length_cons, Nat.add_sub_cancel]
    rw [replaceAux_skip]

/-- text without the pattern's first character passes through unchanged and does not disturb what follows -/
theorem replaceAll_frame (pat rep : Str) (c0 : Char) (p : Str) (hpat : pat = c0 :: p) :
    ∀ (a b : Str), (∀ c ∈ a, c ≠ c0) → replaceAll (a ++ b) pat rep = a ++ replaceAll b pat rep
 | [], b, _ => by simp
 | c :: a, b, h => by
    have hc : c ≠ c0 := h c (List.mem_cons_self)
    have ih := replaceAll_frame pat rep c0 p hpat a b (fun x hx => h x (List.mem_cons_of_mem _ hx))
    unfold replaceAll at ih ⊢
    simp only [List.cons_append]
    rw [replaceAux]
    have : isPrefix pat (c :: (a ++ b)) = false := by
      subst hpat; simp [isPrefix]; intro h'; exact absurd h'.symm hc
    simp [this, ih]

theorem replaceAll_absent (pat rep : Str) : ∀ s : Str, contains s pat = false → pat ≠ [] → replaceAll s pat rep = s
 | [], _, _ => by simp [replaceAll, replaceAux]
 | c :: r, h, hp => by
    simp only [contains, Bool.or_eq_false_iff] at h
    have ih := replaceAll_absent pat rep r h.2 hp
    unfold replaceAll at ih ⊢
    rw [replaceAux]; simp [h.1, ih]

def NoInclude (ll : Str) : Prop := contains ll (S "//include_file") = false
def NoBlock (ll : Str) : Prop := contains ll (S "//vectorize_over") = false ∧ contains ll (S "//end_vectorize") = false
def Plain (ll : Str) : Prop := NoInclude ll ∧ NoBlock ll ∧ contains ll (S "//only_for_context") = false

theorem pass1_noInclude (t : Target) (files : Str → Option (List Str)) :
    ∀ ls : List Str, (∀ l ∈ ls, NoInclude l) → pass1 t files ls = .ok ls
 | [], _ => rfl
 | l :: ls, h => by
    have h1 : contains l (S "//include_file") = false := h l (List.mem_cons_self)
    have ih := pass1_noInclude t files ls (fun x hx => h x (List.mem_cons_of_mem _ hx))
    simp [pass1, h1, ih]

/-- lines that open or close no block are mapped one to one by the annotation pass, whatever follows -/
theorem pass2_body (t : Target) :
    ∀ (body tail : List Str) (inside : Bool), (∀ l ∈ body, NoBlock l) →
      pass2 t (body ++ tail) inside =
        (match pass2 t tail inside with
         | .ok more => .ok (body.map (plainLine t) ++ more)
         | .error e => .error e)
 | [], tail, inside, _ => by simp; cases pass2 t tail inside <;> rfl
 | l :: body, tail, inside, h => by
    have hl := h l (List.mem_cons_self)
    have ih := pass2_body t body tail inside (fun x hx => h x (List.mem_cons_of_mem _ hx))
    simp only [List.cons_append, pass2, hl.1, hl.2, Bool.false_eq_true, ↓reduceIte, ih]
    cases pass2 t tail inside <;> simp

theorem plainLine_plain (t : Target) (l : Str) (h : contains l (S "//only_for_context") = false) : plainLine t l = l := by
  simp [plainLine, h]

theorem map_plainLine_plain (t : Target) : ∀ ls : List Str, (∀ l ∈ ls, Plain l) → ls.map (plainLine t) = ls
 | [], _ => rfl
 | l :: ls, h => by
    simp [plainLine_plain t l (h l (List.mem_cons_self)).2.2,
      map_plainLine_plain t ls (fun x hx => h x (List.mem_cons_of_mem _ hx))]

theorem range_filter_lt (n k : Nat) : (List.range (n + k)).filter (· < n) = List.range n := by
  rw [List.range_add, List.filter_append]
  have h1 : (List.range n).filter (· < n) = List.range n := by
    apply List.filter_eq_self.mpr; intro a ha; simpa using List.mem_range.mp ha
  have h2 : ((List.range k).map (n + ·)).filter (· < n) = [] := by
    apply List.filter_eq_nil_iff.mpr; intro a ha
    simp only [List.mem_map] at ha
    obtain ⟨b, _, rfl⟩ := ha
    simp
  rw [h1, h2, List.append_nil]

theorem grid_covers (n block : Nat) (hb : 0 < block) : n ≤ (n + block - 1) / block * block := by
  have h := Nat.div_add_mod (n + block - 1) block
  have hm := Nat.mod_lt (n + block - 1) hb
  have : (n + block - 1) / block * block = block * ((n + block - 1) / block) := Nat.mul_comm _ _
  omega

end Spec
