import Xo.Model.Patch
import Xo.Lemmas.Mem
/-! generic lemmas about patch lists (frame, locality, composition) -/
namespace Lay
open MemS

theorem within_shift {ps : List Patch} {lo hi d : Nat} (h : Within ps lo hi) : Within (shift d ps) (lo + d) (hi + d) := by
  intro p hp
  simp only [shift, List.mem_map] at hp
  obtain ⟨q, hq, rfl⟩ := hp
  have := h q hq
  simp; omega

theorem within_mono {ps : List Patch} {lo hi lo' hi' : Nat} (h : Within ps lo hi) (h1 : lo' ≤ lo) (h2 : hi ≤ hi') :
    Within ps lo' hi' := by
  intro p hp; have := h p hp; omega

theorem within_append {a b : List Patch} {lo hi : Nat} (ha : Within a lo hi) (hb : Within b lo hi) :
    Within (a ++ b) lo hi := by
  intro p hp
  rcases List.mem_append.mp hp with h | h
  · exact ha p h
  · exact hb p h

/-- applying patches inside [lo,hi) leaves every byte outside unchanged and keeps the length -/
theorem apply_frame (ps : List Patch) : ∀ (m : Mem) (lo hi : Nat), Within ps lo hi → hi ≤ m.length →
    (apply ps m).length = m.length ∧ ∀ i, (i < lo ∨ hi ≤ i) → (apply ps m)[i]? = m[i]? := by
  induction ps with
  | nil => intro m lo hi _ _; simp [apply]
  | cons p ps ih =>
    intro m lo hi hw hhi
    have hp := hw p (by simp)
    have hlen := length_writeAt m p.1 p.2 (by omega)
    have hrest : Within ps lo hi := fun q hq => hw q (by simp [hq])
    obtain ⟨h1, h2⟩ := ih (writeAt m p.1 p.2) lo hi hrest (by omega)
    simp only [apply, List.foldl_cons] at *
    refine ⟨by omega, ?_⟩
    intro i hi'
    rw [h2 i hi', getElem?_writeAt _ _ _ (by omega)]
    have : ¬ (p.1 ≤ i ∧ i < p.1 + p.2.length) := by omega
    simp [this]

theorem slot_ge (n : Nat) : n ≤ slot n := by unfold slot; omega

theorem readAt_agree {m' m : Mem} {lo hi off n : Nat} (h : Agree m' m lo hi) (h1 : lo ≤ off) (h2 : off + n ≤ hi) :
    readAt m' off n = readAt m off n := by
  apply List.ext_getElem?
  intro i
  rw [getElem?_readAt, getElem?_readAt]
  by_cases hi' : i < n
  · simp [hi', h (off + i) (by omega) (by omega)]
  · simp [hi']

theorem agree_mono {m' m : Mem} {lo hi lo' hi' : Nat} (h : Agree m' m lo hi) (h1 : lo ≤ lo') (h2 : hi' ≤ hi) :
    Agree m' m lo' hi' := fun i a b => h i (by omega) (by omega)

theorem agree_trans {a b c : Mem} {lo hi : Nat} (h1 : Agree a b lo hi) (h2 : Agree b c lo hi) : Agree a c lo hi :=
  fun i x y => (h1 i x y).trans (h2 i x y)

theorem shift_shift (a b : Nat) (ps : List Patch) : shift a (shift b ps) = shift (a + b) ps := by
  simp [shift, List.map_map, Function.comp_def]; intro p _; omega

theorem shift_append (d : Nat) (a b : List Patch) : shift d (a ++ b) = shift d a ++ shift d b := by
  simp [shift]

theorem apply_append (a b : List Patch) (m : Mem) : apply (a ++ b) m = apply b (apply a m) := by
  simp [apply, List.foldl_append]

theorem stripNul_append_zeros (bs : List UInt8) (k : Nat) (h : bs.getLast? ≠ some 0) :
    stripNul (bs ++ zeros k) = bs := by
  unfold stripNul zeros
  rw [List.reverse_append, List.reverse_replicate]
  have h1 : ∀ (k : Nat) (l : List UInt8), (List.replicate k (0:UInt8) ++ l).dropWhile (· == 0) = l.dropWhile (· == 0) := by
    intro k l; induction k with
    | zero => simp
    | succ n ih => simp [List.replicate_succ, ih]
  rw [h1]
  cases hb : bs.reverse with
  | nil => simp at hb; simp [hb]
  | cons x xs =>
    have hx : bs.getLast? = some x := by
      rw [List.getLast?_eq_head?_reverse, hb]; rfl
    have hne : (x == 0) = false := by
      cases hxe : (x == 0) with
      | false => rfl
      | true => exfalso; apply h; rw [hx]; simp at hxe; rw [hxe]
    rw [List.dropWhile_cons, hne]
    simp only [Bool.false_eq_true, if_false]
    rw [← hb, List.reverse_reverse]

theorem outside_of_within {ps : List Patch} {a b lo hi : Nat} (h : Within ps a b) (hd : b ≤ lo ∨ hi ≤ a) :
    Outside ps lo hi := by
  intro p hp; have := h p hp; omega

theorem outside_append {a b : List Patch} {lo hi : Nat} (ha : Outside a lo hi) (hb : Outside b lo hi) :
    Outside (a ++ b) lo hi := by
  intro p hp
  rcases List.mem_append.mp hp with h | h
  · exact ha p h
  · exact hb p h

theorem inBounds_of_within {ps : List Patch} {a b n : Nat} (h : Within ps a b) (hb : b ≤ n) : InBounds ps n := by
  intro p hp; have := h p hp; omega

theorem inBounds_append {a b : List Patch} {n : Nat} (ha : InBounds a n) (hb : InBounds b n) : InBounds (a ++ b) n := by
  intro p hp
  rcases List.mem_append.mp hp with h | h
  · exact ha p h
  · exact hb p h

theorem apply_length (ps : List Patch) : ∀ (m : Mem), InBounds ps m.length → (apply ps m).length = m.length := by
  induction ps with
  | nil => intro m _; rfl
  | cons p ps ih =>
    intro m h
    have hp := h p (by simp)
    have hl := length_writeAt m p.1 p.2 hp
    simp only [apply, List.foldl_cons]
    have := ih (writeAt m p.1 p.2) (by intro q hq; rw [hl]; exact h q (by simp [hq]))
    simp only [apply] at this
    rw [this, hl]

/-- patches that stay outside [lo,hi) do not change any byte of [lo,hi) -/
theorem apply_outside (ps : List Patch) : ∀ (m : Mem) (lo hi : Nat), Outside ps lo hi → InBounds ps m.length →
    Agree (apply ps m) m lo hi := by
  induction ps with
  | nil => intro m lo hi _ _ i _ _; rfl
  | cons p ps ih =>
    intro m lo hi ho hb i h1 h2
    have hp := hb p (by simp)
    have hl := length_writeAt m p.1 p.2 hp
    simp only [apply, List.foldl_cons]
    have := ih (writeAt m p.1 p.2) lo hi (fun q hq => ho q (by simp [hq]))
      (by intro q hq; rw [hl]; exact hb q (by simp [hq])) i h1 h2
    simp only [apply] at this
    rw [this, getElem?_writeAt _ _ _ hp]
    have := ho p (by simp)
    have : ¬ (p.1 ≤ i ∧ i < p.1 + p.2.length) := by omega
    simp [this]

/-- the part lemma: in `pre ++ P ++ post`, if `post` stays outside the part's region then on that region
    the final memory is what `P` wrote -/
theorem agree_part (pre P post : List Patch) (m : Mem) (lo hi : Nat)
    (hpre : InBounds pre m.length) (hP : InBounds P m.length) (hpost : InBounds post m.length)
    (ho : Outside post lo hi) :
    Agree (apply (pre ++ P ++ post) m) (apply P (apply pre m)) lo hi := by
  rw [apply_append, apply_append]
  have l1 := apply_length pre m hpre
  have l2 := apply_length P (apply pre m) (by rw [l1]; exact hP)
  exact apply_outside post _ lo hi ho (by rw [l2, l1]; exact hpost)

end Lay
