import Xo.Lemmas.CApiFields
import Xo.Model.CPath
/-! The capstone of the link between the two models: for every reference-free type and every selector path to a scalar element,
the offset the generated C accessor computes (`docAddr`, by `C02_addr` the semantics of the emitted statements) on memory holding
a written object is the address of that element in the layout model (`leafAt`). -/
namespace Lay
open MemS

/-! ### helpers -/

theorem itemS_off (isz : Nat) : ∀ (items : List Val) (k pos o : Nat) (x : Val), itemS isz items k pos = some (o, x) → o = pos + isz * k
 | [], _, _, _, _, h => by simp [itemS] at h
 | _ :: _, 0, pos, o, x, h => by simp only [itemS, Option.some.injEq, Prod.mk.injEq] at h; omega
 | _ :: vs, k + 1, pos, o, x, h => by
    simp only [itemS] at h
    have := itemS_off isz vs k (pos + isz) o x h
    rw [this, Nat.mul_succ]; omega

theorem itemD_off (sz : Val → Nat) : ∀ (items : List Val) (k pos o : Nat) (x : Val), itemD sz items k pos = some (o, x) →
    o = (offsetsD sz items pos).getD k 0 ∧ k < items.length
 | [], _, _, _, _, h => by simp [itemD] at h
 | _ :: _, 0, pos, o, x, h => by simp only [itemD, Option.some.injEq, Prod.mk.injEq] at h; simp [offsetsD, h.1]
 | v :: vs, k + 1, pos, o, x, h => by
    simp only [itemD] at h
    have := itemD_off sz vs k (pos + slot (sz v)) o x h
    simp [offsetsD, this.1, this.2]

theorem sPart_ty : ∀ (fs : List Ty) (vs : List Val) (k o o' : Nat) (t' : Ty) (x : Val),
    sPart fs vs k o = some (o', t', x) → fs[k]? = some t'
 | [], _, _, _, _, _, _, h => by simp [sPart] at h
 | _ :: _, [], _, _, _, _, _, h => by simp [sPart] at h
 | t :: ts, v :: vs, 0, o, o', t', x, h => by simp only [sPart, Option.some.injEq, Prod.mk.injEq] at h; simp [h.2.1]
 | t :: ts, v :: vs, k + 1, o, o', t', x, h => by simp only [sPart] at h; simpa using sPart_ty ts vs k _ o' t' x h

theorem dPart_ty : ∀ (fs : List Ty) (vs : List Val) (k so dof o' : Nat) (t' : Ty) (x : Val),
    dPart fs vs k so dof = some (o', t', x) → fs[k]? = some t'
 | [], _, _, _, _, _, _, _, h => by simp [dPart] at h
 | _ :: _, [], _, _, _, _, _, _, h => by simp [dPart] at h
 | t :: ts, v :: vs, k, so, dof, o', t', x, h => by
    simp only [dPart] at h
    cases k with
    | zero => split at h <;> simp at h <;> simp [h.2.1]
    | succ k =>
      split at h
      · simp only [Nat.add_one_ne_zero, if_false, Nat.add_sub_cancel] at h; simpa using dPart_ty ts vs k _ _ o' t' x h
      · simp only [Nat.add_one_ne_zero, if_false, Nat.add_sub_cancel] at h; simpa using dPart_ty ts vs k _ _ o' t' x h

theorem part_struct_ty (fs : List Ty) (vs : List Val) (k o : Nat) (t' : Ty) (v' : Val)
    (h : part (.struct fs) (.struct vs) k = some (o, t', v')) : fs[k]? = some t' := by
  simp only [part] at h
  split at h
  · exact sPart_ty fs vs k 0 o t' v' h
  · exact dPart_ty fs vs k 8 _ o t' v' h

theorem toLayFields_get : ∀ (fsC : List (String × CGen.Ty)) (fs : List Ty) (k : Nat) (n : String) (ft : CGen.Ty) (t' : Ty),
    toLayFields fsC = some fs → fsC[k]? = some (n, ft) → fs[k]? = some t' → toLay ft = some t'
 | [], _, _, _, _, _, _, h, _ => by simp at h
 | (n0, tc) :: r, fs, k, n, ft, t', h, h1, h2 => by
    simp only [toLayFields] at h
    cases ha : toLay tc with
    | none => simp [ha] at h
    | some a =>
      cases hb : toLayFields r with
      | none => simp [ha, hb] at h
      | some b =>
        simp only [ha, hb, Option.some.injEq] at h
        subst h
        cases k with
        | zero =>
          simp only [List.getElem?_cons_zero, Option.some.injEq, Prod.mk.injEq] at h1 h2
          rw [← h1.2, ha, h2]
        | succ k =>
          simp only [List.getElem?_cons_succ] at h1 h2
          exact toLayFields_get r b k n ft t' hb h1 h2

theorem validIdxB_valid (shape idx : List Nat) (h : validIdxB shape idx = true) : ValidIdx shape idx := by
  simp only [validIdxB, Bool.and_eq_true, beq_iff_eq, List.all_eq_true, List.mem_range, decide_eq_true_eq] at h
  exact ⟨h.1, h.2⟩

theorem cStrides_le (unit : Nat) : ∀ (cshape : List Nat), (∀ d ∈ cshape, 0 < d) → ∀ s ∈ cStrides cshape unit, s ≤ unit * prod cshape
 | [], _, s, hs => by simp [cStrides] at hs
 | d :: ds, hp, s, hs => by
    have hd : 0 < d := hp d List.mem_cons_self
    simp only [cStrides, List.mem_cons] at hs
    simp only [prod]
    have hle : unit * prod ds ≤ unit * (d * prod ds) := Nat.mul_le_mul_left _ (Nat.le_mul_of_pos_left _ hd)
    rcases hs with rfl | hs
    · exact hle
    · exact Nat.le_trans (cStrides_le unit ds (fun x hx => hp x (List.mem_cons_of_mem _ hx)) s hs) hle

theorem prod_cshape (shape order : List Nat) (hperm : order.Perm (List.range shape.length)) :
    prod (order.map fun ax => shape.getD ax 0) = prod shape := by
  have h1 : (order.map fun ax => shape.getD ax 0).Perm ((List.range shape.length).map fun ax => shape.getD ax 0) := hperm.map _
  rw [prod_perm h1]
  congr 1
  apply List.ext_getElem
  · simp
  · intro i h1 h2
    simp only [List.length_map, List.length_range] at h1
    simp [List.getD_eq_getElem?_getD, h1]

/-- with every dimension positive (there is a valid index tuple) no stride exceeds the data size `unit * #items` -/
theorem strides_le (shape order idx : List Nat) (unit : Nat) (hperm : order.Perm (List.range shape.length))
    (hv : ValidIdx shape idx) : ∀ s ∈ getStrides shape order unit, s ≤ unit * prod shape := by
  intro s hs
  simp only [getStrides, List.mem_map, List.mem_range] at hs
  obtain ⟨ax, _, rfl⟩ := hs
  rw [← prod_cshape shape order hperm]
  by_cases hk : order.idxOf ax < (cStrides (order.map fun a => shape.getD a 0) unit).length
  · apply cStrides_le unit
    · intro d hd
      simp only [List.mem_map] at hd
      obtain ⟨a, ha, rfl⟩ := hd
      have := hv.2 a ((perm_range_mem hperm a).mp ha)
      omega
    · rw [List.getD_eq_getElem?_getD, List.getElem?_eq_getElem hk]
      exact List.getElem_mem hk
  · rw [List.getD_eq_getElem?_getD, List.getElem?_eq_none (by omega)]
    simp

mutual
/-- well-formed, and every axis order is a permutation of the axes -/
def Ty.WFP : Ty → Prop
 | .scalar _ => True
 | .string => True
 | .struct fs => WFPFields fs
 | .array it shape order => order.Perm (List.range shape.length) ∧ it.WFP
def WFPFields : List Ty → Prop
 | [] => True
 | t :: ts => t.WFP ∧ WFPFields ts
end

mutual
theorem wfp_wf : ∀ t : Ty, t.WFP → t.WF
 | .scalar _, _ => trivial
 | .string, _ => trivial
 | .struct fs, h => wfpFields_wf fs h
 | .array it shape order, h => ⟨by simpa using h.1.length_eq, wfp_wf it h.2⟩
theorem wfpFields_wf : ∀ fs : List Ty, WFPFields fs → WFFields fs
 | [], _ => trivial
 | t :: ts, h => ⟨wfp_wf t h.1, wfpFields_wf ts h.2⟩
end

theorem wfpFields_get : ∀ (fs : List Ty) (k : Nat) (t' : Ty), WFPFields fs → fs[k]? = some t' → t'.WFP
 | [], _, _, _, h => by simp at h
 | t :: ts, 0, t', hw, h => by simp only [List.getElem?_cons_zero, Option.some.injEq] at h; subst h; exact hw.1
 | t :: ts, k + 1, t', hw, h => wfpFields_get ts k t' hw.2 (by simpa using h)

/-- the field step of `docAddr` on a written struct lands on the part -/
theorem docAddr_field_step (fsC : List (String × CGen.Ty)) (fs : List Ty) (vs : List Val) (hsz : SameSizes fsC fs)
    (hw : WFFields fs) (hc : ConfFields fs vs) (hs : vsize (.struct fs) (.struct vs) < 2 ^ 64)
    (k o' : Nat) (t' : Ty) (v1 : Val) (hp : part (.struct fs) (.struct vs) k = some (o', t', v1))
    (m0 : Mem) (off : Nat) (hb : off + vsize (.struct fs) (.struct vs) ≤ m0.length) (m' : Mem)
    (hag : Agree m' (apply (shift off (patchesD (.struct fs) (.struct vs))) m0) off (off + vsize (.struct fs) (.struct vs)))
    (oc : Nat) (r : Bool) (hl : (CGen.fieldLayout fsC)[k]? = some (oc, r))
    (name : String) (ps : List CGen.Part) (idx : List Int) (ic : Nat) :
    CGen.docAddr (ldM m') 0 idx (.field name oc r :: ps) (off : Int) ic =
      CGen.docAddr (ldM m') 0 idx ps ((off + o' : Nat) : Int) ic := by
  obtain ⟨l, h1, h2⟩ := field_loc_is_part fs vs hw hc hs k o' t' v1 hp m0 off hb m' hag
  rw [cgen_fieldLayout fsC fs hsz, h1] at hl
  simp only [Option.some.injEq] at hl
  subst hl
  cases r with
  | false =>
    simp only [resolveLoc, Bool.false_eq_true, if_false] at h2
    subst h2
    simp only [CGen.docAddr]
    congr 1
  | true =>
    simp only [resolveLoc, if_true] at h2
    subst h2
    simp only [CGen.docAddr, ldM]
    congr 1
    push_cast
    congr 4
    rw [show (0 : Int) + (off : Int) + (oc : Int) = ((off + oc : Nat) : Int) by push_cast; omega, Int.toNat_natCast]

/-- the index step: on a written array the C item offset is `off +` the offset of the part at the tuple's memory position -/
theorem itemOffset_is_part (itC : CGen.Ty) (it : Ty) (shape : List (Option Nat)) (order sh : List Nat) (items : List Val)
    (hsz : CGen.Ty.ssize itC = it.ssize)
    (hw : (Ty.array it shape order).WF) (hc : Conf (.array it shape order) (.arr sh items))
    (hs : vsize (.array it shape order) (.arr sh items) < 2 ^ 64)
    (hperm : order.Perm (List.range shape.length))
    (m : Mem) (off : Nat) (hb : off + vsize (.array it shape order) (.arr sh items) ≤ m.length) (m' : Mem)
    (hag : Agree m' (apply (shift off (patchesD (.array it shape order) (.arr sh items))) m) off
      (off + vsize (.array it shape order) (.arr sh items)))
    (idx : List Nat) (hv : ValidIdx sh idx) (idxAll : List Int) (ic : Nat)
    (hidx : ∀ j, j < idx.length → idxAll.getD (ic + j) 0 = ((idx.getD j 0 : Nat) : Int))
    (o' : Nat) (t' : Ty) (v1 : Val)
    (hp : part (.array it shape order) (.arr sh items) (mposL sh order idx) = some (o', t', v1)) :
    CGen.itemOffset (ldM m') 0 (off : Int) (.array itC shape order) idxAll ic = ((off + o' : Nat) : Int) := by
  have hm := hc.1
  have hl := hc.2.1
  have hshl := shapeMatches_length shape sh hm
  have hperm' : order.Perm (List.range sh.length) := by rw [hshl]; exact hperm
  -- every stride is below 2^64: it is at most the data size
  have hdata : (ainfo it shape).unit * prod sh ≤ vsize (.array it shape order) (.arr sh items) := by
    rw [← hl]
    by_cases hst : (ainfo it shape).staticType = true
    · have := slot_ge ((ainfo it shape).dataOff + (ainfo it shape).unit * items.length)
      simp only [vsize, hst, ↓reduceIte]; omega
    · have hu : (ainfo it shape).unit = 8 := by
        have hst' : (ainfo it shape).staticType = false := by simpa using hst
        simp only [ainfo] at hst' ⊢
        cases h : it.ssize <;> simp_all
      have := slot_ge ((ainfo it shape).dataOff + 8 * items.length + sizesD (vsize it) items)
      simp only [vsize, hst, Bool.false_eq_true, ↓reduceIte, hu]; omega
  have hsw : ∀ s ∈ getStrides sh order (ainfo it shape).unit, s < 2 ^ 64 := fun s hs' =>
    Nat.lt_of_le_of_lt (Nat.le_trans (strides_le sh order idx _ hperm' hv s hs') hdata) hs
  have hstr := view_strides it shape order sh items hw hc hperm hsw m off hb m' hag
  have hlen : idx.length = (viewStrides it shape order m' off).length := by
    rw [hstr, getStrides_length, hw.1, hv.1, hshl]
  have h1 := cgen_itemOffset_at itC it shape order hsz m' off idx idxAll ic hlen hidx
  have hdot := dot_getStrides sh order idx (ainfo it shape).unit hperm' hv.1
  have hpos : mposL sh order idx < items.length := by rw [hl]; exact mposL_lt sh order idx hperm' hv
  simp only at h1
  rw [h1, hstr, hdot]
  simp only [part] at hp
  by_cases hss : ((ainfo it shape).staticShape && (ainfo it shape).staticType) = true
  · simp only [hss, ↓reduceIte] at hp
    simp only [Bool.and_eq_true] at hss
    have hdo : (ainfo it shape).dataOff = 0 := by
      have h1 := hss.1; have h2 := hss.2
      simp only [ainfo] at h1 h2 ⊢
      simp at h1
      simp [h1, h2]
    rcases hopt : itemS (ainfo it shape).unit items (mposL sh order idx) 0 with _ | ⟨o2, x⟩
    · simp [hopt] at hp
    simp only [hopt, Option.map_some, Option.some.injEq, Prod.mk.injEq] at hp
    have := itemS_off _ items _ 0 o2 x hopt
    simp only [hss.2, ↓reduceIte]
    congr 1
    omega
  · have hss' : ((ainfo it shape).staticShape && (ainfo it shape).staticType) = false := by simpa using hss
    simp only [hss', Bool.false_eq_true, ↓reduceIte] at hp
    by_cases hst : (ainfo it shape).staticType = true
    · simp only [hst, ↓reduceIte] at hp ⊢
      rcases hopt : itemS (ainfo it shape).unit items (mposL sh order idx) (ainfo it shape).dataOff with _ | ⟨o2, x⟩
      · simp [hopt] at hp
      simp only [hopt, Option.map_some, Option.some.injEq, Prod.mk.injEq] at hp
      have := itemS_off _ items _ _ o2 x hopt
      congr 1
      omega
    · have hst' : (ainfo it shape).staticType = false := by simpa using hst
      simp only [hst', Bool.false_eq_true, ↓reduceIte] at hp ⊢
      rcases hopt : itemD (vsize it) items (mposL sh order idx) ((ainfo it shape).dataOff + 8 * items.length) with _ | ⟨o2, x⟩
      · simp [hopt] at hp
      simp only [hopt, Option.map_some, Option.some.injEq, Prod.mk.injEq] at hp
      obtain ⟨ho2, _⟩ := itemD_off _ items _ _ o2 x hopt
      have hu : (ainfo it shape).unit = 8 := by
        simp only [ainfo] at hst' ⊢
        cases h : it.ssize <;> simp_all
      have htab := array_table_read it shape order sh items hw hc hst' m off hb m' hag
      have hol : (offsetsD (vsize it) items ((ainfo it shape).dataOff + 8 * items.length)).length = items.length := offsetsD_length _ _ _
      have hbnd := offsetsD_bound (vsize it) items ((ainfo it shape).dataOff + 8 * items.length) (mposL sh order idx) hpos
      have hvs : vsize (.array it shape order) (.arr sh items) =
          slot ((ainfo it shape).dataOff + 8 * items.length + sizesD (vsize it) items) := by simp [vsize, hst']
      have hsl := slot_ge ((ainfo it shape).dataOff + 8 * items.length + sizesD (vsize it) items)
      have hword := word_of_region m' (off + (ainfo it shape).dataOff) _ (by rw [hol]; exact htab) (mposL sh order idx)
        (by rw [hol]; exact hpos) (by omega)
      rw [hu]
      congr 1
      rw [show off + (ainfo it shape).dataOff + 8 * mposL sh order idx = off + (ainfo it shape).dataOff + 8 * mposL sh order idx from rfl,
        hword, ← ho2]
      omega

/-- **the generated C code computes the layout model's element address**, for every reference-free type, every selector path
(fields and index tuples at any depth, static and dynamic sizes, any permutation of the axes) ending in a scalar element, on
every memory that holds the written object -/
theorem c_path_address : ∀ (sels : List Sel) (tc : CGen.Ty) (t : Ty) (v : Val) (ps : List CGen.Part) (ix p : List Nat) (lo w : Nat),
    toLay tc = some t → t.WFP → Conf t v → vsize t v < 2 ^ 64 →
    cparts tc sels = some (ps, ix) → lpath t v sels = some p → leafAt t v p = some (lo, w) →
    ∀ (m0 : Mem) (off : Nat), off + vsize t v ≤ m0.length → ∀ (m' : Mem),
    Agree m' (apply (shift off (patchesD t v)) m0) off (off + vsize t v) →
    ∀ (idxAll : List Int) (ic : Nat), (∀ j, j < ix.length → idxAll.getD (ic + j) 0 = ((ix.getD j 0 : Nat) : Int)) →
    CGen.docAddr (ldM m') 0 idxAll ps (off : Int) ic = ((off + lo : Nat) : Int)
 | [], tc, t, v, ps, ix, p, lo, w, htl, _, _, _, hcp, hlp, hleaf, m0, off, _, m', _, idxAll, ic, _ => by
    simp only [cparts, Option.some.injEq, Prod.mk.injEq] at hcp
    obtain ⟨rfl, rfl⟩ := hcp
    simp only [lpath, Option.some.injEq] at hlp
    subst hlp
    cases t with
    | scalar w' =>
      cases v with
      | bits b =>
        simp only [leafAt, Option.some.injEq, Prod.mk.injEq] at hleaf
        obtain ⟨rfl, rfl⟩ := hleaf
        cases tc <;> simp [toLay, Option.map_eq_some_iff] at htl
        simp [CGen.docAddr]
      | _ => simp [leafAt] at hleaf
    | _ => simp [leafAt] at hleaf
 | .field k :: r, tc, t, v, ps, ix, p, lo, w, htl, hwp, hc, hs, hcp, hlp, hleaf, m0, off, hb, m', hag, idxAll, ic, hix => by
    cases tc with
    | struct n fsC =>
      simp only [toLay, Option.map_eq_some_iff] at htl
      obtain ⟨fs, hfs, rfl⟩ := htl
      cases v with
      | struct vs =>
        -- the C side
        simp only [cparts] at hcp
        rcases hf : fsC[k]? with _ | ⟨fname, ft⟩
        · simp [hf] at hcp
        rcases hlay : (CGen.fieldLayout fsC)[k]? with _ | ⟨oc, isref⟩
        · simp [hf, hlay] at hcp
        simp only [hf, hlay, Option.map_eq_some_iff] at hcp
        obtain ⟨⟨ps', ix'⟩, hcp', he⟩ := hcp
        simp only [Prod.mk.injEq] at he
        obtain ⟨rfl, rfl⟩ := he
        -- the layout side
        simp only [lpath] at hlp
        rcases hpart : part (.struct fs) (.struct vs) k with _ | ⟨o', t', v'⟩
        · simp [hpart] at hlp
        simp only [hpart, Option.map_eq_some_iff] at hlp
        obtain ⟨p', hlp', rfl⟩ := hlp
        simp only [leafAt, hpart] at hleaf
        rcases hleaf' : leafAt t' v' p' with _ | ⟨lo', w'⟩
        · simp [hleaf'] at hleaf
        simp only [hleaf', Option.map_some, Option.some.injEq, Prod.mk.injEq] at hleaf
        obtain ⟨rfl, rfl⟩ := hleaf
        have hwf : (Ty.struct fs).WF := wfp_wf _ hwp
        obtain ⟨g1, g2, g3, m1, hl1, hag1⟩ := part_agree _ _ hwf hc k o' t' v' hpart m0 off hb m' hag
        have hty := part_struct_ty fs vs k o' t' v' hpart
        have htl' := toLayFields_get fsC fs k fname ft t' hfs hf hty
        have hwp' := wfpFields_get fs k t' hwp hty
        have hstep := docAddr_field_step fsC fs vs (sameSizes_toLay fsC fs hfs) hwf hc hs k o' t' v' hpart m0 off hb m' hag
          oc isref hlay fname ps' idxAll ic
        have ih := c_path_address r ft t' v' ps' ix' p' lo' w' htl' hwp' g2 (by omega) hcp' hlp' hleaf' m1 (off + o')
          (by rw [hl1]; omega) m' hag1 idxAll ic hix
        simp only [CGen.docAddr] at hstep ⊢
        rw [hstep, ih, Nat.add_assoc]
      | _ => simp [Conf] at hc
    | _ => simp [cparts] at hcp
 | .item idx :: r, tc, t, v, ps, ix, p, lo, w, htl, hwp, hc, hs, hcp, hlp, hleaf, m0, off, hb, m', hag, idxAll, ic, hix => by
    cases tc with
    | array itC shape order =>
      simp only [toLay, Option.map_eq_some_iff] at htl
      obtain ⟨it, hit, rfl⟩ := htl
      cases v with
      | arr sh items =>
        simp only [cparts, Option.map_eq_some_iff] at hcp
        obtain ⟨⟨ps', ix'⟩, hcp', he⟩ := hcp
        simp only [Prod.mk.injEq] at he
        obtain ⟨rfl, rfl⟩ := he
        simp only [lpath] at hlp
        by_cases hvb : validIdxB sh idx = true
        · simp only [hvb, ↓reduceIte] at hlp
          rcases hpart : part (.array it shape order) (.arr sh items) (mposL sh order idx) with _ | ⟨o', t', v'⟩
          · simp [hpart] at hlp
          simp only [hpart, Option.map_eq_some_iff] at hlp
          obtain ⟨p', hlp', rfl⟩ := hlp
          simp only [leafAt, hpart] at hleaf
          rcases hleaf' : leafAt t' v' p' with _ | ⟨lo', w'⟩
          · simp [hleaf'] at hleaf
          simp only [hleaf', Option.map_some, Option.some.injEq, Prod.mk.injEq] at hleaf
          obtain ⟨rfl, rfl⟩ := hleaf
          have hv := validIdxB_valid sh idx hvb
          have hwf : (Ty.array it shape order).WF := wfp_wf _ hwp
          obtain ⟨g1, g2, g3, m1, hl1, hag1⟩ := part_agree _ _ hwf hc _ o' t' v' hpart m0 off hb m' hag
          -- the part of an array is an item: its type is the item type
          have hti : t' = it := by
            have := hpart
            simp only [part] at this
            split at this
            · rcases h1 : itemS (ainfo it shape).unit items (mposL sh order idx) 0 with _ | ⟨o2, x⟩
              · simp [h1] at this
              · simp only [h1, Option.map_some, Option.some.injEq, Prod.mk.injEq] at this; exact this.2.1.symm
            · split at this
              · rcases h1 : itemS (ainfo it shape).unit items (mposL sh order idx) (ainfo it shape).dataOff with _ | ⟨o2, x⟩
                · simp [h1] at this
                · simp only [h1, Option.map_some, Option.some.injEq, Prod.mk.injEq] at this; exact this.2.1.symm
              · rcases h1 : itemD (vsize it) items (mposL sh order idx) ((ainfo it shape).dataOff + 8 * items.length) with _ | ⟨o2, x⟩
                · simp [h1] at this
                · simp only [h1, Option.map_some, Option.some.injEq, Prod.mk.injEq] at this; exact this.2.1.symm
          subst hti
          have hshl := shapeMatches_length shape sh hc.1
          have hidx : ∀ j, j < idx.length → idxAll.getD (ic + j) 0 = ((idx.getD j 0 : Nat) : Int) := by
            intro j hj
            have := hix j (by simp; omega)
            rw [this]
            simp [List.getD_eq_getElem?_getD, List.getElem?_append_left hj]
          have hstep := itemOffset_is_part itC t' shape order sh items (ssize_toLay itC t' hit) hwf hc hs hwp.1 m0 off hb m' hag
            idx hv idxAll ic hidx o' t' v' hpart
          have hix' : ∀ j, j < ix'.length → idxAll.getD (ic + shape.length + j) 0 = ((ix'.getD j 0 : Nat) : Int) := by
            intro j hj
            have := hix (idx.length + j) (by simp; omega)
            rw [show ic + shape.length + j = ic + (idx.length + j) by rw [hv.1, hshl]; omega, this]
            simp [List.getD_eq_getElem?_getD, List.getElem?_append_right]
          have ih := c_path_address r itC t' v' ps' ix' p' lo' w' hit hwp.2 g2 (by omega) hcp' hlp' hleaf' m1 (off + o')
            (by rw [hl1]; omega) m' hag1 idxAll (ic + shape.length) hix'
          simp only [CGen.docAddr, CGen.partRank]
          rw [hstep, ih, Nat.add_assoc]
        · simp [hvb] at hlp
      | _ => simp [Conf] at hc
    | _ => simp [cparts] at hcp

/-! ### calling convention: the accessor receives the object's ADDRESS and starts from offset 0 -/

theorem dotIdx_base (ld : CGen.Load) (b1 b2 : Int) (ai : CGen.ArrInfo) (idx : List Int) (ic : Nat) (h : b1 = b2) :
    ∀ (n j : Nat), CGen.dotIdx ld b1 ai idx ic j n = CGen.dotIdx ld b2 ai idx ic j n := by
  subst h; intro n j; rfl

theorem itemOffset_shift (ld : CGen.Load) (obj d cur : Int) (arr : CGen.Ty) (idx : List Int) (ic : Nat) :
    CGen.itemOffset ld (obj + d) cur arr idx ic + d = CGen.itemOffset ld obj (cur + d) arr idx ic := by
  cases arr with
  | array it shp ord =>
    simp only [CGen.itemOffset]
    have hb : obj + d + cur = obj + (cur + d) := by omega
    rw [dotIdx_base ld _ _ _ idx ic hb]
    split
    · omega
    · rw [show obj + d + cur + (↑(CGen.arrInfo it shp ord).dataOffset +
          CGen.dotIdx ld (obj + (cur + d)) (CGen.arrInfo it shp ord) idx ic 0 (CGen.nStrides (CGen.arrInfo it shp ord))) =
        obj + (cur + d) + (↑(CGen.arrInfo it shp ord).dataOffset +
          CGen.dotIdx ld (obj + (cur + d)) (CGen.arrInfo it shp ord) idx ic 0 (CGen.nStrides (CGen.arrInfo it shp ord))) by omega]
      omega
  | _ => simp [CGen.itemOffset]

/-- moving the base address into the starting offset: `docAddr` depends on `obj + cur` only -/
theorem docAddr_shift (ld : CGen.Load) (obj d : Int) (idx : List Int) :
    ∀ (ps : List CGen.Part) (cur : Int) (ic : Nat),
      CGen.docAddr ld (obj + d) idx ps cur ic + d = CGen.docAddr ld obj idx ps (cur + d) ic
 | [], cur, ic => by simp [CGen.docAddr]
 | .ty (.ref _) :: ps, cur, ic => by
    simp only [CGen.docAddr]
    rw [docAddr_shift ld obj d idx ps _ ic]
    congr 1
    rw [show obj + d + cur = obj + (cur + d) by omega]; omega
 | .ty (.scalar _) :: ps, cur, ic | .ty .string :: ps, cur, ic | .ty (.struct ..) :: ps, cur, ic
 | .ty (.array ..) :: ps, cur, ic | .ty (.unionref ..) :: ps, cur, ic => by
    simp only [CGen.docAddr]; exact docAddr_shift ld obj d idx ps cur ic
 | .field _ o false :: ps, cur, ic => by
    simp only [CGen.docAddr]
    rw [docAddr_shift ld obj d idx ps _ ic]
    congr 1; omega
 | .field _ o true :: ps, cur, ic => by
    simp only [CGen.docAddr]
    rw [docAddr_shift ld obj d idx ps _ ic]
    congr 1
    rw [show obj + d + cur + (o : Int) = obj + (cur + d) + (o : Int) by omega]; omega
 | .index arr :: ps, cur, ic => by
    simp only [CGen.docAddr]
    rw [docAddr_shift ld obj d idx ps _ _, itemOffset_shift]

/-- the generated accessor, called with the object's address, returns the element's offset inside the object -/
theorem c_path_offset (sels : List Sel) (tc : CGen.Ty) (t : Ty) (v : Val) (ps : List CGen.Part) (ix p : List Nat) (lo w : Nat)
    (htl : toLay tc = some t) (hwp : t.WFP) (hc : Conf t v) (hs : vsize t v < 2 ^ 64)
    (hcp : cparts tc sels = some (ps, ix)) (hlp : lpath t v sels = some p) (hleaf : leafAt t v p = some (lo, w))
    (m0 : Mem) (off : Nat) (hb : off + vsize t v ≤ m0.length) (m' : Mem)
    (hag : Agree m' (apply (shift off (patchesD t v)) m0) off (off + vsize t v))
    (idxAll : List Int) (ic : Nat) (hix : ∀ j, j < ix.length → idxAll.getD (ic + j) 0 = ((ix.getD j 0 : Nat) : Int)) :
    CGen.docAddr (ldM m') (off : Int) idxAll ps 0 ic = (lo : Int) := by
  have h1 := c_path_address sels tc t v ps ix p lo w htl hwp hc hs hcp hlp hleaf m0 off hb m' hag idxAll ic hix
  have h2 := docAddr_shift (ldM m') 0 (off : Int) idxAll ps 0 ic
  simp only [Int.zero_add] at h2
  rw [← h2] at h1
  push_cast at h1
  omega

end Lay
