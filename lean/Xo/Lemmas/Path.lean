import Xo.Lemmas.LayoutRT
import Xo.Model.Path
import Xo.Model.Assign
/-! Decomposition of the writer's patch list along a path: the patches of a compound are `Pre ++ (patches of the k-th part,
shifted to the part's offset) ++ Post`, `Post` lies outside the part's extent, and replacing the part's value by one of the
same size changes only the middle segment.  By induction over the path, the patch list of an object differs from the patch
list of the object with ONE SCALAR LEAF changed in exactly one patch (same place, same length), and no later patch touches
that place. -/
namespace Lay
open MemS

theorem setNth_length : ∀ (vs : List Val) (k : Nat) (x : Val), (setNth vs k x).length = vs.length
 | [], _, _ => rfl
 | _ :: _, 0, _ => rfl
 | _ :: vs, k + 1, x => by simp [setNth, setNth_length vs k x]

/-! ### statically sized struct -/
theorem sPart_decomp : ∀ (fs : List Ty) (vs : List Val) (k o s o' : Nat) (t' : Ty) (v1 : Val),
    WFFields fs → ConfFields fs vs → ssizeFields fs = some s → sPart fs vs k o = some (o', t', v1) →
    t'.WF ∧ Conf t' v1 ∧ o ≤ o' ∧ o' + vsize t' v1 ≤ o + s ∧
    ∃ Pre Post, sPatches fs vs o = Pre ++ shift o' (patchesD t' v1) ++ Post ∧
      Outside Post o' (o' + vsize t' v1) ∧
      (∀ v2, Conf t' v2 → ConfFields fs (setNth vs k v2) ∧
        sPatches fs (setNth vs k v2) o = Pre ++ shift o' (patchesD t' v2) ++ Post) ∧
      Outside Pre o' (o' + vsize t' v1)
 | [], _, _, _, _, _, _, _, _, _, _, h => by simp [sPart] at h
 | _ :: _, [], _, _, _, _, _, _, _, hc, _, _ => by simp [ConfFields] at hc
 | t :: ts, v :: vs, 0, o, s, o', t', v1, hw, hc, hs, h => by
    simp only [sPart, Option.some.injEq, Prod.mk.injEq] at h
    obtain ⟨rfl, rfl, rfl⟩ := h
    simp only [ssizeFields] at hs
    split at hs
    · rename_i a b ha hb
      simp only [Option.some.injEq] at hs
      subst hs
      have hv := conf_ssize t v a hc.1 ha
      have hsl := slot_ge a
      refine ⟨hw.1, hc.1, Nat.le_refl _, by omega, [], sPatches ts vs (o + slot a), ?_, ?_, ?_, ?_⟩
      · simp [sPatches, ha]
      · exact outside_of_within (withinS ts vs (o + slot a) b hw.2 hc.2 hb) (Or.inr (by omega))
      · intro v2 hc2
        exact ⟨⟨hc2, hc.2⟩, by simp [setNth, sPatches, ha]⟩
      · intro p hp; simp at hp
    · simp at hs
 | t :: ts, v :: vs, k + 1, o, s, o', t', v1, hw, hc, hs, h => by
    simp only [sPart] at h
    simp only [ssizeFields] at hs
    split at hs
    · rename_i a b ha hb
      simp only [Option.some.injEq] at hs
      subst hs
      simp only [ha, Option.getD_some] at h
      obtain ⟨h1, h2, h3, h4, Pre, Post, h5, h6, h7, h8⟩ := sPart_decomp ts vs k (o + slot a) b o' t' v1 hw.2 hc.2 hb h
      have hv := conf_ssize t v a hc.1 ha
      have hsl := slot_ge a
      refine ⟨h1, h2, by omega, by omega, shift o (patchesD t v) ++ Pre, Post, ?_, h6, ?_, ?_⟩
      · simp [sPatches, ha, h5, List.append_assoc]
      · intro v2 hc2
        obtain ⟨g1, g2⟩ := h7 v2 hc2
        exact ⟨⟨hc.1, g1⟩, by simp [setNth, sPatches, ha, g2, List.append_assoc]⟩
      · exact outside_append (outside_of_within (within_shift (d := o) (withinD t v hw.1 hc.1)) (Or.inl (by omega))) h8
    · simp at hs

/-! ### dynamically sized struct -/
theorem dPart_decomp : ∀ (fs : List Ty) (vs : List Val) (k so kd dof sb o' : Nat) (t' : Ty) (v1 : Val),
    WFFields fs → ConfFields fs vs → so + staticBytes fs ≤ sb → sb + 8 * (kd + ndynF fs - 1) ≤ dof →
    dPart fs vs k so dof = some (o', t', v1) →
    t'.WF ∧ Conf t' v1 ∧ so ≤ o' ∧ o' + vsize t' v1 ≤ dof + dynSizes fs vs ∧
    ∃ Pre Post, dPatches fs vs so kd dof sb = Pre ++ shift o' (patchesD t' v1) ++ Post ∧
      Outside Post o' (o' + vsize t' v1) ∧
      (∀ v2, Conf t' v2 → vsize t' v2 = vsize t' v1 → ConfFields fs (setNth vs k v2) ∧
        dynSizes fs (setNth vs k v2) = dynSizes fs vs ∧
        dPatches fs (setNth vs k v2) so kd dof sb = Pre ++ shift o' (patchesD t' v2) ++ Post) ∧
      Outside Pre o' (o' + vsize t' v1) ∧ (o' + vsize t' v1 ≤ so + staticBytes fs ∨ dof ≤ o')
 | [], _, _, _, _, _, _, _, _, _, _, _, _, _, h => by simp [dPart] at h
 | _ :: _, [], _, _, _, _, _, _, _, _, _, hc, _, _, _ => by simp [ConfFields] at hc
 | t :: ts, v :: vs, k, so, kd, dof, sb, o', t', v1, hw, hc, h1, h2, h => by
    simp only [dPart] at h
    cases hs : t.ssize with
    | some a =>
      simp only [hs] at h
      have hv := conf_ssize t v a hc.1 hs
      have hsl := slot_ge a
      have hsb : staticBytes (t :: ts) = slot a + staticBytes ts := by simp [staticBytes, hs]
      have hnd : ndynF (t :: ts) = ndynF ts := by simp [ndynF, hs]
      have hds : ∀ x ws, dynSizes (t :: ts) (x :: ws) = dynSizes ts ws := by intro x ws; simp [dynSizes, hs]
      by_cases hk : k = 0
      · subst hk
        simp only [if_true, Option.some.injEq, Prod.mk.injEq] at h
        obtain ⟨rfl, rfl, rfl⟩ := h
        refine ⟨hw.1, hc.1, Nat.le_refl _, by rw [hv]; omega, [], dPatches ts vs (so + slot a) kd dof sb, ?_, ?_, ?_, ?_, ?_⟩
        · simp [dPatches, hs]
        · intro p hp
          have := regionsD ts vs (so + slot a) kd dof sb hw.2 hc.2 p hp
          unfold In3 at this
          rw [hv]
          omega
        · intro v2 hc2 _
          exact ⟨⟨hc2, hc.2⟩, by simp [setNth, hds], by simp [setNth, dPatches, hs]⟩
        · intro p hp; simp at hp
        · left; rw [hv, hsb]; omega
      · simp only [hk, if_false] at h
        obtain ⟨k', rfl⟩ : ∃ k', k = k' + 1 := ⟨k - 1, by omega⟩
        simp only [Nat.add_sub_cancel] at h
        obtain ⟨g1, g2, g3, g4, Pre, Post, g5, g6, g7, g8, g9⟩ :=
          dPart_decomp ts vs k' (so + slot a) kd dof sb o' t' v1 hw.2 hc.2 (by omega) (by omega) h
        refine ⟨g1, g2, by omega, by rw [hds]; exact g4, shift so (patchesD t v) ++ Pre, Post, ?_, g6, ?_, ?_, ?_⟩
        · simp [dPatches, hs, g5, List.append_assoc]
        · intro v2 hc2 hsz
          obtain ⟨q1, q2, q3⟩ := g7 v2 hc2 hsz
          exact ⟨⟨hc.1, q1⟩, by simp [setNth, hds, q2], by simp [setNth, dPatches, hs, q3, List.append_assoc]⟩
        · exact outside_append (outside_of_within (within_shift (d := so) (withinD t v hw.1 hc.1)) (Or.inl (by omega))) g8
        · rcases g9 with g9 | g9
          · left; rw [hsb]; omega
          · right; exact g9
    | none =>
      simp only [hs] at h
      have hsl := slot_ge (vsize t v)
      have hsb : staticBytes (t :: ts) = staticBytes ts := by simp [staticBytes, hs]
      have hnd : ndynF (t :: ts) = 1 + ndynF ts := by simp [ndynF, hs]
      have hds : ∀ x ws, dynSizes (t :: ts) (x :: ws) = slot (vsize t x) + dynSizes ts ws := by intro x ws; simp [dynSizes, hs]
      by_cases hk : k = 0
      · subst hk
        simp only [if_true, Option.some.injEq, Prod.mk.injEq] at h
        obtain ⟨rfl, rfl, rfl⟩ := h
        refine ⟨hw.1, hc.1, by omega, by rw [hds]; omega,
          (if kd = 0 then [] else [(sb + 8 * (kd - 1), le 8 dof)]), dPatches ts vs so (kd + 1) (dof + slot (vsize t v)) sb, ?_, ?_, ?_, ?_, ?_⟩
        · simp [dPatches, hs, List.append_assoc]
        · intro p hp
          have := regionsD ts vs so (kd + 1) (dof + slot (vsize t v)) sb hw.2 hc.2 p hp
          unfold In3 at this
          omega
        · intro v2 hc2 hsz
          exact ⟨⟨hc2, hc.2⟩, by simp [setNth, hds, hsz], by simp [setNth, dPatches, hs, hsz, List.append_assoc]⟩
        · intro p hp
          by_cases hkd : kd = 0
          · simp [hkd] at hp
          · simp only [hkd, if_false, List.mem_singleton] at hp
            subst hp
            simp only [le_length]
            left; omega
        · right; exact Nat.le_refl _
      · simp only [hk, if_false] at h
        obtain ⟨k', rfl⟩ : ∃ k', k = k' + 1 := ⟨k - 1, by omega⟩
        simp only [Nat.add_sub_cancel] at h
        obtain ⟨g1, g2, g3, g4, Pre, Post, g5, g6, g7, g8, g9⟩ :=
          dPart_decomp ts vs k' so (kd + 1) (dof + slot (vsize t v)) sb o' t' v1 hw.2 hc.2 (by omega) (by omega) h
        have g9' : o' + vsize t' v1 ≤ so + staticBytes ts ∨ dof + slot (vsize t v) ≤ o' := g9
        refine ⟨g1, g2, g3, by rw [hds]; omega,
          (if kd = 0 then [] else [(sb + 8 * (kd - 1), le 8 dof)]) ++ (shift dof (patchesD t v) ++ Pre), Post, ?_, g6, ?_, ?_, ?_⟩
        · simp [dPatches, hs, g5, List.append_assoc]
        · intro v2 hc2 hsz
          obtain ⟨q1, q2, q3⟩ := g7 v2 hc2 hsz
          exact ⟨⟨hc.1, q1⟩, by simp [setNth, hds, q2], by simp [setNth, dPatches, hs, q3, List.append_assoc]⟩
        · apply outside_append
          · intro p hp
            by_cases hkd : kd = 0
            · simp [hkd] at hp
            · simp only [hkd, if_false, List.mem_singleton] at hp
              subst hp
              simp only [le_length]
              omega
          · refine outside_append (outside_of_within (within_shift (d := dof) (withinD t v hw.1 hc.1)) ?_) g8
            omega
        · rcases g9' with g9' | g9'
          · left; rw [hsb]; exact g9'
          · right; omega

/-! ### array items -/
theorem itemS_decomp (f : Val → List Patch) (isz : Nat) : ∀ (items : List Val) (k pos o' : Nat) (v1 : Val),
    itemS isz items k pos = some (o', v1) →
    v1 ∈ items ∧ pos ≤ o' ∧ o' + isz ≤ pos + isz * items.length ∧
    ∃ Pre Post, placeS f isz items pos = Pre ++ shift o' (f v1) ++ Post ∧
      ((∀ v ∈ items, Within (f v) 0 isz) → Outside Post o' (o' + isz)) ∧
      (∀ v2, placeS f isz (setNth items k v2) pos = Pre ++ shift o' (f v2) ++ Post ∧
        (∀ x ∈ setNth items k v2, x = v2 ∨ x ∈ items)) ∧
      ((∀ v ∈ items, Within (f v) 0 isz) → Outside Pre o' (o' + isz))
 | [], _, _, _, _, h => by simp [itemS] at h
 | v :: vs, 0, pos, o', v1, h => by
    simp only [itemS, Option.some.injEq, Prod.mk.injEq] at h
    obtain ⟨rfl, rfl⟩ := h
    refine ⟨List.mem_cons_self, Nat.le_refl _, by rw [List.length_cons, Nat.mul_succ]; omega, [], placeS f isz vs (pos + isz), by simp [placeS], ?_, ?_, ?_⟩
    · intro hw
      exact outside_of_within (placeS_within f isz vs (pos + isz) (fun x hx => hw x (List.mem_cons_of_mem _ hx))) (Or.inr (Nat.le_refl _))
    · intro v2
      refine ⟨by simp [setNth, placeS], ?_⟩
      intro x hx
      simp only [setNth, List.mem_cons] at hx
      rcases hx with rfl | hx
      · exact Or.inl rfl
      · exact Or.inr (List.mem_cons_of_mem _ hx)
    · intro _ p hp; simp at hp
 | v :: vs, k + 1, pos, o', v1, h => by
    simp only [itemS] at h
    obtain ⟨g1, g2, g3, Pre, Post, g4, g5, g6, g7⟩ := itemS_decomp f isz vs k (pos + isz) o' v1 h
    refine ⟨List.mem_cons_of_mem _ g1, by omega, by rw [List.length_cons, Nat.mul_succ]; omega, shift pos (f v) ++ Pre, Post, by simp [placeS, g4, List.append_assoc], ?_, ?_, ?_⟩
    rotate_left 2
    · intro hw
      exact outside_append (outside_of_within (within_shift (d := pos) (hw v List.mem_cons_self)) (Or.inl (by omega)))
        (g7 (fun x hx => hw x (List.mem_cons_of_mem _ hx)))
    · intro hw
      exact g5 (fun x hx => hw x (List.mem_cons_of_mem _ hx))
    · intro v2
      obtain ⟨q1, q2⟩ := g6 v2
      refine ⟨by simp [setNth, placeS, q1, List.append_assoc], ?_⟩
      intro x hx
      simp only [setNth, List.mem_cons] at hx
      rcases hx with rfl | hx
      · exact Or.inr List.mem_cons_self
      · rcases q2 x hx with h | h
        · exact Or.inl h
        · exact Or.inr (List.mem_cons_of_mem _ h)

theorem itemD_decomp (f : Val → List Patch) (sz : Val → Nat) : ∀ (items : List Val) (k pos o' : Nat) (v1 : Val),
    itemD sz items k pos = some (o', v1) →
    v1 ∈ items ∧ pos ≤ o' ∧ o' + sz v1 ≤ pos + sizesD sz items ∧
    ∃ Pre Post, placeD f sz items pos = Pre ++ shift o' (f v1) ++ Post ∧
      ((∀ v ∈ items, Within (f v) 0 (sz v)) → Outside Post o' (o' + sz v1)) ∧
      (∀ v2, sz v2 = sz v1 → placeD f sz (setNth items k v2) pos = Pre ++ shift o' (f v2) ++ Post ∧
        offsetsD sz (setNth items k v2) pos = offsetsD sz items pos ∧
        sizesD sz (setNth items k v2) = sizesD sz items ∧
        (∀ x ∈ setNth items k v2, x = v2 ∨ x ∈ items)) ∧
      ((∀ v ∈ items, Within (f v) 0 (sz v)) → Outside Pre o' (o' + sz v1))
 | [], _, _, _, _, h => by simp [itemD] at h
 | v :: vs, 0, pos, o', v1, h => by
    simp only [itemD, Option.some.injEq, Prod.mk.injEq] at h
    obtain ⟨rfl, rfl⟩ := h
    have hsl := slot_ge (sz v)
    refine ⟨List.mem_cons_self, Nat.le_refl _, by simp only [sizesD]; omega, [], placeD f sz vs (pos + slot (sz v)), by simp [placeD], ?_, ?_, ?_⟩
    · intro hw
      exact outside_of_within (placeD_within f sz vs (pos + slot (sz v)) (fun x hx => hw x (List.mem_cons_of_mem _ hx))) (Or.inr (by omega))
    · intro v2 hsz
      refine ⟨by simp [setNth, placeD, hsz], by simp [setNth, offsetsD, hsz], by simp [setNth, sizesD, hsz], ?_⟩
      intro x hx
      simp only [setNth, List.mem_cons] at hx
      rcases hx with rfl | hx
      · exact Or.inl rfl
      · exact Or.inr (List.mem_cons_of_mem _ hx)
    · intro _ p hp; simp at hp
 | v :: vs, k + 1, pos, o', v1, h => by
    simp only [itemD] at h
    have hsl := slot_ge (sz v)
    obtain ⟨g1, g2, g3, Pre, Post, g4, g5, g6, g7⟩ := itemD_decomp f sz vs k (pos + slot (sz v)) o' v1 h
    refine ⟨List.mem_cons_of_mem _ g1, by omega, by simp only [sizesD]; omega, shift pos (f v) ++ Pre, Post, by simp [placeD, g4, List.append_assoc], ?_, ?_, ?_⟩
    rotate_left 2
    · intro hw
      exact outside_append (outside_of_within (within_shift (d := pos) (hw v List.mem_cons_self)) (Or.inl (by omega)))
        (g7 (fun x hx => hw x (List.mem_cons_of_mem _ hx)))
    · intro hw
      exact g5 (fun x hx => hw x (List.mem_cons_of_mem _ hx))
    · intro v2 hsz
      obtain ⟨q1, q2, q3, q4⟩ := g6 v2 hsz
      refine ⟨by simp [setNth, placeD, q1, List.append_assoc], by simp [setNth, offsetsD, q2], by simp [setNth, sizesD, q3], ?_⟩
      intro x hx
      simp only [setNth, List.mem_cons] at hx
      rcases hx with rfl | hx
      · exact Or.inr List.mem_cons_self
      · rcases q4 x hx with h | h
        · exact Or.inl h
        · exact Or.inr (List.mem_cons_of_mem _ h)

theorem confItems_of_mem (it : Ty) : ∀ (items : List Val), (∀ v ∈ items, Conf it v) → ConfItems it items
 | [], _ => by simp [ConfItems]
 | x :: xs, h => ⟨h x List.mem_cons_self, confItems_of_mem it xs (fun v hv => h v (List.mem_cons_of_mem _ hv))⟩

/-- what `part_decomp` states about the `k`-th part of an object -/
def PartDecomp (t : Ty) (v : Val) (k o : Nat) (t' : Ty) (v1 : Val) : Prop :=
  t'.WF ∧ Conf t' v1 ∧ o + vsize t' v1 ≤ vsize t v ∧
  ∃ Pre Post, patchesD t v = Pre ++ shift o (patchesD t' v1) ++ Post ∧ Outside Post o (o + vsize t' v1) ∧
    (∀ v2, Conf t' v2 → vsize t' v2 = vsize t' v1 →
      Conf t (setPartV v k v2) ∧ vsize t (setPartV v k v2) = vsize t v ∧
      patchesD t (setPartV v k v2) = Pre ++ shift o (patchesD t' v2) ++ Post) ∧
    Outside Pre o (o + vsize t' v1)

theorem part_struct_decomp (fs : List Ty) (vs : List Val) (k o : Nat) (t' : Ty) (v1 : Val)
    (hw : WFFields fs) (hc : ConfFields fs vs) (h : part (.struct fs) (.struct vs) k = some (o, t', v1)) :
    PartDecomp (.struct fs) (.struct vs) k o t' v1 := by
  simp only [part] at h
  cases hss : ssizeFields fs with
  | some s =>
    simp only [hss] at h
    obtain ⟨g1, g2, _, g4, Pre, Post, g5, g6, g7, g8⟩ := sPart_decomp fs vs k 0 s o t' v1 hw hc hss h
    refine ⟨g1, g2, by simp [vsize, hss]; omega, Pre, Post, by simp [patchesD, hss, g5], g6, ?_, g8⟩
    intro v2 hc2 _
    obtain ⟨q1, q2⟩ := g7 v2 hc2
    exact ⟨by simpa [setPartV, Conf] using q1, by simp [setPartV, vsize, hss], by simp [setPartV, patchesD, hss, q2]⟩
  | none =>
    simp only [hss] at h
    obtain ⟨g1, g2, g3, g4, Pre, Post, g5, g6, g7, g8, _⟩ :=
      dPart_decomp fs vs k 8 0 (dynStart fs) (8 + staticBytes fs) o t' v1 hw hc (Nat.le_refl _) (by simp [dynStart]) h
    have hv : ∀ ws, vsize (.struct fs) (.struct ws) = dynStart fs + dynSizes fs ws := by intro ws; simp [vsize, hss]
    refine ⟨g1, g2, by rw [hv]; exact g4, (0, le 8 (vsize (.struct fs) (.struct vs))) :: Pre, Post, by simp [patchesD, hss, g5], g6, ?_, ?_⟩
    rotate_left
    · intro p hp
      rcases List.mem_cons.mp hp with rfl | hp
      · simp only [le_length]; left; omega
      · exact g8 p hp
    intro v2 hc2 hsz
    obtain ⟨q1, q2, q3⟩ := g7 v2 hc2 hsz
    have hv2 : vsize (.struct fs) (.struct (setNth vs k v2)) = vsize (.struct fs) (.struct vs) := by rw [hv, hv, q2]
    refine ⟨by simpa [setPartV, Conf] using q1, by simpa [setPartV] using hv2, ?_⟩
    simp only [setPartV, patchesD, hss, hv2, q3]
    simp

theorem part_array_decomp (it : Ty) (shape : List (Option Nat)) (order sh : List Nat) (items : List Val) (k o : Nat)
    (t' : Ty) (v1 : Val) (hw : (Ty.array it shape order).WF) (hc : Conf (.array it shape order) (.arr sh items))
    (h : part (.array it shape order) (.arr sh items) k = some (o, t', v1)) :
    PartDecomp (.array it shape order) (.arr sh items) k o t' v1 := by
  obtain ⟨hm, hl, hci, hd⟩ := hc
  obtain ⟨ho, hwi⟩ := hw
  have hitems : ∀ v ∈ items, Within (patchesD it v) 0 (vsize it v) := fun v hv =>
    withinD it v hwi (confItems_mem it items hci v hv)
  have hconf2 : ∀ (v2 : Val) (l : List Val), Conf it v2 → (∀ x ∈ l, x = v2 ∨ x ∈ items) → l.length = items.length →
      Conf (.array it shape order) (.arr sh l) := by
    intro v2 l hc2 hmem hlen
    refine ⟨hm, by rw [hlen]; exact hl, confItems_of_mem it l ?_, hd⟩
    intro x hx
    rcases hmem x hx with rfl | hx
    · exact hc2
    · exact confItems_mem it items hci x hx
  simp only [part] at h
  by_cases hss : ((ainfo it shape).staticShape && (ainfo it shape).staticType) = true
  · -- static shape, static items: no header
    simp only [hss, ↓reduceIte] at h
    rcases hopt : itemS (ainfo it shape).unit items k 0 with _ | ⟨o2, w⟩
    · simp [hopt] at h
    simp only [hopt, Option.map_some, Option.some.injEq, Prod.mk.injEq] at h
    obtain ⟨rfl, rfl, rfl⟩ := h
    simp only [Bool.and_eq_true] at hss
    have hst : (ainfo it shape).staticType = true := hss.2
    obtain ⟨s, hs⟩ : ∃ s, it.ssize = some s := by
      simp only [ainfo] at hst; exact Option.isSome_iff_exists.mp hst
    have hu : (ainfo it shape).unit = s := by simp [ainfo, hs]
    have hdo : (ainfo it shape).dataOff = 0 := by
      have h1 : (ainfo it shape).staticShape = true := hss.1
      simp only [ainfo] at h1 hst ⊢
      simp at h1
      simp [h1, hs]
    obtain ⟨g1, g2, g3, Pre, Post, g4, g5, g6, g7⟩ := itemS_decomp (patchesD it) (ainfo it shape).unit items k 0 o2 w hopt
    have hcw := confItems_mem it items hci w g1
    have hvw : ∀ x, Conf it x → vsize it x = (ainfo it shape).unit := fun x hx => by rw [hu]; exact conf_ssize it x s hx hs
    have hv : ∀ l : List Val, vsize (.array it shape order) (.arr sh l) = slot ((ainfo it shape).unit * l.length) := by
      intro l; simp [vsize, hst, hdo]
    have hsl := slot_ge ((ainfo it shape).unit * items.length)
    refine ⟨hwi, hcw, by rw [hv, hvw w hcw]; omega, Pre, Post, ?_, ?_, ?_, ?_⟩
    rotate_right
    · rw [hvw w hcw]
      exact g7 (fun x hx => by have := hitems x hx; rwa [hvw x (confItems_mem it items hci x hx)] at this)
    · simp [patchesD, hss.1, hss.2, g4]
    · rw [hvw w hcw]
      exact g5 (fun x hx => by have := hitems x hx; rwa [hvw x (confItems_mem it items hci x hx)] at this)
    · intro v2 hc2 _
      obtain ⟨q1, q2⟩ := g6 v2
      refine ⟨hconf2 v2 _ hc2 q2 (setNth_length _ _ _), by simp only [setPartV]; rw [hv, hv, setNth_length], ?_⟩
      simp [setPartV, patchesD, hss.1, hss.2, q1]
  · have hss' : ((ainfo it shape).staticShape && (ainfo it shape).staticType) = false := by simpa using hss
    simp only [hss', Bool.false_eq_true, ↓reduceIte] at h
    by_cases hst : (ainfo it shape).staticType = true
    · simp only [hst, ↓reduceIte] at h
      rcases hopt : itemS (ainfo it shape).unit items k (ainfo it shape).dataOff with _ | ⟨o2, w⟩
      · simp [hopt] at h
      simp only [hopt, Option.map_some, Option.some.injEq, Prod.mk.injEq] at h
      obtain ⟨rfl, rfl, rfl⟩ := h
      obtain ⟨s, hs⟩ : ∃ s, it.ssize = some s := by
        simp only [ainfo] at hst; exact Option.isSome_iff_exists.mp hst
      have hu : (ainfo it shape).unit = s := by simp [ainfo, hs]
      have hsf : (ainfo it shape).staticShape = false := by simpa [hst] using hss'
      obtain ⟨g1, g2, g3, Pre, Post, g4, g5, g6, g7⟩ :=
        itemS_decomp (patchesD it) (ainfo it shape).unit items k (ainfo it shape).dataOff o2 w hopt
      have hcw := confItems_mem it items hci w g1
      have hvw : ∀ x, Conf it x → vsize it x = (ainfo it shape).unit := fun x hx => by rw [hu]; exact conf_ssize it x s hx hs
      have hv : ∀ l : List Val, vsize (.array it shape order) (.arr sh l) =
          slot ((ainfo it shape).dataOff + (ainfo it shape).unit * l.length) := by
        intro l; simp [vsize, hst]
      have hsl := slot_ge ((ainfo it shape).dataOff + (ainfo it shape).unit * items.length)
      refine ⟨hwi, hcw, by rw [hv, hvw w hcw]; omega, (0, words (vsize (.array it shape order) (.arr sh items) :: (dynDims shape sh ++ (if !(ainfo it shape).staticShape && (ainfo it shape).nd > 1 then getStrides sh order (ainfo it shape).unit else [])))) :: Pre, Post, ?_, ?_, ?_, ?_⟩
      rotate_right
      · intro p hp
        rcases List.mem_cons.mp hp with rfl | hp
        · simp only
          rw [header_length it shape order sh _ hm ho hss']
          left; omega
        · have := g7 (fun x hx => by have := hitems x hx; rwa [hvw x (confItems_mem it items hci x hx)] at this) p hp
          rwa [hvw w hcw]
      · simp only [patchesD, hsf, Bool.false_and, Bool.false_eq_true, ↓reduceIte, hst, g4]
        simp
      · rw [hvw w hcw]
        exact g5 (fun x hx => by have := hitems x hx; rwa [hvw x (confItems_mem it items hci x hx)] at this)
      · intro v2 hc2 _
        obtain ⟨q1, q2⟩ := g6 v2
        have hv2 : vsize (.array it shape order) (.arr sh (setNth items k v2)) = vsize (.array it shape order) (.arr sh items) := by
          rw [hv, hv, setNth_length]
        refine ⟨hconf2 v2 _ hc2 q2 (setNth_length _ _ _), by simpa only [setPartV] using hv2, ?_⟩
        simp only [setPartV, patchesD, hsf, Bool.false_and, Bool.false_eq_true, ↓reduceIte, hst, q1, hv2]
        simp
    · simp only [hst, Bool.false_eq_true, ↓reduceIte] at h
      rcases hopt : itemD (vsize it) items k ((ainfo it shape).dataOff + 8 * items.length) with _ | ⟨o2, w⟩
      · simp [hopt] at h
      simp only [hopt, Option.map_some, Option.some.injEq, Prod.mk.injEq] at h
      obtain ⟨rfl, rfl, rfl⟩ := h
      obtain ⟨g1, g2, g3, Pre, Post, g4, g5, g6, g7⟩ :=
        itemD_decomp (patchesD it) (vsize it) items k ((ainfo it shape).dataOff + 8 * items.length) o2 w hopt
      have hcw := confItems_mem it items hci w g1
      have hv : ∀ l : List Val, vsize (.array it shape order) (.arr sh l) =
          slot ((ainfo it shape).dataOff + 8 * l.length + sizesD (vsize it) l) := by
        intro l; simp [vsize, hst]
      have hsl := slot_ge ((ainfo it shape).dataOff + 8 * items.length + sizesD (vsize it) items)
      refine ⟨hwi, hcw, by rw [hv]; omega, (0, words (vsize (.array it shape order) (.arr sh items) :: (dynDims shape sh ++ (if !(ainfo it shape).staticShape && (ainfo it shape).nd > 1 then getStrides sh order (ainfo it shape).unit else [])))) :: ((ainfo it shape).dataOff, words (offsetsD (vsize it) items ((ainfo it shape).dataOff + 8 * items.length))) :: Pre, Post, ?_, g5 hitems, ?_, ?_⟩
      rotate_right
      · intro p hp
        rcases List.mem_cons.mp hp with rfl | hp
        · simp only
          rw [header_length it shape order sh _ hm ho hss']
          left; omega
        · rcases List.mem_cons.mp hp with rfl | hp
          · simp only
            rw [words_length, offsetsD_length]
            left; omega
          · exact g7 hitems p hp
      · simp only [patchesD, Bool.false_eq_true, ↓reduceIte, hst, g4]
        simp
      · intro v2 hc2 hsz
        obtain ⟨q1, q2, q3, q4⟩ := g6 v2 hsz
        have hv2 : vsize (.array it shape order) (.arr sh (setNth items k v2)) = vsize (.array it shape order) (.arr sh items) := by
          rw [hv, hv, setNth_length, q3]
        refine ⟨hconf2 v2 _ hc2 q4 (setNth_length _ _ _), by simpa only [setPartV] using hv2, ?_⟩
        simp only [setPartV, patchesD, Bool.false_eq_true, ↓reduceIte, hst, setNth_length, q1, q2, hv2]
        simp

theorem part_decomp : ∀ (t : Ty) (v : Val) (k o : Nat) (t' : Ty) (v1 : Val), t.WF → Conf t v →
    part t v k = some (o, t', v1) → PartDecomp t v k o t' v1
 | .struct fs, .struct vs, k, o, t', v1, hw, hc, h => part_struct_decomp fs vs k o t' v1 hw hc h
 | .array it shape order, .arr sh items, k, o, t', v1, hw, hc, h => part_array_decomp it shape order sh items k o t' v1 hw hc h
 | .scalar _, _, _, _, _, _, _, _, h | .string, _, _, _, _, _, _, _, h => by simp [part] at h
 | .struct _, .bits _, _, _, _, _, _, hc, _ | .struct _, .str _, _, _, _, _, _, hc, _ | .struct _, .arr _ _, _, _, _, _, _, hc, _
 | .struct _, .cap _, _, _, _, _, _, hc, _ => by simp [Conf] at hc
 | .array _ _ _, .bits _, _, _, _, _, _, hc, _ | .array _ _ _, .str _, _, _, _, _, _, hc, _
 | .array _ _ _, .struct _, _, _, _, _, _, hc, _ | .array _ _ _, .cap _, _, _, _, _, _, hc, _ => by simp [Conf] at hc

theorem outside_shift {ps : List Patch} {lo hi d : Nat} (h : Outside ps lo hi) : Outside (shift d ps) (lo + d) (hi + d) := by
  intro p hp
  obtain ⟨q, hq, rfl⟩ := mem_shift hp
  have := h q hq
  simp only
  omega

theorem outside_mono {ps : List Patch} {lo hi lo' hi' : Nat} (h : Outside ps lo hi) (h1 : lo ≤ lo') (h2 : hi' ≤ hi) :
    Outside ps lo' hi' := by
  intro p hp; have := h p hp; omega

/-- **one leaf, one patch**: the patch lists of an object and of the object with the scalar leaf at path `p` set to `b`
differ in exactly one patch - at the leaf's offset, of the leaf's width - and no later patch touches that place -/
theorem leaf_decomp : ∀ (p : List Nat) (t : Ty) (v : Val) (lo w b : Nat), t.WF → Conf t v →
    leafAt t v p = some (lo, w) → b < 256 ^ w →
    ∃ v' A B x, updAt t v p b = some v' ∧ Conf t v' ∧ vsize t v' = vsize t v ∧
      patchesD t v = A ++ (lo, x) :: B ∧ patchesD t v' = A ++ (lo, le w b) :: B ∧ x.length = w ∧
      Outside B lo (lo + w) ∧ lo + w ≤ vsize t v
 | [], .scalar w', .bits b0, lo, w, b, _, _, h, hb => by
    simp only [leafAt, Option.some.injEq, Prod.mk.injEq] at h
    obtain ⟨rfl, rfl⟩ := h
    refine ⟨.bits b, [], [], le w' b0, by simp [updAt], by simpa [Conf] using hb, by simp [vsize], by simp [patchesD],
      by simp [patchesD], le_length _ _, ?_, by simp [vsize]⟩
    intro p hp; simp at hp
 | [], .scalar _, .str _, _, _, _, _, hc, _, _ | [], .scalar _, .cap _, _, _, _, _, hc, _, _
 | [], .scalar _, .struct _, _, _, _, _, hc, _, _ | [], .scalar _, .arr _ _, _, _, _, _, hc, _, _ => by simp [Conf] at hc
 | [], .string, _, _, _, _, _, _, h, _ | [], .struct _, _, _, _, _, _, _, h, _ | [], .array _ _ _, _, _, _, _, _, _, h, _ => by
    simp [leafAt] at h
 | k :: p, t, v, lo, w, b, hw, hc, h, hb => by
    simp only [leafAt] at h
    rcases hpart : part t v k with _ | ⟨o, t', v1⟩
    · simp [hpart] at h
    simp only [hpart] at h
    rcases hleaf : leafAt t' v1 p with _ | ⟨lo', w'⟩
    · simp [hleaf] at h
    simp only [hleaf, Option.map_some, Option.some.injEq, Prod.mk.injEq] at h
    obtain ⟨rfl, rfl⟩ := h
    obtain ⟨g1, g2, g3, Pre, Post, g4, g5, g6, _⟩ := part_decomp t v k o t' v1 hw hc hpart
    obtain ⟨v1', A, B, x, i1, i2, i3, i4, i5, i6, i7, i8⟩ := leaf_decomp p t' v1 lo' w' b g1 g2 hleaf hb
    obtain ⟨q1, q2, q3⟩ := g6 v1' i2 i3
    refine ⟨setPartV v k v1', Pre ++ shift o A, shift o B ++ Post, x, by simp [updAt, hpart, i1], q1, q2, ?_, ?_, i6, ?_, by omega⟩
    · rw [g4, i4, shift_append, shift_cons]
      simp [List.append_assoc, Nat.add_comm]
    · rw [q3, i5, shift_append, shift_cons]
      simp [List.append_assoc, Nat.add_comm]
    · apply outside_append
      · have := outside_shift (d := o) i7
        exact outside_mono this (by omega) (by omega)
      · exact outside_mono g5 (by omega) (by omega)

/-! ### replacing one patch -/

/-- memories of one length that agree outside `[lo, hi)` still do after the same in-bounds slice assignments -/
theorem apply_congr_outside (ps : List Patch) : ∀ (m1 m2 : Mem) (lo hi : Nat), m1.length = m2.length →
    InBounds ps m1.length → (∀ i, (i < lo ∨ hi ≤ i) → m1[i]? = m2[i]?) →
    ∀ i, (i < lo ∨ hi ≤ i) → (apply ps m1)[i]? = (apply ps m2)[i]? := by
  induction ps with
  | nil => intro m1 m2 lo hi _ _ h; exact h
  | cons q ps ih =>
    intro m1 m2 lo hi hl hb h
    have hq := hb q (by simp)
    have l1 := length_writeAt m1 q.1 q.2 hq
    have l2 := length_writeAt m2 q.1 q.2 (by rw [← hl]; exact hq)
    show ∀ i : Nat, (i < lo ∨ hi ≤ i) → (apply ps (writeAt m1 q.1 q.2))[i]? = (apply ps (writeAt m2 q.1 q.2))[i]?
    apply ih _ _ lo hi (by rw [l1, l2, hl])
    · intro r hr; rw [l1]; exact hb r (List.mem_cons_of_mem _ hr)
    · intro i hi'
      rw [getElem?_writeAt m1 q.1 q.2 hq, getElem?_writeAt m2 q.1 q.2 (by rw [← hl]; exact hq), h i hi']

/-- the image written for the object with one leaf changed is the image written for the object, with the leaf's bytes
replaced: byte for byte, inside and outside the leaf -/
theorem apply_leaf_replaced (A B : List Patch) (lo : Nat) (x y : List UInt8) (m0 : Mem) (hxy : x.length = y.length)
    (hP : InBounds (A ++ (lo, x) :: B) m0.length) (ho : Outside B lo (lo + y.length)) :
    ∀ i : Nat, (apply (A ++ (lo, y) :: B) m0)[i]? = (writeAt (apply (A ++ (lo, x) :: B) m0) lo y)[i]? := by
  intro i
  have hA : InBounds A m0.length := fun q hq => hP q (List.mem_append_left _ hq)
  have hx : lo + x.length ≤ m0.length := hP (lo, x) (by simp)
  have hB : InBounds B m0.length := fun q hq => hP q (List.mem_append_right _ (List.mem_cons_of_mem _ hq))
  have lA := apply_length A m0 hA
  rw [apply_append, apply_append]
  show (apply B (writeAt (apply A m0) lo y))[i]? = (writeAt (apply B (writeAt (apply A m0) lo x)) lo y)[i]?
  have lx := length_writeAt (apply A m0) lo x (by rw [lA]; exact hx)
  have ly := length_writeAt (apply A m0) lo y (by rw [lA, ← hxy]; exact hx)
  have lBx := apply_length B (writeAt (apply A m0) lo x) (by rw [lx, lA]; exact hB)
  rw [getElem?_writeAt _ lo y (by rw [lBx, lx, lA, ← hxy]; exact hx)]
  by_cases hin : lo ≤ i ∧ i < lo + y.length
  · simp only [hin, and_self, if_true]
    have hag := apply_outside B (writeAt (apply A m0) lo y) lo (lo + y.length) ho (by rw [ly, lA]; exact hB)
    rw [hag i hin.1 hin.2, getElem?_writeAt _ lo y (by rw [lA, ← hxy]; exact hx)]
    simp [hin]
  · simp only [hin, if_false]
    apply apply_congr_outside B _ _ lo (lo + y.length) (by rw [lx, ly]) (by rw [ly, lA]; exact hB) ?_ i (by omega)
    intro j hj
    rw [getElem?_writeAt _ lo y (by rw [lA, ← hxy]; exact hx), getElem?_writeAt _ lo x (by rw [lA]; exact hx)]
    have h1 : ¬ (lo ≤ j ∧ j < lo + y.length) := by omega
    have h2 : ¬ (lo ≤ j ∧ j < lo + x.length) := by omega
    simp [h1, h2]

theorem inBounds_shift_of_within {ps : List Patch} {hi off n : Nat} (h : Within ps 0 hi) (hb : off + hi ≤ n) :
    InBounds (shift off ps) n := by
  intro q hq
  obtain ⟨r, hr, rfl⟩ := mem_shift hq
  have := h r hr
  simp only
  omega

/-- **assigning one scalar leaf through any path**: in any memory that holds the written object on its extent, writing the
leaf's bytes at the leaf's address makes a VIEW of the whole object read the value with exactly that leaf replaced -/
theorem set_leaf_rt (t : Ty) (v : Val) (hw : t.WF) (hc : Conf t v) (hs : vsize t v < 2^64)
    (m0 : Mem) (off : Nat) (hbo : off + vsize t v ≤ m0.length) (m : Mem)
    (hm : Agree m (apply (shift off (patchesD t v)) m0) off (off + vsize t v)) (hlen : m.length = m0.length)
    (p : List Nat) (lo w b : Nat) (hl : leafAt t v p = some (lo, w)) (hb : b < 256 ^ w) :
    ∃ v', updAt t v p b = some v' ∧ Conf t v' ∧ vsize t v' = vsize t v ∧ lo + w ≤ vsize t v ∧
      readD t (setScalar m (off + lo) w b) off = v'.norm := by
  obtain ⟨v', A, B, x, i1, i2, i3, i4, i5, i6, i7, i8⟩ := leaf_decomp p t v lo w b hw hc hl hb
  refine ⟨v', i1, i2, i3, i8, ?_⟩
  apply rtD t v' hw i2 (by rw [i3]; exact hs) m0 off (by rw [i3]; exact hbo)
  rw [i3]
  have hy : (le w b).length = w := le_length w b
  have hP : InBounds (shift off (patchesD t v)) m0.length := inBounds_shift_of_within (withinD t v hw hc) hbo
  have hlP := apply_length _ m0 hP
  rw [i4, shift_append, shift_cons] at hP hm hlP
  have key := apply_leaf_replaced (shift off A) (shift off B) (lo + off) x (le w b) m0 (by rw [i6, hy]) hP
    (by rw [hy]; exact outside_mono (outside_shift (d := off) i7) (Nat.le_refl _) (by omega))
  rw [i5, shift_append, shift_cons]
  intro i h1 h2
  rw [key i]
  unfold setScalar
  have e : off + lo = lo + off := Nat.add_comm _ _
  rw [e, getElem?_writeAt m (lo + off) (le w b) (by rw [hy, hlen]; omega),
      getElem?_writeAt _ (lo + off) (le w b) (by rw [hy, hlP]; omega)]
  by_cases hin : lo + off ≤ i ∧ i < lo + off + (le w b).length
  · simp [hin]
  · simp only [hin, if_false]
    exact hm i h1 h2

/-- **a part of a written object is a written object**: a memory that holds the written object `v : t` on its extent holds,
on the extent of its `k`-th part, that part written at its offset (into some memory of the same length) - so everything proved
for written objects (what a view reads, the header words, the strides, item addresses, sizes) holds for every nested part, at
every depth -/
theorem part_agree (t : Ty) (v : Val) (hw : t.WF) (hc : Conf t v) (k o : Nat) (t' : Ty) (v1 : Val)
    (hp : part t v k = some (o, t', v1)) (m0 : Mem) (off : Nat) (hb : off + vsize t v ≤ m0.length) (m' : Mem)
    (hag : Agree m' (apply (shift off (patchesD t v)) m0) off (off + vsize t v)) :
    t'.WF ∧ Conf t' v1 ∧ o + vsize t' v1 ≤ vsize t v ∧
    ∃ m1 : Mem, m1.length = m0.length ∧
      Agree m' (apply (shift (off + o) (patchesD t' v1)) m1) (off + o) (off + o + vsize t' v1) := by
  obtain ⟨g1, g2, g3, Pre, Post, g4, g5, _, _⟩ := part_decomp t v k o t' v1 hw hc hp
  refine ⟨g1, g2, g3, apply (shift off Pre) m0, ?_, ?_⟩
  · apply apply_length
    intro q hq
    have hall : InBounds (shift off (patchesD t v)) m0.length := inBounds_shift_of_within (withinD t v hw hc) hb
    apply hall q
    rw [g4, shift_append, shift_append]
    exact List.mem_append_left _ (List.mem_append_left _ hq)
  · have hall : InBounds (shift off (patchesD t v)) m0.length := inBounds_shift_of_within (withinD t v hw hc) hb
    rw [g4, shift_append, shift_append, shift_shift] at hall hag
    have hpre : InBounds (shift off Pre) m0.length := fun q hq => hall q (List.mem_append_left _ (List.mem_append_left _ hq))
    have hP : InBounds (shift (off + o) (patchesD t' v1)) m0.length :=
      fun q hq => hall q (List.mem_append_left _ (List.mem_append_right _ hq))
    have hpost : InBounds (shift off Post) m0.length := fun q hq => hall q (List.mem_append_right _ hq)
    have hout : Outside (shift off Post) (off + o) (off + o + vsize t' v1) := by
      have := outside_shift (d := off) g5
      exact outside_mono this (by omega) (by omega)
    have hap := agree_part (shift off Pre) (shift (off + o) (patchesD t' v1)) (shift off Post) m0 (off + o)
      (off + o + vsize t' v1) hpre hP hpost hout
    exact agree_trans (agree_mono hag (by omega) (by omega)) hap

/-- along a whole path: the scalar leaf a path ends in is, in any memory holding the written object, a written scalar at the
leaf's address - the view reads the leaf's value there -/
theorem leaf_read : ∀ (p : List Nat) (t : Ty) (v : Val) (lo w : Nat), t.WF → Conf t v → vsize t v < 2 ^ 64 →
    leafAt t v p = some (lo, w) → ∀ (m0 : Mem) (off : Nat), off + vsize t v ≤ m0.length → ∀ (m' : Mem),
    Agree m' (apply (shift off (patchesD t v)) m0) off (off + vsize t v) →
    ∃ b, b < 256 ^ w ∧ getAt t v p = some b ∧ updAt t v p b = some v ∧ fromLE (readAt m' (off + lo) w) = b
 | [], .scalar w', .bits b0, lo, w, _, hc, _, h, m0, off, hb, m', hag => by
    simp only [leafAt, Option.some.injEq, Prod.mk.injEq] at h
    obtain ⟨rfl, rfl⟩ := h
    have hb0 : b0 < 256 ^ w' := by simpa [Conf] using hc
    refine ⟨b0, hb0, by simp [getAt], by simp [updAt], ?_⟩
    have hv : vsize (.scalar w') (.bits b0) = w' := by simp [vsize]
    rw [hv] at hb hag
    simp only [patchesD, shift_cons, shift_nil, apply, List.foldl_cons, List.foldl_nil, Nat.zero_add, Nat.add_zero] at hag ⊢
    rw [readAt_agree hag (Nat.le_refl _) (Nat.le_refl _)]
    have := readAt_writeAt_same m0 off (le w' b0) (by rw [le_length]; exact hb)
    rw [le_length] at this
    rw [this, fromLE_le, Nat.mod_eq_of_lt hb0]
 | [], .scalar _, .str _, _, _, _, hc, _, _, _, _, _, _, _ | [], .scalar _, .cap _, _, _, _, hc, _, _, _, _, _, _, _
 | [], .scalar _, .struct _, _, _, _, hc, _, _, _, _, _, _, _ | [], .scalar _, .arr _ _, _, _, _, hc, _, _, _, _, _, _, _ => by
    simp [Conf] at hc
 | [], .string, _, _, _, _, _, _, h, _, _, _, _, _ | [], .struct _, _, _, _, _, _, _, h, _, _, _, _, _
 | [], .array _ _ _, _, _, _, _, _, _, h, _, _, _, _, _ => by simp [leafAt] at h
 | k :: p, t, v, lo, w, hw, hc, hs, h, m0, off, hb, m', hag => by
    simp only [leafAt] at h
    rcases hpart : part t v k with _ | ⟨o, t', v1⟩
    · simp [hpart] at h
    simp only [hpart] at h
    rcases hleaf : leafAt t' v1 p with _ | ⟨lo', w'⟩
    · simp [hleaf] at h
    simp only [hleaf, Option.map_some, Option.some.injEq, Prod.mk.injEq] at h
    obtain ⟨rfl, rfl⟩ := h
    obtain ⟨g1, g2, g3, m1, hl1, hag1⟩ := part_agree t v hw hc k o t' v1 hpart m0 off hb m' hag
    obtain ⟨b, hb1, hg, hu, hr⟩ := leaf_read p t' v1 lo' w' g1 g2 (by omega) hleaf m1 (off + o) (by rw [hl1]; omega) m' hag1
    refine ⟨b, hb1, by simp [getAt, hpart, hg], ?_, by rw [← Nat.add_assoc]; exact hr⟩
    simp only [updAt, hpart, hu, Option.map_some]
    -- replacing a part by itself is the identity
    have hid : ∀ (t : Ty) (v : Val) (k o : Nat) (t' : Ty) (v1 : Val), part t v k = some (o, t', v1) → setPartV v k v1 = v := by
      intro t v k o t' v1 hp
      have hset : ∀ (vs : List Val) (k : Nat) (x : Val), vs[k]? = some x → setNth vs k x = vs := by
        intro vs
        induction vs with
        | nil => intro k x h; simp at h
        | cons a r ih =>
          intro k x h
          cases k with
          | zero => simp at h; simp [setNth, h]
          | succ k => simp at h; simp [setNth, ih k x h]
      have hsP : ∀ (fs : List Ty) (vs : List Val) (k o o' : Nat) (t' : Ty) (x : Val), sPart fs vs k o = some (o', t', x) → vs[k]? = some x := by
        intro fs
        induction fs with
        | nil => intro vs k o o' t' x h; simp [sPart] at h
        | cons f fr ih =>
          intro vs k o o' t' x h
          cases vs with
          | nil => simp [sPart] at h
          | cons a r =>
            cases k with
            | zero => simp [sPart] at h; simp [h.2.2]
            | succ k => simp only [sPart] at h; simpa using ih r k _ o' t' x h
      have hdP : ∀ (fs : List Ty) (vs : List Val) (k so dof o' : Nat) (t' : Ty) (x : Val), dPart fs vs k so dof = some (o', t', x) → vs[k]? = some x := by
        intro fs
        induction fs with
        | nil => intro vs k so dof o' t' x h; simp [dPart] at h
        | cons f fr ih =>
          intro vs k so dof o' t' x h
          cases vs with
          | nil => simp [dPart] at h
          | cons a r =>
            simp only [dPart] at h
            cases k with
            | zero => split at h <;> simp at h <;> simp [h.2.2]
            | succ k =>
              split at h
              · simp only [Nat.add_one_ne_zero, if_false, Nat.add_sub_cancel] at h; simpa using ih r k _ _ o' t' x h
              · simp only [Nat.add_one_ne_zero, if_false, Nat.add_sub_cancel] at h; simpa using ih r k _ _ o' t' x h
      have hiS : ∀ (isz : Nat) (items : List Val) (k pos o' : Nat) (x : Val), itemS isz items k pos = some (o', x) → items[k]? = some x := by
        intro isz items
        induction items with
        | nil => intro k pos o' x h; simp [itemS] at h
        | cons a r ih =>
          intro k pos o' x h
          cases k with
          | zero => simp [itemS] at h; simp [h.2]
          | succ k => simp only [itemS] at h; simpa using ih k _ o' x h
      have hiD : ∀ (sz : Val → Nat) (items : List Val) (k pos o' : Nat) (x : Val), itemD sz items k pos = some (o', x) → items[k]? = some x := by
        intro sz items
        induction items with
        | nil => intro k pos o' x h; simp [itemD] at h
        | cons a r ih =>
          intro k pos o' x h
          cases k with
          | zero => simp [itemD] at h; simp [h.2]
          | succ k => simp only [itemD] at h; simpa using ih k _ o' x h
      cases t with
      | scalar _ => simp [part] at hp
      | string => simp [part] at hp
      | struct fs =>
        cases v with
        | struct vs =>
          simp only [part] at hp
          simp only [setPartV]
          congr 1
          split at hp
          · exact hset vs k v1 (hsP fs vs k 0 o t' v1 hp)
          · exact hset vs k v1 (hdP fs vs k 8 _ o t' v1 hp)
        | _ => simp [part] at hp
      | array it shape order =>
        cases v with
        | arr sh items =>
          simp only [part] at hp
          simp only [setPartV]
          congr 1
          split at hp
          · rcases h1 : itemS (ainfo it shape).unit items k 0 with _ | ⟨o2, x⟩
            · simp [h1] at hp
            · simp only [h1, Option.map_some, Option.some.injEq, Prod.mk.injEq] at hp
              obtain ⟨_, _, rfl⟩ := hp
              exact hset items k x (hiS _ items k 0 o2 x h1)
          · split at hp
            · rcases h1 : itemS (ainfo it shape).unit items k (ainfo it shape).dataOff with _ | ⟨o2, x⟩
              · simp [h1] at hp
              · simp only [h1, Option.map_some, Option.some.injEq, Prod.mk.injEq] at hp
                obtain ⟨_, _, rfl⟩ := hp
                exact hset items k x (hiS _ items k _ o2 x h1)
            · rcases h1 : itemD (vsize it) items k ((ainfo it shape).dataOff + 8 * items.length) with _ | ⟨o2, x⟩
              · simp [h1] at hp
              · simp only [h1, Option.map_some, Option.some.injEq, Prod.mk.injEq] at hp
                obtain ⟨_, _, rfl⟩ := hp
                exact hset items k x (hiD _ items k _ o2 x h1)
        | _ => simp [part] at hp
    rw [hid t v k o t' v1 hpart]

end Lay
