import Xo.Lemmas.HybridInv
/-! every operation of a history keeps the invariant -/
namespace Hyb

theorem inv_heap (u : Universe) (s : St) (h : Heap) (ex : Nat → Prop) (hi : Inv' u s ex) :
    Inv' u ({ s with heap := h } : St) ex := hi

/-- an instance that may move (no container holds it as a nested part) may change its location; its own nested entries are then
excepted until it is re-initialised -/
theorem inv_setInst_move (u : Universe) (s : St) (i : Nat) (x : Inst) (hi : i < s.insts.length) (h : Inv u s)
    (hmov : (s.inst i).movable = true) (hd : x.dressed = (s.inst i).dressed) :
    Inv' u (s.setInst i x) (fun a => False ∨ a = i) := by
  intro a ha f j hm
  rw [setInst_length'] at ha ⊢
  by_cases hai : a = i
  · subst hai
    rw [setInst_same s a x hi, hd] at hm
    exact ⟨(h a hi f j hm).1, fun he => absurd (Or.inr rfl) he⟩
  · rw [setInst_other s i a x hai] at hm ⊢
    obtain ⟨h1, h2⟩ := h a ha f j hm
    refine ⟨h1, fun _ hk => ?_⟩
    obtain ⟨q1, q2⟩ := h2 (by simp) hk
    by_cases hji : j = i
    · subst hji; rw [hmov] at q2; cases q2
    · rw [setInst_other s i j x hji]; exact ⟨q1, q2⟩

/-- `__get__` keeps the invariant -/
theorem hget_inv (u : Universe) (s : St) (i : Nat) (py : String) (hi : i < s.insts.length) (h : Inv u s) :
    Inv u (hget u s i py).1 ∧ (hget u s i py).1.insts.length = s.insts.length := by
  have key : (hget u s i py).1 = s ∨ ∃ X : Inst, (hget u s i py).1 = s.setInst i X ∧ X.loc = (s.inst i).loc ∧ X.cls = (s.inst i).cls ∧
      X.movable = (s.inst i).movable ∧
      X.dressed = (s.inst i).dressed.filter (fun e => e.1 != xoName (clsOf u (s.inst i).cls) py) := by
    simp only [hget]
    repeat' split
    all_goals first | exact Or.inl rfl | exact Or.inr ⟨_, rfl, rfl, rfl, rfl, rfl⟩
  rcases key with e | ⟨X, e, x1, x2, x3, x4⟩
  · rw [e]; exact ⟨h, rfl⟩
  · rw [e]
    exact ⟨(filter_spec u s i hi _ h _ X x1 x2 x3 x4).2.1, setInst_length' s i X⟩

/-- a nested field assigned a dressed value -/
theorem hsetNested_inv (u : Universe) (s : St) (i : Nat) (f : String) (c' j : Nat) (hi : i < s.insts.length)
    (hj : j < s.insts.length) (h : Inv u s) :
    Inv u (hsetNested u s i f c' j) ∧ s.insts.length ≤ (hsetNested u s i f c' j).insts.length := by
  -- name the intermediate states
  obtain ⟨hp, X, s1, s2, e0, e1, e2, x1, x2, x3, y1, y2, y3, y4⟩ :
      ∃ (hp : Heap) (X : Inst) (s1 s2 : St), hsetNested u s i f c' j = s2.setInst i X ∧
        s1 = (({ s with heap := hp } : St).addInst { cls := c', loc := (s.inst i).loc.sub f, dressed := (s.inst j).dressed, movable := false, py := (s.inst j).py }).2 ∧
        s2 = reinit u 8 s1 s.insts.length ∧
        X.loc = (s2.inst i).loc ∧ X.cls = (s2.inst i).cls ∧ X.movable = (s2.inst i).movable ∧
        X.dressed = ((s2.inst i).dressed.filter (·.1 != f)) ++ [(f, s.insts.length)] ∧ True ∧ True ∧ True :=
    ⟨_, _, _, _, rfl, rfl, rfl, rfl, rfl, rfl, rfl, trivial, trivial, trivial⟩
  rw [e0]
  have hs0 : Inv u ({ s with heap := hp } : St) := inv_heap u s hp _ h
  have l1 : s1.insts.length = s.insts.length + 1 := by rw [e1]; exact addInst_length _ _
  -- the new dressed object takes over the value's cache: valid indices, its own nested entries excepted
  have h1 : Inv' u s1 (fun a => False ∨ a = s.insts.length) := by
    rw [e1]
    apply inv_addInst u ({ s with heap := hp } : St) _ _ (inv_weaken u _ _ _ (fun _ hx => Or.inl hx) hs0)
    intro g c hm
    exact ⟨Nat.lt_succ_of_lt (h j hj g c hm).1, fun he => absurd (Or.inr rfl) he⟩
  obtain ⟨F, h2⟩ := reinit_fix u 7 (reinit_ok u 7) s1 s.insts.length (fun _ => False) (by rw [l1]; omega) (by simp)
    (by intro a ha; cases ha) h1
  rw [← e2] at F h2
  have l2 : s.insts.length + 1 ≤ s2.insts.length := by have := F.2.1; rw [l1] at this; exact this
  have hi2 : i < s2.insts.length := by omega
  have hxi : s2.inst i = s.inst i := by
    rw [F.2.2.1 i (by rw [l1]; omega) (by omega), e1]
    exact addInst_old ({ s with heap := hp } : St) _ i hi
  have hnew := addInst_new ({ s with heap := hp } : St) { cls := c', loc := (s.inst i).loc.sub f, dressed := (s.inst j).dressed, movable := false, py := (s.inst j).py }
  have hjn_loc : (s2.inst s.insts.length).loc = (s.inst i).loc.sub f := by rw [F.2.2.2.1, e1]; exact congrArg Inst.loc hnew
  have hjn_mov : (s2.inst s.insts.length).movable = false := by rw [F.2.2.2.2.2, e1]; exact congrArg Inst.movable hnew
  refine ⟨?_, by rw [setInst_length']; omega⟩
  apply inv_setInst u s2 _ i X hi2 h2 x1 (by rw [x3]; exact id)
  intro g c hm
  rw [y1] at hm
  simp only [List.mem_append, List.mem_filter, List.mem_singleton] at hm
  have hne : s.insts.length ≠ i := by omega
  rcases hm with hm | hm
  · obtain ⟨q1, q2⟩ := h2 i hi2 g c hm.1
    refine ⟨q1, fun he hk => ?_⟩
    rw [x2] at hk
    obtain ⟨r1, r2⟩ := q2 he hk
    rw [x1]
    by_cases hci : c = i
    · subst hci; rw [setInst_same s2 c X hi2, x1, x3]; exact ⟨r1, r2⟩
    · rw [setInst_other s2 i c X hci]; exact ⟨r1, r2⟩
  · obtain ⟨rfl, rfl⟩ := Prod.mk.inj hm
    refine ⟨by omega, fun _ _ => ?_⟩
    rw [setInst_other s2 i _ X hne, x1, hxi]
    exact ⟨hjn_loc, hjn_mov⟩

/-- a reference field assigned a dressed value -/
theorem hsetRef_inv (u : Universe) (s : St) (i : Nat) (f : String) (c' j : Nat) (hi : i < s.insts.length)
    (hj : j < s.insts.length) (hk : fkind (clsOf u (s.inst i).cls) f = some (.ref c')) (h : Inv u s) :
    Inv u (hsetRef u s i f c' j).1 ∧ (hsetRef u s i f c' j).1.insts.length = s.insts.length := by
  by_cases hb : (s.inst j).loc.buf != (s.inst i).loc.buf
  · have : hsetRef u s i f c' j = (s, some .memory) := by simp [hsetRef, hb]
    rw [this]; exact ⟨h, rfl⟩
  · obtain ⟨hp, X, Y, s2, e0, e2, x1, x2, x3, x4, y1, y2, y3⟩ :
        ∃ (hp : Heap) (X Y : Inst) (s2 : St), (hsetRef u s i f c' j).1 = s2.setInst j Y ∧
          s2 = ({ s with heap := hp } : St).setInst i X ∧
          X.loc = (s.inst i).loc ∧ X.cls = (s.inst i).cls ∧ X.movable = (s.inst i).movable ∧
          X.dressed = ((s.inst i).dressed.filter (·.1 != f)) ++ [(f, j)] ∧
          Y.loc = (s2.inst j).loc ∧ Y.movable = false ∧ Y.dressed = (s2.inst j).dressed ∧ Y.cls = (s2.inst j).cls := by
      simp only [hsetRef, hb, Bool.false_eq_true, ↓reduceIte]
      exact ⟨_, _, _, _, rfl, rfl, rfl, rfl, rfl, rfl, rfl, rfl, rfl, rfl⟩
    obtain ⟨y3, y4⟩ := y3
    rw [e0]
    have hs0 : Inv u ({ s with heap := hp } : St) := inv_heap u s hp _ h
    have hi0 : i < ({ s with heap := hp } : St).insts.length := hi
    have h2 : Inv u s2 := by
      rw [e2]
      apply inv_setInst u _ _ i X hi0 hs0 x1 (by rw [x3]; exact id)
      intro g c hm
      rw [x4] at hm
      simp only [List.mem_append, List.mem_filter, List.mem_singleton] at hm
      rcases hm with hm | hm
      · obtain ⟨q1, q2⟩ := h i hi g c hm.1
        refine ⟨q1, fun he hkk => ?_⟩
        rw [x2] at hkk
        obtain ⟨r1, r2⟩ := q2 he hkk
        rw [x1]
        by_cases hci : c = i
        · subst hci; rw [setInst_same _ c X hi0, x1, x3]; exact ⟨r1, r2⟩
        · rw [setInst_other _ i c X hci]; exact ⟨r1, r2⟩
      · obtain ⟨rfl, rfl⟩ := Prod.mk.inj hm
        refine ⟨hj, fun _ hkk => ?_⟩
        rw [x2] at hkk
        exact absurd hkk (nestedKind_not_ref u _ _ c' hk)
    have l2 : s2.insts.length = s.insts.length := by rw [e2]; exact setInst_length' _ _ _
    have hj2 : j < s2.insts.length := by omega
    refine ⟨?_, by rw [setInst_length', l2]⟩
    apply inv_setInst u s2 _ j Y hj2 h2 y1 (fun _ => y2)
    intro g c hm
    rw [y3] at hm
    obtain ⟨q1, q2⟩ := h2 j hj2 g c hm
    refine ⟨q1, fun he hkk => ?_⟩
    rw [y4] at hkk
    obtain ⟨r1, r2⟩ := q2 he hkk
    rw [y1]
    by_cases hcj : c = j
    · subst hcj; rw [setInst_same s2 c Y hj2, y1]; exact ⟨r1, y2⟩
    · rw [setInst_other s2 j c Y hcj]; exact ⟨r1, r2⟩

/-- `__set__` keeps the invariant -/
theorem hset_inv (u : Universe) (s : St) (i : Nat) (py : String) (v : HVal) (hi : i < s.insts.length)
    (hv : v.ok s.insts.length = true) (h : Inv u s) :
    Inv u (hset u s i py v).1 ∧ s.insts.length ≤ (hset u s i py v).1.insts.length := by
  unfold hset
  simp only
  split
  · exact ⟨h, Nat.le_refl _⟩
  · exact ⟨inv_heap u s _ _ h, Nat.le_refl _⟩
  · rename_i c' j hk
    exact hsetNested_inv u s i _ c' j hi (by simpa [HVal.ok] using hv) h
  · rename_i c' j hk
    obtain ⟨q1, q2⟩ := hsetRef_inv u s i _ c' j hi (by simpa [HVal.ok] using hv) hk h
    exact ⟨q1, by rw [q2]; exact Nat.le_refl _⟩
  · rename_i c' hk
    have hs0 : Inv u ({ s with heap := xwrite s.heap ((s.inst i).loc.sub (xoName (clsOf u (s.inst i).cls) py)) (.ref c' none) } : St) :=
      inv_heap u s _ _ h
    refine ⟨?_, by rw [setInst_length']; exact Nat.le_refl _⟩
    exact (filter_spec u ({ s with heap := xwrite s.heap ((s.inst i).loc.sub (xoName (clsOf u (s.inst i).cls) py)) (.ref c' none) } : St)
      i hi _ hs0 (fun e => e.1 != xoName (clsOf u (s.inst i).cls) py)
      { s.inst i with dressed := (s.inst i).dressed.filter (fun e => e.1 != xoName (clsOf u (s.inst i).cls) py) } rfl rfl rfl rfl).2.1
  · exact ⟨h, Nat.le_refl _⟩

/-- a fresh top-level instance (empty cache) followed by `_reinit_from_xobject` -/
theorem fresh_reinit_inv (u : Universe) (s : St) (x : Inst) (hd : x.dressed = []) (h : Inv u s) :
    Inv u (reinit u 8 (s.addInst x).2 s.insts.length) ∧ s.insts.length + 1 ≤ (reinit u 8 (s.addInst x).2 s.insts.length).insts.length := by
  have h1 : Inv u (s.addInst x).2 := inv_addInst u s _ x h (by rw [hd]; intro g c hm; simp at hm)
  obtain ⟨F, h2⟩ := reinit_ok u 8 (s.addInst x).2 s.insts.length (fun _ => False) (by rw [addInst_length]; omega) (by simp)
    (by intro a ha; cases ha) h1
  exact ⟨h2, by have := F.2.1; rw [addInst_length] at this; exact this⟩

theorem hcopy_inv (u : Universe) (s : St) (i dst : Nat) (h : Inv u s) (j : Nat) (s' : St) (hc : hcopy u s i dst = some (j, s')) :
    Inv u s' ∧ s.insts.length ≤ s'.insts.length := by
  unfold hcopy at hc
  simp only at hc
  split at hc
  · rename_i l hp hx
    simp only [Option.some.injEq, Prod.mk.injEq] at hc
    obtain ⟨_, rfl⟩ := hc
    obtain ⟨q1, q2⟩ := fresh_reinit_inv u ({ s with heap := hp } : St)
      { cls := (s.inst i).cls, loc := l, dressed := [], movable := true, py := [] } rfl (inv_heap u s hp _ h)
    exact ⟨q1, Nat.le_of_succ_le q2⟩
  · cases hc

theorem hmove_inv (u : Universe) (s : St) (i dst : Nat) (hi : i < s.insts.length) (h : Inv u s) :
    Inv u (hmove u s i dst).1 ∧ s.insts.length ≤ (hmove u s i dst).1.insts.length := by
  unfold hmove
  simp only
  split
  · exact ⟨h, Nat.le_refl _⟩
  · rename_i hnm
    have hm : (s.inst i).movable = true := by simpa using hnm
    split
    · exact ⟨h, Nat.le_refl _⟩
    · split
      · rename_i l hp hx
        have hs0 : Inv u ({ s with heap := hp } : St) := inv_heap u s hp _ h
        have h1 := inv_setInst_move u ({ s with heap := hp } : St) i { s.inst i with loc := l } hi hs0 hm rfl
        obtain ⟨F, h2⟩ := reinit_fix u 7 (reinit_ok u 7) _ i (fun _ => False)
          (by rw [setInst_length']; exact hi) (by simp) (by intro a ha; cases ha) h1
        exact ⟨h2, by have := F.2.1; rw [setInst_length'] at this; exact this⟩
      · exact ⟨h, Nat.le_refl _⟩

theorem hval_ok_mono (v : HVal) (n m : Nat) (h : v.ok n = true) (hnm : n ≤ m) : v.ok m = true := by
  cases v <;> simp_all [HVal.ok]; omega

/-- the `setattr(self, kk, vv)` loop over the dressed keyword arguments of a constructor -/
theorem hnew_fold_inv (u : Universe) (i n : Nat) : ∀ (kw : List (String × HVal)) (acc : St × Option HErr),
    Inv u acc.1 → i < acc.1.insts.length → n ≤ acc.1.insts.length → (kw.all fun e => e.2.ok n) = true →
    Inv u (kw.foldl (hnewSet u i) acc).1 ∧ i < (kw.foldl (hnewSet u i) acc).1.insts.length
 | [], acc, h, hi, _, _ => ⟨h, hi⟩
 | e :: rest, acc, h, hi, hn, hok => by
    simp only [List.all_cons, Bool.and_eq_true] at hok
    simp only [List.foldl_cons]
    have key : Inv u (hnewSet u i acc e).1 ∧ acc.1.insts.length ≤ (hnewSet u i acc e).1.insts.length := by
      unfold hnewSet
      split
      · exact ⟨h, Nat.le_refl _⟩
      · exact hset_inv u acc.1 i e.1 e.2 hi (hval_ok_mono e.2 n _ hok.1 hn) h
      · exact ⟨h, Nat.le_refl _⟩
    exact hnew_fold_inv u i n rest _ key.1 (Nat.lt_of_lt_of_le hi key.2) (Nat.le_trans hn key.2) hok.2

/-- a constructor call keeps the invariant -/
theorem hnew_inv (u : Universe) (s : St) (cls buf : Nat) (kw : List (String × HVal)) (h : Inv u s)
    (hok : (kw.all fun e => e.2.ok s.insts.length) = true) : Inv u (hnew u s cls buf kw).1 := by
  unfold hnew
  simp only
  have hs0 : Inv u ({ s with heap := (hnewHeap u s cls buf kw).2 } : St) := inv_heap u s _ _ h
  have h1 : Inv u (({ s with heap := (hnewHeap u s cls buf kw).2 } : St).addInst
      { cls, loc := (hnewHeap u s cls buf kw).1, dressed := [], movable := true, py := [] }).2 :=
    inv_addInst u _ _ _ hs0 (by intro g c hm; simp at hm)
  obtain ⟨q1, q2⟩ := hnew_fold_inv u s.insts.length s.insts.length kw (_, none) h1
    (by rw [addInst_length]; exact Nat.lt_succ_self _) (by rw [addInst_length]; exact Nat.le_succ _) hok
  split
  · exact q1
  · exact (reinit_ok u 8 _ _ (fun _ => False) q2 (by simp) (by intro a ha; cases ha) q1).2

/-- **every operation keeps the invariant** -/
theorem step_inv (u : Universe) (s : St) (op : Op) (h : Inv u s) : Inv u (step u s op) := by
  cases op with
  | new cls buf kw =>
    simp only [step]
    split
    · rename_i hok; exact hnew_inv u s cls buf kw h hok
    · exact h
  | get i py =>
    simp only [step]
    split
    · rename_i hi; exact (hget_inv u s i py hi h).1
    · exact h
  | set i py v =>
    simp only [step]
    split
    · rename_i hc
      simp only [Bool.and_eq_true, decide_eq_true_eq] at hc
      exact (hset_inv u s i py v hc.1 hc.2 h).1
    · exact h
  | copy i dst =>
    simp only [step]
    split
    · split
      · rename_i j s' hc; exact (hcopy_inv u s i dst h j s' hc).1
      · exact h
    · exact h
  | move i dst =>
    simp only [step]
    split
    · rename_i hi; exact (hmove_inv u s i dst hi h).1
    · exact h
  | pyset i k v =>
    simp only [step]
    split
    · rename_i hi
      exact (filter_spec u s i hi _ h (fun _ => true)
        { s.inst i with py := ((s.inst i).py.filter (·.1 != k)) ++ [(k, v)] } rfl rfl rfl
        (List.filter_eq_self.mpr (fun _ _ => rfl)).symm).2.1
    · exact h

theorem init_inv (u : Universe) : Inv u initSt := by
  intro i hi; simp [initSt] at hi

/-- **the invariant holds in every reachable state** -/
theorem history_inv (u : Universe) (ops : List Op) : Inv u (ops.foldl (step u) initSt) := by
  suffices hs : ∀ (ops : List Op) (s : St), Inv u s → Inv u (ops.foldl (step u) s) from hs ops initSt (init_inv u)
  intro ops
  induction ops with
  | nil => intro s h; exact h
  | cons op rest ih => intro s h; exact ih _ (step_inv u s op h)

end Hyb
