import Xo.Model.Layout
import Xo.Lemmas.Patch
/-! Lemmas about the layout proof model: sizes, the frame lemma (every patch inside the extent), region classification -/
namespace Lay
open MemS

theorem mem_shift {d : Nat} {ps : List Patch} {q : Patch} (h : q ∈ shift d ps) :
    ∃ p ∈ ps, q = (p.1 + d, p.2) := by
  simp only [shift, List.mem_map] at h
  obtain ⟨p, hp, rfl⟩ := h
  exact ⟨p, hp, rfl⟩

theorem shift_cons (d : Nat) (p : Patch) (ps : List Patch) : shift d (p :: ps) = (p.1 + d, p.2) :: shift d ps := by
  simp [shift]

theorem shift_nil (d : Nat) : shift d [] = [] := rfl

theorem slot_mod (n : Nat) : slot n % 8 = 0 := by unfold slot; omega
theorem slot_lt (n : Nat) : slot n < n + 8 := by unfold slot; omega

theorem words_length (ws : List Nat) : (words ws).length = 8 * ws.length := by
  induction ws with
  | nil => rfl
  | cons w ws ih => simp [words, le_length] at ih ⊢; rw [ih]; omega

theorem staticBytes_of_ssize : ∀ (fs : List Ty) (s : Nat), ssizeFields fs = some s → staticBytes fs = s ∧ ndynF fs = 0
 | [], s, h => by simp [ssizeFields] at h; simp [staticBytes, ndynF, h]
 | t :: ts, s, h => by
    simp only [ssizeFields] at h
    split at h
    · rename_i a b ha hb
      have := staticBytes_of_ssize ts b hb
      simp at h
      simp [staticBytes, ndynF, ha, this, h]
    · simp at h

theorem allStatic_matches : ∀ (shape : List (Option Nat)) (dims sh : List Nat), allStatic shape = some dims →
    shapeMatches shape sh → sh = dims
 | [], dims, [], h, _ => by simp [allStatic] at h; exact h.symm
 | some d :: r, dims, d' :: ds, h, hm => by
    simp only [allStatic, Option.map_eq_some_iff] at h
    obtain ⟨ds', hds, rfl⟩ := h
    obtain ⟨rfl, hm'⟩ := hm
    rw [allStatic_matches r ds' ds hds hm']
 | none :: r, dims, _, h, _ => by simp [allStatic] at h
 | [], _, _ :: _, _, hm => by simp [shapeMatches] at hm
 | some _ :: _, _, [], _, hm => by simp [shapeMatches] at hm

theorem countDyn_zero_allStatic : ∀ (shape : List (Option Nat)), countDyn shape = 0 → ∃ dims, allStatic shape = some dims
 | [], _ => ⟨[], rfl⟩
 | some d :: r, h => by
    obtain ⟨ds, hds⟩ := countDyn_zero_allStatic r (by simpa [countDyn] using h)
    exact ⟨d :: ds, by simp [allStatic, hds]⟩
 | none :: r, h => by simp [countDyn] at h

theorem allStatic_countDyn : ∀ (shape : List (Option Nat)) (dims : List Nat), allStatic shape = some dims → countDyn shape = 0
 | [], _, _ => rfl
 | some d :: r, dims, h => by
    simp only [allStatic, Option.map_eq_some_iff] at h
    obtain ⟨ds', hds, _⟩ := h
    simpa [countDyn] using allStatic_countDyn r ds' hds
 | none :: r, _, h => by simp [allStatic] at h

/-! ### sizes -/

theorem sizesD_static (it : Ty) (s : Nat) (f : Val → Nat) (hf : ∀ v, f v = s) :
    ∀ items : List Val, sizesD f items = slot s * items.length
 | [] => by simp [sizesD]
 | v :: vs => by simp [sizesD, hf v, sizesD_static it s f hf vs, Nat.mul_succ]; omega

mutual
theorem conf_ssize : ∀ (t : Ty) (v : Val) (s : Nat), Conf t v → t.ssize = some s → vsize t v = s
 | .scalar w, .bits b, s, _, h => by simp [Ty.ssize] at h; simp [vsize, h]
 | .string, v, s, _, h => by simp [Ty.ssize] at h
 | .struct fs, .struct vs, s, _, h => by simp only [Ty.ssize] at h; simp [vsize, h]
 | .array it shape order, .arr sh items, s, hc, h => by
    simp only [Ty.ssize] at h
    split at h
    · rename_i a dims ha hd
      injection h with h
      obtain ⟨hm, hl, _, _⟩ := hc
      have hsh := allStatic_matches shape dims sh hd hm
      have hcd := allStatic_countDyn shape dims hd
      simp [vsize, ainfo, ha, hcd, hl, hsh, ← h]
    · cases h
 | .scalar _, .str _, _, hc, _ | .scalar _, .struct _, _, hc, _ | .scalar _, .arr _ _, _, hc, _
 | .scalar _, .cap _, _, hc, _ => by simp [Conf] at hc
 | .struct _, .bits _, _, hc, _ | .struct _, .str _, _, hc, _ | .struct _, .arr _ _, _, hc, _
 | .struct _, .cap _, _, hc, _ => by simp [Conf] at hc
 | .array _ _ _, .bits _, _, hc, _ | .array _ _ _, .str _, _, hc, _ | .array _ _ _, .struct _, _, hc, _
 | .array _ _ _, .cap _, _, hc, _ => by simp [Conf] at hc
end

end Lay

namespace Lay
open MemS

/-! ### well-formed types -/
mutual
def Ty.WF : Ty → Prop
 | .scalar _ => True
 | .string => True
 | .struct fs => WFFields fs
 | .array it shape order => order.length = shape.length ∧ it.WF
def WFFields : List Ty → Prop
 | [] => True
 | t :: ts => t.WF ∧ WFFields ts
end

/-! ### the frame lemma: every slice assignment of the writer lies inside the extent `[0, vsize)` -/

theorem placeS_within (f : Val → List Patch) (isz : Nat) :
    ∀ (items : List Val) (pos : Nat), (∀ v ∈ items, Within (f v) 0 isz) →
      Within (placeS f isz items pos) pos (pos + isz * items.length)
 | [], pos, _ => by intro p hp; simp [placeS] at hp
 | v :: vs, pos, h => by
    simp only [placeS, List.length_cons, Nat.mul_succ]
    apply within_append
    · have := within_shift (d := pos) (h v (List.mem_cons_self))
      exact within_mono this (by omega) (by omega)
    · have := placeS_within f isz vs (pos + isz) (fun x hx => h x (List.mem_cons_of_mem _ hx))
      exact within_mono this (by omega) (by omega)

theorem placeD_within (f : Val → List Patch) (sz : Val → Nat) :
    ∀ (items : List Val) (pos : Nat), (∀ v ∈ items, Within (f v) 0 (sz v)) →
      Within (placeD f sz items pos) pos (pos + sizesD sz items)
 | [], pos, _ => by intro p hp; simp [placeD] at hp
 | v :: vs, pos, h => by
    simp only [placeD, sizesD]
    have hs := slot_ge (sz v)
    apply within_append
    · have := within_shift (d := pos) (h v (List.mem_cons_self))
      exact within_mono this (by omega) (by omega)
    · have := placeD_within f sz vs (pos + slot (sz v)) (fun x hx => h x (List.mem_cons_of_mem _ hx))
      exact within_mono this (by omega) (by omega)

theorem offsetsD_length (sz : Val → Nat) : ∀ (items : List Val) (pos : Nat), (offsetsD sz items pos).length = items.length
 | [], _ => rfl
 | _ :: vs, pos => by simp [offsetsD, offsetsD_length sz vs]

theorem dynDims_length : ∀ (shape : List (Option Nat)) (sh : List Nat), shapeMatches shape sh →
    (dynDims shape sh).length = countDyn shape
 | [], [], _ => rfl
 | some _ :: r, _ :: ds, h => by simp [dynDims, countDyn, dynDims_length r ds h.2]
 | none :: r, _ :: ds, h => by simp [dynDims, countDyn, dynDims_length r ds h]; omega
 | [], _ :: _, h => by simp [shapeMatches] at h
 | some _ :: _, [], h => by simp [shapeMatches] at h
 | none :: _, [], h => by simp [shapeMatches] at h

theorem shapeMatches_length : ∀ (shape : List (Option Nat)) (sh : List Nat), shapeMatches shape sh → sh.length = shape.length
 | [], [], _ => rfl
 | some _ :: r, _ :: ds, h => by simp [shapeMatches_length r ds h.2]
 | none :: r, _ :: ds, h => by simp [shapeMatches_length r ds h]
 | [], _ :: _, h => by simp [shapeMatches] at h
 | some _ :: _, [], h => by simp [shapeMatches] at h
 | none :: _, [], h => by simp [shapeMatches] at h

theorem getStrides_length (shape order : List Nat) (unit : Nat) : (getStrides shape order unit).length = order.length := by
  simp [getStrides]

/-- header of a dynamic array: `[size] ++ dynamic dims ++ (strides if N-D and dynamic shape)` occupies exactly `dataOff` bytes -/
theorem header_length (it : Ty) (shape : List (Option Nat)) (order : List Nat) (sh : List Nat) (size : Nat)
    (hm : shapeMatches shape sh) (ho : order.length = shape.length)
    (hdyn : ((ainfo it shape).staticShape && (ainfo it shape).staticType) = false) :
    (words (size :: (dynDims shape sh ++
      (if !(ainfo it shape).staticShape && (ainfo it shape).nd > 1 then getStrides sh order (ainfo it shape).unit else [])))).length
      = (ainfo it shape).dataOff := by
  rw [words_length]
  have hd := dynDims_length shape sh hm
  simp only [ainfo] at hdyn ⊢
  simp only [List.length_cons, List.length_append, hd]
  by_cases h0 : countDyn shape = 0
  · simp [h0] at hdyn ⊢; simp [hdyn]
  · have hpos : 0 < countDyn shape := by omega
    by_cases hnd : shape.length > 1
    · simp [h0, hnd, hpos, getStrides_length, ho]; omega
    · simp [h0, hnd, hpos]; omega

/-- where the patches of the remaining fields of a dynamic struct may lie: static area, offset slots, dynamic data -/
def In3 (p : Patch) (so sEnd slo shi dlo dhi : Nat) : Prop :=
  (so ≤ p.1 ∧ p.1 + p.2.length ≤ sEnd) ∨ (slo ≤ p.1 ∧ p.1 + p.2.length ≤ shi) ∨ (dlo ≤ p.1 ∧ p.1 + p.2.length ≤ dhi)

theorem confItems_mem (it : Ty) : ∀ (items : List Val), ConfItems it items → ∀ v ∈ items, Conf it v
 | [], _, v, hv => by simp at hv
 | x :: xs, h, v, hv => by
    rcases List.mem_cons.mp hv with rfl | hv
    · exact h.1
    · exact confItems_mem it xs h.2 v hv

mutual
theorem withinD : ∀ (t : Ty) (v : Val), t.WF → Conf t v → Within (patchesD t v) 0 (vsize t v)
 | .scalar w, .bits b, _, _ => by
    intro p hp; simp [patchesD] at hp; subst hp; simp [vsize, le_length]
 | .string, .str bs, _, _ => by
    intro p hp
    have := slot_ge (bs.length + 1 + 8)
    simp only [patchesD, List.mem_cons, List.not_mem_nil, or_false] at hp
    rcases hp with rfl | rfl
    · simp [vsize, le_length]; omega
    · simp [vsize, zeros]; omega
 | .string, .cap n, _, _ => by
    intro p hp
    simp only [patchesD, List.mem_cons, List.not_mem_nil, or_false] at hp
    rcases hp with rfl | rfl
    · simp [vsize, le_length]
    · simp [vsize, zeros]; omega
 | .struct fs, .struct vs, hw, hc => by
    simp only [patchesD]
    split
    · rename_i s hs
      have := withinS fs vs 0 s (by simpa [Ty.WF] using hw) (by simpa [Conf] using hc) hs
      simpa [vsize, hs] using this
    · rename_i hs
      have hv : vsize (.struct fs) (.struct vs) = dynStart fs + dynSizes fs vs := by simp [vsize, hs]
      have h3 := regionsD fs vs 8 0 (dynStart fs) (8 + staticBytes fs) (by simpa [Ty.WF] using hw) (by simpa [Conf] using hc)
      intro p hp
      rcases List.mem_cons.mp hp with rfl | hm
      · simp [le_length, hv, dynStart]; omega
      · have := h3 p hm
        unfold In3 at this
        rw [hv]; unfold dynStart at *
        omega
 | .array it shape order, .arr sh items, hw, hc => by
    obtain ⟨hm, hl, hci, _⟩ := hc
    obtain ⟨ho, hwi⟩ := hw
    have hitems : ∀ v ∈ items, Within (patchesD it v) 0 (vsize it v) := fun v hv =>
      withinD it v hwi (confItems_mem it items hci v hv)
    simp only [patchesD]
    split
    · -- static shape and static items: no header
      rename_i hss
      simp only [Bool.and_eq_true] at hss
      have hst : (ainfo it shape).staticType = true := hss.2
      obtain ⟨s, hs⟩ : ∃ s, it.ssize = some s := by
        simp only [ainfo] at hst; exact Option.isSome_iff_exists.mp hst
      have hu : (ainfo it shape).unit = s := by simp [ainfo, hs]
      have hdo : (ainfo it shape).dataOff = 0 := by
        have h1 : (ainfo it shape).staticShape = true := hss.1
        simp only [ainfo] at h1 hst ⊢
        simp at h1
        simp [h1, hs]
      have := placeS_within (patchesD it) (ainfo it shape).unit items 0 (fun v hv => by
        have := hitems v hv
        rwa [conf_ssize it v s (confItems_mem it items hci v hv) hs, ← hu] at this)
      have hv : vsize (.array it shape order) (.arr sh items) = slot ((ainfo it shape).unit * items.length) := by
        simp [vsize, hst, hdo]
      rw [hv]
      exact within_mono this (Nat.le_refl _) (by have := slot_ge ((ainfo it shape).unit * items.length); omega)
    · rename_i hss
      have hss' : ((ainfo it shape).staticShape && (ainfo it shape).staticType) = false := by simpa using hss
      have hhl := header_length it shape order sh (vsize (.array it shape order) (.arr sh items)) hm ho hss'
      intro p hp
      rcases List.mem_cons.mp hp with rfl | hp
      · -- header
        simp only [hhl]
        by_cases hst : (ainfo it shape).staticType = true
        · simp only [vsize, hst, ↓reduceIte]
          have := slot_ge ((ainfo it shape).dataOff + (ainfo it shape).unit * items.length); omega
        · simp only [vsize, hst, Bool.false_eq_true, ↓reduceIte]
          have := slot_ge ((ainfo it shape).dataOff + 8 * items.length + sizesD (vsize it) items); omega
      · by_cases hst : (ainfo it shape).staticType = true
        · simp only [hst, ↓reduceIte] at hp
          obtain ⟨s, hs⟩ : ∃ s, it.ssize = some s := by
            simp only [ainfo] at hst; exact Option.isSome_iff_exists.mp hst
          have hu : (ainfo it shape).unit = s := by simp [ainfo, hs]
          have := placeS_within (patchesD it) (ainfo it shape).unit items (ainfo it shape).dataOff (fun v hv => by
            have := hitems v hv
            rwa [conf_ssize it v s (confItems_mem it items hci v hv) hs, ← hu] at this) p hp
          simp only [vsize, hst, ↓reduceIte]
          have := slot_ge ((ainfo it shape).dataOff + (ainfo it shape).unit * items.length); omega
        · simp only [hst, Bool.false_eq_true, ↓reduceIte] at hp
          simp only [vsize, hst, Bool.false_eq_true, ↓reduceIte]
          have hsl := slot_ge ((ainfo it shape).dataOff + 8 * items.length + sizesD (vsize it) items)
          rcases List.mem_cons.mp hp with rfl | hp
          · simp [words_length, offsetsD_length]; omega
          · have := placeD_within (patchesD it) (vsize it) items _ hitems p hp
            omega
 | .scalar _, .str _, _, hc | .scalar _, .struct _, _, hc | .scalar _, .arr _ _, _, hc | .scalar _, .cap _, _, hc => by simp [Conf] at hc
 | .string, .bits _, _, hc | .string, .struct _, _, hc | .string, .arr _ _, _, hc => by simp [Conf] at hc
 | .struct _, .bits _, _, hc | .struct _, .str _, _, hc | .struct _, .arr _ _, _, hc | .struct _, .cap _, _, hc => by simp [Conf] at hc
 | .array _ _ _, .bits _, _, hc | .array _ _ _, .str _, _, hc | .array _ _ _, .struct _, _, hc | .array _ _ _, .cap _, _, hc => by simp [Conf] at hc
theorem withinS : ∀ (fs : List Ty) (vs : List Val) (o s : Nat), WFFields fs → ConfFields fs vs → ssizeFields fs = some s →
    Within (sPatches fs vs o) o (o + s)
 | [], [], o, s, _, _, _ => by intro p hp; simp [sPatches] at hp
 | t :: ts, v :: vs, o, s, hw, hc, hs => by
    simp only [ssizeFields] at hs
    split at hs
    · rename_i a b ha hb
      simp only [Option.some.injEq] at hs
      subst hs
      simp only [sPatches, ha, Option.getD_some]
      have h1 := withinD t v hw.1 hc.1
      rw [conf_ssize t v a hc.1 ha] at h1
      have h2 := withinS ts vs (o + slot a) b hw.2 hc.2 hb
      have hsl := slot_ge a
      apply within_append
      · exact within_mono (within_shift (d := o) h1) (by omega) (by omega)
      · exact within_mono h2 (by omega) (by omega)
    · simp at hs
 | [], _ :: _, _, _, _, hc, _ => by simp [ConfFields] at hc
 | _ :: _, [], _, _, _, hc, _ => by simp [ConfFields] at hc
theorem regionsD : ∀ (fs : List Ty) (vs : List Val) (so k dof sb : Nat), WFFields fs → ConfFields fs vs →
    ∀ p ∈ dPatches fs vs so k dof sb,
      In3 p so (so + staticBytes fs) (sb + 8 * (k - 1)) (sb + 8 * (k + ndynF fs - 1)) dof (dof + dynSizes fs vs)
 | [], [], _, _, _, _, _, _ => by intro p hp; simp [dPatches] at hp
 | t :: ts, v :: vs, so, k, dof, sb, hw, hc => by
    intro p hp
    simp only [dPatches] at hp
    split at hp
    · rename_i s hs
      have hv := conf_ssize t v s hc.1 hs
      have hsl := slot_ge s
      rcases List.mem_append.mp hp with h | h
      · have h1 := within_shift (d := so) (withinD t v hw.1 hc.1) p h
        rw [hv] at h1
        left; simp [staticBytes, hs]; omega
      · have := regionsD ts vs (so + slot s) k dof sb hw.2 hc.2 p h
        unfold In3 at *
        simp only [staticBytes, ndynF, dynSizes, hs]
        omega
    · rename_i hs
      have hsl := slot_ge (vsize t v)
      rcases List.mem_append.mp hp with h | h
      · split at h
        · simp at h
        · simp at h; subst h
          right; left
          simp [le_length, ndynF, hs]; omega
      · rcases List.mem_append.mp h with h | h
        · have h1 := within_shift (d := dof) (withinD t v hw.1 hc.1) p h
          right; right
          simp [dynSizes, hs]; omega
        · have := regionsD ts vs so (k + 1) (dof + slot (vsize t v)) sb hw.2 hc.2 p h
          unfold In3 at *
          simp only [staticBytes, ndynF, dynSizes, hs]
          omega
 | [], _ :: _, _, _, _, _, _, hc => by simp [ConfFields] at hc
 | _ :: _, [], _, _, _, _, _, hc => by simp [ConfFields] at hc
end

end Lay

namespace Lay
open MemS

/-! ### round trip of array items (generic in the item writer `f`, reader `g`, size `sz`, expected reading `r`) -/

/-- round-trip premise for one item: whatever memory agrees with the written one on the item's extent reads back `r v` -/
def RT (f : Val → List Patch) (g : Mem → Nat → Val) (sz : Val → Nat) (r : Val → Val) (v : Val) : Prop :=
  ∀ (m : Mem) (off : Nat), off + sz v ≤ m.length →
    ∀ m', Agree m' (apply (shift off (f v)) m) off (off + sz v) → g m' off = r v

theorem placeS_rt (f : Val → List Patch) (g : Mem → Nat → Val) (isz : Nat) (r : Val → Val) :
    ∀ (items : List Val) (pos : Nat), (∀ v ∈ items, Within (f v) 0 isz ∧ RT f g (fun _ => isz) r v) →
    ∀ (m : Mem) (base : Nat), base + pos + isz * items.length ≤ m.length →
    ∀ m', Agree m' (apply (shift base (placeS f isz items pos)) m) (base + pos) (base + pos + isz * items.length) →
    readS g isz m' items.length (base + pos) = items.map r
 | [], _, _, _, _, _, _, _ => by simp [readS]
 | v :: vs, pos, h, m, base, hb, m', hag => by
    obtain ⟨hwv, hrt0⟩ := h v (List.mem_cons_self)
    have hrt : ∀ (m : Mem) (off : Nat), off + isz ≤ m.length →
        ∀ m', Agree m' (apply (shift off (f v)) m) off (off + isz) → g m' off = r v := hrt0
    have hrest : ∀ x ∈ vs, Within (f x) 0 isz ∧ RT f g (fun _ => isz) r x := fun x hx => h x (List.mem_cons_of_mem _ hx)
    simp only [List.length_cons, Nat.mul_succ] at hb hag
    simp only [placeS, shift_append, shift_shift, apply_append] at hag
    simp only [List.length_cons, readS, List.map_cons]
    have hA : Within (shift (base + pos) (f v)) (base + pos) (base + pos + isz) := by
      have := within_shift (d := base + pos) hwv; simpa [Nat.add_comm] using this
    have hB : Within (shift base (placeS f isz vs (pos + isz))) (base + pos + isz) (base + pos + isz + isz * vs.length) := by
      have := within_shift (d := base) (placeS_within f isz vs (pos + isz) (fun x hx => (hrest x hx).1))
      exact within_mono this (by omega) (by omega)
    have hlenA := (apply_frame _ m _ _ hA (by omega)).1
    have hfB := apply_frame _ (apply (shift (base + pos) (f v)) m) _ _ hB (by omega)
    congr 1
    · apply hrt m (base + pos) (by omega) m'
      intro i h1 h2
      rw [hag i h1 (by omega)]
      exact hfB.2 i (by omega)
    · have := placeS_rt f g isz r vs (pos + isz) hrest (apply (shift (base + pos) (f v)) m) base (by omega) m'
        (by intro i h1 h2; exact hag i (by omega) (by omega))
      simpa [Nat.add_assoc] using this

theorem placeD_rt (f : Val → List Patch) (g : Mem → Nat → Val) (sz : Val → Nat) (r : Val → Val) :
    ∀ (items : List Val) (pos ta : Nat), (∀ v ∈ items, Within (f v) 0 (sz v) ∧ RT f g sz r v) →
    ∀ (m : Mem) (base : Nat), base + pos + sizesD sz items ≤ m.length →
    ∀ m', Agree m' (apply (shift base (placeD f sz items pos)) m) (base + pos) (base + pos + sizesD sz items) →
    (∀ j, j < items.length → fromLE (readAt m' (ta + 8 * j) 8) = (offsetsD sz items pos).getD j 0) →
    readT g m' base items.length ta = items.map r
 | [], _, _, _, _, _, _, _, _, _ => by simp [readT]
 | v :: vs, pos, ta, h, m, base, hb, m', hag, htab => by
    obtain ⟨hwv, hrt⟩ := h v (List.mem_cons_self)
    have hrest : ∀ x ∈ vs, Within (f x) 0 (sz x) ∧ RT f g sz r x := fun x hx => h x (List.mem_cons_of_mem _ hx)
    simp only [sizesD] at hb hag
    have hsl := slot_ge (sz v)
    simp only [placeD, shift_append, shift_shift, apply_append] at hag
    simp only [List.length_cons, readT, List.map_cons]
    have h0 := htab 0 (by simp)
    simp only [Nat.mul_zero, Nat.add_zero, offsetsD, List.getD_cons_zero] at h0
    rw [h0]
    have hA : Within (shift (base + pos) (f v)) (base + pos) (base + pos + sz v) := by
      have := within_shift (d := base + pos) hwv; simpa [Nat.add_comm] using this
    have hB : Within (shift base (placeD f sz vs (pos + slot (sz v)))) (base + pos + slot (sz v))
        (base + pos + slot (sz v) + sizesD sz vs) := by
      have := within_shift (d := base) (placeD_within f sz vs (pos + slot (sz v)) (fun x hx => (hrest x hx).1))
      exact within_mono this (by omega) (by omega)
    have hlenA := (apply_frame _ m _ _ hA (by omega)).1
    have hfB := apply_frame _ (apply (shift (base + pos) (f v)) m) _ _ hB (by omega)
    congr 1
    · apply hrt m (base + pos) (by omega) m'
      intro i h1 h2
      rw [hag i h1 (by omega)]
      exact hfB.2 i (by omega)
    · have := placeD_rt f g sz r vs (pos + slot (sz v)) (ta + 8) hrest (apply (shift (base + pos) (f v)) m) base
        (by omega) m' (by intro i h1 h2; exact hag i (by omega) (by omega))
        (by
          intro j hj
          have := htab (j + 1) (by simp; omega)
          simp only [offsetsD, List.getD_cons_succ] at this
          rw [← this]; congr 2; omega)
      exact this

end Lay

namespace Lay
open MemS

/-! ### reading back header words and offset tables -/

theorem readAt_readAt (m : Mem) (a n b k : Nat) (h : b + k ≤ n) :
    readAt (readAt m a n) b k = readAt m (a + b) k := by
  apply List.ext_getElem?
  intro i
  rw [getElem?_readAt, getElem?_readAt, getElem?_readAt]
  by_cases hi : i < k
  · have : b + i < n := by omega
    simp [hi, this, Nat.add_assoc]
  · simp [hi]

theorem readAt_words_entry : ∀ (ws : List Nat) (j : Nat), j < ws.length →
    readAt (words ws) (8 * j) 8 = le 8 (ws.getD j 0)
 | [], j, h => by simp at h
 | w :: ws, 0, _ => by
    simp only [words, List.flatMap_cons, Nat.mul_zero, List.getD_cons_zero]
    unfold readAt
    simp [le_length]
 | w :: ws, j + 1, h => by
    have ih := readAt_words_entry ws j (by simpa using h)
    simp only [words, List.flatMap_cons, List.getD_cons_succ] at ih ⊢
    unfold readAt at ih ⊢
    have : 8 * (j + 1) = 8 + 8 * j := by omega
    rw [this, ← List.drop_drop]
    rw [List.drop_append_of_le_length (by simp [le_length])]
    have h8 : List.drop 8 (le 8 w) = [] := List.drop_eq_nil_of_le (by simp [le_length])
    rw [h8, List.nil_append, ih]

/-- a memory region holding the little-endian words `ws` yields each word back (below 2^64) -/
theorem word_of_region (m : Mem) (a : Nat) (ws : List Nat) (h : readAt m a (8 * ws.length) = words ws)
    (j : Nat) (hj : j < ws.length) (hw : ws.getD j 0 < 2 ^ 64) :
    fromLE (readAt m (a + 8 * j) 8) = ws.getD j 0 := by
  have := readAt_readAt m a (8 * ws.length) (8 * j) 8 (by omega)
  rw [← this, h, readAt_words_entry ws j hj, fromLE_le, Nat.mod_eq_of_lt (by simpa using hw)]

theorem readDims_static (m : Mem) : ∀ (shape : List (Option Nat)) (dims : List Nat) (a : Nat),
    allStatic shape = some dims → readDims m shape a = dims
 | [], dims, _, h => by simp [allStatic] at h; simp [readDims, h]
 | some d :: r, dims, a, h => by
    simp only [allStatic, Option.map_eq_some_iff] at h
    obtain ⟨ds, hds, rfl⟩ := h
    simp [readDims, readDims_static m r ds a hds]
 | none :: _, _, _, h => by simp [allStatic] at h

theorem readDims_dyn (m : Mem) : ∀ (shape : List (Option Nat)) (sh : List Nat) (a : Nat), shapeMatches shape sh →
    (∀ j, j < (dynDims shape sh).length → fromLE (readAt m (a + 8 * j) 8) = (dynDims shape sh).getD j 0) →
    readDims m shape a = sh
 | [], [], _, _, _ => rfl
 | some d :: r, d' :: ds, a, hm, h => by
    obtain ⟨rfl, hm'⟩ := hm
    simp only [readDims, dynDims] at h ⊢
    rw [readDims_dyn m r ds a hm' h]
 | none :: r, d :: ds, a, hm, h => by
    simp only [readDims, dynDims] at h ⊢
    have h0 := h 0 (by simp)
    simp at h0
    rw [h0]
    congr 1
    apply readDims_dyn m r ds (a + 8) hm
    intro j hj
    have := h (j + 1) (by simp; omega)
    simp only [List.getD_cons_succ] at this
    rw [← this]; congr 2; omega
 | [], _ :: _, _, hm, _ => by simp [shapeMatches] at hm
 | some _ :: _, [], _, hm, _ => by simp [shapeMatches] at hm
 | none :: _, [], _, hm, _ => by simp [shapeMatches] at hm

end Lay
