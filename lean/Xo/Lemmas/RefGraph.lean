import Xo.Model.RefGraph
import Xo.Lemmas.Refs
import Xo.Props.C04
/-! Invariant of the reference graph (`Xo/Model/RefGraph.lean`): every reference slot of every live node is null or denotes a
live node of the declared / recorded member class.  Preserved by every operation; the allocator part is `C04_alloc`/`C04_grow`. -/
namespace RG
open MemS Lay Alloc

def regions (s : St) : List Region := s.live.map fun e => (e.addr, e.size)

/-- a live node of class `c` starts at address `a` -/
def IsObj (s : St) (a c : Nat) : Prop := ∃ e ∈ s.live, e.addr = a ∧ e.cls = some c

/-- what a reference slot must satisfy -/
def RefOK (s : St) (fk : FK) (a : Nat) : Prop :=
  match fk with
  | .scal => True
  | .ref c => deref s.b.mem a = none ∨ ∃ t, deref s.b.mem a = some t ∧ IsObj s t c
  | .uref cs => (deref s.b.mem a = none ∧ memberIdx s.b.mem a = -1) ∨
      ∃ (t i c : Nat), deref s.b.mem a = some t ∧ memberIdx s.b.mem a = (i : Int) ∧ cs[i]? = some c ∧ IsObj s t c

/-- universe well-formedness: member lists are not astronomically long (the member index is stored as an int64) -/
def UWF (u : Univ) : Prop := ∀ cl ∈ u, ∀ fk ∈ cl, ∀ cs, fk = .uref cs → cs.length < 2 ^ 62

structure Inv (u : Univ) (s : St) : Prop where
  a : Alloc.Inv s.b.a (regions s)
  mem : s.b.MemOK
  cap : s.b.a.capacity < 2 ^ 62
  wf : ∀ e ∈ s.live, ∀ c, e.cls = some c → ∃ cl, u[c]? = some cl ∧ e.size = csize cl
  refs : ∀ e ∈ s.live, ∀ k fk a, fieldAt u e k = some (fk, a) → RefOK s fk a

/-! ### geometry of a class -/

theorem FK.size_pos (fk : FK) : 8 ≤ fk.size := by cases fk <;> simp [FK.size]

theorem foff_le : ∀ (cl : Cls) (k : Nat) (fk : FK), cl[k]? = some fk → foff cl k + fk.size ≤ csize cl
 | [], k, fk, h => by simp at h
 | f :: r, 0, fk, h => by
    simp only [List.getElem?_cons_zero, Option.some.injEq] at h
    subst h; simp [foff, csize]
 | f :: r, k + 1, fk, h => by
    simp only [List.getElem?_cons_succ] at h
    have := foff_le r k fk h
    simp only [foff, csize]; omega

theorem foff_lt : ∀ (cl : Cls) (k k' : Nat) (fk fk' : FK), cl[k]? = some fk → cl[k']? = some fk' → k < k' →
    foff cl k + fk.size ≤ foff cl k'
 | [], k, _, fk, _, h, _, _ => by simp at h
 | f :: r, 0, k' + 1, fk, fk', h, _, _ => by
    simp only [List.getElem?_cons_zero, Option.some.injEq] at h
    subst h; simp [foff]
 | f :: r, k + 1, k' + 1, fk, fk', h, h', hl => by
    simp only [List.getElem?_cons_succ] at h h'
    have := foff_lt r k k' fk fk' h h' (by omega)
    simp only [foff]; omega
 | f :: r, k, 0, fk, fk', h, h', hl => by omega

theorem fieldAt_spec {u : Univ} {e : Ent} {k : Nat} {fk : FK} {a : Nat} (h : fieldAt u e k = some (fk, a)) :
    ∃ c cl, e.cls = some c ∧ u[c]? = some cl ∧ cl[k]? = some fk ∧ a = e.addr + foff cl k := by
  unfold fieldAt at h
  split at h
  · simp at h
  · rename_i c hc
    split at h
    · simp at h
    · rename_i cl hcl
      split at h
      · simp at h
      · rename_i fk' hfk
        simp only [Option.some.injEq, Prod.mk.injEq] at h
        obtain ⟨rfl, rfl⟩ := h
        exact ⟨c, cl, hc, hcl, hfk, rfl⟩

theorem fieldAt_of {u : Univ} {e : Ent} {k c : Nat} {cl : Cls} {fk : FK} (hc : e.cls = some c) (hcl : u[c]? = some cl)
    (hk : cl[k]? = some fk) : fieldAt u e k = some (fk, e.addr + foff cl k) := by
  unfold fieldAt; rw [hc]; simp only; rw [hcl]; simp only; rw [hk]

/-- a slot lies inside its node -/
theorem slot_in {u : Univ} {s : St} (hi : Inv u s) {e : Ent} (he : e ∈ s.live) {k : Nat} {fk : FK} {a : Nat}
    (h : fieldAt u e k = some (fk, a)) : e.addr ≤ a ∧ a + fk.size ≤ e.addr + e.size ∧ a + fk.size ≤ s.b.mem.length := by
  obtain ⟨c, cl, hc, hcl, hk, rfl⟩ := fieldAt_spec h
  obtain ⟨cl', hcl', hsz⟩ := hi.wf e he c hc
  rw [hcl] at hcl'; cases hcl'
  have := foff_le cl k fk hk
  have hin := hi.a.inb (e.addr, e.size) (List.mem_map.mpr ⟨e, he, rfl⟩)
  have := hi.mem
  unfold Buf.MemOK at this
  simp only at hin
  refine ⟨by omega, by omega, by omega⟩

theorem pw_ne {α : Type} {R : α → α → Prop} (hs : ∀ a b, R a b → R b a) : ∀ {l : List α}, l.Pairwise R →
    ∀ a ∈ l, ∀ b ∈ l, a ≠ b → R a b
 | [], _, a, ha, _, _, _ => by simp at ha
 | x :: l, hp, a, ha, b, hb, hne => by
    rw [List.pairwise_cons] at hp
    rcases List.mem_cons.mp ha with rfl | ha'
    · rcases List.mem_cons.mp hb with rfl | hb'
      · exact absurd rfl hne
      · exact hp.1 b hb'
    · rcases List.mem_cons.mp hb with rfl | hb'
      · exact hs _ _ (hp.1 a ha')
      · exact pw_ne hs hp.2 a ha' b hb' hne

theorem live_disj {u : Univ} {s : St} (hi : Inv u s) {e e' : Ent} (he : e ∈ s.live) (he' : e' ∈ s.live) (hne : e ≠ e') :
    Disjoint (e.addr, e.size) (e'.addr, e'.size) := by
  have hp : s.live.Pairwise fun a b => Disjoint (a.addr, a.size) (b.addr, b.size) := by
    have := hi.a.disj
    unfold regions at this
    exact List.pairwise_map.mp this
  exact pw_ne (fun a b h => Disjoint.symm h) hp e he e' he' hne

/-- two slots of live nodes are the same slot or share no byte -/
theorem slots_disj {u : Univ} {s : St} (hi : Inv u s) {e e' : Ent} (he : e ∈ s.live) (he' : e' ∈ s.live)
    {k k' : Nat} {fk fk' : FK} {a a' : Nat} (h : fieldAt u e k = some (fk, a)) (h' : fieldAt u e' k' = some (fk', a')) :
    (e = e' ∧ k = k') ∨ a + fk.size ≤ a' ∨ a' + fk'.size ≤ a := by
  by_cases hee : e = e'
  · subst hee
    obtain ⟨c, cl, hc, hcl, hk, rfl⟩ := fieldAt_spec h
    obtain ⟨c', cl', hc', hcl', hk', rfl⟩ := fieldAt_spec h'
    rw [hc] at hc'; cases hc'
    rw [hcl] at hcl'; cases hcl'
    rcases Nat.lt_trichotomy k k' with hl | rfl | hl
    · have := foff_lt cl k k' fk fk' hk hk' hl; right; left; omega
    · left; exact ⟨rfl, rfl⟩
    · have := foff_lt cl k' k fk' fk hk' hk hl; right; right; omega
  · right
    have hd := live_disj hi he he' hee
    obtain ⟨i1, i2, _⟩ := slot_in hi he h
    obtain ⟨j1, j2, _⟩ := slot_in hi he' h'
    have p1 := FK.size_pos fk
    have p2 := FK.size_pos fk'
    by_cases hle : a ≤ a'
    · have := hd a'
      unfold Region.Has at this
      simp only at this
      omega
    · have := hd a
      unfold Region.Has at this
      simp only at this
      omega

/-! ### what a slot denotes depends on its own bytes only -/

theorem deref_congr {m m' : Mem} {a : Nat} (h : readAt m' a 8 = readAt m a 8) : deref m' a = deref m a := by
  unfold deref; rw [h]

theorem memberIdx_congr {m m' : Mem} {a : Nat} (h : readAt m' (a + 8) 8 = readAt m (a + 8) 8) :
    memberIdx m' a = memberIdx m a := by
  unfold memberIdx; rw [h]

theorem readAt_sub {m m' : Mem} {a n : Nat} (h : readAt m' a n = readAt m a n) (b k : Nat) (hk : b + k ≤ n) :
    readAt m' (a + b) k = readAt m (a + b) k := by
  rw [← readAt_readAt m' a n b k hk, ← readAt_readAt m a n b k hk, h]

theorem refOK_transfer {s s' : St} {fk : FK} {a : Nat} (hlive : ∀ t c, IsObj s t c → IsObj s' t c)
    (hmem : readAt s'.b.mem a fk.size = readAt s.b.mem a fk.size) (h : RefOK s fk a) : RefOK s' fk a := by
  cases fk with
  | scal => trivial
  | ref c =>
    have hd : deref s'.b.mem a = deref s.b.mem a := deref_congr (by simpa [FK.size] using hmem)
    unfold RefOK at *
    simp only at *
    rw [hd]
    rcases h with h | ⟨t, h1, h2⟩
    · exact Or.inl h
    · exact Or.inr ⟨t, h1, hlive t c h2⟩
  | uref cs =>
    have h8 := readAt_sub hmem 0 8 (by simp [FK.size])
    have h16 := readAt_sub hmem 8 8 (by simp [FK.size])
    have hd : deref s'.b.mem a = deref s.b.mem a := deref_congr (by simpa using h8)
    have hm : memberIdx s'.b.mem a = memberIdx s.b.mem a := memberIdx_congr h16
    unfold RefOK at *
    simp only at *
    rw [hd, hm]
    rcases h with h | ⟨t, i, c, h1, h2, h3, h4⟩
    · exact Or.inl h
    · exact Or.inr ⟨t, i, c, h1, h2, h3, hlive t c h4⟩

/-! ### memory helpers -/

theorem readAt_writeAt_inside (m : Mem) (off : Nat) (bs : List UInt8) (h : off + bs.length ≤ m.length)
    (o2 n : Nat) (h1 : off ≤ o2) (h2 : o2 + n ≤ off + bs.length) :
    readAt (writeAt m off bs) o2 n = readAt bs (o2 - off) n := by
  apply List.ext_getElem?
  intro i
  rw [getElem?_readAt, getElem?_readAt, getElem?_writeAt _ _ _ h]
  by_cases hi : i < n
  · have : off ≤ o2 + i ∧ o2 + i < off + bs.length := by omega
    simp only [hi, this, and_self, ↓reduceIte]
    congr 1; omega
  · simp [hi]

theorem readAt_append_right (a b : List UInt8) (off n : Nat) : readAt (a ++ b) (a.length + off) n = readAt b off n := by
  apply List.ext_getElem?
  intro i
  rw [getElem?_readAt, getElem?_readAt]
  by_cases hi : i < n
  · simp only [hi, ↓reduceIte]
    rw [List.getElem?_append_right (by omega)]
    congr 1; omega
  · simp [hi]

theorem readAt_append_left (a b : List UInt8) : readAt (a ++ b) 0 a.length = a := by
  unfold readAt; simp

theorem deref_null_bytes {m : Mem} {a : Nat} (h : readAt m a 8 = refNullBytes) : deref m a = none := by
  unfold deref refNullBytes at *
  rw [h, i64of_i64le NULLV (by decide) (by decide)]; simp

theorem uref_null_bytes {m : Mem} {a : Nat} (h : readAt m a 16 = urefNullBytes) :
    deref m a = none ∧ memberIdx m a = -1 := by
  have h1 : readAt m a 8 = i64le NULLV := by
    have := readAt_readAt m a 16 0 8 (by omega)
    rw [Nat.add_zero] at this
    rw [← this, h]; simp [urefNullBytes, readAt, i64le_length]
  have h2 : readAt m (a + 8) 8 = i64le (-1) := by
    have := readAt_readAt m a 16 8 8 (by omega)
    rw [← this, h]; simp [urefNullBytes, readAt, i64le_length]
    exact List.take_of_length_le (by rw [i64le_length]; exact Nat.le_refl 8)
  constructor
  · unfold deref; rw [h1, i64of_i64le NULLV (by decide) (by decide)]; simp
  · unfold memberIdx; rw [h2, i64of_i64le (-1) (by decide) (by decide)]

theorem initBytes_length : ∀ (cl : Cls) (vs : List Nat), (initBytes cl vs).length = csize cl
 | [], _ => rfl
 | .scal :: r, vs => by simp [initBytes, csize, FK.size, le_length, initBytes_length r]
 | .ref _ :: r, vs => by simp [initBytes, csize, FK.size, refNullBytes, i64le_length, initBytes_length r]
 | .uref _ :: r, vs => by simp [initBytes, csize, FK.size, urefNullBytes, i64le_length, initBytes_length r]; omega

/-- the bytes of a reference field of a freshly constructed node are the null encoding -/
theorem initBytes_ref : ∀ (cl : Cls) (vs : List Nat) (k c : Nat), cl[k]? = some (.ref c) →
    readAt (initBytes cl vs) (foff cl k) 8 = refNullBytes
 | [], _, k, _, h => by simp at h
 | f :: r, vs, 0, c, h => by
    simp only [List.getElem?_cons_zero, Option.some.injEq] at h
    subst h
    simp only [initBytes, foff]
    have := readAt_append_left refNullBytes (initBytes r vs)
    simpa [refNullBytes, i64le_length] using this
 | .scal :: r, vs, k + 1, c, h => by
    simp only [List.getElem?_cons_succ] at h
    simp only [initBytes, foff, FK.size]
    have := readAt_append_right (le 8 (vs.headD 0)) (initBytes r vs.tail) (foff r k) 8
    rw [le_length] at this
    rw [this]; exact initBytes_ref r vs.tail k c h
 | .ref _ :: r, vs, k + 1, c, h => by
    simp only [List.getElem?_cons_succ] at h
    simp only [initBytes, foff, FK.size]
    have := readAt_append_right refNullBytes (initBytes r vs) (foff r k) 8
    rw [show refNullBytes.length = 8 from i64le_length _] at this
    rw [this]; exact initBytes_ref r vs k c h
 | .uref _ :: r, vs, k + 1, c, h => by
    simp only [List.getElem?_cons_succ] at h
    simp only [initBytes, foff, FK.size]
    have := readAt_append_right urefNullBytes (initBytes r vs) (foff r k) 8
    rw [show urefNullBytes.length = 16 by simp [urefNullBytes, i64le_length]] at this
    rw [this]; exact initBytes_ref r vs k c h

theorem initBytes_uref : ∀ (cl : Cls) (vs : List Nat) (k : Nat) (cs : List Nat), cl[k]? = some (.uref cs) →
    readAt (initBytes cl vs) (foff cl k) 16 = urefNullBytes
 | [], _, k, _, h => by simp at h
 | f :: r, vs, 0, c, h => by
    simp only [List.getElem?_cons_zero, Option.some.injEq] at h
    subst h
    simp only [initBytes, foff]
    have := readAt_append_left urefNullBytes (initBytes r vs)
    simpa [urefNullBytes, i64le_length] using this
 | .scal :: r, vs, k + 1, c, h => by
    simp only [List.getElem?_cons_succ] at h
    simp only [initBytes, foff, FK.size]
    have := readAt_append_right (le 8 (vs.headD 0)) (initBytes r vs.tail) (foff r k) 16
    rw [le_length] at this
    rw [this]; exact initBytes_uref r vs.tail k c h
 | .ref _ :: r, vs, k + 1, c, h => by
    simp only [List.getElem?_cons_succ] at h
    simp only [initBytes, foff, FK.size]
    have := readAt_append_right refNullBytes (initBytes r vs) (foff r k) 16
    rw [show refNullBytes.length = 8 from i64le_length _] at this
    rw [this]; exact initBytes_uref r vs k c h
 | .uref _ :: r, vs, k + 1, c, h => by
    simp only [List.getElem?_cons_succ] at h
    simp only [initBytes, foff, FK.size]
    have := readAt_append_right urefNullBytes (initBytes r vs) (foff r k) 16
    rw [show urefNullBytes.length = 16 by simp [urefNullBytes, i64le_length]] at this
    rw [this]; exact initBytes_uref r vs k c h

theorem findObj_spec {s : St} {a : Nat} {e : Ent} (h : findObj s a = some e) : e ∈ s.live ∧ e.addr = a ∧ ∃ c, e.cls = some c := by
  unfold findObj at h
  have hm := List.mem_of_find?_eq_some h
  have hp := List.find?_some h
  simp only [Bool.and_eq_true, beq_iff_eq] at hp
  refine ⟨hm, hp.1, ?_⟩
  cases hc : e.cls with
  | none => rw [hc] at hp; simp at hp
  | some c => exact ⟨c, rfl⟩


/-! ### copy construction -/

theorem uref_of_bytes {m : Mem} {a t i : Nat} (hs : a < 2 ^ 62) (ht : t < 2 ^ 62) (hi : i < 2 ^ 62)
    (h : readAt m a 16 = urefBytes a t i) : deref m a = some t ∧ memberIdx m a = (i : Int) := by
  have h1 : readAt m a 8 = refBytes a t := by
    have := readAt_readAt m a 16 0 8 (by omega)
    rw [Nat.add_zero] at this
    rw [← this, h]; simp [urefBytes, refBytes, readAt, i64le_length]
  have h2 : readAt m (a + 8) 8 = i64le (i : Int) := by
    have := readAt_readAt m a 16 8 8 (by omega)
    rw [← this, h]; simp [urefBytes, refBytes, readAt, i64le_length]
    exact List.take_of_length_le (by rw [i64le_length]; exact Nat.le_refl 8)
  constructor
  · exact deref_of_bytes m a t hs ht h1
  · unfold memberIdx; rw [h2, i64of_i64le _ (by omega) (by omega)]

theorem copyField_length (s : St) (fk : FK) (sa da : Nat) : (copyField s fk sa da).length = fk.size := by
  cases fk with
  | scal => simp [copyField, le_length, FK.size]
  | ref c =>
    simp only [copyField, FK.size]
    split <;> simp [refNullBytes, refBytes, i64le_length]
  | uref cs =>
    simp only [copyField, FK.size]
    split <;> simp [urefNullBytes, urefBytes, refBytes, i64le_length]

theorem copyBytesF_length (s : St) : ∀ (cl : Cls) (sa da : Nat), (copyBytesF s cl sa da).length = csize cl
 | [], _, _ => rfl
 | fk :: r, sa, da => by
    simp only [copyBytesF, List.length_append, copyField_length, copyBytesF_length s r, csize]

/-- the bytes of field `k` of a copy -/
theorem copyBytesF_field (s : St) : ∀ (cl : Cls) (sa da k : Nat) (fk : FK), cl[k]? = some fk →
    readAt (copyBytesF s cl sa da) (foff cl k) fk.size = copyField s fk (sa + foff cl k) (da + foff cl k)
 | [], _, _, k, _, h => by simp at h
 | f :: r, sa, da, 0, fk, h => by
    simp only [List.getElem?_cons_zero, Option.some.injEq] at h
    subst h
    simp only [copyBytesF, foff, Nat.add_zero]
    have := readAt_append_left (copyField s f sa da) (copyBytesF s r (sa + f.size) (da + f.size))
    rwa [copyField_length] at this
 | f :: r, sa, da, k + 1, fk, h => by
    simp only [List.getElem?_cons_succ] at h
    simp only [copyBytesF, foff]
    have := readAt_append_right (copyField s f sa da) (copyBytesF s r (sa + f.size) (da + f.size)) (foff r k) fk.size
    rw [copyField_length] at this
    rw [this, copyBytesF_field s r _ _ k fk h]
    congr 1 <;> omega

/-! ### one slot is written -/

theorem inv_wr {u : Univ} {s : St} (hi : Inv u s) {e0 : Ent} (he0 : e0 ∈ s.live) {k0 : Nat} {fk0 : FK} {x : Nat}
    (hf0 : fieldAt u e0 k0 = some (fk0, x)) (bs : List UInt8) (hlen : bs.length = fk0.size)
    (hnew : RefOK (wr s x bs) fk0 x) : Inv u (wr s x bs) := by
  obtain ⟨_, _, hfit⟩ := slot_in hi he0 hf0
  have hfit' : x + bs.length ≤ s.b.mem.length := by rw [hlen]; exact hfit
  exact {
    a := hi.a
    mem := by
      have := hi.mem
      unfold Buf.MemOK at *
      simp only [wr]
      rw [length_writeAt _ _ _ hfit']; exact this
    cap := hi.cap
    wf := hi.wf
    refs := by
      intro e he k fk a hf
      rcases slots_disj hi he he0 hf hf0 with ⟨rfl, rfl⟩ | hd
      · rw [hf0] at hf
        simp only [Option.some.injEq, Prod.mk.injEq] at hf
        obtain ⟨rfl, rfl⟩ := hf
        exact hnew
      · refine refOK_transfer (s := s) (s' := wr s x bs) (fun t c h => h) ?_ (hi.refs e he k fk a hf)
        simp only [wr]
        exact readAt_writeAt_disj _ _ _ hfit' _ _ (by rw [hlen]; omega) }

end RG
