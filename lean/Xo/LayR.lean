import Xo.LayM
import Xo.Model.Index
namespace LayM
open CGen
/-! Reader side: views (`_from_buffer`), element access, deep read, assignment (`__set__`/`__setitem__`/`_update`),
    mirroring the tree WITH the prototype fixes (O-8, O-9, O-11, O-12). -/

def rd (m : Mem) (off n : Nat) : List UInt8 := (List.range n).map fun i => m.getD (off + i) 0
def fromLE (bs : List UInt8) : Nat := bs.foldr (fun b acc => b.toNat + 256 * acc) 0
def rdU64 (m : Mem) (off : Nat) : Nat := fromLE (rd m off 8)
def rdI64 (m : Mem) (off : Nat) : Int := let u := rdU64 m off; if u ≥ 2^63 then (u : Int) - 2^64 else u

inductive Err | index | value | type | key
deriving Repr, DecidableEq
def Err.str : Err → String | .index => "Index" | .value => "Value" | .type => "Type" | .key => "Key"

/-- what `_from_buffer` caches for an array view -/
structure ArrView where
  size : Nat
  shape : List Nat
  strides : List Nat
  table : List Nat          -- item offsets in MEMORY order (as stored), empty for static items
deriving Repr

def arrView (t : Ty) (m : Mem) (off : Nat) : ArrView :=
  match t with
  | .array it shp ord =>
    let ai := arrInfo it shp ord
    let isz := match it.ssize with | some s => s | none => 8
    if ai.staticShape && ai.staticType then
      let shape := shp.map (·.getD 0)
      { size := (t.ssize).getD 0, shape, strides := getStrides shape ord isz, table := [] }
    else
      let size := rdU64 m off
      let (shape, c1) := shp.foldl (fun (acc : List Nat × Nat) d =>
          match d with
          | some k => (acc.1 ++ [k], acc.2)
          | none => (acc.1 ++ [rdU64 m acc.2], acc.2 + 8)) ([], off + 8)
      let nd := shp.length
      let (strides, c2) : List Nat × Nat :=
        if ai.staticShape then (getStrides shape ord isz, c1)
        else if nd > 1 then ((List.range nd).map fun i => rdU64 m (c1 + 8 * i), c1 + 8 * nd)
        else ([isz], c1)
      let table := if ai.staticType then [] else (List.range (prod shape)).map fun i => rdU64 m (c2 + 8 * i)
      { size, shape, strides, table }
  | _ => { size := 0, shape := [], strides := [], table := [] }

/-- memory-order position of an index tuple (what the reshape/transpose of the view's table implements) -/
def mpos (shape order idx : List Nat) : Nat :=
  let cshape := order.map fun io => shape.getD io 0
  let ii := order.map fun io => idx.getD io 0
  cpos cshape ii

/-- address of item `idx` of the array at `off` (bound-checked, O-12) -/
def itemAddr (t : Ty) (m : Mem) (off : Nat) (idx : List Int) : Except Err Nat :=
  match t with
  | .array it shp ord =>
    let av := arrView t m off
    let ai := arrInfo it shp ord
    if !Lay.boundCheck av.shape idx then .error .index          -- the definition the C11 index theorems are about
    else
      let ix := idx.map Int.toNat
      if ai.staticType then
        .ok (off + ai.dataOffset + ((ix.zip av.strides).map fun (i, s) => i * s).sum)
      else .ok (off + av.table.getD (mpos av.shape ord ix) 0)
  | _ => .error .type

/-- address and stored type of field `name` of the struct at `off` (view semantics: offsets re-read from memory) -/
def fieldAddr (t : Ty) (m : Mem) (off : Nat) (name : String) : Except Err (Ty × Nat) :=
  match t with
  | .struct _ fs =>
    let lay := fieldLayout fs
    match (fs.zip lay).find? (fun (f, _) => f.1 == name) with
    | some ((_, ft), (o, isRef)) => .ok (ft, if isRef then off + rdU64 m (off + o) else off + o)
    | none => .error .key
  | _ => .error .type

inductive Step | field (n : String) | item (idx : List Int)
deriving Repr

/-- what reading a location yields: (type, offset) with refs resolved the way `_from_buffer` does; none = None -/
def resolve (t : Ty) (m : Mem) (off : Nat) : Option (Ty × Nat) :=
  match t with
  | .ref tt =>
    let r := rdI64 m off
    if r == -(2^63 : Int) then none else some (tt, ((off : Int) + r).toNat)
  | .unionref _ ms =>
    let r := rdI64 m off
    if r == -(2^63 : Int) then none else
    let tid := rdI64 m (off + 8)
    some (ms.getD tid.toNat default, ((off : Int) + r).toNat)
  | _ => some (t, off)

/-- follow a path of python accesses starting from an object (type, offset); returns the SLOT (declared type, address) -/
def follow (m : Mem) : Ty → Nat → List Step → Except Err (Ty × Nat)
 | t, off, [] => .ok (t, off)
 | t, off, s :: rest =>
    match resolve t m off with
    | none => .error .type            -- attribute access on None
    | some (t', off') =>
      match s with
      | .field n => do let (ft, a) ← fieldAddr t' m off' n; follow m ft a rest
      | .item idx =>
        match t' with
        | .array it _ _ => do let a ← itemAddr t' m off' idx; follow m it a rest
        | _ => .error .type

def hexBytes (bs : List UInt8) : String :=
  bs.foldl (fun acc b => acc ++ (if b < 16 then "0" else "") ++ String.ofList (Nat.toDigits 16 b.toNat)) ""

def stripNul (bs : List UInt8) : List UInt8 := (bs.reverse.dropWhile (· == 0)).reverse

/-- canonical deep value of the object at a slot -/
partial def deep (m : Mem) (t : Ty) (off : Nat) : String :=
  match t with
  | .scalar s => s!"b{fromLE (rd m off s.size)}"
  | .string => let size := rdU64 m off; s!"s{hexBytes (stripNul (rd m (off + 8) (size - 8)))}"
  | .ref _ | .unionref .. =>
    match resolve t m off with
    | none => "N"
    | some (tt, o) =>
      match t with
      | .unionref .. => s!"U{rdI64 m (off + 8)}:{deep m tt o}"
      | _ => deep m tt o
  | .struct _ fs =>
    "{" ++ ",".intercalate (fs.map fun (n, _) =>
      match fieldAddr t m off n with
      | .ok (ft, a) => s!"{n}={deep m ft a}"
      | .error _ => s!"{n}=?") ++ "}"
  | .array it _ _ =>
    let av := arrView t m off
    let idxs := ndindex av.shape
    "[" ++ " ".intercalate (av.shape.map toString) ++ "|" ++ ",".intercalate (idxs.map fun idx =>
      match itemAddr t m off (idx.map Int.ofNat) with
      | .ok a => deep m it a
      | .error _ => "?") ++ "]"

/-- caches of a view, canonical -/
def viewCaches (m : Mem) (t : Ty) (off : Nat) : String :=
  match t with
  | .array .. => let av := arrView t m off; s!"size {av.size} shape {av.shape} strides {av.strides}"
  | .struct _ fs =>
    let size := match fieldsSize fs with | some s => s | none => rdU64 m off
    s!"size {size}"
  | _ => ""

/-- Array._to_buffer with a forced size word (for _update, O-11) -/
def forceSize (b : Buf) (t : Ty) (off cur : Nat) : Buf :=
  match t with
  | .array it shp ord => let ai := arrInfo it shp ord; if ai.staticShape && ai.staticType then b else wr b off (le 8 cur)
  | _ => b

/-- assignment to a slot: Field.__set__ / Array.__setitem__ (effects kept on the error path) -/
partial def assign (t : Ty) (off : Nat) (v : VIn) (b : Buf) : Buf × Option Err :=
  match t with
  | .scalar _ => (toBuffer t v off b, none)
  | .string =>
    -- _rewrite: refuse if too large, keep the capacity
    let cur := rdU64 b.mem off
    match v with
    | .str bs =>
      let need := slot (bs.length + 1 + 8)
      if need > cur then (b, some .value)
      else
        let b := wr b off (le 8 cur)
        (wr b (off + 8) (bs ++ List.replicate (cur - 8 - bs.length) 0), none)
    | .cap n =>
      -- an integer (capacity) assigned to an existing string: fits iff n + 8 <= stored size; the data area is zeroed
      if n + 8 > cur then (b, some .value)
      else
        let b := wr b off (le 8 cur)
        (wr b (off + 8) (List.replicate (cur - 8) 0), none)
    | _ => (b, some .value)
  | .ref _ | .unionref .. => (toBuffer t v off b, none)
  | .struct _ fs =>
    -- Struct._update with a dict: field by field, in declaration order, only the fields present
    match v with
    | .dict d =>
      fs.foldl (fun (acc : Buf × Option Err) (n, _) =>
        match acc.2 with
        | some _ => acc
        | none =>
          match d.lookup n with
          | none => acc
          | some fv =>
            match fieldAddr t acc.1.mem off n with
            | .ok (ft, a) => assign ft a fv acc.1
            | .error e => (acc.1, some e)) (b, none)
    | _ => (b, some .value)
  | .array it shp ord =>
    -- Array._update: shapes must match; plan first; refuse if it needs more than the stored size
    let av := arrView t b.mem off
    let nd := shp.length
    let vshape := shapeOf v nd
    if vshape != av.shape then (b, some .value)
    else
      let p := arrPlan t v
      if p.size > av.size then (b, some .value)
      else
        let b := toBuffer t v off b
        (forceSize b t off av.size, none)
end LayM
